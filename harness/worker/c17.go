//go:build verif

package main

import (
	"fmt"
	"image"
	"image/color"
	"strings"

	"github.com/makiuchi-d/gozxing"
	"github.com/makiuchi-d/gozxing/datamatrix"
	"github.com/makiuchi-d/gozxing/oned"
	"github.com/makiuchi-d/gozxing/qrcode"

	"verifharness/fw"
)

// C17: luminance views (crop / invert / rotate compositions on every source
// kind) against a naive [][]uint8 model with an explicit view rectangle, and
// both binarisers on bilevel images against (lum == 0).

func init() {
	fw.Register("C17", c17)
	fw.RegisterSelfTest("c17-models", c17SelfTest)
}

// ---------------------------------------------------------------- view model

// c17View is the specification of a view: a rectangle (L,T,w,h) of an
// underlying image und[y][x] (H rows, W columns), optionally inverted.
type c17View struct {
	und        [][]uint8
	W, H       int
	L, T, w, h int
	inv        bool
}

func c17NewPixels(W, H int) [][]uint8 {
	p := make([][]uint8, H)
	for y := range p {
		p[y] = make([]uint8, W)
	}
	return p
}

func (v *c17View) at(x, y int) uint8 {
	p := v.und[v.T+y][v.L+x]
	if v.inv {
		return 255 - p
	}
	return p
}

func (v *c17View) row(y int) []uint8 {
	out := make([]uint8, v.w)
	for x := range out {
		out[x] = v.at(x, y)
	}
	return out
}

// rotate: a quarter turn counter-clockwise. A pixel at (x, y) of an image of
// width W moves to (y, W-1-x); the image becomes H wide and W high.
func (v *c17View) rotate() *c17View {
	n := c17NewPixels(v.H, v.W)
	for y := 0; y < v.H; y++ {
		for x := 0; x < v.W; x++ {
			n[v.W-1-x][y] = v.und[y][x]
		}
	}
	// the view rectangle turns with the image: its top-right corner (L+w-1, T) becomes the new top-left
	return &c17View{und: n, W: v.H, H: v.W, L: v.T, T: v.W - (v.L + v.w), w: v.h, h: v.w, inv: v.inv}
}

const (
	c17CropIn  = iota // inside the view: must succeed
	c17CropNeg        // negative origin: must fail
	c17CropOut        // leaves the underlying image: must fail
	c17CropDC         // leaves the view, stays inside the underlying image: fail or underlying pixels
)

func (v *c17View) classify(l, t, cw, ch int) int {
	if l < 0 || t < 0 {
		return c17CropNeg
	}
	if v.L+l+cw > v.W || v.T+t+ch > v.H {
		return c17CropOut
	}
	if l+cw > v.w || t+ch > v.h {
		return c17CropDC
	}
	return c17CropIn
}

func (v *c17View) crop(l, t, cw, ch int) *c17View {
	return &c17View{und: v.und, W: v.W, H: v.H, L: v.L + l, T: v.T + t, w: cw, h: ch, inv: v.inv}
}

func (v *c17View) copy() *c17View { c := *v; return &c }

// ------------------------------------------------------------ source builders

const (
	c17Gray = iota
	c17RGBA
	c17NRGBA
	c17Ints
	c17YUV
	c17NKinds
)

var c17KindName = []string{"gray", "rgba", "nrgba", "rgbints", "yuv"}

// family of the implementation behind an operation, for signatures
func c17Fam(kind int, op string) string {
	switch op {
	case "Invert":
		return "inverted"
	case "RotateCounterClockwise":
		if kind == c17YUV {
			return "yuv"
		}
		if kind == c17Ints {
			return "rgb"
		}
		return "goimage"
	}
	if kind == c17YUV {
		return "yuv"
	}
	return "rgb" // Go-image sources crop/read through the embedded RGB source
}

type c17Source struct {
	kind int
	src  gozxing.LuminanceSource
	v    *c17View
	desc string
	free int // pixels whose luminance the statement does not fix (taken from the source's first matrix)
}

// pixel contents: kind of pattern
func c17FillPixels(rng *fw.Rand, p [][]uint8) string {
	H := len(p)
	W := len(p[0])
	switch k := rng.Intn(6); k {
	case 0, 1:
		for y := 0; y < H; y++ {
			copy(p[y], rng.Bytes(W))
		}
		return "noise"
	case 2: // position coded: an offset error shows as a different value almost everywhere
		a, b := 1+2*rng.Intn(20), 1+2*rng.Intn(60)
		for y := 0; y < H; y++ {
			for x := 0; x < W; x++ {
				p[y][x] = uint8(x*a + y*b)
			}
		}
		return "position-coded"
	case 3: // extremes and near-extremes
		vals := []uint8{0, 255, 1, 254, 127, 128}
		for y := 0; y < H; y++ {
			for x := 0; x < W; x++ {
				p[y][x] = vals[rng.Intn(len(vals))]
			}
		}
		return "extremes"
	case 4:
		c := uint8(rng.Intn(256))
		for y := 0; y < H; y++ {
			for x := 0; x < W; x++ {
				p[y][x] = c
			}
		}
		p[rng.Intn(H)][rng.Intn(W)] = uint8(rng.Intn(256))
		return "constant+1"
	default:
		for y := 0; y < H; y++ {
			for x := 0; x < W; x++ {
				p[y][x] = uint8((x + y*W) % 251)
			}
		}
		return "ramp"
	}
}

// c17Build makes a source of the given kind whose *view* is w x h, from the
// given pixels (nil: generated). allowFree lets colour / alpha pixels in, whose
// value the statement does not fix.
func c17Build(rng *fw.Rand, kind, w, h int, pix [][]uint8, allowFree, bilevel bool) (*c17Source, string) {
	s := &c17Source{kind: kind}
	fill := ""
	if pix == nil {
		pix = c17NewPixels(w, h)
		fill = c17FillPixels(rng, pix)
	}
	und := c17NewPixels(w, h)
	for y := range pix {
		copy(und[y], pix[y])
	}
	var free [][]bool
	mixed := allowFree && kind != c17Gray && kind != c17YUV && rng.Intn(3) == 0
	if mixed {
		free = make([][]bool, h)
		for y := range free {
			free[y] = make([]bool, w)
			for x := range free[y] {
				free[y][x] = rng.Intn(4) == 0
			}
		}
	}
	isFree := func(x, y int) bool { return mixed && free[y][x] }
	// image rectangle: arbitrary origin, sometimes a sub-image of a larger one (stride > width)
	ox, oy := 0, 0
	if rng.Bool() {
		ox, oy = rng.Range(-50, 50), rng.Range(-50, 50)
	}
	rect := image.Rect(ox, oy, ox+w, oy+h)
	outer := rect
	sub := rng.Intn(3) == 0
	if sub {
		outer = image.Rect(ox-rng.Intn(4), oy-rng.Intn(4), ox+w+rng.Intn(4), oy+h+rng.Intn(4))
	}
	transparent, translucent, coloured := 0, 0, 0
	switch kind {
	case c17Gray:
		img := image.NewGray(outer)
		if sub {
			for i := range img.Pix {
				img.Pix[i] = 0x5A
			}
		}
		for y := 0; y < h; y++ {
			for x := 0; x < w; x++ {
				img.SetGray(ox+x, oy+y, color.Gray{Y: pix[y][x]})
			}
		}
		s.src = gozxing.NewLuminanceSourceFromImage(c17MaybePlain(rng, img.SubImage(rect), &s.desc))
	case c17RGBA:
		img := image.NewRGBA(outer)
		if sub {
			for i := range img.Pix {
				img.Pix[i] = 0x5A
			}
		}
		for y := 0; y < h; y++ {
			for x := 0; x < w; x++ {
				g := pix[y][x]
				c := color.RGBA{g, g, g, 255}
				if isFree(x, y) {
					switch rng.Intn(3) {
					case 0:
						c = color.RGBA{0, 0, 0, 0}
						transparent++
					case 1:
						a := uint8(1 + rng.Intn(254))
						c = color.RGBA{uint8(rng.Intn(int(a) + 1)), uint8(rng.Intn(int(a) + 1)), uint8(rng.Intn(int(a) + 1)), a}
						translucent++
					default:
						c = color.RGBA{uint8(rng.Intn(256)), uint8(rng.Intn(256)), uint8(rng.Intn(256)), 255}
						coloured++
					}
				}
				img.SetRGBA(ox+x, oy+y, c)
			}
		}
		s.src = gozxing.NewLuminanceSourceFromImage(c17MaybePlain(rng, img.SubImage(rect), &s.desc))
	case c17NRGBA:
		img := image.NewNRGBA(outer)
		if sub {
			for i := range img.Pix {
				img.Pix[i] = 0x5A
			}
		}
		for y := 0; y < h; y++ {
			for x := 0; x < w; x++ {
				g := pix[y][x]
				c := color.NRGBA{g, g, g, 255}
				if isFree(x, y) {
					switch rng.Intn(3) {
					case 0:
						c = color.NRGBA{uint8(rng.Intn(256)), uint8(rng.Intn(256)), uint8(rng.Intn(256)), 0}
						transparent++
					case 1:
						c = color.NRGBA{uint8(rng.Intn(256)), uint8(rng.Intn(256)), uint8(rng.Intn(256)), uint8(1 + rng.Intn(254))}
						translucent++
					default:
						c = color.NRGBA{uint8(rng.Intn(256)), uint8(rng.Intn(256)), uint8(rng.Intn(256)), 255}
						coloured++
					}
				}
				img.SetNRGBA(ox+x, oy+y, c)
			}
		}
		s.src = gozxing.NewLuminanceSourceFromImage(c17MaybePlain(rng, img.SubImage(rect), &s.desc))
	case c17Ints:
		px := make([]int, w*h+rng.Intn(3))
		for y := 0; y < h; y++ {
			for x := 0; x < w; x++ {
				g := int(pix[y][x])
				c := 0xFF000000 | g<<16 | g<<8 | g
				if isFree(x, y) {
					c = int(rng.Uint64() & 0xFFFFFFFF)
					coloured++
				}
				px[y*w+x] = c
			}
		}
		s.src = gozxing.NewRGBLuminanceSource(w, h, px)
	case c17YUV:
		pl, pt, pr, pb := 0, 0, 0, 0
		if rng.Intn(3) != 0 {
			pl, pt, pr, pb = rng.Intn(4), rng.Intn(4), rng.Intn(4), rng.Intn(4)
		}
		dw, dh := w+pl+pr, h+pt+pb
		und = c17NewPixels(dw, dh)
		for y := 0; y < dh; y++ {
			copy(und[y], rng.Bytes(dw))
			if bilevel { // the data around the window is bilevel too (a don't-care crop may show it)
				for x := range und[y] {
					und[y][x] = 255 * (und[y][x] & 1)
				}
			}
		}
		for y := 0; y < h; y++ {
			copy(und[pt+y][pl:], pix[y])
		}
		data := make([]byte, dw*dh, dw*dh+dw*dh/2)
		for y := 0; y < dh; y++ {
			copy(data[y*dw:], und[y])
		}
		if rng.Bool() { // chroma planes follow the Y plane
			data = append(data, rng.Bytes(dw*dh/2)...)
		}
		rev := rng.Intn(3) == 0
		src, err := gozxing.NewPlanarYUVLuminanceSource(data, dw, dh, pl, pt, w, h, rev)
		if err != nil || src == nil {
			return nil, fmt.Sprintf("NewPlanarYUVLuminanceSource(data %dx%d, window %d,%d %dx%d) failed: %v", dw, dh, pl, pt, w, h, err)
		}
		if rev { // the window is mirrored left-right
			for y := 0; y < h; y++ {
				rw := und[pt+y][pl : pl+w]
				for i, j := 0, w-1; i < j; i, j = i+1, j-1 {
					rw[i], rw[j] = rw[j], rw[i]
				}
			}
		}
		s.src = src
		s.v = &c17View{und: und, W: dw, H: dh, L: pl, T: pt, w: w, h: h}
		s.desc = fmt.Sprintf("yuv data %dx%d window (%d,%d) %dx%d reverse=%v %s", dw, dh, pl, pt, w, h, rev, fill)
		return s, ""
	}
	s.v = &c17View{und: und, W: w, H: h, L: 0, T: 0, w: w, h: h}
	s.desc = fmt.Sprintf("%s %dx%d origin (%d,%d) subimage=%v %s", c17KindName[kind], w, h, ox, oy, sub, fill)
	if mixed {
		// luminance of colour/alpha pixels is not fixed by the statement: the model takes it from
		// the source's first matrix; every later view must then agree with it
		m := s.src.GetMatrix()
		if len(m) < w*h {
			return nil, fmt.Sprintf("GetMatrix of a fresh %s source has %d entries for %dx%d", c17KindName[kind], len(m), w, h)
		}
		for y := 0; y < h; y++ {
			for x := 0; x < w; x++ {
				if free[y][x] {
					und[y][x] = m[y*w+x]
					s.free++
				}
			}
		}
		s.desc += fmt.Sprintf(" free pixels: %d transparent, %d translucent, %d coloured", transparent, translucent, coloured)
	}
	return s, ""
}

// ------------------------------------------------------------------ view check

// c17CheckView compares every observation of src with the model view.
// Returns "" or (class, detail).
func c17CheckView(src gozxing.LuminanceSource, v *c17View, rng *fw.Rand) (string, string) {
	if src.GetWidth() != v.w || src.GetHeight() != v.h {
		return "dimensions", fmt.Sprintf("GetWidth/GetHeight %dx%d, model %dx%d", src.GetWidth(), src.GetHeight(), v.w, v.h)
	}
	m := src.GetMatrix()
	if len(m) < v.w*v.h {
		return "GetMatrix-too-short", fmt.Sprintf("GetMatrix has %d entries for a %dx%d view", len(m), v.w, v.h)
	}
	for y := 0; y < v.h; y++ {
		for x := 0; x < v.w; x++ {
			if m[y*v.w+x] != v.at(x, y) {
				return "GetMatrix-pixel", fmt.Sprintf("GetMatrix[%d,%d]=%d, model %d", x, y, m[y*v.w+x], v.at(x, y))
			}
		}
	}
	mode := rng.Intn(6)
	var buf []byte
	var arena []byte
	for y := 0; y < v.h; y++ {
		switch mode {
		case 4: // recycled scratch buffer: shorter than the row, capacity beyond it, stale content behind
			buf = make([]byte, v.w+rng.Intn(20))
			for i := range buf {
				buf[i] = 0x5A
			}
			buf = buf[:rng.Intn(v.w)]
		case 5: // a prefix of a larger arena: what lies behind the prefix belongs to somebody else
			arena = make([]byte, 2*v.w+8)
			for i := range arena {
				arena[i] = byte(0xC0 + i%7)
			}
			buf = arena[:rng.Intn(v.w)]
		case 0:
			buf = nil
		case 1: // too small: must be ignored
			buf = make([]byte, v.w-1)
		case 2: // larger, stale content
			buf = make([]byte, v.w+5)
			for i := range buf {
				buf[i] = 0xA5
			}
		case 3: // reuse what came back
		}
		row, err := src.GetRow(y, buf)
		if err != nil {
			return "GetRow-error", fmt.Sprintf("GetRow(%d) of a view %d high: %v", y, v.h, err)
		}
		if len(row) < v.w {
			return "GetRow-too-short", fmt.Sprintf("GetRow(%d) has %d entries, width %d", y, len(row), v.w)
		}
		for x := 0; x < v.w; x++ {
			if row[x] != v.at(x, y) {
				return "GetRow-pixel", fmt.Sprintf("GetRow(%d)[%d]=%d, model %d (GetMatrix has %d)", y, x, row[x], v.at(x, y), m[y*v.w+x])
			}
		}
		if mode == 5 {
			// a buffer that is too small is ignored: nothing may be written through it
			for i := range arena {
				if arena[i] != byte(0xC0+i%7) {
					return "GetRow-wrote-behind-short-buffer", fmt.Sprintf("GetRow(%d, buffer of length %d < width %d) changed byte %d of the array behind the buffer", y, len(buf), v.w, i)
				}
			}
		}
		buf = row
	}
	for _, y := range []int{-1, v.h} {
		var b []byte
		if rng.Bool() {
			b = make([]byte, v.w)
		}
		if _, err := src.GetRow(y, b); err == nil {
			return "GetRow-outside-no-error", fmt.Sprintf("GetRow(%d) of a view %d high returned no error", y, v.h)
		}
	}
	return "", ""
}

// ------------------------------------------------------------------ crop generation

func c17GenCrop(rng *fw.Rand, v *c17View) (l, t, cw, ch int) {
	inside := func() {
		l = rng.Intn(v.w)
		cw = 1 + rng.Intn(v.w-l)
		t = rng.Intn(v.h)
		ch = 1 + rng.Intn(v.h-t)
	}
	inside()
	switch m := rng.Intn(20); {
	case m < 9:
		switch rng.Intn(8) {
		case 0:
			l, cw = 0, v.w
		case 1:
			t, ch = 0, v.h
		case 2:
			l, t, cw, ch = 0, 0, v.w, v.h
		case 3:
			cw, ch = v.w-l, v.h-t
		case 4:
			cw, ch = 1, 1
		}
	case m < 12: // negative origin (the rectangle may otherwise fit)
		which := 1 + rng.Intn(3)
		if which&1 != 0 {
			l = -(1 + rng.Intn(3))
			if rng.Intn(4) == 0 {
				l = -v.w
			}
			cw = 1 + rng.Intn(v.w+2)
		}
		if which&2 != 0 {
			t = -(1 + rng.Intn(3))
			if rng.Intn(4) == 0 {
				t = -v.h
			}
			ch = 1 + rng.Intn(v.h+2)
		}
	case m < 16: // leaves the underlying image by one or a few pixels
		which := 1 + rng.Intn(3)
		if which&1 != 0 {
			l = rng.Intn(v.W - v.L + 1)
			cw = v.W - (v.L + l) + 1 + rng.Intn(3)
			if rng.Intn(5) == 0 {
				cw += v.W
			}
		}
		if which&2 != 0 {
			t = rng.Intn(v.H - v.T + 1)
			ch = v.H - (v.T + t) + 1 + rng.Intn(3)
			if rng.Intn(5) == 0 {
				ch += v.H
			}
		}
	default: // anywhere inside the underlying image right/below of the view origin
		al := v.L + rng.Intn(v.W-v.L)
		ar := al + 1 + rng.Intn(v.W-al)
		at := v.T + rng.Intn(v.H-v.T)
		ab := at + 1 + rng.Intn(v.H-at)
		if rng.Bool() { // touch the border of the underlying image
			ar = v.W
		}
		if rng.Bool() {
			ab = v.H
		}
		l, cw, t, ch = al-v.L, ar-al, at-v.T, ab-at
	}
	return
}

var c17ClassName = []string{"in_view", "negative_origin", "outside_underlying", "outside_view_inside_underlying"}

// c17CropOutcome applies the crop oracle. ok=false: violation (class, detail).
// accepted tells whether the view changed.
func c17CropOutcome(r *fw.Rec, v *c17View, l, t, cw, ch int, err error, gotNil bool, pfx string) (accepted bool, class, detail string) {
	cl := v.classify(l, t, cw, ch)
	where := func() string {
		return fmt.Sprintf("Crop(%d,%d,%d,%d) on a view (%d,%d) %dx%d of a %dx%d image", l, t, cw, ch, v.L, v.T, v.w, v.h, v.W, v.H)
	}
	if err == nil && gotNil {
		return false, "nil-without-error", where() + " returned nil, nil"
	}
	switch cl {
	case c17CropIn:
		if err != nil {
			return false, "refuses-rect-inside-view", where() + " failed: " + err.Error()
		}
		r.Tally(pfx + "crop_in_view_accepted")
		return true, "", ""
	case c17CropNeg:
		if err == nil {
			return false, "accepts-negative-origin", where() + " returned no error"
		}
		r.Tally(pfx + "crop_negative_origin_refused")
	case c17CropOut:
		if err == nil {
			return false, "accepts-rect-outside-underlying", where() + " returned no error"
		}
		r.Tally(pfx + "crop_outside_underlying_refused")
	case c17CropDC:
		if err == nil {
			r.Tally(pfx + "crop_dont_care_outside_view_shown")
			return true, "", ""
		}
		r.Tally(pfx + "crop_dont_care_outside_view_refused")
	}
	return false, "", ""
}

// ------------------------------------------------------------------ view sequences

func c17OpName(op string) string {
	if i := strings.IndexByte(op, '('); i > 0 {
		return op[:i]
	}
	return op
}

// c17ViewSequence: one source, <= 6 view operations, full check after every step.
func c17ViewSequence(r *fw.Rec, kind, w, h int, sample bool) bool {
	var s *c17Source
	trace := []string{}
	data := func() map[string]interface{} {
		d := map[string]interface{}{"kind": c17KindName[kind], "w": w, "h": h, "ops": trace}
		if s != nil {
			d["source"] = s.desc
		}
		return d
	}
	return c17Guard(r, data, func() bool {
		rng := r.Rng
		var bad string
		s, bad = c17Build(rng, kind, w, h, nil, true, false)
		if s == nil {
			r.Violation("model-mismatch", c17Fam(kind, "New")+".New:fails-on-valid-input", bad, data())
			return false
		}
		fail := func(op, class, detail string) bool {
			r.Violation("model-mismatch", c17Fam(kind, op)+"."+op+":"+class, fmt.Sprintf("%s; after %v: %s", s.desc, trace, detail), data())
			return false
		}
		src, v := s.src, s.v
		if c, d := c17CheckView(src, v, rng); c != "" {
			return fail("New", c, d)
		}
		// every view along the way is kept: deriving a view (and reading through it) leaves the
		// views it was derived from as they were - re-read at the end of the sequence
		type keptView struct {
			src   gozxing.LuminanceSource
			v     *c17View
			after int
		}
		kept := []keptView{{src, v, 0}}
		r.Tally("source_" + c17KindName[kind])
		if s.free > 0 {
			r.Tally("source_with_colour_or_alpha_pixels")
			r.TallyN("pixels_luminance_not_fixed_by_statement", int64(s.free))
		}
		// script
		var script []string
		switch rng.Intn(8) {
		case 0: // four quarter turns, possibly after a crop
			if rng.Bool() {
				script = append(script, "crop")
			}
			script = append(script, "rot", "rot", "rot", "rot")
		case 1: // double inversion around something
			script = []string{"inv", "inv"}
			if rng.Bool() {
				script = []string{"inv", "crop", "inv"}
			}
		case 2: // crop chain
			n := 2 + rng.Intn(5)
			for i := 0; i < n; i++ {
				script = append(script, "crop")
			}
		default:
			n := rng.Intn(7)
			for i := 0; i < n; i++ {
				switch x := rng.Intn(10); {
				case x < 5:
					script = append(script, "crop")
				case x < 7:
					script = append(script, "inv")
				default:
					script = append(script, "rot")
				}
			}
		}
		for len(script) < 6 && rng.Intn(3) == 0 {
			script = append(script, []string{"crop", "inv", "rot"}[rng.Intn(3)])
		}
		turns, invs := 0, 0
		for _, op := range script {
			switch op {
			case "crop":
				turns, invs = 0, 0
				l, t, cw, ch := c17GenCrop(rng, v)
				trace = append(trace, fmt.Sprintf("Crop(%d,%d,%d,%d)", l, t, cw, ch))
				if !src.IsCropSupported() {
					if ns, err := src.Crop(l, t, cw, ch); err == nil {
						return fail("Crop", "unsupported-but-no-error", fmt.Sprintf("IsCropSupported()=false but Crop returned %v, nil", ns))
					}
					r.Tally("crop_unsupported_refused")
					continue
				}
				ns, err := src.Crop(l, t, cw, ch)
				acc, class, detail := c17CropOutcome(r, v, l, t, cw, ch, err, ns == nil, "")
				if class != "" {
					return fail("Crop", class, detail)
				}
				if !acc {
					// the refused source must be unchanged
					if c, d := c17CheckView(src, v, rng); c != "" {
						return fail("Crop", "refused-crop-changed-source:"+c, d)
					}
					continue
				}
				if v.classify(l, t, cw, ch) == c17CropDC {
					// accepted although it leaves the view: it must then show the underlying pixels
					nv := v.crop(l, t, cw, ch)
					var c, d string
					if msg, _, panicked := fw.Guard(func() { c, d = c17CheckView(ns, nv, rng) }); panicked {
						c, d = "panic", "panic: "+msg
					}
					if c != "" {
						return fail("Crop", "accepts-rect-outside-view-without-showing-underlying", fmt.Sprintf("Crop(%d,%d,%d,%d) on a view (%d,%d) %dx%d of a %dx%d image returned no error, then %s: %s", l, t, cw, ch, v.L, v.T, v.w, v.h, v.W, v.H, c, d))
					}
				}
				src, v = ns, v.crop(l, t, cw, ch)
				if len(trace) > 1 && strings.HasPrefix(trace[len(trace)-2], "Crop") {
					r.Tally("crop_of_crop_checked")
				}
			case "inv":
				turns = 0
				invs++
				trace = append(trace, "Invert")
				ns := src.Invert()
				if ns == nil {
					return fail("Invert", "nil", "Invert returned nil")
				}
				src = ns
				v = v.copy()
				v.inv = !v.inv
				r.Tally("op_invert")
				if invs == 2 {
					r.Tally("double_inversion_checked")
				}
			case "rot":
				invs = 0
				trace = append(trace, "RotateCounterClockwise")
				ns, err := src.RotateCounterClockwise()
				if kind != c17Ints && kind != c17YUV && !src.IsRotateSupported() {
					// sources built from Go images support rotation, and every view of them (crop, invert,
					// rotate, in any order) must keep supporting it: "four quarter-turns restore the original"
					return fail("RotateCounterClockwise", "go-image-view-lost-rotate-support", fmt.Sprintf("a view of a Go-image source reports IsRotateSupported()=false after %v", trace))
				}
				if !src.IsRotateSupported() {
					if err == nil {
						return fail("RotateCounterClockwise", "unsupported-but-no-error", "IsRotateSupported()=false but RotateCounterClockwise returned no error")
					}
					r.Tally("rotate_unsupported_refused")
					continue
				}
				if err != nil || ns == nil {
					return fail("RotateCounterClockwise", "error", fmt.Sprintf("IsRotateSupported()=true but RotateCounterClockwise returned %v, %v", ns, err))
				}
				src, v = ns, v.rotate()
				turns++
				r.Tally("op_rotate")
				if v.w != v.h {
					r.Tally("op_rotate_non_square")
				}
				if turns == 4 {
					r.Tally("four_quarter_turns_checked")
				}
			}
			if c, d := c17CheckView(src, v, rng); c != "" {
				return fail(c17OpName(trace[len(trace)-1]), c, d)
			}
			if len(kept) < 8 && kept[len(kept)-1].src != src {
				kept = append(kept, keptView{src, v, len(trace)})
			}
			r.Evals(1)
			r.Tally("view_steps_checked")
			r.TallyN("rows_checked", int64(v.h))
		}
		if len(kept) > 1 {
			for _, k := range kept[:len(kept)-1] {
				if c, d := c17CheckView(k.src, k.v, rng); c != "" {
					return fail("earlier-view", "changed-by-later-operations:"+c, fmt.Sprintf("the view as it was after %d of the operations no longer shows its picture once the later ones ran: %s", k.after, d))
				}
			}
			r.Tally("earlier_views_rechecked_after_the_sequence")
		}
		r.Max("max_ops_in_sequence", int64(len(trace)))
		r.Max("max_side", int64(w))
		r.Max("max_side", int64(h))
		r.NontrivialH(c17Hash(fmt.Sprintf("v/%d/%d/%d/", kind, w, h) + strings.Join(trace, ",")))
		if sample {
			r.Sample(map[string]interface{}{"kind": "view sequence", "source": s.desc, "ops": trace})
		}
		return true
	})
}

// c17Guard runs f; a panic becomes a violation carrying the case data.
func c17Guard(r *fw.Rec, data func() map[string]interface{}, f func() bool) bool {
	ok := false
	msg, stack, panicked := fw.Guard(func() { ok = f() })
	if panicked {
		d := data()
		if len(stack) > 3000 {
			stack = stack[:3000]
		}
		r.Violation("panic", "panic:"+fw.PanicSite(stack), fmt.Sprintf("panic: %s; case %v\n%s", msg, d, stack), d)
		return false
	}
	return ok
}

func c17Hash(s string) uint64 {
	h := uint64(1469598103934665603)
	for i := 0; i < len(s); i++ {
		h = (h ^ uint64(s[i])) * 1099511628211
	}
	return h
}

// c17CropExhaustive: every crop rectangle with origin -2..w+1 and size 1..W+1
// on a small source, and (depth 2) every such crop of every accepted crop.
func c17CropExhaustive(r *fw.Rec, kind, w, h int, depth int) {
	rng := r.Rng
	s, bad := c17Build(rng, kind, w, h, nil, false, false)
	if s == nil {
		r.Violation("model-mismatch", c17Fam(kind, "New")+".New:fails-on-valid-input", bad, nil)
		return
	}
	if rng.Bool() {
		s.src = s.src.Invert()
		s.v.inv = true
	}
	var cur [][4]int
	ops := func() []string {
		var out []string
		for _, c := range cur {
			out = append(out, fmt.Sprintf("Crop(%d,%d,%d,%d)", c[0], c[1], c[2], c[3]))
		}
		return out
	}
	var rec func(src gozxing.LuminanceSource, v *c17View, d int) bool
	rec = func(src gozxing.LuminanceSource, v *c17View, d int) bool {
		cur = append(cur, [4]int{})
		for l := -2; l <= v.w+1; l++ {
			for t := -2; t <= v.h+1; t++ {
				for cw := 1; cw <= v.W+1; cw++ {
					for ch := 1; ch <= v.H+1; ch++ {
						cur[len(cur)-1] = [4]int{l, t, cw, ch}
						ns, err := src.Crop(l, t, cw, ch)
						r.Evals(1)
						acc, class, detail := c17CropOutcome(r, v, l, t, cw, ch, err, ns == nil, "exh_")
						if class == "" && acc {
							nv := v.crop(l, t, cw, ch)
							var c, dd string
							if v.classify(l, t, cw, ch) == c17CropDC {
								if msg, _, panicked := fw.Guard(func() { c, dd = c17CheckView(ns, nv, rng) }); panicked {
									c, dd = "panic", "panic: "+msg
								}
								if c != "" {
									c, dd = "accepts-rect-outside-view-without-showing-underlying", fmt.Sprintf("accepted a rectangle leaving the view (%d,%d) %dx%d, then %s: %s", v.L, v.T, v.w, v.h, c, dd)
								}
							} else {
								c, dd = c17CheckView(ns, nv, rng)
							}
							if c != "" {
								class, detail = c, dd
							} else if d > 1 && !rec(ns, nv, d-1) {
								return false
							}
						}
						if class != "" {
							r.Violation("model-mismatch", c17Fam(kind, "Crop")+".Crop:"+class, fmt.Sprintf("%s; after %v: %s", s.desc, ops(), detail),
								map[string]interface{}{"kind": c17KindName[kind], "w": w, "h": h, "source": s.desc, "ops": ops()})
							return false
						}
					}
				}
			}
		}
		cur = cur[:len(cur)-1]
		return true
	}
	data := func() map[string]interface{} {
		return map[string]interface{}{"kind": c17KindName[kind], "w": w, "h": h, "source": s.desc, "ops": ops()}
	}
	if c17Guard(r, data, func() bool { return rec(s.src, s.v, depth) }) {
		r.Nontrivial(fmt.Sprintf("exh/%d/%d/%d/%d", kind, w, h, depth))
		r.Tally(fmt.Sprintf("exh_sources_depth%d", depth))
	}
}

// c17PlainImage shows another image through the three methods of image.Image only (none of the
// optional fast-path interfaces of the standard image types), origin and all.
type c17PlainImage struct{ im image.Image }

func (p c17PlainImage) ColorModel() color.Model { return p.im.ColorModel() }
func (p c17PlainImage) Bounds() image.Rectangle { return p.im.Bounds() }
func (p c17PlainImage) At(x, y int) color.Color { return p.im.At(x, y) }

func c17MaybePlain(rng *fw.Rand, im image.Image, note *string) image.Image {
	if rng.Intn(4) == 0 {
		*note += " [through a plain image.Image wrapper]"
		return c17PlainImage{im}
	}
	return im
}

// planar YUV constructor with a window that does not fit
func c17YUVBadWindow(r *fw.Rec) {
	rng := r.Rng
	for k := 0; k < 200; k++ {
		dw, dh := 1+rng.Intn(30), 1+rng.Intn(30)
		data := rng.Bytes(dw * dh)
		if rng.Bool() {
			// a real camera frame: the chroma planes follow the luminance plane in the same buffer,
			// so the buffer is longer than dataWidth*dataHeight; the window is still bounded by the
			// luminance plane
			data = rng.Bytes(dw*dh + dw*((dh+1)/2) + rng.Intn(8))
			r.Tally("yuv_ctor_buffers_with_chroma_planes")
		}
		l, t := rng.Intn(dw), rng.Intn(dh)
		w, h := 1+rng.Intn(dw-l), 1+rng.Intn(dh-t)
		class := ""
		switch rng.Intn(5) {
		case 0:
			l = -(1 + rng.Intn(3))
			class = "accepts-negative-origin"
		case 1:
			t = -(1 + rng.Intn(3))
			class = "accepts-negative-origin"
		case 2:
			w = dw - l + 1 + rng.Intn(3)
			class = "accepts-window-outside-data"
		case 3:
			h = dh - t + 1 + rng.Intn(3)
			class = "accepts-window-outside-data"
		}
		src, err := gozxing.NewPlanarYUVLuminanceSource(data, dw, dh, l, t, w, h, false)
		r.Evals(1)
		desc := fmt.Sprintf("NewPlanarYUVLuminanceSource(data %dx%d, left %d, top %d, %dx%d)", dw, dh, l, t, w, h)
		d := map[string]interface{}{"dataWidth": dw, "dataHeight": dh, "left": l, "top": t, "width": w, "height": h}
		if class == "" {
			if err != nil || src == nil {
				r.Violation("model-mismatch", "yuv.New:fails-on-valid-input", desc+" failed: "+fmt.Sprint(err), d)
				return
			}
			r.Tally("yuv_ctor_window_inside_accepted")
			continue
		}
		if err == nil {
			r.Violation("model-mismatch", "yuv.New:"+class, desc+" returned no error", d)
			return
		}
		r.Tally("yuv_ctor_bad_window_refused")
	}
}

// ------------------------------------------------------------------ binarisers

// c17ModelBlackRow is the black-row model of the global method, written from
// the published description of ZXing's GlobalHistogramBinarizer: a 32-bucket
// histogram of the row, the tallest bucket and the bucket maximising
// count*distance^2 as the two peaks, no contrast if they are <= 2 buckets
// apart, the valley between them maximising
// (x-dark)^2*(light-x)*(tallest-count[x]) scanning down from the light peak,
// threshold = valley*8; rows of width < 3 are thresholded directly, otherwise
// the interior pixels are compared after a -1 4 -1 filter of weight 2 and the
// two end pixels stay white.
func c17ModelBlackRow(row []uint8) (bits []bool, notFound bool) {
	var hist [32]int
	for _, p := range row {
		hist[p>>3]++
	}
	peak1, tallest := 0, 0
	for x, n := range hist {
		if n > tallest {
			peak1, tallest = x, n
		}
	}
	peak2, best := 0, 0
	for x, n := range hist {
		if sc := n * (x - peak1) * (x - peak1); sc > best {
			peak2, best = x, sc
		}
	}
	dark, light := peak1, peak2
	if dark > light {
		dark, light = light, dark
	}
	if light-dark <= 2 {
		return nil, true
	}
	valley, bestV := light-1, -1
	for x := light - 1; x > dark; x-- {
		if sc := (x - dark) * (x - dark) * (light - x) * (tallest - hist[x]); sc > bestV {
			valley, bestV = x, sc
		}
	}
	thr := valley * 8
	bits = make([]bool, len(row))
	if len(row) < 3 {
		for x, p := range row {
			bits[x] = int(p) < thr
		}
		return bits, false
	}
	for x := 1; x < len(row)-1; x++ {
		bits[x] = (4*int(row[x])-int(row[x-1])-int(row[x+1]))/2 < thr
	}
	return bits, false
}

// c17BilevelRowBits: what the model amounts to on a bilevel row, for any
// threshold strictly between the two levels.
func c17BilevelRowBits(row []uint8) []bool {
	bits := make([]bool, len(row))
	for x, p := range row {
		bits[x] = p == 0 && (len(row) < 3 || (x > 0 && x < len(row)-1))
	}
	return bits
}

func c17SelfTest() error {
	rng := fw.NewRand(1717)
	for k := 0; k < 4000; k++ {
		n := 1 + rng.Intn(60)
		row := make([]uint8, n)
		nb := 0
		mode := rng.Intn(4)
		for i := range row {
			white := rng.Bool()
			if mode == 0 {
				white = true
			} else if mode == 1 {
				white = false
			}
			if white {
				row[i] = 255
			} else {
				nb++
			}
		}
		bits, nf := c17ModelBlackRow(row)
		if nb == n {
			if !nf {
				return fmt.Errorf("row model: all-black row is not 'no contrast'")
			}
			continue
		}
		if nf {
			return fmt.Errorf("row model: bilevel row with white pixels has no contrast: %v", row)
		}
		want := c17BilevelRowBits(row)
		for i := range bits {
			if bits[i] != want[i] {
				return fmt.Errorf("row model differs from its bilevel consequence at %d: %v", i, row)
			}
		}
	}
	// grey anchor: dark bar on light ground, typed by hand
	bits, nf := c17ModelBlackRow([]uint8{200, 200, 200, 40, 40, 200, 200, 200, 200, 200})
	if nf || fmt.Sprint(bits) != "[false false false true true false false false false false]" {
		return fmt.Errorf("row model anchor: %v %v", bits, nf)
	}
	// rotation model: four turns restore, one turn moves top-right to top-left
	v := &c17View{und: [][]uint8{{1, 2, 3}, {4, 5, 6}}, W: 3, H: 2, L: 1, T: 0, w: 2, h: 2}
	t := v.rotate()
	if t.w != 2 || t.h != 2 || t.at(0, 0) != 3 || t.at(1, 0) != 6 || t.at(0, 1) != 2 || t.at(1, 1) != 5 {
		return fmt.Errorf("rotation model anchor failed")
	}
	f := t.rotate().rotate().rotate()
	for y := 0; y < 2; y++ {
		for x := 0; x < 2; x++ {
			if f.at(x, y) != v.at(x, y) || f.L != v.L || f.T != v.T {
				return fmt.Errorf("rotation model: four turns are not the identity")
			}
		}
	}
	return nil
}

func c17IsNotFound(err error) bool {
	_, ok := err.(gozxing.NotFoundException)
	return ok
}

func c17BilevelPixels(rng *fw.Rand, W, H int) ([][]uint8, string) {
	p := c17NewPixels(W, H)
	white := func() {
		for y := range p {
			for x := range p[y] {
				p[y][x] = 255
			}
		}
	}
	name := ""
	switch k := rng.Intn(14); k {
	case 0:
		white()
		name = "all-white"
	case 1:
		name = "all-black"
	case 2, 3:
		for y := range p {
			for x := range p[y] {
				if rng.Bool() {
					p[y][x] = 255
				}
			}
		}
		name = "noise"
	case 4:
		white()
		for y := range p {
			for x := range p[y] {
				if rng.Intn(16) == 0 {
					p[y][x] = 0
				}
			}
		}
		name = "sparse-black"
	case 5:
		for y := range p {
			for x := range p[y] {
				if rng.Intn(16) == 0 {
					p[y][x] = 255
				}
			}
		}
		name = "sparse-white"
	case 6, 7: // stripes
		per := 1 + rng.Intn(9)
		ph := rng.Intn(2 * per)
		vert := rng.Bool()
		for y := range p {
			for x := range p[y] {
				c := y
				if vert {
					c = x
				}
				if ((c+ph)/per)%2 == 0 {
					p[y][x] = 255
				}
			}
		}
		name = "stripes"
	case 8: // checker blocks
		per := 1 + rng.Intn(12)
		for y := range p {
			for x := range p[y] {
				if (x/per+y/per)%2 == 0 {
					p[y][x] = 255
				}
			}
		}
		name = "checker"
	case 9, 10: // blobs: rectangles and discs on white or on black
		ground := uint8(255)
		if rng.Intn(4) == 0 {
			ground = 0
		}
		for y := range p {
			for x := range p[y] {
				p[y][x] = ground
			}
		}
		n := 1 + rng.Intn(8)
		for i := 0; i < n; i++ {
			col := 255 - ground
			if rng.Intn(4) == 0 {
				col = ground
			}
			cx, cy := rng.Intn(W), rng.Intn(H)
			rx, ry := 1+rng.Intn(W/2+1), 1+rng.Intn(H/2+1)
			disc := rng.Bool()
			for y := cy - ry; y <= cy+ry; y++ {
				for x := cx - rx; x <= cx+rx; x++ {
					if x < 0 || y < 0 || x >= W || y >= H {
						continue
					}
					if disc && (x-cx)*(x-cx)*ry*ry+(y-cy)*(y-cy)*rx*rx > rx*rx*ry*ry {
						continue
					}
					p[y][x] = col
				}
			}
		}
		name = "blobs"
	case 11: // a single pixel of the other colour
		if rng.Bool() {
			white()
			p[rng.Intn(H)][rng.Intn(W)] = 0
		} else {
			p[rng.Intn(H)][rng.Intn(W)] = 255
		}
		name = "single-pixel"
	case 12: // halves
		cut := rng.Intn(W + 1)
		cuty := rng.Intn(H + 1)
		hz := rng.Bool()
		for y := range p {
			for x := range p[y] {
				if (hz && y < cuty) || (!hz && x < cut) {
					p[y][x] = 255
				}
			}
		}
		name = "halves"
	default: // frame
		white()
		th := 1 + rng.Intn(3)
		for y := range p {
			for x := range p[y] {
				if x < th || y < th || x >= W-th || y >= H-th {
					p[y][x] = 0
				}
			}
		}
		name = "frame"
	}
	return p, name
}

var c17BinName = []string{"global", "hybrid"}

func c17NewBinarizer(which int, src gozxing.LuminanceSource) gozxing.Binarizer {
	if which == 0 {
		return gozxing.NewGlobalHistgramBinarizer(src)
	}
	return gozxing.NewHybridBinarizer(src)
}

// c17CheckBinary checks one BinaryBitmap against the bilevel model view:
// dimensions, black matrix (twice: cached), every black row, rows outside.
func c17CheckBinary(r *fw.Rec, bb *gozxing.BinaryBitmap, which int, v *c17View, pfx string) (string, string) {
	rng := r.Rng
	name := c17BinName[which]
	if bb.GetWidth() != v.w || bb.GetHeight() != v.h {
		return "BinaryBitmap.dimensions", fmt.Sprintf("BinaryBitmap %dx%d, model %dx%d", bb.GetWidth(), bb.GetHeight(), v.w, v.h)
	}
	nblack := 0
	for y := 0; y < v.h; y++ {
		for x := 0; x < v.w; x++ {
			if v.at(x, y) == 0 {
				nblack++
			}
		}
	}
	uniform := nblack == 0 || nblack == v.w*v.h
	local := which == 1 && v.w >= 40 && v.h >= 40
	matrix := func(call int) (string, string) {
		bm, err := bb.GetBlackMatrix()
		if err != nil {
			if !c17IsNotFound(err) {
				return name + ".GetBlackMatrix:error-kind", fmt.Sprintf("GetBlackMatrix error is %T (%v), not NotFoundException", err, err)
			}
			switch {
			case nblack == v.w*v.h:
				r.Tally(pfx + name + "_matrix_notfound_all_black_image")
			case nblack == 0:
				r.Tally(pfx + name + "_matrix_notfound_all_white_image")
			default:
				r.Tally(pfx + name + "_matrix_notfound_image_with_both_colours")
			}
			return "", ""
		}
		if bm == nil {
			return name + ".GetBlackMatrix:nil-without-error", "GetBlackMatrix returned nil, nil"
		}
		if bm.GetWidth() != v.w || bm.GetHeight() != v.h {
			return name + ".GetBlackMatrix:dimensions", fmt.Sprintf("black matrix %dx%d, image %dx%d", bm.GetWidth(), bm.GetHeight(), v.w, v.h)
		}
		for y := 0; y < v.h; y++ {
			for x := 0; x < v.w; x++ {
				if bm.Get(x, y) != (v.at(x, y) == 0) {
					method := "global-method"
					if local {
						method = "local-method"
					}
					return name + ".GetBlackMatrix:" + method + "-differs-from-black-pixels", fmt.Sprintf("black matrix (%d,%d)=%v but luminance is %d (call %d)", x, y, bm.Get(x, y), v.at(x, y), call)
				}
			}
		}
		if call == 1 {
			switch {
			case local:
				r.Tally(pfx + "hybrid_local_method_exact")
				if v.w%8 != 0 || v.h%8 != 0 {
					r.Tally(pfx + "hybrid_local_method_exact_side_not_multiple_of_8")
				}
				if (v.w >= 40 && v.w <= 47) || (v.h >= 40 && v.h <= 47) {
					r.Tally(pfx + "hybrid_local_method_exact_side_40_to_47")
				}
			case which == 1:
				r.Tally(pfx + "hybrid_global_fallback_exact")
			default:
				r.Tally(pfx + "global_matrix_exact")
			}
			if uniform {
				r.Tally(pfx + name + "_matrix_exact_uniform_image")
			}
		} else {
			r.Tally(pfx + "matrix_second_call_same")
		}
		return "", ""
	}
	rows := func(from, to int) (string, string) {
		for y := from; y < to; y++ {
			var reuse *gozxing.BitArray
			switch rng.Intn(4) {
			case 1: // exact size, all set: must be cleared
				reuse = gozxing.NewBitArray(v.w)
				reuse.SetRange(0, v.w)
			case 2: // too small: ignored
				reuse = gozxing.NewBitArray(v.w - 1)
			case 3: // larger, stale bits
				reuse = gozxing.NewBitArray(v.w + 13)
				reuse.SetRange(0, v.w+13)
			}
			ba, err := bb.GetBlackRow(y, reuse)
			r.Evals(1)
			lum := v.row(y)
			want, modelNF := c17ModelBlackRow(lum)
			rowUniform := true
			for _, p := range lum {
				if p != lum[0] {
					rowUniform = false
				}
			}
			if err != nil {
				if !c17IsNotFound(err) {
					return name + ".GetBlackRow:error-kind", fmt.Sprintf("GetBlackRow(%d) error is %T (%v), not NotFoundException", y, err, err)
				}
				if !rowUniform {
					return name + ".GetBlackRow:notfound-on-row-with-both-colours", fmt.Sprintf("GetBlackRow(%d) = NotFound on row %v", y, lum)
				}
				if modelNF {
					r.Tally(pfx + "blackrow_uniform_row_notfound_as_model")
				} else {
					r.Tally(pfx + "blackrow_dont_care_uniform_row_notfound")
				}
				continue
			}
			if ba == nil || ba.GetSize() < v.w {
				return name + ".GetBlackRow:too-short", fmt.Sprintf("GetBlackRow(%d) returned %v for width %d", y, ba, v.w)
			}
			if modelNF { // uniform (all black) row that the model rejects: bits accepted if they are the black pixels under the filter
				want = c17BilevelRowBits(lum)
			}
			for x := 0; x < v.w; x++ {
				if ba.Get(x) != want[x] {
					return name + ".GetBlackRow:differs-from-sharpened-threshold-model", fmt.Sprintf("GetBlackRow(%d) bit %d = %v, model %v; row %v", y, x, ba.Get(x), want[x], lum)
				}
			}
			switch {
			case modelNF:
				r.Tally(pfx + "blackrow_dont_care_uniform_row_bits")
			case rowUniform:
				r.Tally(pfx + "blackrow_exact_uniform_white_row")
			default:
				r.Tally(pfx + "blackrow_exact_row_with_both_colours")
			}
		}
		return "", ""
	}
	outside := func() (string, string) {
		for _, y := range []int{-1, v.h} {
			if _, err := bb.GetBlackRow(y, nil); err == nil {
				return name + ".GetBlackRow:outside-no-error", fmt.Sprintf("GetBlackRow(%d) of an image %d high returned no error", y, v.h)
			}
			r.Tally(pfx + "blackrow_outside_refused")
		}
		return "", ""
	}
	type step func() (string, string)
	mid := rng.Intn(v.h + 1)
	var steps []step
	switch rng.Intn(3) {
	case 0:
		steps = []step{func() (string, string) { return matrix(1) }, func() (string, string) { return rows(0, v.h) }, outside, func() (string, string) { return matrix(2) }}
	case 1:
		steps = []step{outside, func() (string, string) { return rows(0, v.h) }, func() (string, string) { return matrix(1) }, func() (string, string) { return matrix(2) }}
	default:
		steps = []step{func() (string, string) { return rows(0, mid) }, func() (string, string) { return matrix(1) }, func() (string, string) { return rows(mid, v.h) }, func() (string, string) { return matrix(2) }, outside}
	}
	for _, s := range steps {
		if c, d := s(); c != "" {
			return c, d
		}
	}
	return "", ""
}

// c17Bilevel: one bilevel image W x H, one source kind, both binarisers,
// 0..2 view operations through BinaryBitmap.
func c17Bilevel(r *fw.Rec, W, H int, sample bool) bool {
	ctx := map[string]interface{}{"w": W, "h": H}
	return c17Guard(r, func() map[string]interface{} { return ctx }, func() bool { return c17BilevelBody(r, W, H, sample, ctx) })
}

func c17BilevelBody(r *fw.Rec, W, H int, sample bool, ctx map[string]interface{}) bool {
	rng := r.Rng
	pix, pname := c17BilevelPixels(rng, W, H)
	kind := rng.Intn(c17NKinds)
	s, bad := c17Build(rng, kind, W, H, pix, false, true)
	if s == nil {
		r.Violation("model-mismatch", c17Fam(kind, "New")+".New:fails-on-valid-input", bad, nil)
		return false
	}
	if rng.Intn(4) == 0 {
		s.src = s.src.Invert()
		s.v.inv = true
		s.desc += " inverted"
		r.Tally("bin_source_inverted")
	}
	ctx["source"], ctx["pattern"] = s.desc, pname
	for which := 0; which < 2; which++ {
		trace := []string{}
		fail := func(sig, detail string) bool {
			r.Violation("model-mismatch", sig, fmt.Sprintf("%s (%s) via %s; after %v: %s", s.desc, pname, c17BinName[which], trace, detail),
				map[string]interface{}{"kind": c17KindName[kind], "w": W, "h": H, "pattern": pname, "binarizer": c17BinName[which], "source": s.desc, "ops": trace})
			return false
		}
		ctx["binarizer"] = c17BinName[which]
		bb, err := gozxing.NewBinaryBitmap(c17NewBinarizer(which, s.src))
		if err != nil || bb == nil {
			return fail("BinaryBitmap.New:error", fmt.Sprint(err))
		}
		v, ls := s.v, s.src
		nops := 0
		if rng.Intn(3) == 0 {
			nops = 1 + rng.Intn(2)
		}
		for i := 0; i < nops; i++ {
			if rng.Bool() {
				l, t, cw, ch := c17GenCrop(rng, v)
				trace = append(trace, fmt.Sprintf("Crop(%d,%d,%d,%d)", l, t, cw, ch))
				ctx["ops"] = trace
				if bb.IsCropSupported() != ls.IsCropSupported() {
					return fail("BinaryBitmap.IsCropSupported:differs-from-source", fmt.Sprintf("BinaryBitmap.IsCropSupported()=%v, source %v", bb.IsCropSupported(), ls.IsCropSupported()))
				}
				if !bb.IsCropSupported() {
					if _, err := bb.Crop(l, t, cw, ch); err == nil {
						return fail("BinaryBitmap.Crop:unsupported-but-no-error", "cropping is unsupported but returned no error")
					}
					r.Tally("bin_crop_unsupported_refused")
					continue
				}
				nb, err := bb.Crop(l, t, cw, ch)
				acc, class, detail := c17CropOutcome(r, v, l, t, cw, ch, err, nb == nil, "bin_")
				if class != "" {
					return fail(c17Fam(kind, "Crop")+".Crop:"+class, "BinaryBitmap."+detail)
				}
				if acc {
					// the same crop on the luminance source itself: must be accepted too, and if it
					// leaves the view it must show the underlying pixels
					nls, err2 := ls.Crop(l, t, cw, ch)
					if err2 != nil || nls == nil {
						return fail("BinaryBitmap.Crop:differs-from-source-crop", fmt.Sprintf("BinaryBitmap.Crop accepted a rectangle that the source's Crop refuses: %v", err2))
					}
					nv := v.crop(l, t, cw, ch)
					if v.classify(l, t, cw, ch) == c17CropDC {
						var c, d string
						if msg, _, panicked := fw.Guard(func() { c, d = c17CheckView(nls, nv, rng) }); panicked {
							c, d = "panic", "panic: "+msg
						}
						if c != "" {
							return fail(c17Fam(kind, "Crop")+".Crop:accepts-rect-outside-view-without-showing-underlying", fmt.Sprintf("Crop(%d,%d,%d,%d) on a view (%d,%d) %dx%d of a %dx%d image returned no error, then %s: %s", l, t, cw, ch, v.L, v.T, v.w, v.h, v.W, v.H, c, d))
						}
					}
					bb, v, ls = nb, nv, nls
					r.Tally("bin_op_crop")
				}
			} else {
				trace = append(trace, "RotateCounterClockwise")
				ctx["ops"] = trace
				nb, err := bb.RotateCounterClockwise()
				rotatable := bb.IsRotateSupported()
				if rotatable != ls.IsRotateSupported() {
					return fail("BinaryBitmap.IsRotateSupported:differs-from-source", fmt.Sprintf("BinaryBitmap.IsRotateSupported()=%v, source %v", rotatable, ls.IsRotateSupported()))
				}
				if !rotatable {
					if err == nil {
						return fail("BinaryBitmap.RotateCounterClockwise:unsupported-but-no-error", "rotation is unsupported but returned no error")
					}
					r.Tally("bin_rotate_unsupported_refused")
				} else {
					if err != nil || nb == nil {
						return fail("BinaryBitmap.RotateCounterClockwise:error", fmt.Sprint(err))
					}
					bb, v = nb, v.rotate()
					if ls, err = ls.RotateCounterClockwise(); err != nil {
						return fail("BinaryBitmap.RotateCounterClockwise:differs-from-source-rotate", err.Error())
					}
					r.Tally("bin_op_rotate")
				}
			}
		}
		if c, d := c17CheckBinary(r, bb, which, v, "bin_"); c != "" {
			return fail(c, d)
		}
		if (v.w < 40) != (v.h < 40) {
			r.Tally("bin_images_one_side_below_40")
		}
	}
	// binarising reads a luminance source: afterwards the source still shows the picture it showed before
	{
		var c, d string
		if msg, _, panicked := fw.Guard(func() { c, d = c17CheckView(s.src, s.v, rng) }); panicked {
			c, d = "panic", "panic: "+msg
		}
		if c != "" {
			r.Violation("model-mismatch", "source-changed-by-binarising:"+c, fmt.Sprintf("%s (%s): after GetBlackMatrix / GetBlackRow of both binarisers the luminance source no longer shows its picture: %s", s.desc, pname, d),
				map[string]interface{}{"kind": c17KindName[kind], "w": W, "h": H, "pattern": pname, "source": s.desc})
			return false
		}
		r.Tally("bin_source_unchanged_after_binarising")
	}
	r.Tally("bin_images_" + pname)
	r.Tally("bin_source_" + c17KindName[kind])
	r.NontrivialH(c17Hash(fmt.Sprintf("b/%d/%d/%d/%s/%d", kind, W, H, pname, rng.Uint64())))
	if sample {
		r.Sample(map[string]interface{}{"kind": "bilevel image", "source": s.desc, "pattern": pname, "binarizers": "global, hybrid"})
	}
	return true
}

// ------------------------------------------------------------------ rendered symbols

type c17Writer struct {
	name    string
	format  gozxing.BarcodeFormat
	w       func() gozxing.Writer
	content func(rng *fw.Rand) string
}

func c17Digits(rng *fw.Rand, n int) string {
	b := make([]byte, n)
	for i := range b {
		b[i] = byte('0' + rng.Intn(10))
	}
	return string(b)
}

func c17From(rng *fw.Rand, alphabet string, lo, hi int) string {
	n := rng.Range(lo, hi)
	b := make([]byte, n)
	for i := range b {
		b[i] = alphabet[rng.Intn(len(alphabet))]
	}
	return string(b)
}

func c17Writers() []c17Writer {
	const upper = "ABCDEFGHIJKLMNOPQRSTUVWXYZ0123456789"
	return []c17Writer{
		{"qr", gozxing.BarcodeFormat_QR_CODE, func() gozxing.Writer { return qrcode.NewQRCodeWriter() }, func(r *fw.Rand) string { return c17From(r, upper+" $%*+-./:abcdefghijklmnopqrstuvwxyz", 1, 90) }},
		{"datamatrix", gozxing.BarcodeFormat_DATA_MATRIX, datamatrix.NewDataMatrixWriter, func(r *fw.Rand) string { return c17Digits(r, r.Range(1, 80)) }},
		{"code128", gozxing.BarcodeFormat_CODE_128, oned.NewCode128Writer, func(r *fw.Rand) string { return c17From(r, upper+"abcdefghijklmnopqrstuvwxyz -.", 1, 20) }},
		{"code39", gozxing.BarcodeFormat_CODE_39, oned.NewCode39Writer, func(r *fw.Rand) string { return c17From(r, upper, 1, 12) }},
		{"code93", gozxing.BarcodeFormat_CODE_93, oned.NewCode93Writer, func(r *fw.Rand) string { return c17From(r, upper, 1, 12) }},
		{"ean13", gozxing.BarcodeFormat_EAN_13, oned.NewEAN13Writer, func(r *fw.Rand) string { return c17Digits(r, 12) }},
		{"ean8", gozxing.BarcodeFormat_EAN_8, oned.NewEAN8Writer, func(r *fw.Rand) string { return c17Digits(r, 7) }},
		{"upca", gozxing.BarcodeFormat_UPC_A, oned.NewUPCAWriter, func(r *fw.Rand) string { return c17Digits(r, 11) }},
		{"upce", gozxing.BarcodeFormat_UPC_E, oned.NewUPCEWriter, func(r *fw.Rand) string { return "0" + c17Digits(r, 6) }},
		{"itf", gozxing.BarcodeFormat_ITF, oned.NewITFWriter, func(r *fw.Rand) string { return c17Digits(r, 2*r.Range(1, 10)) }},
		{"codabar", gozxing.BarcodeFormat_CODABAR, oned.NewCodaBarWriter, func(r *fw.Rand) string { return "A" + c17Digits(r, r.Range(1, 14)) + "B" }},
	}
}

func c17Symbol(r *fw.Rec, wr c17Writer, scale int, sample bool) bool {
	ctx := map[string]interface{}{"writer": wr.name, "scale": scale}
	return c17Guard(r, func() map[string]interface{} { return ctx }, func() bool { return c17SymbolBody(r, wr, scale, sample, ctx) })
}

func c17SymbolBody(r *fw.Rec, wr c17Writer, scale int, sample bool, ctx map[string]interface{}) bool {
	rng := r.Rng
	content := wr.content(rng)
	ctx["content"] = content
	w := wr.w()
	nat, err := w.Encode(content, wr.format, 0, 0, nil)
	if err != nil || nat == nil {
		r.Tally("sym_writer_refused_" + wr.name)
		return true
	}
	rw, rh := nat.GetWidth()*scale, nat.GetHeight()*scale
	twoD := wr.name == "qr" || wr.name == "datamatrix"
	if !twoD {
		rh = 1 + rng.Intn(60)
	}
	if rng.Intn(3) == 0 { // not an exact multiple: extra padding
		rw += rng.Intn(8)
		if twoD {
			rh += rng.Intn(8)
		}
	}
	ctx["requested"] = []int{rw, rh}
	bm, err := w.Encode(content, wr.format, rw, rh, nil)
	if err != nil || bm == nil {
		r.Tally("sym_writer_refused_" + wr.name)
		return true
	}
	W, H := bm.GetWidth(), bm.GetHeight()
	pix := c17NewPixels(W, H)
	for y := 0; y < H; y++ {
		for x := 0; x < W; x++ {
			if !bm.Get(x, y) {
				pix[y][x] = 255
			}
		}
	}
	var src gozxing.LuminanceSource
	v := &c17View{und: pix, W: W, H: H, w: W, h: H}
	how := ""
	kind := c17Gray
	if rng.Intn(3) != 0 {
		src = gozxing.NewLuminanceSourceFromImage(bm) // the BitMatrix itself as image.Image
		how = "BitMatrix as image.Image"
		r.Tally("sym_source_bitmatrix_image")
	} else {
		kind = rng.Intn(c17NKinds)
		s, bad := c17Build(rng, kind, W, H, pix, false, true)
		if s == nil {
			r.Violation("model-mismatch", c17Fam(kind, "New")+".New:fails-on-valid-input", bad, nil)
			return false
		}
		src, v, how = s.src, s.v, s.desc
		r.Tally("sym_source_" + c17KindName[kind])
	}
	desc := fmt.Sprintf("%s %q scale %d rendered %dx%d (%s)", wr.name, content, scale, W, H, how)
	data := map[string]interface{}{"writer": wr.name, "content": content, "scale": scale, "requested": []int{rw, rh}, "rendered": []int{W, H}, "source": how}
	if c, d := c17CheckView(src, v, rng); c != "" {
		r.Violation("model-mismatch", c17Fam(kind, "New")+".New:"+c, desc+": "+d, data)
		return false
	}
	for which := 0; which < 2; which++ {
		bb, err := gozxing.NewBinaryBitmap(c17NewBinarizer(which, src))
		if err != nil {
			r.Violation("model-mismatch", "BinaryBitmap.New:error", err.Error(), data)
			return false
		}
		if c, d := c17CheckBinary(r, bb, which, v, "sym_"); c != "" {
			data["binarizer"] = c17BinName[which]
			r.Violation("model-mismatch", c, desc+" via "+c17BinName[which]+": "+d, data)
			return false
		}
	}
	r.Tally("sym_rendered_" + wr.name)
	r.Tally(fmt.Sprintf("sym_scale_%d", scale))
	r.NontrivialH(c17Hash("s/" + wr.name + "/" + content + fmt.Sprint(scale, W, H)))
	if sample {
		r.Sample(map[string]interface{}{"kind": "rendered symbol", "writer": wr.name, "content": content, "scale": scale, "rendered": []int{W, H}, "source": how})
	}
	return true
}

// ------------------------------------------------------------------ driver

func c17(c *fw.Ctx) {
	c.Rule("views: every shape w x h in 1..200 x 1..200 for each of 5 source kinds (image.Gray, image.RGBA, image.NRGBA incl. sub-images and non-zero origins, RGB ints, planar YUV with a data window and reverseHorizontal), each with a seeded sequence of <= 6 operations (Crop with rectangles inside the view / with negative origin / leaving the underlying image / leaving only the view, Invert, RotateCounterClockwise; scripted: four quarter turns, double inversion, crop chains); after every step GetWidth/GetHeight, GetMatrix, GetRow(y) for every y with nil/short/long/reused buffers and GetRow(-1), GetRow(h) are compared with a [][]uint8 model holding the underlying image and the view rectangle. Small sources 1..3 x 1..3 (depth 2) and 1..8 x 1..8 (depth 1): every crop rectangle with origin -2..w+1 and size 1..W+1. Binarisers: bilevel images of every shape 1..100 x 1..100 (11 pattern families: uniform, noise, sparse, stripes, checker, blobs, single pixel, halves, frame) on all source kinds, optionally inverted and cropped/rotated through BinaryBitmap, plus renderings of the 11 writers at scales 1..4: GetBlackMatrix (twice) of both binarisers == (lum == 0) or NotFoundException, every GetBlackRow against the sharpened-threshold model, GetBlackRow(-1), GetBlackRow(h) refused. A case is non-trivial when its whole script ran; distinct = distinct (kind, shape, operation trace) resp. image")
	c.Assume("the colour->luminance formula is not fixed by the statement: grey opaque pixels (r=g=b, alpha 255, YUV Y bytes) must map to their grey value exactly; for coloured / translucent / transparent pixels the model takes the value from the source's first GetMatrix and every later view must agree with it (tally pixels_luminance_not_fixed_by_statement)")
	c.Assume("crop don't-care (DESIGN C17): a rectangle that leaves the view it is applied to but stays inside the underlying image may be refused or show the underlying pixels (for planar YUV with reverseHorizontal: the data as mirrored in place); after a rotation the underlying image is the rotated underlying image; tallies crop_dont_care_*")
	c.Assume("crop coordinates are bounded by a few image sizes (no integer-overflow rectangles); width and height >= 1; RotateCounterClockwise45 is not part of the statement and is not called")
	c.Assume("binarisers may answer NotFoundException for any bilevel image (statement: 'or rejected as having no contrast'); GetBlackRow: rows with both colours must equal the model (interior pixel black iff luminance 0, first and last pixel of rows >= 3 wide white as in ZXing's -1 4 -1 filter), uniform rows may be refused or returned (tallies blackrow_dont_care_*)")

	reps := c.Pick(1, 10)
	// 1. view sequences: every shape x every kind
	const hchunk = 25
	for kind := 0; kind < c17NKinds; kind++ {
		for w := 1; w <= 200; w++ {
			for h0 := 1; h0 <= 200; h0 += hchunk {
				kind, w, h0 := kind, w, h0
				c.Run(fmt.Sprintf("view/%s/%d/%d", c17KindName[kind], w, h0), func(r *fw.Rec) {
					for h := h0; h < h0+hchunk; h++ {
						for k := 0; k < reps; k++ {
							if !c17ViewSequence(r, kind, w, h, w == 37 && h == 120 && k == 0) {
								return
							}
							r.Tally("view_sequences")
						}
					}
				})
			}
		}
	}
	c.Exhaustive("view shapes 1..200 x 1..200 for each of the 5 source kinds (contents and operation sequences seeded)")
	// 2. exhaustive crop rectangles on small sources
	for kind := 0; kind < c17NKinds; kind++ {
		for w := 1; w <= 8; w++ {
			for h := 1; h <= 8; h++ {
				kind, w, h := kind, w, h
				depth := 1
				if w <= 3 && h <= 3 {
					depth = 2
				}
				c.Run(fmt.Sprintf("cropexh/%s/%dx%d", c17KindName[kind], w, h), func(r *fw.Rec) {
					c17CropExhaustive(r, kind, w, h, depth)
				})
			}
		}
	}
	c.Exhaustive("crop rectangles with origin -2..w+1 and size 1..W+1 on sources 1..8 x 1..8 of every kind; crops of every accepted crop for 1..3 x 1..3")
	for k := 0; k < c.Pick(16, 160); k++ {
		c.Run(fmt.Sprintf("yuvctor/%d", k), c17YUVBadWindow)
	}
	// 3. bilevel images, every shape 1..100 x 1..100
	for w := 1; w <= 100; w++ {
		for h0 := 1; h0 <= 100; h0 += 10 {
			w, h0 := w, h0
			c.Run(fmt.Sprintf("bin/%d/%d", w, h0), func(r *fw.Rec) {
				for h := h0; h < h0+10; h++ {
					for k := 0; k < 2*reps; k++ {
						if !c17Bilevel(r, w, h, w == 45 && h == 52 && k == 0) {
							return
						}
						r.Tally("bin_images")
					}
				}
			})
		}
	}
	c.Exhaustive("bilevel image shapes 1..100 x 1..100 (contents, source kind and view operations seeded)")
	// 4. rendered symbols
	nsym := c.Pick(12, 120)
	for wi, wr := range c17Writers() {
		for scale := 1; scale <= 4; scale++ {
			for k := 0; k < nsym; k++ {
				wi, wr, scale, k := wi, wr, scale, k
				c.Run(fmt.Sprintf("sym/%s/%d/%d", wr.name, scale, k), func(r *fw.Rec) {
					for j := 0; j < 4; j++ {
						if !c17Symbol(r, wr, scale, wi < 2 && scale == 2 && k == 0 && j == 0) {
							return
						}
					}
				})
			}
		}
	}

	// 5. large frames: sizes around the powers of two and camera-like frames (the exhaustive shapes
	// end at 200 / 100; row buffers, block grids and strides of real frames are far larger)
	large := [][2]int{{255, 3}, {256, 2}, {257, 5}, {3, 511}, {512, 4}, {513, 2}, {1000, 3}, {1024, 1}, {1025, 2}, {2, 2049}, {4096, 1}, {4097, 2}, {320, 240}, {640, 480}, {481, 641}, {1280, 720}}
	for _, wh := range large {
		for kind := 0; kind < c17NKinds; kind++ {
			wh, kind := wh, kind
			c.Run(fmt.Sprintf("large/view/%s/%dx%d", c17KindName[kind], wh[0], wh[1]), func(r *fw.Rec) {
				for k := 0; k < c.Pick(1, 4); k++ {
					if !c17ViewSequence(r, kind, wh[0], wh[1], false) {
						return
					}
					r.Tally("large_view_sequences")
				}
			})
		}
		c.Run(fmt.Sprintf("large/bin/%dx%d", wh[0], wh[1]), func(r *fw.Rec) {
			for k := 0; k < c.Pick(2, 6); k++ {
				if !c17Bilevel(r, wh[0], wh[1], false) {
					return
				}
				r.Tally("large_bin_images")
			}
		})
	}
	c.Floor("large_view_sequences", 70)
	c.Floor("large_bin_images", 28)

	rp := int64(reps)
	c.Floor("view_sequences", 5*40000*rp*9/10)
	for _, k := range c17KindName {
		c.Floor("source_"+k, 36000*rp)
	}
	c.Floor("source_with_colour_or_alpha_pixels", 10000*rp)
	c.Floor("crop_in_view_accepted", 50000*rp)
	c.Floor("crop_negative_origin_refused", 20000*rp)
	c.Floor("crop_outside_underlying_refused", 20000*rp)
	c.Floor("crop_of_crop_checked", 20000*rp)
	c.Floor("op_invert", 20000*rp)
	c.Floor("op_rotate", 20000*rp)
	c.Floor("op_rotate_non_square", 10000*rp)
	c.Floor("rotate_unsupported_refused", 10000*rp)
	c.Floor("four_quarter_turns_checked", 5000*rp)
	c.Floor("double_inversion_checked", 5000*rp)
	c.Floor("exh_crop_in_view_accepted", 10000)
	c.Floor("exh_crop_negative_origin_refused", 10000)
	c.Floor("exh_crop_outside_underlying_refused", 10000)
	c.Floor("yuv_ctor_bad_window_refused", 1000)
	c.Floor("bin_images", 20000*rp*9/10)
	c.Floor("bin_global_matrix_exact", 8000*rp)
	c.Floor("bin_hybrid_local_method_exact", 3000*rp)
	c.Floor("bin_hybrid_local_method_exact_side_40_to_47", 500*rp)
	c.Floor("bin_hybrid_local_method_exact_side_not_multiple_of_8", 2000*rp)
	c.Floor("bin_hybrid_global_fallback_exact", 5000*rp)
	c.Floor("bin_blackrow_exact_row_with_both_colours", 100000*rp)
	c.Floor("bin_blackrow_outside_refused", 40000*rp)
	c.Floor("bin_op_crop", 1000*rp)
	c.Floor("bin_op_rotate", 1000*rp)
	for _, wr := range c17Writers() {
		c.Floor("sym_rendered_"+wr.name, int64(nsym)*4*4*8/10)
	}
	c.Floor("sym_hybrid_local_method_exact", int64(nsym)*40)
	c.Floor("sym_global_matrix_exact", int64(nsym)*100)
}
