//go:build verif

package main

import (
	azdec "github.com/makiuchi-d/gozxing/aztec/decoder"
	azdet "github.com/makiuchi-d/gozxing/aztec/detector"
	"github.com/makiuchi-d/gozxing/common"
	"github.com/makiuchi-d/gozxing/common/reedsolomon"
	dmdec "github.com/makiuchi-d/gozxing/datamatrix/decoder"
	dmenc "github.com/makiuchi-d/gozxing/datamatrix/encoder"
	"github.com/makiuchi-d/gozxing/oned"
	"github.com/makiuchi-d/gozxing/oned/rss"
	qrdec "github.com/makiuchi-d/gozxing/qrcode/decoder"
	qrenc "github.com/makiuchi-d/gozxing/qrcode/encoder"

	"verifharness/conc"
	"verifharness/fw"
)

// C18, verif build: the same concurrent workload as the race build, with a
// snapshot of every package-level table of the library before and after.

func c18Snapshot() uint64 {
	h := uint64(1469598103934665603)
	for _, v := range []uint64{common.VerifSnapshot(), reedsolomon.VerifSnapshot(), qrdec.VerifSnapshot(), qrenc.VerifSnapshot(),
		dmenc.VerifSnapshot(), dmdec.VerifSnapshot(), oned.VerifSnapshot(), rss.VerifSnapshot(), azdec.VerifSnapshot(), azdet.VerifSnapshot()} {
		h = (h ^ v) * 1099511628211
	}
	return h
}

func init() {
	fw.Register("C18", func(c *fw.Ctx) { conc.Driver(c, c18Snapshot, "snap") })
}
