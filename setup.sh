#!/bin/bash
# Offline setup: builds the orchestrator and warms the Go build cache for both worker builds.
set -e
cd /verif/harness
export GOFLAGS=-mod=mod GOPROXY=off GOSUMDB=off GOTOOLCHAIN=local
mkdir -p /verif/bin /verif/work /verif/evidence /verif/replays
cp /repo/go.sum go.sum 2>/dev/null || true
go build -o /verif/bin/vcheck ./cmd/vcheck
go build -tags verif -o /verif/bin/worker.warm ./worker && rm -f /verif/bin/worker.warm
if [ -d worker18 ]; then go build -race -o /verif/bin/worker18.warm ./worker18 && rm -f /verif/bin/worker18.warm; fi
echo setup ok
