package onedref

// ---------------------------------------------------------------------------
// Code 128 (ISO/IEC 15417)
// ---------------------------------------------------------------------------

// Symbol character values.
const (
	C128Shift  = 98
	C128CodeC  = 99
	C128CodeB  = 100 // in sets A and C (FNC4 in set B)
	C128CodeA  = 101 // in sets B and C (FNC4 in set A)
	C128FNC1   = 102
	C128StartA = 103
	C128StartB = 104
	C128StartC = 105
	C128Stop   = 106
)

// Element widths bar,space,bar,space,bar,space (11 modules) of symbol
// character values 0..105; 106 is the stop character (13 modules, ends with
// a bar).
var code128Widths = [107]string{
	"212222",  // 0
	"222122",  // 1
	"222221",  // 2
	"121223",  // 3
	"121322",  // 4
	"131222",  // 5
	"122213",  // 6
	"122312",  // 7
	"132212",  // 8
	"221213",  // 9
	"221312",  // 10
	"231212",  // 11
	"112232",  // 12
	"122132",  // 13
	"122231",  // 14
	"113222",  // 15
	"123122",  // 16
	"123221",  // 17
	"223211",  // 18
	"221132",  // 19
	"221231",  // 20
	"213212",  // 21
	"223112",  // 22
	"312131",  // 23
	"311222",  // 24
	"321122",  // 25
	"321221",  // 26
	"312212",  // 27
	"322112",  // 28
	"322211",  // 29
	"212123",  // 30
	"212321",  // 31
	"232121",  // 32
	"111323",  // 33
	"131123",  // 34
	"131321",  // 35
	"112313",  // 36
	"132113",  // 37
	"132311",  // 38
	"211313",  // 39
	"231113",  // 40
	"231311",  // 41
	"112133",  // 42
	"112331",  // 43
	"132131",  // 44
	"113123",  // 45
	"113321",  // 46
	"133121",  // 47
	"313121",  // 48
	"211331",  // 49
	"231131",  // 50
	"213113",  // 51
	"213311",  // 52
	"213131",  // 53
	"311123",  // 54
	"311321",  // 55
	"331121",  // 56
	"312113",  // 57
	"312311",  // 58
	"332111",  // 59
	"314111",  // 60
	"221411",  // 61
	"431111",  // 62
	"111224",  // 63
	"111422",  // 64
	"121124",  // 65
	"121421",  // 66
	"141122",  // 67
	"141221",  // 68
	"112214",  // 69
	"112412",  // 70
	"122114",  // 71
	"122411",  // 72
	"142112",  // 73
	"142211",  // 74
	"241211",  // 75
	"221114",  // 76
	"413111",  // 77
	"241112",  // 78
	"134111",  // 79
	"111242",  // 80
	"121142",  // 81
	"121241",  // 82
	"114212",  // 83
	"124112",  // 84
	"124211",  // 85
	"411212",  // 86
	"421112",  // 87
	"421211",  // 88
	"212141",  // 89
	"214121",  // 90
	"412121",  // 91
	"111143",  // 92
	"111341",  // 93
	"131141",  // 94
	"114113",  // 95
	"114311",  // 96
	"411113",  // 97
	"411311",  // 98
	"113141",  // 99
	"114131",  // 100
	"311141",  // 101
	"411131",  // 102
	"211412",  // 103 Start A
	"211214",  // 104 Start B
	"211232",  // 105 Start C
	"2331112", // 106 Stop
}

// Code128Widths returns the element widths of a symbol character value.
func Code128Widths(v int) []int {
	if v < 0 || v > 106 {
		return nil
	}
	s := code128Widths[v]
	w := make([]int, len(s))
	for i := range w {
		w[i] = int(s[i] - '0')
	}
	return w
}

func c128DigitRun(text []byte, i int) int {
	n := 0
	for i+n < len(text) && text[i+n] >= '0' && text[i+n] <= '9' {
		n++
	}
	return n
}

// c128NextAB returns 'A' if the first character at or after i that exists in
// only one of the sets A/B is a control character, 'B' if it is in 96..127,
// and 0 if there is no such character.
func c128NextAB(text []byte, i int) byte {
	for ; i < len(text); i++ {
		if text[i] < 32 {
			return 'A'
		}
		if text[i] >= 96 {
			return 'B'
		}
	}
	return 0
}

// Code128Values returns the symbol character values (start character, data,
// code-set changes and shifts; no check character, no stop) of some valid
// encodation of text.  forceSet 0 lets the function choose (using code set C
// for runs of four or more digits and SHIFT for isolated characters);
// 'A', 'B' or 'C' encodes everything in that one set.
func Code128Values(text []byte, forceSet byte) ([]int, bool) {
	for _, b := range text {
		if b > 127 {
			return nil, false
		}
	}
	switch forceSet {
	case 'A':
		v := []int{C128StartA}
		for _, b := range text {
			switch {
			case b < 32:
				v = append(v, int(b)+64)
			case b < 96:
				v = append(v, int(b)-32)
			default:
				return nil, false
			}
		}
		return v, true
	case 'B':
		v := []int{C128StartB}
		for _, b := range text {
			if b < 32 {
				return nil, false
			}
			v = append(v, int(b)-32)
		}
		return v, true
	case 'C':
		if len(text)%2 != 0 || c128DigitRun(text, 0) != len(text) {
			return nil, false
		}
		v := []int{C128StartC}
		for i := 0; i < len(text); i += 2 {
			v = append(v, int(text[i]-'0')*10+int(text[i+1]-'0'))
		}
		return v, true
	case 0:
	default:
		return nil, false
	}

	n := len(text)
	var v []int
	var cur byte
	r0 := c128DigitRun(text, 0)
	switch {
	case r0 >= 4 || (r0 == n && n >= 2 && n%2 == 0):
		cur = 'C'
		v = append(v, C128StartC)
	case c128NextAB(text, 0) == 'A':
		cur = 'A'
		v = append(v, C128StartA)
	default:
		cur = 'B'
		v = append(v, C128StartB)
	}
	i := 0
	for i < n {
		b := text[i]
		if cur == 'C' {
			if c128DigitRun(text, i) >= 2 {
				v = append(v, int(text[i]-'0')*10+int(text[i+1]-'0'))
				i += 2
				continue
			}
			next := c128NextAB(text, i)
			if next == 'A' {
				v = append(v, C128CodeA)
				cur = 'A'
			} else {
				v = append(v, C128CodeB)
				cur = 'B'
			}
			continue
		}
		r := c128DigitRun(text, i)
		if r >= 4 {
			if r%2 == 1 {
				v = append(v, int(b)-32) // same value in A and B
				i++
			}
			v = append(v, C128CodeC)
			cur = 'C'
			continue
		}
		if cur == 'A' && b >= 96 {
			if c128NextAB(text, i+1) == 'A' {
				v = append(v, C128Shift, int(b)-32)
				i++
			} else {
				v = append(v, C128CodeB)
				cur = 'B'
			}
			continue
		}
		if cur == 'B' && b < 32 {
			if c128NextAB(text, i+1) == 'B' {
				v = append(v, C128Shift, int(b)+64)
				i++
			} else {
				v = append(v, C128CodeA)
				cur = 'A'
			}
			continue
		}
		if b < 32 {
			v = append(v, int(b)+64)
		} else {
			v = append(v, int(b)-32)
		}
		i++
	}
	return v, true
}

// Code128Check is the check character value: (start + sum i*value_i) mod 103
// with i = 1 for the character after the start character.
func Code128Check(values []int) int {
	if len(values) == 0 {
		return -1
	}
	sum := values[0]
	for i := 1; i < len(values); i++ {
		sum += i * values[i]
	}
	return sum % 103
}

// Code128Pattern renders all given symbol values (start .. check) followed by
// the stop character.  nil if a value is outside 0..105.
func Code128Pattern(values []int) []bool {
	p := make([]bool, 0, 11*len(values)+13)
	for _, v := range values {
		if v < 0 || v > 105 {
			return nil
		}
		p = runs(p, Code128Widths(v))
	}
	p = runs(p, Code128Widths(C128Stop))
	return p
}

// Code128Decode interprets a value sequence (start .. last data character,
// without check and stop) and returns the bytes it encodes.  Function
// characters (FNC1..FNC4), a missing start character, a trailing SHIFT and
// values above 102 in data position give ok=false.
func Code128Decode(values []int) ([]byte, bool) {
	if len(values) == 0 {
		return nil, false
	}
	var cur byte
	switch values[0] {
	case C128StartA:
		cur = 'A'
	case C128StartB:
		cur = 'B'
	case C128StartC:
		cur = 'C'
	default:
		return nil, false
	}
	out := []byte{}
	shift := false
	for _, v := range values[1:] {
		if v < 0 || v > 102 {
			return nil, false
		}
		set := cur
		if shift {
			if cur == 'A' {
				set = 'B'
			} else {
				set = 'A'
			}
			shift = false
			if v >= 96 {
				return nil, false // SHIFT must be followed by a data character
			}
		}
		switch set {
		case 'C':
			switch {
			case v < 100:
				out = append(out, byte('0'+v/10), byte('0'+v%10))
			case v == C128CodeB:
				cur = 'B'
			case v == C128CodeA:
				cur = 'A'
			default: // FNC1
				return nil, false
			}
		case 'A':
			switch {
			case v < 64:
				out = append(out, byte(v+32))
			case v < 96:
				out = append(out, byte(v-64))
			case v == C128Shift:
				shift = true
			case v == C128CodeC:
				cur = 'C'
			case v == C128CodeB:
				cur = 'B'
			default: // FNC3 96, FNC2 97, FNC4 101, FNC1 102
				return nil, false
			}
		case 'B':
			switch {
			case v < 96:
				out = append(out, byte(v+32))
			case v == C128Shift:
				shift = true
			case v == C128CodeC:
				cur = 'C'
			case v == C128CodeA:
				cur = 'A'
			default: // FNC3 96, FNC2 97, FNC4 100, FNC1 102
				return nil, false
			}
		}
	}
	if shift {
		return nil, false
	}
	return out, true
}
