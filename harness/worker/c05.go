//go:build verif

package main

import (
	"fmt"

	"github.com/makiuchi-d/gozxing"
	"github.com/makiuchi-d/gozxing/datamatrix"
	dmdec "github.com/makiuchi-d/gozxing/datamatrix/decoder"
	qrdec "github.com/makiuchi-d/gozxing/qrcode/decoder"
	qrenc "github.com/makiuchi-d/gozxing/qrcode/encoder"

	"verifharness/fw"
	"verifharness/ref/dmref"
	"verifharness/ref/gf"
	"verifharness/ref/qrref"
)

// C05: damaged QR / Data Matrix symbols decode exactly up to the promised capacity.
// Damage is applied as module flips at positions computed by the reference models,
// on symbols written by the library.

func init() { fw.Register("C05", c05) }

func flipCodeword(m [][]bool, mods [8][2]int, x byte) {
	for bit := 0; bit < 8; bit++ {
		if x>>(7-uint(bit))&1 == 1 {
			p := mods[bit]
			m[p[1]][p[0]] = !m[p[1]][p[0]]
		}
	}
}

// codewordValue reads the eight modules of a codeword (most significant bit first); unmask
// gives the mask bit to remove at (x, y), nil for none.
func codewordValue(m [][]bool, mods [8][2]int, unmask func(x, y int) bool) byte {
	var v byte
	for bit := 0; bit < 8; bit++ {
		p := mods[bit]
		b := m[p[1]][p[0]]
		if unmask != nil && unmask(p[0], p[1]) {
			b = !b
		}
		v <<= 1
		if b {
			v |= 1
		}
	}
	return v
}

// c05TwoZeroSyndromes: magnitudes for errors at the block positions pos (indices into a block of n
// codewords, index 0 = highest degree) such that two of the ec syndromes (the two highest, the
// two lowest, or a random pair) vanish; nil if the construction degenerates.
func c05TwoZeroSyndromes(rng *fw.Rand, f gf.Field, n, ec int, pos []int) []int {
	t := len(pos)
	if t < 3 || ec < 4 {
		return nil
	}
	j1, j2 := ec-1, ec-2
	switch rng.Intn(3) {
	case 1:
		j1, j2 = 0, 1
	case 2:
		j1 = rng.Intn(ec)
		j2 = (j1 + 1 + rng.Intn(ec-1)) % ec
	}
	w := func(j, p int) int { return f.PowOf(f.Pow((f.Base+j)%(f.Size-1)), n-1-p) }
	mags := make([]int, t)
	c1, c2 := 0, 0
	for i := 0; i < t-2; i++ {
		mags[i] = 1 + rng.Intn(f.Size-1)
		c1 ^= f.Mul(mags[i], w(j1, pos[i]))
		c2 ^= f.Mul(mags[i], w(j2, pos[i]))
	}
	pa, pb := pos[t-2], pos[t-1]
	a11, a12, a21, a22 := w(j1, pa), w(j1, pb), w(j2, pa), w(j2, pb)
	det := f.Mul(a11, a22) ^ f.Mul(a12, a21)
	if det == 0 {
		return nil
	}
	di := f.Inv(det)
	mags[t-2] = f.Mul(di, f.Mul(c1, a22)^f.Mul(c2, a12))
	mags[t-1] = f.Mul(di, f.Mul(c2, a11)^f.Mul(c1, a21))
	if mags[t-2] == 0 || mags[t-1] == 0 {
		return nil
	}
	return mags
}

type qrSym struct {
	v     int
	l     qrref.Level
	mask  int
	text  string
	m     [][]bool
	mods  [][8][2]int
	total int
}

func c05QRSymbol(r *fw.Rec, v int, l qrref.Level) (*qrSym, bool) {
	rng := r.Rng
	mode := qrAllModes[rng.Intn(4)]
	n := qrLenIn(rng, v, l, mode)
	if n == 0 {
		mode = qrref.Numeric
		n = qrLenIn(rng, v, l, mode)
	}
	text, _, charset := qrPayload(rng, mode, n)
	mask := rng.Intn(8)
	code, err := qrenc.Encoder_encode(text, qrLibLevel[l], qrHints(v, mask, charset))
	if err != nil {
		r.Violation("roundtrip", "qr.encode:refused-fitting-content", fmt.Sprintf("Encoder_encode refused %d %s characters for %d-%s: %v", n, qrModeName[mode], v, qrLevelName[l], err), nil)
		return nil, false
	}
	return &qrSym{v: v, l: l, mask: mask, text: text, m: byteMatrixToBools(code.GetMatrix()), mods: qrref.CodewordModules(v), total: qrref.TotalCodewords(v)}, true
}

func (s *qrSym) decodeAndCheck(r *fw.Rec, m [][]bool, what, sig string, extra map[string]interface{}) bool {
	res, err := qrdec.NewDecoder().Decode(boolsToBitMatrix(m), nil)
	r.Evals(1)
	info := map[string]interface{}{"version": s.v, "level": qrLevelName[s.l], "mask": s.mask, "text": s.text}
	for k, v := range extra {
		info[k] = v
	}
	if err != nil {
		r.Violation("damage", sig+":rejected", fmt.Sprintf("QR %d-%s mask %d with %s rejected: %v", s.v, qrLevelName[s.l], s.mask, what, err), info)
		return false
	}
	if res.GetText() != s.text {
		r.Violation("damage", sig+":other-text", fmt.Sprintf("QR %d-%s mask %d with %s decoded to other text %q", s.v, qrLevelName[s.l], s.mask, what, trunc(res.GetText(), 60)), info)
		return false
	}
	r.NontrivialH(hash64s(s.text) ^ hash64s(what)*31)
	return true
}

// damage pattern: per block pick k_b <= t_b codeword indices
func c05QRDamage(r *fw.Rec, s *qrSym, kind int) bool {
	rng := r.Rng
	t := qrref.ECCodewordsPerBlock(s.v, s.l) / 2
	nb := qrref.NumBlocks(s.v, s.l)
	// codewords grouped per block: (final index, isEC, idx)
	perBlock := make([][]int, nb)
	for i := 0; i < s.total; i++ {
		b, _, _ := qrref.CodewordBlock(s.v, s.l, i)
		perBlock[b] = append(perBlock[b], i)
	}
	m := copyBools(s.m)
	var damaged []int
	for b := 0; b < nb; b++ {
		k := t
		switch kind {
		case 1: // random count below capacity
			k = rng.Intn(t + 1)
		case 2: // only one block damaged, at capacity
			if b != int(rng.Uint64()%uint64(nb)) && nb > 1 {
				k = 0
			}
		}
		idxs := perBlock[b]
		perm := rng.Perm(len(idxs))
		if kind == 8 { // t errors whose magnitudes make two syndromes of the block vanish
			if mags := c05TwoZeroSyndromes(rng, gf.QR256, len(idxs), 2*t, perm[:minInt(t, len(perm))]); mags != nil {
				for i, x := range mags {
					flipCodeword(m, s.mods[idxs[perm[i]]], byte(x))
					damaged = append(damaged, idxs[perm[i]])
				}
			}
			continue
		}
		if kind == 3 || kind == 7 { // extremes: first and last codewords of the block (incl. the long block's extra byte and the last EC byte)
			perm = append([]int{0, len(idxs) - 1, 1, len(idxs) - 2}, perm...)
		}
		blotFF := rng.Bool()
		_ = blotFF
		seen := map[int]bool{}
		cnt := 0
		sameMask, synAcc, synJ := byte(1+rng.Intn(255)), 0, rng.Intn(2*maxInt(t, 1))
		_, _, _ = sameMask, synAcc, synJ
		for _, pi := range perm {
			if cnt >= k {
				break
			}
			if pi < 0 || pi >= len(idxs) || seen[pi] {
				continue
			}
			seen[pi] = true
			x := byte(1 + rng.Intn(255))
			if kind == 4 {
				x = 0xFF
			}
			if kind == 7 { // the codeword reads 0x00 (or 0xFF) afterwards: a blot; the first codewords of the block among them
				cur := codewordValue(m, s.mods[idxs[pi]], func(x, y int) bool { return qrref.MaskBit(s.mask, x, y) })
				x = cur
				if blotFF {
					x = ^cur
				}
				if x == 0 {
					x = 0x80
				}
			}
			if kind == 5 { // the same error value everywhere, an even number of times: the plain XOR over the block is unchanged
				x = sameMask
				if cnt == k-1 && k%2 == 1 && k > 1 {
					break
				}
			}
			if kind == 6 { // error values chosen so that ONE syndrome of the block stays zero
				deg := len(idxs) - 1 - pi
				root := gf.QR256.Pow((0 + synJ) % 255)
				w := gf.QR256.PowOf(root, deg)
				if cnt == k-1 && k > 1 {
					if synAcc == 0 {
						break
					}
					x = byte(gf.QR256.Mul(synAcc, gf.QR256.Inv(w)))
				} else {
					synAcc ^= gf.QR256.Mul(int(x), w)
				}
			}
			flipCodeword(m, s.mods[idxs[pi]], x)
			damaged = append(damaged, idxs[pi])
			cnt++
		}
	}
	kinds := []string{"t-per-block", "random-below-t", "one-block-at-t", "extreme-positions", "inverted-codewords", "same-error-value-even-count", "one-syndrome-stays-zero", "codewords-blotted-to-00-or-FF", "two-syndromes-stay-zero"}
	ok := s.decodeAndCheck(r, m, fmt.Sprintf("%d damaged codewords (%s, t=%d per block, %d blocks)", len(damaged), kinds[kind], t, nb), "qr.codewords:"+kinds[kind], map[string]interface{}{"damaged_codewords": damaged})
	if ok {
		r.Tally("qr_damage_" + kinds[kind])
	}
	return ok
}

func randSubset(rng *fw.Rand, n, maxK int) []int {
	k := rng.Intn(maxK + 1)
	p := rng.Perm(n)
	return p[:k]
}

func c05QRFormat(r *fw.Rec, s *qrSym, sample int) bool {
	rng := r.Rng
	size := len(s.m)
	c1, c2 := qrref.FormatBitPositions(size)
	subs := bitSubsets(15, 3)
	for copyIdx := 0; copyIdx < 2; copyIdx++ {
		for si, sub := range subs {
			if sample > 0 && rng.Intn(len(subs)) >= sample && si > 16 {
				continue
			}
			m := copyBools(s.m)
			a, b := c1, c2
			if copyIdx == 1 {
				a, b = c2, c1
			}
			for _, k := range sub {
				m[a[k][1]][a[k][0]] = !m[a[k][1]][a[k][0]]
			}
			other := randSubset(rng, 15, 3)
			if rng.Intn(3) == 0 {
				other = sub // the same damage in both copies
			}
			for _, k := range other {
				m[b[k][1]][b[k][0]] = !m[b[k][1]][b[k][0]]
			}
			if !s.decodeAndCheck(r, m, fmt.Sprintf("format bits %v flipped in copy %d and %v in the other copy", sub, copyIdx+1, other), "qr.format-info:3-bit-errors", map[string]interface{}{"copy": copyIdx + 1, "bits": sub, "other_copy_bits": other}) {
				return false
			}
			r.Tally("qr_format_subsets_tolerated")
		}
	}
	return true
}

func c05QRVersion(r *fw.Rec, s *qrSym, sample int) bool {
	if s.v < 7 {
		return true
	}
	rng := r.Rng
	size := len(s.m)
	c1, c2 := qrref.VersionBitPositions(size)
	subs := bitSubsets(18, 3)
	for copyIdx := 0; copyIdx < 2; copyIdx++ {
		for si, sub := range subs {
			if sample > 0 && rng.Intn(len(subs)) >= sample && si > 19 {
				continue
			}
			m := copyBools(s.m)
			a, b := c1, c2
			if copyIdx == 1 {
				a, b = c2, c1
			}
			for _, k := range sub {
				m[a[k][1]][a[k][0]] = !m[a[k][1]][a[k][0]]
			}
			other := randSubset(rng, 18, 3)
			if rng.Intn(3) == 0 {
				other = sub // the same damage in both copies
			}
			for _, k := range other {
				m[b[k][1]][b[k][0]] = !m[b[k][1]][b[k][0]]
			}
			if !s.decodeAndCheck(r, m, fmt.Sprintf("version bits %v flipped in copy %d and %v in the other copy", sub, copyIdx+1, other), "qr.version-info:3-bit-errors", map[string]interface{}{"copy": copyIdx + 1, "bits": sub, "other_copy_bits": other}) {
				return false
			}
			r.Tally("qr_version_subsets_tolerated")
		}
	}
	return true
}

// --- Data Matrix

type dmSym struct {
	s    dmref.Symbol
	text string
	m    [][]bool
	mods [][8][2]int
}

func c05DMSymbol(r *fw.Rec, s dmref.Symbol) (*dmSym, bool) {
	rng := r.Rng
	// text landing on this size: ASCII cost between the previous capacity+1 and this capacity
	var text string
	for tries := 0; tries < 80; tries++ {
		var b []byte
		target := s.DataCW - rng.Intn(minInt(s.DataCW, 3))
		for len(dmref.EncodeASCII(b)) < target {
			switch rng.Intn(4) {
			case 0:
				b = append(b, byte('0'+rng.Intn(10)), byte('0'+rng.Intn(10)))
			case 1:
				b = append(b, byte('A'+rng.Intn(26)))
			default:
				b = append(b, byte('a'+rng.Intn(26)))
			}
		}
		text = string(b)
		hints := map[gozxing.EncodeHintType]interface{}{gozxing.EncodeHintType_DATA_MATRIX_SHAPE: shapeHint(s)}
		bm, err := datamatrix.NewDataMatrixWriter().Encode(text, gozxing.BarcodeFormat_DATA_MATRIX, 0, 0, hints)
		if err != nil || bm.GetHeight() != s.Rows || bm.GetWidth() != s.Cols {
			// try forcing the size through min/max hints
			d, _ := gozxing.NewDimension(s.Cols, s.Rows)
			hints[gozxing.EncodeHintType_MIN_SIZE] = d
			hints[gozxing.EncodeHintType_MAX_SIZE] = d
			bm, err = datamatrix.NewDataMatrixWriter().Encode(text, gozxing.BarcodeFormat_DATA_MATRIX, 0, 0, hints)
			if err != nil || bm.GetHeight() != s.Rows || bm.GetWidth() != s.Cols {
				continue
			}
		}
		return &dmSym{s: s, text: text, m: bitMatrixToBools(bm), mods: dmref.CodewordModules(s)}, true
	}
	r.Inconclusive(fmt.Sprintf("could not obtain a %dx%d symbol from the writer", s.Rows, s.Cols))
	return nil, false
}

func (d *dmSym) decodeAndCheck(r *fw.Rec, m [][]bool, what, sig string, extra map[string]interface{}) bool {
	res, err := dmdec.NewDecoder().Decode(boolsToBitMatrix(m))
	r.Evals(1)
	info := map[string]interface{}{"size": fmt.Sprintf("%dx%d", d.s.Rows, d.s.Cols), "text": d.text}
	for k, v := range extra {
		info[k] = v
	}
	if err != nil {
		r.Violation("damage", sig+":rejected", fmt.Sprintf("Data Matrix %dx%d with %s rejected: %v", d.s.Rows, d.s.Cols, what, err), info)
		return false
	}
	if res.GetText() != d.text {
		r.Violation("damage", sig+":other-text", fmt.Sprintf("Data Matrix %dx%d with %s decoded to other text %q", d.s.Rows, d.s.Cols, what, trunc(res.GetText(), 60)), info)
		return false
	}
	r.NontrivialH(hash64s(d.text) ^ hash64s(what)*31)
	return true
}

func c05DMDamage(r *fw.Rec, d *dmSym, kind int) bool {
	rng := r.Rng
	t := d.s.BlockECCW() / 2
	total := d.s.DataCW + d.s.ECCW
	perBlock := make([][]int, d.s.Blocks)
	for i := 0; i < total; i++ {
		b, _ := dmref.CodewordBlock(d.s, i)
		perBlock[b] = append(perBlock[b], i)
	}
	m := copyBools(d.m)
	var damaged []int
	for b := range perBlock {
		k := t
		if kind == 1 {
			k = rng.Intn(t + 1)
		}
		idxs := perBlock[b]
		perm := rng.Perm(len(idxs))
		if kind == 8 {
			if mags := c05TwoZeroSyndromes(rng, gf.DM256, len(idxs), 2*t, perm[:minInt(t, len(perm))]); mags != nil {
				for i, x := range mags {
					flipCodeword(m, d.mods[idxs[perm[i]]], byte(x))
					damaged = append(damaged, idxs[perm[i]])
				}
			}
			continue
		}
		if kind == 3 || kind == 7 {
			perm = append([]int{0, len(idxs) - 1, 1, len(idxs) - 2}, perm...)
		}
		blotFF := rng.Bool()
		_ = blotFF
		seen := map[int]bool{}
		cnt := 0
		sameMask, synAcc, synJ := byte(1+rng.Intn(255)), 0, rng.Intn(2*maxInt(t, 1))
		_, _, _ = sameMask, synAcc, synJ
		for _, pi := range perm {
			if cnt >= k {
				break
			}
			if pi < 0 || pi >= len(idxs) || seen[pi] {
				continue
			}
			seen[pi] = true
			x := byte(1 + rng.Intn(255))
			if kind == 4 {
				x = 0xFF
			}
			if kind == 7 {
				cur := codewordValue(m, d.mods[idxs[pi]], nil)
				x = cur
				if blotFF {
					x = ^cur
				}
				if x == 0 {
					x = 0x80
				}
			}
			if kind == 5 {
				x = sameMask
				if cnt == k-1 && k%2 == 1 && k > 1 {
					break
				}
			}
			if kind == 6 {
				deg := len(idxs) - 1 - pi
				root := gf.DM256.Pow((1 + synJ) % 255)
				w := gf.DM256.PowOf(root, deg)
				if cnt == k-1 && k > 1 {
					if synAcc == 0 {
						break
					}
					x = byte(gf.DM256.Mul(synAcc, gf.DM256.Inv(w)))
				} else {
					synAcc ^= gf.DM256.Mul(int(x), w)
				}
			}
			flipCodeword(m, d.mods[idxs[pi]], x)
			damaged = append(damaged, idxs[pi])
			cnt++
		}
	}
	kinds := []string{"t-per-block", "random-below-t", "", "extreme-positions", "inverted-codewords", "same-error-value-even-count", "one-syndrome-stays-zero", "codewords-blotted-to-00-or-FF", "two-syndromes-stay-zero"}
	ok := d.decodeAndCheck(r, m, fmt.Sprintf("%d damaged codewords (%s, t=%d per block, %d blocks)", len(damaged), kinds[kind], t, d.s.Blocks), "dm.codewords:"+kinds[kind], map[string]interface{}{"damaged_codewords": damaged})
	if ok {
		r.Tally("dm_damage_" + kinds[kind])
	}
	return ok
}

func c05(c *fw.Ctx) {
	c.Rule("library-written QR symbols of all 160 (version, level) pairs and Data Matrix symbols of all 30 sizes; damage applied as module flips at codeword positions computed by qrref/dmref: per RS block up to t = floor(ec/2) codewords with arbitrary replacement values (all blocks at t, random below t, one block at t, first/last positions incl. the long block's extra byte, fully inverted codewords, the same error value an even number of times, error values chosen so that one or two syndromes of the block stay zero, codewords - the first of a block among them - that read 0x00 or 0xFF afterwards); thorough: every single codeword position of every block; QR format information: every subset of <= 3 of 15 bits of one copy with an independent random <= 3-bit error in the other copy; version information likewise (18 bits, versions >= 7); histories of damaged symbols with many-then-few error-correction codewords per block on ONE decoder instance; oracle: decoded text identical; distinct = distinct (symbol, damage pattern)")
	c.Assume("qrref.CodewordModules / dmref.CodewordModules give the module positions of every codeword bit (cross-checked by C07/C08: the same functions build the reference symbols that the library reproduces module for module)")
	reps := c.Pick(1, 12)
	for v := 1; v <= 40; v++ {
		for _, l := range qrAllLevels {
			v, l := v, l
			for rep := 0; rep < reps; rep++ {
				c.Run(fmt.Sprintf("qr/cw/%d/%s/%d", v, qrLevelName[l], rep), func(r *fw.Rec) {
					s, ok := c05QRSymbol(r, v, l)
					if !ok {
						return
					}
					if !s.decodeAndCheck(r, s.m, "no damage", "qr.clean", nil) {
						return
					}
					for kind := 0; kind < 9; kind++ {
						for k := 0; k < 2; k++ {
							if !c05QRDamage(r, s, kind) {
								return
							}
						}
					}
					r.Nontrivial(fmt.Sprintf("qr/%d/%d/%s", v, l, s.text))
					r.Tally("qr_version_level_pairs_damaged")
					if v == 5 && l == qrref.Q && rep == 0 {
						r.Sample(map[string]interface{}{"kind": "qr codeword damage", "version": v, "level": "Q", "t_per_block": qrref.ECCodewordsPerBlock(v, l) / 2, "blocks": qrref.NumBlocks(v, l), "patterns": "5 kinds x 2"})
					}
				})
			}
			// format / version information
			if c.Quick() && int(l) != v%4 { // quick: every version once, levels rotating
				continue
			}
			c.Run(fmt.Sprintf("qr/fmt/%d/%s", v, qrLevelName[l]), func(r *fw.Rec) {
				s, ok := c05QRSymbol(r, v, l)
				if !ok {
					return
				}
				sample := c.Pick(40, 0)
				if !c.Quick() && (v*4+int(l))%8 != 0 {
					sample = 60
				}
				if !c05QRFormat(r, s, sample) || !c05QRVersion(r, s, sample) {
					return
				}
				if sample == 0 {
					r.Tally("qr_format_exhaustive_symbols")
				}
				r.Nontrivial(fmt.Sprintf("qrfmt/%d/%d/%s", v, l, s.text))
			})
		}
	}
	c.Exhaustive("the 160 QR (version, level) pairs and the 30 Data Matrix sizes")
	if !c.Quick() {
		// every single codeword position
		for v := 1; v <= 40; v++ {
			for _, l := range qrAllLevels {
				v, l := v, l
				total := qrref.TotalCodewords(v)
				for lo := 0; lo < total; lo += 400 {
					lo := lo
					c.Run(fmt.Sprintf("qr/single/%d/%s/%d", v, qrLevelName[l], lo), func(r *fw.Rec) {
						s, ok := c05QRSymbol(r, v, l)
						if !ok {
							return
						}
						if qrref.ECCodewordsPerBlock(v, l)/2 < 1 {
							return
						}
						for i := lo; i < lo+400 && i < total; i++ {
							m := copyBools(s.m)
							x := byte(1 + r.Rng.Intn(255))
							flipCodeword(m, s.mods[i], x)
							if !s.decodeAndCheck(r, m, fmt.Sprintf("codeword %d xor %#02x", i, x), "qr.codewords:single", map[string]interface{}{"codeword": i, "xor": x}) {
								return
							}
						}
						r.TallyN("qr_single_codeword_positions", int64(minInt(lo+400, total)-lo))
					})
				}
			}
		}
		c.Exhaustive("every single codeword position of every QR (version, level) and every Data Matrix size; all <=3-bit subsets of format (every 8th pair: all 576x2) and version information")
	}
	dmReps := c.Pick(2, 24)
	for si, s := range dmref.Symbols() {
		si, s := si, s
		for rep := 0; rep < dmReps; rep++ {
			c.Run(fmt.Sprintf("dm/cw/%d/%d", si, rep), func(r *fw.Rec) {
				d, ok := c05DMSymbol(r, s)
				if !ok {
					return
				}
				if !d.decodeAndCheck(r, d.m, "no damage", "dm.clean", nil) {
					return
				}
				for _, kind := range []int{0, 1, 3, 4, 5, 6, 7, 8} {
					for k := 0; k < 3; k++ {
						if !c05DMDamage(r, d, kind) {
							return
						}
					}
				}
				r.Nontrivial(fmt.Sprintf("dm/%d/%s", si, d.text))
				r.Tally("dm_sizes_damaged")
				if s.Rows == 52 && rep == 0 {
					r.Sample(map[string]interface{}{"kind": "dm codeword damage", "size": "52x52", "t_per_block": s.BlockECCW() / 2, "blocks": s.Blocks})
				}
			})
		}
		if !c.Quick() {
			total := s.DataCW + s.ECCW
			for lo := 0; lo < total; lo += 400 {
				lo := lo
				c.Run(fmt.Sprintf("dm/single/%d/%d", si, lo), func(r *fw.Rec) {
					d, ok := c05DMSymbol(r, s)
					if !ok {
						return
					}
					for i := lo; i < lo+400 && i < total; i++ {
						m := copyBools(d.m)
						x := byte(1 + r.Rng.Intn(255))
						flipCodeword(m, d.mods[i], x)
						if !d.decodeAndCheck(r, m, fmt.Sprintf("codeword %d xor %#02x", i, x), "dm.codewords:single", map[string]interface{}{"codeword": i, "xor": x}) {
							return
						}
					}
					r.TallyN("dm_single_codeword_positions", int64(minInt(lo+400, total)-lo))
				})
			}
		}
	}
	nre := c.Pick(40, 2000)
	for i := 0; i < nre; i++ {
		c.Run(fmt.Sprintf("qr/reuse/%d", i), func(r *fw.Rec) { c05QRReuse(r) })
		c.Run(fmt.Sprintf("dm/reuse/%d", i), func(r *fw.Rec) { c05DMReuse(r) })
	}
	c.Floor("qr_reused_decoder_histories", int64(nre*8/10))
	c.Floor("dm_reused_decoder_histories", int64(nre*8/10))
	c.Floor("qr_version_level_pairs_damaged", int64(160*reps))
	c.Floor("dm_sizes_damaged", int64(30*dmReps))
	c.Floor("qr_format_subsets_tolerated", 500)
	c.Floor("qr_version_subsets_tolerated", 500)
}
