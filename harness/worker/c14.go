//go:build verif

package main

import (
	"bytes"
	"fmt"
	"image"
	"image/color"
	"image/draw"
	"image/png"

	"github.com/makiuchi-d/gozxing"
	"github.com/makiuchi-d/gozxing/datamatrix"
	"github.com/makiuchi-d/gozxing/qrcode"
	qrdec "github.com/makiuchi-d/gozxing/qrcode/decoder"
	qrenc "github.com/makiuchi-d/gozxing/qrcode/encoder"

	"verifharness/fw"
)

// C14: rendering geometry of all 11 writers against the closed form of the statement.

func init() { fw.Register("C14", c14) }

// c14Modules returns the bare module matrix of content for the writer.
func c14Modules(ws *writerSpec, content string) ([][]bool, error) {
	switch {
	case ws.Name == "QR_CODE":
		code, err := qrenc.Encoder_encode(content, qrdec.ErrorCorrectionLevel_L, nil)
		if err != nil {
			return nil, err
		}
		return byteMatrixToBools(code.GetMatrix()), nil
	case ws.Name == "DATA_MATRIX":
		bm, err := ws.New().Encode(content, ws.Format, 0, 0, nil)
		if err != nil {
			return nil, err
		}
		return bitMatrixToBools(bm), nil
	default:
		bm, err := ws.New().Encode(content, ws.Format, 0, 0, map[gozxing.EncodeHintType]interface{}{gozxing.EncodeHintType_MARGIN: 0})
		if err != nil {
			return nil, err
		}
		if bm.GetHeight() != 1 {
			return nil, fmt.Errorf("0x0 margin-0 rendering of a 1-D symbol is %dx%d, expected one row", bm.GetWidth(), bm.GetHeight())
		}
		return bitMatrixToBools(bm), nil
	}
}

// c14Expect computes the statement's closed form.  margin < 0 means "no hint" (defaults: QR 4, 1-D 10).
func c14Expect(ws *writerSpec, mod [][]bool, reqW, reqH, margin int) (outW, outH, s, padX, padY int) {
	nw, nh := len(mod[0]), len(mod)
	switch {
	case ws.Name == "QR_CODE":
		m := 4
		if margin >= 0 {
			m = margin
		}
		q := 2 * m
		outW, outH = maxInt(reqW, nw+q), maxInt(reqH, nh+q)
		s = minInt(outW/(nw+q), outH/(nh+q))
		padX, padY = (outW-nw*s)/2, (outH-nh*s)/2
	case ws.Name == "DATA_MATRIX":
		if reqW >= nw && reqH >= nh {
			outW, outH = reqW, reqH
			s = minInt(outW/nw, outH/nh)
			padX, padY = (outW-nw*s)/2, (outH-nh*s)/2
		} else {
			outW, outH, s, padX, padY = nw, nh, 1, 0, 0
		}
	default:
		q := c14DefaultMargin(ws)
		if margin >= 0 {
			q = margin
		}
		outW, outH = maxInt(reqW, nw+q), maxInt(reqH, 1)
		s = outW / (nw + q)
		padX, padY = (outW-nw*s)/2, 0
	}
	return
}

func c14Hash(bm *gozxing.BitMatrix) string {
	h := uint64(1469598103934665603)
	for y := 0; y < bm.GetHeight(); y++ {
		for x := 0; x < bm.GetWidth(); x++ {
			v := uint64(0)
			if bm.Get(x, y) {
				v = 1
			}
			h = (h ^ v) * 1099511628211
		}
	}
	return fmt.Sprintf("%dx%d:%x", bm.GetWidth(), bm.GetHeight(), h)
}

// c14DefaultMargin: ZXing's documented defaults - 10 modules for 1-D writers, 9 for the UPC/EAN family.
func c14DefaultMargin(ws *writerSpec) int {
	switch ws.Name {
	case "EAN_13", "EAN_8", "UPC_A", "UPC_E":
		return 9
	}
	return 10
}

func c14Render(r *fw.Rec, ws *writerSpec, content string, mod [][]bool, reqW, reqH, margin int) bool {
	return c14RenderWith(r, ws, ws.New(), content, mod, reqW, reqH, margin)
}

// c14RenderWith renders with the given writer instance (a history of calls on one instance
// must give the same images as fresh instances: hints of one call must not leak into the next).
func c14RenderWith(r *fw.Rec, ws *writerSpec, w gozxing.Writer, content string, mod [][]bool, reqW, reqH, margin int) bool {
	var hints map[gozxing.EncodeHintType]interface{}
	if margin >= 0 {
		hints = map[gozxing.EncodeHintType]interface{}{gozxing.EncodeHintType_MARGIN: margin}
		if r.Rng.Intn(4) == 0 {
			// string form: a decimal numeral as Integer.parseInt / strconv.Atoi read it - leading
			// zeros and a plus sign do not change the number
			form := []string{"%d", "%d", "%02d", "%03d", "+%d", "0%d"}[r.Rng.Intn(6)]
			hints[gozxing.EncodeHintType_MARGIN] = fmt.Sprintf(form, margin)
			if form != "%d" {
				r.Tally("renderings_with_margin_numeral_with_leading_zero_or_sign")
			}
		}
	}
	if hints == nil && r.Rng.Intn(3) == 0 {
		// a hint map that says nothing about the margin (empty, or with a key this writer has no
		// use for): the defaults apply, and the map comes back as it went in
		hints = map[gozxing.EncodeHintType]interface{}{}
		if r.Rng.Bool() && ws.Name != "QR_CODE" {
			hints[gozxing.EncodeHintType_CHARACTER_SET] = "UTF-8"
		}
		r.Tally("renderings_with_a_hint_map_without_margin")
	}
	if ws.Name == "QR_CODE" && r.Rng.Intn(4) == 0 {
		// a forced mask (and sometimes a forced version): the module matrix is then the encoder's
		// for the same hints, and the rendering must show THAT matrix
		if hints == nil {
			hints = map[gozxing.EncodeHintType]interface{}{}
		}
		eh := map[gozxing.EncodeHintType]interface{}{gozxing.EncodeHintType_QR_MASK_PATTERN: r.Rng.Intn(8)}
		if r.Rng.Intn(3) == 0 {
			eh[gozxing.EncodeHintType_QR_VERSION] = (len(mod)-17)/4 + r.Rng.Intn(3)
		}
		if code, err := qrenc.Encoder_encode(content, qrdec.ErrorCorrectionLevel_L, eh); err == nil {
			mod = byteMatrixToBools(code.GetMatrix())
			for k, v := range eh {
				hints[k] = v
			}
			r.Tally("qr_renderings_with_forced_mask_or_version")
		}
	}
	if ws.Name == "QR_CODE" && r.Rng.Intn(3) == 0 {
		// the level the module matrix was built with, said explicitly (string or typed): the
		// other hints of the same call keep their meaning
		if hints == nil {
			hints = map[gozxing.EncodeHintType]interface{}{}
		}
		if r.Rng.Bool() {
			hints[gozxing.EncodeHintType_ERROR_CORRECTION] = "L"
		} else {
			hints[gozxing.EncodeHintType_ERROR_CORRECTION] = qrdec.ErrorCorrectionLevel_L
		}
		r.Tally("qr_renderings_with_level_hint_next_to_margin")
	}
	if r.Rng.Intn(8) == 0 {
		// the writer types are exported empty structs: a zero value is a complete writer
		switch ws.Name {
		case "QR_CODE":
			w = &qrcode.QRCodeWriter{}
			r.Tally("renderings_by_zero_value_writers")
		case "DATA_MATRIX":
			w = new(datamatrix.DataMatrixWriter)
			r.Tally("renderings_by_zero_value_writers")
		}
	}
	var before map[gozxing.EncodeHintType]interface{}
	if hints != nil {
		before = map[gozxing.EncodeHintType]interface{}{}
		for k, v := range hints {
			before[k] = v
		}
	}
	defer func() {
		// the hint map is the caller's: a writer reads it
		if hints != nil && hintsSnapshot(before) != hintsSnapshot(hints) {
			r.Violation("model-mismatch", "render:"+ws.Name+":hint-map-changed-by-the-writer", fmt.Sprintf("%s.Encode changed the caller's hint map from %v to %v", ws.Name, before, hints), map[string]interface{}{"writer": ws.Name, "content": content})
		}
	}()
	var bm *gozxing.BitMatrix
	var err error
	via := "Encode"
	if hints == nil && r.Rng.Bool() {
		// the hint-less entry point of the Writer interface must give the same image
		via = "EncodeWithoutHint"
		bm, err = w.EncodeWithoutHint(content, ws.Format, reqW, reqH)
		r.Tally("renders_via_EncodeWithoutHint")
	} else {
		bm, err = w.Encode(content, ws.Format, reqW, reqH, hints)
	}
	r.Evals(1)
	info := map[string]interface{}{"writer": ws.Name, "content": content, "width": reqW, "height": reqH, "margin": margin, "entry_point": via}
	if err != nil {
		r.Violation("model-mismatch", "render:"+ws.Name+":error", fmt.Sprintf("%s.%s(%q, %dx%d, margin %d) failed: %v", ws.Name, via, content, reqW, reqH, margin, err), info)
		return false
	}
	outW, outH, s, padX, padY := c14Expect(ws, mod, reqW, reqH, margin)
	if bm.GetWidth() != outW || bm.GetHeight() != outH {
		r.Violation("model-mismatch", "render:"+ws.Name+":size", fmt.Sprintf("%s.%s(%q, %dx%d, margin %d) is %dx%d, closed form %dx%d", ws.Name, via, content, reqW, reqH, margin, bm.GetWidth(), bm.GetHeight(), outW, outH), info)
		return false
	}
	nw, nh := len(mod[0]), len(mod)
	for y := 0; y < outH; y++ {
		my := -1
		if ws.OneD {
			my = 0
		} else if y >= padY && y < padY+nh*s {
			my = (y - padY) / s
		}
		for x := 0; x < outW; x++ {
			want := false
			if my >= 0 && x >= padX && x < padX+nw*s {
				want = mod[my][(x-padX)/s]
			}
			if bm.Get(x, y) != want {
				r.Violation("model-mismatch", "render:"+ws.Name+":pixel", fmt.Sprintf("%s.Encode(%q, %dx%d, margin %d): pixel (%d,%d) is %v, closed form (scale %d, pad %d,%d) says %v", ws.Name, content, reqW, reqH, margin, x, y, bm.Get(x, y), s, padX, padY, want), info)
				return false
			}
		}
	}
	r.Tally("renderings_equal_" + ws.Name)
	if outW*outH <= 2048 || (outW*outH <= 1<<20 && r.Rng.Intn(10) == 0) {
		if !c14ImageView(r, ws, bm, info) {
			return false
		}
	}
	if s > 1 {
		r.Tally("renderings_scaled")
	}
	r.Max("max_scale", int64(s))
	return true
}

// c14ImageView consumes the rendering the way Go programs do - as an image.Image, through
// At/Bounds/ColorModel, through image/draw (which prefers the faster optional interfaces of an
// image when it offers them) and through the PNG encoder - and compares with the bits:
// a set bit is opaque black, everything else opaque white.
func c14ImageView(r *fw.Rec, ws *writerSpec, bm *gozxing.BitMatrix, info map[string]interface{}) bool {
	var img image.Image = bm
	w, h := bm.GetWidth(), bm.GetHeight()
	fail := func(sig, msg string) bool {
		r.Violation("model-mismatch", "image-view:"+sig, fmt.Sprintf("%s rendering %dx%d as image.Image: %s", ws.Name, w, h, msg), info)
		return false
	}
	if img.Bounds() != image.Rect(0, 0, w, h) {
		return fail("bounds", fmt.Sprintf("Bounds() = %v", img.Bounds()))
	}
	over := image.NewRGBA(img.Bounds())
	draw.Draw(over, over.Bounds(), image.NewUniform(color.RGBA{0xff, 0xff, 0xff, 0xff}), image.Point{}, draw.Src)
	draw.Draw(over, over.Bounds(), img, image.Point{}, draw.Over)
	src := image.NewRGBA(img.Bounds())
	draw.Draw(src, src.Bounds(), img, image.Point{}, draw.Src)
	gray := image.NewGray(img.Bounds())
	draw.Draw(gray, gray.Bounds(), img, image.Point{}, draw.Src)
	var decoded image.Image
	if r.Rng.Intn(3) == 0 {
		var buf bytes.Buffer
		if err := png.Encode(&buf, img); err != nil {
			return fail("png-encode", err.Error())
		}
		d, err := png.Decode(&buf)
		if err != nil {
			return fail("png-decode", err.Error())
		}
		decoded = d
	}
	for y := 0; y < h; y++ {
		for x := 0; x < w; x++ {
			var want uint32 = 0xffff
			if bm.Get(x, y) {
				want = 0
			}
			cr, cg, cb, ca := img.At(x, y).RGBA()
			if cr != want || cg != want || cb != want || ca != 0xffff {
				return fail("At", fmt.Sprintf("At(%d,%d) = (%#x,%#x,%#x,%#x), bit is %v", x, y, cr, cg, cb, ca, bm.Get(x, y)))
			}
			mr, mg, mb, ma := img.ColorModel().Convert(img.At(x, y)).RGBA()
			if mr != want || mg != want || mb != want || ma != 0xffff {
				return fail("ColorModel", fmt.Sprintf("ColorModel().Convert(At(%d,%d)) = (%#x,%#x,%#x,%#x), bit is %v", x, y, mr, mg, mb, ma, bm.Get(x, y)))
			}
			w8 := uint8(want >> 8)
			if c := over.RGBAAt(x, y); c != (color.RGBA{w8, w8, w8, 0xff}) {
				return fail("draw-over-white", fmt.Sprintf("drawn over a white page, pixel (%d,%d) = %v, bit is %v", x, y, c, bm.Get(x, y)))
			}
			if c := src.RGBAAt(x, y); c != (color.RGBA{w8, w8, w8, 0xff}) {
				return fail("draw-src", fmt.Sprintf("copied with draw.Src, pixel (%d,%d) = %v, bit is %v", x, y, c, bm.Get(x, y)))
			}
			if c := gray.GrayAt(x, y); c.Y != w8 {
				return fail("draw-gray", fmt.Sprintf("copied into a Gray image, pixel (%d,%d) = %v, bit is %v", x, y, c, bm.Get(x, y)))
			}
			if decoded != nil {
				dr, dg, db, da := decoded.At(x, y).RGBA()
				if dr != want || dg != want || db != want || da != 0xffff {
					return fail("png-roundtrip", fmt.Sprintf("after PNG encode/decode pixel (%d,%d) = (%#x,%#x,%#x,%#x), bit is %v", x, y, dr, dg, db, da, bm.Get(x, y)))
				}
			}
		}
	}
	r.Tally("renderings_consumed_as_image")
	if decoded != nil {
		r.Tally("renderings_png_roundtrip")
	}
	return true
}

func c14(c *fw.Ctx) {
	c.Rule("every writer (QR, Data Matrix, nine 1-D) x 3 seeded small symbols (every second sampled case draws a content of its own, which reaches rectangular and larger Data Matrix sizes): requested width x height exhaustive over 0..2N+3 (N = modules + quiet zone; 1-D heights {0,1,2,3,7}) with the default margin, margins 0..20 at sampled sizes (defaults: QR 4 per side, 1-D 10 shared, UPC/EAN 9 shared), sampled sizes up to 8N incl. non-square, module sizes 33..140 pixels (blocks spanning several 32-bit words); half of the hint-less calls go through EncodeWithoutHint; renderings up to 2048 pixels (and a tenth of those up to 1 Mpixel) are also consumed as image.Image: Bounds, At, ColorModel, image/draw Over a white page / Src into RGBA and Gray, PNG encode+decode, all compared with the bits; every pixel of every output compared with the closed form of the statement; the sampled cases use ONE writer instance for a history of 6 calls with and without margin hints (no state may leak between calls) and re-check an earlier result after later calls; module matrix from the encoder (QR) or the 0x0/margin-0 rendering (Data Matrix, 1-D); distinct = distinct (writer, content, width, height, margin)")
	c.Assume("the bare module matrix itself is validated against the standards by C07/C08/C03; here it is taken from the library's own 0x0 rendering")
	for wi := range allWriters {
		ws := &allWriters[wi]
		for k := 0; k < 3; k++ {
			ws, k := ws, k
			// the content is derived from (seed, writer, k) only, so every case of the sweep sees the same symbol
			gen := func(r *fw.Rec) (string, [][]bool, bool) {
				rng := fw.NewRand(c.Seed*7919 + uint64(len(ws.Name))*131 + uint64(ws.Name[0])*17 + uint64(k))
				content := ws.Gen(rng, true)
				mod, err := c14Modules(ws, content)
				if err != nil {
					r.Violation("model-mismatch", "render:"+ws.Name+":bare-symbol-error", fmt.Sprintf("bare rendering of %q failed: %v", content, err), map[string]interface{}{"writer": ws.Name, "content": content})
					return "", nil, false
				}
				return content, mod, true
			}
			// exhaustive sweep: one case per requested width
			// upper bound on N without touching the library here: probe lazily inside the case
			for w := 0; w <= 400; w++ {
				w := w
				c.Run(fmt.Sprintf("sweep/%s/%d/w%d", ws.Name, k, w), func(r *fw.Rec) {
					content, mod, ok := gen(r)
					if !ok {
						return
					}
					q := 0
					if ws.Name == "QR_CODE" {
						q = 8
					} else if ws.OneD {
						q = c14DefaultMargin(ws)
					}
					N := len(mod[0]) + q
					if w > 2*N+3 {
						return
					}
					if ws.OneD {
						for _, h := range []int{0, 1, 2, 3, 7} {
							if !c14Render(r, ws, content, mod, w, h, -1) {
								return
							}
						}
					} else {
						NH := len(mod) + q
						for h := 0; h <= 2*NH+3; h++ {
							if !c14Render(r, ws, content, mod, w, h, -1) {
								return
							}
						}
					}
					r.Nontrivial(fmt.Sprintf("%s|%s|w%d", ws.Name, content, w))
					if w == 2*N+3 {
						r.Tally("sweeps_completed")
					}
					if w == N+1 && k == 0 {
						r.Sample(map[string]interface{}{"writer": ws.Name, "content": content, "modules": fmt.Sprintf("%dx%d", len(mod[0]), len(mod)), "requested_width": w, "heights": "0..2N+3 (2-D) / {0,1,2,3,7} (1-D)", "margin": "default"})
					}
				})
			}
			// big modules: 33..140 pixels per module, where a block spans several 32-bit words
			nbig := c.Pick(6, 60)
			for i := 0; i < nbig; i++ {
				i := i
				c.Run(fmt.Sprintf("big/%s/%d/%d", ws.Name, k, i), func(r *fw.Rec) {
					content, mod, ok := gen(r)
					if !ok {
						return
					}
					rng := r.Rng
					sc := []int{33, 34, 63, 64, 65, 66, 95, 96, 97, 127, 128, 129, 140}[rng.Intn(13)]
					if rng.Intn(3) == 0 {
						sc = 33 + rng.Intn(108)
					}
					if !ws.OneD && sc > 100 {
						sc = 33 + rng.Intn(68)
					}
					margin := -1
					if ws.Name != "DATA_MATRIX" && rng.Bool() {
						margin = rng.Intn(6)
					}
					ow, oh, _, _, _ := c14Expect(ws, mod, 0, 0, margin)
					w, h := ow*sc+rng.Intn(sc), oh*sc+rng.Intn(sc)
					if ws.OneD {
						h = 1 + rng.Intn(4)
					}
					if !c14Render(r, ws, content, mod, w, h, margin) {
						return
					}
					r.Tally("renderings_with_modules_of_33_pixels_or_more")
					r.Nontrivial(fmt.Sprintf("big|%s|%s|%d|%d|%d", ws.Name, content, w, h, margin))
				})
			}
			// margins 0..20 and sizes up to 8N
			nsamp := c.Pick(1200, 30000)
			for i := 0; i < nsamp; i++ {
				i := i
				c.Run(fmt.Sprintf("sample/%s/%d/%d", ws.Name, k, i), func(r *fw.Rec) {
					content, mod, ok := gen(r)
					if !ok {
						return
					}
					rng := r.Rng
					if i%2 == 1 {
						// every second case: a content of its own, of any length the generator offers
						// (for Data Matrix this reaches the rectangular sizes and larger squares)
						content = ws.Gen(rng, false)
						m2, err := c14Modules(ws, content)
						if err != nil {
							r.Violation("model-mismatch", "render:"+ws.Name+":bare-symbol-error", fmt.Sprintf("bare rendering of %q failed: %v", content, err), map[string]interface{}{"writer": ws.Name, "content": content})
							return
						}
						mod = m2
						if len(mod) != len(mod[0]) && !ws.OneD {
							r.Tally("renderings_of_rectangular_2d_symbols")
						}
					}
					shared := ws.New() // one instance for the whole history of this case
					var prev *gozxing.BitMatrix
					var prevHash string
					for rep := 0; rep < 6; rep++ {
						margin := -1
						if ws.Name != "DATA_MATRIX" && rng.Intn(4) != 0 {
							margin = rng.Intn(21)
						}
						nw, nh := len(mod[0]), len(mod)
						var w, h int
						switch rng.Intn(4) {
						case 0:
							w, h = rng.Intn(8*nw+1), rng.Intn(8*nh+1)
						case 1: // exact multiples of the full symbol
							kk := 1 + rng.Intn(8)
							_, _, _, _, _ = c14Expect(ws, mod, 0, 0, margin)
							ow, oh, _, _, _ := c14Expect(ws, mod, 0, 0, margin)
							w, h = ow*kk+rng.Intn(2), oh*kk+rng.Intn(2)
						case 2: // strongly non-square
							w, h = rng.Intn(8*nw+1), rng.Intn(nh+2)
						default:
							w, h = nw+rng.Intn(3*nw), nh+rng.Intn(3*nh)
						}
						if ws.OneD && h > 60 {
							h = rng.Intn(60)
						}
						if !c14RenderWith(r, ws, shared, content, mod, w, h, margin) {
							return
						}
						r.Tally("renderings_on_a_reused_writer_instance")
						// a matrix handed out earlier must not change when the writer is used again
						if prev != nil && c14Hash(prev) != prevHash {
							r.Violation("model-mismatch", "render:"+ws.Name+":earlier-result-changed-by-a-later-call", fmt.Sprintf("%s: a matrix returned by an earlier Encode changed when the same writer encoded again", ws.Name), map[string]interface{}{"writer": ws.Name, "content": content})
							return
						}
						if bm2, e2 := shared.Encode(content, ws.Format, w, h, nil); e2 == nil {
							prev, prevHash = bm2, c14Hash(bm2)
						}
						if margin >= 0 {
							r.Tally("renderings_with_margin_hint")
						}
						r.Nontrivial(fmt.Sprintf("%s|%s|%d|%d|%d", ws.Name, content, w, h, margin))
					}
				})
			}
		}
	}
	c.Exhaustive("requested sizes 0..2N+3 (both axes for 2-D; width x 5 heights for 1-D) for 3 symbols of each of the 11 writers, default margin")
	c.Floor("sweeps_completed", 33)
	c.Floor("renderings_scaled", 1000)
	c.Floor("renderings_with_margin_hint", 1000)
	c.Floor("renders_via_EncodeWithoutHint", 500)
	c.Floor("qr_renderings_with_level_hint_next_to_margin", 1000)
	c.Floor("renderings_by_zero_value_writers", 500)
	c.Floor("renderings_with_a_hint_map_without_margin", 5000)
	c.Floor("renderings_with_margin_numeral_with_leading_zero_or_sign", 2000)
	c.Floor("qr_renderings_with_forced_mask_or_version", 1000)
	c.Floor("renderings_of_rectangular_2d_symbols", 50)
	c.Floor("renderings_with_modules_of_33_pixels_or_more", 150)
	c.Floor("renderings_consumed_as_image", 5000)
	c.Floor("renderings_png_roundtrip", 1000)
	for i := range allWriters {
		c.Floor("renderings_equal_"+allWriters[i].Name, 500)
	}
}
