#!/usr/bin/env python3
"""Regenerates /verif/MANIFEST.json from the table below (one entry per claimed property)."""
import json, subprocess, os

CLAIMED = {
 "C16": dict(
   technique="runtime reference-model monitor: random API histories on the real BitMatrix/BitArray, state and every query compared with a [][]bool/[]bool model after every step",
   text="Exploration by execution: all 1040 BitMatrix shapes (1..130 x 1..8) and all BitArray sizes 0..200 from both constructors are enumerated completely; for each, seeded random 40-step histories over the exported API run on the real code and a naive boolean model side by side, with full-state and all-query comparison after every step. Held-on-what-was-observed, not a proof over all histories.",
   note="Trusted base: the ~150-line boolean models in harness/worker/c16.go; Go runtime. Arguments are in-range only (the statement's quantifier).",
   design="5/C16"),
 "C20": dict(
   technique="runtime reference-model monitor: RecordPattern/RecordPatternInReverse vs a run-length model on []bool for every start offset; PatternMatchVariance vs the contract evaluated in exact integer/rational arithmetic",
   text="Exploration by execution: rows of every length 0..300 with every start offset and counter length 1..10; all counter vectors with entries 0..6 (lengths 3..6) against typical symbology patterns and five variance limits are enumerated completely, plus seeded random vectors, exact multiples, outliers and scale factors 2..9. The oracle is the statement's own formula computed exactly. Held-on-what-was-observed.",
   note="Trusted base: run-length model and integer formula in harness/worker/c20.go (cross-checked against math/big.Rat in the start-up self-test). Don't-care regions per DESIGN C20 (reverse recording when the runs begin at index 0; comparisons within 1e-9 of the limit).",
   design="5/C20"),
 "C04": dict(
   technique="runtime reference-model monitor: library GF tables vs carry-less multiply-and-reduce for all element pairs; RS encoder vs polynomial long division + direct syndromes; RS decoder vs exact restoration under injected symbol errors",
   text="Exploration by execution with exhaustive sub-spaces: every product, inverse, log and exp of all six fields (17.9M products) is compared with shift-and-xor arithmetic; RS codes with n<=20 get every single and double error position, long codes (n up to |F|-1, r up to n-1) get 0/1/t-1/t errors at random, extreme and burst positions. Held-on-what-was-observed for the sampled data words and magnitudes.",
   note="Trusted base: harness/ref/gf (40 lines), harness/ref/rs (long division, Horner syndromes), anchored on ISO 18004 Annex I and the ISO 16022 '123456' example. More than floor(r/2) errors are never injected.",
   design="5/C04"),
 "C01": dict(
   technique="runtime round-trip monitor: library writer -> library reader on generated inputs, with 'fits' decided by an independent capacity model (qrref); identity oracle on text, format and EC level over both decode paths",
   text="Exploration by execution: all 640 (version, level, mode) capacity boundaries (capacity, capacity-1, forced and automatic version, rotating masks) plus seeded random classes (digits, 45-set, all byte values under ISO-8859-1, unhinted UTF-8 with 1-4 byte sequences, kanji mode, every registered charset/alias with text from its repertoire), each through encoder-matrix->decoder and writer-image->pure-barcode reader at random sizes and margins. Held-on-what-was-observed.",
   note="Trusted base: qrref capacities (ISO 18004 tables typed independently, anchored on published figures), x/text codecs for 'representable'. Payloads are chosen so that the mode selection is unambiguous.",
   design="5/C01"),
 "C07": dict(
   technique="runtime reference-model monitor: library encoder output compared module for module with an independent ISO 18004 construction (qrref), library decoder run on reference-built symbols; decoder tables compared with independently typed/computed tables",
   text="All 1280 (version, level, mask) configurations are enumerated completely, each with N seeded payloads over the four modes; the library matrix must equal the reference construction (function patterns, BCH format/version words, block structure, RS parity, interleave, zig-zag, mask) in every module, and the library decoder must read the reference-built symbol back (text, raw data codewords, level). The 40 version entries, 160 block structures, 32 format and 34 version words are compared directly. Payload space is sampled.",
   note="Trusted base: harness/ref/qrref (+ ref/gf, ref/rs), validated against ISO 18004 Annex I and published capacities at start-up. Automatic mask choice is not compared (N3 rule ambiguous in the standard).",
   design="5/C07"),
 "C13": dict(
   technique="runtime reference-model monitor: version / symbol size chosen by the library compared with the minimum computed from independently typed capacity tables (qrref, dmref)",
   text="QR: every per-version capacity boundary for all modes and levels (automatic version, forced exact / too small / larger) in the quick tier and every content length 1..capacity(40)+1 for all 16 (mode, level) pairs in the thorough tier. Data Matrix: every codeword count 1..1559 x 3 shapes through SymbolInfo_Lookup and through the writer's 0x0 output, and all 900 (min,max) size pairs (+-1 perturbations). Published figures (7089/4296/2953/1817, 1558) asserted on both reference and library.",
   note="Trusted base: qrref/dmref tables. Data Matrix writer path uses digit strings (2n digits = n ASCII codewords).",
   design="5/C13"),
 "C15": dict(
   technique="runtime monitor: hinted write->read round trips with the ECI header confirmed by an independent parser of the raw codewords; registry invariants read through a tag-guarded hook; crafted bit streams for every ECI number",
   text="Every registered name and alias with every representable single-byte code point (exhaustive), sampled multi-byte ranges, refusal of non-representable text, unhinted UTF-8 with adversarial byte statistics, ECI numbers 0..1023 + samples (thorough: all 0..999999) in every designator length form, decode-side CHARACTER_SET hints, and the registry's value/name/alias/charset consistency.",
   note="Trusted base: x/text codecs define the repertoires; the AIM designator table typed in harness/worker/charset_util.go; qrref.ParseDataCodewords. Don't-cares per DESIGN C15.",
   design="5/C15"),
 "C02": dict(
   technique="runtime round-trip monitor with an invariant hook: library writer -> library decoder and an independent ISO 16022 codeword decoder (dmref); a dispatch-step hook in the mode loop decides termination on logical steps; refusal rules from independent capacity bounds",
   text="Exploration by execution: all strings of length <=3 (thorough <=4) over a 14-symbol class alphabet, Base-256 runs of every length 1..1556, C40/Text/X12/EDIFACT end-of-data families, macro envelopes, digit/letter strings reaching each of the 30 sizes, and seeded run-structured random Latin-1 strings with shape/min/max hints (quick ~50k, thorough ~1.6M texts). Each text: step bound via hook, result xor error, must-fit / must-fail from reference capacities, codewords decoded by dmref and by the library parser, matrix path and sampled image path.",
   note="Trusted base: dmref (Table 7, independent high-level decoder), the verifhook.DMStep hook (8*len+32 dispatch steps; largest ratio observed is reported), capacity bounds of DESIGN C02. Between the must-fit and must-fail bounds either outcome is accepted.",
   design="5/C02"),
 "C05": dict(
   technique="runtime fault injection: module flips at codeword positions computed by independent placement models (qrref/dmref) on library-written symbols, decoded by the library; identity oracle",
   text="All 160 QR (version, level) pairs and all 30 Data Matrix sizes: per RS block up to floor(ec/2) codewords replaced (all blocks at capacity, random below, one block, extreme positions incl. long-block byte, inverted codewords); thorough tier: every single codeword position of every block of every size; QR format information: every <=3-bit subset of one copy with an independent random <=3-bit error in the other (exhaustive on every 8th pair in the thorough tier, sampled elsewhere); version information likewise.",
   note="Trusted base: qrref.CodewordModules/CodewordBlock and dmref equivalents (the same code builds the reference symbols the library reproduces module for module in C07/C08). Replacement values are sampled.",
   design="5/C05"),
 "C08": dict(
   technique="runtime reference-model monitor: library ECC, placement, writer output and decoder compared with an independent ISO 16022 construction (dmref); tables read through tag-guarded exports",
   text="All 30 ECC 200 sizes x N seeded codeword vectors: ErrorCorrection_EncodeECC200 and DefaultPlacement vs dmref, library decoder on dmref-built symbols (clean and with floor(ec/2) damaged codewords per block) must return the exact data codewords, writer symbols vs dmref.BuildMatrix of the writer's own codewords; 30 encoder entries, 30 decoder entries and 16 generator polynomials compared directly; 253-state pad positions 3..1558 and Base-256 255-state positions observed in EncodeHighLevel output.",
   note="Trusted base: harness/ref/dmref (+ ref/gf, ref/rs), anchored on the '123456' example and published table values at start-up.",
   design="5/C08"),
 "C12": dict(
   technique="runtime totality monitor: recover() boundary, dispatch-step hook, CPU/heap watchdog per call; size oracle from the same writer's bare symbol",
   text="All 11 writers x 17 formats x seeded hostile calls (14 content classes incl. empty, invalid UTF-8, 4000-byte strings, mode-loop stressors, limit+-1 lengths; sizes from -2^31 to 20000; hint maps over the ten accepted keys with in- and out-of-range values of the accepted types): no panic, bounded steps/CPU/heap, exactly one of matrix/error, matrix >= bare symbol and (QR/1-D) >= max(requested,1).",
   note="Hint values are restricted to the documented types. Trusted base: the framework's recover/watchdog, verifhook.DMStep.",
   design="5/C12"),
 "C14": dict(
   technique="runtime reference-model monitor: every pixel of the writer's output compared with the closed form of the statement",
   text="All 11 writers x 3 seeded symbols: requested sizes exhaustive over 0..2N+3 on both axes (1-D: width x 5 heights) at the default margin, plus margins 0..20 and sizes up to 8N incl. non-square, string-typed margin hints; every pixel compared.",
   note="The bare module matrix is taken from the library (Encoder_encode for QR, 0x0/margin-0 rendering otherwise); its conformance is C07/C08/C03's business. Default margins: QR 4/side, 1-D 10 shared, UPC/EAN 9 shared.",
   design="5/C14"),
 "C17": dict(
   technique="runtime reference-model monitor: luminance sources and view compositions vs a naive [][]uint8 model after every step; binarisers vs (lum == 0) on bilevel images",
   text="Every shape 1..200 x 1..200 for 5 source kinds with seeded sequences of <=6 crop/invert/rotate operations (rows, matrix, dimensions, out-of-range rows after every step), exhaustive crop rectangles on small shapes, YUV constructor windows, and bilevel images of every shape 1..100 x 1..100 (11 pattern families, renderings of all writers at scales 1..4) through both binarisers incl. the -1/4/-1 row model.",
   note="Trusted base: models in harness/worker/c17.go. Don't-cares: colour/alpha to luminance formula, crops leaving the view but inside the underlying image, NotFound from binarisers (floors guard against always-NotFound).",
   design="5/C17"),
 "C19": dict(
   technique="runtime reference-model monitor: PerspectiveTransform vs the projective map solved exactly in math/big.Rat; grid sampling vs pixel under the exactly transformed cell centre; OOB-read hook in BitMatrix.Get",
   text="Seeded quadrilateral pairs of four families (axis-aligned, rotated, sheared, perspective) through the three exported constructors, corner and interior/exterior point errors < 1e-6 relative; grids of every square size 1..177 and non-square ones on random/all-black/structured images; targeted transforms putting row ends in each of the four one-pixel bands for both passes of checkAndNudgePoints (direct and via SampleGrid); beyond-band NotFound; the OOBRead hook must stay at zero across every SampleGrid call.",
   note="Trusted base: big.Rat Gaussian elimination in harness/worker/c19.go (self-tested), verifhook.OOBRead. Cells within 1e-6 of a pixel boundary are skipped; coordinates in (-2,-1) are don't-care (DESIGN C19).",
   design="5/C19"),
 "C18": dict(
   technique="Go race detector over a concurrent driver (production build, no hooks) + differential oracle (concurrent vs sequential results) + package-level table snapshots (verif build) + detector canary",
   text="K in {2,4,16,64} goroutines x GOMAXPROCS in {2,4,16}, private writer/reader instances and inputs, operations from all symbologies (writers, readers in pure and detector paths, multi-format and multi readers, Aztec, RSS-14, Reed-Solomon on shared field objects, grid sampler, binarisers, ECI lookups); race build: every detector report containing a gozxing frame is a violation (deduplicated by innermost library function pair), a deliberate harness race must be reported (canary) or the run is inconclusive; verif build: same workload, deep hash of every package-level table before == after; both: results equal the sequential results. Claims absence of races only among interleavings observed.",
   note="Trusted base: Go race detector (halt_on_error=0, reports parsed from log files), harness/conc. The race build carries no verif tag so the monitors add no synchronisation to the code under test.",
   design="5/C18"),
 "C03": dict(
   technique="runtime round-trip monitor: library 1-D writers -> library readers, with canonical contents, check digits and module patterns from an independent reference (onedref); refusal list for unacceptable contents",
   text="Nine symbologies x seeded contents from each accepted set (every ASCII character alone/embedded/doubled, Code 128 digit runs of every parity and each forced code set, all 64 Codabar guard pairs, ITF lengths 6..14 and 16..80), widths 0/natural/+k/x2..x6, heights 0..80, margin hints; matching reader and multi-format reader with and without POSSIBLE_FORMATS; 4956 rejection cases; thorough tier: all 2*10^6 UPC-E numbers and all 10^7 EAN-8 payloads at height 1 (quick: 100k samples each).",
   note="Trusted base: harness/ref/onedref. Don't-cares: UPC-A as EAN-13 '0'+n without hints, plain vs extended Code 39 by content, single-character Codabar. Open known finding: UPC-E default quiet zone unreadable (sweep uses margin 14).",
   design="5/C03"),
 "C10": dict(
   technique="runtime fault enumeration: independently rendered symbols carrying stale check characters (onedref patterns) fed to the library readers; writers' check characters compared with independent mod-10/103/47; exhaustive UPC-E expansion comparison via a tag-guarded export",
   text="Writers: bars must equal the reference pattern with the independent check digit, all nine wrong digits refused (exhaustive for UPC-E and EAN-8 in thorough). Readers: control + every single-digit substitution of sampled EAN-13/UPC-A/EAN-8/UPC-E numbers, sweeps over every EAN-8 string and every UPC-E symbol (thorough), every Code 128 / Code 93 symbol-character substitution; UPC-E expansion for all 2*10^6 numbers and expand(suppress(n)); EAN-2 (100 x 4 parities) and EAN-5 (values x 32 patterns) add-ons.",
   note="Trusted base: onedref patterns and checksums. Two open known findings (reversed UPC-E misread of stale symbols at >=2 px/module, multi-format reader reading stale 12/13-digit symbols as EAN-8), each with a rate cap over measured denominators.",
   design="5/C10"),
 "C11": dict(
   technique="runtime reference-model monitor: symbols built by an independent token-level ISO 24778 encoder (azref) decoded by the library at high-level, matrix and image level; codeword damage injected by the reference",
   text="All 36 sizes: random token walks over the five tables, latches, shifts, punct pairs and binary shifts (short and long) -> HighLevelDecode; matrix level clean and with 1..floor(ec/2) damaged codewords (first/last/random positions, all-0/all-1 values); image level at 2..5 px/module x 4 rotations with a 4-module quiet zone, damaged symbols at >= 3 px. Misreads are violations at every scale.",
   note="Trusted base: harness/ref/azref (+ ref/gf, ref/rs), anchored in its own tests and the start-up self-test. Open known finding: compact symbols at exactly 2 px/module ~1.3 % NotFound (rate cap 4 % of compact 2-px reads).",
   design="5/C11"),
 "C09": dict(
   technique="runtime metamorphic monitor: library-written symbols transformed exactly by the harness (padding, integer scale, quarter turns, transpose) and read through the normal locating path; oracle 'content or typed error, never other content' plus the statement's positive obligations",
   text="QR versions 1..40, all 30 Data Matrix sizes and nine 1-D symbologies, seeded contents incl. finder-imitating payloads; poses: padding 0..40 px, scale 1..6, rotations 0/90/180/270, QR mirror; positive obligations: 1-D rot180 -> content + ORIENTATION 180, rot90/270 with TRY_HARDER -> content, transposed QR matrix -> content + mirrored flag (and upright not flagged); an upside-down sweep per 1-D symbology to reach per-number ambiguities of rate 1e-3..1e-4; read rates per symbology/scale/rotation reported, floors on reads at scale >= 3.",
   note="Canonical contents from onedref (independent check digits). Single-format readers only. Open known finding: upside-down UPC-E misread (~0.2 % of numbers).",
   design="5/C09"),
 "C06": dict(
   technique="runtime totality monitor: recover() boundary, CPU/heap watchdog and result/error-kind oracle around every reader, decoder, parser and row decoder under hostile inputs (mutated valid symbols, noise, exhaustive small streams)",
   text="19 reader configurations x both binarisers, QR multi reader (Decode and DecodeMultiple), QR / Data Matrix / Aztec matrix decoders on arbitrary (incl. non-square, wrong-size) matrices, the three bit-stream parsers (every QR mode nibble x version class, every ECI value in every form, all Data Matrix streams of <= 2 codewords, all Aztec bit strings <= 14 bits; deeper in thorough), 15 RowDecoders on every row of length 1..12 and seeded rows to 400; valid symbols from all writers and from qrref/dmref/azref/onedref/an RSS-14 encoder with module flips, row/column deletion, crops, noise, ramps, alpha, rotation/shear; well-typed hints incl. charsets without codec. Oracle: no panic, within budget, exactly one of result/error, image-level errors of the three kinds.",
   note="Open known finding: super-polynomial cost of the QR finder-pattern selection on images tiled with finder patterns (CPU-time budget). DecodeMultiple may return an empty non-nil slice with nil error.",
   design="5/C06"),
}

PENDING_REASON = "monitor not yet built in this round (designed in DESIGN.md section 5; build order in section 8) - not claimed until its check runs clean"

def main():
    props = [json.loads(l) for l in open('/verif/properties.jsonl')]
    hooks = subprocess.run(['git','-C','/repo','log','--format=%h %s'],capture_output=True,text=True).stdout.splitlines()
    hook_commits = [l.split()[0] for l in hooks if l.split(' ',1)[1].startswith('verif hooks')]
    checks = []
    na = []
    for p in props:
        pid = p['id']
        if pid in CLAIMED:
            c = CLAIMED[pid]
            checks.append({
                "property_id": pid,
                "quick_cmd": f"./check {pid} quick",
                "thorough_cmd": f"./check {pid} thorough",
                "evidence_file": f"/verif/evidence/{pid}.json",
                "replay_cmd_template": f"./check {pid} --replay {{path}}",
                "engine": "vcheck",
                "level_claimed": {"category": "exploration", "text": c['text'], "design_ref": c['design']},
                "level_note": c['note'],
                "technique": c['technique'],
            })
        else:
            na.append({"property_id": pid, "reason": PENDING_REASON})
    m = {
        "version": 1,
        "setup_cmd": "./setup.sh",
        "hooks": {
            "guard": "verif",
            "enable": "go build -tags verif (the worker in /verif/harness/worker is built with -tags verif against /repo via a replace directive; the C18 race worker is built with -race and without the tag)",
            "baseline_off_cmd": "cd /repo && GOFLAGS=-mod=mod GOPROXY=off GOSUMDB=off go test -vet=off -count=1 -timeout 25m ./...",
            "source_commits": hook_commits,
            "add_only": True,
        },
        "engines": [
            {"name": "vcheck", "path": "/verif/harness", "serves_properties": sorted(CLAIMED),
             "kind_free_text": "runtime monitoring: orchestrator (cmd/vcheck) + worker processes calling the real library (built from /repo's working tree, tag verif) under reference-model oracles, invariant hooks, recover()/CPU/heap watchdogs and the Go race detector"}
        ],
        "checks": checks,
        "not_applicable": na,
        "notes": "Exit codes: 0 held on everything observed; 1 violation (VIOLATION lines); 2 inconclusive/broken (no VIOLATION line). known_findings.json lists fixed and open defects.",
    }
    json.dump(m, open('/verif/MANIFEST.json','w'), indent=1)
    print("claimed:", sorted(CLAIMED), "pending:", len(na))

main()
