#!/usr/bin/env python3
"""Regenerates /verif/MANIFEST.json from the table below (one entry per claimed property)."""
import json, subprocess, os

CLAIMED = {
 "C16": dict(
   technique="runtime reference-model monitor: random API histories on the real BitMatrix/BitArray, state and every query compared with a [][]bool/[]bool model after every step",
   text="Exploration by execution: all 1040 BitMatrix shapes (1..130 x 1..8) and all BitArray sizes 0..200 from both constructors are enumerated completely; for each, seeded random 40-step histories over the exported API run on the real code and a naive boolean model side by side, with full-state and all-query comparison after every step. Held-on-what-was-observed, not a proof over all histories.",
   note="Trusted base: the ~150-line boolean models in harness/worker/c16.go; Go runtime. Arguments are in-range only (the statement's quantifier).",
   design="5/C16"),
 "C20": dict(
   technique="runtime reference-model monitor: RecordPattern/RecordPatternInReverse vs a run-length model on []bool for every start offset; PatternMatchVariance vs the contract evaluated in exact integer/rational arithmetic",
   text="Exploration by execution: rows of every length 0..300 with every start offset and counter length 1..10; all counter vectors with entries 0..6 (lengths 3..6) against typical symbology patterns and five variance limits are enumerated completely, plus seeded random vectors, exact multiples, outliers and scale factors 2..9. The oracle is the statement's own formula computed exactly. Held-on-what-was-observed.",
   note="Trusted base: run-length model and integer formula in harness/worker/c20.go (cross-checked against math/big.Rat in the start-up self-test). Don't-care regions per DESIGN C20 (reverse recording when the runs begin at index 0; comparisons within 1e-9 of the limit).",
   design="5/C20"),
 "C04": dict(
   technique="runtime reference-model monitor: library GF tables vs carry-less multiply-and-reduce for all element pairs; RS encoder vs polynomial long division + direct syndromes; RS decoder vs exact restoration under injected symbol errors",
   text="Exploration by execution with exhaustive sub-spaces: every product, inverse, log and exp of all six fields (17.9M products) is compared with shift-and-xor arithmetic; RS codes with n<=20 get every single and double error position, long codes (n up to |F|-1, r up to n-1) get 0/1/t-1/t errors at random, extreme and burst positions. Held-on-what-was-observed for the sampled data words and magnitudes.",
   note="Trusted base: harness/ref/gf (40 lines), harness/ref/rs (long division, Horner syndromes), anchored on ISO 18004 Annex I and the ISO 16022 '123456' example. More than floor(r/2) errors are never injected.",
   design="5/C04"),
}

PENDING_REASON = "monitor not yet built in this round (designed in DESIGN.md section 5; build order in section 8) - not claimed until its check runs clean"

def main():
    props = [json.loads(l) for l in open('/verif/properties.jsonl')]
    hooks = subprocess.run(['git','-C','/repo','log','--format=%h %s'],capture_output=True,text=True).stdout.splitlines()
    hook_commits = [l.split()[0] for l in hooks if l.split(' ',1)[1].startswith('verif hooks')]
    checks = []
    na = []
    for p in props:
        pid = p['id']
        if pid in CLAIMED:
            c = CLAIMED[pid]
            checks.append({
                "property_id": pid,
                "quick_cmd": f"./check {pid} quick",
                "thorough_cmd": f"./check {pid} thorough",
                "evidence_file": f"/verif/evidence/{pid}.json",
                "replay_cmd_template": f"./check {pid} --replay {{path}}",
                "engine": "vcheck",
                "level_claimed": {"category": "exploration", "text": c['text'], "design_ref": c['design']},
                "level_note": c['note'],
                "technique": c['technique'],
            })
        else:
            na.append({"property_id": pid, "reason": PENDING_REASON})
    m = {
        "version": 1,
        "setup_cmd": "./setup.sh",
        "hooks": {
            "guard": "verif",
            "enable": "go build -tags verif (the worker in /verif/harness/worker is built with -tags verif against /repo via a replace directive; the C18 race worker is built with -race and without the tag)",
            "baseline_off_cmd": "cd /repo && GOFLAGS=-mod=mod GOPROXY=off GOSUMDB=off go test -vet=off -count=1 -timeout 25m ./...",
            "source_commits": hook_commits,
            "add_only": True,
        },
        "engines": [
            {"name": "vcheck", "path": "/verif/harness", "serves_properties": sorted(CLAIMED),
             "kind_free_text": "runtime monitoring: orchestrator (cmd/vcheck) + worker processes calling the real library (built from /repo's working tree, tag verif) under reference-model oracles, invariant hooks, recover()/CPU/heap watchdogs and the Go race detector"}
        ],
        "checks": checks,
        "not_applicable": na,
        "notes": "Exit codes: 0 held on everything observed; 1 violation (VIOLATION lines); 2 inconclusive/broken (no VIOLATION line). known_findings.json lists fixed and open defects.",
    }
    json.dump(m, open('/verif/MANIFEST.json','w'), indent=1)
    print("claimed:", sorted(CLAIMED), "pending:", len(na))

main()
