package onedref

import "strings"

// ---------------------------------------------------------------------------
// Code 39 (ISO/IEC 16388)
// ---------------------------------------------------------------------------

// Code39Alphabet lists the 43 data characters in check-value order (0..42).
const Code39Alphabet = "0123456789ABCDEFGHIJKLMNOPQRSTUVWXYZ-. $/+%"

// Nine elements per character, bar first (bar space bar space ... bar),
// N narrow / W wide; three of the nine are wide.  Index = check value; index
// 43 is the start/stop character '*'.
var code39Elements = [44]string{
	"NNNWWNWNN", // 0
	"WNNWNNNNW", // 1
	"NNWWNNNNW", // 2
	"WNWWNNNNN", // 3
	"NNNWWNNNW", // 4
	"WNNWWNNNN", // 5
	"NNWWWNNNN", // 6
	"NNNWNNWNW", // 7
	"WNNWNNWNN", // 8
	"NNWWNNWNN", // 9
	"WNNNNWNNW", // A
	"NNWNNWNNW", // B
	"WNWNNWNNN", // C
	"NNNNWWNNW", // D
	"WNNNWWNNN", // E
	"NNWNWWNNN", // F
	"NNNNNWWNW", // G
	"WNNNNWWNN", // H
	"NNWNNWWNN", // I
	"NNNNWWWNN", // J
	"WNNNNNNWW", // K
	"NNWNNNNWW", // L
	"WNWNNNNWN", // M
	"NNNNWNNWW", // N
	"WNNNWNNWN", // O
	"NNWNWNNWN", // P
	"NNNNNNWWW", // Q
	"WNNNNNWWN", // R
	"NNWNNNWWN", // S
	"NNNNWNWWN", // T
	"WWNNNNNNW", // U
	"NWWNNNNNW", // V
	"WWWNNNNNN", // W
	"NWNNWNNNW", // X
	"WWNNWNNNN", // Y
	"NWWNWNNNN", // Z
	"NWNNNNWNW", // -
	"WWNNNNWNN", // .
	"NWWNNNWNN", // space
	"NWNWNWNNN", // $
	"NWNWNNNWN", // /
	"NWNNNWNWN", // +
	"NNNWNWNWN", // %
	"NWNNWNWNN", // *
}

// Code39Elements returns the nine N/W elements of a character ('*' allowed),
// "" if the character is not in the alphabet.
func Code39Elements(ch byte) string {
	if ch == '*' {
		return code39Elements[43]
	}
	i := strings.IndexByte(Code39Alphabet, ch)
	if i < 0 {
		return ""
	}
	return code39Elements[i]
}

func nwRuns(dst []bool, elements string, narrow, wide int) []bool {
	w := make([]int, len(elements))
	for i := 0; i < len(elements); i++ {
		if elements[i] == 'W' {
			w[i] = wide
		} else {
			w[i] = narrow
		}
	}
	return runs(dst, w)
}

// Code39Pattern renders '*' chars '*' with narrow = 1 module, wide = 2 modules
// and a 1-module gap between characters: 13*(len+2)-1 modules.  nil if a
// character is outside the 43-character alphabet.
func Code39Pattern(chars string) []bool {
	return Code39PatternRatio(chars, 1, 2)
}

// Code39PatternRatio is Code39Pattern with explicit narrow and wide widths
// (the inter-character gap is one narrow element).
func Code39PatternRatio(chars string, narrow, wide int) []bool {
	p := []bool{}
	p = nwRuns(p, code39Elements[43], narrow, wide)
	for i := 0; i < len(chars); i++ {
		e := Code39Elements(chars[i])
		if e == "" || chars[i] == '*' {
			return nil
		}
		for k := 0; k < narrow; k++ {
			p = append(p, false)
		}
		p = nwRuns(p, e, narrow, wide)
	}
	for k := 0; k < narrow; k++ {
		p = append(p, false)
	}
	p = nwRuns(p, code39Elements[43], narrow, wide)
	return p
}

// Code39Extended maps full ASCII (0..127) onto the 43-character alphabet
// following the Full ASCII table of ISO 16388 ($A.. %A.. /A.. +A..).
// The characters $ % + / are themselves written /D /E /K /O; '-' and '.'
// stay single.
func Code39Extended(text []byte) (string, bool) {
	var sb strings.Builder
	for _, b := range text {
		switch {
		case b > 127:
			return "", false
		case b == 0:
			sb.WriteString("%U")
		case b <= 26:
			sb.WriteByte('$')
			sb.WriteByte('A' + b - 1)
		case b <= 31:
			sb.WriteByte('%')
			sb.WriteByte('A' + b - 27)
		case b == ' ' || b == '-' || b == '.':
			sb.WriteByte(b)
		case b >= '!' && b <= '/': // ! " # $ % & ' ( ) * + , (- .) /  ->  /A../O
			sb.WriteByte('/')
			sb.WriteByte('A' + b - '!')
		case b >= '0' && b <= '9':
			sb.WriteByte(b)
		case b == ':':
			sb.WriteString("/Z")
		case b >= ';' && b <= '?':
			sb.WriteByte('%')
			sb.WriteByte('F' + b - ';')
		case b == '@':
			sb.WriteString("%V")
		case b >= 'A' && b <= 'Z':
			sb.WriteByte(b)
		case b >= '[' && b <= '_':
			sb.WriteByte('%')
			sb.WriteByte('K' + b - '[')
		case b == '`':
			sb.WriteString("%W")
		case b >= 'a' && b <= 'z':
			sb.WriteByte('+')
			sb.WriteByte('A' + b - 'a')
		default: // { | } ~ DEL
			sb.WriteByte('%')
			sb.WriteByte('P' + b - '{')
		}
	}
	return sb.String(), true
}

// Code39ExtendedDecode is the inverse mapping (accepting every pair the Full
// ASCII table defines, including /M /N for - . and %X %Y %Z for DEL).
func Code39ExtendedDecode(chars string) ([]byte, bool) {
	out := []byte{}
	for i := 0; i < len(chars); i++ {
		c := chars[i]
		if strings.IndexByte(Code39Alphabet, c) < 0 {
			return nil, false
		}
		if c != '$' && c != '%' && c != '/' && c != '+' {
			out = append(out, c)
			continue
		}
		if i+1 >= len(chars) || chars[i+1] < 'A' || chars[i+1] > 'Z' {
			return nil, false
		}
		i++
		l := chars[i] - 'A'
		switch c {
		case '$':
			out = append(out, 1+l)
		case '+':
			out = append(out, 'a'+l)
		case '/':
			switch {
			case l <= 'O'-'A':
				out = append(out, '!'+l)
			case l == 'Z'-'A':
				out = append(out, ':')
			default:
				return nil, false
			}
		case '%':
			switch {
			case l <= 'E'-'A':
				out = append(out, 27+l)
			case l <= 'J'-'A':
				out = append(out, ';'+l-('F'-'A'))
			case l <= 'O'-'A':
				out = append(out, '['+l-('K'-'A'))
			case l <= 'T'-'A':
				out = append(out, '{'+l-('P'-'A'))
			case l == 'U'-'A':
				out = append(out, 0)
			case l == 'V'-'A':
				out = append(out, '@')
			case l == 'W'-'A':
				out = append(out, '`')
			default:
				out = append(out, 127)
			}
		}
	}
	return out, true
}

// Code39Mod43 is the optional check character: sum of character values mod 43.
// Returns 0 if chars contains a character outside the alphabet.
func Code39Mod43(chars string) byte {
	sum := 0
	for i := 0; i < len(chars); i++ {
		v := strings.IndexByte(Code39Alphabet, chars[i])
		if v < 0 {
			return 0
		}
		sum += v
	}
	return Code39Alphabet[sum%43]
}

// ---------------------------------------------------------------------------
// Interleaved 2 of 5 (ISO/IEC 16390)
// ---------------------------------------------------------------------------

// Two wide elements out of five; positions weighted 1 2 4 7 parity, digit 0
// is 4+7.
var itfElements = [10]string{
	"NNWWN", // 0
	"WNNNW", // 1
	"NWNNW", // 2
	"WWNNN", // 3
	"NNWNW", // 4
	"WNWNN", // 5
	"NWWNN", // 6
	"NNNWW", // 7
	"WNNWN", // 8
	"NWNWN", // 9
}

// ITFPattern renders an even-length digit string with narrow = 1, wide = 3:
// start (nnnn), digit pairs (first digit in the bars, second in the spaces),
// stop (Wnn).  4 + 9*len + 5 modules.  nil for odd length or non-digits.
func ITFPattern(digits string) []bool {
	return ITFPatternRatio(digits, 1, 3)
}

// ITFPatternRatio is ITFPattern with explicit narrow and wide widths.
func ITFPatternRatio(digits string, narrow, wide int) []bool {
	if len(digits)%2 != 0 || !allDigits(digits) {
		return nil
	}
	p := []bool{}
	p = nwRuns(p, "NNNN", narrow, wide)
	for i := 0; i < len(digits); i += 2 {
		a := itfElements[digits[i]-'0']
		b := itfElements[digits[i+1]-'0']
		e := make([]byte, 10)
		for k := 0; k < 5; k++ {
			e[2*k] = a[k]
			e[2*k+1] = b[k]
		}
		p = nwRuns(p, string(e), narrow, wide)
	}
	p = nwRuns(p, "WNN", narrow, wide)
	return p
}

// ---------------------------------------------------------------------------
// Codabar (NW-7, ANSI/AIM BC3)
// ---------------------------------------------------------------------------

// CodabarAlphabet lists the 16 data characters followed by the four
// start/stop characters.
const CodabarAlphabet = "0123456789-$:/.+ABCD"

// Seven elements per character, bar first (bar space bar space bar space
// bar), 1 = wide.
var codabarElements = [20]string{
	"0000011", // 0
	"0000110", // 1
	"0001001", // 2
	"1100000", // 3
	"0010010", // 4
	"1000010", // 5
	"0100001", // 6
	"0100100", // 7
	"0110000", // 8
	"1001000", // 9
	"0001100", // -
	"0011000", // $
	"1000101", // :
	"1010001", // /
	"1010100", // .
	"0010101", // +
	"0011010", // A
	"0101001", // B
	"0001011", // C
	"0001110", // D
}

// CodabarCanonical maps the alternative start/stop letters T N * E (and lower
// case) to A B C D; other characters are returned unchanged.
func CodabarCanonical(ch byte) byte {
	switch ch {
	case 'T', 't', 'a':
		return 'A'
	case 'N', 'n', 'b':
		return 'B'
	case '*', 'c':
		return 'C'
	case 'E', 'e', 'd':
		return 'D'
	}
	return ch
}

// CodabarPattern renders s as is (s includes its start and stop characters)
// with narrow = 1, wide = 2 and 1-module gaps between characters.  nil if a
// character is not in the alphabet.
func CodabarPattern(s string) []bool {
	p := []bool{}
	for i := 0; i < len(s); i++ {
		k := strings.IndexByte(CodabarAlphabet, CodabarCanonical(s[i]))
		if k < 0 {
			return nil
		}
		if i > 0 {
			p = append(p, false)
		}
		e := codabarElements[k]
		w := make([]int, 7)
		for j := 0; j < 7; j++ {
			w[j] = 1 + int(e[j]-'0')
		}
		p = runs(p, w)
	}
	return p
}
