package fw

// Rand is splitmix64; every case gets its own stream derived from
// (VERIF_SEED, property, case id).
type Rand struct{ s uint64 }

// NewRand seeds a stream.
func NewRand(seed uint64) *Rand { return &Rand{s: seed} }

// Uint64 returns the next value.
func (r *Rand) Uint64() uint64 {
	r.s += 0x9E3779B97F4A7C15
	z := r.s
	z = (z ^ (z >> 30)) * 0xBF58476D1CE4E5B9
	z = (z ^ (z >> 27)) * 0x94D049BB133111EB
	return z ^ (z >> 31)
}

// Intn returns a value in [0,n).
func (r *Rand) Intn(n int) int {
	if n <= 0 {
		return 0
	}
	return int(r.Uint64() % uint64(n))
}

// Range returns a value in [lo,hi].
func (r *Rand) Range(lo, hi int) int { return lo + r.Intn(hi-lo+1) }

// Bool returns a coin flip.
func (r *Rand) Bool() bool { return r.Uint64()&1 == 1 }

// Float returns a value in [0,1).
func (r *Rand) Float() float64 { return float64(r.Uint64()>>11) / (1 << 53) }

// Bytes returns n random bytes.
func (r *Rand) Bytes(n int) []byte {
	b := make([]byte, n)
	for i := range b {
		b[i] = byte(r.Uint64())
	}
	return b
}

// Pick returns a random element index weightless.
func (r *Rand) Pick(n int) int { return r.Intn(n) }

// Perm returns a permutation of 0..n-1.
func (r *Rand) Perm(n int) []int {
	p := make([]int, n)
	for i := range p {
		p[i] = i
	}
	for i := n - 1; i > 0; i-- {
		j := r.Intn(i + 1)
		p[i], p[j] = p[j], p[i]
	}
	return p
}
