//go:build verif

package main

import (
	"fmt"

	dmdec "github.com/makiuchi-d/gozxing/datamatrix/decoder"
	qrdec "github.com/makiuchi-d/gozxing/qrcode/decoder"

	"verifharness/fw"
	"verifharness/ref/dmref"
	"verifharness/ref/qrref"
)

// C05 addition: ONE decoder instance for a history of damaged symbols whose blocks have
// different numbers of error-correction codewords (many then few): whatever the decoder
// keeps between calls must not reduce what the next symbol tolerates.
func c05QRReuse(r *fw.Rec) {
	rng := r.Rng
	dec := qrdec.NewDecoder()
	var hist []string
	for step := 0; step < 10; step++ {
		var v int
		var l qrref.Level
		if step%2 == 0 { // many ec codewords per block
			v, l = 3+rng.Intn(12), qrAllLevels[1+rng.Intn(3)]
		} else { // few
			v, l = 1+rng.Intn(2), qrref.L
		}
		s, ok := c05QRSymbol(r, v, l)
		if !ok {
			return
		}
		hist = append(hist, fmt.Sprintf("%d-%s(ec/block %d)", v, qrLevelName[l], qrref.ECCodewordsPerBlock(v, l)))
		// damage every block at capacity
		t := qrref.ECCodewordsPerBlock(v, l) / 2
		perBlock := map[int]int{}
		m := copyBools(s.m)
		for _, i := range rng.Perm(s.total) {
			b, _, _ := qrref.CodewordBlock(v, l, i)
			if perBlock[b] >= t {
				continue
			}
			perBlock[b]++
			flipCodeword(m, s.mods[i], byte(1+rng.Intn(255)))
		}
		res, err := dec.Decode(boolsToBitMatrix(m), nil)
		r.Evals(1)
		info := map[string]interface{}{"history": hist, "text": s.text}
		if err != nil {
			r.Violation("damage", "qr.codewords:reused-decoder:rejected", fmt.Sprintf("a reused QR Decoder rejected symbol %d of the history %v (each damaged in floor(ec/2) codewords per block): %v", len(hist), hist, err), info)
			return
		}
		if res.GetText() != s.text {
			r.Violation("damage", "qr.codewords:reused-decoder:other-text", fmt.Sprintf("a reused QR Decoder read other text for symbol %d of the history %v", len(hist), hist), info)
			return
		}
	}
	r.Tally("qr_reused_decoder_histories")
	r.Nontrivial("qrreuse|" + fmt.Sprint(hist))
}

func c05DMReuse(r *fw.Rec) {
	rng := r.Rng
	dec := dmdec.NewDecoder()
	syms := dmref.Symbols()
	var hist []string
	for step := 0; step < 8; step++ {
		var s dmref.Symbol
		if step%2 == 0 {
			s = syms[12+rng.Intn(14)] // 24x24 .. 96x96: 24..68 ec codewords per block
		} else {
			s = syms[rng.Intn(4)] // 10x10 .. 14x14: 5..10
		}
		d, ok := c05DMSymbol(r, s)
		if !ok {
			return
		}
		hist = append(hist, fmt.Sprintf("%dx%d(ec/block %d)", s.Rows, s.Cols, s.BlockECCW()))
		t := s.BlockECCW() / 2
		perBlock := map[int]int{}
		m := copyBools(d.m)
		for _, i := range rng.Perm(s.DataCW + s.ECCW) {
			b, _ := dmref.CodewordBlock(s, i)
			if perBlock[b] >= t {
				continue
			}
			perBlock[b]++
			flipCodeword(m, d.mods[i], byte(1+rng.Intn(255)))
		}
		res, err := dec.Decode(boolsToBitMatrix(m))
		r.Evals(1)
		info := map[string]interface{}{"history": hist, "text": d.text}
		if err != nil {
			r.Violation("damage", "dm.codewords:reused-decoder:rejected", fmt.Sprintf("a reused Data Matrix Decoder rejected symbol %d of the history %v: %v", len(hist), hist, err), info)
			return
		}
		if res.GetText() != d.text {
			r.Violation("damage", "dm.codewords:reused-decoder:other-text", fmt.Sprintf("a reused Data Matrix Decoder read other text for symbol %d of the history %v", len(hist), hist), info)
			return
		}
	}
	r.Tally("dm_reused_decoder_histories")
	r.Nontrivial("dmreuse|" + fmt.Sprint(hist))
}
