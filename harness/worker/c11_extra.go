//go:build verif

package main

import (
	"fmt"
	"image"

	azdec "github.com/makiuchi-d/gozxing/aztec/decoder"

	"verifharness/fw"
	"verifharness/ref/azref"
)

// C11 additions.
//
// (1) Extended channel interpretation: a conforming symbol may switch the interpretation of
//     its bytes with FLG(n) escapes.  Token streams with ECI escapes (1..6 digit assignment
//     numbers, from every table that offers P/S and from Punct itself) followed by bytes of
//     that character set must decode to the text those bytes spell.
// (2) Canvases that are not square: the symbol sits in a portrait or landscape image.

// azECIText converts the expected bytes to text segment by segment (ISO-8859-1 until the first escape).
func azECIText(text []byte, marks []azref.ECIMark) (string, bool) {
	out := ""
	cur := c15FindEntry(3) // ISO-8859-1
	pos := 0
	flush := func(to int) bool {
		if to > pos {
			var u []byte
			var err error
			if cur.Kind == 4 {
				u = text[pos:to]
			} else {
				u, err = cur.Enc.NewDecoder().Bytes(text[pos:to])
			}
			if err != nil {
				return false
			}
			out += string(u)
			pos = to
		}
		return true
	}
	for _, m := range marks {
		if !flush(m.TextPos) {
			return "", false
		}
		cur = c15FindEntry(m.Value)
		if cur == nil {
			return "", false
		}
	}
	if !flush(len(text)) {
		return "", false
	}
	return out, true
}

func c11ECICase(r *fw.Rec) {
	rng := r.Rng
	for rep := 0; rep < 40; rep++ {
		enc := azref.NewEncoder()
		nseg := 1 + rng.Intn(3)
		// some plain upper-case text first (interpretation: ISO-8859-1)
		for i := rng.Intn(4); i > 0; i-- {
			enc.Char(2 + rng.Intn(26))
		}
		for sgm := 0; sgm < nseg; sgm++ {
			// single-byte sets and UTF-8, assignment numbers with every digit incl. 9, and a 6-digit form
			e := &csTable[[]int{0, 1, 2, 5, 6, 7, 8, 9, 10, 12, 13, 14, 17, 18}[rng.Intn(14)]]
			val := e.Values[rng.Intn(len(e.Values))]
			// reach a table that offers the escape in a different way each time (from Upper)
			azToUpper(enc)
			switch rng.Intn(5) {
			case 0:
				enc.Latch(azref.Lower)
			case 1:
				enc.Latch(azref.Mixed)
				enc.Latch(azref.Punct)
			case 2:
				enc.Latch(azref.Digit)
			case 3:
				enc.Latch(azref.Mixed)
			}
			enc.ECI(val)
			azToUpper(enc)
			// bytes of that character set through a binary shift
			txt := csRandomText(rng, e, 1+rng.Intn(10))
			bs, ok := e.csEncode(txt)
			if !ok || len(bs) == 0 || len(bs) > 60 {
				bs = []byte("ok")
			}
			enc.BinaryShift(bs)
			if rng.Bool() && enc.Table() == azref.Upper {
				enc.Char(2 + rng.Intn(26)) // ASCII letters mean the same in all of these sets
			}
		}
		want, ok := azECIText(enc.Text(), enc.ECIMarks())
		if !ok {
			r.Tally("eci_streams_skipped_not_decodable_by_codec")
			continue
		}
		info := map[string]interface{}{"tokens": enc.Trace(), "expected": want}
		got, err := azdec.NewDecoder().HighLevelDecode(enc.Bits())
		r.Evals(1)
		if err != nil {
			r.Violation("model-mismatch", "aztec.highlevel:eci:error", fmt.Sprintf("HighLevelDecode rejected a stream with ECI escapes (%v): %v", enc.Trace(), err), info)
			return
		}
		if got != want {
			r.Violation("model-mismatch", "aztec.highlevel:eci:other-text", fmt.Sprintf("HighLevelDecode of a stream with ECI escapes returned %q, expected %q (%v)", got, want, enc.Trace()), info)
			return
		}
		r.Tally("eci_streams_decoded")
		for _, m := range enc.ECIMarks() {
			r.Tally(fmt.Sprintf("eci_digits_%d", len(fmt.Sprint(m.Value))))
		}
		// and through a symbol at matrix level
		if rep%4 == 0 {
			for _, s := range []azref.Spec{{Compact: true, Layers: 3}, {Layers: 4}, {Layers: 9}} {
				sym, ok := azref.Build(s, enc.Bits(), 3)
				if !ok {
					continue
				}
				txt, derr := azDecodeMatrix(sym.Matrix, sym, false)
				if derr != nil || txt != want {
					r.Violation("model-mismatch", "aztec.decoder:eci:matrix-level", fmt.Sprintf("%s symbol with ECI escapes: decoded %q, %v; expected %q", azSpecName(s), txt, derr, want), info)
					return
				}
				r.Tally("eci_symbols_decoded")
				break
			}
		}
		r.Nontrivial("eci|" + fmt.Sprint(enc.Trace()))
	}
}

// azToUpper latches back to the Upper table along direct latches (Lower has none: via Mixed).
func azToUpper(enc *azref.Encoder) {
	switch enc.Table() {
	case azref.Lower:
		enc.Latch(azref.Mixed)
		enc.Latch(azref.Upper)
	case azref.Mixed, azref.Punct, azref.Digit:
		enc.Latch(azref.Upper)
	}
}

// azOnCanvas pastes a square rendering onto a larger white canvas of w x h pixels at (x0, y0).
func azOnCanvas(src *image.Gray, w, h, x0, y0 int) *image.Gray {
	img := image.NewGray(image.Rect(0, 0, w, h))
	for i := range img.Pix {
		img.Pix[i] = 0xFF
	}
	b := src.Bounds()
	for y := 0; y < b.Dy(); y++ {
		copy(img.Pix[(y+y0)*img.Stride+x0:(y+y0)*img.Stride+x0+b.Dx()], src.Pix[y*src.Stride:y*src.Stride+b.Dx()])
	}
	return img
}

func c11CanvasCase(r *fw.Rec, s azref.Spec) {
	rng := r.Rng
	var sym *azref.Symbol
	var text []byte
	for tries := 0; tries < 30 && sym == nil; tries++ {
		maxBits := s.TotalWords()*s.WordSize()/2 - 8
		if maxBits < 8 {
			maxBits = 8
		}
		bits, t := azref.RandomTokens(rng, 5+rng.Intn(maxBits))
		if b, ok := azref.Build(s, bits, 3); ok {
			sym, text = b, t
		}
	}
	if sym == nil {
		return
	}
	want := latin1String(string(text))
	for k := 0; k < 4; k++ {
		scale := 3 + rng.Intn(2)
		sq := azRender(sym.Matrix, scale, 4, rng.Intn(4))
		side := sq.Bounds().Dx()
		w, h := side, side
		x0, y0 := 0, 0
		extra := side/2 + rng.Intn(2*side)
		// the locating stage starts from the middle of the image, so the symbol stays centred
		// (up to a pixel); only the shape of the canvas varies
		if k%2 == 0 { // portrait
			h += extra
			y0 = extra/2 + rng.Intn(2)
		} else { // landscape
			w += extra
			x0 = extra/2 + rng.Intn(2)
		}
		res, err := azReadImage(azOnCanvas(sq, w, h, x0, y0))
		r.Evals(1)
		info := map[string]interface{}{"spec": azSpecName(s), "scale": scale, "canvas": fmt.Sprintf("%dx%d", w, h), "symbol_at": []int{x0, y0}, "text_hex": fmt.Sprintf("%x", text)}
		if err != nil {
			kind := "landscape"
			if h > w {
				kind = "portrait"
			}
			r.Violation("model-mismatch", "aztec.reader:non-square-canvas:"+kind+":"+azErrKind(err), fmt.Sprintf("%s symbol at %d px/module on a %dx%d canvas (symbol at %d,%d) was not read: %v", azSpecName(s), scale, w, h, x0, y0, err), info)
			return
		}
		if res.GetText() != want {
			r.Violation("model-mismatch", "aztec.reader:misread", fmt.Sprintf("%s symbol on a %dx%d canvas read as other text", azSpecName(s), w, h), info)
			return
		}
		if h > w {
			r.Tally("portrait_canvas_reads")
		} else {
			r.Tally("landscape_canvas_reads")
		}
	}
	r.Nontrivial("canvas|" + azSpecName(s) + "|" + string(text))
}

// azSymbolWithDataWords builds a symbol whose data fill exactly d codewords: a short random
// token walk is no help in hitting a length, so the stream is Upper-table characters (5 bits
// each) - letters and spaces, with binary-shift runs and digits-table stretches mixed in -
// counted so that the stuffed stream ends in codeword d.  nil if stuffing moved the count.
func azSymbolWithDataWords(rng *fw.Rand, s azref.Spec, d int) (*azref.Symbol, []byte) {
	ws := s.WordSize()
	for try := 0; try < 12; try++ {
		target := d*ws - rng.Intn(3) - try // bits
		if target < 5 {
			target = 5
		}
		enc := azref.NewEncoder()
		for enc.Len()+5 <= target {
			left := target - enc.Len()
			switch k := rng.Intn(40); {
			case k == 0 && left > 60: // a short binary-shift run
				n := 1 + rng.Intn(5)
				b := make([]byte, n)
				for i := range b {
					b[i] = byte(rng.Intn(256))
				}
				enc.BinaryShift(b)
			case k == 1 && left > 40: // a stretch in the Digit table and back
				enc.Latch(azref.Digit)
				for i := rng.Intn(5); i >= 0; i-- {
					enc.Char(2 + rng.Intn(10))
				}
				enc.Latch(azref.Upper)
			default:
				enc.Char(1 + rng.Intn(27)) // space, A..Z
			}
		}
		if sym, ok := azref.Build(s, enc.Bits(), 3); ok && sym.DataWords == d {
			return sym, enc.Text()
		}
	}
	return nil, nil
}

// c11ModeSweep: the mode message announces (layers, data codewords); every announceable pair of
// a size is a different 28/40-bit message with different Reed-Solomon check nibbles, and the
// locating stage has to read it from the image before anything can be decoded.  One clean
// symbol per pair d in [lo, hi), read as an image at 3 px/module.
func c11ModeSweep(r *fw.Rec, s azref.Spec, lo, hi int) {
	rng := r.Rng
	for d := lo; d < hi; d++ {
		sym, text := azSymbolWithDataWords(rng, s, d)
		if sym == nil {
			r.Tally("mode_sweep_pairs_not_built")
			continue
		}
		want := latin1String(string(text))
		rot := rng.Intn(4)
		res, err := azReadImage(azRender(sym.Matrix, 3, 4, rot))
		r.Evals(1)
		info := map[string]interface{}{"spec": azSpecName(s), "data_words": d, "rotation": rot * 90, "text_hex": fmt.Sprintf("%x", text)}
		if err != nil {
			r.Violation("model-mismatch", "aztec.reader:mode-message-sweep:"+azErrKind(err), fmt.Sprintf("clean %s symbol with %d data codewords (of %d) at 3 px/module, rotated %d degrees, was not read: %v", azSpecName(s), d, s.TotalWords(), rot*90, err), info)
			return
		}
		if res.GetText() != want {
			r.Violation("model-mismatch", "aztec.reader:misread", fmt.Sprintf("clean %s symbol with %d data codewords read as other text", azSpecName(s), d), info)
			return
		}
		r.Tally("mode_sweep_pairs_read")
		if d > 1024 {
			r.Tally("mode_sweep_pairs_read_more_than_1024_data_words")
		}
		r.NontrivialH(hash64s(fmt.Sprint("modesweep|", s, d)))
	}
}

// c11SingleHighByte: messages whose ONLY byte above 0x7F is one given value (every value
// 0x80..0xFF in turn), carried by a one-byte binary shift between ASCII characters.
func c11SingleHighByte(r *fw.Rec) {
	rng := r.Rng
	for b := 0x80; b <= 0xFF; b++ {
		enc := azref.NewEncoder()
		for i := 0; i < 1+rng.Intn(4); i++ {
			enc.Char(2 + rng.Intn(26))
		}
		enc.BinaryShift([]byte{byte(b)})
		for i := 0; i < rng.Intn(5); i++ {
			enc.Char(1 + rng.Intn(27))
		}
		want := latin1String(string(enc.Text()))
		info := map[string]interface{}{"tokens": enc.Trace(), "expected": want}
		got, err := azdec.NewDecoder().HighLevelDecode(enc.Bits())
		r.Evals(1)
		if err != nil || got != want {
			r.Violation("model-mismatch", "aztec.highlevel:single-high-byte", fmt.Sprintf("HighLevelDecode of a message whose only high byte is %#x returned %q, %v; expected %q", b, got, err, want), info)
			return
		}
		if sym, ok := azref.Build(azref.Spec{Compact: true, Layers: 2}, enc.Bits(), 3); ok && b%8 == 0 {
			txt, derr := azDecodeMatrix(sym.Matrix, sym, false)
			if derr != nil || txt != want {
				r.Violation("model-mismatch", "aztec.decoder:single-high-byte", fmt.Sprintf("symbol whose only high byte is %#x decoded as %q, %v; expected %q", b, txt, derr, want), info)
				return
			}
		}
		r.Tally("single_high_byte_messages")
	}
	r.Nontrivial(fmt.Sprintf("single-high-byte/%d", rng.Uint64()))
}

// c11DenseRuns: long runs of ONE code of one table (every data code of every table, among them the
// four two-character codes of the punctuation table) between two letters: a stream whose text is
// much longer - or much shorter - per bit than a mix of codes, at run lengths 1..200.
func c11DenseRuns(r *fw.Rec, table azref.Table) {
	toTable := func(e *azref.Encoder) {
		switch table {
		case azref.Lower:
			e.Latch(azref.Lower)
		case azref.Mixed:
			e.Latch(azref.Mixed)
		case azref.Digit:
			e.Latch(azref.Digit)
		case azref.Punct:
			e.Latch(azref.Mixed)
			e.Latch(azref.Punct)
		}
	}
	back := func(e *azref.Encoder) {
		switch table {
		case azref.Lower:
			e.Latch(azref.Mixed)
			e.Latch(azref.Upper)
		case azref.Mixed, azref.Digit, azref.Punct:
			e.Latch(azref.Upper)
		}
	}
	ncodes := 32
	if table == azref.Digit {
		ncodes = 16
	}
	for code := 0; code < ncodes; code++ {
		for _, n := range []int{1, 2, 6, 7, 20, 60, 200} {
			e := azref.NewEncoder()
			ok := true
			func() {
				defer func() {
					if recover() != nil {
						ok = false // not a data code of this table
					}
				}()
				e.Char(2) // 'A'
				toTable(e)
				for i := 0; i < n; i++ {
					e.Char(code)
				}
				back(e)
				e.Char(3) // 'B'
			}()
			if !ok {
				break
			}
			want := azLatin1(e.Text())
			got, err := azdec.NewDecoder().HighLevelDecode(e.Bits())
			r.Evals(1)
			info := map[string]interface{}{"table": table.String(), "code": code, "repeats": n, "tokens": azTraceHead(e.Trace(), 12), "text": trunc(want, 80)}
			if err != nil {
				r.Violation("model-mismatch", "aztec.highlevel:error", fmt.Sprintf("HighLevelDecode failed on 'A', %d x code %d of table %s, 'B' (%d bits): %v", n, code, table, e.Len(), err), info)
				return
			}
			if got != want {
				r.Violation("model-mismatch", "aztec.highlevel:other-text", fmt.Sprintf("HighLevelDecode of 'A', %d x code %d of table %s, 'B' returned %q, standard %q", n, code, table, trunc(got, 60), trunc(want, 60)), info)
				return
			}
			r.Tally("highlevel_dense_single_code_runs")
		}
	}
	r.Nontrivial("dense-runs/" + table.String())
}
