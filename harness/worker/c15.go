//go:build verif

package main

import (
	"fmt"
	"sort"
	"strings"

	"github.com/makiuchi-d/gozxing"
	"github.com/makiuchi-d/gozxing/common"
	qrdec "github.com/makiuchi-d/gozxing/qrcode/decoder"

	"verifharness/fw"
	"verifharness/ref/qrref"
)

// C15: character sets and ECI.

func init() { fw.Register("C15", c15) }

// bit writer for crafted QR data-codeword streams
type bitw struct {
	b []byte
	n int
}

func (w *bitw) put(v, bits int) {
	for i := bits - 1; i >= 0; i-- {
		if w.n%8 == 0 {
			w.b = append(w.b, 0)
		}
		if v>>uint(i)&1 == 1 {
			w.b[w.n/8] |= 1 << uint(7-w.n%8)
		}
		w.n++
	}
}

// eciForms returns the designator encodings (as bit chunks) ISO 18004 allows for value v:
// the minimal form and every longer form that can hold it.
func eciForms(v int) [][2]int { // {value bits incl. prefix, nbits}
	var out [][2]int
	if v <= 127 {
		out = append(out, [2]int{v, 8})
	}
	if v <= 16383 {
		out = append(out, [2]int{0x8000 | v, 16})
	}
	if v <= 999999 {
		out = append(out, [2]int{0xC00000 | v, 24})
	}
	return out
}

func c15FindEntry(v int) *csEntry {
	for i := range csTable {
		for _, x := range csTable[i].Values {
			if x == v {
				return &csTable[i]
			}
		}
	}
	return nil
}

func c15Payload(e *csEntry) ([]byte, string) {
	switch e.Kind {
	case 0:
		rep := csRepertoire(e)
		// "A" + the highest representable code point + "z"
		hi := rep[len(rep)-1]
		b, _ := e.csEncode("A" + string(hi) + "z")
		return b, "A" + string(hi) + "z"
	case 3:
		return []byte{0x00, 0x41, 0x4E, 0x2D}, "A中"
	case 2:
		return []byte("Aé中"), "Aé中"
	case 4:
		return []byte("Az~"), "Az~"
	default:
		// double-byte sets: ASCII around one character of every byte-length class the set has
		// (GB18030: two- and four-byte codes, BMP and astral)
		for _, t := range []string{"A汉字\U0001F600ḿz", "A日本語z", "A漢字z", "A한국어z"} {
			if b, ok := e.csEncode(t); ok {
				return b, t
			}
		}
		return []byte("Az"), "Az"
	}
}

var v1, _ = qrdec.Version_GetVersionForNumber(1)

// c15ECINumber feeds ECI designator `val` (in every admissible length form) followed by a byte segment.
func c15ECINumber(r *fw.Rec, val int, libRegistered map[int]bool) bool {
	if !c15ECINumberAfter(r, val, libRegistered, false) {
		return false
	}
	// the same designator as the SECOND one of a symbol, after a registered one with its own
	// byte segment: what was in effect before must not decide how this one is treated
	return val >= 4096 && val%7 != 0 || c15ECINumberAfter(r, val, libRegistered, true)
}

func c15ECINumberAfter(r *fw.Rec, val int, libRegistered map[int]bool, second bool) bool {
	e := c15FindEntry(val)
	for _, form := range eciForms(val) {
		var w bitw
		prefix := ""
		if second {
			w.put(0x7, 4)
			w.put(9, 8) // ISO-8859-7
			w.put(0x4, 4)
			w.put(2, 8)
			w.put(0xE1, 8)
			w.put(0xE2, 8)
			prefix = "\u03b1\u03b2"
			r.Tally("eci_as_second_designator_of_a_symbol")
		}
		w.put(0x7, 4)
		w.put(form[0], form[1])
		payload, want := []byte("Az"), "Az"
		if e != nil {
			payload, want = c15Payload(e)
		}
		w.put(0x4, 4)
		w.put(len(payload), 8)
		for _, b := range payload {
			w.put(int(b), 8)
		}
		w.put(0, 4)
		res, err := qrdec.DecodedBitStreamParser_Decode(w.b, v1, qrdec.ErrorCorrectionLevel_L, nil)
		r.Evals(1)
		info := map[string]interface{}{"eci": val, "designator_bits": form[1], "stream": fmt.Sprintf("%x", w.b)}
		if (res == nil) == (err == nil) {
			r.Violation("totality", "qr.parser:eci:result-xor-error", fmt.Sprintf("ECI %d (%d-bit form): result=%v err=%v", val, form[1], res, err), info)
			return false
		}
		if e != nil && val < 900 {
			if err != nil {
				r.Violation("model-mismatch", "qr.parser:eci:registered-value-rejected", fmt.Sprintf("ECI %d (%s, %d-bit form) rejected: %v", val, e.Name, form[1], err), info)
				return false
			}
			if res.GetText() != prefix+want {
				r.Violation("model-mismatch", "qr.parser:eci:wrong-charset-applied", fmt.Sprintf("ECI %d (%s): bytes %x decoded as %q, expected %q", val, e.Name, payload, res.GetText(), prefix+want), info)
				return false
			}
			r.Tally("eci_registered_decoded")
		} else {
			if err == nil {
				if libRegistered[val] {
					// registered in the library but unknown to the harness table: report as its own class
					r.Violation("model-mismatch", "qr.parser:eci:value-registered-beyond-table", fmt.Sprintf("ECI %d is accepted (text %q) although it is not one of the supported sets' designators", val, res.GetText()), info)
				} else {
					r.Violation("model-mismatch", "qr.parser:eci:unregistered-value-accepted", fmt.Sprintf("unregistered ECI %d (%d-bit form) accepted, text %q", val, form[1], res.GetText()), info)
				}
				return false
			}
			if _, ok := err.(gozxing.FormatException); !ok {
				r.Violation("model-mismatch", "qr.parser:eci:error-kind", fmt.Sprintf("unregistered ECI %d: error is %T (%v), not FormatException", val, err, err), info)
				return false
			}
			r.Tally("eci_unregistered_format_error")
		}
		r.Tally(fmt.Sprintf("eci_form_%dbit", form[1]))
	}
	if second {
		return true
	}
	// registry lookup consistency
	ent, err := common.GetCharacterSetECIByValue(val)
	switch {
	case val >= 900:
		if err == nil {
			r.Violation("model-mismatch", "eci.registry:out-of-range-no-error", fmt.Sprintf("GetCharacterSetECIByValue(%d) = %v, nil error", val, ent), nil)
			return false
		}
	case e != nil:
		if err != nil || ent == nil {
			r.Violation("model-mismatch", "eci.registry:registered-value-missing", fmt.Sprintf("GetCharacterSetECIByValue(%d) = %v, %v; expected %s", val, ent, err, e.Name), nil)
			return false
		}
	default:
		if err == nil && ent != nil {
			r.Violation("model-mismatch", "eci.registry:unregistered-value-present", fmt.Sprintf("GetCharacterSetECIByValue(%d) = %s", val, ent.Name()), nil)
			return false
		}
	}
	return true
}

func c15Registry(r *fw.Rec) {
	byValue, byName := common.VerifECIRegistry()
	// every value -> entry -> back
	for v, ent := range byValue {
		if ent == nil {
			r.Violation("model-mismatch", "eci.registry:nil-entry", fmt.Sprintf("value %d maps to nil", v), nil)
			return
		}
		has := false
		for _, x := range ent.VerifValues() {
			if x == v {
				has = true
			}
		}
		if !has {
			r.Violation("model-mismatch", "eci.registry:value-not-in-entry", fmt.Sprintf("value %d maps to %s whose values are %v", v, ent.Name(), ent.VerifValues()), nil)
			return
		}
		back, err := common.GetCharacterSetECIByValue(ent.GetValue())
		if err != nil || back != ent {
			r.Violation("model-mismatch", "eci.registry:primary-value-roundtrip", fmt.Sprintf("entry %s: GetValue()=%d resolves to %v", ent.Name(), ent.GetValue(), back), nil)
			return
		}
		if ent.GetValue() != ent.VerifValues()[0] {
			r.Violation("model-mismatch", "eci.registry:getvalue-not-first", fmt.Sprintf("entry %s: GetValue()=%d, values %v", ent.Name(), ent.GetValue(), ent.VerifValues()), nil)
			return
		}
		names := append([]string{ent.Name()}, ent.VerifOtherNames()...)
		for _, n := range names {
			got, ok := common.GetCharacterSetECIByName(n)
			if !ok || got != ent {
				r.Violation("model-mismatch", "eci.registry:name-resolves-elsewhere", fmt.Sprintf("name %q of entry %s resolves to %v", n, ent.Name(), got), nil)
				return
			}
		}
		got, ok := common.GetCharacterSetECI(ent.GetCharset())
		if !ok || got != ent {
			r.Violation("model-mismatch", "eci.registry:charset-resolves-elsewhere", fmt.Sprintf("charset of entry %s resolves to %v", ent.Name(), got), nil)
			return
		}
		r.Tally("registry_values_checked")
	}
	for n, ent := range byName {
		if ent == nil {
			r.Violation("model-mismatch", "eci.registry:nil-entry", fmt.Sprintf("name %q maps to nil", n), nil)
			return
		}
		if byValue[ent.GetValue()] != ent {
			r.Violation("model-mismatch", "eci.registry:name-to-unregistered-entry", fmt.Sprintf("name %q maps to an entry whose value %d resolves elsewhere", n, ent.GetValue()), nil)
			return
		}
		r.Tally("registry_names_checked")
	}
	// the harness table (AIM designators) must be present with the same designators and names
	for i := range csTable {
		e := &csTable[i]
		for _, n := range append([]string{e.Name}, e.Aliases...) {
			ent, ok := common.GetCharacterSetECIByName(n)
			if !ok || ent == nil {
				r.Violation("model-mismatch", "eci.registry:supported-name-missing", fmt.Sprintf("character set name %q is not registered", n), nil)
				return
			}
			vals := append([]int{}, ent.VerifValues()...)
			sort.Ints(vals)
			want := append([]int{}, e.Values...)
			sort.Ints(want)
			if !intsEq(vals, want) {
				r.Violation("model-mismatch", "eci.registry:designator-differs", fmt.Sprintf("%s is registered with designators %v, AIM ECI register says %v", n, vals, want), nil)
				return
			}
		}
		r.Tally("registry_table_entries_confirmed")
	}
	r.Nontrivial("registry")
	r.Sample(map[string]interface{}{"kind": "registry", "values": len(byValue), "names": len(byName)})
}

// c15Hinted: writer with CHARACTER_SET hint -> reader; ECI header confirmed from the raw codewords.
func c15Hinted(r *fw.Rec, e *csEntry, name, text string, class string) bool {
	enc, ok := e.csEncode(text)
	if !ok {
		return true
	}
	info := map[string]interface{}{"charset": name, "text": text, "class": class}
	hints := map[gozxing.EncodeHintType]interface{}{gozxing.EncodeHintType_CHARACTER_SET: name, gozxing.EncodeHintType_ERROR_CORRECTION: "M"}
	// other well-typed hints next to the character set: they keep their own meaning and take
	// nothing away from this one (GS1_FORMAT adds the FNC1 indicator; said as false it adds nothing)
	switch r.Rng.Intn(8) {
	case 0:
		hints[gozxing.EncodeHintType_GS1_FORMAT] = false
		r.Tally("hinted_with_gs1_format_false")
	case 1:
		if !strings.Contains(text, "%") { // in a GS1 symbol '%' in alphanumeric mode is the FNC1 escape
			hints[gozxing.EncodeHintType_GS1_FORMAT] = []interface{}{true, "true"}[r.Rng.Intn(2)]
			info["gs1_format"] = true
			r.Tally("hinted_with_gs1_format_true")
		}
	case 2:
		hints[gozxing.EncodeHintType_MARGIN] = 4
	}
	img, err := instQRWriter().Encode(text, gozxing.BarcodeFormat_QR_CODE, 0, 0, hints)
	r.Evals(1)
	if err != nil {
		over := 3
		if info["gs1_format"] == true {
			over = 4 // the FNC1 indicator's four bits
		}
		if qrref.MinVersion(len(enc)+over, qrref.Byte, qrref.M) == 0 {
			return true
		}
		r.Violation("roundtrip", "qr.charset:refused-representable-text:"+class, fmt.Sprintf("writer refused text representable in %s: %v", name, err), info)
		return false
	}
	bmp, _ := gozxing.NewBinaryBitmapFromImage(img)
	// decode hints that would mislead a guesser must not matter when the symbol designates its charset
	var dh map[gozxing.DecodeHintType]interface{}
	dh = map[gozxing.DecodeHintType]interface{}{gozxing.DecodeHintType_PURE_BARCODE: true}
	switch r.Rng.Intn(4) {
	case 0: // a decode-side hint naming some other registered character set, by name ...
		o := &csTable[r.Rng.Intn(len(csTable))]
		names := append([]string{o.Name}, o.Aliases...)
		dh[gozxing.DecodeHintType_CHARACTER_SET] = names[r.Rng.Intn(len(names))]
		info["decode_hint"] = dh[gozxing.DecodeHintType_CHARACTER_SET]
		r.Tally("designated_symbols_read_with_other_decode_hint")
	case 1: // ... or as a codec value
		o := &csTable[r.Rng.Intn(len(csTable))]
		if o.Enc != nil {
			dh[gozxing.DecodeHintType_CHARACTER_SET] = o.Enc
			info["decode_hint"] = o.Name + " (encoding.Encoding value)"
			r.Tally("designated_symbols_read_with_other_decode_hint")
		}
	}
	res, derr := instQRReader().Decode(bmp, dh)
	if derr != nil {
		r.Violation("roundtrip", "qr.charset:decode-error:"+class, fmt.Sprintf("reader rejected a %s-hinted symbol: %v", name, derr), info)
		return false
	}
	if res.GetText() != text {
		r.Violation("roundtrip", "qr.charset:other-text:"+class, fmt.Sprintf("%s-hinted symbol of %q read as %q", name, trunc(text, 60), trunc(res.GetText(), 60)), info)
		return false
	}
	// which mode did the symbol use? parse the raw data codewords with the reference parser
	side := img.GetWidth() - 8
	v := (side - 17) / 4
	segs, perr := qrref.ParseDataCodewords(v, res.GetRawBytes())
	if perr != nil {
		r.Violation("model-mismatch", "qr.charset:raw-codewords-unparseable", fmt.Sprintf("reference parser cannot walk the data codewords: %v", perr), info)
		return false
	}
	hasByte, eci := false, -1
	for _, s := range segs {
		if s.Mode == qrref.ModeECI {
			eci = s.ECI
		}
		if s.Mode == qrref.Byte {
			hasByte = true
			if string(s.Bytes) != string(enc) {
				r.Violation("model-mismatch", "qr.charset:bytes-not-in-hinted-charset", fmt.Sprintf("byte segment %x is not the %s encoding %x of the text", s.Bytes, name, enc), info)
				return false
			}
		}
	}
	if hasByte {
		okv := false
		for _, x := range e.Values {
			if x == eci {
				okv = true
			}
		}
		if !okv {
			r.Violation("model-mismatch", "qr.charset:eci-designator-missing-or-wrong", fmt.Sprintf("byte-mode symbol hinted %s carries ECI %d, registered designators %v", name, eci, e.Values), info)
			return false
		}
		r.Tally("hinted_byte_mode_with_eci")
	} else {
		r.Tally("hinted_non_byte_mode_dont_care_eci")
	}
	r.Tally("hinted_" + e.Name)
	return true
}

func c15(c *fw.Ctx) {
	c.Rule("registry invariants over every value/name/alias; every registered set and alias with every single-byte code point (exhaustive) and sampled double-byte ranges (plus every two-byte code the codec round-trips: Shift_JIS in byte and Kanji mode in both tiers, Big5 / GB18030 / EUC-KR all in thorough and every fourth lead byte in quick) through hinted writer -> reader, half of the reads under a decode-side CHARACTER_SET hint naming some other set (string or codec value), which a designated symbol must ignore, with the ECI header confirmed by an independent parse of the raw codewords; non-representable text must be refused; unhinted UTF-8 incl. adversarial byte statistics and long payloads whose first non-ASCII character comes after 500..2049 bytes; ECI numbers 0..1023 plus sampled (thorough: all 0..999999) in every designator length form through the bit-stream parser; decode-side CHARACTER_SET hint on undesignated byte segments (incl. payloads starting with byte-order-mark, UTF-8- and Shift_JIS-looking byte pairs); distinct = distinct (class, charset, text / ECI number)")
	c.Assume("'representable' = the golang.org/x/text codec encodes the text and decodes it back unchanged; text that encodes but does not round trip (codec aliases) is don't-care; ECI header demanded only for byte-mode symbols (DESIGN C15)")
	c.Run("registry", func(r *fw.Rec) { c15Registry(r) })

	// single-byte code points, exhaustive: chunks of 16 code points per symbol, all names
	for i := range csTable {
		e := &csTable[i]
		names := append([]string{e.Name}, e.Aliases...)
		for ni, name := range names {
			e, name, ni := e, name, ni
			if e.Kind == 0 || e.Kind == 4 {
				c.Run(fmt.Sprintf("single/%s/%d", e.Name, ni), func(r *fw.Rec) {
					var rep []rune
					if e.Kind == 4 {
						for b := 0; b < 128; b++ {
							rep = append(rep, rune(b))
						}
					} else {
						rep = csRepertoire(e)
					}
					for lo := 0; lo < len(rep); lo += 16 {
						hi := lo + 16
						if hi > len(rep) {
							hi = len(rep)
						}
						text := "a" + string(rep[lo:hi]) // leading lower-case letter: byte mode
						if !c15Hinted(r, e, name, text, "single-byte") {
							return
						}
						r.NontrivialH(hash64s(e.Name+text) ^ uint64(ni))
					}
					r.TallyN("single_byte_code_points_covered", int64(len(rep)))
				})
			}
		}
	}
	c.Exhaustive("every representable code point of every single-byte character set, under every registered name")
	// multi-byte sets sampled
	nm := c.Pick(2000, 200000) / 40
	for i := range csTable {
		e := &csTable[i]
		if e.Kind == 0 || e.Kind == 4 {
			continue
		}
		for k := 0; k < nm; k++ {
			e, k := e, k
			c.Run(fmt.Sprintf("multi/%s/%d", e.Name, k), func(r *fw.Rec) {
				rng := r.Rng
				names := append([]string{e.Name}, e.Aliases...)
				for rep := 0; rep < 40; rep++ {
					name := names[rng.Intn(len(names))]
					text := csRandomText(rng, e, 1+rng.Intn(12))
					if rng.Bool() {
						text = "q" + text
					}
					if e.Kind == 3 && rep%5 == 0 {
						// UTF-16BE is the one registered set that is not a superset of ASCII: plain ASCII text
						text = fromAlphabet(rng, "abcdefghijklmnopqrstuvwxyz ,.!?0123456789", 1+rng.Intn(20))
						r.Tally("utf16be_ascii_only_texts")
					}
					if !c15Hinted(r, e, name, text, "multi-byte") {
						return
					}
					r.Nontrivial(e.Name + "|" + text)
					if e.Name == "GB18030" {
						if b, _ := e.csEncode(text); len(b) > 2*len([]rune(text)) {
							r.Tally("gb18030_four_byte_texts")
						}
					}
				}
				if k == 0 {
					r.Sample(map[string]interface{}{"kind": "multi-byte", "charset": e.Name, "example": csRandomText(rng, e, 6)})
				}
			})
		}
	}
	// legacy double-byte sets: every two-byte code the codec round-trips, 24 per symbol, in byte
	// mode (a Latin letter in front) and - Shift_JIS - alone, which selects Kanji mode when all
	// characters lie in the two Kanji blocks
	for i := range csTable {
		e := &csTable[i]
		if e.Kind != 1 {
			continue
		}
		for lead := 0x81; lead <= 0xFE; lead++ {
			e, lead := e, lead
			if c.Quick() && e.Name != "Shift_JIS" && lead%4 != 0 {
				continue
			}
			c.Run(fmt.Sprintf("dbcs/%s/%02x", e.Name, lead), func(r *fw.Rec) {
				var rs []rune
				for trail := 0x40; trail <= 0xFE; trail++ {
					u, err := e.Enc.NewDecoder().Bytes([]byte{byte(lead), byte(trail)})
					if err != nil {
						continue
					}
					rr := []rune(string(u))
					if len(rr) != 1 || rr[0] == 0xFFFD {
						continue
					}
					if back, ok := e.csEncode(string(rr)); !ok || len(back) != 2 || back[0] != byte(lead) || back[1] != byte(trail) {
						continue
					}
					rs = append(rs, rr[0])
				}
				for off := 0; off < len(rs); off += 24 {
					end := off + 24
					if end > len(rs) {
						end = len(rs)
					}
					chunk := string(rs[off:end])
					if !c15Hinted(r, e, e.Name, "k"+chunk, "double-byte-sweep") {
						return
					}
					if e.Name == "Shift_JIS" {
						if !c15Hinted(r, e, e.Name, chunk, "double-byte-sweep-kanji") {
							return
						}
					}
					r.TallyN("double_byte_codes_covered_"+e.Name, int64(end-off))
				}
				if len(rs) > 0 {
					r.Nontrivial(fmt.Sprintf("dbcs/%s/%02x", e.Name, lead))
				}
			})
		}
	}
	if c.Quick() {
		c.Exhaustive("every two-byte Shift_JIS code that round-trips through the codec, in byte mode and in Kanji mode")
	} else {
		c.Exhaustive("every two-byte code of Shift_JIS, Big5, GB18030 (two-byte area) and EUC-KR that round-trips through the codec; Shift_JIS in byte mode and in Kanji mode")
	}
	// hinted byte text that fills a version exactly (the ECI header takes 12 bits of it), and one
	// to three bytes less: representable text that fits must be written
	for v := 1; v <= 40; v++ {
		v := v
		c.Run(fmt.Sprintf("hinted-capacity/%d", v), func(r *fw.Rec) {
			rng := r.Rng
			capH := qrref.CapacityWithHeader(v, qrref.M, qrref.Byte, 12)
			for _, n := range []int{capH, capH - 1, capH - 2, capH - 3, capH + 1, capH + 2, capH + 3} {
				if n < 2 {
					continue
				}
				e := &csTable[rng.Intn(len(csTable))]
				if e.Kind != 0 {
					e = &csTable[1]
				}
				rep := csRepertoire(e)
				rs := []rune{rune('a' + rng.Intn(26))}
				for len(rs) < n {
					rs = append(rs, rep[rng.Intn(len(rep))])
				}
				if !c15Hinted(r, e, e.Name, string(rs), "hinted-capacity") {
					return
				}
				r.Tally("hinted_texts_at_version_capacity")
			}
			r.Nontrivial(fmt.Sprintf("hinted-capacity/%d", v))
		})
	}
	// not representable -> refused
	c.Run("refuse", func(r *fw.Rec) {
		for i := range csTable {
			e := &csTable[i]
			if e.Kind == 2 || e.Kind == 3 {
				continue // Unicode encodings represent everything
			}
			for _, bad := range []string{"a中z", "a\U0001F600", "xЖé中가あก"} {
				// charge only texts whose encoding fails outright in the codec
				if e.Kind != 4 {
					if _, err := e.Enc.NewEncoder().Bytes([]byte(bad)); err == nil {
						r.Tally("refuse_skipped_codec_accepts")
						continue
					}
				}
				names := append([]string{e.Name}, e.Aliases...)
				for _, name := range names {
					hints := map[gozxing.EncodeHintType]interface{}{gozxing.EncodeHintType_CHARACTER_SET: name}
					img, err := instQRWriter().Encode(bad, gozxing.BarcodeFormat_QR_CODE, 0, 0, hints)
					r.Evals(1)
					if err == nil {
						detail := fmt.Sprintf("writer accepted %q under CHARACTER_SET=%s although %s cannot represent it", bad, name, e.Name)
						if img != nil {
							bmp, _ := gozxing.NewBinaryBitmapFromImage(img)
							if res, derr := instQRReader().Decode(bmp, map[gozxing.DecodeHintType]interface{}{gozxing.DecodeHintType_PURE_BARCODE: true}); derr == nil {
								detail += fmt.Sprintf("; the symbol reads back as %q", res.GetText())
							}
						}
						r.Violation("model-mismatch", "qr.charset:accepted-unrepresentable-text", detail, map[string]interface{}{"charset": name, "text": bad})
						return
					}
					r.Tally("unrepresentable_refused")
				}
			}
		}
		r.Nontrivial("refuse")
	})
	// unhinted UTF-8, adversarial statistics
	nu := c.Pick(1500, 20000)
	for k := 0; k < nu; k++ {
		k := k
		c.Run(fmt.Sprintf("utf8/%d", k), func(r *fw.Rec) {
			rng := r.Rng
			caseHints := map[gozxing.DecodeHintType]interface{}{gozxing.DecodeHintType_PURE_BARCODE: true}
			for rep := 0; rep < 10; rep++ {
				var sb strings.Builder
				n := 1 + rng.Intn(40)
				kind := rng.Intn(11)
				if kind == 7 {
					// long payloads: an ASCII prefix whose length straddles round numbers of bytes
					// (a decoder that inspects only a prefix of the segment must still see what follows),
					// then multi-byte text; occasionally a multi-byte character across the boundary
					pre := []int{500, 1000, 1020, 1023, 1024, 1025, 2040, 2047, 2048, 2049}[rng.Intn(10)] + rng.Intn(3) - 1
					for i := 0; i < pre; i++ {
						sb.WriteByte(byte(0x20 + rng.Intn(0x5F)))
					}
					n = 3 + rng.Intn(20)
				}
				for i := 0; i < n; i++ {
					switch kind {
					case 0: // half-width katakana look-alikes: U+FF61..U+FF9F encode as EF BD A1..EF BE 9F
						sb.WriteRune(rune(0xFF61 + rng.Intn(0x3F)))
					case 1: // many continuation bytes in 0xA0..0xBF
						sb.WriteRune(rune(0x0800 + 0x20*rng.Intn(0x40) + 0x20 + rng.Intn(0x20)))
					case 2: // Latin-1 supplement: C2/C3 lead bytes look like ISO-8859-1 text
						sb.WriteRune(rune(0xA0 + rng.Intn(0x60)))
					case 3: // ASCII with one multi-byte char
						if i == n/2 {
							sb.WriteRune(rune(0x3041 + rng.Intn(80)))
						} else {
							sb.WriteByte(byte(0x20 + rng.Intn(0x5F)))
						}
					case 4: // astral
						sb.WriteRune(rune(0x1F300 + rng.Intn(0x300)))
					case 5: // leading BOM character then text
						if i == 0 {
							sb.WriteRune(0xFEFF)
						} else {
							sb.WriteRune(rune(0x400 + rng.Intn(0x100)))
						}
					case 7:
						sb.WriteRune([]rune{0xE9, 0x3042, 0x4E2D, 0x1F600, 0x439}[rng.Intn(5)])
					case 10: // code points at the edges of the UTF-8 length classes and the "special" ones: the
						// replacement character, the last BMP code points, the byte-order mark inside the text,
						// the first and last astral code points - all of them ordinary scalar values in a string
						sb.WriteRune([]rune{0xFFFD, 0xFFFD, 0x80, 0x7FF, 0x800, 0xD7FF, 0xE000, 0xFFFE, 0xFFFF, 0xFEFF, 0x10000, 0x10FFFF, 0x4E2D, 'a'}[rng.Intn(14)])
					case 9: // plain ASCII in byte mode (a lower-case letter): whatever is guessed for it must not outlive the call
						sb.WriteByte(byte('a' + rng.Intn(26)))
					case 8: // only four-byte characters, every continuation byte in 0xA0..0xBF (plane 2), between ASCII
						if i%3 == 1 {
							sb.WriteByte(byte(0x20 + rng.Intn(0x5F)))
						} else {
							sb.WriteRune(rune(0x20000 + rng.Intn(0x10)<<12 + (0x20+rng.Intn(0x20))<<6 + 0x20 + rng.Intn(0x20)))
						}
					default: // CJK
						sb.WriteRune(rune(0x4E00 + rng.Intn(0x5000)))
					}
				}
				text := sb.String()
				// pure digits/45-set cannot occur (all classes contain multi-byte characters)
				img, err := instQRWriter().Encode(text, gozxing.BarcodeFormat_QR_CODE, 0, 0, nil)
				r.Evals(1)
				info := map[string]interface{}{"text": text, "class": fmt.Sprintf("utf8-kind-%d", kind)}
				if err != nil {
					r.Violation("roundtrip", "qr.utf8-nohint:refused", fmt.Sprintf("unhinted UTF-8 text refused: %v", err), info)
					return
				}
				bmp, _ := gozxing.NewBinaryBitmapFromImage(img)
				// one decode-hint map for the whole case (an application's settings object): it says
				// nothing about the character set, and it must still say nothing after every read
				res, derr := instQRReader().Decode(bmp, caseHints)
				if len(caseHints) != 1 {
					r.Violation("roundtrip", "qr.utf8-nohint:decode-hint-map-changed", fmt.Sprintf("after reading an unhinted symbol the caller's decode-hint map is %v (it held PURE_BARCODE only)", caseHints), info)
					return
				}
				if derr != nil {
					r.Violation("roundtrip", "qr.utf8-nohint:decode-error", fmt.Sprintf("unhinted UTF-8 symbol rejected: %v", derr), info)
					return
				}
				if res.GetText() != text {
					r.Violation("roundtrip", fmt.Sprintf("qr.utf8-nohint:other-text:kind-%d", kind), fmt.Sprintf("unhinted UTF-8 %q read back as %q", trunc(text, 60), trunc(res.GetText(), 60)), info)
					return
				}
				r.Tally(fmt.Sprintf("utf8_nohint_kind_%d", kind))
				r.Nontrivial("utf8|" + text)
			}
		})
	}
	// ECI numbers through the parser
	_, libByName := common.VerifECIRegistry()
	_ = libByName
	libVals, _ := common.VerifECIRegistry()
	libRegistered := map[int]bool{}
	for v := range libVals {
		libRegistered[v] = true
	}
	if c.Quick() {
		for lo := 0; lo < 1024; lo += 64 {
			lo := lo
			c.Run(fmt.Sprintf("eci/low/%d", lo), func(r *fw.Rec) {
				for v := lo; v < lo+64; v++ {
					if !c15ECINumber(r, v, libRegistered) {
						return
					}
					r.NontrivialH(0xEC1<<40 | uint64(v))
				}
			})
		}
		for k := 0; k < 40; k++ {
			c.Run(fmt.Sprintf("eci/sample/%d", k), func(r *fw.Rec) {
				for i := 0; i < 100; i++ {
					v := 1024 + r.Rng.Intn(999999-1024+1)
					if i%10 == 0 {
						v = []int{16383, 16384, 899, 900, 999999, 127, 128, 1023, 65535, 65536}[i/10]
					}
					if !c15ECINumber(r, v, libRegistered) {
						return
					}
					r.NontrivialH(0xEC1<<40 | uint64(v))
				}
			})
		}
		c.Exhaustive("ECI numbers 0..1023 in every designator form")
	} else {
		for lo := 0; lo < 1000000; lo += 5000 {
			lo := lo
			c.Run(fmt.Sprintf("eci/all/%d", lo), func(r *fw.Rec) {
				for v := lo; v < lo+5000; v++ {
					if !c15ECINumber(r, v, libRegistered) {
						return
					}
					r.NontrivialH(0xEC1<<40 | uint64(v))
				}
			})
		}
		c.Exhaustive("ECI numbers 0..999999 in every designator form")
	}
	// designators whose first byte fits none of the three forms (111xxxxx): not an ECI number at all
	c.Run("eci-invalid-lead-byte", func(r *fw.Rec) {
		for lead := 0xE0; lead <= 0xFF; lead++ {
			for _, v := range []int{3, 9, 20, 26, 899, 0} {
				var w bitw
				w.put(0x7, 4)
				w.put(lead, 8)
				w.put(v>>8, 8)
				w.put(v&0xFF, 8)
				w.put(0x4, 4)
				w.put(2, 8)
				w.put('A', 8)
				w.put('z', 8)
				w.put(0, 4)
				res, err := qrdec.DecodedBitStreamParser_Decode(w.b, v1, qrdec.ErrorCorrectionLevel_L, nil)
				r.Evals(1)
				if err == nil {
					r.Violation("model-mismatch", "qr.parser:eci-invalid-lead-byte-accepted", fmt.Sprintf("ECI designator starting with byte %#02x (none of the forms 0xxxxxxx, 10xxxxxx, 110xxxxx) followed by %02x %02x was accepted; text %q", lead, v>>8, v&0xFF, res.GetText()), map[string]interface{}{"lead_byte": lead, "low_bits_value": v})
					return
				}
				if _, isFmt := err.(gozxing.FormatException); !isFmt {
					r.Violation("model-mismatch", "qr.parser:eci-invalid-lead-byte-error-kind", fmt.Sprintf("ECI designator starting with byte %#02x: error %T %v is not a format error", lead, err, err), map[string]interface{}{"lead_byte": lead})
					return
				}
				r.Tally("eci_invalid_lead_bytes_refused")
			}
		}
		r.Nontrivial("eci-invalid-lead-byte")
	})
	c.Floor("eci_invalid_lead_bytes_refused", 192)
	// one designator, several byte segments: a designator stays in effect until the next one
	// (other segments in between do not end it)
	c.Run("eci-several-segments", func(r *fw.Rec) {
		v5, _ := qrdec.Version_GetVersionForNumber(5)
		for i := range csTable {
			e := &csTable[i]
			payload, want := c15Payload(e)
			if len(e.Values) == 0 {
				continue
			}
			for _, between := range []string{"", "A1", "42"} {
				var w bitw
				w.put(0x7, 4)
				w.put(e.Values[0], 8)
				w.put(0x4, 4)
				w.put(len(payload), 8)
				for _, b := range payload {
					w.put(int(b), 8)
				}
				switch between {
				case "A1":
					w.put(0x2, 4)
					w.put(2, 9)
					w.put(10*45+1, 11)
				case "42":
					w.put(0x1, 4)
					w.put(2, 10)
					w.put(42, 7)
				}
				w.put(0x4, 4)
				w.put(len(payload), 8)
				for _, b := range payload {
					w.put(int(b), 8)
				}
				w.put(0, 4)
				res, err := qrdec.DecodedBitStreamParser_Decode(w.b, v5, qrdec.ErrorCorrectionLevel_L, nil)
				r.Evals(1)
				info := map[string]interface{}{"charset": e.Name, "eci": e.Values[0], "bytes": fmt.Sprintf("%x", payload), "segment_between": between}
				if err != nil {
					r.Violation("model-mismatch", "qr.parser:eci-several-segments-rejected", fmt.Sprintf("ECI %d, byte segment, %q, byte segment: rejected: %v", e.Values[0], between, err), info)
					return
				}
				if res.GetText() != want+between+want {
					r.Violation("model-mismatch", "qr.parser:eci-not-in-effect-for-later-segment", fmt.Sprintf("ECI %d (%s) followed by two byte segments %x (with %q between) decoded as %q, expected %q", e.Values[0], e.Name, payload, between, res.GetText(), want+between+want), info)
					return
				}
				r.Tally("eci_in_effect_for_later_byte_segments")
			}
		}
		r.Nontrivial("eci-several-segments")
	})
	c.Floor("eci_in_effect_for_later_byte_segments", 60)
	// decode-side hint on an undesignated byte segment
	c.Run("decode-hint", func(r *fw.Rec) {
		for i := range csTable {
			e := &csTable[i]
			payload, want := c15Payload(e)
			for _, name := range append([]string{e.Name}, e.Aliases...) {
				var w bitw
				w.put(0x4, 4)
				w.put(len(payload), 8)
				for _, b := range payload {
					w.put(int(b), 8)
				}
				w.put(0, 4)
				hints := map[gozxing.DecodeHintType]interface{}{gozxing.DecodeHintType_CHARACTER_SET: name}
				res, err := qrdec.DecodedBitStreamParser_Decode(w.b, v1, qrdec.ErrorCorrectionLevel_L, hints)
				r.Evals(1)
				info := map[string]interface{}{"charset": name, "bytes": fmt.Sprintf("%x", payload)}
				if err != nil {
					r.Violation("model-mismatch", "qr.parser:decode-hint-rejected", fmt.Sprintf("byte segment with CHARACTER_SET=%s hint rejected: %v", name, err), info)
					return
				}
				if res.GetText() != want {
					r.Violation("model-mismatch", "qr.parser:decode-hint-not-honoured", fmt.Sprintf("byte segment %x with CHARACTER_SET=%s decoded as %q, expected %q", payload, name, res.GetText(), want), info)
					return
				}
				// and a designator in the symbol wins over the hint
				r.Tally("decode_hint_honoured")
			}
			if e.Kind != 0 {
				continue
			}
			// single-byte sets: payloads that look like something else to a guesser (byte order
			// marks FE FF / FF FE, UTF-8 looking pairs, Shift_JIS looking pairs) and random bytes
			rep := csRepertoire(e)
			enc := func(bs []byte) (string, bool) {
				u, err := e.Enc.NewDecoder().Bytes(bs)
				if err != nil {
					return "", false
				}
				back, ok := e.csEncode(string(u))
				return string(u), ok && string(back) == string(bs)
			}
			var payloads [][]byte
			for _, pre := range [][]byte{{0xFE, 0xFF}, {0xFF, 0xFE}, {0xEF, 0xBB, 0xBF}, {0xC3, 0xA9}, {0x83, 0x41}, {0xE3, 0x81, 0x82}} {
				payloads = append(payloads, append(append([]byte{}, pre...), []byte("abc d")...))
				payloads = append(payloads, append(append([]byte{}, pre...), 0x41, 0xE9, 0xFE, 0xFF))
			}
			for k := 0; k < 40; k++ {
				n := 1 + r.Rng.Intn(24)
				bs := make([]byte, n)
				for i := range bs {
					b, _ := e.csEncode(string(rep[r.Rng.Intn(len(rep))]))
					bs[i] = b[0]
				}
				payloads = append(payloads, bs)
			}
			for _, bs := range payloads {
				want, ok := enc(bs)
				if !ok {
					continue
				}
				var w bitw
				w.put(0x4, 4)
				w.put(len(bs), 8)
				for _, b := range bs {
					w.put(int(b), 8)
				}
				w.put(0, 4)
				hints := map[gozxing.DecodeHintType]interface{}{gozxing.DecodeHintType_CHARACTER_SET: e.Name}
				res, err := qrdec.DecodedBitStreamParser_Decode(w.b, v1, qrdec.ErrorCorrectionLevel_L, hints)
				r.Evals(1)
				info := map[string]interface{}{"charset": e.Name, "bytes": fmt.Sprintf("%x", bs)}
				if err != nil {
					r.Violation("model-mismatch", "qr.parser:decode-hint-rejected", fmt.Sprintf("byte segment %x with CHARACTER_SET=%s hint rejected: %v", bs, e.Name, err), info)
					return
				}
				if res.GetText() != want {
					r.Violation("model-mismatch", "qr.parser:decode-hint-not-honoured", fmt.Sprintf("byte segment %x with CHARACTER_SET=%s decoded as %q, the character set gives %q", bs, e.Name, res.GetText(), want), info)
					return
				}
				r.Tally("decode_hint_honoured_adversarial_payloads")
			}
		}
		r.Nontrivial("decode-hint")
	})
	// the same through whole symbols, upright and mirrored (the decoder retries a symbol that
	// does not decode as its transpose): the hint must reach the byte segment on either path
	c.Run("decode-hint-symbols", func(r *fw.Rec) {
		rng := r.Rng
		for i := range csTable {
			e := &csTable[i]
			if e.Kind != 0 && e.Kind != 1 {
				continue
			}
			for rep := 0; rep < 6; rep++ {
				text := csRandomText(rng, e, 2+rng.Intn(10))
				bs, ok := e.csEncode(text)
				if !ok || len(bs) > 40 {
					continue
				}
				hasHigh := false
				for _, b := range bs {
					hasHigh = hasHigh || b >= 0x80
				}
				if !hasHigh {
					continue
				}
				v, l, mask := 3, qrAllLevels[rng.Intn(2)], rng.Intn(8)
				data, ok := qrref.DataCodewordsFor(v, l, []qrref.Segment{{Mode: qrref.Byte, Data: bs, ECI: -1}})
				if !ok {
					continue
				}
				up := qrref.BuildMatrix(v, l, mask, data)
				tr := make([][]bool, len(up))
				for y := range tr {
					tr[y] = make([]bool, len(up))
					for x := range tr[y] {
						tr[y][x] = up[x][y]
					}
				}
				var hv interface{} = e.Name
				if rng.Bool() {
					hv = e.Enc
				}
				hints := map[gozxing.DecodeHintType]interface{}{gozxing.DecodeHintType_CHARACTER_SET: hv}
				for oi, m := range [][][]bool{up, tr} {
					orient := []string{"upright", "mirrored"}[oi]
					res, err := qrdec.NewDecoder().Decode(boolsToBitMatrix(m), hints)
					r.Evals(1)
					info := map[string]interface{}{"charset": e.Name, "bytes": fmt.Sprintf("%x", bs), "orientation": orient, "hint_form": fmt.Sprintf("%T", hv)}
					if err != nil {
						r.Violation("model-mismatch", "qr.decoder:decode-hint-symbol-rejected:"+orient, fmt.Sprintf("%s symbol with an undesignated %s byte segment, CHARACTER_SET hint given: %v", orient, e.Name, err), info)
						return
					}
					if res.GetText() != text {
						r.Violation("model-mismatch", "qr.decoder:decode-hint-not-honoured:"+orient, fmt.Sprintf("%s symbol with the undesignated byte segment %x read under CHARACTER_SET=%s as %q, the character set gives %q", orient, bs, e.Name, res.GetText(), text), info)
						return
					}
					r.Tally("decode_hint_honoured_symbol_" + orient)
				}
			}
		}
		r.Nontrivial("decode-hint-symbols")
	})
	c.Floor("decode_hint_honoured_symbol_mirrored", 60)
	c.Floor("registry_values_checked", 20)
	c.Floor("registry_table_entries_confirmed", int64(len(csTable)))
	c.Floor("hinted_byte_mode_with_eci", 500)
	c.Floor("unrepresentable_refused", 20)
	c.Floor("eci_registered_decoded", 20)
	c.Floor("eci_as_second_designator_of_a_symbol", 1000)
	c.Floor("eci_unregistered_format_error", 1000)
	c.Floor("decode_hint_honoured", 30)
	c.Floor("decode_hint_honoured_adversarial_payloads", 400)
	c.Floor("utf8_nohint_kind_7", 100)
	c.Floor("utf8_nohint_kind_8", 100)
	c.Floor("utf8_nohint_kind_10", 100)
	c.Floor("utf16be_ascii_only_texts", 50)
	c.Floor("hinted_texts_at_version_capacity", 250)
	c.Floor("double_byte_codes_covered_Shift_JIS", 6000)
	c.Floor("double_byte_codes_covered_Big5", 3000)
	c.Floor("double_byte_codes_covered_GB18030", 5000)
	c.Floor("double_byte_codes_covered_EUC-KR", 1500)
	c.Floor("designated_symbols_read_with_other_decode_hint", 2000)
	c.Floor("gb18030_four_byte_texts", 100)
	c.Floor("single_byte_code_points_covered", 3000)
}
