//go:build verif

package main

import (
	"fmt"

	"github.com/makiuchi-d/gozxing/oned"
	"verifharness/ref/onedref"
)

func runs(p []bool) []int {
	var out []int
	for i := 0; i < len(p); {
		j := i
		for j < len(p) && p[j] == p[i] {
			j++
		}
		out = append(out, j-i)
		i = j
	}
	return out
}

func main() {
	for _, s := range []string{"01001423", "16000478", "16003007"} {
		p := onedref.UPCEPattern(s)
		fmt.Println("symbol", s, onedref.PatternString(p))
		rev := make([]bool, len(p))
		for i := range p {
			rev[i] = p[len(p)-1-i]
		}
		fmt.Println("reversed   ", onedref.PatternString(rev))
		r := runs(rev)
		fmt.Println("runs (bar first):", r)
		// reader: start guard = runs 0..2, digit k = runs 3+4k..7+4k, end = runs 27..33
		fmt.Println(" start guard", r[0:3])
		for k := 0; k < 6; k++ {
			win := r[3+4*k : 7+4*k]
			tot := 0
			for _, v := range win {
				tot += v
			}
			best, bi := 9.9, -1
			for i, pat := range oned.UPCEANReader_L_AND_G_PATTERNS {
				sc := make([]int, 4)
				for j := range win {
					sc[j] = win[j] * 3
				}
				v := oned.PatternMatchVariance(sc, pat, oned.UPCEANReader_MAX_INDIVIDUAL_VARIANCE)
				if v < best {
					best, bi = v, i
				}
			}
			fmt.Printf(" digit %d window %v total %d modules -> best %d (set %s) variance %.3f (limit 0.48), matched pattern %v\n", k, win, tot, bi%10, map[bool]string{false: "L", true: "G"}[bi >= 10], best, oned.UPCEANReader_L_AND_G_PATTERNS[bi])
		}
		end := r[27:33]
		sc := make([]int, 6)
		for j := range end {
			sc[j] = end[j] * 3
		}
		fmt.Printf(" end guard window %v variance %.3f vs {1,1,1,1,1,1}\n", end, oned.PatternMatchVariance(sc, oned.UPCEANReader_END_PATTERN, 0.7))
	}
}
