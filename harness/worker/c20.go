//go:build verif

package main

import (
	"fmt"
	"math"
	"math/big"

	"github.com/makiuchi-d/gozxing/oned"

	"verifharness/fw"
)

// C20: RecordPattern / RecordPatternInReverse against a run-length model on
// []bool, PatternMatchVariance against the formula evaluated exactly.

func init() {
	fw.Register("C20", c20)
	fw.RegisterSelfTest("c20-variance-formula", c20SelfTest)
}

// runsFrom returns the lengths of the successive same-colour runs of row[start:].
func runsFrom(row []bool, start int) []int {
	var out []int
	for i := start; i < len(row); {
		j := i
		for j < len(row) && row[j] == row[i] {
			j++
		}
		out = append(out, j-i)
		i = j
	}
	return out
}

func genRow(rng *fw.Rand, n int) []bool {
	row := make([]bool, n)
	kind := rng.Intn(6)
	switch kind {
	case 0: // all white
	case 1: // all black
		for i := range row {
			row[i] = true
		}
	case 2: // pixel noise
		for i := range row {
			row[i] = rng.Bool()
		}
	default: // run structure, run lengths 1..maxRun
		maxRun := []int{2, 4, 9, 40}[rng.Intn(4)]
		col := rng.Bool()
		for i := 0; i < n; {
			l := 1 + rng.Intn(maxRun)
			for j := 0; j < l && i < n; j++ {
				row[i] = col
				i++
			}
			col = !col
		}
	}
	return row
}

func c20Record(r *fw.Rec, n int) {
	rng := r.Rng
	rowM := genRow(rng, n)
	row := rowFromBools(rowM)
	data := func(start, nc int) map[string]interface{} {
		return map[string]interface{}{"row": boolsToStr(rowM), "start": start, "counters": nc}
	}
	for nc := 1; nc <= 10; nc++ {
		// forward: every start 0..n (n itself: row ended)
		for start := 0; start <= n; start++ {
			counters := make([]int, nc)
			for i := range counters {
				counters[i] = 99 // stale content must be overwritten
			}
			err := oned.RecordPattern(row, start, counters)
			runs := runsFrom(rowM, start)
			r.Evals(1)
			if len(runs) >= nc {
				if err != nil {
					r.Violation("model-mismatch", "RecordPattern:error-though-runs-exist", fmt.Sprintf("RecordPattern(start=%d, %d counters) = %v, model runs %v", start, nc, err, runs[:nc]), data(start, nc))
					return
				}
				if !intsEq(counters, runs[:nc]) {
					r.Violation("model-mismatch", "RecordPattern:wrong-runs", fmt.Sprintf("RecordPattern(start=%d, %d counters) = %v, model %v", start, nc, counters, runs[:nc]), data(start, nc))
					return
				}
				r.Tally("forward_runs_returned")
			} else {
				if err == nil {
					r.Violation("model-mismatch", "RecordPattern:no-error-though-row-ended", fmt.Sprintf("RecordPattern(start=%d, %d counters) = %v nil error, but only %d runs exist", start, nc, counters, len(runs)), data(start, nc))
					return
				}
				if !isNotFound(err) {
					r.Violation("model-mismatch", "RecordPattern:error-kind", fmt.Sprintf("RecordPattern row-ended error is %T, not NotFoundException", err), data(start, nc))
					return
				}
				r.Tally("forward_row_ended")
			}
		}
		// reverse: every start 0..n-1
		for start := 0; start < n; start++ {
			counters := make([]int, nc)
			err := oned.RecordPatternInReverse(row, start, counters)
			r.Evals(1)
			// runs strictly left of the run containing start, nearest first
			i := start
			for i > 0 && rowM[i-1] == rowM[start] {
				i--
			}
			var left []int // R1, R2, ...
			for i > 0 {
				j := i
				for j > 0 && rowM[j-1] == rowM[i-1] {
					j--
				}
				left = append(left, i-j)
				i = j
			}
			switch {
			case len(left) >= nc+1:
				want := make([]int, nc)
				for k := 0; k < nc; k++ {
					want[k] = left[nc-1-k]
				}
				if err != nil || !intsEq(counters, want) {
					r.Violation("model-mismatch", "RecordPatternInReverse:wrong-runs", fmt.Sprintf("RecordPatternInReverse(start=%d, %d counters) = %v, %v; model %v", start, nc, counters, err, want), data(start, nc))
					return
				}
				r.Tally("reverse_runs_returned")
			case len(left) == nc:
				// the runs exist but begin at index 0: either answer accepted (DESIGN C20 don't-care),
				// but a returned answer must be the runs
				if err == nil {
					want := make([]int, nc)
					for k := 0; k < nc; k++ {
						want[k] = left[nc-1-k]
					}
					if !intsEq(counters, want) {
						r.Violation("model-mismatch", "RecordPatternInReverse:wrong-runs", fmt.Sprintf("RecordPatternInReverse(start=%d, %d counters) = %v; model %v", start, nc, counters, want), data(start, nc))
						return
					}
				}
				r.Tally("reverse_dont_care_runs_begin_at_0")
			default:
				if err == nil {
					r.Violation("model-mismatch", "RecordPatternInReverse:no-error-though-row-ended", fmt.Sprintf("RecordPatternInReverse(start=%d, %d counters) = %v nil error, only %d runs to the left", start, nc, counters, len(left)), data(start, nc))
					return
				}
				if !isNotFound(err) {
					r.Violation("model-mismatch", "RecordPatternInReverse:error-kind", fmt.Sprintf("error is %T, not NotFoundException", err), data(start, nc))
					return
				}
				r.Tally("reverse_row_ended")
			}
		}
	}
	r.Nontrivial("row/" + boolsToStr(rowM))
}

// refVariance evaluates the contract exactly in integers scaled by the
// pattern length: dev_i = |c_i*plen - p_i*total| (= plen * |c_i - p_i*unit|).
// It returns the score, whether the result is +Inf, and whether some
// comparison is too close to the limit for a float implementation to be
// charged (relative 1e-9).
func refVariance(c, p []int, maxInd float64) (score float64, inf bool, borderline bool) {
	total, plen := 0, 0
	for i := range c {
		total += c[i]
		plen += p[i]
	}
	if total < plen {
		return math.Inf(1), true, false
	}
	limit := maxInd * float64(total) // scaled by plen like dev_i
	// When the unit width total/plen is an integer and the limit is a dyadic fraction, every
	// quantity of the float computation is exact, so an exact tie is not a rounding question:
	// "deviates by MORE than the allowed variance" is false for it and the score is finite.
	exact := total%plen == 0 && maxInd*8 == math.Trunc(maxInd*8)
	sum := 0
	for i := range c {
		d := c[i]*plen - p[i]*total
		if d < 0 {
			d = -d
		}
		diff := float64(d) - limit
		if math.IsInf(limit, 1) {
			// no individual limit at all
		} else if exact && diff == 0 {
			// tie, exactly representable: within the allowed variance
		} else if math.Abs(diff) <= 1e-9*math.Max(1, limit) {
			borderline = true
		} else if diff > 0 {
			inf = true
		}
		sum += d
	}
	if inf {
		return math.Inf(1), true, borderline
	}
	return float64(sum) / (float64(plen) * float64(total)), false, borderline
}

// ratVariance is the same contract in big.Rat, used to check refVariance.
func ratVariance(c, p []int, maxInd float64) (*big.Rat, bool) {
	total, plen := 0, 0
	for i := range c {
		total += c[i]
		plen += p[i]
	}
	if total < plen {
		return nil, true
	}
	unit := big.NewRat(int64(total), int64(plen))
	lim := new(big.Rat).SetFloat64(maxInd)
	lim.Mul(lim, unit)
	sum := new(big.Rat)
	for i := range c {
		v := new(big.Rat).Mul(big.NewRat(int64(p[i]), 1), unit)
		v.Sub(big.NewRat(int64(c[i]), 1), v)
		v.Abs(v)
		if v.Cmp(lim) > 0 {
			return nil, true
		}
		sum.Add(sum, v)
	}
	return sum.Quo(sum, big.NewRat(int64(total), 1)), false
}

func c20SelfTest() error {
	rng := fw.NewRand(12345)
	for k := 0; k < 3000; k++ {
		n := 1 + rng.Intn(8)
		c, p := make([]int, n), make([]int, n)
		for i := range c {
			c[i] = rng.Intn(30)
			p[i] = 1 + rng.Intn(4)
		}
		lim := []float64{0.2, 0.45, 0.5, 0.7, 0.8}[rng.Intn(5)]
		s, inf, border := refVariance(c, p, lim)
		rs, rinf := ratVariance(c, p, lim)
		if border {
			continue
		}
		if inf != rinf {
			return fmt.Errorf("refVariance/ratVariance disagree on Inf for %v %v %v", c, p, lim)
		}
		if !inf {
			f, _ := rs.Float64()
			if math.Abs(f-s) > 1e-12 {
				return fmt.Errorf("refVariance/ratVariance disagree: %v vs %v for %v %v", s, f, c, p)
			}
		}
	}
	// published-style anchors: exact multiple scores zero
	if s, inf, _ := refVariance([]int{6, 3, 3, 9}, []int{2, 1, 1, 3}, 0.7); inf || s != 0 {
		return fmt.Errorf("exact multiple does not score 0")
	}
	return nil
}

var c20Limits = []float64{0.2, 0.45, 0.5, 0.7, 0.8, 0.25, 0, 1.0, 1.5, 2.0, 3.25, 10, 1e300, math.MaxFloat64, math.Inf(1)}

// typical patterns of the symbologies (module widths), typed from the standards
var c20Patterns = map[int][][]int{
	3: {{1, 1, 1}, {1, 1, 2}, {2, 1, 1}, {1, 2, 3}},
	4: {{3, 2, 1, 1}, {2, 2, 2, 1}, {2, 1, 2, 2}, {1, 4, 1, 1}, {1, 1, 3, 2}, {1, 2, 3, 1}, {1, 1, 1, 4}, {1, 3, 1, 2}, {1, 2, 1, 3}, {3, 1, 1, 2}, {1, 1, 1, 1}, {1, 0 + 1, 1, 2}},
	5: {{1, 1, 1, 1, 1}, {1, 1, 2, 2, 1}, {2, 1, 1, 1, 2}, {1, 2, 1, 1, 2}, {1, 1, 3, 3, 1}, {3, 1, 1, 1, 3}, {1, 3, 1, 1, 3}},
	6: {{2, 1, 2, 2, 2, 2}, {2, 2, 2, 1, 2, 2}, {1, 1, 1, 1, 1, 1}, {2, 1, 1, 4, 1, 2}, {2, 1, 1, 2, 1, 4}, {2, 1, 1, 2, 3, 2}, {4, 1, 1, 1, 3, 1}, {1, 1, 4, 1, 1, 3}},
}

// c20PatBuf: one pattern buffer of the caller, refilled for every call (a score depends on the
// VALUES of counters and pattern handed to this call, not on the storage they sit in).
var c20PatBuf = make([]int, 32)

func c20CheckOne(r *fw.Rec, c, p []int, lim float64) bool {
	got := oned.PatternMatchVariance(c, p, lim)
	if len(p) <= len(c20PatBuf) && r.Rng.Intn(3) == 0 {
		copy(c20PatBuf, p)
		again := oned.PatternMatchVariance(c, c20PatBuf[:len(p)], lim)
		if again != got && !(math.IsNaN(again) && math.IsNaN(got)) {
			r.Violation("model-mismatch", "PatternMatchVariance:depends-on-pattern-storage", fmt.Sprintf("PatternMatchVariance(%v, %v, %v) = %v, the same pattern values in a buffer used for other patterns before give %v", c, p, lim, got, again), map[string]interface{}{"counters": c, "pattern": p, "limit": fmt.Sprint(lim)})
			return false
		}
		r.Tally("variance_calls_with_a_reused_pattern_buffer")
	}
	want, inf, border := refVariance(c, p, lim)
	r.Evals(1)
	if border {
		r.Tally("variance_borderline_skipped")
		return true
	}
	ok := false
	if inf {
		ok = math.IsInf(got, 1)
		r.Tally("variance_inf_cases")
	} else {
		ok = !math.IsInf(got, 0) && !math.IsNaN(got) && math.Abs(got-want) <= 1e-9
		if want == 0 {
			r.Tally("variance_zero_cases")
		} else {
			r.Tally("variance_finite_cases")
		}
	}
	if !ok {
		kind := "finite-score"
		if inf {
			kind = "inf-expected"
			total, plen := 0, 0
			for i := range c {
				total += c[i]
				plen += p[i]
			}
			if total < plen {
				kind = "inf-expected-fewer-pixels-than-modules"
			}
		}
		r.Violation("model-mismatch", "PatternMatchVariance:"+kind, fmt.Sprintf("PatternMatchVariance(%v, %v, %v) = %v, exact formula %v", c, p, lim, got, want),
			map[string]interface{}{"counters": c, "pattern": p, "max_individual_variance": lim})
		return false
	}
	return true
}

func c20(c *fw.Ctx) {
	c.Rule("RecordPattern/RecordPatternInReverse: seeded random rows of every length 0..300 (all-white, all-black, pixel noise, run structures with max run 2/4/9/40), every start offset, counter lengths 1..10, compared with a run-length model on []bool; PatternMatchVariance: all counter vectors with entries 0..6 for lengths 3..6 (exhaustive) x typical symbology patterns x 15 variance limits (0, 0.2 .. 0.8 as the readers use, 1.0 .. 10 where an empty run can still be within the limit, and 1e300 / MaxFloat64 / +Inf = no individual limit), random vectors with entries up to 40, scale factors 2..9, compared with the contract evaluated exactly (integer arithmetic, cross-checked against big.Rat in the self-test); distinct = distinct rows + distinct (counters, pattern, limit)")
	c.Assume("DESIGN C20 don't-care regions: reverse recording when the runs begin exactly at index 0; comparisons within 1e-9 relative of the individual-variance limit (except exact ties with an integer unit width and a dyadic limit, where the float computation is exact and the tie counts as within the limit)")
	rowsPer := c.Pick(10, 400)
	for n := 0; n <= 300; n++ {
		for k := 0; k < rowsPer; k++ {
			n := n
			c.Run(fmt.Sprintf("row/%d/%d", n, k), func(r *fw.Rec) {
				c20Record(r, n)
				if n == 24 && k == 0 {
					r.Sample(map[string]interface{}{"kind": "row", "length": n, "starts": "0..n forward, 0..n-1 reverse", "counter_lengths": "1..10"})
				}
			})
		}
	}
	// exhaustive small counter vectors
	maxEntry := c.Pick(6, 8)
	for length := 3; length <= 6; length++ {
		pats := c20Patterns[length]
		for pi, p := range pats {
			// chunk by first entry
			for first := 0; first <= maxEntry; first++ {
				length, p, first := length, p, first
				c.Run(fmt.Sprintf("pmv/exh/%d/%d/%d", length, pi, first), func(r *fw.Rec) {
					cvec := make([]int, length)
					cvec[0] = first
					var rec func(i int) bool
					rec = func(i int) bool {
						if i == length {
							for _, lim := range c20Limits {
								if !c20CheckOne(r, cvec, p, lim) {
									return false
								}
							}
							r.NontrivialH(hashInts(cvec, p))
							return true
						}
						for v := 0; v <= maxEntry; v++ {
							cvec[i] = v
							if !rec(i + 1) {
								return false
							}
						}
						return true
					}
					rec(1)
					if first == 2 && pi == 0 && length == 4 {
						r.Sample(map[string]interface{}{"kind": "exhaustive counters", "length": length, "pattern": p, "first_entry": first, "limits": fmt.Sprint(c20Limits)})
					}
				})
			}
		}
	}
	c.Exhaustive(fmt.Sprintf("PatternMatchVariance counter vectors with entries 0..%d, lengths 3..6, for the listed patterns and limits", maxEntry))
	// random vectors, larger entries, random patterns, scale invariance
	nrand := c.Pick(4000, 500000)
	for k := 0; k < nrand; k++ {
		c.Run(fmt.Sprintf("pmv/rand/%d", k), func(r *fw.Rec) {
			rng := r.Rng
			for rep := 0; rep < 50; rep++ {
				n := 1 + rng.Intn(10)
				p := make([]int, n)
				cv := make([]int, n)
				for i := range p {
					p[i] = 1 + rng.Intn(4)
				}
				mode := rng.Intn(4)
				scale := 1 + rng.Intn(9)
				for i := range cv {
					switch mode {
					case 0:
						cv[i] = rng.Intn(41)
					case 1: // exact multiple
						cv[i] = p[i] * scale
					case 2: // near multiple
						cv[i] = p[i]*scale + rng.Intn(3) - 1
						if cv[i] < 0 {
							cv[i] = 0
						}
					case 3: // one outlier
						cv[i] = p[i] * scale
					}
				}
				if mode == 3 {
					cv[rng.Intn(n)] += rng.Intn(2*scale + 2)
				}
				lim := c20Limits[rng.Intn(len(c20Limits))]
				if !c20CheckOne(r, cv, p, lim) {
					return
				}
				if mode == 1 {
					if got := oned.PatternMatchVariance(cv, p, lim); got != 0 {
						r.Violation("model-mismatch", "PatternMatchVariance:exact-multiple-nonzero", fmt.Sprintf("exact multiple %v of %v scores %v", cv, p, got), map[string]interface{}{"counters": cv, "pattern": p})
						return
					}
				}
				// only the first len(counters) entries of a longer pattern take part (the Code 128
				// stop pattern has seven entries and is matched against six runs)
				if rng.Intn(3) == 0 {
					long := append(append([]int{}, p...), 1+rng.Intn(4))
					if rng.Bool() {
						long = append(long, 1+rng.Intn(4))
					}
					a, b := oned.PatternMatchVariance(cv, p, lim), oned.PatternMatchVariance(cv, long, lim)
					r.Evals(1)
					if !((math.IsInf(a, 1) && math.IsInf(b, 1)) || a == b) {
						r.Violation("model-mismatch", "PatternMatchVariance:pattern-longer-than-counters", fmt.Sprintf("PatternMatchVariance(%v, %v, %v) = %v, but with the same pattern followed by further entries %v it is %v", cv, p, lim, a, long, b), map[string]interface{}{"counters": cv, "pattern": long, "limit": lim})
						return
					}
					r.Tally("pattern_longer_than_counters")
				}
				// scale invariance
				total, plen := 0, 0
				for i := range cv {
					total += cv[i]
					plen += p[i]
				}
				if total >= plen {
					base := oned.PatternMatchVariance(cv, p, lim)
					_, _, border := refVariance(cv, p, lim)
					for k := 2; k <= 9 && !border; k++ {
						sc := make([]int, n)
						for i := range cv {
							sc[i] = cv[i] * k
						}
						if !c20CheckOne(r, sc, p, lim) {
							return
						}
						got := oned.PatternMatchVariance(sc, p, lim)
						same := (math.IsInf(base, 1) && math.IsInf(got, 1)) || math.Abs(base-got) <= 1e-9
						if !same {
							r.Violation("model-mismatch", "PatternMatchVariance:scale-variance", fmt.Sprintf("score(%v)=%v but score(%d x)=%v for pattern %v limit %v", cv, base, k, got, p, lim), map[string]interface{}{"counters": cv, "pattern": p, "k": k, "limit": lim})
							return
						}
						r.Tally("scale_invariance_checked")
					}
				}
				r.NontrivialH(hashInts(cv, p) ^ math.Float64bits(lim))
			}
			if k == 0 {
				r.Sample(map[string]interface{}{"kind": "random counters", "note": "50 vectors per case: random, exact multiples, near multiples, one outlier; each also scaled by 2..9"})
			}
		})
	}
	c.Floor("forward_runs_returned", 1000)
	c.Floor("reverse_runs_returned", 1000)
	c.Floor("variance_inf_cases", 1000)
	c.Floor("variance_calls_with_a_reused_pattern_buffer", 1000)
	c.Floor("variance_finite_cases", 1000)
	c.Floor("variance_zero_cases", 10)
}
