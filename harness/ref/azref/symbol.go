package azref

import (
	"verifharness/ref/gf"
	"verifharness/ref/rs"
)

// Spec names one of the 36 Aztec symbol sizes: compact with 1..4 layers or
// full-range with 1..32 layers.
type Spec struct {
	Compact bool
	Layers  int
}

// AllSpecs lists the 36 sizes, compact first.
func AllSpecs() []Spec {
	var out []Spec
	for l := 1; l <= 4; l++ {
		out = append(out, Spec{true, l})
	}
	for l := 1; l <= 32; l++ {
		out = append(out, Spec{false, l})
	}
	return out
}

// Valid reports whether s is one of the 36 sizes.
func (s Spec) Valid() bool {
	if s.Compact {
		return s.Layers >= 1 && s.Layers <= 4
	}
	return s.Layers >= 1 && s.Layers <= 32
}

// coreRadius is the Chebyshev radius of the mode-message ring: the bull's eye
// is 9x9 (compact) or 13x13 (full), the ring around it 11x11 or 15x15.
func (s Spec) coreRadius() int {
	if s.Compact {
		return 5
	}
	return 7
}

// halfData is the number of non-reference-grid modules from (not including)
// the centre line to the symbol edge: the core radius plus two per layer.
func (s Spec) halfData() int { return s.coreRadius() + 2*s.Layers }

// gridStretch maps a distance k>=1 counted in non-grid modules from the
// centre line to the real distance, reference-grid lines (every 16th line
// from the centre) being skipped.  Between two grid lines lie 15 data lines.
func gridStretch(k int) int { return k + (k-1)/15 }

// Size is the side of the symbol in modules (including reference-grid lines
// for full-range symbols).
func (s Spec) Size() int {
	if s.Compact {
		return 2*s.halfData() + 1 // 11 + 4L
	}
	return 2*gridStretch(s.halfData()) + 1
}

// WordSize is the codeword size in bits.
func (s Spec) WordSize() int {
	switch {
	case s.Layers <= 2:
		return 6
	case s.Layers <= 8:
		return 8
	case s.Layers <= 22:
		return 10
	}
	return 12
}

// TotalBits is the number of data-layer modules: (88+16L)L compact,
// (112+16L)L full.
func (s Spec) TotalBits() int {
	if s.Compact {
		return (88 + 16*s.Layers) * s.Layers
	}
	return (112 + 16*s.Layers) * s.Layers
}

// TotalWords is the number of codewords (data + check) the symbol carries.
func (s Spec) TotalWords() int { return s.TotalBits() / s.WordSize() }

// MaxDataWords is the largest data-codeword count the mode message can
// express: 6 bits (compact) or 11 bits (full) holding count-1.
func (s Spec) MaxDataWords() int {
	if s.Compact {
		return 64
	}
	return 2048
}

// Field returns the Galois field of the data codewords.
func (s Spec) Field() gf.Field {
	switch s.WordSize() {
	case 6:
		return gf.Aztec64
	case 8:
		return gf.Field{Name: "Aztec-256", Prim: 0x12D, Size: 256, Base: 1}
	case 10:
		return gf.Aztec1024
	}
	return gf.Aztec4096
}

// Stuff performs the standard's bit stuffing.  The stream is cut into words of
// wordSize bits; whenever the first wordSize-1 bits of a word are all equal, a
// complementary bit is inserted as the word's last bit (so no data word is all
// zeros or all ones) and the displaced bit opens the next word.  The final
// partial word is padded with ones; if that makes its leading wordSize-1 bits
// all ones the last bit is made zero.  The result's length is a multiple of
// wordSize.
func Stuff(bits []bool, wordSize int) []bool {
	var out []bool
	i := 0
	for i < len(bits) {
		zeros, ones := true, true
		for j := 0; j < wordSize-1; j++ {
			b := true // padding
			if i+j < len(bits) {
				b = bits[i+j]
			}
			out = append(out, b)
			if b {
				zeros = false
			} else {
				ones = false
			}
		}
		i += wordSize - 1
		switch {
		case zeros:
			out = append(out, true)
		case ones:
			out = append(out, false)
		default:
			b := true
			if i < len(bits) {
				b = bits[i]
			}
			out = append(out, b)
			i++
		}
	}
	return out
}

func bitsToWords(bits []bool, wordSize int) []int {
	words := make([]int, len(bits)/wordSize)
	for i := range words {
		v := 0
		for j := 0; j < wordSize; j++ {
			v <<= 1
			if bits[i*wordSize+j] {
				v |= 1
			}
		}
		words[i] = v
	}
	return words
}

// Symbol is a fully built Aztec symbol.
type Symbol struct {
	Spec      Spec
	DataWords int
	Words     []int    // data codewords followed by check codewords
	Matrix    [][]bool // [y][x], true = dark
}

// CheckWords is the number of Reed-Solomon check codewords.
func (sym *Symbol) CheckWords() int { return len(sym.Words) - sym.DataWords }

// MaxCorrectable is the number of wrong codewords Reed-Solomon can correct.
func (sym *Symbol) MaxCorrectable() int { return sym.CheckWords() / 2 }

// Build stuffs the bit stream, fills every remaining codeword of the symbol
// with Reed-Solomon check words and lays the matrix out.  ok is false when the
// stream is empty, when the stuffed data leave fewer than minCheck check words
// or when the data-word count does not fit the mode message.
func Build(s Spec, bits []bool, minCheck int) (*Symbol, bool) {
	if !s.Valid() {
		return nil, false
	}
	ws := s.WordSize()
	data := bitsToWords(Stuff(bits, ws), ws)
	n := len(data)
	if n == 0 || n > s.MaxDataWords() || n+minCheck > s.TotalWords() {
		return nil, false
	}
	check := rs.Parity(s.Field(), data, s.TotalWords()-n)
	words := append(append([]int{}, data...), check...)
	return &Symbol{Spec: s, DataWords: n, Words: words, Matrix: Layout(s, words, n)}, true
}

// BuildDamaged lays the symbol out again with the codewords at damagedIdx
// replaced by newVals (any value of the word size, including all-zero and
// all-one words).  Finder, orientation marks, mode message and reference grid
// are untouched.
func BuildDamaged(sym *Symbol, damagedIdx []int, newVals []int) [][]bool {
	words := append([]int{}, sym.Words...)
	mask := 1<<uint(sym.Spec.WordSize()) - 1
	for i, idx := range damagedIdx {
		words[idx] = newVals[i] & mask
	}
	return Layout(sym.Spec, words, sym.DataWords)
}

// ModeMessage returns the 28 (compact) or 40 (full) mode-message bits:
// layers-1 in 2 or 5 bits, dataWords-1 in 6 or 11 bits, then 5 or 6 check
// nibbles over GF(16).
func ModeMessage(s Spec, dataWords int) []bool {
	var w bitWriter
	var nCheck int
	if s.Compact {
		w.put(s.Layers-1, 2)
		w.put(dataWords-1, 6)
		nCheck = 5
	} else {
		w.put(s.Layers-1, 5)
		w.put(dataWords-1, 11)
		nCheck = 6
	}
	nib := bitsToWords(w.bits, 4)
	for _, c := range rs.Parity(gf.Aztec16, nib, nCheck) {
		w.put(c, 4)
	}
	return w.bits
}

// Layout draws the complete matrix for the given codewords.
func Layout(s Spec, words []int, dataWords int) [][]bool {
	size := s.Size()
	c := size / 2
	m := make([][]bool, size)
	for y := range m {
		m[y] = make([]bool, size)
	}
	set := func(dx, dy int, v bool) { m[c+dy][c+dx] = v }

	// Reference grid (full-range only): every 16th row and column counted from
	// the centre, alternating with the centre module dark.
	if !s.Compact {
		for dy := -c; dy <= c; dy++ {
			for dx := -c; dx <= c; dx++ {
				if dx%16 == 0 || dy%16 == 0 {
					set(dx, dy, (dx+dy)%2 == 0)
				}
			}
		}
	}

	// Bull's eye: concentric square rings, dark at even radius; then the mode
	// ring, cleared before the orientation marks and mode message go in.
	R := s.coreRadius()
	for dy := -R; dy <= R; dy++ {
		for dx := -R; dx <= R; dx++ {
			r := abs(dx)
			if abs(dy) > r {
				r = abs(dy)
			}
			if r < R {
				set(dx, dy, r%2 == 0)
			} else {
				set(dx, dy, false)
			}
		}
	}

	// Orientation marks in the corners of the mode ring: three dark modules
	// top-left, two top-right, one bottom-right, none bottom-left.
	set(-R, -R, true)
	set(-R+1, -R, true)
	set(-R, -R+1, true)
	set(R, -R, true)
	set(R, -R+1, true)
	set(R, R-1, true)

	// Mode message: clockwise from the top-left, a quarter per side, between
	// the orientation marks.  In full-range symbols the centre row/column is a
	// reference-grid line and is skipped.
	mode := ModeMessage(s, dataWords)
	var offs []int
	for d := -(R - 2); d <= R-2; d++ {
		if !s.Compact && d == 0 {
			continue
		}
		offs = append(offs, d)
	}
	q := len(offs) // 7 or 10
	for i, d := range offs {
		set(d, -R, mode[i])      // top, left to right
		set(R, d, mode[q+i])     // right, top to bottom
		set(-d, R, mode[2*q+i])  // bottom, right to left
		set(-R, -d, mode[3*q+i]) // left, bottom to top
	}

	// Data layers.  Coordinates u run over the 2*half (full) or 2*half+1
	// (compact) non-grid lines; real() maps them to module offsets from the
	// centre.
	half := s.halfData()
	var base int
	var real func(u int) int
	if s.Compact {
		base = 2*half + 1
		real = func(u int) int { return u - half }
	} else {
		base = 2 * half
		real = func(u int) int {
			if u < half {
				return -gridStretch(half - u)
			}
			return gridStretch(u - half + 1)
		}
	}

	// The message: leftover bits (zero) first, then the codewords MSB first.
	// It starts at the top-left corner of the OUTERMOST layer and spirals
	// counter-clockwise inwards in two-module-wide dominoes (outer module
	// first), so the last bit ends next to the core.
	ws := s.WordSize()
	var stream bitWriter
	stream.put(0, s.TotalBits()%ws)
	for _, wv := range words {
		stream.put(wv, ws)
	}
	pos := 0
	next := func() bool {
		b := stream.bits[pos]
		pos++
		return b
	}
	for layer := s.Layers; layer >= 1; layer-- {
		o := 2 * (s.Layers - layer) // offset of this ring's outer edge
		side := base - 2*o          // outer side length of the ring
		far := o + side - 1
		run := side - 2
		for j := 0; j < run; j++ { // left side, downwards
			for k := 0; k < 2; k++ {
				set(real(o+k), real(o+j), next())
			}
		}
		for j := 0; j < run; j++ { // bottom side, rightwards
			for k := 0; k < 2; k++ {
				set(real(o+j), real(far-k), next())
			}
		}
		for j := 0; j < run; j++ { // right side, upwards
			for k := 0; k < 2; k++ {
				set(real(far-k), real(far-j), next())
			}
		}
		for j := 0; j < run; j++ { // top side, leftwards
			for k := 0; k < 2; k++ {
				set(real(far-j), real(o+k), next())
			}
		}
	}
	if pos != len(stream.bits) {
		panic("azref: layout did not consume the whole message")
	}
	return m
}

func abs(x int) int {
	if x < 0 {
		return -x
	}
	return x
}
