//go:build verif

package main

import (
	"fmt"
	"github.com/makiuchi-d/gozxing/common/reedsolomon"
	"image"
	"syscall"
	"verifharness/ref/gf"
	"verifharness/ref/rs"

	"github.com/makiuchi-d/gozxing"
	"github.com/makiuchi-d/gozxing/aztec"
	azdec "github.com/makiuchi-d/gozxing/aztec/decoder"
	azdet "github.com/makiuchi-d/gozxing/aztec/detector"
	"github.com/makiuchi-d/gozxing/common"
	"github.com/makiuchi-d/gozxing/datamatrix"
	dmdec "github.com/makiuchi-d/gozxing/datamatrix/decoder"
	"github.com/makiuchi-d/gozxing/multi"
	mqr "github.com/makiuchi-d/gozxing/multi/qrcode"
	"github.com/makiuchi-d/gozxing/oned"
	"github.com/makiuchi-d/gozxing/oned/rss"
	"github.com/makiuchi-d/gozxing/qrcode"
	qrdec "github.com/makiuchi-d/gozxing/qrcode/decoder"

	"verifharness/fw"
	"verifharness/ref/azref"
	"verifharness/ref/dmref"
	"verifharness/ref/onedref"
	"verifharness/ref/qrref"
)

// C06: decoding is total.  Every reader / decoder / parser call must return
// normally with exactly one of (result, error); image-level readers only
// return errors of the NotFound / Checksum / Format kinds.

func init() { fw.Register("C06", c06) }

type c06Reader struct {
	name  string
	kinds []string // symbologies it is made for
	oneD  bool
	multi bool // QRCodeMultiReader: Decode and DecodeMultiple
	fmts  bool // constructor and calls get a POSSIBLE_FORMATS hint
	check bool // Code 39 with check character
	mk    func(h map[gozxing.DecodeHintType]interface{}) gozxing.Reader
}

var c06UPCEANKinds = []string{"EAN_13", "EAN_8", "UPC_A", "UPC_E"}

var c06Readers = []c06Reader{
	{name: "QRCodeReader", kinds: []string{"QR_CODE"}, mk: func(map[gozxing.DecodeHintType]interface{}) gozxing.Reader { return qrcode.NewQRCodeReader() }},
	{name: "DataMatrixReader", kinds: []string{"DATA_MATRIX"}, mk: func(map[gozxing.DecodeHintType]interface{}) gozxing.Reader { return datamatrix.NewDataMatrixReader() }},
	{name: "AztecReader", kinds: []string{"AZTEC"}, mk: func(map[gozxing.DecodeHintType]interface{}) gozxing.Reader { return aztec.NewAztecReader() }},
	{name: "QRCodeMultiReader", kinds: []string{"QR_CODE"}, multi: true, mk: func(map[gozxing.DecodeHintType]interface{}) gozxing.Reader {
		return mqr.NewQRCodeMultiReader().(gozxing.Reader)
	}},
	{name: "EAN13Reader", kinds: []string{"EAN_13", "UPC_A"}, oneD: true, mk: func(map[gozxing.DecodeHintType]interface{}) gozxing.Reader { return oned.NewEAN13Reader() }},
	{name: "EAN8Reader", kinds: []string{"EAN_8"}, oneD: true, mk: func(map[gozxing.DecodeHintType]interface{}) gozxing.Reader { return oned.NewEAN8Reader() }},
	{name: "UPCAReader", kinds: []string{"UPC_A"}, oneD: true, mk: func(map[gozxing.DecodeHintType]interface{}) gozxing.Reader { return oned.NewUPCAReader() }},
	{name: "UPCEReader", kinds: []string{"UPC_E"}, oneD: true, mk: func(map[gozxing.DecodeHintType]interface{}) gozxing.Reader { return oned.NewUPCEReader() }},
	{name: "MultiFormatUPCEANReader", kinds: c06UPCEANKinds, oneD: true, mk: func(map[gozxing.DecodeHintType]interface{}) gozxing.Reader {
		return oned.NewMultiFormatUPCEANReader(nil)
	}},
	{name: "MultiFormatUPCEANReader+POSSIBLE_FORMATS", kinds: c06UPCEANKinds, oneD: true, fmts: true, mk: func(h map[gozxing.DecodeHintType]interface{}) gozxing.Reader {
		return oned.NewMultiFormatUPCEANReader(h)
	}},
	{name: "Code39Reader", kinds: []string{"CODE_39"}, oneD: true, mk: func(map[gozxing.DecodeHintType]interface{}) gozxing.Reader { return oned.NewCode39Reader() }},
	{name: "Code39Reader(check)", kinds: []string{"CODE_39"}, oneD: true, check: true, mk: func(map[gozxing.DecodeHintType]interface{}) gozxing.Reader {
		return oned.NewCode39ReaderWithCheckDigitFlag(true)
	}},
	{name: "Code39Reader(extended)", kinds: []string{"CODE_39"}, oneD: true, mk: func(map[gozxing.DecodeHintType]interface{}) gozxing.Reader {
		return oned.NewCode39ReaderWithFlags(false, true)
	}},
	{name: "Code39Reader(check,extended)", kinds: []string{"CODE_39"}, oneD: true, check: true, mk: func(map[gozxing.DecodeHintType]interface{}) gozxing.Reader {
		return oned.NewCode39ReaderWithFlags(true, true)
	}},
	{name: "Code93Reader", kinds: []string{"CODE_93"}, oneD: true, mk: func(map[gozxing.DecodeHintType]interface{}) gozxing.Reader { return oned.NewCode93Reader() }},
	{name: "Code128Reader", kinds: []string{"CODE_128"}, oneD: true, mk: func(map[gozxing.DecodeHintType]interface{}) gozxing.Reader { return oned.NewCode128Reader() }},
	{name: "ITFReader", kinds: []string{"ITF"}, oneD: true, mk: func(map[gozxing.DecodeHintType]interface{}) gozxing.Reader { return oned.NewITFReader() }},
	{name: "CodaBarReader", kinds: []string{"CODABAR"}, oneD: true, mk: func(map[gozxing.DecodeHintType]interface{}) gozxing.Reader { return oned.NewCodaBarReader() }},
	{name: "RSS14Reader", kinds: []string{"RSS_14"}, oneD: true, mk: func(map[gozxing.DecodeHintType]interface{}) gozxing.Reader { return rss.NewRSS14Reader() }},
}

// c06Judge applies the oracle to one call.  hasResult / err describe what came
// back; strict: the error must be of one of the three documented kinds.
// Returns false when a violation was reported (the case stops).
func c06Judge(r *fw.Rec, target, call string, hasResult bool, err error, msg, stack string, panicked, strict bool, data func() map[string]interface{}) bool {
	r.Evals(1)
	switch {
	case panicked:
		r.Violation("panic", target+":panic:"+fw.PanicSite(stack), fmt.Sprintf("%s panicked: %s", call, msg), data())
		return false
	case !hasResult && err == nil:
		r.Violation("totality", target+":nil-nil", call+" returned neither a result nor an error", data())
		return false
	case hasResult && err != nil:
		r.Violation("totality", target+":both", fmt.Sprintf("%s returned a result and the error %v", call, err), data())
		return false
	case err == nil:
		r.Tally(target + " result")
		return true
	}
	kind := c06ErrKind(err)
	if kind == "other" {
		if strict {
			r.Violation("error-kind", fmt.Sprintf("%s:error-kind:%T", target, err), fmt.Sprintf("%s returned an error that is none of NotFound/Checksum/Format: (%T) %v", call, err, err), data())
			return false
		}
		kind = "other-error (allowed)"
	}
	r.Tally(target + " " + kind)
	r.Tally(target + " errors")
	return true
}

var c06Binarizers = []struct {
	name string
	mk   func(gozxing.LuminanceSource) gozxing.Binarizer
}{
	{"hybrid", gozxing.NewHybridBinarizer},
	{"global", gozxing.NewGlobalHistgramBinarizer},
}

// c06StackSymbols places several symbols side by side (multi reader workload).
func c06StackSymbols(ms [][][]bool, gap int) [][]bool {
	H := 0
	for _, m := range ms {
		if len(m) > H {
			H = len(m)
		}
	}
	out := make([][]bool, H)
	for i, m := range ms {
		w, _ := c06Dims(m)
		for y := 0; y < H; y++ {
			if i > 0 {
				out[y] = append(out[y], make([]bool, gap)...)
			}
			if y < len(m) {
				out[y] = append(out[y], m[y]...)
			} else {
				out[y] = append(out[y], make([]bool, w)...)
			}
		}
	}
	return out
}

func c06SymbolFor(rng *fw.Rand, rd *c06Reader, kind string) *c06Sym {
	if kind == "CODE_39" && rd != nil && rd.check && rng.Intn(4) != 0 {
		return c06MakeSymbol(rng, "CODE_39_CHECK")
	}
	return c06MakeSymbol(rng, kind)
}

// c06DrawImage produces one image for the reader: mostly its own symbology
// (clean or mutated), sometimes another symbology or a synthetic image.
func c06DrawImage(r *fw.Rec, rd *c06Reader, allowLarge bool) (img image.Image, class, desc string) {
	rng := r.Rng
	roll := rng.Intn(20)
	if roll < 3 {
		cl := rng.Intn(len(c06SynthNames))
		img, desc = c06Synthetic(rng, cl, allowLarge)
		return img, "synthetic/" + c06SynthNames[cl], desc
	}
	kind := rd.kinds[rng.Intn(len(rd.kinds))]
	class = "own"
	if roll < 5 {
		kind = c06AllKinds[rng.Intn(len(c06AllKinds))]
		class = "foreign"
	}
	sym := c06SymbolFor(rng, rd, kind)
	if sym == nil {
		img, desc = c06Synthetic(rng, 0, false)
		return img, "synthetic/noise-bilevel", desc
	}
	mods := sym.mods
	desc = sym.desc
	if rd.multi && class == "own" && rng.Intn(3) == 0 {
		ms := [][][]bool{mods}
		n := 1 + rng.Intn(2)
		for i := 0; i < n; i++ {
			if s2 := c06MakeSymbol(rng, "QR_CODE"); s2 != nil {
				ms = append(ms, s2.mods)
				desc += " | " + s2.desc
			}
		}
		mods = c06StackSymbols(ms, 5+rng.Intn(8))
		class = "own-several"
	}
	mut := 0
	switch m := rng.Intn(10); {
	case m < 3: // unmutated, rendered the way a scanner expects
		o := c06CleanRender(rng, sym.oneD)
		if rng.Intn(6) == 0 { // clean but turned by any angle
			angle, px := float64(rng.Intn(3600))/10, 2+3*rng.Float()
			r.Tally("images rotated / sheared")
			return c06PaintAffine(rng, mods, o, angle, px, 0, 10+rng.Intn(30)), class + "/clean+affine", fmt.Sprintf("%s | angle %.1f px/module %.2f | %s", desc, angle, px, o.String())
		}
		return c06Paint(rng, mods, o), class + "/clean", desc + " | " + o.String()
	case m < 4: // unmutated, hostile rendering
	default:
		mut = 1 + rng.Intn(len(c06MutNames)-1)
		mods = c06Mutate(rng, mods, mut)
	}
	var o *c06Render
	if rng.Bool() {
		o = c06CleanRender(rng, sym.oneD)
	} else {
		o = c06HostileRender(rng, sym.oneD)
		if allowLarge && rng.Intn(40) == 0 {
			o.padW, o.padH = 600+rng.Intn(150), 1+rng.Intn(80)
			if rng.Bool() {
				o.padW, o.padH = o.padH, o.padW
			}
			if rng.Intn(4) == 0 {
				o.padW, o.padH = 600+rng.Intn(60), 600+rng.Intn(60)
			}
		}
	}
	if rng.Intn(5) == 0 { // not axis-aligned: rotated by any angle, sheared, real-valued module size
		angle := float64(rng.Intn(3600)) / 10
		if rng.Intn(3) == 0 {
			angle = float64(rng.Intn(200)-100) / 10
		}
		px := 1 + 4*rng.Float()
		shear := 0.0
		if rng.Intn(3) == 0 {
			shear = rng.Float() - 0.5
		}
		rows := 1 + rng.Intn(40)
		if o.quiet == 0 && rng.Bool() {
			o.quiet = 2
		}
		r.Tally("images rotated / sheared")
		return c06PaintAffine(rng, mods, o, angle, px, shear, rows), class + "/" + c06MutNames[mut] + "+affine", fmt.Sprintf("%s | mutation %s | angle %.1f px/module %.2f shear %.2f rows %d | %s", desc, c06MutNames[mut], angle, px, shear, rows, o.String())
	}
	return c06Paint(rng, mods, o), class + "/" + c06MutNames[mut], desc + " | mutation " + c06MutNames[mut] + " | " + o.String()
}

// c06PureDegenerate: the "pure barcode" shortcut of the 2-D readers takes the bounding box of
// the dark pixels for the symbol; images of a few bars and dots make that box degenerate in every
// way (narrower than the first run, zero width or height, not square, one pixel).
func c06PureDegenerate(r *fw.Rec, rd *c06Reader) {
	rng := r.Rng
	for i := 0; i < 150; i++ {
		cl := 11
		if rng.Intn(5) == 0 {
			cl = []int{2, 3, 5, 6}[rng.Intn(4)]
		}
		img, desc := c06Synthetic(rng, cl, false)
		b := img.Bounds()
		hints := map[gozxing.DecodeHintType]interface{}{gozxing.DecodeHintType_PURE_BARCODE: true}
		if rng.Intn(4) == 0 {
			hints[gozxing.DecodeHintType_TRY_HARDER] = true
		}
		for _, bz := range c06Binarizers {
			bz := bz
			var res *gozxing.Result
			var err error
			target := rd.name + ".Decode"
			msg, stack, panicked := fw.Guard(func() {
				bmp, e := gozxing.NewBinaryBitmap(bz.mk(gozxing.NewLuminanceSourceFromImage(img)))
				if e != nil {
					panic(e)
				}
				res, err = rd.mk(hints).Decode(bmp, hints)
			})
			data := func() map[string]interface{} {
				return map[string]interface{}{"reader": rd.name, "binarizer": bz.name, "image_class": "synthetic/" + c06SynthNames[cl], "image": desc, "hints": "PURE_BARCODE", "width": b.Dx(), "height": b.Dy(), "png_base64": c06PNG(img)}
			}
			call := fmt.Sprintf("%s(%s, binarizer %s, hints {PURE_BARCODE})", target, desc, bz.name)
			if !c06Judge(r, target, call, res != nil, err, msg, stack, panicked, true, data) {
				return
			}
			r.Tally("pure-barcode reads of images of a few bars and dots")
		}
		r.NontrivialH(hash64s(rd.name + "|pure|" + desc + fmt.Sprint(rng.Uint64())))
	}
}

// shared: a reader instance kept for the whole case (nil: a fresh one per call).
func c06ImageOne(r *fw.Rec, rd *c06Reader, allowLarge bool, shared gozxing.Reader) bool {
	rng := r.Rng
	img, class, desc := c06DrawImage(r, rd, allowLarge)
	pure8 := 1
	if !rd.oneD {
		pure8 = 2
	}
	calls := 0
	hints, hdesc := c06Hints(rng, pure8, &calls)
	if rd.fmts {
		if hints == nil {
			hints = map[gozxing.DecodeHintType]interface{}{}
			hdesc = ""
		}
		f := c06Formats(rng)
		hints[gozxing.DecodeHintType_POSSIBLE_FORMATS] = f
		hdesc += fmt.Sprintf(" (POSSIBLE_FORMATS forced to %v)", f)
	}
	b := img.Bounds()
	r.Max("max_image_side", int64(maxInt(b.Dx(), b.Dy())))
	if maxInt(b.Dx(), b.Dy()) >= 600 {
		r.Tally("images with a side >= 600")
	}
	if b.Dx() >= 39 && b.Dx() <= 41 || b.Dy() >= 39 && b.Dy() <= 41 {
		r.Tally("images with a side of 39..41")
	}
	if b.Dx() <= 3 && b.Dy() <= 3 {
		r.Tally("images up to 3x3")
	}
	r.Tally("image class " + class)
	withoutHints := hints == nil && rng.Intn(3) == 0
	srcKind := 0
	if rng.Intn(4) == 0 {
		srcKind = 1 + rng.Intn(2)
		r.Tally("images through the RGB / planar YUV luminance sources")
	}
	for _, bz := range c06Binarizers {
		bz := bz
		data := func() map[string]interface{} {
			return map[string]interface{}{"reader": rd.name, "binarizer": bz.name, "image_class": class, "image": desc, "hints": hdesc, "width": b.Dx(), "height": b.Dy(),
				"image_type": fmt.Sprintf("%T", img), "png_base64": c06PNG(img)}
		}
		newBitmap := func() *gozxing.BinaryBitmap {
			var src gozxing.LuminanceSource = gozxing.NewLuminanceSourceFromImage(img)
			// the same picture through the other luminance sources of the library (packed RGB ints,
			// a planar YUV frame): these cannot be rotated, which the readers have to cope with
			switch srcKind {
			case 1:
				lum := src.GetMatrix()
				px := make([]int, len(lum))
				for i, l := range lum {
					px[i] = 0xFF000000 | int(l)<<16 | int(l)<<8 | int(l)
				}
				src = gozxing.NewRGBLuminanceSource(b.Dx(), b.Dy(), px)
			case 2:
				y, e := gozxing.NewPlanarYUVLuminanceSource(append([]byte{}, src.GetMatrix()...), b.Dx(), b.Dy(), 0, 0, b.Dx(), b.Dy(), false)
				if e != nil {
					panic(e)
				}
				src = y
			}
			bmp, err := gozxing.NewBinaryBitmap(bz.mk(src))
			if err != nil {
				panic(err)
			}
			return bmp
		}
		reader := shared
		if reader == nil || rd.fmts {
			reader = rd.mk(hints)
		} else {
			r.Tally("calls on a reused reader instance")
		}
		var res *gozxing.Result
		var err error
		target := rd.name + ".Decode"
		msg, stack, panicked := fw.Guard(func() {
			bmp := newBitmap()
			if withoutHints {
				res, err = reader.DecodeWithoutHints(bmp)
			} else {
				res, err = reader.Decode(bmp, hints)
			}
		})
		call := fmt.Sprintf("%s(%s %dx%d [%s], binarizer %s, hints {%s})", target, class, b.Dx(), b.Dy(), trunc(desc, 300), bz.name, hdesc)
		if !c06Judge(r, target, call, res != nil, err, msg, stack, panicked, true, data) {
			return false
		}
		if err == nil {
			r.Tally("binarizer " + bz.name + " results")
			r.Tally("results on " + class)
		} else {
			r.Tally("binarizer " + bz.name + " errors")
		}
		if rd.multi {
			mr := reader.(multi.MultipleBarcodeReader)
			var rs []*gozxing.Result
			target = rd.name + ".DecodeMultiple"
			msg, stack, panicked = fw.Guard(func() {
				bmp := newBitmap()
				if withoutHints {
					rs, err = mr.DecodeMultipleWithoutHint(bmp)
				} else {
					rs, err = mr.DecodeMultiple(bmp, hints)
				}
			})
			call = fmt.Sprintf("%s(%s %dx%d [%s], binarizer %s, hints {%s})", target, class, b.Dx(), b.Dy(), trunc(desc, 300), bz.name, hdesc)
			if !panicked {
				for i, x := range rs {
					if x == nil {
						r.Evals(1)
						r.Violation("totality", target+":nil-element", fmt.Sprintf("%s returned %d results, element %d is nil", call, len(rs), i), data())
						return false
					}
				}
				if err == nil && rs != nil && len(rs) == 0 {
					// DESIGN C06 don't-care: an empty non-nil slice with nil error
					r.Evals(1)
					r.Tally(target + " empty (don't care)")
					continue
				}
			}
			// charged: nil slice with nil error, results together with an error
			if !c06Judge(r, target, call, len(rs) > 0 || (rs != nil && err == nil), err, msg, stack, panicked, true, data) {
				return false
			}
			if len(rs) > 1 {
				r.Tally(target + " several results")
			}
		}
	}
	if calls > 0 {
		r.Tally("result point callback invoked")
	}
	r.NontrivialH(hash64s(rd.name + "|" + desc + "|" + hdesc))
	return true
}

// ---------------------------------------------------------------------------
// cost growth of the QR finder-pattern selection
// ---------------------------------------------------------------------------

func c06CPU() float64 {
	var ru syscall.Rusage
	syscall.Getrusage(syscall.RUSAGE_SELF, &ru)
	return float64(ru.Utime.Nano()+ru.Stime.Nano()) / 1e9
}

// c06FinderGrid: an n x n image tiled with 7x7 finder patterns (1:1:3:1:1, one pixel per module) at a pitch of 9.
func c06FinderGrid(n int) *image.Gray {
	img := image.NewGray(image.Rect(0, 0, n, n))
	for y := 0; y < n; y++ {
		for x := 0; x < n; x++ {
			v := uint8(255)
			fx, fy := x%9, y%9
			if fx < 7 && fy < 7 {
				ring := minInt(minInt(fx, 6-fx), minInt(fy, 6-fy))
				if ring != 1 {
					v = 0
				}
			}
			img.Pix[y*img.Stride+x] = v
		}
	}
	return img
}

const c06GridCPULimit = 2.0 // CPU seconds for ONE call on an image of at most 520x520 pixels

// c06GridCase feeds one QR entry point with tiled finder patterns of growing
// size.  The ordinary oracle applies to every call; in addition the CPU time of
// the call is measured, and the escalation stops with a budget violation at the
// first call that needs more than c06GridCPULimit (the whole case then stays
// below the framework's 20 CPU-s budget, which the next sizes would exceed).
func c06GridCase(r *fw.Rec, which int) {
	target := []string{"QRCodeReader.Decode", "QRCodeMultiReader.Decode", "QRCodeMultiReader.DecodeMultiple"}[which]
	// reference cost: a valid symbol filling an image of 300x300
	m, _ := c06QRMatrix(r.Rng, 6)
	ref := c06Paint(r.Rng, m, &c06Render{scaleX: 300 / (len(m) + 8), scaleY: 300 / (len(m) + 8), quiet: 4, height: 1, dark: 0, light: 255})
	call := func(img image.Image) (hasResult bool, err error, msg, stack string, panicked bool, cpu float64) {
		bmp, e := gozxing.NewBinaryBitmap(gozxing.NewGlobalHistgramBinarizer(gozxing.NewLuminanceSourceFromImage(img)))
		if e != nil {
			panic(e)
		}
		t0 := c06CPU()
		msg, stack, panicked = fw.Guard(func() {
			switch which {
			case 0:
				res, e := qrcode.NewQRCodeReader().Decode(bmp, nil)
				hasResult, err = res != nil, e
			case 1:
				res, e := mqr.NewQRCodeMultiReader().(gozxing.Reader).Decode(bmp, nil)
				hasResult, err = res != nil, e
			default:
				rs, e := mqr.NewQRCodeMultiReader().DecodeMultiple(bmp, nil)
				hasResult, err = rs != nil && (len(rs) > 0 || e == nil), e
			}
		})
		return hasResult, err, msg, stack, panicked, c06CPU() - t0
	}
	_, _, _, _, _, refCPU := call(ref)
	r.Max("valid 300x300 QR image, CPU ms ("+target+")", int64(refCPU*1000))
	var sizes []int
	var cpus []float64
	for n := 40; n <= 520; n = n*110/100 + 1 {
		img := c06FinderGrid(n)
		hasResult, err, msg, stack, panicked, cpu := call(img)
		n := n
		data := func() map[string]interface{} {
			return map[string]interface{}{"image": fmt.Sprintf("%dx%d Gray, 7x7 finder patterns (1 px per module) tiled at a pitch of 9 px", n, n), "binarizer": "global", "hints": "nil", "png_base64": c06PNG(img), "sizes": sizes, "cpu_seconds": cpus}
		}
		if !c06Judge(r, target, fmt.Sprintf("%s(%dx%d tiled finder patterns)", target, n, n), hasResult, err, msg, stack, panicked, true, data) {
			return
		}
		sizes = append(sizes, n)
		cpus = append(cpus, float64(int(cpu*1000))/1000)
		r.Tally("tiled finder pattern images")
		r.Max("tiled finder patterns, largest side tried ("+target+")", int64(n))
		r.Max("tiled finder patterns, CPU ms of the slowest call ("+target+")", int64(cpu*1000))
		if cpu > c06GridCPULimit {
			r.Violation("budget", target+":budget:tiled-finder-patterns",
				fmt.Sprintf("%s on a %dx%d image tiled with finder patterns needed %.1f CPU-s (a valid QR symbol filling 300x300 pixels: %.4f s); sides %v took %v s: the cost grows with about the 5th-6th power of the side (measured separately: DecodeMultiple 200x200 = 50 s, QRCodeReader.Decode 420x420 = 30 s, beyond the 20 CPU-s budget); the escalation stops here so that the case itself stays below the budget", target, n, n, cpu, refCPU, sizes, cpus), data())
			return
		}
	}
	r.Nontrivial("grid|" + target)
}

// ---------------------------------------------------------------------------
// row decoders
// ---------------------------------------------------------------------------

// c06SymbolRow renders a 1-D symbol row: scale, quiet zones.
func c06SymbolRow(rng *fw.Rand, mod []bool, clean bool) []bool {
	scale := 1 + rng.Intn(3)
	ql, qr := 10+rng.Intn(10), 10+rng.Intn(10)
	if !clean {
		ql, qr = []int{0, 1, 3, 10, 30}[rng.Intn(5)], []int{0, 1, 3, 10, 30}[rng.Intn(5)]
	}
	out := make([]bool, 0, (ql+qr+len(mod))*scale)
	out = append(out, make([]bool, ql*scale)...)
	for _, m := range mod {
		for k := 0; k < scale; k++ {
			out = append(out, m)
		}
	}
	return append(out, make([]bool, qr*scale)...)
}

func c06DrawRow(rng *fw.Rand, rd *c06Reader) (row []bool, class, desc string) {
	roll := rng.Intn(20)
	if roll < 6 {
		n := 1 + rng.Intn(400)
		if rng.Intn(4) == 0 {
			n = 1 + rng.Intn(20)
		}
		return genRow(rng, n), "random", fmt.Sprintf("random row of %d", n)
	}
	kind := rd.kinds[rng.Intn(len(rd.kinds))]
	class = "own"
	if roll < 8 {
		kind = c06Kinds1D[rng.Intn(len(c06Kinds1D))]
		class = "foreign"
	}
	sym := c06SymbolFor(rng, rd, kind)
	if sym == nil || !sym.oneD {
		return genRow(rng, 1+rng.Intn(400)), "random", "random row"
	}
	mod := sym.mods[0]
	switch m := rng.Intn(10); {
	case m < 4:
		return c06SymbolRow(rng, mod, true), class + "/clean", sym.desc
	case m < 5:
		return c06SymbolRow(rng, mod, false), class + "/margins", sym.desc
	}
	mut := 1 + rng.Intn(len(c06MutNames)-1)
	if mut == 7 {
		mut = 6 // rows that end in the middle of the symbol instead of turning
	}
	if rng.Bool() { // mutate modules, then scale
		mm := c06Mutate(rng, [][]bool{mod}, mut)
		row = c06SymbolRow(rng, mm[0], rng.Bool())
	} else { // scale, then mutate pixels
		mm := c06Mutate(rng, [][]bool{c06SymbolRow(rng, mod, rng.Bool())}, mut)
		row = mm[0]
	}
	return row, class + "/" + c06MutNames[mut], sym.desc + " | mutation " + c06MutNames[mut]
}

func c06RowCall(r *fw.Rec, rd *c06Reader, dec oned.RowDecoder, rowM []bool, class, desc string, hints map[gozxing.DecodeHintType]interface{}, hdesc string, rowNumber int) bool {
	target := rd.name + ".DecodeRow"
	var res *gozxing.Result
	var err error
	row := rowFromBools(rowM)
	msg, stack, panicked := fw.Guard(func() { res, err = dec.DecodeRow(rowNumber, row, hints) })
	data := func() map[string]interface{} {
		return map[string]interface{}{"reader": rd.name, "row": boolsToStr(rowM), "row_length": len(rowM), "row_number": rowNumber, "row_class": class, "source": desc, "hints": hdesc}
	}
	call := fmt.Sprintf("%s(row %d, %s row of %d [%s], hints {%s})", target, rowNumber, class, len(rowM), trunc(desc, 200), hdesc)
	return c06Judge(r, target, call, res != nil, err, msg, stack, panicked, false, data)
}

func c06RowCase(r *fw.Rec, rd *c06Reader, n int) {
	rng := r.Rng
	var shared oned.RowDecoder
	if rng.Bool() { // one reader instance for the whole case (buffers and RSS pair lists are reused)
		shared = rd.mk(nil).(oned.RowDecoder)
	}
	for i := 0; i < n; i++ {
		rowM, class, desc := c06DrawRow(rng, rd)
		hints, hdesc := c06Hints(rng, 0, nil)
		if rd.fmts {
			if hints == nil {
				hints = map[gozxing.DecodeHintType]interface{}{}
			}
			f := c06Formats(rng)
			hints[gozxing.DecodeHintType_POSSIBLE_FORMATS] = f
			hdesc += fmt.Sprintf(" (POSSIBLE_FORMATS forced to %v)", f)
		}
		dec := shared
		if dec == nil || rd.fmts {
			dec = rd.mk(hints).(oned.RowDecoder)
		}
		reps := 1
		if rd.name == "RSS14Reader" {
			reps = 3 // a pair has to be seen on three rows before it is reported
		}
		for k := 0; k < reps; k++ {
			if !c06RowCall(r, rd, dec, rowM, class, desc, hints, hdesc, rng.Intn(1000)) {
				return
			}
		}
		r.Tally("row class " + class)
		r.Max("max_row_length", int64(len(rowM)))
		r.NontrivialH(hash64s(rd.name + "|row|" + boolsToStr(rowM) + "|" + hdesc))
	}
}

// c06RowTail: rows that END inside (or right behind) the last modules of a valid symbol, at
// every pixel of its last 14 modules, with 0..2 white pixels behind, left-padded so that the
// row length is 0, 1 or 31 modulo 32: what a reader looks at "after the symbol" is then the
// end of the row's storage.
func c06RowTail(r *fw.Rec, rd *c06Reader, k int) {
	rng := r.Rng
	kind := rd.kinds[rng.Intn(len(rd.kinds))]
	sym := c06SymbolFor(rng, rd, kind)
	if sym == nil || !sym.oneD {
		return
	}
	dec := rd.mk(nil).(oned.RowDecoder)
	for scale := 1; scale <= 3; scale++ {
		var px []bool
		for _, m := range sym.mods[0] {
			for i := 0; i < scale; i++ {
				px = append(px, m)
			}
		}
		for cut := len(px); cut >= len(px)-14*scale && cut > 0; cut-- {
			for trail := 0; trail <= 2; trail++ {
				for _, mod := range []int{0, 1, 31} {
					n := 10*scale + cut + trail
					pad := ((mod-n)%32 + 32) % 32
					row := make([]bool, 0, n+pad)
					row = append(row, make([]bool, 10*scale+pad)...)
					row = append(row, px[:cut]...)
					row = append(row, make([]bool, trail)...)
					desc := fmt.Sprintf("%s, scale %d, row ends %d pixel(s) before the end of the symbol + %d white, length %d", sym.desc, scale, len(px)-cut, trail, len(row))
					if !c06RowCall(r, rd, dec, row, "own/ends-in-the-last-modules", desc, nil, "nil", 0) {
						return
					}
					r.Tally("rows ending in the last modules of a symbol, length 0/1/31 mod 32")
				}
			}
		}
	}
	r.Nontrivial(fmt.Sprintf("%s|rowtail|%d", rd.name, k))
}

// c06RowExhaustive: every row of the given length.
func c06RowExhaustive(r *fw.Rec, rd *c06Reader, length int) {
	dec := rd.mk(nil).(oned.RowDecoder)
	rowM := make([]bool, length)
	for v := 0; v < 1<<uint(length); v++ {
		for i := range rowM {
			rowM[i] = v>>uint(i)&1 == 1
		}
		if !c06RowCall(r, rd, dec, rowM, "exhaustive", fmt.Sprintf("row %d of length %d", v, length), nil, "nil", 0) {
			return
		}
	}
	r.Nontrivial(fmt.Sprintf("%s|rowexh|%d", rd.name, length))
}

// ---------------------------------------------------------------------------
// raw decoders on module matrices
// ---------------------------------------------------------------------------

func c06RandomMatrix(rng *fw.Rand, w, h int) [][]bool {
	m := make([][]bool, h)
	fill := rng.Intn(4)
	for y := range m {
		m[y] = make([]bool, w)
		for x := range m[y] {
			switch fill {
			case 0:
				m[y][x] = rng.Bool()
			case 1:
				m[y][x] = true
			case 2:
				m[y][x] = rng.Intn(8) == 0
			}
		}
	}
	return m
}

func c06QRDecOne(r *fw.Rec) bool {
	rng := r.Rng
	var m [][]bool
	var desc string
	switch k := rng.Intn(10); {
	case k < 6:
		m, desc = c06QRMatrix(rng, 40)
		switch rng.Intn(8) {
		case 0: // clean
		case 1: // mirrored symbol: decoded by the second pass
			m = c06Transpose(m)
			desc += " mirrored"
		case 2: // mirrored and damaged: both passes fail
			m = c06Mutate(rng, c06Transpose(m), 1)
			desc += " mirrored+flips"
		case 3: // every non-function module randomised
			v := (len(m) - 17) / 4
			fn := qrref.IsFunction(v)
			for y := range m {
				for x := range m[y] {
					if !fn[y][x] {
						m[y][x] = rng.Bool()
					}
				}
			}
			desc += " data randomised"
		case 4: // format / version information damaged
			n := len(m)
			for i, k := 0, 1+rng.Intn(12); i < k; i++ {
				if rng.Bool() {
					m[8][rng.Intn(n)] = rng.Bool()
				} else {
					m[rng.Intn(n)][8] = rng.Bool()
				}
			}
			if n >= 45 {
				for i, k := 0, rng.Intn(10); i < k; i++ {
					m[rng.Intn(6)][n-11+rng.Intn(3)] = rng.Bool()
					m[n-11+rng.Intn(3)][rng.Intn(6)] = rng.Bool()
				}
			}
			desc += " format/version info damaged"
		default:
			mut := 1 + rng.Intn(len(c06MutNames)-1)
			m = c06Mutate(rng, m, mut)
			desc += " mutation " + c06MutNames[mut]
		}
	case k < 8: // arbitrary sizes, square and not
		w, h := 1+rng.Intn(60), 1+rng.Intn(60)
		switch rng.Intn(6) {
		case 0:
			h = 21 + 4*rng.Intn(40)
			w = h
		case 1: // height legal, width smaller
			h = 21 + 4*rng.Intn(40)
			w = maxInt(1, h-1-rng.Intn(h))
		case 2: // height legal, width larger
			h = 21 + 4*rng.Intn(20)
			w = h + 1 + rng.Intn(40)
		case 3:
			w = h
		}
		m = c06RandomMatrix(rng, w, h)
		desc = fmt.Sprintf("random %dx%d", w, h)
	default: // valid symbol cut or padded to a non-square matrix
		m, desc = c06QRMatrix(rng, 20)
		w, h := c06Dims(m)
		switch rng.Intn(3) {
		case 0:
			m = c06Crop(m, 0, 0, maxInt(1, w-1-rng.Intn(w-1)), h)
		case 1:
			m = c06Crop(m, rng.Intn(w/2), 0, w, h)
		default:
			pad := 1 + rng.Intn(40)
			for y := range m {
				m[y] = append(m[y], make([]bool, pad)...)
			}
		}
		desc += " made non-square"
	}
	hints, hdesc := c06Hints(rng, 0, nil)
	w, h := c06Dims(m)
	var res interface{}
	var err error
	target := "qrcode/decoder.Decode"
	boolMap := rng.Intn(5) == 0
	if boolMap {
		target = "qrcode/decoder.DecodeBoolMap"
	}
	msg, stack, panicked := fw.Guard(func() {
		var dr *common.DecoderResult
		var e error
		if boolMap {
			dr, e = qrdec.NewDecoder().DecodeBoolMap(m, hints)
		} else {
			dr, e = qrdec.NewDecoder().Decode(c06BitMatrix(m), hints)
		}
		err = e
		if dr != nil {
			res = dr
		}
	})
	data := func() map[string]interface{} {
		return map[string]interface{}{"matrix": c06MatrixText(m), "width": w, "height": h, "source": desc, "hints": hdesc}
	}
	if w != h {
		r.Tally("qrcode/decoder non-square inputs")
	}
	r.NontrivialH(hash64s("qrdec|" + desc + "|" + hdesc + fmt.Sprint(w, h, rng.Uint64())))
	return c06Judge(r, target, fmt.Sprintf("%s(%dx%d matrix [%s], hints {%s})", target, w, h, desc, hdesc), res != nil, err, msg, stack, panicked, false, data)
}

func c06DMDecOne(r *fw.Rec) bool {
	rng := r.Rng
	var m [][]bool
	var desc string
	switch k := rng.Intn(10); {
	case k < 6:
		m, desc = c06DMMatrix(rng, 30)
		if rng.Intn(3) != 0 {
			mut := 1 + rng.Intn(len(c06MutNames)-1)
			m = c06Mutate(rng, m, mut)
			desc += " mutation " + c06MutNames[mut]
		}
	case k < 8: // every legal size with arbitrary content, also turned
		syms := dmref.Symbols()
		s := syms[rng.Intn(len(syms))]
		w, h := s.Cols, s.Rows
		if rng.Intn(4) == 0 {
			w, h = h, w
		}
		m = c06RandomMatrix(rng, w, h)
		desc = fmt.Sprintf("random %dx%d", w, h)
	default:
		w, h := 1+rng.Intn(150), 1+rng.Intn(150)
		switch rng.Intn(4) {
		case 0:
			w, h = 1+rng.Intn(12), 1+rng.Intn(12)
		case 1:
			h = 2 * (1 + rng.Intn(72))
			w = h
		case 2:
			h = 2 * (4 + rng.Intn(69))
		}
		m = c06RandomMatrix(rng, w, h)
		desc = fmt.Sprintf("random %dx%d", w, h)
	}
	w, h := c06Dims(m)
	var res interface{}
	var err error
	target := "datamatrix/decoder.Decode"
	boolMap := rng.Intn(5) == 0
	if boolMap {
		target = "datamatrix/decoder.DecodeBoolMap"
	}
	msg, stack, panicked := fw.Guard(func() {
		var dr *common.DecoderResult
		var e error
		if boolMap {
			dr, e = dmdec.NewDecoder().DecodeBoolMap(m)
		} else {
			dr, e = dmdec.NewDecoder().Decode(c06BitMatrix(m))
		}
		err = e
		if dr != nil {
			res = dr
		}
	})
	data := func() map[string]interface{} {
		return map[string]interface{}{"matrix": c06MatrixText(m), "width": w, "height": h, "source": desc}
	}
	if w != h {
		r.Tally("datamatrix/decoder non-square inputs")
	}
	r.NontrivialH(hash64s("dmdec|" + desc + fmt.Sprint(w, h, rng.Uint64())))
	return c06Judge(r, target, fmt.Sprintf("%s(%dx%d matrix [%s])", target, w, h, desc), res != nil, err, msg, stack, panicked, false, data)
}

func c06AzDecOne(r *fw.Rec) bool {
	rng := r.Rng
	s := c06AztecSpec(rng, true)
	var m [][]bool
	var desc string
	nbData := 1
	switch k := rng.Intn(10); {
	case k < 6:
		sym := c06AztecSymbol(rng, s)
		if sym == nil {
			return true
		}
		m = copyBools(sym.Matrix)
		nbData = sym.DataWords
		desc = fmt.Sprintf("azref symbol, %d data words", nbData)
		switch rng.Intn(6) {
		case 0, 1: // clean
		case 2: // the number of data blocks does not match the symbol
			nbData = 1 + rng.Intn(s.TotalWords()+3)
			desc += fmt.Sprintf(", claimed %d", nbData)
		default:
			mut := 1 + rng.Intn(len(c06MutNames)-1)
			if rng.Bool() {
				mut = 1 // flips keep the size
			}
			m = c06Mutate(rng, m, mut)
			desc += " mutation " + c06MutNames[mut]
		}
	case k < 8: // right size, arbitrary content
		m = c06RandomMatrix(rng, s.Size(), s.Size())
		nbData = 1 + rng.Intn(s.TotalWords()+3)
		desc = "random matrix of the symbol size"
	default: // wrong sizes
		w, h := 1+rng.Intn(s.Size()+20), 1+rng.Intn(s.Size()+20)
		if rng.Bool() {
			h = w
		}
		if rng.Intn(4) == 0 {
			w, h = 1+rng.Intn(4), 1+rng.Intn(4)
		}
		m = c06RandomMatrix(rng, w, h)
		nbData = 1 + rng.Intn(s.TotalWords()+3)
		desc = "random matrix of another size"
	}
	w, h := c06Dims(m)
	var pts []gozxing.ResultPoint
	if rng.Bool() {
		pts = []gozxing.ResultPoint{gozxing.NewResultPoint(0, 0), gozxing.NewResultPoint(float64(w), 0), gozxing.NewResultPoint(float64(w), float64(h)), gozxing.NewResultPoint(0, float64(h))}
	}
	var res interface{}
	var err error
	target := "aztec/decoder.Decode"
	msg, stack, panicked := fw.Guard(func() {
		dr, e := azdec.NewDecoder().Decode(azdet.NewAztecDetectorResult(c06BitMatrix(m), pts, s.Compact, nbData, s.Layers))
		err = e
		if dr != nil {
			res = dr
		}
	})
	data := func() map[string]interface{} {
		return map[string]interface{}{"matrix": c06MatrixText(m), "width": w, "height": h, "compact": s.Compact, "layers": s.Layers, "nb_datablocks": nbData, "source": desc}
	}
	if w != s.Size() || h != s.Size() {
		r.Tally(target + " inputs of another size than the layer count implies")
	}
	r.NontrivialH(hash64s("azdec|" + desc + fmt.Sprint(w, h, s, nbData, rng.Uint64())))
	return c06Judge(r, target, fmt.Sprintf("%s(%dx%d matrix, compact=%v, layers=%d, nbDatablocks=%d [%s])", target, w, h, s.Compact, s.Layers, nbData, desc), res != nil, err, msg, stack, panicked, false, data)
}

// c06AzDecSweep: every symbol size x the data-block counts a mode message can announce at the
// boundaries (1.., around the word-size classes, around the symbol's own total, the largest
// announceable count), on arbitrary content of the right size.
func c06AzDecSweep(r *fw.Rec, s azref.Spec) bool {
	rng := r.Rng
	T := s.TotalWords()
	announce := 2048
	if s.Compact {
		announce = 64
	}
	counts := []int{1, 2, 3, 4, 8, 16, 32, 64, 80, 81, 100, T / 2, T - 4, T - 3, T - 2, T - 1, T, T + 1, announce - 1, announce}
	for i := 0; i < 4; i++ {
		counts = append(counts, 1+rng.Intn(announce))
	}
	target := "aztec/decoder.Decode"
	for _, nbData := range counts {
		if nbData < 1 || nbData > announce {
			continue
		}
		m := c06RandomMatrix(rng, s.Size(), s.Size())
		var res interface{}
		var err error
		msg, stack, panicked := fw.Guard(func() {
			dr, e := azdec.NewDecoder().Decode(azdet.NewAztecDetectorResult(c06BitMatrix(m), nil, s.Compact, nbData, s.Layers))
			err = e
			if dr != nil {
				res = dr
			}
		})
		data := func() map[string]interface{} {
			return map[string]interface{}{"matrix": c06MatrixText(m), "width": s.Size(), "height": s.Size(), "compact": s.Compact, "layers": s.Layers, "nb_datablocks": nbData, "source": "size x announced-count sweep"}
		}
		r.Tally("aztec/decoder.Decode size x announced data-block count sweep")
		r.NontrivialH(hash64s(fmt.Sprint("azsweep|", s, nbData)))
		if !c06Judge(r, target, fmt.Sprintf("%s(random %dx%d matrix, compact=%v, layers=%d, nbDatablocks=%d)", target, s.Size(), s.Size(), s.Compact, s.Layers, nbData), res != nil, err, msg, stack, panicked, false, data) {
			return false
		}
	}
	return true
}

// ---------------------------------------------------------------------------
// bit-stream parsers
// ---------------------------------------------------------------------------

var c06QRVersions = []int{1, 9, 10, 26, 27, 40}
var c06QRLevels = []qrdec.ErrorCorrectionLevel{qrdec.ErrorCorrectionLevel_L, qrdec.ErrorCorrectionLevel_M, qrdec.ErrorCorrectionLevel_Q, qrdec.ErrorCorrectionLevel_H}

func c06QRParse(r *fw.Rec, bytes []byte, version int, hints map[gozxing.DecodeHintType]interface{}, hdesc, desc string) bool {
	target := "qrcode/decoder.DecodedBitStreamParser_Decode"
	var res interface{}
	var err error
	msg, stack, panicked := fw.Guard(func() {
		v, e := qrdec.Version_GetVersionForNumber(version)
		if e != nil {
			panic(e)
		}
		dr, e := qrdec.DecodedBitStreamParser_Decode(bytes, v, c06QRLevels[version%4], hints)
		err = e
		if dr != nil {
			res = dr
		}
	})
	data := func() map[string]interface{} {
		return map[string]interface{}{"bytes_hex": fmt.Sprintf("%x", bytes), "version": version, "hints": hdesc, "source": desc}
	}
	return c06Judge(r, target, fmt.Sprintf("%s(%d bytes %x, version %d, hints {%s}) [%s]", target, len(bytes), clipBytes(bytes, 40), version, hdesc, desc), res != nil, err, msg, stack, panicked, false, data)
}

func clipBytes(b []byte, n int) []byte {
	if len(b) > n {
		return b[:n]
	}
	return b
}

// qr count-field widths (ISO/IEC 18004 Table 3): numeric, alphanumeric, byte, kanji
func c06QRCountBits(modeNibble, version int) int {
	cls := 0
	if version >= 10 {
		cls = 1
	}
	if version >= 27 {
		cls = 2
	}
	switch modeNibble {
	case 1:
		return []int{10, 12, 14}[cls]
	case 2:
		return []int{9, 11, 13}[cls]
	case 4:
		return []int{8, 16, 16}[cls]
	case 8, 13:
		return []int{8, 10, 12}[cls]
	}
	return 0
}

func c06PutECI(w *c06BitWriter, value, form int) {
	switch form {
	case 1:
		w.put(value&0x7F, 8)
	case 2:
		w.put(0x8000|value&0x3FFF, 16)
	default:
		w.put(0xC00000|value&0x1FFFFF, 24)
	}
}

// c06QRStream draws a segment sequence; most fields are plausible, any may be hostile.
func c06QRStream(rng *fw.Rand, version int) (*c06BitWriter, string) {
	w := &c06BitWriter{}
	desc := ""
	nseg := 1 + rng.Intn(5)
	for s := 0; s < nseg; s++ {
		mode := []int{1, 2, 4, 8, 7, 3, 5, 9, 13, 0}[rng.Intn(10)]
		if rng.Intn(8) == 0 {
			mode = rng.Intn(16)
		}
		w.put(mode, 4)
		desc += fmt.Sprintf("%x", mode)
		switch mode {
		case 0:
			if rng.Bool() {
				return w, desc
			}
		case 7:
			form := 1 + rng.Intn(3)
			v := []int{0, 1, 2, 3, 20, 26, 27, 170, 899, 900, 16383, 16384, 999999, 2097151}[rng.Intn(14)]
			if rng.Bool() {
				v = rng.Intn(1 << uint(7*form))
			}
			if rng.Intn(10) == 0 {
				w.put(0xE0|rng.Intn(32), 8) // first byte 111xxxxx: no legal form
			} else {
				c06PutECI(w, v, form)
			}
		case 3:
			w.put(rng.Intn(65536), 16)
		case 5:
		case 9:
			w.put(rng.Intn(256), 8)
		case 13:
			w.put([]int{1, 1, 1, 0, 2, 15}[rng.Intn(6)], 4)
			fallthrough
		case 1, 2, 4, 8:
			cb := c06QRCountBits(mode, version)
			n := rng.Intn(12)
			switch rng.Intn(8) {
			case 0:
				n = 0
			case 1:
				n = 1<<uint(cb) - 1
			case 2:
				n = rng.Intn(1 << uint(cb))
			}
			w.put(n, cb)
			per := map[int]int{1: 10, 2: 11, 4: 8, 8: 13, 13: 13}[mode]
			div := map[int]int{1: 3, 2: 2, 4: 1, 8: 1, 13: 1}[mode]
			nbits := (n*per + div - 1) / div
			if nbits > 600 {
				nbits = 600
			}
			switch rng.Intn(6) {
			case 0: // payload shorter than announced
				nbits = rng.Intn(nbits + 1)
			}
			for i := 0; i < nbits; i++ {
				w.put(rng.Intn(2), 1)
			}
		}
	}
	return w, desc
}

// c06QRFNC1Percent: every alphanumeric text of 1..5 characters over {A, 1, %} (in a GS1 / AIM
// symbol '%' is an escape: "%%" is a percent sign, a single '%' the separator GS), alone and
// followed by a second segment, after FNC1 in first position, FNC1 in second position, and
// without FNC1; with and without terminator.
func c06QRFNC1Percent(r *fw.Rec) {
	alpha := "A1%"
	var texts []string
	var gen func(prefix string, n int)
	gen = func(prefix string, n int) {
		if len(prefix) > 0 {
			texts = append(texts, prefix)
		}
		if n == 0 {
			return
		}
		for i := 0; i < len(alpha); i++ {
			gen(prefix+string(alpha[i]), n-1)
		}
	}
	gen("", 5)
	for _, version := range []int{1, 10, 27} {
		for _, text := range texts {
			for fnc := 0; fnc < 3; fnc++ {
				for tail := 0; tail < 3; tail++ {
					w := &c06BitWriter{}
					switch fnc {
					case 1:
						w.put(5, 4)
					case 2:
						w.put(9, 4)
						w.put(37+len(text), 8)
					}
					segs := []qrref.Segment{{Mode: qrref.Alphanumeric, Data: []byte(text), ECI: -1}}
					if tail == 1 {
						segs = append(segs, qrref.Segment{Mode: qrref.Numeric, Data: []byte("42"), ECI: -1})
					}
					w.bits = append(w.bits, qrref.EncodeSegments(version, segs)...)
					if tail == 2 {
						w.put(0, 4)
					}
					desc := fmt.Sprintf("FNC1 variant %d, alphanumeric %q, tail %d", fnc, text, tail)
					if !c06QRParse(r, w.bytes(len(w.bits), false), version, nil, "nil", desc) {
						return
					}
					r.Tally("qr alphanumeric segments with percent signs after FNC1")
				}
			}
		}
	}
	r.Nontrivial("qr-fnc1-percent")
}

func c06QRBitsCase(r *fw.Rec, n int) {
	rng := r.Rng
	for i := 0; i < n; i++ {
		version := c06QRVersions[rng.Intn(len(c06QRVersions))]
		if rng.Intn(4) == 0 {
			version = 1 + rng.Intn(40)
		}
		hints, hdesc := c06Hints(rng, 0, nil)
		switch rng.Intn(4) {
		case 0: // arbitrary bytes
			b := rng.Bytes(rng.Intn(40))
			if !c06QRParse(r, b, version, hints, hdesc, "random bytes") {
				return
			}
			r.NontrivialH(hash64s(fmt.Sprintf("qrbits|%x|%d|%s", b, version, hdesc)))
		case 1: // valid segments from the reference encoder, truncated at every bit
			mode := qrAllModes[rng.Intn(4)]
			_, segs, _ := qrPayload(rng, mode, 1+rng.Intn(12))
			if rng.Intn(3) == 0 {
				segs = append([]qrref.Segment{{Mode: qrref.ModeECI, ECI: []int{3, 20, 26, 25, 29, 19, 900, 30}[rng.Intn(8)]}}, segs...)
			}
			w := &c06BitWriter{bits: qrref.EncodeSegments(version, segs)}
			pad := rng.Bool()
			for k := 0; k <= len(w.bits); k++ {
				if !c06QRParse(r, w.bytes(k, pad), version, hints, hdesc, fmt.Sprintf("valid %s stream of %d bits cut after bit %d", qrModeName[mode], len(w.bits), k)) {
					return
				}
			}
			r.NontrivialH(hash64s(fmt.Sprintf("qrbits|%s|%d|%s", c06BitsStr(w.bits), version, hdesc)))
			r.Tally("qr streams truncated at every bit")
		default:
			w, desc := c06QRStream(rng, version)
			k := len(w.bits)
			if rng.Intn(3) == 0 {
				k = rng.Intn(k + 1)
			}
			b := w.bytes(k, rng.Bool())
			if rng.Intn(4) == 0 {
				b = append(b, rng.Bytes(rng.Intn(4))...)
			}
			if !c06QRParse(r, b, version, hints, hdesc, "segments "+desc) {
				return
			}
			r.NontrivialH(hash64s(fmt.Sprintf("qrbits|%x|%d|%s", b, version, hdesc)))
		}
	}
}

// c06QRModes: every mode nibble x every version class, with and without payload.
func c06QRModes(r *fw.Rec) {
	for _, version := range c06QRVersions {
		for mode := 0; mode < 16; mode++ {
			for variant := 0; variant < 6; variant++ {
				w := &c06BitWriter{}
				w.put(mode, 4)
				switch variant {
				case 0: // nothing follows
				case 1:
					w.put(0, 20)
				case 2:
					w.put(0xFFFFF, 20)
					w.put(0xFFFFF, 20)
				case 3: // count 1 and a few payload bits
					if mode == 13 {
						w.put(1, 4)
					}
					w.put(1, maxInt(1, c06QRCountBits(mode, version)))
					w.put(0x155, 13)
				case 4:
					w.put(int(r.Rng.Uint64()&0xFFFFF), 20)
					w.put(int(r.Rng.Uint64()&0xFFFFF), 20)
				case 5:
					w.put(1, 1)
				}
				if !c06QRParse(r, w.bytes(len(w.bits), false), version, nil, "nil", fmt.Sprintf("mode nibble %x variant %d", mode, variant)) {
					return
				}
				r.Tally("qr mode nibble x version class")
			}
		}
	}
	r.Nontrivial("qrmodes")
}

// c06QRECI: ECI designator values lo..hi-1 (step) in every byte form that can carry them,
// followed by a two-byte byte-mode segment and a terminator.
func c06QRECI(r *fw.Rec, lo, hi, step int) {
	for v := lo; v < hi; v += step {
		for form := 1; form <= 3; form++ {
			if form == 1 && v > 127 || form == 2 && v > 16383 || v > 2097151 {
				continue
			}
			w := &c06BitWriter{}
			w.put(7, 4)
			c06PutECI(w, v, form)
			w.put(4, 4)
			w.put(2, 8)
			w.put(0x41C3, 16)
			w.put(0, 4)
			if !c06QRParse(r, w.bytes(len(w.bits), false), 1, nil, "nil", fmt.Sprintf("ECI %d in %d-byte form + byte segment", v, form)) {
				return
			}
			r.Tally("qr ECI designators")
		}
	}
	r.Nontrivial(fmt.Sprintf("qreci|%d|%d|%d", lo, hi, step))
}

func c06DMParse(r *fw.Rec, bytes []byte, desc string) bool {
	target := "datamatrix/decoder.DecodedBitStreamParser_decode"
	var res interface{}
	var err error
	msg, stack, panicked := fw.Guard(func() {
		dr, e := dmdec.DecodedBitStreamParser_decode(bytes)
		err = e
		if dr != nil {
			res = dr
		}
	})
	data := func() map[string]interface{} {
		return map[string]interface{}{"bytes_hex": fmt.Sprintf("%x", bytes), "source": desc}
	}
	return c06Judge(r, target, fmt.Sprintf("%s(%d bytes %x) [%s]", target, len(bytes), clipBytes(bytes, 40), desc), res != nil, err, msg, stack, panicked, false, data)
}

var c06DMLatches = []byte{230, 231, 235, 238, 239, 240, 241, 232, 233, 234, 236, 237, 254, 129, 0}

func c06DMBitsCase(r *fw.Rec, n int) {
	rng := r.Rng
	for i := 0; i < n; i++ {
		var b []byte
		desc := ""
		switch rng.Intn(5) {
		case 0:
			b = rng.Bytes(rng.Intn(40))
			desc = "random bytes"
		case 1: // latch then arbitrary bytes
			b = append([]byte{c06DMLatches[rng.Intn(len(c06DMLatches))]}, rng.Bytes(rng.Intn(12))...)
			if rng.Bool() {
				b = append(dmref.EncodeASCII([]byte(fromAlphabet(rng, "ab01", rng.Intn(4)))), b...)
			}
			desc = "latch + random"
		case 2: // valid ASCII stream with pads, truncated at every byte
			full := dmref.PadTo(dmref.EncodeASCII([]byte(fromAlphabet(rng, "abcxyz0123456789 \x80\xff", 1+rng.Intn(10)))), 8+rng.Intn(20))
			for k := 0; k <= len(full); k++ {
				if !c06DMParse(r, full[:k], fmt.Sprintf("valid ASCII stream cut after %d of %d", k, len(full))) {
					return
				}
			}
			r.Tally("dm streams truncated at every byte")
			b = full
			desc = "valid ASCII stream"
		case 3: // several latched segments, values drawn from the codeword classes
			for s := 0; s < 1+rng.Intn(4); s++ {
				b = append(b, c06DMLatches[rng.Intn(7)])
				for k := 0; k < rng.Intn(8); k++ {
					switch rng.Intn(4) {
					case 0:
						b = append(b, 254)
					case 1:
						b = append(b, byte(1+rng.Intn(128)))
					default:
						b = append(b, byte(rng.Intn(256)))
					}
				}
			}
			desc = "latched segments"
		default: // Base 256 with every kind of length field
			b = []byte{231}
			pos := 2
			rand255 := func(v int) byte {
				t := v + (149*pos)%255 + 1
				pos++
				if t > 255 {
					t -= 256
				}
				return byte(t)
			}
			switch rng.Intn(4) {
			case 0:
				b = append(b, rand255(0))
			case 1:
				b = append(b, rand255(1+rng.Intn(249)))
			default:
				b = append(b, rand255(250+rng.Intn(6)), rand255(rng.Intn(256)))
			}
			b = append(b, rng.Bytes(rng.Intn(30))...)
			desc = "base 256"
		}
		if !c06DMParse(r, b, desc) {
			return
		}
		r.NontrivialH(hash64s(fmt.Sprintf("dmbits|%x", b)))
	}
}

// c06DMExhaustive: every stream prefix+[a b] for a in lo..hi-1, b in 0..255 (and the shorter ones).
func c06DMExhaustive(r *fw.Rec, prefix []byte, lo, hi int) {
	if lo == 0 {
		if !c06DMParse(r, append([]byte{}, prefix...), "exhaustive") {
			return
		}
	}
	for a := lo; a < hi; a++ {
		if !c06DMParse(r, append(append([]byte{}, prefix...), byte(a)), "exhaustive") {
			return
		}
		for b := 0; b < 256; b++ {
			if !c06DMParse(r, append(append([]byte{}, prefix...), byte(a), byte(b)), "exhaustive") {
				return
			}
		}
	}
	r.Nontrivial(fmt.Sprintf("dmexh|%x|%d", prefix, lo))
}

func c06AzParse(r *fw.Rec, bits []bool, desc string) bool {
	target := "aztec/decoder.HighLevelDecode"
	var s string
	var err error
	returned := false
	msg, stack, panicked := fw.Guard(func() {
		s, err = azdec.NewDecoder().HighLevelDecode(bits)
		returned = true
	})
	_ = s
	data := func() map[string]interface{} {
		return map[string]interface{}{"bits": c06BitsStr(bits), "nbits": len(bits), "source": desc}
	}
	// the result is a string: "neither" cannot be observed; a non-nil error is the refusal
	return c06Judge(r, target, fmt.Sprintf("%s(%d bits %s) [%s]", target, len(bits), trunc(c06BitsStr(bits), 80), desc), returned && err == nil, err, msg, stack, panicked, false, data)
}

// c06AzFLG: P/S, FLG(n), the digits (value+2 each), then "A".
func c06AzFLG(n int, digits []int, tail bool) []bool {
	w := &c06BitWriter{}
	w.put(0, 5) // P/S in Upper
	w.put(0, 5) // FLG(n) in Punct
	w.put(n, 3)
	for _, d := range digits {
		w.put(d, 4)
	}
	if tail {
		w.put(2, 5) // 'A'
	}
	return w.bits
}

func c06AzBitsCase(r *fw.Rec, n int) {
	rng := r.Rng
	for i := 0; i < n; i++ {
		switch rng.Intn(5) {
		case 0: // arbitrary bits, all lengths from 0
			m := rng.Intn(40)
			if rng.Intn(3) == 0 {
				m = rng.Intn(600)
			}
			bits := make([]bool, m)
			for k := range bits {
				bits[k] = rng.Bool()
			}
			if !c06AzParse(r, bits, "random bits") {
				return
			}
			r.NontrivialH(hash64s("azbits|" + c06BitsStr(bits)))
		case 1: // valid token stream cut after every bit
			bits, _ := azref.RandomTokens(rng, 5+rng.Intn(200))
			for k := 0; k <= len(bits); k++ {
				if !c06AzParse(r, bits[:k], fmt.Sprintf("valid token stream of %d bits cut after %d", len(bits), k)) {
					return
				}
			}
			r.Tally("aztec streams truncated at every bit")
			r.NontrivialH(hash64s("azbits|" + c06BitsStr(bits)))
		case 2: // valid token stream with flipped bits
			bits, _ := azref.RandomTokens(rng, 5+rng.Intn(400))
			bits = append([]bool{}, bits...)
			for k := 0; k < 1+rng.Intn(4); k++ {
				p := rng.Intn(len(bits))
				bits[p] = !bits[p]
			}
			if !c06AzParse(r, bits, "valid token stream with flipped bits") {
				return
			}
			r.NontrivialH(hash64s("azbits|" + c06BitsStr(bits)))
		default: // FLG(n) with n digits, digits possibly out of range, possibly cut
			nd := rng.Intn(8)
			var digits []int
			cnt := nd
			if rng.Intn(4) == 0 {
				cnt = rng.Intn(8)
			}
			for k := 0; k < cnt; k++ {
				d := 2 + rng.Intn(10)
				if rng.Intn(10) == 0 {
					d = rng.Intn(16)
				}
				digits = append(digits, d)
			}
			bits := c06AzFLG(nd, digits, rng.Bool())
			if rng.Intn(3) == 0 { // data before
				pre, _ := azref.RandomTokens(rng, 5+rng.Intn(40))
				bits = append(append([]bool{}, pre...), bits...)
			}
			if rng.Intn(4) == 0 {
				bits = bits[:rng.Intn(len(bits)+1)]
			}
			if !c06AzParse(r, bits, fmt.Sprintf("FLG(%d) digits %v", nd, digits)) {
				return
			}
			r.NontrivialH(hash64s("azbits|" + c06BitsStr(bits)))
		}
	}
}

// c06AzExhaustive: every bit string of the given length whose first `fixed` bits are `prefix`.
func c06AzExhaustive(r *fw.Rec, length, fixed, prefix int) {
	bits := make([]bool, length)
	free := length - fixed
	for v := 0; v < 1<<uint(free); v++ {
		for i := 0; i < fixed; i++ {
			bits[i] = prefix>>uint(fixed-1-i)&1 == 1
		}
		for i := 0; i < free; i++ {
			bits[fixed+i] = v>>uint(free-1-i)&1 == 1
		}
		if !c06AzParse(r, bits, "exhaustive") {
			return
		}
	}
	r.Nontrivial(fmt.Sprintf("azexh|%d|%d|%d", length, fixed, prefix))
}

// c06AzECI: FLG(n) + the decimal digits of every ECI value lo..hi-1 (step), followed by one character.
func c06AzECI(r *fw.Rec, lo, hi, step int) {
	for v := lo; v < hi; v += step {
		s := fmt.Sprint(v)
		digits := make([]int, len(s))
		for i := range s {
			digits[i] = int(s[i]-'0') + 2
		}
		if !c06AzParse(r, c06AzFLG(len(digits), digits, true), fmt.Sprintf("FLG(%d) ECI %d + 'A'", len(digits), v)) {
			return
		}
		r.Tally("aztec ECI designators")
	}
	r.Nontrivial(fmt.Sprintf("azeci|%d|%d|%d", lo, hi, step))
}

// ---------------------------------------------------------------------------

func c06(c *fw.Ctx) {
	c.Rule("19 reader configurations (QR, Data Matrix, Aztec, QR multi reader through Decode and DecodeMultiple, EAN-13, EAN-8, UPC-A, UPC-E, multi-format UPC/EAN with and without POSSIBLE_FORMATS, Code 39 x {check, extended}, Code 93, Code 128, ITF, Codabar, RSS-14), each on seeded images through BOTH the hybrid and the global-histogram binariser (a quarter of them handed over as packed-RGB or planar-YUV luminance sources, which cannot be rotated): valid symbols of the reader's symbology (library writers, qrref/dmref/azref/onedref, an RSS-14 encoder) unmutated in a scanner-friendly rendering, or mutated at module level (flips, row/column deletion and duplication, crops through finder/guards, pasted noise, truncation, mirroring/inversion, combinations) and rendered with scale 1-4, quiet zone 0-10, arbitrary grey levels incl. low contrast, grey ramps, pixel noise and flips, alpha (NRGBA constant / noisy / symbol carried by alpha), RGBA tints, Gray16, Paletted, sub-images with a non-zero origin, canvases of 39/40/41 pixels and up to 800 pixels, one image in five turned by an arbitrary angle / sheared / scaled by a real factor; every second case keeps one reader instance for all its images; symbols of other symbologies; synthetic images (noise, constant, 1x1..3x3, stripes, checkerboards, finder look-alikes, a few bars and dots - the latter also in bulk under PURE_BARCODE for the 2-D readers); hint maps over all twelve decode hints with well-typed values. Every RowDecoder on rows (random runs of length 1..400, symbol rows clean / with odd margins / mutated / ending mid-symbol, rows ending at every pixel of a symbol's last 14 modules with the row length 0/1/31 modulo 32, every row of length 1..12). The three raw decoders on valid, mutated, arbitrary, tiny and non-square matrices (Aztec: all 36 sizes, matching and non-matching matrix sizes and data-block counts, plus every size x the boundary data-block counts a mode message can announce). The Reed-Solomon decoder on codewords plus multiples of arbitrary subsets of the generator's factors (chosen syndromes vanish, far beyond the capacity). A valid QR symbol of every (version, level) through the raw decoder, and symbols of versions 7..40 whose version-information blocks carry the valid word of another version. The three bit-stream parsers on random bytes/bits, reference-encoded streams cut after every bit (byte for Data Matrix), hostile segment sequences, every alphanumeric text of up to five characters over {A, 1, %} after FNC1 in first / second position, every QR mode nibble x version class, every ECI designator 0..999999 (QR: every byte form; Aztec: FLG(n) digits), every Data Matrix stream of up to two codewords (thorough: three after each latch), every Aztec bit string up to 14 (thorough: 18) bits. Structured-append QR symbol sets (2..4 members built by qrref, byte/alphanumeric/numeric/kanji data, optional ECI, complete and incomplete) side by side through DecodeMultiple and single members through QRCodeReader. Three QR entry points on images tiled with finder patterns of growing side 40..520 with the CPU time of each call measured. Per call: recover(), CPU/heap budget, exactly one of result/error, and for the image-level readers an error of the NotFound/Checksum/Format kinds. distinct = distinct (target, input description, hints)")
	c.Assume("hint values have the Go types the readers assert (flag hints: any value incl. nil, as documented; CHARACTER_SET: string or encoding.Encoding; []gozxing.BarcodeFormat; []int; gozxing.ResultPointCallback incl. a nil one); images are at least 1x1, rows at least 1 long; Aztec detector results name 1..32 layers (compact 1..4) and at least one data block")
	c.Assume("budget: the framework's 20 CPU-s / 1.5 GiB per case; in the tiled-finder-pattern cases one call needing more than 2 CPU-s on an image of at most 520x520 pixels is charged (signature <target>:budget:tiled-finder-patterns) because the following sizes of the escalation exceed the case budget (measured: DecodeMultiple 200x200 = 50 CPU-s)")
	c.Assume("DESIGN C06 don't-care: DecodeMultiple returning an empty non-nil slice with nil error; raw decoders, row decoders and parsers may return any non-nil error (kind tallied, not charged); results are not checked for content")

	nsa := c.Pick(150, 4000)
	for i := 0; i < nsa; i++ {
		c.Run(fmt.Sprintf("sa/%d", i), func(r *fw.Rec) { c06SACase(r) })
	}
	c.Floor("sa_multi_results", int64(nsa/2))
	c.Floor("sa_multi_merged_results", int64(nsa/20))
	imgCases := c.Pick(600, 20000)
	rowCases := c.Pick(100, 4000)
	for ri := range c06Readers {
		rd := &c06Readers[ri]
		if !rd.oneD {
			for i := 0; i < c.Pick(12, 200); i++ {
				c.Run(fmt.Sprintf("pure/%s/%d", rd.name, i), func(r *fw.Rec) { c06PureDegenerate(r, rd) })
			}
		}
		for i := 0; i < imgCases; i++ {
			i := i
			c.Run(fmt.Sprintf("img/%s/%d", rd.name, i), func(r *fw.Rec) {
				var shared gozxing.Reader
				if i%2 == 1 { // odd cases keep one reader instance (buffers, RSS pair lists) for all their images
					shared = rd.mk(nil)
				}
				for k := 0; k < 8; k++ {
					if !c06ImageOne(r, rd, !c.Quick() || i%4 == 0, shared) {
						return
					}
				}
				if i == 0 && ri < 3 {
					r.Sample(map[string]interface{}{"target": rd.name + ".Decode", "images_per_case": 8, "binarizers": "hybrid, global", "note": "each image is drawn from: own symbology clean / mutated, foreign symbology, synthetic"})
				}
			})
		}
		c.Floor(rd.name+".Decode result", 500)
		c.Floor(rd.name+".Decode errors", 1500)
		if rd.multi {
			c.Floor(rd.name+".DecodeMultiple result", 500)
			c.Floor(rd.name+".DecodeMultiple errors", 1500)
			c.Floor(rd.name+".DecodeMultiple several results", 100)
		}
		if !rd.oneD {
			continue
		}
		for i := 0; i < rowCases; i++ {
			i := i
			c.Run(fmt.Sprintf("row/%s/%d", rd.name, i), func(r *fw.Rec) {
				c06RowCase(r, rd, 60)
				if i == 0 && ri == 4 {
					r.Sample(map[string]interface{}{"target": rd.name + ".DecodeRow", "rows_per_case": 60})
				}
			})
		}
		for length := 1; length <= 12; length++ {
			length := length
			c.Run(fmt.Sprintf("rowexh/%s/%d", rd.name, length), func(r *fw.Rec) { c06RowExhaustive(r, rd, length) })
		}
		for k := 0; k < 4; k++ {
			k := k
			c.Run(fmt.Sprintf("rowtail/%s/%d", rd.name, k), func(r *fw.Rec) { c06RowTail(r, rd, k) })
		}
		if rd.name == "Code128Reader" {
			for start := 103; start <= 105; start++ {
				start := start
				c.Run(fmt.Sprintf("code128-short/%d", start), func(r *fw.Rec) { c06Code128Short(r, rd, start) })
			}
			c.Floor("code128 short symbols (1-2 characters, all values)", 3*(1+106+106*106))
		}
		c.Floor(rd.name+".DecodeRow result", 500)
		c.Floor(rd.name+".DecodeRow errors", 5000)
	}
	for which := 0; which < 3; which++ {
		which := which
		c.Run(fmt.Sprintf("grid/%d", which), func(r *fw.Rec) { c06GridCase(r, which) })
	}
	c.Floor("tiled finder pattern images", 20)
	c.Exhaustive("every row of length 1..12 through every RowDecoder (nil hints)")
	c.Floor("binarizer hybrid results", 5000)
	c.Floor("binarizer global results", 5000)
	c.Floor("binarizer hybrid errors", 20000)
	c.Floor("binarizer global errors", 20000)
	c.Floor("images with a side >= 600", 200)
	c.Floor("images with a side of 39..41", 1000)
	c.Floor("images up to 3x3", 200)
	c.Floor("calls on a reused reader instance", 10000)

	decCases := c.Pick(500, 16000)
	for i := 0; i < decCases; i++ {
		i := i
		c.Run(fmt.Sprintf("qrdec/%d", i), func(r *fw.Rec) {
			for k := 0; k < 10; k++ {
				if !c06QRDecOne(r) {
					return
				}
			}
			if i == 0 {
				r.Sample(map[string]interface{}{"target": "qrcode/decoder.Decode", "matrices_per_case": 10})
			}
		})
		c.Run(fmt.Sprintf("dmdec/%d", i), func(r *fw.Rec) {
			for k := 0; k < 10; k++ {
				if !c06DMDecOne(r) {
					return
				}
			}
		})
		c.Run(fmt.Sprintf("azdec/%d", i), func(r *fw.Rec) {
			for k := 0; k < 10; k++ {
				if !c06AzDecOne(r) {
					return
				}
			}
		})
	}
	for si, spec := range azref.AllSpecs() {
		spec := spec
		c.Run(fmt.Sprintf("azsweep/%d", si), func(r *fw.Rec) { c06AzDecSweep(r, spec) })
	}
	c.Floor("aztec/decoder.Decode size x announced data-block count sweep", 700)
	c.Floor("rows ending in the last modules of a symbol, length 0/1/31 mod 32", 20000)
	c.Floor("pure-barcode reads of images of a few bars and dots", 10000)
	c.Floor("images through the RGB / planar YUV luminance sources", 10000)
	for _, t := range []string{"qrcode/decoder.Decode", "datamatrix/decoder.Decode", "aztec/decoder.Decode"} {
		c.Floor(t+" result", 300)
		c.Floor(t+" errors", 1000)
	}
	c.Floor("qrcode/decoder non-square inputs", 500)
	c.Floor("datamatrix/decoder non-square inputs", 500)
	c.Floor("qrcode/decoder.DecodeBoolMap result", 50)
	c.Floor("datamatrix/decoder.DecodeBoolMap result", 50)
	c.Floor("qrcode/decoder.DecodeBoolMap errors", 50)
	c.Floor("datamatrix/decoder.DecodeBoolMap errors", 50)
	c.Floor("images rotated / sheared", 3000)
	c.Floor("aztec/decoder.Decode inputs of another size than the layer count implies", 300)

	for i := 0; i < c.Pick(60, 1500); i++ {
		c.Run(fmt.Sprintf("rs-structured/%d", i), func(r *fw.Rec) { c06RSStructured(r) })
	}
	c.Floor("reedsolomon.ReedSolomonDecoder.Decode structured words refused", 1000)
	for v := 1; v <= 40; v++ {
		v := v
		c.Run(fmt.Sprintf("qrall/%d", v), func(r *fw.Rec) { c06QRAllConfigs(r, v) })
	}
	c.Floor("qr (version, level) pairs through the raw decoder", 150)
	for v := 7; v <= 40; v++ {
		v := v
		c.Run(fmt.Sprintf("qrforeign/%d", v), func(r *fw.Rec) { c06QRForeignVersionWord(r, v) })
	}
	c.Floor("qr symbols with a foreign version word", 400)
	c.Run("qr-fnc1-percent", func(r *fw.Rec) { c06QRFNC1Percent(r) })
	for si := range dmref.Symbols() {
		si := si
		c.Run(fmt.Sprintf("dm-valid/%d", si), func(r *fw.Rec) { c06DMValidAllSizes(r, si) })
	}
	c.Floor("dm standard constructions decoded", 200)
	for part := 0; part <= 4; part++ {
		part := part
		c.Run(fmt.Sprintf("qr-short-payloads/%d", part), func(r *fw.Rec) { c06QRShortPayloads(r, part) })
	}
	c.Floor("qr short byte payloads x hint sets (each parsed twice)", 15000)
	c.Floor("qr alphanumeric segments with percent signs after FNC1", 9000)
	bitCases := c.Pick(200, 6000)
	for i := 0; i < bitCases; i++ {
		i := i
		c.Run(fmt.Sprintf("qrbits/%d", i), func(r *fw.Rec) {
			c06QRBitsCase(r, 40)
			if i == 0 {
				r.Sample(map[string]interface{}{"target": "qrcode/decoder.DecodedBitStreamParser_Decode", "streams_per_case": 40})
			}
		})
		c.Run(fmt.Sprintf("dmbits/%d", i), func(r *fw.Rec) { c06DMBitsCase(r, 80) })
		c.Run(fmt.Sprintf("azbits/%d", i), func(r *fw.Rec) { c06AzBitsCase(r, 40) })
	}
	c.Run("qrmodes", c06QRModes)
	c.Exhaustive("QR: 16 mode nibbles x 6 version-class representatives x 6 continuations")
	c.Floor("qr mode nibble x version class", 576)
	// ECI designators
	eciStep := c.Pick(37, 1)
	for lo := 0; lo < 1000000; lo += 20000 {
		lo := lo
		c.Run(fmt.Sprintf("qreci/%d", lo), func(r *fw.Rec) {
			if lo == 0 {
				c06QRECI(r, 0, 20000, 1)
			} else {
				c06QRECI(r, lo, lo+20000, eciStep)
			}
		})
		c.Run(fmt.Sprintf("azeci/%d", lo), func(r *fw.Rec) {
			if lo == 0 {
				c06AzECI(r, 0, 20000, 1)
			} else {
				c06AzECI(r, lo, lo+20000, eciStep)
			}
		})
	}
	c.Run("qreci/above", func(r *fw.Rec) { c06QRECI(r, 1000000, 2097152, c.Pick(997, 13)) })
	if c.Quick() {
		c.Exhaustive("QR and Aztec ECI designators 0..19999 (QR: every byte form); 20000..999999 every 37th")
	} else {
		c.Exhaustive("QR ECI designators 0..999999 in every byte form; Aztec FLG(n) ECI designators 0..999999")
	}
	c.Floor("qr ECI designators", 60000)
	c.Floor("aztec ECI designators", 40000)
	// Data Matrix: every stream of up to two codewords
	for lo := 0; lo < 256; lo += 16 {
		lo := lo
		c.Run(fmt.Sprintf("dmexh/%d", lo), func(r *fw.Rec) { c06DMExhaustive(r, nil, lo, lo+16) })
	}
	c.Exhaustive("Data Matrix codeword streams of length 0, 1 and 2")
	if !c.Quick() {
		for _, latch := range []byte{230, 231, 235, 238, 239, 240, 241} {
			for lo := 0; lo < 256; lo += 16 {
				lo, latch := lo, latch
				c.Run(fmt.Sprintf("dmexh3/%d/%d", latch, lo), func(r *fw.Rec) { c06DMExhaustive(r, []byte{latch}, lo, lo+16) })
			}
		}
		c.Exhaustive("Data Matrix codeword streams of length 3 that begin with a latch or upper shift (230, 231, 235, 238-241)")
	}
	// Aztec: every short bit string
	maxLen := c.Pick(14, 18)
	for length := 0; length <= maxLen; length++ {
		length := length
		if length <= 12 {
			c.Run(fmt.Sprintf("azexh/%d", length), func(r *fw.Rec) { c06AzExhaustive(r, length, 0, 0) })
			continue
		}
		for p := 0; p < 1<<uint(length-12); p++ {
			p := p
			c.Run(fmt.Sprintf("azexh/%d/%d", length, p), func(r *fw.Rec) { c06AzExhaustive(r, length, length-12, p) })
		}
	}
	c.Exhaustive(fmt.Sprintf("Aztec HighLevelDecode on every bit string of 0..%d bits", maxLen))
	for _, t := range []string{"qrcode/decoder.DecodedBitStreamParser_Decode", "datamatrix/decoder.DecodedBitStreamParser_decode", "aztec/decoder.HighLevelDecode"} {
		c.Floor(t+" result", 1000)
		c.Floor(t+" errors", 1000)
	}
	c.Floor("qr streams truncated at every bit", 50)
	c.Floor("dm streams truncated at every byte", 50)
	c.Floor("aztec streams truncated at every bit", 50)
}

// ---------------------------------------------------------------------------
// Reed-Solomon decoder on structured received words
// ---------------------------------------------------------------------------

// c06RSStructured: received = codeword + e(x) where e(x) is a multiple of the product of an
// arbitrary subset of the generator's linear factors (so exactly the syndromes of that subset
// vanish - the upper half, the lower half, alternating ones, all but one ...), shifted to an
// arbitrary position; also words of all zeros / all ones / one symbol repeated.  Far beyond the
// correction capacity: any answer is acceptable except a panic or "neither".
func c06RSStructured(r *fw.Rec) {
	rng := r.Rng
	fields := []struct {
		ref gf.Field
		lib *reedsolomon.GenericGF
	}{
		{gf.QR256, reedsolomon.GenericGF_QR_CODE_FIELD_256}, {gf.DM256, reedsolomon.GenericGF_DATA_MATRIX_FIELD_256},
		{gf.Aztec16, reedsolomon.GenericGF_AZTEC_PARAM}, {gf.Aztec64, reedsolomon.GenericGF_AZTEC_DATA_6},
		{gf.Aztec1024, reedsolomon.GenericGF_AZTEC_DATA_10}, {gf.Aztec4096, reedsolomon.GenericGF_AZTEC_DATA_12},
	}
	target := "reedsolomon.ReedSolomonDecoder.Decode"
	for rep := 0; rep < 60; rep++ {
		f := fields[rng.Intn(len(fields))]
		size := f.ref.Size
		ec := 2 + rng.Intn(minInt(12, size-3))
		k := 1 + rng.Intn(minInt(20, size-1-ec))
		n := k + ec
		data := make([]int, k)
		for i := range data {
			data[i] = rng.Intn(size)
		}
		word := append(append([]int{}, data...), rs.Parity(f.ref, data, ec)...)
		desc := ""
		switch rng.Intn(8) {
		case 0:
			for i := range word {
				word[i] = 0
			}
			desc = "all zeros"
		case 1:
			v := rng.Intn(size)
			for i := range word {
				word[i] = v
			}
			desc = fmt.Sprintf("every symbol %d", v)
		default:
			// e(x) = prod_{j in S} (x + alpha^(base+j)) * x^shift * c
			var subset []int
			mode := rng.Intn(4)
			for j := 0; j < ec; j++ {
				in := false
				switch mode {
				case 0:
					in = j >= ec/2 // upper half of the syndromes vanish
				case 1:
					in = j < ec/2
				case 2:
					in = j%2 == 0
				default:
					in = rng.Intn(3) > 0
				}
				if in {
					subset = append(subset, j)
				}
			}
			if len(subset) >= n {
				subset = subset[:n-1]
			}
			e := []int{1 + rng.Intn(size-1)} // coefficients, highest degree first
			for _, j := range subset {
				root := f.ref.Pow((f.ref.Base + j) % (size - 1))
				ne := make([]int, len(e)+1)
				for i, c := range e {
					ne[i] ^= c
					ne[i+1] ^= f.ref.Mul(c, root)
				}
				e = ne
			}
			shift := rng.Intn(n - len(e) + 1)
			for i, c := range e {
				word[n-len(e)-shift+i] ^= c
			}
			desc = fmt.Sprintf("codeword + multiple of the generator factors %v shifted by %d", subset, shift)
		}
		recv := append([]int{}, word...)
		var err error
		msg, stack, panicked := fw.Guard(func() { err = reedsolomon.NewReedSolomonDecoder(f.lib).Decode(recv, ec) })
		r.Evals(1)
		if panicked {
			r.Violation("panic", target+":panic:"+fw.PanicSite(stack), fmt.Sprintf("%s(%s, n=%d, r=%d: %s) panicked: %s", target, f.ref.Name, n, ec, desc, msg), map[string]interface{}{"field": f.ref.Name, "word": word, "r": ec, "construction": desc})
			return
		}
		if err != nil {
			r.Tally(target + " structured words refused")
		} else {
			r.Tally(target + " structured words accepted")
		}
		r.NontrivialH(hashInts(word, []int{ec, size}))
	}
}

// c06QRAllConfigs: a valid symbol of every (version, level), through the raw decoder.
func c06QRAllConfigs(r *fw.Rec, v int) {
	rng := r.Rng
	for _, l := range qrAllLevels {
		mode := qrAllModes[rng.Intn(4)]
		n := qrLenIn(rng, v, l, mode)
		if n == 0 {
			continue
		}
		_, segs, _ := qrPayload(rng, mode, n)
		data, ok := qrref.DataCodewordsFor(v, l, segs)
		if !ok {
			continue
		}
		m := qrref.BuildMatrix(v, l, rng.Intn(8), data)
		var res interface{}
		var err error
		target := "qrcode/decoder.Decode"
		msg, stack, panicked := fw.Guard(func() {
			dr, e := qrdec.NewDecoder().Decode(c06BitMatrix(m), nil)
			err = e
			if dr != nil {
				res = dr
			}
		})
		data2 := func() map[string]interface{} {
			return map[string]interface{}{"version": v, "level": qrLevelName[l], "source": "qrref symbol of every (version, level)"}
		}
		if !c06Judge(r, target, fmt.Sprintf("%s(valid %d-%s symbol)", target, v, qrLevelName[l]), res != nil, err, msg, stack, panicked, false, data2) {
			return
		}
		r.Tally("qr (version, level) pairs through the raw decoder")
	}
	r.Nontrivial(fmt.Sprintf("qrall/%d", v))
}

// c06QRForeignVersionWord: a valid symbol of version v >= 7 whose version-information blocks
// (one or both) are overprinted with the valid word of ANOTHER version: metadata that
// contradicts the geometry.
func c06QRForeignVersionWord(r *fw.Rec, v int) {
	rng := r.Rng
	l := qrAllLevels[rng.Intn(4)]
	n := qrLenIn(rng, v, l, qrref.Byte)
	if n == 0 {
		return
	}
	_, segs, _ := qrPayload(rng, qrref.Byte, n)
	data, ok := qrref.DataCodewordsFor(v, l, segs)
	if !ok {
		return
	}
	base := qrref.BuildMatrix(v, l, rng.Intn(8), data)
	c1, c2 := qrref.VersionBitPositions(len(base))
	for _, w := range []int{7, 8, v - 1, v + 1, 40, 7 + rng.Intn(34)} {
		if w < 7 || w > 40 || w == v {
			continue
		}
		word := qrref.VersionWord(w)
		for which := 1; which <= 3; which++ {
			m := copyBools(base)
			for i := 0; i < 18; i++ {
				bit := word>>uint(i)&1 == 1
				if which&1 != 0 {
					m[c1[i][1]][c1[i][0]] = bit
				}
				if which&2 != 0 {
					m[c2[i][1]][c2[i][0]] = bit
				}
			}
			var res interface{}
			var err error
			target := "qrcode/decoder.Decode"
			msg, stack, panicked := fw.Guard(func() {
				dr, e := qrdec.NewDecoder().Decode(c06BitMatrix(m), nil)
				err = e
				if dr != nil {
					res = dr
				}
			})
			data2 := func() map[string]interface{} {
				return map[string]interface{}{"version": v, "level": qrLevelName[l], "version_word_of": w, "blocks_overprinted": which, "matrix": c06MatrixText(m)}
			}
			if !c06Judge(r, target, fmt.Sprintf("%s(version %d symbol, version block(s) %d carrying the word of version %d)", target, v, which, w), res != nil, err, msg, stack, panicked, false, data2) {
				return
			}
			r.Tally("qr symbols with a foreign version word")
		}
	}
	r.Nontrivial(fmt.Sprintf("qrforeign/%d", v))
}

// c06Code128Short: every Code 128 symbol of one or two characters after the start character
// (any of the 106 values, function / shift / code-set / start characters included), with its
// verifying check character and the stop pattern, through DecodeRow: the reader's end-of-symbol
// bookkeeping (what the last character was, how much of the text the check character "printed")
// works on whatever precedes the check, and short symbols are where it runs out of text.
func c06Code128Short(r *fw.Rec, rd *c06Reader, start int) {
	dec := rd.mk(nil).(oned.RowDecoder)
	try := func(vals []int) bool {
		full := append(append([]int{}, vals...), onedref.Code128Check(vals))
		p := onedref.Code128Pattern(full)
		row := make([]bool, 0, len(p)+24)
		row = append(row, make([]bool, 12)...)
		row = append(row, p...)
		row = append(row, make([]bool, 12)...)
		return c06RowCall(r, rd, dec, row, "code128-short", fmt.Sprintf("code128 values %v + check %d", vals, full[len(full)-1]), nil, "nil", 0)
	}
	if !try([]int{start}) {
		return
	}
	for v1 := 0; v1 <= 105; v1++ {
		if !try([]int{start, v1}) {
			return
		}
		for v2 := 0; v2 <= 105; v2++ {
			if !try([]int{start, v1, v2}) {
				return
			}
		}
	}
	r.TallyN("code128 short symbols (1-2 characters, all values)", 1+106+106*106)
	r.Nontrivial(fmt.Sprintf("code128-short/%s/%d", rd.name, start))
}

// c06DMValidAllSizes: the standard construction of every ECC 200 size (random codewords; clean,
// and with up to the correctable number of damaged codewords per block, and with one more) through
// both entry points of the decoder: what holds for random matrices must hold where Reed-Solomon
// succeeds and the parser runs over a full symbol.
func c06DMValidAllSizes(r *fw.Rec, si int) {
	rng := r.Rng
	s := dmref.Symbols()[si]
	for rep := 0; rep < 3; rep++ {
		data := make([]byte, s.DataCW)
		switch rep {
		case 0:
			for i := range data {
				data[i] = byte('0' + rng.Intn(10) + 1) // ASCII digits: the text is as long as the symbol allows
			}
		case 1:
			for i := range data {
				data[i] = byte(130 + rng.Intn(100)) // digit pairs: twice as long
			}
		default:
			for i := range data {
				data[i] = byte(rng.Uint64())
			}
		}
		clean := dmref.BuildMatrix(s, data)
		for dmg := 0; dmg < 3; dmg++ {
			m := make([][]bool, len(clean))
			for y := range clean {
				m[y] = append([]bool{}, clean[y]...)
			}
			if dmg > 0 {
				n := 1 + rng.Intn(4)
				if dmg == 2 {
					n = 3 + rng.Intn(40)
				}
				for k := 0; k < n; k++ {
					x, y := 1+rng.Intn(s.Cols-2), 1+rng.Intn(s.Rows-2)
					m[y][x] = !m[y][x]
				}
			}
			for api := 0; api < 2; api++ {
				target := []string{"datamatrix/decoder.Decode", "datamatrix/decoder.DecodeBoolMap"}[api]
				var res interface{}
				var err error
				msg, stack, panicked := fw.Guard(func() {
					var dr *common.DecoderResult
					var e error
					if api == 1 {
						dr, e = dmdec.NewDecoder().DecodeBoolMap(m)
					} else {
						dr, e = dmdec.NewDecoder().Decode(c06BitMatrix(m))
					}
					err = e
					if dr != nil {
						res = dr
					}
				})
				desc := fmt.Sprintf("standard construction of %dx%d, data kind %d, damage level %d", s.Rows, s.Cols, rep, dmg)
				data := func() map[string]interface{} {
					return map[string]interface{}{"matrix": c06MatrixText(m), "width": s.Cols, "height": s.Rows, "source": desc}
				}
				if !c06Judge(r, target, fmt.Sprintf("%s(%s)", target, desc), res != nil, err, msg, stack, panicked, false, data) {
					return
				}
				if res != nil {
					r.Tally("dm standard constructions decoded")
				}
			}
		}
	}
	r.Nontrivial(fmt.Sprintf("dm-valid/%d", si))
}
