//go:build verif

package main

import (
	"strings"

	"github.com/makiuchi-d/gozxing"
)

// shared helpers of the property drivers

func intsEq(a, b []int) bool {
	if (a == nil) != (b == nil) || len(a) != len(b) {
		return false
	}
	for i := range a {
		if a[i] != b[i] {
			return false
		}
	}
	return true
}

func rowFromBools(bs []bool) *gozxing.BitArray {
	a := gozxing.NewBitArray(len(bs))
	for i, v := range bs {
		if v {
			a.Set(i)
		}
	}
	return a
}

func firstWords(s string, n int) string {
	f := strings.Fields(s)
	if len(f) > n {
		f = f[:n]
	}
	w := strings.Join(f, " ")
	if i := strings.IndexAny(w, "(="); i > 0 {
		w = w[:i]
	}
	return w
}

func isNotFound(err error) bool {
	_, ok := err.(gozxing.NotFoundException)
	return ok
}

func boolsToStr(b []bool) string {
	s := make([]byte, len(b))
	for i, v := range b {
		if v {
			s[i] = '#'
		} else {
			s[i] = '.'
		}
	}
	return string(s)
}

func hashInts(a, b []int) uint64 {
	h := uint64(1469598103934665603)
	for _, v := range a {
		h = (h ^ uint64(v+1)) * 1099511628211
	}
	h = (h ^ 0xFF) * 1099511628211
	for _, v := range b {
		h = (h ^ uint64(v+1)) * 1099511628211
	}
	return h
}

func clip(a []int) []int {
	if len(a) > 40 {
		return a[:40]
	}
	return a
}

func trunc(s string, n int) string {
	if len(s) > n {
		return s[:n] + "…"
	}
	return s
}

func maxInt(a, b int) int {
	if a > b {
		return a
	}
	return b
}

func minInt(a, b int) int {
	if a < b {
		return a
	}
	return b
}

func hash64s(s string) uint64 {
	h := uint64(1469598103934665603)
	for i := 0; i < len(s); i++ {
		h = (h ^ uint64(s[i])) * 1099511628211
	}
	return h
}

// bitSubsets lists every subset of at most maxK (<= 3) of n bit positions.
func bitSubsets(n, maxK int) [][]int {
	var out [][]int
	out = append(out, nil)
	for a := 0; a < n; a++ {
		out = append(out, []int{a})
		if maxK >= 2 {
			for b := a + 1; b < n; b++ {
				out = append(out, []int{a, b})
				if maxK >= 3 {
					for c := b + 1; c < n; c++ {
						out = append(out, []int{a, b, c})
					}
				}
			}
		}
	}
	return out
}

func latin1Bytes(s string) []byte {
	out := make([]byte, 0, len(s))
	for _, r := range s {
		if r > 0xFF {
			out = append(out, '?')
		} else {
			out = append(out, byte(r))
		}
	}
	return out
}

func isLatin1(s string) bool {
	for _, r := range s {
		if r > 0xFF || r == 0xFFFD {
			return false
		}
	}
	return true
}

func latin1String(raw string) string {
	rs := make([]rune, len(raw))
	for i := 0; i < len(raw); i++ {
		rs[i] = rune(raw[i])
	}
	return string(rs)
}

func latin1Raw(s string) string { return string(latin1Bytes(s)) }
