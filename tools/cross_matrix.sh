#!/bin/bash
# Runs every quick check against every confirmed seeded change (scratch worktrees; /repo untouched)
# and writes seeded/cross_matrix.json: which checks catch which changes.
cd /verif
ALL="C01 C02 C03 C04 C05 C06 C07 C08 C09 C10 C11 C12 C13 C14 C15 C16 C17 C18 C19 C20"
out=/verif/seeded/cross_matrix.txt; : > $out
for d in seeded/C*-*/; do
  id=$(basename $d)
  res=$(QUICK_ONLY=1 nice -n 10 tools/try_seeded.sh $d/patch.diff - $ALL 2>&1 | grep '^RESULT check=')
  caught=$(echo "$res" | grep CAUGHT | sed 's/RESULT check=\([A-Z0-9]*\).*/\1/' | tr '\n' ' ')
  echo "$id caught_by_quick: $caught" | tee -a $out
done
