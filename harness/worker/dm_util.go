//go:build verif

package main

import (
	dmenc "github.com/makiuchi-d/gozxing/datamatrix/encoder"

	"verifharness/ref/dmref"
)

// shared helpers of the Data Matrix drivers

func dmShape(shape int) dmenc.SymbolShapeHint {
	return []dmenc.SymbolShapeHint{dmenc.SymbolShapeHint_FORCE_NONE, dmenc.SymbolShapeHint_FORCE_SQUARE, dmenc.SymbolShapeHint_FORCE_RECTANGLE}[shape]
}

var dmShapeName = []string{"none", "square", "rectangle"}

func shapeOf(s dmref.Symbol) int {
	if s.Rect {
		return dmref.ShapeRect
	}
	return dmref.ShapeSquare
}

func shapeHint(s dmref.Symbol) dmenc.SymbolShapeHint {
	if s.Rect {
		return dmenc.SymbolShapeHint_FORCE_RECTANGLE
	}
	return dmenc.SymbolShapeHint_FORCE_SQUARE
}

func dmLibSymbol(s dmref.Symbol) *dmenc.SymbolInfo {
	for _, si := range dmenc.VerifSymbols() {
		if si.GetSymbolHeight() == s.Rows && si.GetSymbolWidth() == s.Cols {
			return si
		}
	}
	return nil
}
