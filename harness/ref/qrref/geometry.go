package qrref

import (
	"fmt"
	"sync"
)

// geometry holds everything about a version that is independent of level,
// mask and data.
type geometry struct {
	size  int
	fn    [][]bool // function pattern / format / version modules
	dark  [][]bool // value of fixed function modules (format/version = false)
	order [][2]int // (x,y) of data-region modules in placement order
}

var (
	geomOnce sync.Once
	geoms    [41]*geometry
)

func geom(v int) *geometry {
	checkVersion(v)
	geomOnce.Do(func() {
		for i := 1; i <= 40; i++ {
			geoms[i] = buildGeometry(i)
		}
	})
	return geoms[v]
}

func newGrid(size int) [][]bool {
	g := make([][]bool, size)
	for i := range g {
		g[i] = make([]bool, size)
	}
	return g
}

func copyGrid(g [][]bool) [][]bool {
	out := make([][]bool, len(g))
	for i := range g {
		out[i] = append([]bool(nil), g[i]...)
	}
	return out
}

func buildGeometry(v int) *geometry {
	size := 17 + 4*v
	g := &geometry{size: size, fn: newGrid(size), dark: newGrid(size)}
	set := func(x, y int, d bool) {
		if x < 0 || y < 0 || x >= size || y >= size {
			return
		}
		g.fn[y][x] = true
		g.dark[y][x] = d
	}

	// Finder patterns (7x7: dark ring, light ring, 3x3 dark core) with their
	// one-module light separators, i.e. a 9x9 area centred on the finder
	// centre clipped to the symbol.
	finder := func(cx, cy int) {
		for dy := -4; dy <= 4; dy++ {
			for dx := -4; dx <= 4; dx++ {
				d := abs(dx)
				if abs(dy) > d {
					d = abs(dy)
				}
				// Chebyshev distance: 0,1 core; 2 light; 3 dark ring; 4 separator
				set(cx+dx, cy+dy, d <= 1 || d == 3)
			}
		}
	}
	finder(3, 3)
	finder(size-4, 3)
	finder(3, size-4)

	// Timing patterns: row 6 and column 6 between the separators, dark on
	// even coordinates.
	for i := 8; i <= size-9; i++ {
		set(i, 6, i%2 == 0)
		set(6, i, i%2 == 0)
	}

	// Alignment patterns: 5x5 (dark ring, light ring, dark centre) at every
	// pair of centre coordinates except the three that would overlap finders.
	c := alignCenters[v-1]
	last := 0
	if len(c) > 0 {
		last = c[len(c)-1]
	}
	for _, cy := range c {
		for _, cx := range c {
			if (cx == 6 && cy == 6) || (cx == 6 && cy == last) || (cx == last && cy == 6) {
				continue
			}
			for dy := -2; dy <= 2; dy++ {
				for dx := -2; dx <= 2; dx++ {
					d := abs(dx)
					if abs(dy) > d {
						d = abs(dy)
					}
					set(cx+dx, cy+dy, d != 1)
				}
			}
		}
	}

	// Format information areas (value filled in later) and the dark module.
	c1, c2 := FormatBitPositions(size)
	for k := 0; k < 15; k++ {
		set(c1[k][0], c1[k][1], false)
		set(c2[k][0], c2[k][1], false)
	}
	set(8, size-8, true) // dark module at (col 8, row 4v+9)

	// Version information areas.
	if v >= 7 {
		v1, v2 := VersionBitPositions(size)
		for k := 0; k < 18; k++ {
			set(v1[k][0], v1[k][1], false)
			set(v2[k][0], v2[k][1], false)
		}
	}

	// Data module placement order: two-module-wide columns from the right
	// edge, first upward then alternating, skipping the vertical timing
	// column; in each row of a column pair the right module comes first.
	up := true
	for right := size - 1; right > 0; right -= 2 {
		if right == 6 {
			right = 5
		}
		for k := 0; k < size; k++ {
			y := k
			if up {
				y = size - 1 - k
			}
			for dx := 0; dx < 2; dx++ {
				x := right - dx
				if !g.fn[y][x] {
					g.order = append(g.order, [2]int{x, y})
				}
			}
		}
		up = !up
	}
	return g
}

func abs(a int) int {
	if a < 0 {
		return -a
	}
	return a
}

// RawDataModules returns the number of modules available for codewords and
// remainder bits (symbol area minus function patterns, format and version
// information).
func RawDataModules(v int) int { return len(geom(v).order) }

// TotalCodewords returns the total number of codewords (data + EC).
func TotalCodewords(v int) int { return RawDataModules(v) / 8 }

// RemainderBits returns the number of data-region modules left after the
// last codeword.
func RemainderBits(v int) int { return RawDataModules(v) % 8 }

// IsFunction returns [y][x] true for every module that is not part of the
// encoding region: finder, separator, timing, alignment, format information,
// version information, dark module.
func IsFunction(v int) [][]bool { return copyGrid(geom(v).fn) }

// FunctionPatternValues returns [y][x] the colour of the fixed function
// modules (false for format/version information and for data modules).
func FunctionPatternValues(v int) [][]bool { return copyGrid(geom(v).dark) }

// DataModuleOrder returns the (x,y) of all data-region modules in bit
// placement order (length 8*TotalCodewords+RemainderBits).
func DataModuleOrder(v int) [][2]int {
	return append([][2]int(nil), geom(v).order...)
}

// CodewordModules returns, for each index of the final (interleaved)
// codeword sequence, the (x,y) of its 8 bits, most significant first.
func CodewordModules(v int) [][8][2]int {
	o := geom(v).order
	out := make([][8][2]int, len(o)/8)
	for i := range out {
		for b := 0; b < 8; b++ {
			out[i][b] = o[8*i+b]
		}
	}
	return out
}

// RemainderModules returns the (x,y) of the remainder-bit modules.
func RemainderModules(v int) [][2]int {
	o := geom(v).order
	return append([][2]int(nil), o[len(o)/8*8:]...)
}

// MaskBit evaluates data mask pattern reference `mask` (Table 10) at column
// x (j) and row y (i); true means the module is inverted.
func MaskBit(mask, x, y int) bool {
	i, j := y, x
	switch mask {
	case 0:
		return (i+j)%2 == 0
	case 1:
		return i%2 == 0
	case 2:
		return j%3 == 0
	case 3:
		return (i+j)%3 == 0
	case 4:
		return (i/2+j/3)%2 == 0
	case 5:
		return (i*j)%2+(i*j)%3 == 0
	case 6:
		return ((i*j)%2+(i*j)%3)%2 == 0
	case 7:
		return ((i+j)%2+(i*j)%3)%2 == 0
	}
	panic(fmt.Sprintf("qrref: mask %d out of range", mask))
}

// FormatBitPositions returns the (x,y) of format information bit k for
// k = 0..14, where k = 0 is the LEAST significant bit of the 15 bit word
// returned by FormatWord (the standard's numbering in Figure 25: bit 14 is
// the most significant = first level bit).
//
// c1 is the copy around the top-left finder: bits 0..5 go down column 8 from
// row 0, bit 6 at (8,7), bit 7 at (8,8), bit 8 at (7,8), bits 9..14 along row
// 8 at columns 5..0 (timing row/column 6 is skipped).
//
// c2 is the split copy: bits 0..7 along row 8 from the right edge leftwards
// (columns size-1 .. size-8), bits 8..14 down column 8 from row size-7 to
// size-1 (the module above, (8,size-8), is the always-dark module).
func FormatBitPositions(size int) (c1, c2 [15][2]int) {
	for k := 0; k <= 5; k++ {
		c1[k] = [2]int{8, k}
	}
	c1[6] = [2]int{8, 7}
	c1[7] = [2]int{8, 8}
	c1[8] = [2]int{7, 8}
	for k := 9; k <= 14; k++ {
		c1[k] = [2]int{14 - k, 8}
	}
	for k := 0; k <= 7; k++ {
		c2[k] = [2]int{size - 1 - k, 8}
	}
	for k := 8; k <= 14; k++ {
		c2[k] = [2]int{8, size - 15 + k}
	}
	return
}

// VersionBitPositions returns the (x,y) of version information bit k
// (k = 0 = least significant bit of VersionWord).  c1 is the bottom-left
// copy (6 wide x 3 high block above the bottom-left finder... precisely:
// columns 0..5, rows size-11..size-9; bit k at column k/3, row size-11+k%3).
// c2 is the top-right copy (3 wide x 6 high, columns size-11..size-9, rows
// 0..5; bit k at column size-11+k%3, row k/3).  (Figure 26/27.)
func VersionBitPositions(size int) (c1, c2 [18][2]int) {
	for k := 0; k < 18; k++ {
		c1[k] = [2]int{k / 3, size - 11 + k%3}
		c2[k] = [2]int{size - 11 + k%3, k / 3}
	}
	return
}
