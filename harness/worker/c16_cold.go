//go:build verif

package main

import (
	"fmt"

	"github.com/makiuchi-d/gozxing"

	"verifharness/fw"
)

// Cold starts for C16: every transforming operation of BitMatrix / BitArray as the FIRST call of
// its kind in a fresh process, on widths on and off the 32-bit word boundary.  A container that
// answers from lazily built package-level tables (byte reversal, masks) is right in a long-running
// worker once any call has filled them; only the first call of a process can see them empty, and
// which call that is depends on the order of the cases in the shard.

var c16ColdMatrixOps = []string{"rotate180", "rotate90", "flipall", "xor", "setregion", "reverse-rows", "tostring", "queries"}
var c16ColdArrayOps = []string{"reverse", "appendbits", "xor", "tobytes", "setrange", "setbulk", "append-array", "queries"}

func init() {
	fw.RegisterCold("c16first", func(arg string) (out string) {
		defer func() {
			if p := recover(); p != nil {
				out = fmt.Sprintf("PANIC %v", p)
			}
		}()
		var kind, op string
		var w, h int
		var seed uint64
		fmt.Sscanf(arg, "%s %d %d %s %d", &kind, &w, &h, &op, &seed)
		rng := fw.NewRand(seed)
		if kind == "m" {
			m := newMModel(w, h)
			fillRandom(rng, m, int(seed%7))
			bm, err := gozxing.NewBitMatrix(w, h)
			if err != nil {
				return "NewBitMatrix: " + err.Error()
			}
			for y := range m.b {
				for x := range m.b[y] {
					if m.b[y][x] {
						bm.Set(x, y)
					}
				}
			}
			switch op {
			case "rotate180":
				bm.Rotate180()
				m = m.rot180()
			case "rotate90":
				bm.Rotate90()
				m = m.rot90()
			case "flipall":
				bm.FlipAll()
				for y := range m.b {
					for x := range m.b[y] {
						m.b[y][x] = !m.b[y][x]
					}
				}
			case "xor":
				mask := newMModel(w, h)
				fillRandom(rng, mask, 1)
				mb, _ := gozxing.NewBitMatrix(w, h)
				for y := range mask.b {
					for x := range mask.b[y] {
						if mask.b[y][x] {
							mb.Set(x, y)
						}
						m.b[y][x] = m.b[y][x] != mask.b[y][x]
					}
				}
				if e := bm.Xor(mb); e != nil {
					return "Xor: " + e.Error()
				}
			case "setregion":
				l, t := rng.Intn(w), rng.Intn(h)
				rw, rh := w-l, 1+rng.Intn(h-t)
				if e := bm.SetRegion(l, t, rw, rh); e != nil {
					return "SetRegion: " + e.Error()
				}
				for y := t; y < t+rh; y++ {
					for x := l; x < l+rw; x++ {
						m.b[y][x] = true
					}
				}
			case "reverse-rows":
				for y := 0; y < h; y++ {
					row := bm.GetRow(y, nil)
					row.Reverse()
					bm.SetRow(y, row)
					for i, j := 0, w-1; i < j; i, j = i+1, j-1 {
						m.b[y][i], m.b[y][j] = m.b[y][j], m.b[y][i]
					}
				}
			case "tostring":
				if s, want := bm.ToString("X", "."), m.str("X", ".", "\n"); s != want {
					return fmt.Sprintf("ToString = %q, cell by cell %q", trunc(s, 60), trunc(want, 60))
				}
			case "queries":
			}
			return "OK" + checkMatrix(bm, m, rng)
		}
		n := w
		a, m := makeArrayPair(rng, n, h)
		switch op {
		case "reverse":
			a.Reverse()
			for i, j := 0, n-1; i < j; i, j = i+1, j-1 {
				m[i], m[j] = m[j], m[i]
			}
		case "appendbits":
			nb := 1 + rng.Intn(32)
			v := int(rng.Uint64() & 0xFFFFFFFF)
			if e := a.AppendBits(v, nb); e != nil {
				return "AppendBits: " + e.Error()
			}
			for i := nb - 1; i >= 0; i-- {
				m = append(m, (uint64(v)>>uint(i))&1 == 1)
			}
		case "xor":
			o, om := makeArrayPair(rng, n, 1)
			if e := a.Xor(o); e != nil {
				return "Xor: " + e.Error()
			}
			for i := range m {
				m[i] = m[i] != om[i]
			}
		case "tobytes":
			nb := n / 8
			buf := make([]byte, nb)
			a.ToBytes(0, buf, 0, nb)
			for i := 0; i < nb; i++ {
				var want byte
				for j := 0; j < 8; j++ {
					if m[8*i+j] {
						want |= 1 << uint(7-j)
					}
				}
				if buf[i] != want {
					return fmt.Sprintf("ToBytes: byte %d = %#02x, model %#02x", i, buf[i], want)
				}
			}
		case "setrange":
			s := rng.Intn(n + 1)
			if e := a.SetRange(s, n); e != nil {
				return "SetRange: " + e.Error()
			}
			for i := s; i < n; i++ {
				m[i] = true
			}
		case "setbulk":
			if n > 0 {
				i := 32 * rng.Intn((n+31)/32)
				v := uint32(rng.Uint64())
				if i+32 > n {
					v &= (1 << uint(n-i)) - 1
				}
				a.SetBulk(i, v)
				for j := 0; j < 32 && i+j < n; j++ {
					m[i+j] = v>>uint(j)&1 == 1
				}
			}
		case "append-array":
			o, om := makeArrayPair(rng, 1+rng.Intn(70), 0)
			a.AppendBitArray(o)
			m = append(m, om...)
		case "queries":
		}
		return "OK" + checkArray(a, m, rng)
	})
}

// c16Cold: one fresh process per (operation, size).
func c16Cold(r *fw.Rec, matrix bool, op string) {
	sizes := []int{1, 31, 32, 33, 64, 65, 96, 100, 128}
	for i, w := range sizes {
		arg := fmt.Sprintf("m %d %d %s %d", w, []int{1, 3, 33, 32}[i%4], op, r.Rng.Uint64()>>1)
		if !matrix {
			arg = fmt.Sprintf("a %d %d %s %d", w, i%2, op, r.Rng.Uint64()>>1)
		}
		out, err := fw.RunCold("c16first", arg)
		r.Evals(1)
		if err != nil || out != "OK" {
			what := "bitmatrix"
			if !matrix {
				what = "bitarray"
			}
			r.Violation("model-mismatch", what+":cold-start:"+op, fmt.Sprintf("%s as the first call of its kind in a fresh process (%s): %s %v", op, arg, out, err), map[string]interface{}{"cold_arg": arg})
			return
		}
		r.Tally("cold_start_first_operations")
	}
	r.Nontrivial(fmt.Sprintf("cold/%v/%s", matrix, op))
}
