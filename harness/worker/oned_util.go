//go:build verif

package main

import (
	"fmt"
	"image"
	"strings"

	"github.com/makiuchi-d/gozxing"
	"github.com/makiuchi-d/gozxing/oned"

	"verifharness/ref/onedref"
)

// shared helpers of the 1-D drivers (C03, C10)

// odRender paints a module pattern (true = bar) into a grey image: quietL /
// quietR white modules on the sides, scale pixels per module, height rows.
func odRender(mod []bool, quietL, quietR, scale, height int) *image.Gray {
	w := (quietL + len(mod) + quietR) * scale
	img := image.NewGray(image.Rect(0, 0, w, height))
	row := img.Pix[:w]
	for i := range row {
		row[i] = 255
	}
	for i, m := range mod {
		if m {
			o := (quietL + i) * scale
			for k := 0; k < scale; k++ {
				row[o+k] = 0
			}
		}
	}
	for y := 1; y < height; y++ {
		copy(img.Pix[y*img.Stride:y*img.Stride+w], row)
	}
	return img
}

// odRepaint overwrites the bars of an image made by odRender(…, scale 1, height 1)
// with a new pattern of the same length (hot loops of the exhaustive sweeps).
func odRepaint(img *image.Gray, mod []bool, quietL int) {
	for i, m := range mod {
		if m {
			img.Pix[quietL+i] = 0
		} else {
			img.Pix[quietL+i] = 255
		}
	}
}

func odDecode(rd gozxing.Reader, img image.Image, hints map[gozxing.DecodeHintType]interface{}) (*gozxing.Result, error) {
	bmp, err := gozxing.NewBinaryBitmapFromImage(img)
	if err != nil {
		return nil, err
	}
	return rd.Decode(bmp, hints)
}

// odMatrixRow returns row y of a bit matrix as modules.
func odMatrixRow(m *gozxing.BitMatrix, y int) []bool {
	w := m.GetWidth()
	out := make([]bool, w)
	for x := 0; x < w; x++ {
		out[x] = m.Get(x, y)
	}
	return out
}

// odTrim strips the light margins of a row; nil if the row has no bar.
func odTrim(row []bool) []bool {
	i, j := 0, len(row)
	for i < j && !row[i] {
		i++
	}
	for j > i && !row[j-1] {
		j--
	}
	if i == j {
		return nil
	}
	return row[i:j]
}

func odBoolsEq(a, b []bool) bool {
	if len(a) != len(b) {
		return false
	}
	for i := range a {
		if a[i] != b[i] {
			return false
		}
	}
	return true
}

func odDigits(rng interface{ Intn(int) int }, n int) string {
	b := make([]byte, n)
	for i := range b {
		b[i] = byte('0' + rng.Intn(10))
	}
	return string(b)
}

// odPad formats v with exactly n decimal digits.
func odPad(v, n int) string { return fmt.Sprintf("%0*d", n, v) }

func odErrKind(err error) string {
	if err == nil {
		return "nil"
	}
	switch err.(type) {
	case gozxing.NotFoundException:
		return "NotFoundException"
	case gozxing.ChecksumException:
		return "ChecksumException"
	case gozxing.FormatException:
		return "FormatException"
	case gozxing.WriterException:
		return "WriterException"
	}
	return fmt.Sprintf("%T", err)
}

// ---------------------------------------------------------------------------
// the four UPC/EAN symbologies, described through onedref only
// ---------------------------------------------------------------------------

type odUPCEAN struct {
	name     string
	format   gozxing.BarcodeFormat
	payload  int // digits without check digit
	modules  int
	writer   func() gozxing.Writer
	reader   func() gozxing.Reader
	maxFirst int // exclusive upper bound of the first digit (UPC-E: 2)
}

var odEAN13 = &odUPCEAN{"ean13", gozxing.BarcodeFormat_EAN_13, 12, 95, oned.NewEAN13Writer, oned.NewEAN13Reader, 10}
var odEAN8 = &odUPCEAN{"ean8", gozxing.BarcodeFormat_EAN_8, 7, 67, oned.NewEAN8Writer, oned.NewEAN8Reader, 10}
var odUPCA = &odUPCEAN{"upca", gozxing.BarcodeFormat_UPC_A, 11, 95, oned.NewUPCAWriter, oned.NewUPCAReader, 10}
var odUPCE = &odUPCEAN{"upce", gozxing.BarcodeFormat_UPC_E, 7, 51, oned.NewUPCEWriter, oned.NewUPCEReader, 2}
var odAllUPCEAN = []*odUPCEAN{odEAN13, odEAN8, odUPCA, odUPCE}

// check returns the reference check digit of a payload (UPC-E: of the expanded number).
func (s *odUPCEAN) check(payload string) int {
	if s == odUPCE {
		return onedref.Mod10(onedref.UPCEExpand(payload[1:7], payload[0]))
	}
	return onedref.Mod10(payload)
}

// full appends the reference check digit.
func (s *odUPCEAN) full(payload string) string {
	return payload + string(rune('0'+s.check(payload)))
}

// valid says whether a full number verifies.
func (s *odUPCEAN) valid(full string) bool {
	n := len(full)
	return n == s.payload+1 && s.check(full[:n-1]) == int(full[n-1]-'0')
}

// pattern renders the symbol carrying the digits as given (stale check digits allowed).
func (s *odUPCEAN) pattern(full string) []bool {
	switch s {
	case odEAN13:
		return onedref.EAN13Pattern(full)
	case odEAN8:
		return onedref.EAN8Pattern(full)
	case odUPCA:
		return onedref.UPCAPattern(full)
	}
	return onedref.UPCEPattern(full)
}

func (s *odUPCEAN) randPayload(rng interface{ Intn(int) int }) string {
	p := []byte(odDigits(rng, s.payload))
	switch rng.Intn(12) {
	case 0:
		for i := range p {
			p[i] = '0'
		}
	case 1:
		for i := range p {
			p[i] = '9'
		}
	case 2: // many zeros (zero-suppression layouts, leading zeros)
		for i := range p {
			if rng.Intn(3) != 0 {
				p[i] = '0'
			}
		}
	}
	if s.maxFirst < 10 {
		p[0] = byte('0' + rng.Intn(s.maxFirst))
	}
	return string(p)
}

func odCodabarGuardCanon(ch byte) byte { return onedref.CodabarCanonical(ch) }

func odQuote(s string) string { return fmt.Sprintf("%q", s) }

func odIn(alphabet string, s string) bool {
	for i := 0; i < len(s); i++ {
		if strings.IndexByte(alphabet, s[i]) < 0 {
			return false
		}
	}
	return true
}

func odHash(s string) uint64 {
	h := uint64(1469598103934665603)
	for i := 0; i < len(s); i++ {
		h = (h ^ uint64(s[i])) * 1099511628211
	}
	return h
}
