//go:build verif

package main

import (
	"fmt"
	"image"

	"github.com/makiuchi-d/gozxing"
	multiqr "github.com/makiuchi-d/gozxing/multi/qrcode"
	"github.com/makiuchi-d/gozxing/qrcode"

	"verifharness/fw"
	"verifharness/ref/qrref"
)

// C06 addition: structured-append QR symbols (which the library cannot write itself) through the
// multi reader's merge step and through the plain reader: 2..4 member symbols in one image, data
// in byte / alphanumeric / numeric / kanji mode, optional ECI header, complete and incomplete sets.
func c06SACase(r *fw.Rec) {
	rng := r.Rng
	total := 2 + rng.Intn(3)
	parity := rng.Intn(256)
	scale := 2 + rng.Intn(2)
	var mats [][][]bool
	var descr []string
	for k := 0; k < total; k++ {
		if rng.Intn(6) == 0 && k > 0 {
			continue // incomplete set
		}
		v := 1 + rng.Intn(3)
		l := qrAllLevels[rng.Intn(4)]
		mode := qrAllModes[rng.Intn(4)]
		n := 1 + rng.Intn(8)
		_, segs, _ := qrPayload(rng, mode, n)
		all := []qrref.Segment{{Mode: qrref.ModeStructuredAppend, Data: []byte{byte(k<<4 | (total - 1)), byte(parity)}, ECI: -1}}
		if mode == qrref.Byte && rng.Bool() {
			all = append(all, qrref.Segment{Mode: qrref.ModeECI, ECI: []int{26, 3, 20, 25}[rng.Intn(4)]})
		}
		all = append(all, segs...)
		data, ok := qrref.DataCodewordsFor(v, l, all)
		if !ok {
			v = 4
			data, ok = qrref.DataCodewordsFor(v, l, all)
			if !ok {
				continue
			}
		}
		mats = append(mats, qrref.BuildMatrix(v, l, rng.Intn(8), data))
		descr = append(descr, fmt.Sprintf("member %d/%d v%d-%s %s", k+1, total, v, qrLevelName[l], qrModeName[mode]))
	}
	if len(mats) == 0 {
		return
	}
	// side by side, 4 modules of quiet zone around each
	w, h := 0, 0
	for _, m := range mats {
		w += (len(m) + 8) * scale
		if hh := (len(m) + 8) * scale; hh > h {
			h = hh
		}
	}
	img := image.NewGray(image.Rect(0, 0, w, h))
	for i := range img.Pix {
		img.Pix[i] = 255
	}
	x0 := 0
	for _, m := range mats {
		for y := range m {
			for x := range m[y] {
				if m[y][x] {
					for dy := 0; dy < scale; dy++ {
						for dx := 0; dx < scale; dx++ {
							img.Pix[((y+4)*scale+dy)*img.Stride+x0+(x+4)*scale+dx] = 0
						}
					}
				}
			}
		}
		x0 += (len(m) + 8) * scale
	}
	info := map[string]interface{}{"members": descr, "scale": scale, "image": fmt.Sprintf("%dx%d", w, h)}
	for _, hints := range []map[gozxing.DecodeHintType]interface{}{nil, {gozxing.DecodeHintType_TRY_HARDER: true}} {
		bmp, _ := gozxing.NewBinaryBitmapFromImage(img)
		var rs []*gozxing.Result
		var err error
		msg, stack, panicked := fw.Guard(func() { rs, err = multiqr.NewQRCodeMultiReader().DecodeMultiple(bmp, hints) })
		r.Evals(1)
		if panicked {
			r.Violation("panic", "QRCodeMultiReader.DecodeMultiple:panic:"+fw.PanicSite(stack), fmt.Sprintf("DecodeMultiple panicked on an image with structured-append symbols (%v): %s", descr, msg), info)
			return
		}
		if rs == nil && err == nil {
			r.Violation("totality", "QRCodeMultiReader.DecodeMultiple:nil-nil", "nil slice and nil error", info)
			return
		}
		if len(rs) > 0 && err != nil {
			r.Violation("totality", "QRCodeMultiReader.DecodeMultiple:both", "results and an error", info)
			return
		}
		for _, x := range rs {
			if x == nil {
				r.Violation("totality", "QRCodeMultiReader.DecodeMultiple:nil-element", "a nil element in the result slice", info)
				return
			}
		}
		if err == nil {
			r.Tally("sa_multi_results")
			if len(rs) < len(mats) {
				r.Tally("sa_multi_merged_results")
			}
		} else {
			r.Tally("sa_multi_errors")
		}
	}
	// one member through the plain reader
	single := grayOfMatrix(mats[0], scale, 4)
	bmp, _ := gozxing.NewBinaryBitmapFromImage(single)
	var res *gozxing.Result
	var err error
	msg, stack, panicked := fw.Guard(func() { res, err = qrcode.NewQRCodeReader().Decode(bmp, nil) })
	r.Evals(1)
	if panicked {
		r.Violation("panic", "QRCodeReader.Decode:panic:"+fw.PanicSite(stack), "Decode panicked on a structured-append member symbol: "+msg, info)
		return
	}
	if (res == nil) == (err == nil) {
		r.Violation("totality", "QRCodeReader.Decode:result-xor-error", fmt.Sprintf("result=%v err=%v", res, err), info)
		return
	}
	if err == nil {
		if _, ok := res.GetResultMetadata()[gozxing.ResultMetadataType_STRUCTURED_APPEND_SEQUENCE]; ok {
			r.Tally("sa_single_member_read_with_sequence_metadata")
		}
	}
	r.Nontrivial("sa|" + fmt.Sprint(descr))
}

func grayOfMatrix(m [][]bool, scale, quiet int) *image.Gray {
	n := len(m)
	side := (n + 2*quiet) * scale
	img := image.NewGray(image.Rect(0, 0, side, side))
	for i := range img.Pix {
		img.Pix[i] = 255
	}
	for y := range m {
		for x := range m[y] {
			if m[y][x] {
				for dy := 0; dy < scale; dy++ {
					for dx := 0; dx < scale; dx++ {
						img.Pix[((y+quiet)*scale+dy)*img.Stride+(x+quiet)*scale+dx] = 0
					}
				}
			}
		}
	}
	return img
}
