//go:build verif

package main

import (
	"fmt"
	"github.com/makiuchi-d/gozxing/common/reedsolomon"
	"sync"

	"github.com/makiuchi-d/gozxing"
	qrdec "github.com/makiuchi-d/gozxing/qrcode/decoder"
	qrenc "github.com/makiuchi-d/gozxing/qrcode/encoder"

	"verifharness/fw"
	"verifharness/ref/qrref"
)

// C07: QR symbols against an independent construction from ISO/IEC 18004.

func init() {
	fw.Register("C07", c07)
	fw.RegisterSelfTest("qrref-anchors", qrrefSelfTest)
}

func qrrefSelfTest() error {
	// ISO 18004 Annex I: "01234567", 1-M
	data, ok := qrref.DataCodewordsFor(1, qrref.M, []qrref.Segment{{Mode: qrref.Numeric, Data: []byte("01234567"), ECI: -1}})
	want := []byte{0x10, 0x20, 0x0C, 0x56, 0x61, 0x80, 0xEC, 0x11, 0xEC, 0x11, 0xEC, 0x11, 0xEC, 0x11, 0xEC, 0x11}
	if !ok || string(data) != string(want) {
		return fmt.Errorf("annex I data codewords %x", data)
	}
	final := qrref.FinalCodewords(1, qrref.M, data)
	wantEC := []byte{0xA5, 0x24, 0xD4, 0xC1, 0xED, 0x36, 0xC7, 0x87, 0x2C, 0x55}
	if string(final[16:]) != string(wantEC) {
		return fmt.Errorf("annex I ec codewords %x", final[16:])
	}
	caps := [4]int{7089, 4296, 2953, 1817}
	for i, m := range qrAllModes {
		if qrref.Capacity(40, qrref.L, m) != caps[i] {
			return fmt.Errorf("40-L capacity %v = %d", m, qrref.Capacity(40, qrref.L, m))
		}
	}
	if qrref.FormatWord(qrref.M, 0) != 0x5412 || qrref.FormatWord(qrref.L, 0) != 0x77C4 || qrref.VersionWord(7) != 0x07C94 {
		return fmt.Errorf("BCH words")
	}
	if qrref.TotalCodewords(1) != 26 || qrref.TotalCodewords(40) != 3706 || qrref.TotalCodewords(7) != 196 {
		return fmt.Errorf("total codewords")
	}
	return nil
}

func c07Config(r *fw.Rec, v int, l qrref.Level, mask int, reps int) {
	rng := r.Rng
	for rep := 0; rep < reps; rep++ {
		mode := qrAllModes[(v+int(l)+mask+rep)%4]
		if rep > 0 {
			mode = qrAllModes[rng.Intn(4)]
		}
		n := qrLenIn(rng, v, l, mode)
		if n == 0 {
			continue
		}
		text, segs, charset := qrPayload(rng, mode, n)
		declared := false
		if mode == qrref.Byte && rng.Intn(3) == 0 && n >= 6 {
			// byte mode in a declared character set other than UTF-8: the count field counts the
			// bytes of THAT encoding, which differ in number from the text's UTF-8 bytes
			e := &csTable[rng.Intn(len(csTable))]
			if e.Kind == 0 || e.Kind == 1 || e.Kind == 3 || e.Kind == 4 {
				rs := []rune{rune('a' + rng.Intn(26))}
				var bs []byte
				for {
					cand := append(append([]rune{}, rs...), csRandomRune(rng, e))
					b, ok := e.csEncode(string(cand))
					if !ok || len(b) > n-2 {
						break
					}
					rs, bs = cand, b
				}
				if bs != nil && (len(bs) != len(string(rs)) || e.Kind == 4) {
					text, charset, declared = string(rs), e.Name, true
					segs = []qrref.Segment{{Mode: qrref.ModeECI, ECI: e.Values[0]}, {Mode: qrref.Byte, Data: bs, ECI: -1}}
					r.Tally("byte_mode_in_declared_non_utf8_charset")
				}
			}
		}
		gs1 := false
		if declared {
			// declared character set: no GS1 variant on top
		} else if rep%3 == 2 || (reps == 1 && (v+mask)%5 == 0) {
			// GS1 symbols: FNC1 in first position after any ECI header (ISO 18004: ECI designator first).
			// Byte-mode content additionally gets a character-set hint so that both headers occur together.
			gs1 = true
			if mode == qrref.Byte {
				if bs, ok := csTable[17].csEncode(text); ok && csTable[17].Name == "UTF-8" {
					charset = "UTF-8"
					segs = []qrref.Segment{{Mode: qrref.ModeECI, ECI: 26}, {Mode: qrref.ModeFNC1First, ECI: -1}, {Mode: qrref.Byte, Data: bs, ECI: -1}}
				} else {
					gs1 = false
				}
			} else {
				segs = append([]qrref.Segment{{Mode: qrref.ModeFNC1First, ECI: -1}}, segs...)
			}
		}
		info := map[string]interface{}{"version": v, "level": qrLevelName[l], "mask": mask, "mode": qrModeName[mode], "text": text, "charset": charset, "gs1": gs1}
		data, ok := qrref.DataCodewordsFor(v, l, segs)
		if !ok && gs1 {
			r.Tally("gs1_payload_does_not_fit_skipped") // the 4/12 header bits pushed a capacity-length payload over
			continue
		}
		if !ok {
			r.Inconclusive(fmt.Sprintf("reference says %d %s characters do not fit %d-%s although Capacity() admits them", n, qrModeName[mode], v, qrLevelName[l]))
			return
		}
		ref := qrref.BuildMatrix(v, l, mask, data)

		// library encoder
		hints := qrHints(v, mask, charset)
		if gs1 {
			hints[gozxing.EncodeHintType_GS1_FORMAT] = true
			if rng.Intn(3) == 0 {
				hints[gozxing.EncodeHintType_GS1_FORMAT] = "true"
			}
			r.Tally("gs1_symbols")
		} else if rng.Intn(3) == 0 {
			// said explicitly that this is NOT a GS1 symbol: the plain construction
			hints[gozxing.EncodeHintType_GS1_FORMAT] = []interface{}{false, "false", "False"}[rng.Intn(3)]
			r.Tally("symbols_with_gs1_format_false")
		}
		code, err := qrenc.Encoder_encode(text, qrLibLevel[l], hints)
		if err != nil {
			r.Violation("model-mismatch", "qr.encode:refused-fitting-content", fmt.Sprintf("Encoder_encode refused %d %s characters for %d-%s mask %d: %v", n, qrModeName[mode], v, qrLevelName[l], mask, err), info)
			return
		}
		if code.GetVersion().GetVersionNumber() != v || code.GetMaskPattern() != mask {
			r.Violation("model-mismatch", "qr.encode:version-or-mask-hint-ignored", fmt.Sprintf("asked %d-%s mask %d, got version %d mask %d", v, qrLevelName[l], mask, code.GetVersion().GetVersionNumber(), code.GetMaskPattern()), info)
			return
		}
		lib := byteMatrixToBools(code.GetMatrix())
		if nd, where := diffModules(v, lib, ref); nd != 0 {
			r.Violation("model-mismatch", "qr.encode:matrix-differs:"+whereKind(where), fmt.Sprintf("%d-%s mask %d %s len %d: %d modules differ from the standard construction, first: %s", v, qrLevelName[l], mask, qrModeName[mode], n, nd, where), info)
			return
		}
		r.Tally("encoder_matrices_equal")
		r.Tally("encoder_mode_" + qrModeName[mode])

		// library decoder on the reference symbol
		res, derr := qrdec.NewDecoder().Decode(boolsToBitMatrix(ref), nil)
		if derr != nil {
			r.Violation("model-mismatch", "qr.decode:reference-symbol-rejected", fmt.Sprintf("decoder rejected the standard construction of %d-%s mask %d %s len %d: %v", v, qrLevelName[l], mask, qrModeName[mode], n, derr), info)
			return
		}
		if res.GetText() != text && !(gs1 && mode == qrref.Alphanumeric) { // FNC1 + alphanumeric: '%' is an escape (GS) - raw bytes are still compared
			r.Violation("model-mismatch", "qr.decode:reference-symbol-misread", fmt.Sprintf("decoder read %q from the standard construction of %q (%d-%s mask %d)", trunc(res.GetText(), 80), trunc(text, 80), v, qrLevelName[l], mask), info)
			return
		}
		if string(res.GetRawBytes()) != string(data) {
			r.Violation("model-mismatch", "qr.decode:raw-bytes-differ", fmt.Sprintf("decoder's data codewords differ from the reference for %d-%s mask %d", v, qrLevelName[l], mask), info)
			return
		}
		if res.GetECLevel() != qrLevelName[l] {
			r.Violation("model-mismatch", "qr.decode:ec-level", fmt.Sprintf("decoder reports level %q for a %s symbol", res.GetECLevel(), qrLevelName[l]), info)
			return
		}
		if res.GetOther() != nil {
			if md, ok := res.GetOther().(*qrdec.QRCodeDecoderMetaData); ok && md.IsMirrored() {
				r.Violation("model-mismatch", "qr.decode:mirrored-flag-on-normal-symbol", "decoder flagged an upright reference symbol as mirrored", info)
				return
			}
		}
		r.Tally("decoder_reference_symbols_read")
		r.Evals(2)
		r.Nontrivial(fmt.Sprintf("%d/%d/%d/%s", v, l, mask, text))
		if v == 7 && l == qrref.Q && mask == 3 && rep == 0 {
			r.Sample(info)
		}
	}
}

// c07AutoMask: the mask is left to the encoder (its choice is not judged - the penalty rule N3
// is ambiguous - but the symbol must be the standard construction under the mask it reports).
// Three symbols of one version are encoded one after the other and ALL results are compared
// again at the end: a result handed out earlier must not change when the encoder works again.
func c07AutoMask(r *fw.Rec, v int, l qrref.Level) {
	rng := r.Rng
	type held struct {
		code *qrenc.QRCode
		ref  [][]bool
		text string
	}
	var hs []held
	for i := 0; i < 3; i++ {
		mode := qrAllModes[rng.Intn(4)]
		n := qrLenIn(rng, v, l, mode)
		if n == 0 {
			continue
		}
		text, segs, charset := qrPayload(rng, mode, n)
		data, ok := qrref.DataCodewordsFor(v, l, segs)
		if !ok {
			continue
		}
		code, err := qrenc.Encoder_encode(text, qrLibLevel[l], qrHints(v, -1, charset))
		r.Evals(1)
		info := map[string]interface{}{"version": v, "level": qrLevelName[l], "mode": qrModeName[mode], "text": text}
		if err != nil {
			r.Violation("model-mismatch", "qr.encode:refused-fitting-content", fmt.Sprintf("Encoder_encode (automatic mask) refused %d %s characters for %d-%s: %v", n, qrModeName[mode], v, qrLevelName[l], err), info)
			return
		}
		mask := code.GetMaskPattern()
		if mask < 0 || mask > 7 || code.GetVersion().GetVersionNumber() != v {
			r.Violation("model-mismatch", "qr.encode:automatic-mask-out-of-range", fmt.Sprintf("automatic mask: version %d mask %d", code.GetVersion().GetVersionNumber(), mask), info)
			return
		}
		hs = append(hs, held{code, qrref.BuildMatrix(v, l, mask, data), text})
		for hi, h := range hs {
			if nd, where := diffModules(v, byteMatrixToBools(h.code.GetMatrix()), h.ref); nd != 0 {
				sig := "qr.encode:matrix-differs:automatic-mask:" + whereKind(where)
				what := "differs from the standard construction under the mask it reports"
				if hi < len(hs)-1 {
					sig = "qr.encode:earlier-result-changed-by-a-later-encode"
					what = fmt.Sprintf("was correct when returned and differs after %d later encode(s) of the same version", len(hs)-1-hi)
				}
				r.Violation("model-mismatch", sig, fmt.Sprintf("%d-%s automatic mask %d: the matrix of %q %s (%d modules, first: %s)", v, qrLevelName[l], h.code.GetMaskPattern(), trunc(h.text, 40), what, nd, where), info)
				return
			}
		}
		r.Tally("automatic_mask_matrices_equal")
	}
	r.Nontrivial(fmt.Sprintf("automask/%d/%d/%d", v, l, rng.Uint64()))
}

// c07BitDistance: the Hamming distance the nearest-codeword searches are built on, against a
// bit-by-bit count: every 18-bit value against 0, and random pairs.
func c07BitDistance(r *fw.Rec) {
	pop := func(x uint) int {
		n := 0
		for ; x != 0; x >>= 1 {
			n += int(x & 1)
		}
		return n
	}
	for a := uint(0); a < 1<<18; a++ {
		if got := qrdec.FormatInformation_NumBitsDiffering(a, 0); got != pop(a) {
			r.Violation("model-mismatch", "qr.tables:bit-distance", fmt.Sprintf("FormatInformation_NumBitsDiffering(%#x, 0) = %d, the values differ in %d bits", a, got, pop(a)), map[string]interface{}{"a": a, "b": 0})
			return
		}
	}
	r.Evals(1 << 18)
	for i := 0; i < 200000; i++ {
		a, b := uint(r.Rng.Uint64()&0xFFFFFFFF), uint(r.Rng.Uint64()&0xFFFFFFFF)
		if got := qrdec.FormatInformation_NumBitsDiffering(a, b); got != pop(a^b) {
			r.Violation("model-mismatch", "qr.tables:bit-distance", fmt.Sprintf("FormatInformation_NumBitsDiffering(%#x, %#x) = %d, the values differ in %d bits", a, b, got, pop(a^b)), map[string]interface{}{"a": a, "b": b})
			return
		}
	}
	r.Evals(200000)
	r.Tally("bit_distance_function_checked")
	r.Nontrivial("bit-distance")
}

func c07Tables(r *fw.Rec) {
	for v := 1; v <= 40; v++ {
		ver, err := qrdec.Version_GetVersionForNumber(v)
		if err != nil {
			r.Violation("model-mismatch", "qr.tables:version-missing", fmt.Sprintf("Version_GetVersionForNumber(%d): %v", v, err), nil)
			return
		}
		if ver.GetVersionNumber() != v || ver.GetDimensionForVersion() != qrref.Size(v) {
			r.Violation("model-mismatch", "qr.tables:dimension", fmt.Sprintf("version %d: number %d dimension %d", v, ver.GetVersionNumber(), ver.GetDimensionForVersion()), nil)
			return
		}
		if ver.GetTotalCodewords() != qrref.TotalCodewords(v) {
			r.Violation("model-mismatch", "qr.tables:total-codewords", fmt.Sprintf("version %d: total codewords %d, raw modules/8 = %d", v, ver.GetTotalCodewords(), qrref.TotalCodewords(v)), map[string]interface{}{"version": v})
			return
		}
		if !intsEq(append([]int{}, ver.GetAlignmentPatternCenters()...), append([]int{}, qrref.AlignmentCenters(v)...)) && !(len(ver.GetAlignmentPatternCenters()) == 0 && len(qrref.AlignmentCenters(v)) == 0) {
			r.Violation("model-mismatch", "qr.tables:alignment-centres", fmt.Sprintf("version %d: alignment centres %v, standard %v", v, ver.GetAlignmentPatternCenters(), qrref.AlignmentCenters(v)), map[string]interface{}{"version": v})
			return
		}
		for _, l := range qrAllLevels {
			ecb := ver.GetECBlocksForLevel(qrLibLevel[l])
			var got [][2]int
			for _, b := range ecb.GetECBlocks() {
				got = append(got, [2]int{b.GetCount(), b.GetDataCodewords()})
			}
			want := qrref.Blocks(v, l)
			same := len(got) == len(want)
			for i := 0; same && i < len(got); i++ {
				same = got[i] == want[i]
			}
			if !same || ecb.GetECCodewordsPerBlock() != qrref.ECCodewordsPerBlock(v, l) || ecb.GetNumBlocks() != qrref.NumBlocks(v, l) ||
				ecb.GetTotalECCodewords() != qrref.TotalCodewords(v)-qrref.DataCodewords(v, l) {
				r.Violation("model-mismatch", "qr.tables:block-structure", fmt.Sprintf("%d-%s: blocks %v ec/block %d, standard %v ec/block %d", v, qrLevelName[l], got, ecb.GetECCodewordsPerBlock(), want, qrref.ECCodewordsPerBlock(v, l)), map[string]interface{}{"version": v, "level": qrLevelName[l]})
				return
			}
			r.Tally("block_structures_equal")
		}
		if v >= 7 {
			w := qrref.VersionWord(v)
			dv, err := qrdec.Version_decodeVersionInformation(w)
			if err != nil || dv.GetVersionNumber() != v {
				r.Violation("model-mismatch", "qr.tables:version-word", fmt.Sprintf("BCH(18,6) word %#x of version %d decodes to %v, %v", w, v, dv, err), map[string]interface{}{"version": v})
				return
			}
			r.Tally("version_words_equal")
		}
		r.Tally("versions_checked")
	}
	for _, l := range qrAllLevels {
		for mask := 0; mask < 8; mask++ {
			w := uint(qrref.FormatWord(l, mask))
			fi := qrdec.FormatInformation_DecodeFormatInformation(w, w)
			if fi == nil || fi.GetErrorCorrectionLevel() != qrLibLevel[l] || int(fi.GetDataMask()) != mask {
				r.Violation("model-mismatch", "qr.tables:format-word", fmt.Sprintf("BCH(15,5) word %#x for %s mask %d decodes to %+v", w, qrLevelName[l], mask, fi), map[string]interface{}{"level": qrLevelName[l], "mask": mask})
				return
			}
			r.Tally("format_words_equal")
		}
	}
	// the stored code words themselves: VERSION_DECODE_INFO directly, and both tables through every
	// error pattern of up to 3 bits (a stored word that is off by one or two bits still decodes the
	// exact word by nearest match, but not every 3-bit corruption of it)
	if len(qrdec.VERSION_DECODE_INFO) != 34 {
		r.Violation("model-mismatch", "qr.tables:version-word-table-size", fmt.Sprintf("VERSION_DECODE_INFO has %d entries", len(qrdec.VERSION_DECODE_INFO)), nil)
		return
	}
	for v := 7; v <= 40; v++ {
		if qrdec.VERSION_DECODE_INFO[v-7] != qrref.VersionWord(v) {
			r.Violation("model-mismatch", "qr.tables:version-word-stored", fmt.Sprintf("stored version word for version %d is %#x, BCH(18,6) gives %#x", v, qrdec.VERSION_DECODE_INFO[v-7], qrref.VersionWord(v)), map[string]interface{}{"version": v})
			return
		}
		for _, sub := range bitSubsets(18, 3) {
			w := qrref.VersionWord(v)
			for _, k := range sub {
				w ^= 1 << uint(k)
			}
			dv, err := qrdec.Version_decodeVersionInformation(w)
			if err != nil || dv == nil || dv.GetVersionNumber() != v {
				r.Violation("model-mismatch", "qr.tables:version-word-error-pattern", fmt.Sprintf("version word of version %d with bits %v flipped decodes to %v, %v", v, sub, dv, err), map[string]interface{}{"version": v, "bits": sub})
				return
			}
			r.Tally("version_word_error_patterns_decoded")
		}
	}
	subs15 := bitSubsets(15, 3)
	for _, l := range qrAllLevels {
		for mask := 0; mask < 8; mask++ {
			for si, sub := range subs15 {
				w := uint(qrref.FormatWord(l, mask))
				for _, k := range sub {
					w ^= 1 << uint(k)
				}
				// the other copy: the same corruption in one call, an independent <=3-bit corruption in the other
				w2 := uint(qrref.FormatWord(l, mask))
				for _, k := range subs15[(si*37+11)%len(subs15)] {
					w2 ^= 1 << uint(k)
				}
				for _, other := range []uint{w, w2} {
					fi := qrdec.FormatInformation_DecodeFormatInformation(w, other)
					if fi == nil || fi.GetErrorCorrectionLevel() != qrLibLevel[l] || int(fi.GetDataMask()) != mask {
						r.Violation("model-mismatch", "qr.tables:format-word-error-pattern", fmt.Sprintf("format word of %s mask %d with bits %v flipped (other copy %#x) decodes to %+v", qrLevelName[l], mask, sub, other, fi), map[string]interface{}{"level": qrLevelName[l], "mask": mask, "bits": sub})
						return
					}
				}
				r.Tally("format_word_error_patterns_decoded")
			}
		}
	}
	r.Nontrivial("tables")
	r.Sample(map[string]interface{}{"kind": "tables", "checked": "40 versions: size, total codewords, alignment centres, 160 block structures, 34 version words (stored value and all <=3-bit error patterns), 32 format words (all <=3-bit error patterns)"})
}

// c07OtherFields: before the first QR symbol of the process the Reed-Solomon encoder has worked in
// the other fields for every parity length QR uses (a process that also writes Data Matrix or
// encodes Aztec data does just that): what a QR block is divided by depends on the QR field alone.
var c07OtherFieldsOnce sync.Once

func c07OtherFields() {
	c07OtherFieldsOnce.Do(func() {
		for _, f := range []*reedsolomon.GenericGF{reedsolomon.GenericGF_DATA_MATRIX_FIELD_256, reedsolomon.GenericGF_AZTEC_DATA_8, reedsolomon.GenericGF_AZTEC_DATA_10} {
			for n := 1; n <= 68; n++ {
				w := make([]int, 9+n)
				for i := 0; i < 9; i++ {
					w[i] = 1 + i
				}
				_ = reedsolomon.NewReedSolomonEncoder(f).Encode(w, n)
			}
		}
	})
}

func c07(c *fw.Ctx) {
	c07OtherFields()
	c.Rule("all 1280 (version, level, mask) configurations, each with N payloads (modes rotate over numeric/alphanumeric/byte UTF-8/kanji, a third of the byte payloads in another declared character set of the registry - ECI header, count field = bytes of that encoding -, length capacity, capacity-1 or random; a third of the payloads as GS1 symbols: FNC1 in first position, after the ECI header where a character set is declared): library Encoder_encode with forced version and mask vs qrref.BuildMatrix module for module (and, for every other (version, level), three symbols with the mask left to the encoder, compared under the mask it reports and compared AGAIN after the later encodes), and the library decoder on the qrref-built symbol (text, raw data codewords, level); plus the decoder's per-version tables and all 32+34 BCH words; distinct = distinct (version, level, mask, payload)")
	c.Assume("qrref (harness/ref/qrref) is the transcription of ISO/IEC 18004: tables typed independently, geometry/BCH/capacities computed; anchored on Annex I and published capacities in the start-up self-test")
	c.Assume("automatic mask selection is not compared (the N3 penalty rule is ambiguous in the standard); masks are forced")
	reps := c.Pick(6, 240)
	c.Run("tables", func(r *fw.Rec) { c07Tables(r) })
	for v := 1; v <= 40; v++ {
		for _, l := range qrAllLevels {
			for mask := 0; mask < 8; mask++ {
				v, l, mask := v, l, mask
				c.Run(fmt.Sprintf("cfg/%d/%s/%d", v, qrLevelName[l], mask), func(r *fw.Rec) { c07Config(r, v, l, mask, reps) })
			}
		}
	}
	c.Exhaustive("QR (version, level, mask) configurations: all 1280")
	c.Exhaustive("decoder tables: 40 versions, 160 block structures, 32 format words, 34 version words")
	for v := 1; v <= 40; v++ {
		for _, l := range qrAllLevels {
			v, l := v, l
			if c.Quick() && (v+int(l))%2 != 0 {
				continue
			}
			c.Run(fmt.Sprintf("automask/%d/%s", v, qrLevelName[l]), func(r *fw.Rec) { c07AutoMask(r, v, l) })
		}
	}
	c.Run("bit-distance", func(r *fw.Rec) { c07BitDistance(r) })
	c.Floor("bit_distance_function_checked", 1)
	c.Floor("automatic_mask_matrices_equal", 200)
	c.Floor("encoder_matrices_equal", int64(1280*reps*9/10))
	c.Floor("decoder_reference_symbols_read", int64(1280*reps*9/10))
	c.Floor("block_structures_equal", 160)
	c.Floor("format_words_equal", 32)
	c.Floor("version_words_equal", 34)
	c.Floor("version_word_error_patterns_decoded", 34*988)
	c.Floor("format_word_error_patterns_decoded", 32*576)
	c.Floor("byte_mode_in_declared_non_utf8_charset", 200)
	c.Floor("symbols_with_gs1_format_false", 500)
}
