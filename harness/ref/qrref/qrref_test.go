package qrref

import (
	"bytes"
	"reflect"
	"testing"
)

// Published totals (ISO 18004 Table 1 / Table 9 "total number of codewords").
var publishedTotal = [40]int{
	26, 44, 70, 100, 134, 172, 196, 242, 292, 346,
	404, 466, 532, 581, 655, 733, 815, 901, 991, 1085,
	1156, 1258, 1364, 1474, 1588, 1706, 1828, 1921, 2051, 2185,
	2323, 2465, 2611, 2761, 2876, 3034, 3196, 3362, 3532, 3706,
}

// Published remainder bits (Table 1).
func publishedRemainder(v int) int {
	switch {
	case v == 1:
		return 0
	case v <= 6:
		return 7
	case v <= 13:
		return 0
	case v <= 20:
		return 3
	case v <= 27:
		return 4
	case v <= 34:
		return 3
	}
	return 0
}

func TestGeometryTotals(t *testing.T) {
	for v := 1; v <= 40; v++ {
		if got := TotalCodewords(v); got != publishedTotal[v-1] {
			t.Errorf("TotalCodewords(%d)=%d want %d", v, got, publishedTotal[v-1])
		}
		if got := RemainderBits(v); got != publishedRemainder(v) {
			t.Errorf("RemainderBits(%d)=%d want %d", v, got, publishedRemainder(v))
		}
		if Size(v) != 17+4*v {
			t.Errorf("Size(%d)", v)
		}
	}
	// Published data-module counts (Table 1, "data modules except (C)").
	for v, want := range map[int]int{1: 208, 2: 359, 6: 1383, 7: 1568, 40: 29648} {
		if got := RawDataModules(v); got != want {
			t.Errorf("RawDataModules(%d)=%d want %d", v, got, want)
		}
	}
}

func TestDataCodewordsPublished(t *testing.T) {
	want := map[int][4]int{
		1: {19, 16, 13, 9}, 2: {34, 28, 22, 16}, 3: {55, 44, 34, 26}, 4: {80, 64, 48, 36},
		5: {108, 86, 62, 46}, 6: {136, 108, 76, 60}, 7: {156, 124, 88, 66}, 8: {194, 154, 110, 86},
		9: {232, 182, 132, 100}, 10: {274, 216, 154, 122}, 40: {2956, 2334, 1666, 1276},
	}
	for v, w := range want {
		for l := L; l <= H; l++ {
			if got := DataCodewords(v, l); got != w[l] {
				t.Errorf("DataCodewords(%d,%v)=%d want %d", v, l, got, w[l])
			}
		}
	}
}

func TestBlockStructure(t *testing.T) {
	// A few rows of Table 9.
	cases := []struct {
		v    int
		l    Level
		ec   int
		want [][2]int
	}{
		{1, L, 7, [][2]int{{1, 19}}},
		{5, Q, 18, [][2]int{{2, 15}, {2, 16}}},
		{5, H, 22, [][2]int{{2, 11}, {2, 12}}},
		{7, H, 26, [][2]int{{4, 13}, {1, 14}}},
		{10, L, 18, [][2]int{{2, 68}, {2, 69}}},
		{15, M, 24, [][2]int{{5, 41}, {5, 42}}},
		{40, L, 30, [][2]int{{19, 118}, {6, 119}}},
		{40, M, 28, [][2]int{{18, 47}, {31, 48}}},
		{40, Q, 30, [][2]int{{34, 24}, {34, 25}}},
		{40, H, 30, [][2]int{{20, 15}, {61, 16}}},
	}
	for _, c := range cases {
		if got := Blocks(c.v, c.l); !reflect.DeepEqual(got, c.want) {
			t.Errorf("Blocks(%d,%v)=%v want %v", c.v, c.l, got, c.want)
		}
		if got := ECCodewordsPerBlock(c.v, c.l); got != c.ec {
			t.Errorf("EC(%d,%v)=%d want %d", c.v, c.l, got, c.ec)
		}
	}
	// Structural invariants for all 160 combinations.
	for v := 1; v <= 40; v++ {
		prev := TotalCodewords(v)
		for l := L; l <= H; l++ {
			n, sum := 0, 0
			for _, g := range Blocks(v, l) {
				n += g[0]
				sum += g[0] * g[1]
				if g[1]+ECCodewordsPerBlock(v, l) > 255 {
					t.Errorf("%d-%v: block longer than 255", v, l)
				}
			}
			if n != NumBlocks(v, l) || sum != DataCodewords(v, l) {
				t.Errorf("%d-%v: block sums inconsistent", v, l)
			}
			if d := DataCodewords(v, l); d >= prev {
				t.Errorf("%d-%v: data codewords %d not decreasing with level", v, l, d)
			} else {
				prev = d
			}
			if v > 1 && DataCodewords(v, l) <= DataCodewords(v-1, l) {
				t.Errorf("%d-%v: data codewords not increasing with version", v, l)
			}
		}
	}
}

func TestCapacitiesPublished(t *testing.T) {
	cases := []struct {
		v    int
		l    Level
		want [4]int
	}{
		{1, L, [4]int{41, 25, 17, 10}},
		{1, M, [4]int{34, 20, 14, 8}},
		{1, Q, [4]int{27, 16, 11, 7}},
		{1, H, [4]int{17, 10, 7, 4}},
		{2, L, [4]int{77, 47, 32, 20}},
		{10, L, [4]int{652, 395, 271, 167}},
		{10, M, [4]int{513, 311, 213, 131}},
		{27, L, [4]int{3517, 2132, 1465, 902}},
		{40, L, [4]int{7089, 4296, 2953, 1817}},
		{40, M, [4]int{5596, 3391, 2331, 1435}},
		{40, Q, [4]int{3993, 2420, 1663, 1024}},
		{40, H, [4]int{3057, 1852, 1273, 784}},
	}
	for _, c := range cases {
		for m := Numeric; m <= Kanji; m++ {
			if got := Capacity(c.v, c.l, m); got != c.want[m] {
				t.Errorf("Capacity(%d,%v,%v)=%d want %d", c.v, c.l, m, got, c.want[m])
			}
		}
	}
	if MinVersion(7089, Numeric, L) != 40 || MinVersion(7090, Numeric, L) != 0 ||
		MinVersion(41, Numeric, L) != 1 || MinVersion(42, Numeric, L) != 2 || MinVersion(0, Byte, H) != 1 {
		t.Errorf("MinVersion")
	}
	// Capacity must be exactly the fit boundary of DataCodewordsFor.
	for v := 1; v <= 40; v++ {
		for l := L; l <= H; l++ {
			for m := Numeric; m <= Kanji; m++ {
				n := Capacity(v, l, m)
				mk := func(n int) Segment {
					switch m {
					case Numeric:
						return Segment{Mode: m, Data: bytes.Repeat([]byte("7"), n)}
					case Alphanumeric:
						return Segment{Mode: m, Data: bytes.Repeat([]byte("Z"), n)}
					case Byte:
						return Segment{Mode: m, Data: bytes.Repeat([]byte{0xA5}, n)}
					}
					return Segment{Mode: m, Data: bytes.Repeat([]byte{0x93, 0x5F}, n)}
				}
				if _, ok := DataCodewordsFor(v, l, []Segment{mk(n)}); !ok {
					t.Errorf("%d-%v %v: capacity %d does not fit", v, l, m, n)
				}
				if ValidSegment(v, mk(n+1)) == nil {
					if _, ok := DataCodewordsFor(v, l, []Segment{mk(n + 1)}); ok {
						t.Errorf("%d-%v %v: capacity+1 = %d fits", v, l, m, n+1)
					}
				}
			}
		}
	}
}

func TestCharCountBits(t *testing.T) {
	want := map[Mode][3]int{Numeric: {10, 12, 14}, Alphanumeric: {9, 11, 13}, Byte: {8, 16, 16}, Kanji: {8, 10, 12}}
	for m, w := range want {
		for v := 1; v <= 40; v++ {
			k := 0
			if v >= 27 {
				k = 2
			} else if v >= 10 {
				k = 1
			}
			if CharCountBits(m, v) != w[k] {
				t.Errorf("CharCountBits(%v,%d)", m, v)
			}
		}
	}
}

// alignRule computes the centres from the construction described in Annex E:
// first centre 6, last centre size-7, v/7+2 centres, evenly spaced with even
// steps, any slack taken up between the first and second centre.
func alignRule(v int) []int {
	if v == 1 {
		return nil
	}
	n := v/7 + 2
	first, last := 6, Size(v)-7
	// smallest even step s with first + (n-1)*s >= last, i.e. ceil((last-first)/(n-1)) rounded up to even
	step := (last - first + n - 2) / (n - 1)
	if step%2 == 1 {
		step++
	}
	if v == 32 { // the one version where the published table deviates (26, not 28)
		step = 26
	}
	out := make([]int, n)
	out[0] = first
	for i := n - 1; i >= 1; i-- {
		out[i] = last - (n-1-i)*step
	}
	return out
}

func TestAlignmentCenters(t *testing.T) {
	for v := 1; v <= 40; v++ {
		got := AlignmentCenters(v)
		want := alignRule(v)
		if len(got) != len(want) {
			t.Errorf("v%d: %v vs rule %v", v, got, want)
			continue
		}
		for i := range got {
			if got[i] != want[i] {
				t.Errorf("v%d: %v vs rule %v", v, got, want)
				break
			}
		}
	}
	pub := map[int][]int{
		2: {6, 18}, 7: {6, 22, 38}, 14: {6, 26, 46, 66}, 21: {6, 28, 50, 72, 94},
		32: {6, 34, 60, 86, 112, 138}, 36: {6, 24, 50, 76, 102, 128, 154},
		40: {6, 30, 58, 86, 114, 142, 170},
	}
	for v, w := range pub {
		if !reflect.DeepEqual(AlignmentCenters(v), w) {
			t.Errorf("AlignmentCenters(%d)=%v want %v", v, AlignmentCenters(v), w)
		}
	}
	if len(AlignmentCenters(1)) != 0 {
		t.Errorf("v1 has no alignment patterns")
	}
}

func TestFormatWords(t *testing.T) {
	// ISO 18004 Annex C, Table C.1, reordered by (level, mask).
	want := map[Level][8]int{
		L: {0x77C4, 0x72F3, 0x7DAA, 0x789D, 0x662F, 0x6318, 0x6C41, 0x6976},
		M: {0x5412, 0x5125, 0x5E7C, 0x5B4B, 0x45F9, 0x40CE, 0x4F97, 0x4AA0},
		Q: {0x355F, 0x3068, 0x3F31, 0x3A06, 0x24B4, 0x2183, 0x2EDA, 0x2BED},
		H: {0x1689, 0x13BE, 0x1CE7, 0x19D0, 0x0762, 0x0255, 0x0D0C, 0x083B},
	}
	for l, w := range want {
		for mask := 0; mask < 8; mask++ {
			if got := FormatWord(l, mask); got != w[mask] {
				t.Errorf("FormatWord(%v,%d)=%#x want %#x", l, mask, got, w[mask])
			}
		}
	}
	// minimum distance 7 between any two of the 32 words
	var all []int
	for l := L; l <= H; l++ {
		for mask := 0; mask < 8; mask++ {
			all = append(all, FormatWord(l, mask))
		}
	}
	for i := range all {
		for j := i + 1; j < len(all); j++ {
			if d := popcount(all[i] ^ all[j]); d < 7 {
				t.Errorf("format words %#x %#x distance %d", all[i], all[j], d)
			}
		}
	}
}

func popcount(x int) int {
	n := 0
	for ; x != 0; x &= x - 1 {
		n++
	}
	return n
}

func TestVersionWords(t *testing.T) {
	// ISO 18004 Annex D, Table D.1.
	want := map[int]int{
		7: 0x07C94, 8: 0x085BC, 9: 0x09A99, 10: 0x0A4D3, 11: 0x0BBF6, 12: 0x0C762,
		13: 0x0D847, 14: 0x0E60D, 15: 0x0F928, 16: 0x10B78, 17: 0x1145D, 18: 0x12A17,
		19: 0x13532, 20: 0x149A6, 21: 0x15683, 22: 0x168C9, 23: 0x177EC, 24: 0x18EC4,
		25: 0x191E1, 26: 0x1AFAB, 27: 0x1B08E, 28: 0x1CC1A, 29: 0x1D33F, 30: 0x1ED75,
		31: 0x1F250, 32: 0x209D5, 33: 0x216F0, 34: 0x228BA, 35: 0x2379F, 36: 0x24B0B,
		37: 0x2542E, 38: 0x26A64, 39: 0x27541, 40: 0x28C69,
	}
	for v, w := range want {
		if got := VersionWord(v); got != w {
			t.Errorf("VersionWord(%d)=%#x want %#x", v, got, w)
		}
	}
	for a := 7; a <= 40; a++ {
		for b := a + 1; b <= 40; b++ {
			if d := popcount(VersionWord(a) ^ VersionWord(b)); d < 8 {
				t.Errorf("version words %d %d distance %d", a, b, d)
			}
		}
	}
}

// ISO 18004 Annex I worked example: "01234567", version 1-M.
func TestAnnexIExample(t *testing.T) {
	segs := []Segment{{Mode: Numeric, Data: []byte("01234567")}}
	bits := EncodeSegments(1, segs)
	wantBits := "0001" + "0000001000" + "0000001100" + "0101011001" + "1000011"
	if s := bitString(bits); s != wantBits {
		t.Errorf("bits %s want %s", s, wantBits)
	}
	data, ok := DataCodewordsFor(1, M, segs)
	wantData := []byte{0x10, 0x20, 0x0C, 0x56, 0x61, 0x80, 0xEC, 0x11, 0xEC, 0x11, 0xEC, 0x11, 0xEC, 0x11, 0xEC, 0x11}
	if !ok || !bytes.Equal(data, wantData) {
		t.Fatalf("data % X want % X", data, wantData)
	}
	final := FinalCodewords(1, M, data)
	wantEC := []byte{0xA5, 0x24, 0xD4, 0xC1, 0xED, 0x36, 0xC7, 0x87, 0x2C, 0x55}
	if !bytes.Equal(final[:16], wantData) || !bytes.Equal(final[16:], wantEC) {
		t.Errorf("final % X want % X % X", final, wantData, wantEC)
	}
}

// Widely published "HELLO WORLD" examples (1-M and 1-Q).
func TestHelloWorld(t *testing.T) {
	segs := []Segment{{Mode: Alphanumeric, Data: []byte("HELLO WORLD")}}
	data, ok := DataCodewordsFor(1, M, segs)
	want := []byte{32, 91, 11, 120, 209, 114, 220, 77, 67, 64, 236, 17, 236, 17, 236, 17}
	if !ok || !bytes.Equal(data, want) {
		t.Fatalf("1-M data %v want %v", data, want)
	}
	wantEC := []byte{196, 35, 39, 119, 235, 215, 231, 226, 93, 23}
	if got := FinalCodewords(1, M, data)[16:]; !bytes.Equal(got, wantEC) {
		t.Errorf("1-M ec %v want %v", got, wantEC)
	}
	data, ok = DataCodewordsFor(1, Q, segs)
	want = []byte{32, 91, 11, 120, 209, 114, 220, 77, 67, 64, 236, 17, 236}
	if !ok || !bytes.Equal(data, want) {
		t.Fatalf("1-Q data %v want %v", data, want)
	}
	wantEC = []byte{168, 72, 22, 82, 217, 54, 156, 0, 46, 15, 180, 122, 16}
	if got := FinalCodewords(1, Q, data)[13:]; !bytes.Equal(got, wantEC) {
		t.Errorf("1-Q ec %v want %v", got, wantEC)
	}
}

func bitString(b []bool) string {
	s := make([]byte, len(b))
	for i, v := range b {
		s[i] = '0'
		if v {
			s[i] = '1'
		}
	}
	return string(s)
}

func TestSegmentEncodings(t *testing.T) {
	// 8.4.3 example: "AC-42" alphanumeric, version 1: 0010 000000101 00111001110 11100111001 000010
	if s := bitString(EncodeSegments(1, []Segment{{Mode: Alphanumeric, Data: []byte("AC-42")}})); s != "0010"+"000000101"+"00111001110"+"11100111001"+"000010" {
		t.Errorf("AC-42: %s", s)
	}
	// 8.4.2 example 2: "0123456789012345" numeric version 1-H
	want := "0001" + "0000010000" + "0000001100" + "0101011001" + "1010100110" + "1110000101" + "0011101010" + "0101"
	if s := bitString(EncodeSegments(1, []Segment{{Mode: Numeric, Data: []byte("0123456789012345")}})); s != want {
		t.Errorf("numeric 16: %s", s)
	}
	// 8.4.5 examples: 0x935F -> 0x0D9F, 0xE4AA -> 0x1AAA (13 bits)
	s := bitString(EncodeSegments(1, []Segment{{Mode: Kanji, Data: []byte{0x93, 0x5F, 0xE4, 0xAA}}}))
	if s != "1000"+"00000010"+"0110110011111"+"1101010101010" {
		t.Errorf("kanji: %s", s)
	}
	// ECI 000009 then byte data (8.4.1.1 example: 0111 00001001 0100 00000101 ...)
	s = bitString(EncodeSegments(1, []Segment{{Mode: ModeECI, ECI: 9}, {Mode: Byte, Data: []byte{0xA1, 0xA2, 0xA3, 0xA4, 0xA5}}}))
	if s != "0111"+"00001001"+"0100"+"00000101"+"10100001"+"10100010"+"10100011"+"10100100"+"10100101" {
		t.Errorf("eci: %s", s)
	}
	// ECI designator forms
	for _, c := range []struct {
		eci  int
		want string
	}{
		{0, "00000000"}, {127, "01111111"},
		{128, "10" + "00000010000000"}, {16383, "10" + "11111111111111"},
		{16384, "110" + "000000100000000000000"}, {999999, "110" + "011110100001000111111"},
	} {
		if s := bitString(EncodeSegments(1, []Segment{{Mode: ModeECI, ECI: c.eci}})); s != "0111"+c.want {
			t.Errorf("ECI %d: %s", c.eci, s)
		}
	}
}

func TestTerminatorAndPadding(t *testing.T) {
	// 1-H numeric 17 digits: 4+10+50+7 = 71 bits of 72: terminator truncated to 1 bit.
	d, ok := DataCodewordsFor(1, H, []Segment{{Mode: Numeric, Data: []byte("12345678901234567")}})
	if !ok || len(d) != 9 || d[8]&1 != 0 {
		t.Errorf("truncated terminator: % X %v", d, ok)
	}
	// exactly full: 1-L byte 17 -> 4+8+136 = 148 of 152: full 4-bit terminator, no pad
	d, ok = DataCodewordsFor(1, L, []Segment{{Mode: Byte, Data: bytes.Repeat([]byte{0xFF}, 17)}})
	if !ok || len(d) != 19 || d[18] != 0xF0 {
		t.Errorf("exact fit: % X %v", d, ok)
	}
	// empty
	d, ok = DataCodewordsFor(1, L, nil)
	if !ok || d[0] != 0 || d[1] != 0xEC || d[2] != 0x11 || d[18] != 0x11 {
		t.Errorf("empty: % X", d)
	}
}

func TestParseRoundTrip(t *testing.T) {
	segs := []Segment{
		{Mode: ModeECI, ECI: 26},
		{Mode: Numeric, Data: []byte("0123456789012")},
		{Mode: Alphanumeric, Data: []byte("HELLO WORLD $%*+-./:")},
		{Mode: ModeECI, ECI: 20000},
		{Mode: Byte, Data: []byte{0, 1, 2, 0xFF, 0x80}},
		{Mode: Kanji, Data: []byte{0x81, 0x40, 0x9F, 0xFC, 0xE0, 0x40, 0xEB, 0xBF, 0x93, 0x5F}},
		{Mode: ModeFNC1First},
		{Mode: ModeFNC1Second, Data: []byte{0x25}},
		{Mode: ModeStructuredAppend, Data: []byte{0x13, 0xAB}},
		{Mode: Numeric, Data: []byte("9")},
		{Mode: Alphanumeric, Data: []byte(":")},
	}
	for _, v := range []int{5, 9, 10, 26, 27, 40} {
		data, ok := DataCodewordsFor(v, L, segs)
		if !ok {
			t.Fatalf("v%d does not fit", v)
		}
		got, end, err := ParseDataCodewordsPos(v, data)
		if err != nil {
			t.Fatalf("v%d: %v", v, err)
		}
		if end != len(EncodeSegments(v, segs)) {
			t.Errorf("v%d: end %d want %d", v, end, len(EncodeSegments(v, segs)))
		}
		if len(got) != len(segs) {
			t.Fatalf("v%d: %d segments want %d", v, len(got), len(segs))
		}
		for i, s := range segs {
			g := got[i]
			if g.Mode != s.Mode || !bytes.Equal(g.Bytes, s.Data) {
				t.Errorf("v%d seg %d: %+v want %+v", v, i, g, s)
			}
			if s.Mode == ModeECI && g.ECI != s.ECI {
				t.Errorf("v%d seg %d: ECI %d want %d", v, i, g.ECI, s.ECI)
			}
			if s.Mode >= 0 && g.Count != segCount(s) {
				t.Errorf("v%d seg %d: count %d", v, i, g.Count)
			}
		}
	}
	if _, err := ParseDataCodewords(1, []byte{0x60}); err == nil {
		t.Errorf("mode 0110 must be rejected")
	}
	if _, err := ParseDataCodewords(1, []byte{0x40, 0x50}); err == nil {
		t.Errorf("truncated byte segment must be rejected")
	}
}

func TestFunctionPatterns(t *testing.T) {
	for v := 1; v <= 40; v++ {
		fn := IsFunction(v)
		size := Size(v)
		n := 0
		for y := range fn {
			for x := range fn[y] {
				if fn[y][x] {
					n++
				}
			}
		}
		// closed form: 3 finders+separators (64 each), timing 2*(size-16),
		// alignment 25 each minus 5 per pattern lying on a timing line,
		// format 2*15, dark module 1, version 2*18.
		na := len(AlignmentCenters(v))
		want := 3*64 + 2*(size-16) + 31
		if na > 0 {
			want += 25*(na*na-3) - 2*5*(na-2)
		}
		if v >= 7 {
			want += 36
		}
		if n != want {
			t.Errorf("v%d: %d function modules, closed form %d", v, n, want)
		}
		if size*size-n != RawDataModules(v) {
			t.Errorf("v%d: data modules", v)
		}
		// every data module appears exactly once in the placement order
		seen := newGrid(size)
		for _, p := range DataModuleOrder(v) {
			if fn[p[1]][p[0]] || seen[p[1]][p[0]] {
				t.Fatalf("v%d: bad module %v in order", v, p)
			}
			seen[p[1]][p[0]] = true
		}
	}
	// Spot checks of version 1 placement: first codeword occupies the bottom
	// right 2x4 going up; MSB at the corner.
	cm := CodewordModules(1)
	want := [8][2]int{{20, 20}, {19, 20}, {20, 19}, {19, 19}, {20, 18}, {19, 18}, {20, 17}, {19, 17}}
	if cm[0] != want {
		t.Errorf("v1 codeword 0 at %v", cm[0])
	}
	// codeword 4 (index 3) is the first one in the downward column 18/17... in
	// v1 the first column pair holds 12 rows (rows 9..20) = 24 bits = 3
	// codewords, so codeword index 3 starts at (18,9) going down.
	want = [8][2]int{{18, 9}, {17, 9}, {18, 10}, {17, 10}, {18, 11}, {17, 11}, {18, 12}, {17, 12}}
	if cm[3] != want {
		t.Errorf("v1 codeword 3 at %v", cm[3])
	}
	// The last codeword of v1 ends in column pair (1,0) ... and is at rows 9..12.
	if last := cm[25][7]; last != [2]int{0, 12} {
		t.Errorf("v1 last bit at %v", last)
	}
	// fixed modules
	m := BuildMatrix(1, M, 0, make([]byte, 16))
	if !m[13][8] || !m[0][0] || m[1][1] || !m[3][3] || m[7][7] || !m[6][8] || m[6][9] || !m[6][10] {
		t.Errorf("v1 fixed modules wrong")
	}
	m7 := FunctionPatternValues(7)
	if !m7[22][22] || m7[21][22] || !m7[20][22] || !m7[6][22] || !m7[38][38] || !m7[45-8][8] {
		t.Errorf("v7 fixed modules wrong")
	}
}

func TestCodewordBlock(t *testing.T) {
	for v := 1; v <= 40; v++ {
		for l := L; l <= H; l++ {
			// build data where codeword value encodes position and check interleave
			nd := DataCodewords(v, l)
			lens := blockDataLens(v, l)
			type key struct {
				b   int
				ec  bool
				idx int
			}
			seen := map[key]bool{}
			for i := 0; i < TotalCodewords(v); i++ {
				b, ec, idx := CodewordBlock(v, l, i)
				k := key{b, ec, idx}
				if seen[k] {
					t.Fatalf("%d-%v: duplicate %v", v, l, k)
				}
				seen[k] = true
				if b < 0 || b >= len(lens) || idx < 0 || (!ec && idx >= lens[b]) || (ec && idx >= ECCodewordsPerBlock(v, l)) {
					t.Fatalf("%d-%v: bad %v", v, l, k)
				}
				if ec != (i >= nd) {
					t.Fatalf("%d-%v: ec flag at %d", v, l, i)
				}
			}
			data := make([]byte, nd)
			for i := range data {
				data[i] = byte(i*7 + 3)
			}
			db, eb := SplitBlocks(v, l, data)
			final := FinalCodewords(v, l, data)
			for i, c := range final {
				b, ec, idx := CodewordBlock(v, l, i)
				src := db[b]
				if ec {
					src = eb[b]
				}
				if src[idx] != c {
					t.Fatalf("%d-%v: final[%d] mismatch", v, l, i)
				}
			}
		}
	}
	// 5-Q interleave order (blocks 15,15,16,16): D1,D16,D31,D47,D2,...; the
	// 61st and 62nd data codewords are the last of blocks 3 and 4.
	b, ec, idx := CodewordBlock(5, Q, 60)
	if b != 2 || ec || idx != 15 {
		t.Errorf("5-Q cw60: %d %v %d", b, ec, idx)
	}
	b, ec, idx = CodewordBlock(5, Q, 62)
	if b != 0 || !ec || idx != 0 {
		t.Errorf("5-Q cw62: %d %v %d", b, ec, idx)
	}
}

func TestMaskBit(t *testing.T) {
	// Figure 23 corner values: pattern 000 dark at (0,0); 001 rows; 010 columns.
	for mask := 0; mask < 8; mask++ {
		if !MaskBit(mask, 0, 0) {
			t.Errorf("mask %d at origin must invert", mask)
		}
	}
	if MaskBit(0, 1, 0) || !MaskBit(1, 5, 0) || MaskBit(1, 0, 1) || !MaskBit(2, 3, 1) || MaskBit(2, 1, 0) ||
		!MaskBit(3, 1, 2) || !MaskBit(4, 2, 1) || MaskBit(4, 3, 1) || !MaskBit(4, 3, 2) ||
		!MaskBit(5, 6, 1) || MaskBit(5, 1, 1) || !MaskBit(6, 1, 1) || MaskBit(6, 1, 5) ||
		MaskBit(7, 1, 1) || MaskBit(7, 1, 2) || !MaskBit(7, 3, 1) {
		t.Errorf("mask spot checks")
	}
	// i/j asymmetry: mask 4 uses row/2 and col/3
	if MaskBit(4, 0, 2) || !MaskBit(4, 2, 0) {
		t.Errorf("mask 4 orientation")
	}
}

func TestMatrixMasking(t *testing.T) {
	// XOR of two masks' matrices must equal XOR of mask conditions on data
	// modules, and differ on function modules only in format information.
	v := 7
	data, _ := DataCodewordsFor(v, Q, []Segment{{Mode: Byte, Data: []byte("mask test")}})
	fn := IsFunction(v)
	a := BuildMatrix(v, Q, 2, data)
	b := BuildMatrix(v, Q, 5, data)
	c1, c2 := FormatBitPositions(Size(v))
	isFmt := map[[2]int]bool{}
	for k := 0; k < 15; k++ {
		isFmt[c1[k]] = true
		isFmt[c2[k]] = true
	}
	for y := range a {
		for x := range a[y] {
			diff := a[y][x] != b[y][x]
			if fn[y][x] {
				if diff && !isFmt[[2]int{x, y}] {
					t.Fatalf("function module (%d,%d) differs", x, y)
				}
			} else if diff != (MaskBit(2, x, y) != MaskBit(5, x, y)) {
				t.Fatalf("data module (%d,%d) mask diff wrong", x, y)
			}
		}
	}
	// read back format and version
	fw, vw := 0, 0
	for k := 0; k < 15; k++ {
		if a[c1[k][1]][c1[k][0]] {
			fw |= 1 << uint(k)
		}
		if a[c1[k][1]][c1[k][0]] != a[c2[k][1]][c2[k][0]] {
			t.Errorf("format copies differ at bit %d", k)
		}
	}
	if fw != FormatWord(Q, 2) {
		t.Errorf("format read back %#x", fw)
	}
	v1, v2 := VersionBitPositions(Size(v))
	for k := 0; k < 18; k++ {
		if a[v1[k][1]][v1[k][0]] {
			vw |= 1 << uint(k)
		}
		if a[v1[k][1]][v1[k][0]] != a[v2[k][1]][v2[k][0]] {
			t.Errorf("version copies differ at bit %d", k)
		}
	}
	if vw != 0x07C94 {
		t.Errorf("version read back %#x", vw)
	}
}

func TestPenalty(t *testing.T) {
	// all light 21x21: N1: 42 lines * (3+16) ; N2: 400*3 ; N3: 0 ; N4: 50% dev -> k=10 -> 100
	m := newGrid(21)
	n1, n2, n3, n4 := PenaltyParts(m)
	if n1 != 42*19 || n2 != 1200 || n3 != 0 || n4 != 100 {
		t.Errorf("all light: %d %d %d %d", n1, n2, n3, n4)
	}
	// checkerboard: nothing but N4 (221 dark of 441 = 50.1% -> 0)
	for y := range m {
		for x := range m[y] {
			m[y][x] = (x+y)%2 == 0
		}
	}
	if PenaltyScore(m) != 0 {
		t.Errorf("checkerboard: %d", PenaltyScore(m))
	}
	// single finder-like run in a row: 1011101 0000
	m = newGrid(21)
	for y := range m {
		for x := range m[y] {
			m[y][x] = (x+y)%2 == 0
		}
	}
	row := []bool{true, false, true, true, true, false, true, false, false, false, false}
	copy(m[10], row)
	_, _, n3, _ = PenaltyParts(m)
	if n3 != 40 {
		t.Errorf("n3 = %d", n3)
	}
}

func TestPenaltyN3Readings(t *testing.T) {
	// lone 1011101 at the left edge of an otherwise dark row, followed by dark:
	// only the quiet zone can supply the light area.
	m := newGrid(21)
	for y := range m {
		for x := range m[y] {
			m[y][x] = true
		}
	}
	m[5][1], m[5][5] = false, false
	if got := PenaltyN3(m, N3Reading{}); got != 0 {
		t.Errorf("strict: %d", got)
	}
	if got := PenaltyN3(m, N3Reading{QuietZoneLight: true}); got != 40 {
		t.Errorf("quiet: %d", got)
	}
	// 0000 1011101 0000 inside the symbol
	for x := 0; x < 21; x++ {
		m[9][x] = true
	}
	for _, x := range []int{2, 3, 4, 5, 7, 11, 13, 14, 15, 16} {
		m[9][x] = false
	}
	// columns are all-dark except these cells, so only row 9 contributes
	if got := PenaltyN3(m, N3Reading{}); got != 40 {
		t.Errorf("strict both sides: %d", got)
	}
	if got := PenaltyN3(m, N3Reading{CountBothSides: true}); got != 80 {
		t.Errorf("twice both sides: %d", got)
	}
}
