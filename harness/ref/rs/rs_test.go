package rs

import (
	"reflect"
	"testing"

	"verifharness/ref/gf"
)

func TestAnchors(t *testing.T) {
	for _, f := range gf.All {
		if f.Order() != f.Size-1 {
			t.Fatalf("%s order %d", f.Name, f.Order())
		}
	}
	d := []byte{0x10, 0x20, 0x0C, 0x56, 0x61, 0x80, 0xEC, 0x11, 0xEC, 0x11, 0xEC, 0x11, 0xEC, 0x11, 0xEC, 0x11}
	want := []byte{0xA5, 0x24, 0xD4, 0xC1, 0xED, 0x36, 0xC7, 0x87, 0x2C, 0x55}
	if got := ParityBytes(gf.QR256, d, 10); !reflect.DeepEqual(got, want) {
		t.Fatalf("qr %x", got)
	}
	if got := ParityBytes(gf.DM256, []byte{142, 164, 186}, 5); !reflect.DeepEqual(got, []byte{114, 25, 5, 88, 102}) {
		t.Fatalf("dm %v", got)
	}
}
