//go:build verif

package main

import (
	"bytes"
	"encoding/base64"
	"fmt"
	"image"
	"image/color"
	"image/png"
	"math"
	"sort"
	"strings"

	"golang.org/x/text/encoding"
	"golang.org/x/text/encoding/charmap"
	"golang.org/x/text/encoding/japanese"
	"golang.org/x/text/encoding/simplifiedchinese"
	"golang.org/x/text/encoding/unicode"

	"github.com/makiuchi-d/gozxing"

	"verifharness/fw"
	"verifharness/ref/azref"
	"verifharness/ref/dmref"
	"verifharness/ref/onedref"
	"verifharness/ref/qrref"
)

// helpers of the C06 driver (decoding is total): symbol sources, mutations,
// rendering, hint maps.  Nothing in here is an oracle; it only makes inputs.

// ---------------------------------------------------------------------------
// RSS-14 (GS1 DataBar Omnidirectional, linear form) encoder after ISO/IEC
// 24724: the library has no writer for it.
// ---------------------------------------------------------------------------

func c06Combins(n, r int) int {
	if r < 0 || n < r {
		return 0
	}
	if n-r < r {
		r = n - r
	}
	v := 1
	for i := 1; i <= r; i++ {
		v = v * (n - r + i) / i
	}
	return v
}

// c06RSSWidths returns the element widths of the val-th combination of n
// modules in `elements` elements, none wider than maxWidth; needNarrow:
// combinations without a one-module element are skipped.
func c06RSSWidths(val, n, elements, maxWidth int, needNarrow bool) []int {
	widths := make([]int, elements)
	narrowMask := 0
	bar := 0
	for ; bar < elements-1; bar++ {
		elmWidth := 1
		narrowMask |= 1 << uint(bar)
		subVal := 0
		for elmWidth <= n {
			subVal = c06Combins(n-elmWidth-1, elements-bar-2)
			if needNarrow && narrowMask == 0 && n-elmWidth-(elements-bar-1) >= elements-bar-1 {
				subVal -= c06Combins(n-elmWidth-(elements-bar), elements-bar-2)
			}
			if elements-bar-1 > 1 {
				less := 0
				for mxw := n - elmWidth - (elements - bar - 2); mxw > maxWidth; mxw-- {
					less += c06Combins(n-elmWidth-mxw-1, elements-bar-3)
				}
				subVal -= less * (elements - 1 - bar)
			} else if n-elmWidth > maxWidth {
				subVal--
			}
			val -= subVal
			if val < 0 {
				break
			}
			elmWidth++
			narrowMask &^= 1 << uint(bar)
		}
		val += subVal
		n -= elmWidth
		widths[bar] = elmWidth
	}
	widths[bar] = n
	return widths
}

var (
	c06RSSGSum       = []int{0, 161, 961, 2015, 2715, 0, 336, 1036, 1516}
	c06RSSTTable     = []int{1, 10, 34, 70, 126, 4, 20, 48, 81}
	c06RSSModOdd     = []int{12, 10, 8, 6, 4, 5, 7, 9, 11}
	c06RSSModEven    = []int{4, 6, 8, 10, 12, 10, 8, 6, 4}
	c06RSSWidestOdd  = []int{8, 6, 4, 3, 1, 2, 4, 6, 8}
	c06RSSWidestEven = []int{1, 3, 5, 6, 8, 7, 5, 3, 1}
	c06RSSFinders    = [9][5]int{{3, 8, 2, 1, 1}, {3, 5, 5, 1, 1}, {3, 3, 7, 1, 1}, {3, 1, 9, 1, 1}, {2, 7, 4, 1, 1}, {2, 5, 6, 1, 1}, {2, 3, 8, 1, 1}, {1, 5, 7, 1, 1}, {1, 3, 9, 1, 1}}
	c06RSSWeights    = [32]int{1, 3, 9, 27, 2, 6, 18, 54, 4, 12, 36, 29, 8, 24, 72, 58, 16, 48, 65, 37, 32, 17, 51, 74, 64, 34, 23, 69, 49, 68, 46, 59}
)

// c06RSS14Widths returns the 46 element widths (the first element is a space)
// of the symbol carrying value (0 .. 9999999999999: the 13 digits before the check digit).
func c06RSS14Widths(value int64) []int {
	left, right := int(value/4537077), int(value%4537077)
	dc := [4]int{left / 1597, left % 1597, right / 1597, right % 1597}
	var w [4][8]int
	for i := 0; i < 4; i++ {
		outside := i == 0 || i == 2
		g := 8
		if outside {
			g = 4
		}
		for c06RSSGSum[g] > dc[i] {
			g--
		}
		v := dc[i] - c06RSSGSum[g]
		var vOdd, vEven int
		if outside {
			vOdd, vEven = v/c06RSSTTable[g], v%c06RSSTTable[g]
		} else {
			vOdd, vEven = v%c06RSSTTable[g], v/c06RSSTTable[g]
		}
		odd := c06RSSWidths(vOdd, c06RSSModOdd[g], 4, c06RSSWidestOdd[g], !outside)
		even := c06RSSWidths(vEven, c06RSSModEven[g], 4, c06RSSWidestEven[g], outside)
		for k := 0; k < 4; k++ {
			w[i][2*k] = odd[k]
			w[i][2*k+1] = even[k]
		}
	}
	checksum := 0
	for i := 0; i < 4; i++ {
		for k := 0; k < 8; k++ {
			checksum += c06RSSWeights[8*i+k] * w[i][k]
		}
	}
	checksum %= 79
	if checksum >= 8 {
		checksum++
	}
	if checksum >= 72 {
		checksum++
	}
	cl, cr := checksum/9, checksum%9
	t := make([]int, 46)
	t[0], t[1], t[44], t[45] = 1, 1, 1, 1
	for k := 0; k < 8; k++ {
		t[2+k] = w[0][k]
		t[15+k] = w[1][7-k]
		t[23+k] = w[3][k]
		t[36+k] = w[2][7-k]
	}
	for k := 0; k < 5; k++ {
		t[10+k] = c06RSSFinders[cl][k]
		t[31+k] = c06RSSFinders[cr][4-k]
	}
	return t
}

// c06RSS14Pattern: the 96 modules (true = bar).
func c06RSS14Pattern(value int64) []bool {
	out := make([]bool, 0, 96)
	dark := false
	for _, n := range c06RSS14Widths(value) {
		for k := 0; k < n; k++ {
			out = append(out, dark)
		}
		dark = !dark
	}
	return out
}

// ---------------------------------------------------------------------------
// symbol sources
// ---------------------------------------------------------------------------

type c06Sym struct {
	kind string   // symbology
	mods [][]bool // [y][x], true = dark, no quiet zone; 1-D symbols have one row
	oneD bool
	desc string
}

var c06Kinds1D = []string{"EAN_13", "EAN_8", "UPC_A", "UPC_E", "CODE_39", "CODE_93", "CODE_128", "ITF", "CODABAR", "RSS_14"}
var c06Kinds2D = []string{"QR_CODE", "DATA_MATRIX", "AZTEC"}
var c06AllKinds = append(append([]string{}, c06Kinds2D...), c06Kinds1D...)

func c06UPCEANByName(kind string) *odUPCEAN {
	switch kind {
	case "EAN_13":
		return odEAN13
	case "EAN_8":
		return odEAN8
	case "UPC_A":
		return odUPCA
	case "UPC_E":
		return odUPCE
	}
	return nil
}

// c06Writer renders content with the library writer at the natural module size.
func c06Writer(ws *writerSpec, content string) [][]bool {
	var bm *gozxing.BitMatrix
	var err error
	_, _, panicked := fw.Guard(func() {
		_, _, _ = dmGuard(8*len(content)+64, func() {
			bm, err = ws.New().Encode(content, ws.Format, 0, 0, map[gozxing.EncodeHintType]interface{}{gozxing.EncodeHintType_MARGIN: 0})
		})
	})
	if panicked || err != nil || bm == nil {
		return nil
	}
	m := bitMatrixToBools(bm)
	if ws.OneD {
		row := odTrim(m[0])
		if row == nil {
			return nil
		}
		return [][]bool{append([]bool{}, row...)}
	}
	return m
}

func c06AztecSymbol(rng *fw.Rand, s azref.Spec) *azref.Symbol {
	T := s.TotalWords()
	maxD := T - 3
	if maxD > s.MaxDataWords() {
		maxD = s.MaxDataWords()
	}
	D := 1 + rng.Intn(maxInt(1, maxD))
	if rng.Intn(3) == 0 {
		D = 1 + rng.Intn(minInt(maxD, 6))
	}
	mb := D * s.WordSize()
	for try := 0; try < 20; try++ {
		bits, _ := azref.RandomTokens(rng, mb)
		if sym, ok := azref.Build(s, bits, 3); ok {
			return sym
		}
		mb = mb*9/10 - 1
		if mb < 5 {
			mb = 5
		}
	}
	return nil
}

func c06AztecSpec(rng *fw.Rand, big bool) azref.Spec {
	if rng.Intn(3) == 0 {
		return azref.Spec{Compact: true, Layers: 1 + rng.Intn(4)}
	}
	if big && rng.Intn(4) == 0 {
		return azref.Spec{Layers: 1 + rng.Intn(32)}
	}
	return azref.Spec{Layers: 1 + rng.Intn(6)}
}

// c06QRMatrix builds a valid QR symbol with the reference encoder.
func c06QRMatrix(rng *fw.Rand, maxVersion int) ([][]bool, string) {
	v := 1 + rng.Intn(minInt(maxVersion, 6))
	if rng.Intn(4) == 0 {
		v = 1 + rng.Intn(maxVersion)
	}
	l := qrAllLevels[rng.Intn(4)]
	mode := qrAllModes[rng.Intn(4)]
	n := qrLenIn(rng, v, l, mode)
	if n > 300 {
		n = 1 + rng.Intn(300)
	}
	if n < 1 {
		mode = qrref.Numeric
		n = 1
	}
	_, segs, _ := qrPayload(rng, mode, n)
	if rng.Intn(6) == 0 { // ECI header in front (registered and unregistered designators)
		eci := []int{0, 1, 3, 4, 20, 25, 26, 27, 28, 29, 30, 170, 19, 31, 899, 900, 1000, 16383, 16384, 999999}[rng.Intn(20)]
		segs = append([]qrref.Segment{{Mode: qrref.ModeECI, ECI: eci}}, segs...)
	}
	data, ok := qrref.DataCodewordsFor(v, l, segs)
	if !ok {
		_, segs, _ = qrPayload(rng, qrref.Numeric, 1)
		data, _ = qrref.DataCodewordsFor(v, l, segs)
	}
	mask := rng.Intn(8)
	return qrref.BuildMatrix(v, l, mask, data), fmt.Sprintf("qrref v%d-%s mask %d %s x%d", v, qrLevelName[l], mask, qrModeName[mode], n)
}

// c06DMMatrix builds a valid Data Matrix symbol with the reference encoder.
func c06DMMatrix(rng *fw.Rand, maxIdx int) ([][]bool, string) {
	syms := dmref.Symbols()
	s := syms[rng.Intn(minInt(maxIdx, len(syms)))]
	var cw []byte
	switch rng.Intn(3) {
	case 0: // arbitrary codewords (any mode latch, any garbage)
		cw = rng.Bytes(s.DataCW)
	default:
		n := 1 + rng.Intn(s.DataCW)
		txt := []byte(fromAlphabet(rng, "abcdefghijklmnopqrstuvwxyz0123456789 ", n))
		cw = dmref.EncodeASCII(txt)
		for len(cw) > s.DataCW {
			txt = txt[:len(txt)-1]
			cw = dmref.EncodeASCII(txt)
		}
		cw = dmref.PadTo(cw, s.DataCW)
	}
	return dmref.BuildMatrix(s, cw), fmt.Sprintf("dmref %dx%d", s.Rows, s.Cols)
}

// c06MakeSymbol draws a valid symbol of the given symbology (nil if the source refused).
func c06MakeSymbol(rng *fw.Rand, kind string) *c06Sym {
	switch kind {
	case "QR_CODE":
		if rng.Bool() {
			m, d := c06QRMatrix(rng, 12)
			return &c06Sym{kind: kind, mods: m, desc: d}
		}
	case "DATA_MATRIX":
		if rng.Bool() {
			m, d := c06DMMatrix(rng, 20)
			return &c06Sym{kind: kind, mods: m, desc: d}
		}
	case "AZTEC":
		s := c06AztecSpec(rng, false)
		sym := c06AztecSymbol(rng, s)
		if sym == nil {
			return nil
		}
		return &c06Sym{kind: kind, mods: copyBools(sym.Matrix), desc: fmt.Sprintf("azref compact=%v layers=%d data words=%d", s.Compact, s.Layers, sym.DataWords)}
	case "RSS_14":
		v := int64(rng.Uint64() % 10000000000000)
		if rng.Intn(8) == 0 {
			v = []int64{0, 1, 9999999999999, 4537077, 4537076}[rng.Intn(5)]
		}
		return &c06Sym{kind: kind, mods: [][]bool{c06RSS14Pattern(v)}, oneD: true, desc: fmt.Sprintf("rss14 %013d", v)}
	case "EAN_13", "EAN_8", "UPC_A", "UPC_E":
		if rng.Bool() {
			s := c06UPCEANByName(kind)
			full := s.full(s.randPayload(rng))
			desc := kind + " " + full
			if rng.Intn(6) == 0 { // stale check digit
				b := []byte(full)
				b[len(b)-1] = byte('0' + rng.Intn(10))
				full = string(b)
				desc = kind + " (check digit replaced) " + full
			}
			row := append([]bool{}, s.pattern(full)...)
			if rng.Intn(4) == 0 { // add-on symbol
				for i := 0; i < onedref.AddOnGap(); i++ {
					row = append(row, false)
				}
				if rng.Bool() {
					v := rng.Intn(100)
					par := v
					if rng.Intn(5) == 0 {
						par = rng.Intn(4)
					}
					row = append(row, onedref.EAN2AddOn(v, par)...)
					desc += fmt.Sprintf(" +2:%02d", v)
				} else {
					d := odDigits(rng, 5)
					chk := onedref.EAN5Check(d)
					if rng.Intn(5) == 0 {
						chk = rng.Intn(10)
					}
					row = append(row, onedref.EAN5AddOn(d, chk)...)
					desc += " +5:" + d
				}
			}
			return &c06Sym{kind: kind, mods: [][]bool{row}, oneD: true, desc: desc}
		}
	case "CODE_39_CHECK": // body + mod-43 check character, plain or extended
		kind = "CODE_39"
		chars := fromAlphabet(rng, code39Alphabet, rng.Intn(8))
		if rng.Intn(3) == 0 {
			txt := rng.Bytes(1 + rng.Intn(6))
			for i := range txt {
				txt[i] &= 0x7F
			}
			if ext, ok := onedref.Code39Extended(txt); ok {
				chars = ext
			}
		}
		chars += string(onedref.Code39Mod43(chars))
		return &c06Sym{kind: kind, mods: [][]bool{onedref.Code39Pattern(chars)}, oneD: true, desc: "code39 with check " + odQuote(chars)}
	case "CODE_39":
		switch rng.Intn(4) {
		case 0: // arbitrary characters incl. empty body and trailing shift characters
			n := rng.Intn(6)
			s := fromAlphabet(rng, code39Alphabet, n)
			if rng.Bool() {
				s += string("+$%/"[rng.Intn(4)])
			}
			return &c06Sym{kind: kind, mods: [][]bool{onedref.Code39Pattern(s)}, oneD: true, desc: "code39 chars " + odQuote(s)}
		case 1: // with mod-43 check character
			s := fromAlphabet(rng, code39Alphabet, rng.Intn(8))
			s += string(onedref.Code39Mod43(s))
			return &c06Sym{kind: kind, mods: [][]bool{onedref.Code39Pattern(s)}, oneD: true, desc: "code39 with check " + odQuote(s)}
		case 2: // extended (full ASCII) text
			txt := rng.Bytes(1 + rng.Intn(8))
			for i := range txt {
				txt[i] &= 0x7F
			}
			if chars, ok := onedref.Code39Extended(txt); ok {
				if rng.Bool() {
					chars += string(onedref.Code39Mod43(chars))
				}
				return &c06Sym{kind: kind, mods: [][]bool{onedref.Code39Pattern(chars)}, oneD: true, desc: "code39 extended " + odQuote(chars)}
			}
		}
	case "CODE_93":
		if rng.Intn(3) == 0 { // arbitrary symbol values (shift characters anywhere) with correct check characters
			vals := make([]int, rng.Intn(8))
			for i := range vals {
				vals[i] = rng.Intn(47)
			}
			if rng.Bool() {
				c, k := onedref.Code93Checks(vals)
				vals = append(vals, c, k)
			}
			if p := onedref.Code93Pattern(vals); p != nil {
				return &c06Sym{kind: kind, mods: [][]bool{p}, oneD: true, desc: fmt.Sprintf("code93 values %v", vals)}
			}
		}
	case "CODE_128":
		if rng.Intn(3) == 0 { // arbitrary symbol values after a start code, correct check character
			vals := []int{103 + rng.Intn(3)}
			n := rng.Intn(8)
			for i := 0; i < n; i++ {
				v := rng.Intn(103)
				if rng.Intn(3) == 0 {
					v = 96 + rng.Intn(10) // function, shift and code-set characters, sometimes a start code
				}
				vals = append(vals, v)
			}
			desc := fmt.Sprintf("code128 values %v + check", vals)
			if rng.Intn(4) != 0 {
				vals = append(vals, onedref.Code128Check(vals))
			} else {
				desc = fmt.Sprintf("code128 values %v (no check)", vals)
			}
			if p := onedref.Code128Pattern(vals); p != nil {
				return &c06Sym{kind: kind, mods: [][]bool{p}, oneD: true, desc: desc}
			}
		}
	case "ITF":
		if rng.Intn(3) == 0 { // any even length incl. 0 and lengths outside the default list
			d := odDigits(rng, 2*rng.Intn(12))
			if p := onedref.ITFPattern(d); p != nil {
				return &c06Sym{kind: kind, mods: [][]bool{p}, oneD: true, desc: "itf " + d}
			}
		}
	case "CODABAR":
		if rng.Intn(3) == 0 { // arbitrary characters, start/stop anywhere or missing
			s := fromAlphabet(rng, onedref.CodabarAlphabet, 1+rng.Intn(10))
			if p := onedref.CodabarPattern(s); p != nil {
				return &c06Sym{kind: kind, mods: [][]bool{p}, oneD: true, desc: "codabar " + odQuote(s)}
			}
		}
	}
	ws := writerByName(kind)
	if ws == nil {
		return nil
	}
	content := ws.Gen(rng, rng.Intn(3) != 0)
	m := c06Writer(ws, content)
	if m == nil {
		return nil
	}
	return &c06Sym{kind: kind, mods: m, oneD: ws.OneD, desc: "writer " + kind + " " + odQuote(trunc(content, 60))}
}

// ---------------------------------------------------------------------------
// module-level mutations
// ---------------------------------------------------------------------------

var c06MutNames = []string{"none", "flip", "delete", "duplicate", "crop", "noise-patch", "truncate", "turn", "combo"}

func c06Dims(m [][]bool) (w, h int) {
	if len(m) == 0 {
		return 0, 0
	}
	return len(m[0]), len(m)
}

func c06DelRow(m [][]bool, y int) [][]bool {
	out := make([][]bool, 0, len(m)-1)
	out = append(out, m[:y]...)
	return append(out, m[y+1:]...)
}

func c06DelCol(m [][]bool, x int) [][]bool {
	out := make([][]bool, len(m))
	for y := range m {
		out[y] = append(append([]bool{}, m[y][:x]...), m[y][x+1:]...)
	}
	return out
}

func c06DupRow(m [][]bool, y int) [][]bool {
	out := make([][]bool, 0, len(m)+1)
	out = append(out, m[:y+1]...)
	out = append(out, append([]bool{}, m[y]...))
	return append(out, m[y+1:]...)
}

func c06DupCol(m [][]bool, x int) [][]bool {
	out := make([][]bool, len(m))
	for y := range m {
		out[y] = append(append(append([]bool{}, m[y][:x+1]...), m[y][x]), m[y][x+1:]...)
	}
	return out
}

func c06Crop(m [][]bool, x0, y0, x1, y1 int) [][]bool {
	out := make([][]bool, 0, y1-y0)
	for y := y0; y < y1; y++ {
		out = append(out, append([]bool{}, m[y][x0:x1]...))
	}
	return out
}

func c06Transpose(m [][]bool) [][]bool {
	w, h := c06Dims(m)
	out := make([][]bool, w)
	for x := 0; x < w; x++ {
		out[x] = make([]bool, h)
		for y := 0; y < h; y++ {
			out[x][y] = m[y][x]
		}
	}
	return out
}

func c06FlipH(m [][]bool) [][]bool {
	out := copyBools(m)
	for y := range out {
		for i, j := 0, len(out[y])-1; i < j; i, j = i+1, j-1 {
			out[y][i], out[y][j] = out[y][j], out[y][i]
		}
	}
	return out
}

// c06Mutate applies one mutation class (index into c06MutNames) to a copy of m.
// The result always has at least one row and one column.
func c06Mutate(rng *fw.Rand, m [][]bool, class int) [][]bool {
	m = copyBools(m)
	w, h := c06Dims(m)
	if w == 0 || h == 0 {
		return [][]bool{{false}}
	}
	switch class {
	case 1: // flips
		k := 1
		switch rng.Intn(3) {
		case 1:
			k = 1 + rng.Intn(maxInt(1, w*h/50))
		case 2:
			k = 1 + rng.Intn(maxInt(1, w*h/8))
		}
		for i := 0; i < k; i++ {
			x, y := rng.Intn(w), rng.Intn(h)
			m[y][x] = !m[y][x]
		}
	case 2: // deletion of rows / columns (modules for 1-D)
		k := 1 + rng.Intn(3)
		for i := 0; i < k; i++ {
			w, h = c06Dims(m)
			if h > 1 && rng.Bool() {
				m = c06DelRow(m, rng.Intn(h))
			} else if w > 1 {
				m = c06DelCol(m, rng.Intn(w))
			}
		}
	case 3: // duplication
		k := 1 + rng.Intn(3)
		for i := 0; i < k; i++ {
			w, h = c06Dims(m)
			if h > 1 && rng.Bool() {
				m = c06DupRow(m, rng.Intn(h))
			} else {
				m = c06DupCol(m, rng.Intn(w))
			}
		}
	case 4: // crop through the finder patterns / guards
		cut := func(n int) int { return minInt(n-1, 1+rng.Intn(9)) }
		x0, y0, x1, y1 := 0, 0, w, h
		switch rng.Intn(5) {
		case 0:
			x0 = cut(w)
		case 1:
			x1 = w - cut(w)
		case 2:
			if h > 1 {
				y0 = cut(h)
			} else {
				x0 = cut(w)
			}
		case 3:
			if h > 1 {
				y1 = h - cut(h)
			} else {
				x1 = w - cut(w)
			}
		default:
			x0, x1 = cut(w)/2, w-cut(w)/2
			if h > 1 {
				y0, y1 = cut(h)/2, h-cut(h)/2
			}
		}
		if x1 <= x0 {
			x0, x1 = 0, w
		}
		if y1 <= y0 {
			y0, y1 = 0, h
		}
		m = c06Crop(m, x0, y0, x1, y1)
	case 5: // pasted noise
		pw, ph := 1+rng.Intn(maxInt(1, w/2)), 1+rng.Intn(maxInt(1, h))
		if h > 1 {
			ph = 1 + rng.Intn(maxInt(1, h/2))
		}
		px, py := rng.Intn(w-pw+1), rng.Intn(h-ph+1)
		fill := rng.Intn(3)
		for y := py; y < py+ph; y++ {
			for x := px; x < px+pw; x++ {
				switch fill {
				case 0:
					m[y][x] = rng.Bool()
				case 1:
					m[y][x] = true
				default:
					m[y][x] = false
				}
			}
		}
	case 6: // the symbol ends in the middle
		if h > 1 && rng.Bool() {
			m = c06Crop(m, 0, 0, w, 1+rng.Intn(h))
		} else {
			m = c06Crop(m, 0, 0, 1+rng.Intn(w), h)
		}
	case 7: // mirrored / rotated
		switch rng.Intn(4) {
		case 0:
			m = c06Transpose(m)
		case 1:
			m = c06FlipH(m)
		case 2:
			m = c06FlipH(c06Transpose(m))
		default: // inverted colours
			for y := range m {
				for x := range m[y] {
					m[y][x] = !m[y][x]
				}
			}
		}
	case 8:
		m = c06Mutate(rng, m, 1+rng.Intn(7))
		m = c06Mutate(rng, m, 1+rng.Intn(7))
	}
	return m
}

// ---------------------------------------------------------------------------
// rendering to images
// ---------------------------------------------------------------------------

type c06Render struct {
	scaleX, scaleY int
	quiet          int
	height         int // rows per module row for 1-D symbols
	dark, light    int // grey levels
	kind           int // index into c06ImgKinds
	ramp           int // amplitude of a linear grey ramp (0 = none)
	rampVert       bool
	noise          int // +- per pixel
	pixFlips       int
	padW, padH     int // canvas enlarged to at least this size (symbol placed at offX, offY)
	offX, offY     int
	noisyCanvas    bool
	subImage       bool
}

var c06ImgKinds = []string{"Gray", "NRGBA-opaque", "NRGBA-alpha-const", "NRGBA-alpha-noise", "NRGBA-symbol-in-alpha", "RGBA", "Gray16", "Paletted"}

func (o *c06Render) String() string {
	return fmt.Sprintf("scale %dx%d quiet %d rowheight %d levels %d/%d %s ramp %d noise %d pixflips %d canvas>=%dx%d@%d,%d noisy=%v sub=%v",
		o.scaleX, o.scaleY, o.quiet, o.height, o.dark, o.light, c06ImgKinds[o.kind], o.ramp, o.noise, o.pixFlips, o.padW, o.padH, o.offX, o.offY, o.noisyCanvas, o.subImage)
}

// c06CleanRender: the rendering a scanner is made for.
func c06CleanRender(rng *fw.Rand, oneD bool) *c06Render {
	o := &c06Render{scaleX: 2 + rng.Intn(3), quiet: 4 + rng.Intn(8), height: 1, dark: 0, light: 255}
	o.scaleY = o.scaleX
	if oneD {
		o.scaleX = 1 + rng.Intn(3)
		o.scaleY = 1
		o.quiet = 10 + rng.Intn(6)
		o.height = []int{3, 5, 10, 24, 40}[rng.Intn(5)]
	}
	return o
}

func c06HostileRender(rng *fw.Rand, oneD bool) *c06Render {
	o := &c06Render{scaleX: 1 + rng.Intn(4), quiet: []int{0, 0, 1, 2, 4, 10}[rng.Intn(6)], height: 1}
	o.scaleY = o.scaleX
	if rng.Intn(5) == 0 {
		o.scaleY = 1 + rng.Intn(4)
	}
	if oneD {
		o.scaleY = 1
		o.height = []int{1, 1, 2, 3, 5, 10, 20, 31, 32, 33, 64}[rng.Intn(11)]
	}
	o.dark, o.light = rng.Intn(110), 150+rng.Intn(106)
	switch rng.Intn(6) {
	case 0:
		o.dark, o.light = 0, 255
	case 1: // low contrast
		o.dark = rng.Intn(230)
		o.light = o.dark + 1 + rng.Intn(25)
	}
	o.kind = rng.Intn(len(c06ImgKinds))
	if rng.Intn(3) == 0 {
		o.kind = 0
	}
	if rng.Intn(4) == 0 {
		o.ramp = 20 + rng.Intn(230)
		o.rampVert = rng.Bool()
	}
	if rng.Intn(5) == 0 {
		o.noise = 1 + rng.Intn(60)
	}
	if rng.Intn(5) == 0 {
		o.pixFlips = 1 + rng.Intn(40)
	}
	switch rng.Intn(12) {
	case 0:
		o.padW, o.padH = 39+rng.Intn(3), 39+rng.Intn(3)
	case 1:
		o.padW, o.padH = 40+rng.Intn(200), 40+rng.Intn(200)
	case 2:
		o.padW = 1 + rng.Intn(300)
	case 3:
		o.padH = 1 + rng.Intn(300)
	}
	if o.padW > 0 || o.padH > 0 {
		o.offX, o.offY = rng.Intn(40), rng.Intn(40)
		o.noisyCanvas = rng.Intn(4) == 0
	}
	o.subImage = rng.Intn(8) == 0
	return o
}

func c06Clamp(v int) uint8 {
	if v < 0 {
		return 0
	}
	if v > 255 {
		return 255
	}
	return uint8(v)
}

// c06Paint renders the modules; the intermediate is a grey plane that is then
// stored in the requested image type.
func c06Paint(rng *fw.Rand, mods [][]bool, o *c06Render) image.Image {
	mw, mh := c06Dims(mods)
	sw := (mw + 2*o.quiet) * o.scaleX
	rowH := o.scaleY
	sh := mh*rowH + 2*o.quiet*o.scaleY
	if mh == 1 { // a 1-D symbol: o.height pixel rows, no vertical quiet zone
		rowH = o.scaleY * maxInt(1, o.height)
		sh = rowH
	}
	W, H := sw+o.offX, sh+o.offY
	if W < o.padW {
		W = o.padW
	}
	if H < o.padH {
		H = o.padH
	}
	plane := make([]uint8, W*H)
	isDark := make([]bool, W*H)
	for i := range plane {
		plane[i] = uint8(o.light)
	}
	if o.noisyCanvas {
		for i := range plane {
			if rng.Bool() {
				plane[i] = uint8(o.dark)
				isDark[i] = true
			}
		}
		// the symbol area including its quiet zone is cleared
		for y := o.offY; y < o.offY+sh && y < H; y++ {
			for x := o.offX; x < o.offX+sw && x < W; x++ {
				plane[y*W+x] = uint8(o.light)
				isDark[y*W+x] = false
			}
		}
	}
	vq := o.quiet * o.scaleY
	if mh == 1 {
		vq = 0
	}
	for my := 0; my < mh; my++ {
		for mx := 0; mx < mw; mx++ {
			if !mods[my][mx] {
				continue
			}
			x0 := o.offX + (o.quiet+mx)*o.scaleX
			y0 := o.offY + vq + my*rowH
			for y := y0; y < y0+rowH && y < H; y++ {
				for x := x0; x < x0+o.scaleX && x < W; x++ {
					plane[y*W+x] = uint8(o.dark)
					isDark[y*W+x] = true
				}
			}
		}
	}
	for i := 0; i < o.pixFlips; i++ {
		p := rng.Intn(W * H)
		if isDark[p] {
			plane[p], isDark[p] = uint8(o.light), false
		} else {
			plane[p], isDark[p] = uint8(o.dark), true
		}
	}
	if o.ramp > 0 || o.noise > 0 {
		for y := 0; y < H; y++ {
			for x := 0; x < W; x++ {
				v := int(plane[y*W+x])
				if o.ramp > 0 {
					if o.rampVert {
						v += o.ramp*y/maxInt(1, H-1) - o.ramp/2
					} else {
						v += o.ramp*x/maxInt(1, W-1) - o.ramp/2
					}
				}
				if o.noise > 0 {
					v += rng.Intn(2*o.noise+1) - o.noise
				}
				plane[y*W+x] = c06Clamp(v)
			}
		}
	}
	return c06Store(rng, plane, isDark, W, H, o.kind, o.subImage)
}

// c06PaintAffine renders the modules rotated / sheared / scaled by a real
// factor (nearest-neighbour sampling): the symbol is no longer axis-aligned.
func c06PaintAffine(rng *fw.Rand, mods [][]bool, o *c06Render, angleDeg float64, pxPerModule, shear float64, rows int) image.Image {
	mw, mh := c06Dims(mods)
	fw_, fh := float64(mw+2*o.quiet), float64(mh+2*o.quiet)
	vstretch := 1.0
	if mh == 1 { // 1-D: bars `rows` modules high
		fh = float64(rows)
		vstretch = float64(rows)
	}
	th := angleDeg * math.Pi / 180
	cs, sn := math.Cos(th), math.Sin(th)
	// forward map of module coordinates (u, v) relative to the centre: shear, scale, rotate
	fwd := func(u, v float64) (float64, float64) {
		u += shear * v
		u *= pxPerModule
		v *= pxPerModule
		return u*cs - v*sn, u*sn + v*cs
	}
	maxX, maxY := 0.0, 0.0
	for _, c := range [][2]float64{{-fw_ / 2, -fh / 2}, {fw_ / 2, -fh / 2}, {-fw_ / 2, fh / 2}, {fw_ / 2, fh / 2}} {
		x, y := fwd(c[0], c[1])
		maxX, maxY = math.Max(maxX, math.Abs(x)), math.Max(maxY, math.Abs(y))
	}
	W, H := int(2*maxX)+1+o.offX, int(2*maxY)+1+o.offY
	if W < o.padW {
		W = o.padW
	}
	if H < o.padH {
		H = o.padH
	}
	if W > 900 {
		W = 900
	}
	if H > 900 {
		H = 900
	}
	plane := make([]uint8, W*H)
	isDark := make([]bool, W*H)
	cx, cy := maxX+float64(o.offX), maxY+float64(o.offY)
	for Y := 0; Y < H; Y++ {
		for X := 0; X < W; X++ {
			// inverse map
			x, y := float64(X)+0.5-cx, float64(Y)+0.5-cy
			u, v := x*cs+y*sn, -x*sn+y*cs
			u /= pxPerModule
			v /= pxPerModule
			u -= shear * v
			mu, mv := int(math.Floor(u+fw_/2))-o.quiet, 0
			if mh == 1 {
				if v < -fh/2 || v >= fh/2 {
					mv = -1
				}
			} else {
				mv = int(math.Floor(v+fh/2)) - o.quiet
			}
			d := mu >= 0 && mu < mw && mv >= 0 && mv < mh && mods[mv][mu]
			if o.noisyCanvas && (mu < -o.quiet || mu >= mw+o.quiet || mv < -o.quiet || mv >= mh+o.quiet) {
				d = rng.Bool()
			}
			isDark[Y*W+X] = d
			v8 := o.light
			if d {
				v8 = o.dark
			}
			if o.noise > 0 {
				v8 += rng.Intn(2*o.noise+1) - o.noise
			}
			plane[Y*W+X] = c06Clamp(v8)
		}
	}
	_ = vstretch
	return c06Store(rng, plane, isDark, W, H, o.kind, o.subImage)
}

// c06Store puts a grey plane into an image of the given kind.
func c06Store(rng *fw.Rand, plane []uint8, isDark []bool, W, H, kind int, sub bool) image.Image {
	ox, oy := 0, 0
	if sub {
		ox, oy = 1+rng.Intn(5), 1+rng.Intn(5)
	}
	rect := image.Rect(0, 0, W+2*ox, H+2*oy)
	inner := image.Rect(ox, oy, ox+W, oy+H)
	type subber interface {
		SubImage(r image.Rectangle) image.Image
	}
	var img image.Image
	switch kind {
	case 1, 2, 3, 4:
		im := image.NewNRGBA(rect)
		alpha := 255
		if kind == 2 {
			alpha = rng.Intn(256)
		}
		for y := 0; y < H; y++ {
			for x := 0; x < W; x++ {
				v := plane[y*W+x]
				a := alpha
				switch kind {
				case 3:
					a = rng.Intn(256)
				case 4: // dark modules opaque black, light ones transparent (any colour)
					if isDark != nil && isDark[y*W+x] {
						v, a = 0, 255
					} else {
						v, a = uint8(rng.Intn(256)), 0
					}
				}
				im.SetNRGBA(ox+x, oy+y, color.NRGBA{v, v, v, uint8(a)})
			}
		}
		img = im
	case 5:
		im := image.NewRGBA(rect)
		tint := rng.Intn(3)
		for y := 0; y < H; y++ {
			for x := 0; x < W; x++ {
				v := plane[y*W+x]
				c := color.RGBA{v, v, v, 255}
				switch tint {
				case 1:
					c.R = 255 // red channel saturated: luminance is carried by G and B
				case 2:
					c.B = 0
				}
				im.SetRGBA(ox+x, oy+y, c)
			}
		}
		img = im
	case 6:
		im := image.NewGray16(rect)
		for y := 0; y < H; y++ {
			for x := 0; x < W; x++ {
				im.SetGray16(ox+x, oy+y, color.Gray16{uint16(plane[y*W+x]) * 257})
			}
		}
		img = im
	case 7:
		pal := color.Palette{color.Gray{0}, color.Gray{85}, color.Gray{170}, color.Gray{255}, color.NRGBA{0, 0, 0, 0}}
		im := image.NewPaletted(rect, pal)
		for y := 0; y < H; y++ {
			for x := 0; x < W; x++ {
				im.SetColorIndex(ox+x, oy+y, plane[y*W+x]/64)
			}
		}
		img = im
	default:
		im := image.NewGray(rect)
		for y := 0; y < H; y++ {
			copy(im.Pix[(oy+y)*im.Stride+ox:], plane[y*W:(y+1)*W])
		}
		img = im
	}
	if sub {
		img = img.(subber).SubImage(inner)
	}
	return img
}

var c06SynthNames = []string{"noise-bilevel", "noise-grey", "constant", "tiny", "stripes", "checker", "bullseye", "threshold-sides", "large-noise", "large-stripes", "finder-soup", "few-rectangles"}

// c06Synthetic: images that are not symbols.
func c06Synthetic(rng *fw.Rand, class int, allowLarge bool) (image.Image, string) {
	W, H := 1+rng.Intn(120), 1+rng.Intn(120)
	kind := 0
	if rng.Intn(3) == 0 {
		kind = rng.Intn(len(c06ImgKinds))
	}
	if (class == 8 || class == 9) && !allowLarge {
		class = rng.Intn(8)
	}
	switch class {
	case 3:
		W, H = 1+rng.Intn(3), 1+rng.Intn(3)
	case 7:
		W, H = 39+rng.Intn(3), 39+rng.Intn(3)
		if rng.Intn(3) == 0 {
			H = 1 + rng.Intn(100)
		}
	case 8, 9:
		W, H = 600+rng.Intn(200), 1+rng.Intn(60)
		switch rng.Intn(3) {
		case 0:
			W, H = H, W
		case 1:
			H = 600 + rng.Intn(100)
		}
	}
	plane := make([]uint8, W*H)
	dark := make([]bool, W*H)
	set := func(x, y int, d bool) {
		if x < 0 || y < 0 || x >= W || y >= H {
			return
		}
		dark[y*W+x] = d
		if d {
			plane[y*W+x] = 0
		} else {
			plane[y*W+x] = 255
		}
	}
	for i := range plane {
		plane[i] = 255
	}
	switch class {
	case 0, 8:
		p := []int{2, 3, 5, 10}[rng.Intn(4)]
		for y := 0; y < H; y++ {
			for x := 0; x < W; x++ {
				set(x, y, rng.Intn(p) == 0)
			}
		}
	case 1:
		for i := range plane {
			plane[i] = uint8(rng.Intn(256))
			dark[i] = plane[i] < 128
		}
	case 2:
		v := uint8(rng.Intn(256))
		if rng.Bool() {
			v = []uint8{0, 255, 128, 1, 254}[rng.Intn(5)]
		}
		for i := range plane {
			plane[i] = v
		}
	case 3, 7:
		for y := 0; y < H; y++ {
			for x := 0; x < W; x++ {
				set(x, y, rng.Bool())
			}
		}
	case 4, 9: // stripes with run lengths drawn from a small set (1-D guard look-alikes)
		maxRun := []int{1, 2, 3, 4, 8}[rng.Intn(5)]
		x := 0
		d := rng.Bool()
		for x < W {
			l := 1 + rng.Intn(maxRun)
			for k := 0; k < l && x < W; k++ {
				for y := 0; y < H; y++ {
					set(x, y, d)
				}
				x++
			}
			d = !d
		}
	case 5:
		p := 1 + rng.Intn(6)
		for y := 0; y < H; y++ {
			for x := 0; x < W; x++ {
				set(x, y, (x/p+y/p)%2 == 0)
			}
		}
	case 6, 10: // concentric squares: finder / bull's eye look-alikes, 1..6 of them
		n := 1
		if class == 10 {
			n = 2 + rng.Intn(5)
		}
		for k := 0; k < n; k++ {
			cx, cy := rng.Intn(W), rng.Intn(H)
			u := 1 + rng.Intn(4)
			rings := 2 + rng.Intn(6)
			qr := rng.Bool()
			for y := cy - rings*u; y <= cy+rings*u; y++ {
				for x := cx - rings*u; x <= cx+rings*u; x++ {
					dx, dy := x-cx, y-cy
					if dx < 0 {
						dx = -dx
					}
					if dy < 0 {
						dy = -dy
					}
					ring := maxInt(dx, dy) / u
					d := ring%2 == 0
					if qr { // 1:1:3:1:1
						d = ring <= 1 || ring == 3
					}
					set(x, y, d)
				}
			}
		}
	case 11: // one to four small dark rectangles (bars, dots, L shapes): bounding boxes that are
		// degenerate for "pure barcode" extraction - first run wider than the box, zero width, ...
		if rng.Bool() {
			W, H = 4+rng.Intn(40), 4+rng.Intn(40)
			plane, dark = make([]uint8, W*H), make([]bool, W*H)
			for i := range plane {
				plane[i] = 255
			}
		}
		for k := 1 + rng.Intn(4); k > 0; k-- {
			x0, y0 := rng.Intn(W), rng.Intn(H)
			w, h := 1+rng.Intn(maxInt(1, W/2)), 1+rng.Intn(3)
			if rng.Bool() {
				w, h = 1+rng.Intn(3), 1+rng.Intn(maxInt(1, H/2))
			}
			for y := y0; y < y0+h; y++ {
				for x := x0; x < x0+w; x++ {
					set(x, y, true)
				}
			}
		}
	}
	return c06Store(rng, plane, dark, W, H, kind, rng.Intn(10) == 0), fmt.Sprintf("%s %dx%d %s", c06SynthNames[class], W, H, c06ImgKinds[kind])
}

func c06PNG(img image.Image) string {
	var buf bytes.Buffer
	if err := png.Encode(&buf, img); err != nil {
		return "png error: " + err.Error()
	}
	if buf.Len() > 150000 {
		return fmt.Sprintf("(png of %d bytes omitted; replay the case)", buf.Len())
	}
	return base64.StdEncoding.EncodeToString(buf.Bytes())
}

// c06MatrixText: compact text of a module matrix.
func c06MatrixText(m [][]bool) string {
	var sb strings.Builder
	for y := range m {
		if y > 0 {
			sb.WriteByte('/')
		}
		sb.WriteString(boolsToStr(m[y]))
	}
	s := sb.String()
	if len(s) > 40000 {
		return s[:40000] + "...(truncated; replay the case)"
	}
	return s
}

// c06BitMatrix: any w x h >= 1.
func c06BitMatrix(m [][]bool) *gozxing.BitMatrix {
	return boolsToBitMatrix(m)
}

// ---------------------------------------------------------------------------
// hints
// ---------------------------------------------------------------------------

var c06Charsets = []string{
	// registered names and aliases
	"UTF-8", "UTF8", "ISO-8859-1", "ISO8859_1", "Shift_JIS", "SJIS", "GB2312", "GBK", "GB18030", "EUC_CN", "EUC-KR", "EUC_KR", "Big5",
	"UTF-16BE", "UnicodeBig", "UnicodeBigUnmarked", "windows-1252", "Cp1252", "Cp437", "ASCII", "US-ASCII", "ISO-8859-15", "ISO8859_7", "windows-1256",
	// IANA names x/text knows but the registry does not
	"EUC-JP", "KOI8-R", "macintosh", "IBM866", "ISO-2022-JP", "UTF-16LE", "UTF-16", "windows-874",
	// IANA names x/text has no codec for
	"TIS-620", "UTF-7", "ISO-2022-KR", "Big5-HKSCS", "ISO-10646-UCS-4", "ISO-2022-CN", "UTF-32",
	// junk
	"junk", "", "utf-8", " UTF-8", "ISO_8859-1:1987", "\x00", "日本語",
}

var c06Encodings = []encoding.Encoding{charmap.ISO8859_1, japanese.ShiftJIS, unicode.UTF8, unicode.UTF16(unicode.LittleEndian, unicode.UseBOM), charmap.Windows1252, simplifiedchinese.GB18030, encoding.Nop, encoding.Replacement}
var c06EncodingNames = []string{"ISO8859_1", "ShiftJIS", "UTF8", "UTF16LE-BOM", "Windows1252", "GB18030", "Nop", "Replacement"}

var c06UPCEANFormats = []gozxing.BarcodeFormat{gozxing.BarcodeFormat_EAN_13, gozxing.BarcodeFormat_EAN_8, gozxing.BarcodeFormat_UPC_A, gozxing.BarcodeFormat_UPC_E}

func c06Formats(rng *fw.Rand) []gozxing.BarcodeFormat {
	var f []gozxing.BarcodeFormat
	switch rng.Intn(5) {
	case 0:
		return []gozxing.BarcodeFormat{}
	case 1:
		n := 1 + rng.Intn(4)
		for i := 0; i < n; i++ {
			f = append(f, allFormats[rng.Intn(len(allFormats))])
		}
	default:
		for _, x := range c06UPCEANFormats {
			if rng.Bool() {
				f = append(f, x)
			}
		}
		if len(f) == 0 {
			f = append(f, c06UPCEANFormats[rng.Intn(4)])
		}
		if rng.Intn(4) == 0 {
			f = append(f, gozxing.BarcodeFormat_QR_CODE)
		}
	}
	return f
}

// c06Hints draws a hint map with well-typed values (the Go types the readers
// assert: bool for the flag hints, string for CHARACTER_SET, []BarcodeFormat,
// []int, gozxing.ResultPointCallback).  pure: chance (in 1/8) of PURE_BARCODE.
func c06Hints(rng *fw.Rand, pure8 int, calls *int) (map[gozxing.DecodeHintType]interface{}, string) {
	if rng.Intn(3) == 0 {
		return nil, "nil"
	}
	h := map[gozxing.DecodeHintType]interface{}{}
	var desc []string
	add := func(k gozxing.DecodeHintType, v interface{}) {
		h[k] = v
		desc = append(desc, fmt.Sprintf("%s=%#v", k, v))
	}
	// the flag hints are documented as "doesn't matter what it maps to"
	flag := func() interface{} {
		switch rng.Intn(8) {
		case 0:
			return false
		case 1:
			return nil
		case 2:
			return "TRUE"
		}
		return true
	}
	if rng.Intn(3) == 0 {
		add(gozxing.DecodeHintType_TRY_HARDER, flag())
	}
	if rng.Intn(8) < pure8 {
		add(gozxing.DecodeHintType_PURE_BARCODE, flag())
	}
	if rng.Intn(3) == 0 {
		if rng.Intn(6) == 0 { // the parser also accepts an encoding.Encoding value
			k := rng.Intn(len(c06Encodings))
			h[gozxing.DecodeHintType_CHARACTER_SET] = c06Encodings[k]
			desc = append(desc, "CHARACTER_SET=encoding:"+c06EncodingNames[k])
		} else {
			add(gozxing.DecodeHintType_CHARACTER_SET, c06Charsets[rng.Intn(len(c06Charsets))])
		}
	}
	if rng.Intn(5) == 0 {
		add(gozxing.DecodeHintType_POSSIBLE_FORMATS, c06Formats(rng))
	}
	if rng.Intn(5) == 0 {
		var l []int
		switch rng.Intn(4) {
		case 0:
			l = []int{}
		case 1:
			l = []int{rng.Intn(40)}
		default:
			n := 1 + rng.Intn(4)
			for i := 0; i < n; i++ {
				l = append(l, 2*rng.Intn(15)+rng.Intn(2)*rng.Intn(2))
			}
		}
		add(gozxing.DecodeHintType_ALLOWED_LENGTHS, l)
	}
	if rng.Intn(5) == 0 {
		add(gozxing.DecodeHintType_ALLOWED_EAN_EXTENSIONS, [][]int{{2}, {5}, {2, 5}, {}, {0}, {0, 2, 5}, {3}}[rng.Intn(7)])
	}
	if rng.Intn(6) == 0 {
		add(gozxing.DecodeHintType_ASSUME_GS1, flag())
	}
	if rng.Intn(6) == 0 {
		add(gozxing.DecodeHintType_RETURN_CODABAR_START_END, flag())
	}
	if rng.Intn(8) == 0 {
		add(gozxing.DecodeHintType_ASSUME_CODE_39_CHECK_DIGIT, flag())
	}
	if rng.Intn(10) == 0 {
		add(gozxing.DecodeHintType_ALSO_INVERTED, flag())
	}
	if rng.Intn(60) == 0 {
		h[gozxing.DecodeHintType_NEED_RESULT_POINT_CALLBACK] = gozxing.ResultPointCallback(nil)
		desc = append(desc, "NEED_RESULT_POINT_CALLBACK=ResultPointCallback(nil)")
	} else if rng.Intn(4) == 0 {
		h[gozxing.DecodeHintType_NEED_RESULT_POINT_CALLBACK] = gozxing.ResultPointCallback(func(p gozxing.ResultPoint) {
			if calls != nil {
				*calls++
			}
			_ = p.GetX() + p.GetY()
		})
		desc = append(desc, "NEED_RESULT_POINT_CALLBACK=func")
	}
	sort.Strings(desc)
	return h, strings.Join(desc, " ")
}

// ---------------------------------------------------------------------------
// outcome classification
// ---------------------------------------------------------------------------

// c06ErrKind: the library's own idiom (type assertion on the exception interfaces).
func c06ErrKind(err error) string {
	if _, ok := err.(gozxing.NotFoundException); ok {
		return "notfound"
	}
	if _, ok := err.(gozxing.ChecksumException); ok {
		return "checksum"
	}
	if _, ok := err.(gozxing.FormatException); ok {
		return "format"
	}
	return "other"
}

func c06BitsStr(b []bool) string {
	s := make([]byte, len(b))
	for i, v := range b {
		if v {
			s[i] = '1'
		} else {
			s[i] = '0'
		}
	}
	return string(s)
}

// c06BitWriter accumulates a bit string MSB first.
type c06BitWriter struct{ bits []bool }

func (w *c06BitWriter) put(v, n int) {
	for i := n - 1; i >= 0; i-- {
		w.bits = append(w.bits, v>>uint(i)&1 == 1)
	}
}

// bytes pads the last byte with the given bit value.
func (w *c06BitWriter) bytes(n int, pad bool) []byte {
	if n > len(w.bits) {
		n = len(w.bits)
	}
	out := make([]byte, (n+7)/8)
	for i := 0; i < len(out)*8; i++ {
		b := pad
		if i < n {
			b = w.bits[i]
		}
		if b {
			out[i/8] |= 0x80 >> uint(i%8)
		}
	}
	return out
}

// c06QRShortPayloads: byte-mode segments whose payload is a short, awkward byte string - every
// single byte, every high lead byte followed by a handful of second bytes, every prefix of the
// byte-order marks and of multi-byte sequences cut short - without ECI, read under no hints, under
// PURE_BARCODE and under CHARACTER_SET hints naming supported, registered-but-codec-less and unknown
// character sets.  Every (payload, hints) pair is parsed twice in a row: the answer to the
// second call is the answer to the first.
func c06QRShortPayloads(r *fw.Rec, part int) {
	var payloads [][]byte
	switch part {
	case 0:
		for b := 0; b < 256; b++ {
			payloads = append(payloads, []byte{byte(b)})
		}
		for _, seq := range [][]byte{{0xEF, 0xBB, 0xBF, 0x41}, {0xFE, 0xFF, 0x00, 0x41}, {0xFF, 0xFE, 0x41, 0x00}, {0xE3, 0x81, 0x82}, {0xF0, 0x9F, 0x98, 0x80}, {0xED, 0xA0, 0x80}, {0xC0, 0x80}, {0xF4, 0x90, 0x80, 0x80}, {0x81, 0x40}, {0xE0, 0x40}, {0x1B, 0x24, 0x42}, {0x2B, 0x2F, 0x76}} {
			for k := 1; k <= len(seq); k++ {
				payloads = append(payloads, seq[:k])
				payloads = append(payloads, append(append([]byte{}, seq[:k]...), 'a'))
			}
		}
	default:
		for lead := 0x80 + 32*(part-1); lead < 0x80+32*part; lead++ {
			for _, second := range []byte{0x00, 0x41, 0x7F, 0x80, 0xA1, 0xBB, 0xBF, 0xFE, 0xFF} {
				payloads = append(payloads, []byte{byte(lead), second})
			}
		}
	}
	type hv struct {
		h    map[gozxing.DecodeHintType]interface{}
		desc string
	}
	hintSets := []hv{{nil, "nil"}, {map[gozxing.DecodeHintType]interface{}{gozxing.DecodeHintType_PURE_BARCODE: true}, "PURE_BARCODE"}}
	for _, name := range []string{"UTF-8", "Shift_JIS", "ISO-8859-1", "GB18030", "UTF-16BE", "TIS-620", "UTF-7", "ISO-2022-KR", "UTF-32", "ISO-8859-11", "foo", ""} {
		hintSets = append(hintSets, hv{map[gozxing.DecodeHintType]interface{}{gozxing.DecodeHintType_CHARACTER_SET: name}, "CHARACTER_SET=" + name})
	}
	for _, p := range payloads {
		w := &c06BitWriter{}
		w.put(4, 4)
		w.put(len(p), 8)
		for _, b := range p {
			w.put(int(b), 8)
		}
		w.put(0, 4)
		stream := w.bytes(len(w.bits), true)
		for _, hs := range hintSets {
			for call := 1; call <= 2; call++ {
				if !c06QRParse(r, stream, 1+int(p[0])%9, hs.h, hs.desc, fmt.Sprintf("byte segment %x, call %d with these hints", p, call)) {
					return
				}
			}
			r.Tally("qr short byte payloads x hint sets (each parsed twice)")
		}
	}
	r.Nontrivial(fmt.Sprintf("qr-short-payloads/%d", part))
}
