//go:build verif

package main

import (
	"fmt"
	"math"
	"math/big"
	"strings"

	"github.com/makiuchi-d/gozxing"
	"github.com/makiuchi-d/gozxing/common"
	"github.com/makiuchi-d/gozxing/verifhook"

	"verifharness/fw"
)

// C19: perspective transform against the unique projective map solved exactly
// (big.Rat / big.Int), grid sampling against "pixel under the exactly
// transformed cell centre", nudge bands and bounds of checkAndNudgePoints.

func init() {
	fw.Register("C19", c19)
	fw.RegisterSelfTest("c19-exact-homography", c19SelfTest)
}

// ---------------------------------------------------------------------------
// exact projective map through four point pairs

// c19H is a 3x3 integer matrix, row-major: (X,Y,W) = H * (x,y,1); the mapped
// point is (X/W, Y/W).  Defined up to a common factor.
type c19H [9]*big.Int

// c19Solve returns the projective map sending src[i] -> dst[i] (i=0..3, each
// {x,y} a float64 taken exactly).  ok=false if the 8x9 system does not have
// rank 8 (degenerate input).
func c19Solve(src, dst [4][2]float64) (c19H, bool) {
	var h c19H
	rat := func(f float64) *big.Rat { return new(big.Rat).SetFloat64(f) }
	// unknowns h0..h8: X = h0 x + h1 y + h2, Y = h3 x + h4 y + h5, W = h6 x + h7 y + h8
	// X - u W = 0 ; Y - v W = 0
	m := make([][]*big.Rat, 8)
	for i := 0; i < 4; i++ {
		x, y, u, v := rat(src[i][0]), rat(src[i][1]), rat(dst[i][0]), rat(dst[i][1])
		if x == nil || y == nil || u == nil || v == nil {
			return h, false
		}
		neg := func(a, b *big.Rat) *big.Rat { z := new(big.Rat).Mul(a, b); return z.Neg(z) }
		one := big.NewRat(1, 1)
		zero := func() *big.Rat { return new(big.Rat) }
		m[2*i] = []*big.Rat{x, y, one, zero(), zero(), zero(), neg(u, x), neg(u, y), new(big.Rat).Neg(u)}
		m[2*i+1] = []*big.Rat{zero(), zero(), zero(), x, y, one, neg(v, x), neg(v, y), new(big.Rat).Neg(v)}
	}
	// copy so that rows do not share *big.Rat
	for i := range m {
		for j := range m[i] {
			m[i][j] = new(big.Rat).Set(m[i][j])
		}
	}
	// reduced row echelon form
	pivCol := make([]int, 0, 8)
	row := 0
	isPiv := [9]bool{}
	for col := 0; col < 9 && row < 8; col++ {
		p := -1
		for i := row; i < 8; i++ {
			if m[i][col].Sign() != 0 {
				p = i
				break
			}
		}
		if p < 0 {
			continue
		}
		m[row], m[p] = m[p], m[row]
		inv := new(big.Rat).Inv(m[row][col])
		for j := col; j < 9; j++ {
			m[row][j].Mul(m[row][j], inv)
		}
		for i := 0; i < 8; i++ {
			if i == row || m[i][col].Sign() == 0 {
				continue
			}
			f := new(big.Rat).Set(m[i][col])
			for j := col; j < 9; j++ {
				t := new(big.Rat).Mul(f, m[row][j])
				m[i][j].Sub(m[i][j], t)
			}
		}
		pivCol = append(pivCol, col)
		isPiv[col] = true
		row++
	}
	if row != 8 {
		return h, false
	}
	free := -1
	for j := 0; j < 9; j++ {
		if !isPiv[j] {
			free = j
		}
	}
	sol := make([]*big.Rat, 9)
	for j := range sol {
		sol[j] = new(big.Rat)
	}
	sol[free].SetInt64(1)
	for i, pc := range pivCol {
		sol[pc].Neg(m[i][free])
	}
	// scale to integers
	l := big.NewInt(1)
	for _, s := range sol {
		d := s.Denom()
		g := new(big.Int).GCD(nil, nil, l, d)
		l.Mul(l, new(big.Int).Quo(d, g))
	}
	for j, s := range sol {
		v := new(big.Int).Mul(s.Num(), l)
		v.Quo(v, s.Denom())
		h[j] = v
	}
	// the 3x3 matrix must be invertible
	det := new(big.Int)
	mul3 := func(a, b, c int) *big.Int { t2 := new(big.Int).Mul(h[a], h[b]); return t2.Mul(t2, h[c]) }
	det.Add(det, mul3(0, 4, 8))
	det.Add(det, mul3(1, 5, 6))
	det.Add(det, mul3(2, 3, 7))
	det.Sub(det, mul3(2, 4, 6))
	det.Sub(det, mul3(1, 3, 8))
	det.Sub(det, mul3(0, 5, 7))
	if det.Sign() == 0 {
		return h, false
	}
	return h, true
}

// apply evaluates the map at an exact rational point; w is the (unnormalised) denominator.
func (h c19H) apply(x, y *big.Rat) (X, Y, W *big.Rat) {
	lin := func(a, b, c *big.Int) *big.Rat {
		z := new(big.Rat).Mul(new(big.Rat).SetInt(a), x)
		z.Add(z, new(big.Rat).Mul(new(big.Rat).SetInt(b), y))
		return z.Add(z, new(big.Rat).SetInt(c))
	}
	return lin(h[0], h[1], h[2]), lin(h[3], h[4], h[5]), lin(h[6], h[7], h[8])
}

// applyF evaluates at a float64 point; ok=false if the point maps to infinity.
func (h c19H) applyF(x, y float64) (u, v *big.Rat, ok bool) {
	X, Y, W := h.apply(new(big.Rat).SetFloat64(x), new(big.Rat).SetFloat64(y))
	if W.Sign() == 0 {
		return nil, nil, false
	}
	return X.Quo(X, W), Y.Quo(Y, W), true
}

// relW returns |W(x,y)| / max_i |W(src_i)|: how far the point is from the line
// that maps to infinity, relative to the denominators at the defining corners.
func (h c19H) relW(x, y float64, src [4][2]float64) float64 {
	_, _, W := h.apply(new(big.Rat).SetFloat64(x), new(big.Rat).SetFloat64(y))
	mx := new(big.Rat)
	sgn := 0
	for _, p := range src {
		_, _, wc := h.apply(new(big.Rat).SetFloat64(p[0]), new(big.Rat).SetFloat64(p[1]))
		if sgn == 0 {
			sgn = wc.Sign()
		}
		wc.Abs(wc)
		if wc.Cmp(mx) > 0 {
			mx = wc
		}
	}
	if mx.Sign() == 0 {
		return 0
	}
	q := new(big.Rat).Quo(W, mx)
	f, _ := q.Float64()
	if sgn < 0 {
		f = -f
	}
	return f // negative: on the other side of the vanishing line than corner 0
}

// ---------------------------------------------------------------------------
// quadrilateral generation

func c19Cross(o, a, b [2]float64) float64 {
	return (a[0]-o[0])*(b[1]-o[1]) - (a[1]-o[1])*(b[0]-o[0])
}

// c19WellShaped: strictly convex in the given cyclic order (either
// orientation) and every corner triangle holds at least minFrac of the square
// of the longest side/diagonal: bounds the conditioning of the 8x8 system.
func c19WellShaped(q [4][2]float64, minFrac float64) bool {
	maxD := 0.0
	for i := 0; i < 4; i++ {
		for j := i + 1; j < 4; j++ {
			d := math.Hypot(q[i][0]-q[j][0], q[i][1]-q[j][1])
			if d > maxD {
				maxD = d
			}
		}
	}
	if maxD == 0 || math.IsInf(maxD, 0) || math.IsNaN(maxD) {
		return false
	}
	sign := 0
	for i := 0; i < 4; i++ {
		c := c19Cross(q[i], q[(i+1)%4], q[(i+2)%4])
		if math.Abs(c) < minFrac*maxD*maxD {
			return false
		}
		s := 1
		if c < 0 {
			s = -1
		}
		if sign == 0 {
			sign = s
		} else if s != sign {
			return false
		}
	}
	return true
}

var c19Families = []string{"axis", "rotated", "sheared", "perspective"}

// the transform cases add keystone trapezoids (exactly one vanishing coordinate sum)
var c19TransformFamilies = []string{"axis", "rotated", "sheared", "perspective", "trapezoid"}

// c19Quad builds a quadrilateral of the family around centre (cx,cy) with
// half-size about `size`; corners in cyclic order starting top-left.
func c19Quad(rng *fw.Rand, family string, cx, cy, size float64) [4][2]float64 {
	hw := size * (0.4 + 0.6*rng.Float())
	hh := size * (0.4 + 0.6*rng.Float())
	base := [4][2]float64{{-hw, -hh}, {hw, -hh}, {hw, hh}, {-hw, hh}}
	var q [4][2]float64
	switch family {
	case "axis":
		q = base
	case "rotated":
		th := rng.Float() * 2 * math.Pi
		c, s := math.Cos(th), math.Sin(th)
		for i, p := range base {
			q[i] = [2]float64{c*p[0] - s*p[1], s*p[0] + c*p[1]}
		}
	case "sheared":
		th := rng.Float() * 2 * math.Pi
		c, s := math.Cos(th), math.Sin(th)
		kx := (rng.Float()*2 - 1) * 0.8
		ky := (rng.Float()*2 - 1) * 0.3
		for i, p := range base {
			x, y := p[0]+kx*p[1], p[1]+ky*p[0]
			q[i] = [2]float64{c*x - s*y, s*x + c*y}
		}
	case "trapezoid":
		// keystone shapes: exactly one of the sums x0-x1+x2-x3 / y0-y1+y2-y3 vanishes (in float
		// arithmetic too: integer coordinates), the other does not - a perspective map that an
		// "is it affine?" shortcut testing only one coordinate would mistake for affine
		n := func(lo, hi float64) float64 { return math.Round(lo + (hi-lo)*rng.Float()) }
		w, h := math.Max(4, math.Round(hw)), math.Max(4, math.Round(hh))
		switch rng.Intn(3) {
		case 0: // two vertical parallel sides of different length
			d1, d2 := n(0, 0.45*h), n(0, 0.45*h)
			if d1 == d2 {
				d1 += 1
			}
			q = [4][2]float64{{-w, -h}, {w, -h + d1}, {w, h - d2}, {-w, h}}
			if d1-d2 == 0 {
				q[2][1] -= 1
			}
		case 1: // two horizontal parallel sides of different length
			d1, d2 := n(0, 0.45*w), n(0, 0.45*w)
			q = [4][2]float64{{-w + d1, -h}, {w - d2, -h}, {w, h}, {-w, h}}
			if d1 == 0 && d2 == 0 {
				q[0][0] += 1
			}
			if q[0][0]-q[1][0]+q[2][0]-q[3][0] == 0 {
				q[1][0] -= 1
			}
		default: // no parallel sides: x3 chosen so that the x sum cancels exactly
			q = [4][2]float64{{-w, -h}, {w + n(-0.3*w, 0.3*w), -h + n(-0.3*h, 0.3*h)}, {w, h}, {0, h + n(0.1*h, 0.4*h)}}
			q[3][0] = q[0][0] - q[1][0] + q[2][0]
		}
		if rng.Bool() { // transpose: the y sum cancels instead
			for i := range q {
				q[i][0], q[i][1] = q[i][1], q[i][0]
			}
			q[1], q[3] = q[3], q[1]
		}
	default: // perspective: every corner moved independently
		th := rng.Float() * 2 * math.Pi
		c, s := math.Cos(th), math.Sin(th)
		for i, p := range base {
			x := p[0] + (rng.Float()*2-1)*0.45*hw
			y := p[1] + (rng.Float()*2-1)*0.45*hh
			q[i] = [2]float64{c*x - s*y, s*x + c*y}
		}
	}
	for i := range q {
		q[i][0] += cx
		q[i][1] += cy
	}
	return q
}

func c19IsParallelogram(q [4][2]float64) bool {
	return q[0][0]-q[1][0]+q[2][0]-q[3][0] == 0 && q[0][1]-q[1][1]+q[2][1]-q[3][1] == 0
}

// c19GenQuad draws until the quadrilateral is well shaped; optional mirror
// (reverses orientation) and rotation of the starting corner.
func c19GenQuad(rng *fw.Rand, family string, cx, cy, size float64) [4][2]float64 {
	for {
		q := c19Quad(rng, family, cx, cy, size)
		if rng.Intn(4) == 0 { // mirrored orientation
			q[1], q[3] = q[3], q[1]
		}
		if k := rng.Intn(4); k > 0 && rng.Bool() {
			var t [4][2]float64
			for i := range q {
				t[i] = q[(i+k)%4]
			}
			q = t
		}
		if c19WellShaped(q, 0.08) {
			return q
		}
	}
}

func c19Flat(q [4][2]float64) []float64 {
	return []float64{q[0][0], q[0][1], q[1][0], q[1][1], q[2][0], q[2][1], q[3][0], q[3][1]}
}

func c19Q2Q(src, dst [4][2]float64) *common.PerspectiveTransform {
	return common.PerspectiveTransform_QuadrilateralToQuadrilateral(
		src[0][0], src[0][1], src[1][0], src[1][1], src[2][0], src[2][1], src[3][0], src[3][1],
		dst[0][0], dst[0][1], dst[1][0], dst[1][1], dst[2][0], dst[2][1], dst[3][0], dst[3][1])
}

func c19NotFound(err error) bool {
	_, ok := err.(gozxing.NotFoundException)
	return ok
}

// ---------------------------------------------------------------------------
// transform oracle

var c19Unit = [4][2]float64{{0, 0}, {1, 0}, {1, 1}, {0, 1}}

func c19Scale(qs ...[4][2]float64) float64 {
	s := 1.0
	for _, q := range qs {
		for _, p := range q {
			s = math.Max(s, math.Max(math.Abs(p[0]), math.Abs(p[1])))
		}
	}
	return s
}

// c19RelErr returns max(|gx-wx|,|gy-wy|)/max(scale,|wx|,|wy|), computed from exact differences.
func c19RelErr(gx, gy float64, wx, wy *big.Rat, scale float64) float64 {
	a, b := new(big.Rat).SetFloat64(gx), new(big.Rat).SetFloat64(gy)
	if a == nil || b == nil {
		return math.Inf(1)
	}
	dx, _ := a.Sub(a, wx).Float64()
	dy, _ := b.Sub(b, wy).Float64()
	fx, _ := wx.Float64()
	fy, _ := wy.Float64()
	den := math.Max(scale, math.Max(math.Abs(fx), math.Abs(fy)))
	return math.Max(math.Abs(dx), math.Abs(dy)) / den
}

// c19CheckTransform compares t with the exact map src->dst on the corners and on
// random interior/exterior points. what names the constructor for the signature.
func c19CheckTransform(r *fw.Rec, t *common.PerspectiveTransform, what, family string, src, dst [4][2]float64) bool {
	rng := r.Rng
	data := map[string]interface{}{"constructor": what, "family": family, "src": c19Flat(src), "dst": c19Flat(dst)}
	h, ok := c19Solve(src, dst)
	if !ok {
		r.Tally("transform_skipped_exact_system_singular")
		return true
	}
	scale := c19Scale(src, dst)
	// corners, through TransformPoints
	pts := c19Flat(src)
	t.TransformPoints(pts)
	for i := 0; i < 4; i++ {
		e := c19RelErr(pts[2*i], pts[2*i+1], new(big.Rat).SetFloat64(dst[i][0]), new(big.Rat).SetFloat64(dst[i][1]), scale)
		r.Max("max_corner_rel_err_e15", int64(math.Min(e*1e15, 9e18)))
		if !(e < 1e-6) {
			data["corner"] = i
			data["got"] = []float64{pts[2*i], pts[2*i+1]}
			r.Violation("model-mismatch", what+":corner-not-mapped-to-destination:"+family,
				fmt.Sprintf("%s: source corner %d (%v,%v) -> (%v,%v), destination (%v,%v), relative error %.3g", what, i, src[i][0], src[i][1], pts[2*i], pts[2*i+1], dst[i][0], dst[i][1], e), data)
			return false
		}
	}
	r.TallyN("corners_checked", 4)
	r.TallyN("corners_checked_"+family, 4)
	// the exact solver itself must reproduce the destinations exactly
	for i := 0; i < 4; i++ {
		u, v, ok := h.applyF(src[i][0], src[i][1])
		if !ok || u.Cmp(new(big.Rat).SetFloat64(dst[i][0])) != 0 || v.Cmp(new(big.Rat).SetFloat64(dst[i][1])) != 0 {
			r.Inconclusive("exact solver does not reproduce a destination point")
			return false
		}
	}
	// other points
	size := 0.0
	var cx, cy float64
	for _, p := range src {
		cx += p[0] / 4
		cy += p[1] / 4
	}
	for _, p := range src {
		size = math.Max(size, math.Hypot(p[0]-cx, p[1]-cy))
	}
	const np = 24
	xs, ys := make([]float64, 0, np), make([]float64, 0, np)
	kinds := make([]string, 0, np)
	for k := 0; k < np; k++ {
		var x, y float64
		kind := "interior"
		if k%2 == 0 {
			a, b := rng.Float(), rng.Float()
			// bilinear blend of the corners: inside a convex quadrilateral
			x = (1-a)*(1-b)*src[0][0] + a*(1-b)*src[1][0] + a*b*src[2][0] + (1-a)*b*src[3][0]
			y = (1-a)*(1-b)*src[0][1] + a*(1-b)*src[1][1] + a*b*src[2][1] + (1-a)*b*src[3][1]
		} else {
			kind = "exterior"
			rad := size * (1.1 + 2*rng.Float())
			th := rng.Float() * 2 * math.Pi
			x, y = cx+rad*math.Cos(th), cy+rad*math.Sin(th)
		}
		rw := h.relW(x, y, src)
		if math.Abs(rw) < 0.2 {
			r.Tally("points_skipped_near_vanishing_line")
			continue
		}
		if rw < 0 {
			r.Tally("points_beyond_vanishing_line")
		}
		xs, ys, kinds = append(xs, x), append(ys, y), append(kinds, kind)
	}
	flat := make([]float64, 0, 2*len(xs))
	for i := range xs {
		flat = append(flat, xs[i], ys[i])
	}
	t.TransformPoints(flat)
	gx, gy := append([]float64{}, xs...), append([]float64{}, ys...)
	t.TransformPointsXY(gx, gy)
	for i := range xs {
		u, v, ok := h.applyF(xs[i], ys[i])
		if !ok {
			continue
		}
		for pass, g := range [][2]float64{{flat[2*i], flat[2*i+1]}, {gx[i], gy[i]}} {
			fn := []string{"TransformPoints", "TransformPointsXY"}[pass]
			e := c19RelErr(g[0], g[1], u, v, scale)
			r.Max("max_point_rel_err_e15", int64(math.Min(e*1e15, 9e18)))
			if !(e < 1e-6) {
				fu, _ := u.Float64()
				fv, _ := v.Float64()
				data["point"] = []float64{xs[i], ys[i]}
				data["got"] = []float64{g[0], g[1]}
				data["exact"] = []float64{fu, fv}
				r.Violation("model-mismatch", what+"."+fn+":differs-from-projective-map:"+family,
					fmt.Sprintf("%s then %s: %s point (%v,%v) -> (%v,%v), exact projective map gives (%v,%v), relative error %.3g", what, fn, kinds[i], xs[i], ys[i], g[0], g[1], fu, fv, e), data)
				return false
			}
		}
		r.Tally("points_checked_" + kinds[i])
	}
	r.Evals(int64(len(xs)))
	return true
}

// one transform case: a batch of quadrilateral pairs of every family
func c19TransformCase(r *fw.Rec, idx int) {
	rng := r.Rng
	for rep := 0; rep < 12; rep++ {
		srcFam := c19TransformFamilies[rng.Intn(5)]
		dstFam := c19TransformFamilies[(idx+rep)%5]
		// units from micro to 1e5: nothing in a projective map depends on the unit of length (pixel-scale
		// quadrilaterals are only what the readers happen to use), so the answer must be as exact for
		// normalised or metric coordinates as for pixels
		mags := []float64{1, 10, 100, 1000, 1, 10, 100, 1000, 1e-6, 1e-4, 1e-2, 1e5}
		magS := mags[rng.Intn(len(mags))] * (1 + rng.Float())
		magD := mags[rng.Intn(len(mags))] * (1 + rng.Float())
		if magS < 0.5 || magD < 0.5 {
			r.Tally("quad_pairs_in_small_units")
		}
		src := c19GenQuad(rng, srcFam, (rng.Float()*6-3)*magS, (rng.Float()*6-3)*magS, magS)
		dst := c19GenQuad(rng, dstFam, (rng.Float()*6-3)*magD, (rng.Float()*6-3)*magD, magD)
		if rng.Intn(3) == 0 { // grid-like source: rectangle inset from the origin
			d := float64(1 + rng.Intn(177))
			o := []float64{0, 0.5, 3.5}[rng.Intn(3)]
			if d-2*o < 1 {
				o = 0
			}
			src = [4][2]float64{{o, o}, {d - o, o}, {d - o, d - o}, {o, d - o}}
			srcFam = "axis"
		}
		fam := dstFam
		for _, q := range [][4][2]float64{src, dst} {
			sx := q[0][0] - q[1][0] + q[2][0] - q[3][0]
			sy := q[0][1] - q[1][1] + q[2][1] - q[3][1]
			if (sx == 0) != (sy == 0) {
				r.Tally("quads_with_exactly_one_vanishing_coordinate_sum")
			}
		}
		if srcFam == "trapezoid" {
			srcFam = "perspective"
		}
		if dstFam == "trapezoid" {
			dstFam, fam = "perspective", "perspective"
		}
		if srcFam == "perspective" || dstFam == "perspective" {
			fam = "perspective"
		} else if srcFam == "sheared" || dstFam == "sheared" {
			fam = "sheared"
		} else if srcFam == "rotated" || dstFam == "rotated" {
			fam = "rotated"
		}
		r.Tally("quad_pairs_" + fam)
		if fam == "perspective" && !c19IsParallelogram(dst) && !c19IsParallelogram(src) {
			r.Tally("quad_pairs_perspective_both_sides")
		}
		t := c19Q2Q(src, dst)
		if !c19CheckTransform(r, t, "QuadrilateralToQuadrilateral", fam, src, dst) {
			return
		}
		s2q := common.PerspectiveTransform_SquareToQuadrilateral(dst[0][0], dst[0][1], dst[1][0], dst[1][1], dst[2][0], dst[2][1], dst[3][0], dst[3][1])
		if !c19CheckTransform(r, s2q, "SquareToQuadrilateral", dstFam, c19Unit, dst) {
			return
		}
		q2s := common.PerspectiveTransform_QuadrilateralToSquare(src[0][0], src[0][1], src[1][0], src[1][1], src[2][0], src[2][1], src[3][0], src[3][1])
		if !c19CheckTransform(r, q2s, "QuadrilateralToSquare", srcFam, src, c19Unit) {
			return
		}
		// directly afterwards: quadrilaterals that share corners with the previous ones (the same
		// first and third corner with the other two moved; the same corners in transposed order;
		// the same source with another destination) - a transform depends on all eight points of
		// THIS call and on nothing that was computed before
		for k := 0; k < 3; k++ {
			src2, dst2 := src, dst
			switch k {
			case 0:
				src2[1][0] += (rng.Float() - 0.5) * magS * 0.2
				src2[1][1] += (rng.Float() - 0.5) * magS * 0.2
				src2[3][0] += (rng.Float() - 0.5) * magS * 0.2
				src2[3][1] += (rng.Float() - 0.5) * magS * 0.2
			case 1:
				src2[1], src2[3] = src[3], src[1]
				dst2[1], dst2[3] = dst[3], dst[1]
			case 2:
				dst2[1][0] += (rng.Float() - 0.5) * magD * 0.2
				dst2[3][1] += (rng.Float() - 0.5) * magD * 0.2
			}
			if !c19WellShaped(src2, 0.08) || !c19WellShaped(dst2, 0.08) {
				continue
			}
			if !c19CheckTransform(r, c19Q2Q(src2, dst2), "QuadrilateralToQuadrilateral(after a call sharing corners)", "perspective", src2, dst2) {
				return
			}
			r.Tally("transforms_after_a_call_sharing_corners")
		}
		r.Tally("transforms_checked")
		r.NontrivialH(c19HashFloats(c19Flat(src), c19Flat(dst)))
		if idx == 0 && rep < 2 {
			r.Sample(map[string]interface{}{"kind": "transform", "family": fam, "src": c19Flat(src), "dst": c19Flat(dst)})
		}
	}
}

func c19HashFloats(a, b []float64) uint64 {
	h := uint64(1469598103934665603)
	for _, v := range a {
		h = (h ^ math.Float64bits(v)) * 1099511628211
	}
	h = (h ^ 0xFF) * 1099511628211
	for _, v := range b {
		h = (h ^ math.Float64bits(v)) * 1099511628211
	}
	return h
}

// ---------------------------------------------------------------------------
// sampling oracle

type c19Img struct {
	w, h int
	px   []bool
	bm   *gozxing.BitMatrix
	kind string
}

func (m *c19Img) at(x, y int) bool { return m.px[y*m.w+x] }

func c19NewImg(rng *fw.Rand, w, h int, kind string) *c19Img {
	m := &c19Img{w: w, h: h, px: make([]bool, w*h), kind: kind}
	bs := 2 + rng.Intn(5)
	var blocks []bool
	bw := w/bs + 1
	if kind == "blocks" {
		blocks = make([]bool, bw*(h/bs+1))
		for i := range blocks {
			blocks[i] = rng.Bool()
		}
	}
	for y := 0; y < h; y++ {
		for x := 0; x < w; x++ {
			var v bool
			switch kind {
			case "black":
				v = true
			case "noise":
				v = rng.Bool()
			case "blocks":
				v = blocks[(y/bs)*bw+x/bs]
			case "frame": // outermost ring black, second ring white, interior noise
				d := x
				for _, e := range []int{y, w - 1 - x, h - 1 - y} {
					if e < d {
						d = e
					}
				}
				switch d {
				case 0:
					v = true
				case 1:
					v = false
				default:
					v = rng.Bool()
				}
			}
			m.px[y*w+x] = v
		}
	}
	bm, err := gozxing.NewBitMatrix(w, h)
	if err != nil {
		panic("c19: NewBitMatrix failed: " + err.Error())
	}
	for y := 0; y < h; y++ {
		for x := 0; x < w; x++ {
			if m.px[y*w+x] {
				bm.Set(x, y)
			}
		}
	}
	m.bm = bm
	return m
}

const (
	c19Inside   = iota // pixel index determined
	c19DontCare        // in (-2,-1): nudge to 0 or NotFound
	c19Far             // <= -2 or >= n+1: NotFound demanded
	c19Any             // too close to the -2 / n+1 limit to demand either
)

var c19Million = big.NewInt(1000000)

// c19Axis classifies the exact coordinate N/W (W>0) against an image extent n.
// skip: the pixel index is not determined within the 1e-6 (relative) margin.
// band: -1 low band [-1,0), +1 high band [n,n+1), 0 otherwise.
func c19Axis(N, W *big.Int, n int) (idx int, cls int, skip bool, band int) {
	rem := new(big.Int)
	q, _ := new(big.Int).DivMod(N, W, rem) // W>0: floor division, 0 <= rem < W
	if !q.IsInt64() || q.Int64() > 1<<40 || q.Int64() < -(1<<40) {
		return 0, c19Far, true, 0
	}
	qi := int(q.Int64())
	m := int64(1)
	if qi > 1 {
		m = int64(qi)
	} else if qi < -1 {
		m = int64(-qi)
	}
	lim := new(big.Int).Mul(W, big.NewInt(m))
	lo := new(big.Int).Mul(rem, c19Million)
	hi := new(big.Int).Sub(W, rem)
	hi.Mul(hi, c19Million)
	if lo.Cmp(lim) < 0 || hi.Cmp(lim) < 0 {
		b := qi // the integer boundary the point is close to
		if lo.Cmp(lim) >= 0 {
			b = qi + 1
		}
		switch {
		case b >= 1 && b <= n-1:
			return qi, c19Inside, true, 0
		case b == 0:
			return 0, c19Inside, false, 0
		case b == n:
			return n - 1, c19Inside, false, 0
		case b == -1:
			return 0, c19DontCare, false, 0
		case b == -2 || b == n+1:
			return 0, c19Any, true, 0
		default:
			return 0, c19Far, true, 0
		}
	}
	switch {
	case qi <= -3 || qi >= n+1:
		return 0, c19Far, true, 0
	case qi == -2:
		return 0, c19DontCare, false, 0
	case qi == -1:
		return 0, c19Inside, false, -1
	case qi == n:
		return n - 1, c19Inside, false, 1
	}
	return qi, c19Inside, false, 0
}

type c19Expect struct {
	cells   []int8 // 0 white, 1 black, -1 not asserted
	cls     int    // worst class over all cells (Any > Far > DontCare > Inside)
	twisted bool   // denominator changes sign / vanishes inside the grid
	// per row: band of first/last cell per axis (for the pass tallies)
	asserted, skipped, inBand int
	firstPassBottomOnly       int // rows whose leading bottom-band cells are seen by the first pass only
	rowTally                  map[string]int
	farCell                   [2]int
}

// c19Expected computes, for every cell centre (x+0.5, y+0.5), the exact image
// of the projective map h and the pixel the statement demands.
func c19Expected(h c19H, dimX, dimY int, img *c19Img) *c19Expect {
	e := &c19Expect{cells: make([]int8, dimX*dimY), rowTally: map[string]int{}}
	// homogeneous cell centre (2x+1, 2y+1, 2)
	lin := func(a, b, c *big.Int, x, y int) *big.Int {
		z := new(big.Int).Mul(a, big.NewInt(int64(2*x+1)))
		z.Add(z, new(big.Int).Mul(b, big.NewInt(int64(2*y+1))))
		return z.Add(z, new(big.Int).Lsh(c, 1))
	}
	neg := lin(h[6], h[7], h[8], 0, 0).Sign() < 0
	hh := h
	if neg {
		for i := range hh {
			hh[i] = new(big.Int).Neg(h[i])
		}
	}
	stepX, stepY, stepW := new(big.Int).Lsh(hh[0], 1), new(big.Int).Lsh(hh[3], 1), new(big.Int).Lsh(hh[6], 1)
	anyCls, farCls, dcCls := false, false, false
	type cellInfo struct{ bx, by int }
	row := make([]cellInfo, dimX)
	rowOK := make([]bool, dimX)
	for y := 0; y < dimY; y++ {
		X, Y, W := lin(hh[0], hh[1], hh[2], 0, y), lin(hh[3], hh[4], hh[5], 0, y), lin(hh[6], hh[7], hh[8], 0, y)
		for x := 0; x < dimX; x++ {
			if x > 0 {
				X.Add(X, stepX)
				Y.Add(Y, stepY)
				W.Add(W, stepW)
			}
			e.cells[y*dimX+x] = -1
			rowOK[x] = false
			if W.Sign() <= 0 {
				e.twisted = true
				anyCls = true
				continue
			}
			ix, cx, sx, bx := c19Axis(X, W, img.w)
			iy, cy, sy, by := c19Axis(Y, W, img.h)
			for _, c := range []int{cx, cy} {
				switch c {
				case c19Any:
					anyCls = true
				case c19Far:
					if !farCls {
						e.farCell = [2]int{x, y}
					}
					farCls = true
				case c19DontCare:
					dcCls = true
				}
			}
			row[x] = cellInfo{bx, by}
			if cx > c19DontCare || cy > c19DontCare {
				continue
			}
			rowOK[x] = cx == c19Inside && cy == c19Inside
			if sx || sy {
				e.skipped++
				continue
			}
			if img.at(ix, iy) {
				e.cells[y*dimX+x] = 1
			} else {
				e.cells[y*dimX+x] = 0
			}
			e.asserted++
			if bx != 0 || by != 0 {
				e.inBand++
			}
		}
		// which nudge pass does this row exercise? The leading run of in-band
		// cells is handled by the pass from the start, the trailing run by the
		// pass from the end; a row lying in a band as a whole is walked by both.
		allOK := true
		for x := 0; x < dimX; x++ {
			allOK = allOK && rowOK[x]
		}
		if allOK {
			inB := func(c cellInfo) bool { return c.bx != 0 || c.by != 0 }
			lead, trail := 0, 0
			for lead < dimX && inB(row[lead]) {
				lead++
			}
			for trail < dimX && inB(row[dimX-1-trail]) {
				trail++
			}
			note := func(prefix string, cs []cellInfo) {
				var seen [4]bool
				for _, c := range cs {
					if c.bx < 0 {
						seen[0] = true
					} else if c.bx > 0 {
						seen[1] = true
					}
					if c.by < 0 {
						seen[2] = true
					} else if c.by > 0 {
						seen[3] = true
					}
				}
				for k, b := range c19Bands {
					if seen[k] {
						e.rowTally[prefix+"_"+b]++
					}
				}
			}
			if lead == dimX {
				note("wholerow", row)
			} else {
				note("firstpass", row[:lead])
				note("lastpass", row[dimX-trail:])
				// the library's passes continue only over points they changed (points in
				// (-1,0) are consumed by truncation instead): leading bottom-band cells
				// are revisited by the pass from the end only if every later cell is changed too
				if row[0].by > 0 {
					masked := true
					for x := 0; x < dimX; x++ {
						if row[x].bx <= 0 && row[x].by <= 0 {
							masked = false
						}
					}
					if !masked {
						e.firstPassBottomOnly++
					}
				}
			}
		}
	}
	switch {
	case e.twisted:
		e.cls = c19Any
	case farCls:
		e.cls = c19Far
	case anyCls:
		e.cls = c19Any
	case dcCls:
		e.cls = c19DontCare
	default:
		e.cls = c19Inside
	}
	return e
}

// c19GridSrc returns the grid-space quadrilateral (the "To" points of SampleGrid).
func c19GridSrc(rng *fw.Rand, dimX, dimY int) ([4][2]float64, string) {
	fx, fy := float64(dimX), float64(dimY)
	o := []float64{0, 0.5, 3.5}[rng.Intn(3)]
	if fx-2*o < 1 || fy-2*o < 1 {
		o = 0
	}
	q := [4][2]float64{{o, o}, {fx - o, o}, {fx - o, fy - o}, {o, fy - o}}
	kind := fmt.Sprintf("inset%v", o)
	if dimX >= 14 && dimY >= 14 && rng.Intn(4) == 0 { // QR style: third point is an alignment pattern further in
		q[2] = [2]float64{fx - 6.5, fy - 6.5}
		kind = "qr-alignment"
	}
	return q, kind
}

// side placement of the hull of the mapped cell centres relative to an image edge
var c19SidePlacements = []string{"inside", "band", "dontcare", "far"}

func c19LowTarget(rng *fw.Rand, place string, n int) float64 {
	switch place {
	case "band":
		return -0.05 - 0.9*rng.Float()
	case "dontcare":
		return -1.05 - 0.9*rng.Float()
	case "far":
		return -2.05 - 3*rng.Float()
	}
	return 0.05 + rng.Float()*float64(n)/4
}

func c19HighTarget(rng *fw.Rand, place string, n int) float64 {
	switch place {
	case "band":
		return float64(n) + 0.05 + 0.9*rng.Float()
	case "dontcare": // no don't-care band on the high side: [n,n+1) then far
		return float64(n) + 0.05 + 0.9*rng.Float()
	case "far":
		return float64(n) + 1.05 + 3*rng.Float()
	}
	return float64(n) - 0.05 - rng.Float()*float64(n)/4
}

type c19Setup struct {
	dimX, dimY int
	src, dst   [4][2]float64
	family     string
	srcKind    string
	places     [4]string // left, right, top, bottom
	h          c19H
}

// c19MakeSetup builds a grid->image quadrilateral pair of the family whose
// mapped cell-centre hull is placed against the image edges as `places` says.
// uniform: keep the aspect (pure similarity fit) – only for all-inside placement.
func c19MakeSetup(r *fw.Rec, dimX, dimY int, img *c19Img, family string, places [4]string, uniform bool) (*c19Setup, bool) {
	rng := r.Rng
	for try := 0; try < 60; try++ {
		src, srcKind := c19GridSrc(rng, dimX, dimY)
		fam := family
		if try >= 40 {
			fam = "sheared" // affine always has a constant denominator
		}
		dst := c19GenQuad(rng, fam, 0, 0, 100)
		if fam != "perspective" && srcKind == "qr-alignment" {
			// keep the pair affine-related for the non-perspective families: use the plain rectangle
			fx, fy := float64(dimX), float64(dimY)
			src = [4][2]float64{{0, 0}, {fx, 0}, {fx, fy}, {0, fy}}
			srcKind = "inset0"
		}
		h, ok := c19Solve(src, dst)
		if !ok {
			continue
		}
		// denominator: constant sign and bounded ratio over the whole grid rectangle
		gc := [4][2]float64{{0, 0}, {float64(dimX), 0}, {float64(dimX), float64(dimY)}, {0, float64(dimY)}}
		minW, maxW := math.Inf(1), 0.0
		sgnOK := true
		for _, p := range gc {
			w := h.relW(p[0], p[1], src)
			if w <= 0 {
				sgnOK = false
			}
			minW, maxW = math.Min(minW, w), math.Max(maxW, w)
		}
		if !sgnOK || minW < 0.15*maxW {
			r.Tally("setup_rejected_vanishing_line_near_grid")
			continue
		}
		// hull of mapped cell centres = image of [0.5,dimX-0.5]x[0.5,dimY-0.5]
		cc := [4][2]float64{{0.5, 0.5}, {float64(dimX) - 0.5, 0.5}, {float64(dimX) - 0.5, float64(dimY) - 0.5}, {0.5, float64(dimY) - 0.5}}
		bx0, bx1, by0, by1 := math.Inf(1), math.Inf(-1), math.Inf(1), math.Inf(-1)
		for _, p := range cc {
			u, v, ok := h.applyF(p[0], p[1])
			if !ok {
				sgnOK = false
				break
			}
			fu, _ := u.Float64()
			fv, _ := v.Float64()
			bx0, bx1, by0, by1 = math.Min(bx0, fu), math.Max(bx1, fu), math.Min(by0, fv), math.Max(by1, fv)
		}
		if !sgnOK {
			continue
		}
		tx0, tx1 := c19LowTarget(rng, places[0], img.w), c19HighTarget(rng, places[1], img.w)
		ty0, ty1 := c19LowTarget(rng, places[2], img.h), c19HighTarget(rng, places[3], img.h)
		if tx1 <= tx0 || ty1 <= ty0 {
			continue
		}
		var sx, sy, ox, oy float64
		if bx1-bx0 < 1e-9 {
			sx = 1
			if places[0] == "inside" && places[1] != "inside" {
				ox = tx1 - bx0
			} else {
				ox = tx0 - bx0
			}
		} else {
			sx = (tx1 - tx0) / (bx1 - bx0)
			ox = tx0 - sx*bx0
		}
		if by1-by0 < 1e-9 {
			sy = 1
			if places[2] == "inside" && places[3] != "inside" {
				oy = ty1 - by0
			} else {
				oy = ty0 - by0
			}
		} else {
			sy = (ty1 - ty0) / (by1 - by0)
			oy = ty0 - sy*by0
		}
		if uniform && bx1-bx0 >= 1e-9 && by1-by0 >= 1e-9 {
			s := math.Min(sx, sy)
			// centre the smaller extent in its target interval
			ox = (tx0+tx1)/2 - s*(bx0+bx1)/2
			oy = (ty0+ty1)/2 - s*(by0+by1)/2
			sx, sy = s, s
		}
		for i := range dst {
			dst[i][0] = sx*dst[i][0] + ox
			dst[i][1] = sy*dst[i][1] + oy
		}
		if !c19WellShaped(dst, 0.02) { // strong anisotropic fit can flatten the quadrilateral
			r.Tally("setup_rejected_flattened_by_fit")
			continue
		}
		h2, ok := c19Solve(src, dst)
		if !ok {
			continue
		}
		return &c19Setup{dimX: dimX, dimY: dimY, src: src, dst: dst, family: fam, srcKind: srcKind, places: places, h: h2}, true
	}
	return nil, false
}

func (s *c19Setup) data(img *c19Img) map[string]interface{} {
	rows := make([]string, 0, img.h)
	if img.w*img.h <= 4096 {
		for y := 0; y < img.h; y++ {
			rows = append(rows, boolsToStr(img.px[y*img.w:(y+1)*img.w]))
		}
	}
	return map[string]interface{}{"dimX": s.dimX, "dimY": s.dimY, "to_points(grid)": c19Flat(s.src), "from_points(image)": c19Flat(s.dst),
		"image_w": img.w, "image_h": img.h, "image_kind": img.kind, "image_rows_if_small": rows, "family": s.family, "placement_left_right_top_bottom": s.places}
}

// c19SampleAndCheck runs SampleGrid and SampleGridWithTransform on the setup and
// compares them with the exact expectation.
func c19SampleAndCheck(r *fw.Rec, s *c19Setup, img *c19Img, class string) bool {
	exp := c19Expected(s.h, s.dimX, s.dimY, img)
	sampler := common.GridSampler_GetInstance()
	for _, api := range []string{"SampleGrid", "SampleGridWithTransform", "SampleGridWithTransform(second call, same transform)", "SampleGrid[corners listed in the opposite winding]"} {
		before := verifhook.OOBReads()
		var bits *gozxing.BitMatrix
		var err error
		if strings.HasSuffix(api, ")") {
			// the transform is the caller's object: sampling through it twice gives the same
			// answer twice, and it still maps the same points afterwards
			t := c19Q2Q(s.src, s.dst)
			probe := func() []float64 {
				p := []float64{0.5, 0.5, float64(s.dimX) - 0.5, 0.5, float64(s.dimX) / 2, float64(s.dimY) / 2, 0, float64(s.dimY)}
				t.TransformPoints(p)
				return p
			}
			p0 := probe()
			sampler.SampleGridWithTransform(img.bm, s.dimX, s.dimY, t)
			p1 := probe()
			for i := range p0 {
				if p0[i] != p1[i] && !(p0[i] != p0[i] && p1[i] != p1[i]) {
					r.Violation("model-mismatch", "SampleGridWithTransform:changes-the-callers-transform", fmt.Sprintf("after SampleGridWithTransform %dx%d the caller's transform maps the probe points to %v, before the call to %v", s.dimX, s.dimY, p1, p0), s.data(img))
					return false
				}
			}
			before = verifhook.OOBReads()
			bits, err = sampler.SampleGridWithTransform(img.bm, s.dimX, s.dimY, t)
			r.Tally("calls_second_call_same_transform")
		} else if strings.HasSuffix(api, "]") {
			// the same four correspondences, listed the other way round (first, fourth, third,
			// second corner): the same map, hence the same samples
			bits, err = sampler.SampleGrid(img.bm, s.dimX, s.dimY,
				s.src[0][0], s.src[0][1], s.src[3][0], s.src[3][1], s.src[2][0], s.src[2][1], s.src[1][0], s.src[1][1],
				s.dst[0][0], s.dst[0][1], s.dst[3][0], s.dst[3][1], s.dst[2][0], s.dst[2][1], s.dst[1][0], s.dst[1][1])
			r.Tally("calls_corners_in_the_opposite_winding")
		} else if api == "SampleGrid" {
			bits, err = sampler.SampleGrid(img.bm, s.dimX, s.dimY,
				s.src[0][0], s.src[0][1], s.src[1][0], s.src[1][1], s.src[2][0], s.src[2][1], s.src[3][0], s.src[3][1],
				s.dst[0][0], s.dst[0][1], s.dst[1][0], s.dst[1][1], s.dst[2][0], s.dst[2][1], s.dst[3][0], s.dst[3][1])
		} else {
			bits, err = sampler.SampleGridWithTransform(img.bm, s.dimX, s.dimY, c19Q2Q(s.src, s.dst))
		}
		oob := verifhook.OOBReads() - before
		r.Evals(1)
		if oob != 0 {
			d := s.data(img)
			d["oob_reads"] = oob
			out := "a matrix"
			if err != nil {
				out = fmt.Sprintf("error %v", err)
			}
			sig := api + ":read-outside-image:matrix-returned"
			if err != nil {
				sig = api + ":read-outside-image:before-not-found"
			}
			r.Violation("model-mismatch", sig, fmt.Sprintf("%s %dx%d on a %dx%d image read %d pixel(s) outside the image (returned %s)", api, s.dimX, s.dimY, img.w, img.h, oob, out), d)
			return false
		}
		if err != nil && !c19NotFound(err) {
			r.Violation("model-mismatch", api+":error-kind", fmt.Sprintf("%s returned %T (%v), not a NotFoundException", api, err, err), s.data(img))
			return false
		}
		if err == nil && (bits == nil || bits.GetWidth() != s.dimX || bits.GetHeight() != s.dimY) {
			r.Violation("model-mismatch", api+":result-dimensions", fmt.Sprintf("%s %dx%d returned a matrix of other dimensions", api, s.dimX, s.dimY), s.data(img))
			return false
		}
		switch exp.cls {
		case c19Any:
			if exp.twisted {
				if err != nil {
					r.Tally("calls_twisted_notfound")
				} else {
					r.Tally("calls_twisted_matrix_no_outside_read")
				}
			} else {
				r.Tally("calls_outcome_not_demanded_limit_borderline")
			}
			continue
		case c19Far:
			if err == nil {
				d := s.data(img)
				d["far_cell"] = exp.farCell
				r.Violation("model-mismatch", api+":no-error-for-point-beyond-band", fmt.Sprintf("%s %dx%d: cell %v maps more than one pixel outside the %dx%d image, but a matrix was returned", api, s.dimX, s.dimY, exp.farCell, img.w, img.h), d)
				return false
			}
			r.Tally("calls_beyond_band_notfound")
			continue
		case c19DontCare:
			if err != nil {
				r.Tally("calls_dont_care_band_notfound")
				continue
			}
			r.Tally("calls_dont_care_band_matrix")
		default:
			if err != nil {
				d := s.data(img)
				d["rows_exercising"] = exp.rowTally
				sig := api + ":not-found-though-all-points-within-one-pixel"
				if exp.inBand == 0 {
					sig = api + ":not-found-though-all-points-inside"
				} else if exp.firstPassBottomOnly > 0 {
					sig += ":row-starts-in-bottom-band"
				}
				r.Violation("model-mismatch", sig, fmt.Sprintf("%s %dx%d on a %dx%d image: every cell centre maps inside the image or at most one pixel outside (%d cells in a band), but the call failed: %v", api, s.dimX, s.dimY, img.w, img.h, exp.inBand, err), d)
				return false
			}
		}
		// compare the cells
		for y := 0; y < s.dimY; y++ {
			for x := 0; x < s.dimX; x++ {
				want := exp.cells[y*s.dimX+x]
				if want < 0 {
					continue
				}
				if bits.Get(x, y) != (want == 1) {
					d := s.data(img)
					d["cell"] = []int{x, y}
					u, v, _ := s.h.applyF(float64(x)+0.5, float64(y)+0.5)
					fu, _ := u.Float64()
					fv, _ := v.Float64()
					d["exact_point"] = []float64{fu, fv}
					where := "inside"
					if fu < 0 || fv < 0 || fu >= float64(img.w) || fv >= float64(img.h) {
						where = "nudged"
					}
					r.Violation("model-mismatch", api+":wrong-bit:"+where, fmt.Sprintf("%s %dx%d: cell (%d,%d) centre maps exactly to (%.9g,%.9g); bit is %v, the pixel there (after pulling onto the edge) is %v", api, s.dimX, s.dimY, x, y, fu, fv, bits.Get(x, y), want == 1), d)
					return false
				}
			}
		}
		r.Tally("calls_matrix_compared")
		r.Tally("calls_matrix_compared_" + s.family)
		r.Tally("calls_matrix_compared_image_" + img.kind)
		if api == "SampleGrid" {
			r.TallyN("cells_asserted", int64(exp.asserted))
			r.TallyN("cells_skipped_borderline", int64(exp.skipped))
			r.TallyN("cells_asserted_in_band", int64(exp.inBand))
			for k, v := range exp.rowTally {
				r.TallyN("samplegrid_rows_"+k, int64(v))
			}
		}
	}
	r.Tally("sampling_setups_" + class)
	r.NontrivialH(c19HashFloats(c19Flat(s.src), c19Flat(s.dst)) ^ uint64(s.dimX)<<40 ^ uint64(s.dimY)<<20 ^ uint64(img.w)<<10 ^ uint64(img.h))
	return true
}

var c19ImgKinds = []string{"noise", "black", "blocks", "frame", "noise"}

func c19PickDims(rng *fw.Rand, idx int) (int, int) {
	special := []int{1, 2, 3, 21, 25, 57, 104, 144, 176, 177}
	pick := func() int {
		switch rng.Intn(4) {
		case 0:
			return special[rng.Intn(len(special))]
		case 1:
			return 1 + rng.Intn(30)
		default:
			return 1 + rng.Intn(177)
		}
	}
	if idx < 177 { // every dimension at least once, square
		return idx + 1, idx + 1
	}
	dx := pick()
	dy := dx
	if rng.Intn(3) > 0 {
		dy = pick()
	}
	return dx, dy
}

func c19SamplingCase(r *fw.Rec, idx int, overhang bool) {
	rng := r.Rng
	dimX, dimY := c19PickDims(rng, idx)
	w, h := 8+rng.Intn(300), 8+rng.Intn(300)
	if rng.Intn(6) == 0 {
		w, h = 2+rng.Intn(12), 2+rng.Intn(12)
	}
	img := c19NewImg(rng, w, h, c19ImgKinds[rng.Intn(len(c19ImgKinds))])
	family := c19Families[idx%4]
	places := [4]string{"inside", "inside", "inside", "inside"}
	class := "inside"
	if overhang {
		class = "overhang"
		for i := range places {
			switch k := rng.Intn(20); {
			case k < 9:
			case k < 16:
				places[i] = "band"
			case k < 18:
				places[i] = "dontcare"
			default:
				places[i] = "far"
			}
		}
	}
	s, ok := c19MakeSetup(r, dimX, dimY, img, family, places, !overhang)
	if !ok {
		r.Tally("setup_failed")
		return
	}
	r.Tally(fmt.Sprintf("grid_dims_%s", c19DimBucket(dimX, dimY)))
	r.Max("max_grid_dimension", int64(dimX))
	r.Max("max_grid_dimension", int64(dimY))
	if !c19SampleAndCheck(r, s, img, class) {
		return
	}
	if idx == 20 {
		r.Sample(map[string]interface{}{"kind": "sampling/" + class, "dimX": dimX, "dimY": dimY, "image": fmt.Sprintf("%dx%d %s", w, h, img.kind), "family": s.family, "to": c19Flat(s.src), "from": c19Flat(s.dst), "placement": places})
	}
}

func c19DimBucket(dx, dy int) string {
	b := func(d int) string {
		switch {
		case d == 1:
			return "1"
		case d == 2:
			return "2"
		case d == 177:
			return "177"
		case d <= 21:
			return "3-21"
		default:
			return "22-176"
		}
	}
	if dx == dy {
		return "square_" + b(dx)
	}
	return "nonsquare"
}

// c19CentralCase: the defining quadrilateral is a small square in the middle of
// the grid (the Aztec detector samples a 15..151 module grid through the corners
// of the bull's eye, the QR detector a grid that extends 3.5 modules beyond its
// points), so even a mild perspective puts the line that maps to infinity
// inside the grid.  No rejection on the denominator here: when it changes sign
// inside the grid only the unconditional demands are made (no panic, no read
// outside the image, error kind); otherwise the full cell oracle applies.
func c19CentralCase(r *fw.Rec, idx int) {
	rng := r.Rng
	for rep := 0; rep < 6; rep++ {
		dim := 15 + 4*rng.Intn(35)
		if rng.Intn(3) == 0 {
			dim = 21 + 4*rng.Intn(8)
		}
		half := float64(2 + rng.Intn(8))
		if rng.Intn(4) == 0 { // QR style: everything but a 3.5 module margin
			half = float64(dim)/2 - 3.5
		}
		c := float64(dim) / 2
		src := [4][2]float64{{c - half, c - half}, {c + half, c - half}, {c + half, c + half}, {c - half, c + half}}
		w, h := 60+rng.Intn(500), 60+rng.Intn(500)
		img := c19NewImg(rng, w, h, []string{"black", "noise"}[rng.Intn(2)])
		module := 0.4 + 3*rng.Float()
		if lim := math.Min(float64(w), float64(h)) / float64(dim); module > lim {
			module = lim
		}
		cx, cy := float64(w)*(0.3+0.4*rng.Float()), float64(h)*(0.3+0.4*rng.Float())
		dst := c19GenQuad(rng, "perspective", cx, cy, half*module*1.4)
		hm, ok := c19Solve(src, dst)
		if !ok {
			continue
		}
		s := &c19Setup{dimX: dim, dimY: dim, src: src, dst: dst, family: "perspective", srcKind: "central", places: [4]string{"central", "", "", ""}, h: hm}
		exp := c19Expected(hm, dim, dim, img)
		if exp.twisted {
			r.Tally("central_setups_denominator_changes_sign_inside_grid")
		} else {
			r.Tally("central_setups_denominator_constant_sign")
		}
		if !c19SampleAndCheck(r, s, img, "central") {
			return
		}
		if idx == 0 && rep == 0 {
			r.Sample(map[string]interface{}{"kind": "sampling/central", "dim": dim, "image": fmt.Sprintf("%dx%d %s", w, h, img.kind), "to": c19Flat(src), "from": c19Flat(dst)})
		}
	}
}

// c19VanishingOriginCase: grid->image maps whose vanishing line passes exactly through the grid
// origin (0,0) - or along the grid's left / top border -, built from small integers so that every
// defining coordinate is a dyadic rational: the constant term of the map's denominator is exactly
// zero, which says nothing about the cell centres (all of them have a positive denominator and an
// image inside the picture).
func c19VanishingOriginCase(r *fw.Rec, idx int) {
	rng := r.Rng
	for rep := 0; rep < 6; rep++ {
		dim := 6 + rng.Intn(9)
		// denominator w = p*x + q*y with (p,q) in {(1,0),(0,1),(1,1)}; source corners where w is a power of two
		kind := (idx + rep) % 3
		var src [4][2]float64
		var p, q float64
		switch kind {
		case 0:
			p, q = 1, 0
			src = [4][2]float64{{2, 2}, {8, 2}, {8, 8}, {2, 8}}
			if rng.Bool() {
				src = [4][2]float64{{1, 1}, {4, 1}, {4, 5}, {1, 5}}
			}
		case 1:
			p, q = 0, 1
			src = [4][2]float64{{2, 2}, {8, 2}, {8, 8}, {2, 8}}
			if rng.Bool() {
				src = [4][2]float64{{1, 1}, {5, 1}, {5, 4}, {1, 4}}
			}
		default:
			p, q = 1, 1
			src = [4][2]float64{{1, 1}, {3, 1}, {3, 5}, {1, 3}}
		}
		a, b, c0 := float64(4+rng.Intn(16)), float64(rng.Intn(7)), float64(rng.Intn(7))
		d, e, f := float64(4+rng.Intn(16)), float64(rng.Intn(7)), float64(rng.Intn(7))
		// X = (a*w + b*y' + c0)/w, Y = (d*w + e*x' + f)/w with x', y' the coordinate the denominator does not use (kind 2: x and y)
		num := func(x, y float64) (float64, float64, float64) {
			w := p*x + q*y
			switch kind {
			case 0:
				return a*w + b*y + c0, d*w + e*y + f, w
			case 1:
				return a*w + b*x + c0, d*w + e*x + f, w
			}
			return a*w + b*x + c0, d*w + e*y + f, w
		}
		var dst [4][2]float64
		for i, pt := range src {
			nx, ny, w := num(pt[0], pt[1])
			dst[i] = [2]float64{nx / w, ny / w}
		}
		if !c19WellShaped(dst, 0.01) {
			continue
		}
		hm, ok := c19Solve(src, dst)
		if !ok {
			continue
		}
		// picture large enough for every cell centre
		maxX, maxY := 0.0, 0.0
		for _, x := range []float64{0.5, float64(dim) - 0.5} {
			for _, y := range []float64{0.5, float64(dim) - 0.5} {
				nx, ny, w := num(x, y)
				maxX, maxY = math.Max(maxX, nx/w), math.Max(maxY, ny/w)
			}
		}
		W, H := int(maxX)+3+rng.Intn(5), int(maxY)+3+rng.Intn(5)
		if W > 400 || H > 400 {
			continue
		}
		img := c19NewImg(rng, W, H, []string{"black", "noise"}[rng.Intn(2)])
		st := &c19Setup{dimX: dim, dimY: dim, src: src, dst: dst, family: "perspective", srcKind: "vanishing-line-through-grid-origin", places: [4]string{"inside", "inside", "inside", "inside"}, h: hm}
		if exp := c19Expected(hm, dim, dim, img); exp.twisted {
			continue
		}
		if !c19SampleAndCheck(r, st, img, "vanishing-origin") {
			return
		}
		r.Tally("setups_vanishing_line_through_grid_origin")
		r.NontrivialH(c19HashFloats(c19Flat(src), c19Flat(dst)))
	}
}

// ---------------------------------------------------------------------------
// nudge bands: targeted SampleGrid set-ups and direct calls

var c19Bands = []string{"left", "right", "top", "bottom"}
var c19Passes = []string{"firstpass", "lastpass"}

// c19TargetedSetup builds an affine grid->image map whose edge row starts
// (firstpass) or ends (lastpass) inside the named one-pixel band while the
// other end of the row is plainly inside the image.
func c19TargetedSetup(rng *fw.Rand, dimX, dimY int, img *c19Img, band, pass string) (*c19Setup, bool) {
	w, h := float64(img.w), float64(img.h)
	in := func(n float64) float64 { return 0.3 + rng.Float()*(n-0.6) }
	depth := 0.1 + 0.8*rng.Float()
	var bandEnd, otherEnd [2]float64 // centres of the band-side / inside-side end cells of the edge row
	var V [2]float64                 // centre displacement from one grid row to the next
	edgeRow := 0
	rows := float64(dimY - 1)
	switch band {
	case "bottom":
		edgeRow = dimY - 1
		oy := h - 0.3 - rng.Float()*h/3
		bandEnd, otherEnd = [2]float64{in(w), h + depth}, [2]float64{in(w), oy}
		if dimY > 1 {
			V = [2]float64{0, (oy - 0.3) / rows * (0.3 + 0.7*rng.Float())}
		}
	case "top":
		oy := 0.3 + rng.Float()*h/3
		bandEnd, otherEnd = [2]float64{in(w), -depth}, [2]float64{in(w), oy}
		if dimY > 1 {
			V = [2]float64{0, (h - 0.3 - oy) / rows * (0.3 + 0.7*rng.Float())}
		}
	case "left", "right":
		ya, yb := 0.3+rng.Float()*h/3, 0.3+rng.Float()*h/3
		if rng.Bool() {
			yb = ya // horizontal rows: pure axis-aligned scaling + translation
		}
		bx := -depth
		if band == "right" {
			bx = w + depth
		}
		bandEnd, otherEnd = [2]float64{bx, ya}, [2]float64{in(w), yb}
		if dimY > 1 {
			V = [2]float64{0, (h - 0.3 - math.Max(ya, yb)) / rows * (0.3 + 0.7*rng.Float())}
		}
	}
	first, last := bandEnd, otherEnd
	if pass == "lastpass" {
		first, last = otherEnd, bandEnd
	}
	U := [2]float64{(last[0] - first[0]) / float64(dimX-1), (last[1] - first[1]) / float64(dimX-1)}
	at := func(gx, gy float64) [2]float64 {
		a, b := gx-0.5, gy-(float64(edgeRow)+0.5)
		return [2]float64{first[0] + a*U[0] + b*V[0], first[1] + a*U[1] + b*V[1]}
	}
	if dimY == 1 { // any row direction that keeps the quadrilateral non-degenerate
		V = [2]float64{-U[1], U[0]}
		if V[0] == 0 && V[1] == 0 {
			return nil, false
		}
	}
	fx, fy := float64(dimX), float64(dimY)
	src := [4][2]float64{{0, 0}, {fx, 0}, {fx, fy}, {0, fy}}
	var dst [4][2]float64
	for i, p := range src {
		dst[i] = at(p[0], p[1])
	}
	hm, ok := c19Solve(src, dst)
	if !ok {
		return nil, false
	}
	return &c19Setup{dimX: dimX, dimY: dimY, src: src, dst: dst, family: "sheared", srcKind: "inset0", places: [4]string{"targeted", band, pass, ""}, h: hm}, true
}

func c19TargetedCase(r *fw.Rec, idx int) {
	rng := r.Rng
	band, pass := c19Bands[idx%4], c19Passes[(idx/4)%2]
	for rep := 0; rep < 4; rep++ {
		dimX := 2 + rng.Intn(40)
		dimY := 1 + rng.Intn(40)
		if rng.Intn(8) == 0 {
			dimX = []int{2, 21, 177}[rng.Intn(3)]
		}
		w, h := 6+rng.Intn(200), 6+rng.Intn(200)
		img := c19NewImg(rng, w, h, []string{"noise", "frame", "black"}[rng.Intn(3)])
		s, ok := c19TargetedSetup(rng, dimX, dimY, img, band, pass)
		if !ok {
			r.Tally("targeted_setup_failed")
			continue
		}
		exp := c19Expected(s.h, dimX, dimY, img)
		if exp.cls != c19Inside || exp.rowTally[pass+"_"+band] == 0 {
			r.Tally("targeted_setup_missed_band") // rounding of the construction; not asserted as targeted
		} else {
			r.Tally("samplegrid_targeted_" + pass + "_" + band)
		}
		if !c19SampleAndCheck(r, s, img, "targeted") {
			return
		}
		if idx < 8 && rep == 0 {
			r.Sample(map[string]interface{}{"kind": "sampling/targeted nudge", "band": band, "pass": pass, "dimX": dimX, "dimY": dimY, "image": fmt.Sprintf("%dx%d %s", w, h, img.kind), "to": c19Flat(s.src), "from": c19Flat(s.dst)})
		}
	}
}

// c19DirectCase calls GridSampler_checkAndNudgePoints on hand-built point lists.
func c19DirectCase(r *fw.Rec, idx int) {
	rng := r.Rng
	for rep := 0; rep < 200; rep++ {
		w, h := 1+rng.Intn(64), 1+rng.Intn(64)
		if rng.Intn(4) == 0 {
			w, h = 1+rng.Intn(600), 1+rng.Intn(600)
		}
		bm, err := gozxing.NewBitMatrix(w, h)
		if err != nil {
			panic(err)
		}
		fw_, fh := float64(w), float64(h)
		n := 1 + rng.Intn(12)
		pts := make([]float64, 2*n)
		for i := 0; i < n; i++ {
			pts[2*i] = rng.Float() * fw_
			pts[2*i+1] = rng.Float() * fh
			if pts[2*i] >= fw_ {
				pts[2*i] = 0
			}
			if pts[2*i+1] >= fh {
				pts[2*i+1] = 0
			}
		}
		band := c19Bands[rng.Intn(4)]
		pass := c19Passes[rng.Intn(2)]
		k := 1 + rng.Intn(3)
		if k > n {
			k = n
		}
		mode := rng.Intn(10) // 0..5 band, 6 corner band, 7 far, 8 dont-care, 9 nothing to nudge
		frac := rng.Float()
		if rng.Intn(5) == 0 {
			frac = 0 // exactly on the band's inner limit: -1.0 / w / h
		}
		bandVal := func(b string) float64 {
			switch b {
			case "left", "top":
				return -1 + frac*0.999 // [-1, 0)
			case "right":
				if frac == 0 {
					return fw_
				}
				return fw_ + frac*0.999
			default:
				if frac == 0 {
					return fh
				}
				return fh + frac*0.999
			}
		}
		coord := func(b string) int {
			if b == "left" || b == "right" {
				return 0
			}
			return 1
		}
		idxOf := func(j int) int { // j-th point counted from the pass's end
			if pass == "firstpass" {
				return j
			}
			return n - 1 - j
		}
		want := make([]int, 2*n) // demanded floor of every coordinate after the call
		for i, v := range pts {
			want[i] = int(math.Floor(v))
		}
		edge := func(b string) int {
			switch b {
			case "left", "top":
				return 0
			case "right":
				return w - 1
			}
			return h - 1
		}
		orig := append([]float64{}, pts...)
		data := func() map[string]interface{} {
			return map[string]interface{}{"image_w": w, "image_h": h, "points_before": orig, "points_after": pts}
		}
		switch {
		case mode <= 6:
			// corner mode: the same perpendicular band for all k points (a straight row
			// of points is monotone in both coordinates)
			b2 := c19Bands[(rng.Intn(2)+2*(1-coord(band)))%4]
			for j := 0; j < k; j++ {
				p := idxOf(j)
				pts[2*p+coord(band)] = bandVal(band)
				want[2*p+coord(band)] = edge(band)
				if mode == 6 { // also the perpendicular band: image corner
					pts[2*p+coord(b2)] = bandVal(b2)
					want[2*p+coord(b2)] = edge(b2)
				}
			}
			orig = append([]float64{}, pts...)
			err := common.GridSampler_checkAndNudgePoints(bm, pts)
			r.Evals(1)
			which := pass
			if k == n {
				which = "bothpasses" // every point is in the band: both passes walk the whole list
			}
			if err != nil {
				r.Violation("model-mismatch", "checkAndNudgePoints:error-for-point-within-one-pixel:"+which+"_"+band,
					fmt.Sprintf("checkAndNudgePoints on %dx%d: %d point(s) at the %s in the %s band -> %v", w, h, k, which, band, err), data())
				return
			}
			for i := range pts {
				got := math.Trunc(pts[i]) // the index SampleGrid derives from the point: int(v); differs from floor only in (-1,0) -> 0
				if got != float64(want[i]) {
					what := "inside-point-moved"
					if orig[i] != pts[i] || want[i] != int(math.Floor(orig[i])) {
						what = "nudged-to-wrong-index"
					}
					axis := "x"
					lim := w
					if i%2 == 1 {
						axis, lim = "y", h
					}
					fb := "inside" // band of the failing coordinate (corner mode puts points in two bands)
					switch {
					case orig[i] < 0 && i%2 == 0:
						fb = "left"
					case orig[i] < 0:
						fb = "top"
					case orig[i] >= float64(lim) && i%2 == 0:
						fb = "right"
					case orig[i] >= float64(lim):
						fb = "bottom"
					}
					r.Violation("model-mismatch", "checkAndNudgePoints:"+what+":"+which+"_"+fb,
						fmt.Sprintf("checkAndNudgePoints on %dx%d (%s, %s band, %d of %d points): point %d %s was %v, now %v; demanded pixel index %d (valid indices 0..%d)", w, h, which, band, k, n, i/2, axis, orig[i], pts[i], want[i], lim-1), data())
					return
				}
			}
			if mode == 6 {
				r.Tally("direct_corner_band_" + which)
				r.Tally("direct_corner_band_" + which + "_" + band + "_" + b2)
			} else {
				r.Tally("direct_" + which + "_" + band)
			}
		case mode == 7:
			var v float64
			c := coord(band)
			hiLim := fw_
			if c == 1 {
				hiLim = fh
			}
			switch band {
			case "left", "top":
				v = []float64{-2, -2.5, -3, -2 - 40*rng.Float(), -1e6}[rng.Intn(5)]
			default:
				v = hiLim + []float64{1, 1.5, 2, 1 + 40*rng.Float(), 1e6}[rng.Intn(5)]
			}
			p := idxOf(0)
			pts[2*p+c] = v
			orig = append([]float64{}, pts...)
			err := common.GridSampler_checkAndNudgePoints(bm, pts)
			r.Evals(1)
			if err == nil {
				r.Violation("model-mismatch", "checkAndNudgePoints:no-error-beyond-band:"+pass+"_"+band,
					fmt.Sprintf("checkAndNudgePoints on %dx%d: %s point has %s coordinate %v (more than one pixel outside), no error", w, h, pass, []string{"x", "y"}[c], v), data())
				return
			}
			if !c19NotFound(err) {
				r.Violation("model-mismatch", "checkAndNudgePoints:error-kind", fmt.Sprintf("error is %T, not NotFoundException", err), data())
				return
			}
			r.Tally("direct_beyond_band_notfound")
			r.Tally("direct_beyond_band_notfound_" + pass + "_" + band)
		case mode == 8:
			c := rng.Intn(2)
			p := idxOf(0)
			pts[2*p+c] = -1 - 0.001 - 0.998*rng.Float() // (-2,-1)
			orig = append([]float64{}, pts...)
			err := common.GridSampler_checkAndNudgePoints(bm, pts)
			r.Evals(1)
			if err != nil {
				if !c19NotFound(err) {
					r.Violation("model-mismatch", "checkAndNudgePoints:error-kind", fmt.Sprintf("error is %T, not NotFoundException", err), data())
					return
				}
				r.Tally("direct_dont_care_band_notfound")
			} else {
				lim := fw_
				if c == 1 {
					lim = fh
				}
				if !(math.Trunc(pts[2*p+c]) >= 0 && pts[2*p+c] < lim) {
					r.Violation("model-mismatch", "checkAndNudgePoints:accepted-point-left-outside", fmt.Sprintf("coordinate %v in (-2,-1) accepted but left at %v, outside the image", orig[2*p+c], pts[2*p+c]), data())
					return
				}
				r.Tally("direct_dont_care_band_nudged")
			}
		default:
			err := common.GridSampler_checkAndNudgePoints(bm, pts)
			r.Evals(1)
			if err != nil {
				r.Violation("model-mismatch", "checkAndNudgePoints:error-for-inside-points", fmt.Sprintf("all points inside %dx%d, error %v", w, h, err), data())
				return
			}
			for i := range pts {
				if math.Floor(pts[i]) != math.Floor(orig[i]) {
					r.Violation("model-mismatch", "checkAndNudgePoints:inside-point-moved:none", fmt.Sprintf("point %d moved from %v to %v", i/2, orig[i], pts[i]), data())
					return
				}
			}
			r.Tally("direct_all_inside_untouched")
		}
	}
	r.Nontrivial(fmt.Sprintf("direct/%d", idx))
}

// ---------------------------------------------------------------------------

func c19SelfTest() error {
	// affine anchor
	h, ok := c19Solve(c19Unit, [4][2]float64{{1, 1}, {3, 1}, {3, 5}, {1, 5}})
	if !ok {
		return fmt.Errorf("affine anchor: singular")
	}
	u, v, _ := h.applyF(0.5, 0.25)
	if u.Cmp(big.NewRat(2, 1)) != 0 || v.Cmp(big.NewRat(2, 1)) != 0 {
		return fmt.Errorf("affine anchor: (0.5,0.25) -> (%v,%v), want (2,2)", u, v)
	}
	// projective anchor: a projective map sends the intersection of the diagonals
	// to the intersection of the diagonals: unit square -> trapezoid (0,0),(4,0),(3,2),(1,2)
	h, ok = c19Solve(c19Unit, [4][2]float64{{0, 0}, {4, 0}, {3, 2}, {1, 2}})
	if !ok {
		return fmt.Errorf("projective anchor: singular")
	}
	u, v, _ = h.applyF(0.5, 0.5)
	if u.Cmp(big.NewRat(2, 1)) != 0 || v.Cmp(big.NewRat(4, 3)) != 0 {
		return fmt.Errorf("projective anchor: centre -> (%v,%v), want (2,4/3)", u, v)
	}
	// and the reverse direction through the same solver
	h, ok = c19Solve([4][2]float64{{0, 0}, {4, 0}, {3, 2}, {1, 2}}, c19Unit)
	if !ok {
		return fmt.Errorf("projective anchor (reverse): singular")
	}
	u, v, _ = h.apply(big.NewRat(2, 1), big.NewRat(4, 3))
	_ = v
	X, Y, W := h.apply(big.NewRat(2, 1), big.NewRat(4, 3))
	if X.Quo(X, W).Cmp(big.NewRat(1, 2)) != 0 || Y.Quo(Y, W).Cmp(big.NewRat(1, 2)) != 0 {
		return fmt.Errorf("projective anchor (reverse): wrong centre")
	}
	_ = u
	// degenerate input is refused
	if _, ok := c19Solve(c19Unit, [4][2]float64{{0, 0}, {1, 1}, {2, 2}, {5, 0}}); ok {
		return fmt.Errorf("collinear destination accepted")
	}
	// axis classification
	type tc struct {
		n, d int64
		ext  int
		idx  int
		cls  int
		skip bool
		band int
	}
	for _, c := range []tc{
		{5, 2, 10, 2, c19Inside, false, 0},
		{-1, 2, 10, 0, c19Inside, false, -1},
		{21, 2, 10, 9, c19Inside, false, 1},
		{-3, 2, 10, 0, c19DontCare, false, 0},
		{-5, 2, 10, 0, c19Far, true, 0},
		{-4, 2, 10, 0, c19Any, true, 0},
		{22, 2, 10, 0, c19Any, true, 0},
		{23, 2, 10, 0, c19Far, true, 0},
		{6, 2, 10, 3, c19Inside, true, 0},
		{0, 2, 10, 0, c19Inside, false, 0},
		{20, 2, 10, 9, c19Inside, false, 0},
		{-2, 2, 10, 0, c19DontCare, false, 0},
	} {
		idx, cls, skip, band := c19Axis(big.NewInt(c.n), big.NewInt(c.d), c.ext)
		if cls != c.cls || skip != c.skip || band != c.band || (!skip && cls == c19Inside && idx != c.idx) {
			return fmt.Errorf("c19Axis(%d/%d, n=%d) = idx %d cls %d skip %v band %d", c.n, c.d, c.ext, idx, cls, skip, band)
		}
	}
	return nil
}

func c19(c *fw.Ctx) {
	c.Rule("transform: seeded convex quadrilateral pairs of four families (axis-aligned rectangle, rotated rectangle, sheared parallelogram, perspective = every corner moved independently, trapezoid = keystone shapes on integer coordinates where exactly one of the sums x0-x1+x2-x3 / y0-y1+y2-y3 vanishes; both orientations, any starting corner, magnitudes 1..2000, grid-like sources), rejected unless every corner triangle holds >= 8% of the squared diameter; QuadrilateralToQuadrilateral / SquareToQuadrilateral / QuadrilateralToSquare checked through TransformPoints and TransformPointsXY on the 4 corners and 24 interior/exterior points against the projective map solved exactly (8x9 system, big.Rat), points with |denominator| < 0.2 of the corner denominators skipped. sampling: every grid dimension 1..177 (square) plus random non-square/special dimensions, images 2..307 px (noise, all-black, blocks, black/white frame), grid->image pairs of the four families fitted so that the hull of the cell centres lies inside the image (class inside) or overhangs each edge by <1 px, 1..2 px, >2 px (class overhang), or is an affine map aimed at one band x one pass (class targeted); class central: the defining square is small and in the middle of a 15..151 module grid (Aztec bull's eye / QR margin style) with a perspective destination and no restriction on the denominator - where it changes sign inside the grid only no-panic, no-read-outside-the-image and the error kind are demanded; expected bit = model pixel at floor of the exactly mapped cell centre (big.Int homogeneous arithmetic), bands [-1,0)/[n,n+1) -> index 0/n-1; every setup goes through SampleGrid, SampleGridWithTransform and a second SampleGridWithTransform call on the same transform object (which must still map four probe points to the same places); direct calls of checkAndNudgePoints with 1..3 leading/trailing points in each band. distinct = distinct (quadrilateral pair, dims, image size)")
	c.Assume("don't-care: coordinates in (-2,-1) may be nudged to 0 or refused (DESIGN C19); cells whose exact centre is within 1e-6*max(1,|coord|) of a pixel boundary are not asserted; calls with a cell within that margin of the -2 / n+1 limits have no demanded outcome; transforms whose denominator changes sign or falls below 15% of its maximum inside the grid rectangle are not generated (a straight grid row then maps to a straight monotone run of points, which is what makes checking only the row ends sufficient); checkAndNudgePoints is only charged for points at the ends of the list; after checkAndNudgePoints only the pixel index that SampleGrid derives from each coordinate (int(v), i.e. a value left in (-1,0) counts as index 0) is demanded, not its exact value; the hook counts BitMatrix.Get calls with out-of-range coordinates: such a call is charged as 'pixel outside the image read' although Get answers false without touching memory")
	nT := c.Pick(400, 6000)
	for i := 0; i < nT; i++ {
		i := i
		c.Run(fmt.Sprintf("transform/%d", i), func(r *fw.Rec) { c19TransformCase(r, i) })
	}
	nS := c.Pick(420, 4000)
	for i := 0; i < nS; i++ {
		i := i
		c.Run(fmt.Sprintf("sample/inside/%d", i), func(r *fw.Rec) { c19SamplingCase(r, i, false) })
	}
	nO := c.Pick(600, 8000)
	for i := 0; i < nO; i++ {
		i := i
		c.Run(fmt.Sprintf("sample/overhang/%d", i), func(r *fw.Rec) { c19SamplingCase(r, 177+i, true) })
	}
	for i := 0; i < c.Pick(60, 600); i++ {
		i := i
		c.Run(fmt.Sprintf("sample/vanishing-origin/%d", i), func(r *fw.Rec) { c19VanishingOriginCase(r, i) })
	}
	c.Floor("setups_vanishing_line_through_grid_origin", 100)
	nC := c.Pick(200, 3000)
	for i := 0; i < nC; i++ {
		i := i
		c.Run(fmt.Sprintf("sample/central/%d", i), func(r *fw.Rec) { c19CentralCase(r, i) })
	}
	nG := c.Pick(160, 1600)
	for i := 0; i < nG; i++ {
		i := i
		c.Run(fmt.Sprintf("sample/targeted/%d", i), func(r *fw.Rec) { c19TargetedCase(r, i) })
	}
	nD := c.Pick(64, 640)
	for i := 0; i < nD; i++ {
		i := i
		c.Run(fmt.Sprintf("nudge/direct/%d", i), func(r *fw.Rec) { c19DirectCase(r, i) })
	}
	c.Exhaustive("square grid dimensions 1..177 (one sampling set-up each, class inside)")
	for _, f := range c19Families {
		c.Floor("quad_pairs_"+f, 100)
		c.Floor("calls_matrix_compared_"+f, 50)
	}
	c.Floor("quads_with_exactly_one_vanishing_coordinate_sum", 200)
	c.Floor("corners_checked", 5000)
	c.Floor("transforms_after_a_call_sharing_corners", 2000)
	c.Floor("quad_pairs_in_small_units", 500)
	c.Floor("points_checked_interior", 5000)
	c.Floor("points_checked_exterior", 5000)
	c.Floor("cells_asserted", 500000)
	c.Floor("cells_asserted_in_band", 500)
	c.Floor("calls_matrix_compared_image_black", 100)
	c.Floor("calls_matrix_compared_image_noise", 100)
	c.Floor("calls_beyond_band_notfound", 100)
	c.Floor("calls_second_call_same_transform", 1000)
	c.Floor("calls_corners_in_the_opposite_winding", 1000)
	c.Floor("direct_beyond_band_notfound", 500)
	for _, p := range c19Passes {
		for _, b := range c19Bands {
			c.Floor("direct_"+p+"_"+b, 100)
			c.Floor("samplegrid_rows_"+p+"_"+b, 20)
		}
	}
	c.Floor("central_setups_denominator_changes_sign_inside_grid", 100)
	c.Floor("central_setups_denominator_constant_sign", 100)
	c.Floor("direct_corner_band_firstpass", 50)
	c.Floor("direct_corner_band_lastpass", 50)
	c.Floor("grid_dims_square_1", 1)
	c.Floor("grid_dims_square_2", 1)
	c.Floor("grid_dims_square_177", 1)
	c.Floor("grid_dims_nonsquare", 100)
}
