//go:build verif

package main

import (
	"fmt"
	"image"
	"time"

	"github.com/makiuchi-d/gozxing"
	"github.com/makiuchi-d/gozxing/oned"
	"verifharness/ref/onedref"
)

func render(mod []bool, q, scale, h int) *image.Gray {
	w := (2*q + len(mod)) * scale
	img := image.NewGray(image.Rect(0, 0, w, h))
	for i := range img.Pix {
		img.Pix[i] = 255
	}
	for y := 0; y < h; y++ {
		for i, m := range mod {
			if m {
				for k := 0; k < scale; k++ {
					img.Pix[y*img.Stride+(q+i)*scale+k] = 0
				}
			}
		}
	}
	return img
}

func main() {
	// 1. cost of writer round trip EAN-8 at height 1
	w := oned.NewEAN8Writer()
	rd := oned.NewEAN8Reader()
	t0 := time.Now()
	n := 200000
	bad := 0
	for i := 0; i < n; i++ {
		c := fmt.Sprintf("%07d", i*37%10000000)
		m, err := w.Encode(c, gozxing.BarcodeFormat_EAN_8, 0, 1, nil)
		if err != nil {
			panic(err)
		}
		bmp, _ := gozxing.NewBinaryBitmapFromImage(m)
		res, err := rd.Decode(bmp, nil)
		if err != nil || res.GetText()[:7] != c {
			bad++
		}
	}
	fmt.Println("ean8 roundtrip per item", time.Since(t0)/time.Duration(n), "bad", bad)
	// 2. cost of failing decode on 1px h1 image
	t0 = time.Now()
	got := 0
	for i := 0; i < n; i++ {
		c := fmt.Sprintf("%07d", i*37%10000000)
		ck := onedref.Mod10(c)
		s := c + string(rune('0'+(ck+1+i%9)%10))
		img := render(onedref.EAN8Pattern(s), 10, 1, 1)
		bmp, _ := gozxing.NewBinaryBitmapFromImage(img)
		_, err := rd.Decode(bmp, nil)
		if err == nil {
			got++
		}
	}
	fmt.Println("ean8 stale decode per item", time.Since(t0)/time.Duration(n), "read", got)
	// 3. UPC-E all symbols of a slice: stale reads
	ue := oned.NewUPCEReader()
	t0 = time.Now()
	total, other, same, okv := 0, 0, 0, 0
	shown := 0
	for v := 0; v < 1000000; v += 7 {
		d6 := fmt.Sprintf("%06d", v)
		for ns := 0; ns < 2; ns++ {
			for ck := 0; ck < 10; ck++ {
				s := string(rune('0'+ns)) + d6 + string(rune('0'+ck))
				valid := onedref.Mod10(onedref.UPCEExpand(d6, byte('0'+ns))) == ck
				img := render(onedref.UPCEPattern(s), 10, 1, 1)
				bmp, _ := gozxing.NewBinaryBitmapFromImage(img)
				res, err := ue.Decode(bmp, nil)
				total++
				if valid {
					if err == nil && res.GetText() == s {
						okv++
					}
					continue
				}
				if err == nil {
					if res.GetText() == s {
						same++
					} else {
						other++
						if shown < 8 {
							shown++
							fmt.Println("stale", s, "read as", res.GetText(), res.GetResultMetadata())
						}
					}
				}
			}
		}
	}
	fmt.Println("upce symbols", total, "valid read", okv, "stale read same", same, "stale read other", other, "per item", time.Since(t0)/time.Duration(total))
}
