// Package fw is the in-process half of the monitor framework: it runs inside
// the worker process that calls the library.  It provides deterministic case
// enumeration (sharding, resume, solo replay), the unbuffered begin-log that
// lets the orchestrator identify the case a dying worker was executing, the
// recover() boundary for "never panics", the CPU/heap budget watchdog for
// "returns in bounded time", and the tallies / distinct-case accounting that
// end up in the evidence file.
package fw

import (
	"bytes"
	"encoding/binary"
	"encoding/json"
	"flag"
	"fmt"
	"hash/fnv"
	"os"
	"os/exec"
	"runtime"
	"runtime/debug"
	"runtime/metrics"
	"sort"
	"strings"
	"sync"
	"sync/atomic"
	"syscall"
	"time"
)

// Driver is one property's workload + oracle.
type Driver func(c *Ctx)

var drivers = map[string]Driver{}

// Register is called from init() of each property file.
func Register(prop string, d Driver) { drivers[prop] = d }

var selfTests []struct {
	name string
	f    func() error
}

// RegisterSelfTest adds an anchor check of a reference implementation.
func RegisterSelfTest(name string, f func() error) {
	selfTests = append(selfTests, struct {
		name string
		f    func() error
	}{name, f})
}

// Ctx is handed to a driver.
type Ctx struct {
	Prop    string
	Tier    string // "quick" | "thorough"
	Seed    uint64
	Shard   int
	NShards int
	Only    string // run only this case id (replay / solo confirmation)
	After   string // skip every case up to and including this id (resume after a fatal)

	skipping bool
	counter  int64
	log      *os.File
	keys     *os.File

	mu       sync.Mutex
	tallies  map[string]int64
	maxes    map[string]int64
	floors   map[string]int64
	distinct map[uint64]struct{}
	samples  []interface{}
	evals    int64
	nviol    int64
	rule     string
	notes    []string
	exh      map[string]bool
	assume   []string

	// budget
	CPUBudget  time.Duration
	HeapBudget uint64
	curID      atomic.Value // string
	curStart   int64        // cpu ns at case start (atomic)
	active     int32
}

// Quick reports whether this is the quick tier.
func (c *Ctx) Quick() bool { return c.Tier != "thorough" }

// Pick returns q in the quick tier and t in the thorough tier.
func (c *Ctx) Pick(q, t int) int {
	if c.Quick() {
		return q
	}
	return t
}

// Rule sets the evidence "rule" text.
func (c *Ctx) Rule(s string) { c.rule = s }

// Assume records an assumption for the evidence file.
func (c *Ctx) Assume(s string) { c.assume = append(c.assume, s) }

// Note adds a free-text note to the evidence.
func (c *Ctx) Note(s string) { c.notes = append(c.notes, s) }

// Exhaustive marks a sub-space as completely enumerated by this run.
func (c *Ctx) Exhaustive(name string) { c.exh[name] = true }

// Floor demands that the merged tally `key` reaches min, otherwise the run is inconclusive.
func (c *Ctx) Floor(key string, min int64) { c.floors[key] = min }

// Rec is the per-case recorder.
type Rec struct {
	c   *Ctx
	ID  string
	Rng *Rand
}

func hash64(s string) uint64 {
	h := fnv.New64a()
	h.Write([]byte(s))
	return h.Sum64()
}

// Tally increments a counter that is summed over shards.
func (r *Rec) Tally(key string) { r.c.TallyN(key, 1) }

// TallyN adds n.
func (r *Rec) TallyN(key string, n int64) { r.c.TallyN(key, n) }

// TallyN adds n to a summed counter.
func (c *Ctx) TallyN(key string, n int64) {
	c.mu.Lock()
	c.tallies[key] += n
	c.mu.Unlock()
}

// Max records the maximum of a measured quantity.
func (r *Rec) Max(key string, v int64) {
	c := r.c
	c.mu.Lock()
	if old, ok := c.maxes[key]; !ok || v > old {
		c.maxes[key] = v
	}
	c.mu.Unlock()
}

// Evals adds n executions to the evaluation count (each Run counts 1 by itself).
func (r *Rec) Evals(n int64) { atomic.AddInt64(&r.c.evals, n) }

// Nontrivial records a non-trivial case by a key; distinct keys are counted.
func (r *Rec) Nontrivial(key string) {
	h := hash64(key)
	c := r.c
	c.mu.Lock()
	c.distinct[h] = struct{}{}
	c.mu.Unlock()
}

// NontrivialH records a pre-hashed key (for hot loops).
func (r *Rec) NontrivialH(h uint64) {
	c := r.c
	c.mu.Lock()
	c.distinct[h] = struct{}{}
	c.mu.Unlock()
}

// Sample stores up to a handful of literal cases for the evidence file.
func (r *Rec) Sample(v interface{}) {
	c := r.c
	c.mu.Lock()
	if len(c.samples) < 6 {
		c.samples = append(c.samples, v)
	}
	c.mu.Unlock()
}

// Violation reports a refuting observation.  sig is a stable signature of
// the failing input / call site / history used to match known findings.
func (r *Rec) Violation(kind, sig, detail string, data interface{}) {
	atomic.AddInt64(&r.c.nviol, 1)
	r.c.emit(map[string]interface{}{"t": "viol", "id": r.ID, "kind": kind, "sig": sig, "detail": trunc(detail, 4000), "data": data})
}

// Inconclusive reports that this case could not be decided.
func (r *Rec) Inconclusive(why string) {
	r.c.emit(map[string]interface{}{"t": "inconclusive", "id": r.ID, "detail": why})
}

func trunc(s string, n int) string {
	if len(s) > n {
		return s[:n] + "…"
	}
	return s
}

func (c *Ctx) emit(m map[string]interface{}) {
	b, err := json.Marshal(m)
	if err != nil {
		// a value JSON cannot carry (+Inf, NaN, a channel ...) somewhere in the free-form parts:
		// the record must not be lost, so those parts are written as text
		m2 := map[string]interface{}{}
		for k, v := range m {
			if _, e := json.Marshal(v); e != nil {
				m2[k] = fmt.Sprint(v)
			} else {
				m2[k] = v
			}
		}
		b, _ = json.Marshal(m2)
	}
	b = append(b, '\n')
	c.mu.Lock()
	c.log.Write(b)
	c.mu.Unlock()
}

// PanicOK can be set by a driver around calls where a panic is not charged
// (never used for library calls covered by a totality property).
type caseOpts struct{ panicIsViolation bool }

// Run executes one case: f is called only if the case belongs to this shard
// (and matches -only / is past -after).  Everything that touches the library
// must happen inside f.  All randomness must come from r.Rng, which is seeded
// from (seed, id) only, so that a case can be replayed alone.
func (c *Ctx) Run(id string, f func(r *Rec)) {
	n := c.counter
	c.counter++
	if c.Only != "" {
		if id != c.Only {
			return
		}
	} else {
		if int(n%int64(c.NShards)) != c.Shard {
			return
		}
		if c.skipping {
			if id == c.After {
				c.skipping = false
			}
			return
		}
	}
	r := &Rec{c: c, ID: id, Rng: NewRand(c.Seed*0x9E3779B97F4A7C15 ^ hash64(c.Prop+"/"+id))}
	// unbuffered begin record: survives any death of this process
	c.log.Write([]byte(`{"t":"begin","id":` + jsonStr(id) + "}\n"))
	c.curID.Store(id)
	atomic.StoreInt64(&c.curStart, cpuNow())
	atomic.StoreInt32(&c.active, 1)
	atomic.AddInt64(&c.evals, 1)
	func() {
		defer func() {
			if p := recover(); p != nil {
				if sp, ok := p.(SentinelPanic); ok {
					sp.Handle(r)
					return
				}
				stack := string(debug.Stack())
				r.Violation("panic", "panic:"+PanicSite(stack), fmt.Sprintf("panic: %v\n%s", p, trunc(stack, 3000)), nil)
			}
		}()
		f(r)
	}()
	atomic.StoreInt32(&c.active, 0)
}

// SentinelPanic lets hooks abort a call in a controlled way.
type SentinelPanic interface{ Handle(r *Rec) }

// Guard runs f and converts a panic into (msg, stack, true).  Used by drivers
// that want to attach case data to a panic violation.
func Guard(f func()) (msg string, stack string, panicked bool) {
	defer func() {
		if p := recover(); p != nil {
			if _, ok := p.(SentinelPanic); ok {
				panic(p)
			}
			msg = fmt.Sprint(p)
			stack = string(debug.Stack())
			panicked = true
		}
	}()
	f()
	return
}

// PanicSite extracts the innermost library frame "file.go:line func" from a stack dump.
func PanicSite(stack string) string {
	lines := strings.Split(stack, "\n")
	// after the "panic(" frame the next function/file pair is the site
	seenPanic := false
	for i := 0; i+1 < len(lines); i++ {
		l := lines[i]
		if strings.HasPrefix(l, "panic(") {
			seenPanic = true
			continue
		}
		if !seenPanic {
			continue
		}
		if strings.HasPrefix(l, "\t") || strings.HasPrefix(l, "runtime.") || strings.HasPrefix(l, "runtime/") {
			continue
		}
		if strings.Contains(l, "gozxing") {
			fn := l
			if j := strings.LastIndex(fn, "("); j > 0 {
				fn = fn[:j]
			}
			fn = strings.TrimPrefix(fn, "github.com/makiuchi-d/gozxing")
			return strings.TrimLeft(fn, "/.")
		}
	}
	return "unknown"
}

func jsonStr(s string) string { b, _ := json.Marshal(s); return string(b) }

func cpuNow() int64 {
	var ru syscall.Rusage
	syscall.Getrusage(syscall.RUSAGE_SELF, &ru)
	return ru.Utime.Nano() + ru.Stime.Nano()
}

func (c *Ctx) watchdog() {
	sample := []metrics.Sample{{Name: "/memory/classes/heap/objects:bytes"}}
	for {
		time.Sleep(100 * time.Millisecond)
		if atomic.LoadInt32(&c.active) == 0 {
			continue
		}
		id, _ := c.curID.Load().(string)
		used := cpuNow() - atomic.LoadInt64(&c.curStart)
		metrics.Read(sample)
		heap := sample[0].Value.Uint64()
		if time.Duration(used) <= c.CPUBudget && heap > c.HeapBudget {
			// the metric counts garbage the collector has not reached yet (on a loaded machine
			// it can lag far behind); only what survives a full collection counts as live
			runtime.GC()
			metrics.Read(sample)
			heap = sample[0].Value.Uint64()
		}
		if time.Duration(used) > c.CPUBudget || heap > c.HeapBudget {
			// re-check that the same case is still running
			id2, _ := c.curID.Load().(string)
			if id2 != id || atomic.LoadInt32(&c.active) == 0 {
				continue
			}
			c.log.Write([]byte(fmt.Sprintf(`{"t":"budget","id":%s,"cpu_s":%.1f,"heap_mb":%d}`+"\n", jsonStr(id), float64(used)/1e9, heap>>20)))
			os.Exit(3)
		}
	}
}

// Main is the worker entry point.
// Cold-start cases: functions that must be the first thing a fresh process does with the
// library (lazily built tables, caches and registries are still untouched).  RegisterCold names
// one; RunCold starts this worker binary again with VERIF_COLD=<name> and an argument, and
// returns what the function printed.  A crash of the child is reported in err with its stderr.
var coldFns = map[string]func(arg string) string{}

func RegisterCold(name string, f func(arg string) string) { coldFns[name] = f }

func RunCold(name, arg string) (string, error) {
	cmd := exec.Command(os.Args[0])
	cmd.Env = append(os.Environ(), "VERIF_COLD="+name, "VERIF_COLD_ARG="+arg)
	var stdout, stderr bytes.Buffer
	cmd.Stdout, cmd.Stderr = &stdout, &stderr
	if err := cmd.Run(); err != nil {
		return stdout.String(), fmt.Errorf("%v: %s", err, stderr.String())
	}
	return stdout.String(), nil
}

func Main() {
	if name := os.Getenv("VERIF_COLD"); name != "" {
		f, ok := coldFns[name]
		if !ok {
			fmt.Fprintln(os.Stderr, "unknown cold case", name)
			os.Exit(4)
		}
		fmt.Print(f(os.Getenv("VERIF_COLD_ARG")))
		return
	}
	prop := flag.String("prop", "", "property id")
	tier := flag.String("tier", "quick", "quick|thorough")
	seed := flag.Uint64("seed", 1, "VERIF_SEED")
	shard := flag.Int("shard", 0, "shard index")
	nshards := flag.Int("nshards", 1, "number of shards")
	only := flag.String("only", "", "run only this case id")
	after := flag.String("after", "", "resume after this case id")
	out := flag.String("out", "", "event log path (appended)")
	cpu := flag.Duration("cpu-budget", 20*time.Second, "per-case CPU budget")
	heap := flag.Uint64("heap-budget", 1536<<20, "per-case live heap budget")
	selftest := flag.Bool("selftest", false, "run the reference self-tests and exit")
	flag.Parse()
	if *selftest {
		bad := 0
		for _, st := range selfTests {
			if err := st.f(); err != nil {
				fmt.Printf("selftest %s: %v\n", st.name, err)
				bad++
			}
		}
		fmt.Printf("selftests: %d run, %d failed\n", len(selfTests), bad)
		if bad > 0 {
			os.Exit(5)
		}
		return
	}
	d, ok := drivers[*prop]
	if !ok {
		fmt.Fprintln(os.Stderr, "unknown property", *prop)
		os.Exit(4)
	}
	f, err := os.OpenFile(*out, os.O_CREATE|os.O_WRONLY|os.O_APPEND, 0644)
	if err != nil {
		fmt.Fprintln(os.Stderr, err)
		os.Exit(4)
	}
	c := &Ctx{Prop: *prop, Tier: *tier, Seed: *seed, Shard: *shard, NShards: *nshards, Only: *only, After: *after,
		skipping: *after != "", log: f,
		tallies: map[string]int64{}, maxes: map[string]int64{}, floors: map[string]int64{}, distinct: map[uint64]struct{}{}, exh: map[string]bool{},
		CPUBudget: *cpu, HeapBudget: *heap}
	c.curID.Store("")
	debug.SetMaxStack(256 << 20)
	// soft limit: the collector works harder as the heap approaches two thirds of the budget
	debug.SetMemoryLimit(int64(*heap) * 2 / 3)
	go c.watchdog()
	t0 := time.Now()
	d(c)
	// write distinct keys
	kf, err := os.Create(*out + ".keys")
	if err == nil {
		keys := make([]uint64, 0, len(c.distinct))
		for k := range c.distinct {
			keys = append(keys, k)
		}
		sort.Slice(keys, func(i, j int) bool { return keys[i] < keys[j] })
		buf := make([]byte, 8*len(keys))
		for i, k := range keys {
			binary.LittleEndian.PutUint64(buf[8*i:], k)
		}
		kf.Write(buf)
		kf.Close()
	}
	exh := []string{}
	for k := range c.exh {
		exh = append(exh, k)
	}
	sort.Strings(exh)
	c.emit(map[string]interface{}{"t": "done", "evals": c.evals, "tallies": c.tallies, "maxes": c.maxes, "floors": c.floors,
		"samples": c.samples, "rule": c.rule, "notes": c.notes, "exhaustive": exh, "assumptions": c.assume,
		"violations": c.nviol, "wall_s": time.Since(t0).Seconds(), "gomaxprocs": runtime.GOMAXPROCS(0), "cases_enumerated": c.counter})
	f.Close()
}
