// Package rs is a naive Reed-Solomon reference: generator polynomial as an
// explicit product, parity by polynomial long division, syndromes by direct
// evaluation.  It has no decoder: the monitors only need "is this a code
// word" and "what is the parity of this data".
package rs

import "verifharness/ref/gf"

// Generator returns the coefficients (highest degree first, monic) of
// prod_{i=0..r-1} (x - alpha^(base+i)).
func Generator(f gf.Field, r int) []int {
	g := []int{1}
	for i := 0; i < r; i++ {
		root := f.Pow(f.Base + i)
		ng := make([]int, len(g)+1)
		for j, c := range g {
			ng[j] ^= c                // c * x
			ng[j+1] ^= f.Mul(c, root) // c * root  (minus == plus)
		}
		g = ng
	}
	return g
}

// Parity returns the r parity symbols of data (systematic encoding:
// remainder of data(x)*x^r divided by the generator).
func Parity(f gf.Field, data []int, r int) []int {
	g := Generator(f, r)
	rem := make([]int, len(data)+r)
	copy(rem, data)
	for i := 0; i < len(data); i++ {
		c := rem[i]
		if c == 0 {
			continue
		}
		for j := 0; j < len(g); j++ {
			rem[i+j] ^= f.Mul(g[j], c)
		}
	}
	return rem[len(data):]
}

// Syndromes evaluates the word (highest degree first) at alpha^(base+i), i<r.
func Syndromes(f gf.Field, word []int, r int) []int {
	s := make([]int, r)
	for i := 0; i < r; i++ {
		x := f.Pow(f.Base + i)
		acc := 0
		for _, c := range word {
			acc = f.Mul(acc, x) ^ c
		}
		s[i] = acc
	}
	return s
}

// IsCodeword reports whether all r syndromes vanish.
func IsCodeword(f gf.Field, word []int, r int) bool {
	for _, s := range Syndromes(f, word, r) {
		if s != 0 {
			return false
		}
	}
	return true
}

// ParityBytes is Parity for byte-sized fields.
func ParityBytes(f gf.Field, data []byte, r int) []byte {
	d := make([]int, len(data))
	for i, b := range data {
		d[i] = int(b)
	}
	p := Parity(f, d, r)
	out := make([]byte, r)
	for i, v := range p {
		out[i] = byte(v)
	}
	return out
}
