//go:build verif

package main

import (
	"strings"

	dmenc "github.com/makiuchi-d/gozxing/datamatrix/encoder"
	"github.com/makiuchi-d/gozxing/verifhook"

	"verifharness/fw"

	"verifharness/ref/dmref"
)

// shared helpers of the Data Matrix drivers

func dmShape(shape int) dmenc.SymbolShapeHint {
	return []dmenc.SymbolShapeHint{dmenc.SymbolShapeHint_FORCE_NONE, dmenc.SymbolShapeHint_FORCE_SQUARE, dmenc.SymbolShapeHint_FORCE_RECTANGLE}[shape]
}

var dmShapeName = []string{"none", "square", "rectangle"}

func shapeOf(s dmref.Symbol) int {
	if s.Rect {
		return dmref.ShapeRect
	}
	return dmref.ShapeSquare
}

func shapeHint(s dmref.Symbol) dmenc.SymbolShapeHint {
	if s.Rect {
		return dmenc.SymbolShapeHint_FORCE_RECTANGLE
	}
	return dmenc.SymbolShapeHint_FORCE_SQUARE
}

func dmLibSymbol(s dmref.Symbol) *dmenc.SymbolInfo {
	for _, si := range dmenc.VerifSymbols() {
		if si.GetSymbolHeight() == s.Rows && si.GetSymbolWidth() == s.Cols {
			return si
		}
	}
	return nil
}

// dmGuard runs f with the dispatch-step limit armed; returns whether the limit was exceeded.
func dmGuard(limit int, f func()) (exceeded bool, steps int, trace string) {
	var modes []byte
	verifhook.DMTrace = func(pos, mode, cw int) {
		if len(modes) < 400 {
			modes = append(modes, "ACTXEB"[mode%6])
		}
	}
	verifhook.SetDMStepLimit(limit)
	defer func() {
		steps = verifhook.DMSteps()
		verifhook.SetDMStepLimit(0)
		verifhook.DMTrace = nil
		trace = string(modes)
		if p := recover(); p != nil {
			if _, ok := p.(verifhook.DMStepLimitExceeded); ok {
				exceeded = true
				return
			}
			panic(p)
		}
	}()
	f()
	return
}

// collapse a mode trace "AAACCCAB" to "ACAB"
func collapseTrace(t string) string {
	var sb strings.Builder
	for i := 0; i < len(t); i++ {
		if i == 0 || t[i] != t[i-1] {
			sb.WriteByte(t[i])
		}
	}
	s := sb.String()
	if len(s) > 12 {
		s = s[len(s)-12:]
	}
	return s
}

// traceTail: the last two modes of the collapsed trace (signature material)
func traceTail(t string) string {
	s := collapseTrace(t)
	if len(s) > 2 {
		s = s[len(s)-2:]
	}
	return s
}

// the seven character classes of the design
var dmClasses = []string{
	"0123456789",
	"ABCDEFGHIJKLMNOPQRSTUVWXYZ 0123456789",
	"abcdefghijklmnopqrstuvwxyz 0123456789",
	"*>\rABCXYZ 019",
	"!\"#$%&'()+,-./:;<=?@[\\]^",
	"\x00\x01\x05\x09\x0a\x1b\x1d\x1e\x1f\x7f_`{|}~",
	"",
}

func dmRandomText(rng *fw.Rand, maxLen int) string {
	n := 1 + rng.Intn(maxLen)
	var rs []rune
	for len(rs) < n {
		cl := rng.Intn(7)
		run := 1 + rng.Intn(7)
		for j := 0; j < run && len(rs) < n; j++ {
			if cl == 6 {
				rs = append(rs, rune(0x80+rng.Intn(0x80)))
			} else {
				a := dmClasses[cl]
				rs = append(rs, rune(a[rng.Intn(len(a))]))
			}
		}
	}
	return string(rs)
}
