//go:build verif

package main

import (
	"fmt"
	"strings"

	"github.com/makiuchi-d/gozxing"
	dmdec "github.com/makiuchi-d/gozxing/datamatrix/decoder"
	dmenc "github.com/makiuchi-d/gozxing/datamatrix/encoder"

	"verifharness/fw"
	"verifharness/ref/dmref"
)

// C02: Data Matrix write -> read identity, termination, refusal of what cannot fit.

func init() { fw.Register("C02", c02) }

type dmOpts struct {
	text     string // Go string; Latin-1 code points (possibly with runes > 0xFF for the refusal class)
	shape    int
	min, max *[2]int // rows, cols
}

func (o dmOpts) hints() map[gozxing.EncodeHintType]interface{} {
	h := map[gozxing.EncodeHintType]interface{}{}
	if o.shape != 0 {
		h[gozxing.EncodeHintType_DATA_MATRIX_SHAPE] = dmShape(o.shape)
	}
	if o.min != nil {
		d, _ := gozxing.NewDimension(o.min[1], o.min[0])
		h[gozxing.EncodeHintType_MIN_SIZE] = d
	}
	if o.max != nil {
		d, _ := gozxing.NewDimension(o.max[1], o.max[0])
		h[gozxing.EncodeHintType_MAX_SIZE] = d
	}
	return h
}

func (o dmOpts) info() map[string]interface{} {
	return map[string]interface{}{"text": o.text, "text_hex": fmt.Sprintf("%x", latin1Bytes(o.text)), "shape": dmShapeName[o.shape], "min_rows_cols": o.min, "max_rows_cols": o.max}
}

// largest data capacity among the symbols the hints admit (0 if none)
func dmMaxCapacity(o dmOpts) int {
	best := 0
	for _, s := range dmref.Symbols() {
		if o.shape == 1 && s.Rect || o.shape == 2 && !s.Rect {
			continue
		}
		if o.min != nil && (s.Rows < o.min[0] || s.Cols < o.min[1]) {
			continue
		}
		if o.max != nil && (s.Rows > o.max[0] || s.Cols > o.max[1]) {
			continue
		}
		if s.DataCW > best {
			best = s.DataCW
		}
	}
	return best
}

func isDigitB(b byte) bool { return b >= '0' && b <= '9' }

// plain-ASCII encodation cost in codewords (upper bound on what a sane encoder needs)
func dmASCIICost(b []byte) int {
	n := 0
	for i := 0; i < len(b); i++ {
		switch {
		case b[i] >= 0x80:
			n += 2
		case isDigitB(b[i]) && i+1 < len(b) && isDigitB(b[i+1]):
			n++
			i++
		default:
			n++
		}
	}
	return n
}

// per-character lower bound on the codewords any ECC 200 encodation needs (times 12 to stay integral)
func dmLowerBound12(b []byte) int {
	n := 0
	for _, c := range b {
		switch {
		case isDigitB(c):
			n += 6 // 1/2
		case c == ' ' || (c >= 'A' && c <= 'Z') || (c >= 'a' && c <= 'z') || c == '\r' || c == '*' || c == '>':
			n += 8 // 2/3 (C40 / Text / X12 native)
		case c >= 0x20 && c <= 0x5E:
			n += 9 // 3/4 (EDIFACT)
		default:
			n += 12
		}
	}
	return n
}

func isCapacityError(err error) bool {
	return err != nil && strings.Contains(fmt.Sprintf("%v", err), "Can't find a symbol arrangement")
}

// c02One runs the full oracle on one (text, hints).
func c02One(r *fw.Rec, o dmOpts, class string) bool {
	info := o.info()
	info["class"] = class
	latin := isLatin1(o.text)
	raw := latin1Bytes(o.text)
	maxCap := dmMaxCapacity(o)
	macro := latin && len(raw) >= 9 && raw[0] == '[' && strings.HasPrefix(string(raw), "[)>\x1e0") && strings.HasSuffix(string(raw), "\x1e\x04")
	mustFit := latin && maxCap > 0 && dmASCIICost(raw)*2 <= maxCap
	mustFail := !latin || maxCap == 0 || (!macro && dmLowerBound12(raw) > 12*maxCap)
	limit := 8*len(o.text) + 32

	// codeword level
	var hl []byte
	var herr error
	var minD, maxD *gozxing.Dimension
	if o.min != nil {
		minD, _ = gozxing.NewDimension(o.min[1], o.min[0])
	}
	if o.max != nil {
		maxD, _ = gozxing.NewDimension(o.max[1], o.max[0])
	}
	exceeded, steps, trace := dmGuard(limit, func() { hl, herr = dmenc.EncodeHighLevel(o.text, dmShape(o.shape), minD, maxD) })
	r.Evals(1)
	info["mode_trace"] = collapseTrace(trace)
	if exceeded {
		r.Violation("no-progress", "dm.encode:dispatch-loop-makes-no-progress:"+traceTail(trace), fmt.Sprintf("EncodeHighLevel exceeded %d mode-dispatch steps for a %d-character message (mode trace tail …%s): no progress", limit, len(o.text), collapseTrace(trace)), info)
		return false
	}
	if len(o.text) > 0 {
		r.Max("max_dispatch_steps_per_100_chars", int64(steps*100/len(o.text)))
	}
	// the writer
	var bm *gozxing.BitMatrix
	var werr error
	exceeded, _, _ = dmGuard(limit, func() {
		bm, werr = instDMWriter().Encode(o.text, gozxing.BarcodeFormat_DATA_MATRIX, 0, 0, o.hints())
	})
	if exceeded {
		r.Violation("no-progress", "dm.encode:dispatch-loop-makes-no-progress:writer", "DataMatrixWriter.Encode exceeded the dispatch-step limit", info)
		return false
	}
	if (bm == nil) == (werr == nil) {
		r.Violation("totality", "dm.writer:result-xor-error", fmt.Sprintf("writer returned matrix=%v err=%v", bm != nil, werr), info)
		return false
	}
	if (herr == nil) != (werr == nil) {
		r.Violation("model-mismatch", "dm.writer:disagrees-with-high-level-encoder", fmt.Sprintf("EncodeHighLevel err=%v but writer err=%v", herr, werr), info)
		return false
	}
	if werr != nil {
		if mustFit {
			r.Violation("roundtrip", "dm.encode:refused-fitting-text:"+class, fmt.Sprintf("text of %d characters (ASCII cost %d codewords, largest admissible symbol %d) refused: %v", len(raw), dmASCIICost(raw), maxCap, werr), info)
			return false
		}
		if latin && maxCap > 0 && !isCapacityError(werr) {
			r.Violation("roundtrip", "dm.encode:non-capacity-error-for-latin1-text:"+traceTail(trace), fmt.Sprintf("Latin-1 text refused with an error other than the capacity error: %v", werr), info)
			return false
		}
		if mustFail {
			r.Tally("refused_must_fail")
		} else {
			r.Tally("refused_between_bounds_dont_care")
		}
		return true
	}
	if mustFail {
		why := "exceeds the largest admissible symbol"
		if !latin {
			why = "is not representable in ISO-8859-1"
		}
		detail := fmt.Sprintf("writer returned a %dx%d symbol for text that %s", bm.GetHeight(), bm.GetWidth(), why)
		if res, derr := dmdec.NewDecoder().Decode(bm); derr == nil {
			detail += fmt.Sprintf("; it decodes to %q", trunc(res.GetText(), 60))
		}
		sig := "dm.encode:symbol-for-unfittable-text"
		if !latin {
			sig = "dm.encode:symbol-for-non-latin1-text"
		}
		r.Violation("roundtrip", sig, detail, info)
		return false
	}
	// (1) codewords: independent decoder and library parser
	want := o.text
	if refText, rerr := dmref.DecodeCodewords(hl); rerr != nil {
		r.Tally("reference_decoder_rejects_stream")
		info["reference_decoder_error"] = rerr.Error()
		r.Violation("roundtrip", "dm.codewords:reference-decoder-rejects-stream:"+traceTail(trace), fmt.Sprintf("the codeword stream %v is rejected by the independent ISO 16022 decoder: %v", clipB(hl), rerr), info)
		return false
	} else if refText != want {
		r.Violation("roundtrip", "dm.codewords:other-text-by-reference-decoder:"+traceTail(trace), fmt.Sprintf("codewords %v decode (independent ISO 16022 decoder) to %q, written %q", clipB(hl), trunc(refText, 80), trunc(want, 80)), info)
		return false
	}
	if res, perr := dmdec.DecodedBitStreamParser_decode(hl); perr != nil {
		r.Violation("roundtrip", "dm.codewords:library-parser-error:"+traceTail(trace), fmt.Sprintf("library parser rejects the encoder's codewords %v: %v", clipB(hl), perr), info)
		return false
	} else if res.GetText() != want {
		r.Violation("roundtrip", "dm.codewords:other-text-by-library-parser:"+traceTail(trace), fmt.Sprintf("library parser reads %q from the encoder's codewords, written %q", trunc(res.GetText(), 80), trunc(want, 80)), info)
		return false
	}
	// symbol size must be able to hold the codewords and be admitted by the hints
	if s, ok := dmref.BySize(bm.GetHeight(), bm.GetWidth()); !ok {
		r.Violation("model-mismatch", "dm.writer:non-standard-size", fmt.Sprintf("writer output %dx%d is not an ECC 200 size", bm.GetHeight(), bm.GetWidth()), info)
		return false
	} else {
		if len(hl) != s.DataCW {
			r.Violation("model-mismatch", "dm.writer:codeword-count-vs-symbol", fmt.Sprintf("%d data codewords in a %dx%d symbol (capacity %d)", len(hl), s.Rows, s.Cols, s.DataCW), info)
			return false
		}
		if (o.shape == 1 && s.Rect) || (o.shape == 2 && !s.Rect) || (o.min != nil && (s.Rows < o.min[0] || s.Cols < o.min[1])) || (o.max != nil && (s.Rows > o.max[0] || s.Cols > o.max[1])) {
			r.Violation("model-mismatch", "dm.writer:hints-not-honoured", fmt.Sprintf("writer output %dx%d violates the shape/min/max hints", s.Rows, s.Cols), info)
			return false
		}
		r.Tally(fmt.Sprintf("size_%03dx%03d", s.Rows, s.Cols))
	}
	// (2) matrix path
	res, derr := dmdec.NewDecoder().Decode(bm)
	if derr != nil {
		r.Violation("roundtrip", "dm.matrix-path:decode-error", fmt.Sprintf("decoder rejected the writer's own %dx%d symbol: %v", bm.GetHeight(), bm.GetWidth(), derr), info)
		return false
	}
	if res.GetText() != want {
		r.Violation("roundtrip", "dm.matrix-path:other-text", fmt.Sprintf("matrix path returned %q, written %q", trunc(res.GetText(), 80), trunc(want, 80)), info)
		return false
	}
	// (3) image path (pure barcode) at a random scale, sampled
	if r.Rng.Intn(4) == 0 {
		k := 1 + r.Rng.Intn(4)
		if bm.GetWidth() <= 26 && r.Rng.Intn(6) == 0 {
			// poster sizes: one module spans two or more 32-bit words of the image rows
			k = []int{33, 34, 47, 64, 65, 66, 90}[r.Rng.Intn(7)]
			r.Tally("image_path_modules_of_33_pixels_or_more")
		}
		w, h := bm.GetWidth()*k+r.Rng.Intn(9), bm.GetHeight()*k+r.Rng.Intn(9)
		switch r.Rng.Intn(6) {
		case 0: // narrower than the symbol, but tall enough: the bare symbol must come back, readable
			w = r.Rng.Intn(bm.GetWidth())
		case 1: // lower than the symbol, but wide enough
			h = r.Rng.Intn(bm.GetHeight())
		}
		img, ierr := instDMWriter().Encode(o.text, gozxing.BarcodeFormat_DATA_MATRIX, w, h, o.hints())
		if ierr != nil {
			r.Violation("roundtrip", "dm.writer:error-at-larger-size", fmt.Sprintf("writer failed at %dx%d after succeeding at 0x0: %v", w, h, ierr), info)
			return false
		}
		bmp, _ := gozxing.NewBinaryBitmapFromImage(img)
		rr, rerr := instDMReader().Decode(bmp, map[gozxing.DecodeHintType]interface{}{gozxing.DecodeHintType_PURE_BARCODE: true})
		if rerr != nil {
			r.Violation("roundtrip", "dm.image-path:decode-error", fmt.Sprintf("pure-barcode reader rejected the writer's %dx%d image (scale %d): %v", w, h, k, rerr), info)
			return false
		}
		if rr.GetText() != want || rr.GetBarcodeFormat() != gozxing.BarcodeFormat_DATA_MATRIX {
			r.Violation("roundtrip", "dm.image-path:other-text", fmt.Sprintf("image path returned %q (%v), written %q", trunc(rr.GetText(), 80), rr.GetBarcodeFormat(), trunc(want, 80)), info)
			return false
		}
		r.Tally("image_path_ok")
	}
	r.Tally("roundtrip_ok")
	r.Tally("class_" + class)
	for _, m := range collapseTrace(trace) {
		r.Tally("mode_entered_" + string(m))
	}
	r.Nontrivial(fmt.Sprintf("%s|%d|%v|%v", o.text, o.shape, o.min, o.max))
	return true
}

func clipB(b []byte) []byte {
	if len(b) > 48 {
		return b[:48]
	}
	return b
}

func dmRandomHints(rng *fw.Rand) (shape int, min, max *[2]int) {
	if rng.Intn(3) == 0 {
		shape = 1 + rng.Intn(2)
	}
	syms := dmref.Symbols()
	if rng.Intn(5) == 0 {
		s := syms[rng.Intn(len(syms))]
		min = &[2]int{s.Rows, s.Cols}
	}
	if rng.Intn(5) == 0 {
		s := syms[rng.Intn(len(syms))]
		max = &[2]int{s.Rows, s.Cols}
	}
	return
}

var dmExhAlphabet = []rune{'1', '7', 'A', 'Z', 'a', 'z', ' ', '*', '>', '\r', '!', '^', 0x05, 0xE9}

func c02(c *fw.Ctx) {
	c.Rule("run-structured random Latin-1 strings over seven character classes (digits, C40-native, Text-native, X12 separators, EDIFACT punctuation, controls, 0x80-0xFF; run lengths 1-7), all strings of length <= 3 (thorough: <= 5) over a 14-symbol alphabet with one representative of every class, exact-fill families (Base-256 runs of every length, C40/Text/X12 triplets with 1-2 left-over characters, C40/Text runs followed by every short tail of shifted and upper-shifted characters), macro 05/06 envelopes and near misses (other format numbers, header or trailer alone, a damaged separator, text behind the trailer), digit strings reaching each of the 30 sizes, shape and min/max hints; per case: dispatch-step bound (hook), writer result xor error, refusal rules from independent capacity bounds, codewords decoded by the independent ISO 16022 decoder and by the library parser, matrix path, sampled image path (1..4 pixels per module, small symbols also at 33..90); distinct = distinct (text, hints)")
	c.Assume("must-succeed when the plain-ASCII cost is at most half the largest admissible capacity; must-fail when a per-character lower bound exceeds it or a rune > U+00FF occurs; between the bounds either outcome is accepted (DESIGN C02)")
	// exhaustive short strings
	maxLen := c.Pick(3, 5)
	for n := 1; n <= maxLen; n++ {
		total := 1
		for i := 0; i < n; i++ {
			total *= len(dmExhAlphabet)
		}
		chunk := 500
		for lo := 0; lo < total; lo += chunk {
			n, lo := n, lo
			c.Run(fmt.Sprintf("exh/%d/%d", n, lo), func(r *fw.Rec) {
				for idx := lo; idx < lo+chunk && idx < total; idx++ {
					rs := make([]rune, n)
					v := idx
					for i := n - 1; i >= 0; i-- {
						rs[i] = dmExhAlphabet[v%len(dmExhAlphabet)]
						v /= len(dmExhAlphabet)
					}
					if !c02One(r, dmOpts{text: string(rs)}, "exhaustive-short") {
						return
					}
				}
			})
		}
	}
	c.Exhaustive(fmt.Sprintf("all strings of length 1..%d over the 14-symbol class alphabet", maxLen))
	// random class-run strings
	nrand := c.Pick(3000, 120000)
	for i := 0; i < nrand; i++ {
		i := i
		c.Run(fmt.Sprintf("rand/%d", i), func(r *fw.Rec) {
			rng := r.Rng
			for rep := 0; rep < 12; rep++ {
				maxL := 40
				if rng.Intn(8) == 0 {
					maxL = 400
				}
				if rng.Intn(60) == 0 {
					maxL = 2400
				}
				o := dmOpts{text: dmRandomText(rng, maxL)}
				o.shape, o.min, o.max = dmRandomHints(rng)
				if !c02One(r, o, "class-runs") {
					return
				}
				if i == 0 && rep < 3 {
					r.Sample(o.info())
				}
			}
		})
	}
	// exact-fill: Base-256 runs of every length 1..1556
	for lo := 1; lo <= 1556; lo += 20 {
		lo := lo
		c.Run(fmt.Sprintf("b256/%d", lo), func(r *fw.Rec) {
			rng := r.Rng
			for n := lo; n < lo+20 && n <= 1556; n++ {
				rs := make([]rune, n)
				for i := range rs {
					rs[i] = rune(0x80 + rng.Intn(0x80))
				}
				o := dmOpts{text: string(rs)}
				if !c02One(r, o, "base256-run") {
					return
				}
				// with a prefix/suffix in another mode
				o2 := dmOpts{text: "AB" + string(rs[:minInt(n, 700)]) + "12"}
				if !c02One(r, o2, "base256-run-embedded") {
					return
				}
			}
		})
	}
	c.Exhaustive("Base-256 runs (0x80-0xFF bytes) of every length 1..1556")
	// C40 / Text end of data with multi-value characters: k native characters, then every tail of
	// up to 4 (thorough: 6) characters over one representative per value count (1 value: native
	// letter, digit; 2: the other letter case, '!'; 3: 0xEC, 0xA0 = upper shift + basic; 4: 0xE0 =
	// upper shift + shift 3, 0x85 = upper shift + shift 1).  The encoder gives characters back at the end so that no single
	// value is left over; how many depends on k mod 3, on the tail and on the symbol boundary.
	tailLen := c.Pick(4, 6)
	for fam := 0; fam < 2; fam++ {
		for k := 0; k <= 26; k++ {
			for first := 0; first < 64; first++ { // one case per first two tail characters: a case stays far below the per-case CPU budget
				fam, k, first := fam, k, first
				c.Run(fmt.Sprintf("eod-shift/%d/%d/%d", fam, k, first), func(r *fw.Rec) {
					native, other := byte('a'), byte('A')
					class := "text-eod-shift-tails"
					if fam == 0 {
						native, other = 'A', 'a'
						class = "c40-eod-shift-tails"
					}
					alpha := []rune{rune(native), '1', rune(other), '!', 0xEC, 0xA0, 0xE0, 0x85}
					body := make([]rune, k)
					for i := range body {
						body[i] = rune(native) + rune(r.Rng.Intn(26))
					}
					tailLen := tailLen
					if tailLen > 5 && k > 11 {
						tailLen = 5 // the longest tails for bodies of 0..11 characters (every k mod 3, the first symbol boundaries)
					}
					tail := make([]rune, 0, tailLen)
					tail = append(tail, alpha[first/8])
					if !c02One(r, dmOpts{text: string(body) + string(tail)}, class) {
						return
					}
					tail = append(tail, alpha[first%8])
					var rec func() bool
					rec = func() bool {
						if len(tail) > 0 {
							if !c02One(r, dmOpts{text: string(body) + string(tail)}, class) {
								return false
							}
						}
						if len(tail) == tailLen {
							return true
						}
						for _, a := range alpha {
							tail = append(tail, a)
							if !rec() {
								return false
							}
							tail = tail[:len(tail)-1]
						}
						return true
					}
					rec()
				})
			}
		}
	}
	c.Exhaustive(fmt.Sprintf("C40 and Text runs of 0..26 native characters followed by every tail of up to %d characters (thorough: 6 after 0..11 native characters, 5 after 12..26) over {1, 2, 3, 4-value characters}", tailLen))
	// C40 / Text / X12 / EDIFACT end-of-data families: k native characters + tail
	tails := []string{"", "1", "12", "a", "A", "\xe9", "A\xe9", "\xe9\xe9", "*", " ", "!", "\x05"}
	for fam, alpha := range []string{dmClasses[1][:27], dmClasses[2][:27], "*>\rABC019 ", "!\"#$%&'()+,-./:;<=?@[\\]^ AB12"} {
		for k := 1; k <= c.Pick(60, 400); k++ {
			fam, alpha, k := fam, alpha, k
			c.Run(fmt.Sprintf("eod/%d/%d", fam, k), func(r *fw.Rec) {
				rng := r.Rng
				body := make([]rune, k)
				for i := range body {
					body[i] = rune(alpha[rng.Intn(len(alpha))])
				}
				for _, t := range tails {
					trs := make([]rune, 0, len(t))
					for i := 0; i < len(t); i++ {
						trs = append(trs, rune(t[i]))
					}
					o := dmOpts{text: string(body) + string(trs)}
					if !c02One(r, o, []string{"c40-eod", "text-eod", "x12-eod", "edifact-eod"}[fam]) {
						return
					}
					// the same end of data inside a macro envelope (the trailer is not part of the
					// characters that remain to be encoded)
					if k%2 == 0 || fam == 3 {
						om := dmOpts{text: []string{"[)>\x1e05\x1d", "[)>\x1e06\x1d"}[k%2] + o.text + "\x1e\x04"}
						if !c02One(r, om, []string{"c40-eod-in-macro", "text-eod-in-macro", "x12-eod-in-macro", "edifact-eod-in-macro"}[fam]) {
							return
						}
					}
				}
			})
		}
	}
	// macro envelopes
	nm := c.Pick(60, 1500)
	for i := 0; i < nm; i++ {
		i := i
		c.Run(fmt.Sprintf("macro/%d", i), func(r *fw.Rec) {
			rng := r.Rng
			hdr := []string{"[)>\x1e05\x1d", "[)>\x1e06\x1d"}[rng.Intn(2)]
			o := dmOpts{text: latin1String(hdr + latin1Raw(dmRandomText(rng, 60)) + "\x1e\x04")}
			if rng.Intn(6) == 0 {
				o.text = latin1String(hdr + "\x1e\x04") // empty body
			}
			c02One(r, o, "macro")
			// near misses: an ISO 15434 envelope with another format number, a header without the
			// trailer, a trailer without the header, a damaged separator - plain text, all of them
			body := latin1Raw(dmRandomText(rng, 30))
			var near string
			switch rng.Intn(6) {
			case 0, 1:
				near = fmt.Sprintf("[)>\x1e%02d\x1d", []int{0, 1, 2, 3, 4, 7, 8, 9, 10, 12, 15, 50, 55, 60, 99}[rng.Intn(15)]) + body + "\x1e\x04"
			case 2:
				near = hdr + body
			case 3:
				near = body + "\x1e\x04"
			case 4:
				near = "[)>\x1e0" + string(rune('5'+rng.Intn(5))) + "\x1e" + body + "\x1e\x04"
			default:
				near = hdr + body + "\x1e\x04" + "x"
			}
			c02One(r, dmOpts{text: latin1String(near)}, "macro-near-miss")
		})
	}
	// digit strings reaching every size, each shape
	for si, s := range dmref.Symbols() {
		si, s := si, s
		c.Run(fmt.Sprintf("size/%d", si), func(r *fw.Rec) {
			for _, d := range []int{2 * s.DataCW, 2*s.DataCW - 1, 2*s.DataCW - 2, 2*s.DataCW + 1} {
				if d < 1 {
					continue
				}
				o := dmOpts{text: digitsN(r.Rng, d), shape: shapeOf(s)}
				if !c02One(r, o, "digits-to-size") {
					return
				}
				o.shape = 0
				if !c02One(r, o, "digits-to-size") {
					return
				}
			}
			// native runs of each packed mode around the symbol's capacity, the symbol being the largest admitted
			for ai, alpha := range []string{dmClasses[1][:26], dmClasses[2][:26], "*>\rABC019 ", "!\"#$%&'()+,-./:;<=?@[\\]^ AB12"} {
				per := s.DataCW * 3 / 2
				if ai == 3 {
					per = s.DataCW * 4 / 3
				}
				for _, n := range []int{s.DataCW, s.DataCW - 1, per - 2, per - 1, per, per + 1, per + 2} {
					if n < 1 {
						continue
					}
					o := dmOpts{text: fromAlphabet(r.Rng, alpha, n), shape: shapeOf(s), max: &[2]int{s.Rows, s.Cols}}
					if !c02One(r, o, []string{"c40-to-size", "text-to-size", "x12-to-size", "edifact-to-size"}[ai]) {
						return
					}
				}
			}
		})
	}
	// not Latin-1 and far too long: must be refused
	c.Run("refuse", func(r *fw.Rec) {
		for _, t := range []string{"中", "abc中def", "€", "1234Ā", "ÿŒ"} {
			if !c02One(r, dmOpts{text: t}, "non-latin1") {
				return
			}
		}
		if !c02One(r, dmOpts{text: digitsN(r.Rng, 3117)}, "too-long") || !c02One(r, dmOpts{text: fromAlphabet(r.Rng, "abcdefgh", 2400)}, "too-long") {
			return
		}
		c02One(r, dmOpts{text: "abcdefghijkl", shape: 2, max: &[2]int{8, 18}}, "too-long")
	})
	// reading order: a rectangular symbol and directly afterwards the square symbol of the same
	// width (and the other way round) - what the decoder learned from one symbol must not be
	// applied to the next
	c.Run("rect-then-square", func(r *fw.Rec) {
		rng := r.Rng
		syms := dmref.Symbols()
		for _, a := range syms {
			for _, b := range syms {
				if a.Rect == b.Rect || (a.Cols != b.Cols && a.Rows != b.Rows && a.Cols != b.Rows) {
					continue
				}
				for _, s := range []dmref.Symbol{a, b} {
					o := dmOpts{text: digitsN(rng, 2*s.DataCW-rng.Intn(2)), shape: shapeOf(s)}
					if !c02One(r, o, "rect-then-square") {
						return
					}
				}
			}
		}
	})
	c.Floor("class_rect-then-square", 40)
	// Latin-1 text whose bytes look like something else to a decoder that sniffs: byte order
	// marks (EF BB BF = "\u00ef\u00bb\u00bf", FE FF, FF FE), UTF-8-looking pairs, at the start of the
	// message, of a Base 256 run inside it, and inside a macro envelope
	c.Run("lookalikes", func(r *fw.Rec) {
		rng := r.Rng
		pre := []string{"\u00ef\u00bb\u00bf", "\u00fe\u00ff", "\u00ff\u00fe", "\u00c3\u00a9", "\u00e4\u00b8\u00ad", "\u00ef\u00bb", "\u00bb\u00bf"}
		for _, p := range pre {
			for rep := 0; rep < 6; rep++ {
				tail := []string{"", "Data Matrix", "\u00e9\u00e8\u00ea", "12345678", "abc \u00fc"}[rng.Intn(5)]
				for _, t := range []string{p + tail, "AB" + p + tail, "[)>\x1e05\x1d" + p + tail + "\x1e\x04", p + p + tail, fromAlphabet(rng, "abcdef", 1+rng.Intn(8)) + p} {
					if !c02One(r, dmOpts{text: t}, "byte-order-mark-lookalikes") {
						return
					}
				}
			}
		}
	})
	c.Floor("class_byte-order-mark-lookalikes", 100)
	// contents that are not text at all (invalid UTF-8: isolated bytes >= 0x80, truncated
	// sequences, surrogates) or text outside ISO-8859-1, of every length class: never a symbol
	for i := 0; i < c.Pick(40, 400); i++ {
		c.Run(fmt.Sprintf("refuse-bytes/%d", i), func(r *fw.Rec) {
			rng := r.Rng
			for rep := 0; rep < 20; rep++ {
				b := []byte(fromAlphabet(rng, "abcXYZ019 *>.,", rng.Intn(30)))
				for k := 1 + rng.Intn(3); k > 0; k-- {
					pos := rng.Intn(len(b) + 1)
					var ins []byte
					switch rng.Intn(5) {
					case 0:
						ins = []byte{byte(0x80 + rng.Intn(0x80))} // isolated high byte
					case 1:
						ins = []byte{0xE4, 0xB8} // truncated three-byte sequence
					case 2:
						ins = []byte{0xED, 0xA0, 0x80} // encoded surrogate
					case 3:
						ins = []byte(string(rune(0x100 + rng.Intn(0x2000)))) // valid UTF-8 beyond Latin-1
					default:
						ins = []byte{0xC0, 0x80} // overlong NUL
					}
					b = append(b[:pos], append(ins, b[pos:]...)...)
				}
				if !c02One(r, dmOpts{text: string(b)}, "not-latin1-text") {
					return
				}
			}
		})
	}
	c.Floor("roundtrip_ok", 30000)
	c.Floor("image_path_ok", 3000)
	c.Floor("image_path_modules_of_33_pixels_or_more", 300)
	c.Floor("refused_must_fail", 700)
	for _, m := range "ACTXEB" {
		c.Floor("mode_entered_"+string(m), 200)
	}
	for _, s := range dmref.Symbols() {
		c.Floor(fmt.Sprintf("size_%03dx%03d", s.Rows, s.Cols), 1)
	}
}
