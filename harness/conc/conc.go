// Package conc is the concurrent workload of C18.  It carries no build tag:
// the same code runs under the race detector (production build of the
// library, no hooks) and in the verif build (table snapshots before/after).
//
// Every operation builds its own writer and reader instances and its own
// input image; nothing the harness owns is shared between goroutines except
// the immutable operation descriptors.
package conc

import (
	"bytes"
	"fmt"
	"image"
	"image/png"
	"io/ioutil"
	"path/filepath"
	"runtime"
	"sort"
	"strings"
	"sync"
	"sync/atomic"

	"github.com/makiuchi-d/gozxing"
	"github.com/makiuchi-d/gozxing/aztec"
	"github.com/makiuchi-d/gozxing/common"
	"github.com/makiuchi-d/gozxing/common/reedsolomon"
	"github.com/makiuchi-d/gozxing/datamatrix"
	dmencoder "github.com/makiuchi-d/gozxing/datamatrix/encoder"
	multiqr "github.com/makiuchi-d/gozxing/multi/qrcode"
	"github.com/makiuchi-d/gozxing/oned"
	"github.com/makiuchi-d/gozxing/oned/rss"
	"github.com/makiuchi-d/gozxing/qrcode"

	"verifharness/fw"
	"verifharness/ref/azref"
	"verifharness/ref/dmref"
	"verifharness/ref/onedref"
)

// Op is one self-contained library call sequence with a canonical result.
type Op struct {
	Name string
	Run  func() string
}

func digits(r *fw.Rand, n int) string {
	b := make([]byte, n)
	for i := range b {
		b[i] = byte('0' + r.Intn(10))
	}
	return string(b)
}

func from(r *fw.Rand, alpha string, n int) string {
	b := make([]byte, n)
	for i := range b {
		b[i] = alpha[r.Intn(len(alpha))]
	}
	return string(b)
}

// canonical form of a read result: everything but the timestamp
func canon(res *gozxing.Result, err error) string {
	if err != nil {
		return fmt.Sprintf("ERR %T %v", err, err)
	}
	if res == nil {
		return "NIL"
	}
	var sb strings.Builder
	fmt.Fprintf(&sb, "%q|%v|%x|%d|", res.GetText(), res.GetBarcodeFormat(), res.GetRawBytes(), res.GetNumBits())
	for _, p := range res.GetResultPoints() {
		if p != nil {
			fmt.Fprintf(&sb, "(%v,%v)", p.GetX(), p.GetY())
		}
	}
	md := res.GetResultMetadata()
	keys := make([]int, 0, len(md))
	for k := range md {
		keys = append(keys, int(k))
	}
	sort.Ints(keys)
	for _, k := range keys {
		fmt.Fprintf(&sb, "|%d=%v", k, md[gozxing.ResultMetadataType(k)])
	}
	return sb.String()
}

func matrixHash(bm *gozxing.BitMatrix, err error) string {
	if err != nil {
		return fmt.Sprintf("ERR %v", err)
	}
	h := uint64(1469598103934665603)
	for y := 0; y < bm.GetHeight(); y++ {
		for x := 0; x < bm.GetWidth(); x++ {
			b := uint64(0)
			if bm.Get(x, y) {
				b = 1
			}
			h = (h ^ b) * 1099511628211
		}
	}
	return fmt.Sprintf("%dx%d:%x", bm.GetWidth(), bm.GetHeight(), h)
}

func grayFromBools(m [][]bool, scale, quiet int) *image.Gray {
	n := len(m)
	side := (n + 2*quiet) * scale
	img := image.NewGray(image.Rect(0, 0, side, side))
	for i := range img.Pix {
		img.Pix[i] = 255
	}
	for y := 0; y < n; y++ {
		for x := 0; x < n; x++ {
			if m[y][x] {
				for dy := 0; dy < scale; dy++ {
					for dx := 0; dx < scale; dx++ {
						img.Pix[((y+quiet)*scale+dy)*img.Stride+(x+quiet)*scale+dx] = 0
					}
				}
			}
		}
	}
	return img
}

type w1d struct {
	name   string
	format gozxing.BarcodeFormat
	mk     func() gozxing.Writer
	rd     func() gozxing.Reader
	gen    func(r *fw.Rand) string
}

var oneD = []w1d{
	{"EAN_13", gozxing.BarcodeFormat_EAN_13, oned.NewEAN13Writer, oned.NewEAN13Reader, func(r *fw.Rand) string { return digits(r, 12) }},
	{"EAN_8", gozxing.BarcodeFormat_EAN_8, oned.NewEAN8Writer, oned.NewEAN8Reader, func(r *fw.Rand) string { return digits(r, 7) }},
	{"UPC_A", gozxing.BarcodeFormat_UPC_A, oned.NewUPCAWriter, oned.NewUPCAReader, func(r *fw.Rand) string { return digits(r, 11) }},
	{"UPC_E", gozxing.BarcodeFormat_UPC_E, oned.NewUPCEWriter, oned.NewUPCEReader, func(r *fw.Rand) string { return "0" + digits(r, 6) }},
	{"CODE_39", gozxing.BarcodeFormat_CODE_39, oned.NewCode39Writer, oned.NewCode39Reader, func(r *fw.Rand) string { return from(r, "0123456789ABCDEFGHIJKLMNOPQRSTUVWXYZ-. ", 1+r.Intn(12)) }},
	{"CODE_93", gozxing.BarcodeFormat_CODE_93, oned.NewCode93Writer, oned.NewCode93Reader, func(r *fw.Rand) string { return from(r, "0123456789ABCDEFGHIJKLMNOPQRSTUVWXYZ-. ", 1+r.Intn(12)) }},
	{"CODE_128", gozxing.BarcodeFormat_CODE_128, oned.NewCode128Writer, oned.NewCode128Reader, func(r *fw.Rand) string { return from(r, "abcXYZ0123456789 !#", 1+r.Intn(14)) }},
	{"ITF", gozxing.BarcodeFormat_ITF, oned.NewITFWriter, oned.NewITFReader, func(r *fw.Rand) string { return digits(r, 2*(3+r.Intn(5))) }},
	{"CODABAR", gozxing.BarcodeFormat_CODABAR, oned.NewCodaBarWriter, oned.NewCodaBarReader, func(r *fw.Rand) string { return from(r, "0123456789-$", 2+r.Intn(10)) }},
}

// a registered name of every character set with a text it represents
var charsetTexts = [][2]string{
	{"UTF-16BE", "Ünï 漢字 ✓"}, {"UnicodeBig", "données"}, {"UnicodeBigUnmarked", "テスト"},
	{"Big5", "繁體中文"}, {"GB18030", "简体中文€"}, {"GBK", "简体"}, {"GB2312", "中文"}, {"EUC_CN", "汉字"}, {"EUC-KR", "한국어"}, {"EUC_KR", "한글"},
	{"ISO-8859-1", "café"}, {"ISO8859_1", "naïve"}, {"ISO-8859-2", "Łódź"}, {"ISO-8859-3", "Ħĉ"}, {"ISO-8859-4", "Ąš"}, {"ISO-8859-5", "Привет"},
	{"ISO-8859-7", "Ελληνικά"}, {"ISO-8859-9", "İstanbul"}, {"ISO-8859-13", "Žemė"}, {"ISO-8859-15", "€uro"}, {"ISO-8859-16", "Șț"},
	{"windows-1250", "Łódź"}, {"Cp1250", "Žluť"}, {"windows-1251", "Привет"}, {"Cp1251", "мир"}, {"windows-1252", "œuvre"}, {"windows-1256", "مرحبا"}, {"Cp1256", "سلام"},
	{"Cp437", "░▒▓"}, {"ASCII", "plain"}, {"US-ASCII", "text"}, {"SJIS", "日本語"}, {"UTF8", "ß→∞"},
}

var rssFiles []string

func init() {
	rssFiles, _ = filepath.Glob("/repo/oned/rss/testdata/*.png")
	sort.Strings(rssFiles)
}

// SharedHints is ONE hints map handed to readers by all goroutines, the way an application keeps
// its decode settings in a package-level variable.  The harness never writes to it after init;
// a library write (or a result that depends on its iteration order) is the library's doing.
var (
	sharedPoints int64
	SharedHints  = map[gozxing.DecodeHintType]interface{}{
		gozxing.DecodeHintType_TRY_HARDER: true,
		gozxing.DecodeHintType_NEED_RESULT_POINT_CALLBACK: gozxing.ResultPointCallback(func(p gozxing.ResultPoint) {
			atomic.AddInt64(&sharedPoints, 1)
		}),
		gozxing.DecodeHintType_CHARACTER_SET: "UTF-8",
	}
)

// SharedHintsIntact reports whether the shared map still has its three entries.
func SharedHintsIntact() string {
	if len(SharedHints) != 3 {
		return fmt.Sprintf("the shared hints map has %d entries, 3 were put in", len(SharedHints))
	}
	for _, k := range []gozxing.DecodeHintType{gozxing.DecodeHintType_TRY_HARDER, gozxing.DecodeHintType_NEED_RESULT_POINT_CALLBACK, gozxing.DecodeHintType_CHARACTER_SET} {
		if _, ok := SharedHints[k]; !ok {
			return fmt.Sprintf("the shared hints map lost its entry %v", k)
		}
	}
	return ""
}

// encodeHintsSnapshot renders a hint map with the dynamic type of every value (keys in order).
func encodeHintsSnapshot(h map[gozxing.EncodeHintType]interface{}) string {
	keys := make([]int, 0, len(h))
	for k := range h {
		keys = append(keys, int(k))
	}
	sort.Ints(keys)
	var sb strings.Builder
	for _, k := range keys {
		v := h[gozxing.EncodeHintType(k)]
		fmt.Fprintf(&sb, "%d=(%T)%v;", k, v, v)
	}
	return sb.String()
}

// grayRow renders a module row with quiet zones as a gray image.
func grayRow(mod []bool, quiet, scale, height int) *image.Gray {
	w := (2*quiet + len(mod)) * scale
	img := image.NewGray(image.Rect(0, 0, w, height))
	for i := range img.Pix {
		img.Pix[i] = 255
	}
	for y := 0; y < height; y++ {
		for i, m := range mod {
			if m {
				for k := 0; k < scale; k++ {
					img.Pix[y*img.Stride+(quiet+i)*scale+k] = 0
				}
			}
		}
	}
	return img
}

// BuildOps draws n operations over all symbologies.
var ambOnce sync.Once
var ambNums []string

// AmbiguousUPCA returns UPC-A numbers (12 digits) whose symbol the EAN-8 decoder ALONE also accepts
// (it finds a start guard, four L digits, a centre guard, four R digits and a verifying check digit
// inside the longer symbol; about 2 in 1000 numbers).  Which decoder of the multi-format reader
// is asked first decides what such a symbol is read as, so these are the inputs on which any
// memory of earlier reads would show.  The list is found by a fixed-seed search, the same in
// every process.
func AmbiguousUPCA() []string {
	ambOnce.Do(func() {
		r := fw.NewRand(0xA3B1600D)
		for i := 0; i < 40000 && len(ambNums) < 16; i++ {
			d := digits(r, 11)
			if i%2 == 0 {
				d = "000" + d[3:]
			}
			full := d + fmt.Sprint(onedref.Mod10(d))
			bmp, _ := gozxing.NewBinaryBitmapFromImage(grayRow(onedref.UPCAPattern(full), 12, 1, 1))
			if _, err := oned.NewEAN8Reader().Decode(bmp, nil); err == nil {
				ambNums = append(ambNums, full)
			}
		}
	})
	return ambNums
}

// dmGS1Op: a GS1 Data Matrix symbol (FNC1 in first position, a second FNC1 as separator after
// four digits - result offsets 0 and 5), built from codewords by the reference construction because
// the library's writer emits no FNC1.  Text, raw bytes and the symbology identifier ]d2 are the
// same on every call.
func dmGS1Op(r *fw.Rand) Op {
	a, b, c := 130+r.Intn(100), 130+r.Intn(100), 130+r.Intn(100)
	letter := byte('A' + r.Intn(26))
	scale := 2 + r.Intn(3)
	return Op{"dm-gs1", func() string {
		var sym dmref.Symbol
		for _, s := range dmref.Symbols() {
			if s.Rows == 14 && s.Cols == 14 {
				sym = s
			}
		}
		data := []byte{232, byte(a), byte(b), 232, byte(c), letter + 1, 129, dmref.Pad253(8)}
		m := dmref.BuildMatrix(sym, data)
		bmp, _ := gozxing.NewBinaryBitmapFromImage(grayFromBools(m, scale, 2))
		res, err := datamatrix.NewDataMatrixReader().Decode(bmp, map[gozxing.DecodeHintType]interface{}{gozxing.DecodeHintType_PURE_BARCODE: true})
		out := canon(res, err)
		if err != nil || !strings.Contains(out, "]d2") {
			return "APRIORI-MISMATCH dm-gs1: a symbol with FNC1 in first position is reported with the symbology identifier ]d2 whenever it is read alone; here -> " + clip(out)
		}
		return "dm-gs1 -> " + out
	}}
}

// reuseOp: ONE reader instance of a goroutine reads a symbol under a decode hint and then another
// symbol without hints; the second answer must be what a fresh instance gives (instances are
// reusable, and a hint is an argument of the call it is passed to).
func reuseOp(r *fw.Rand) Op {
	type spec struct {
		name    string
		mk      func() gozxing.Reader
		wr      func() gozxing.Writer
		format  gozxing.BarcodeFormat
		c1, c2  string
		format2 gozxing.BarcodeFormat
		wr2     func() gozxing.Writer
		h1      map[gozxing.DecodeHintType]interface{}
		height  int
	}
	d := func(n int) string { return digits(r, n) }
	c39 := from(r, "ABCDEFGHIJKLMNOPQRSTUVWXYZ0123456789", 3+r.Intn(8))
	specs := []spec{
		{name: "itf", mk: oned.NewITFReader, wr: oned.NewITFWriter, format: gozxing.BarcodeFormat_ITF, c1: d(20), c2: d([]int{6, 8, 10, 12, 14}[r.Intn(5)]),
			h1: map[gozxing.DecodeHintType]interface{}{gozxing.DecodeHintType_ALLOWED_LENGTHS: []int{20}}, height: 20},
		{name: "codabar", mk: oned.NewCodaBarReader, wr: oned.NewCodaBarWriter, format: gozxing.BarcodeFormat_CODABAR, c1: "A" + d(5) + "B", c2: "C" + d(6) + "D",
			h1: map[gozxing.DecodeHintType]interface{}{gozxing.DecodeHintType_RETURN_CODABAR_START_END: true}, height: 20},
		{name: "code39", mk: oned.NewCode39Reader, wr: oned.NewCode39Writer, format: gozxing.BarcodeFormat_CODE_39, c1: c39 + string(onedref.Code39Mod43(c39)), c2: from(r, "ABCDEFGHIJKLMNOPQRSTUVWXYZ0123456789-. ", 2+r.Intn(8)),
			h1: map[gozxing.DecodeHintType]interface{}{gozxing.DecodeHintType_ASSUME_CODE_39_CHECK_DIGIT: true}, height: 20},
		{name: "code128", mk: oned.NewCode128Reader, wr: oned.NewCode128Writer, format: gozxing.BarcodeFormat_CODE_128, c1: "\u00f101" + d(14), c2: from(r, "abcXYZ0123456789 -", 3+r.Intn(10)),
			h1: map[gozxing.DecodeHintType]interface{}{gozxing.DecodeHintType_ASSUME_GS1: true}, height: 20},
		{name: "code93", mk: oned.NewCode93Reader, wr: oned.NewCode93Writer, format: gozxing.BarcodeFormat_CODE_93, c1: from(r, "ABCDEFGHIJKLMNOPQRSTUVWXYZ0123456789-. $/+%", 3+r.Intn(14)), c2: from(r, "ABCDEFGHIJKLMNOPQRSTUVWXYZ0123456789-. $/+%", 3+r.Intn(14)),
			h1: map[gozxing.DecodeHintType]interface{}{gozxing.DecodeHintType_TRY_HARDER: true}, height: 20},
		{name: "upcean", mk: func() gozxing.Reader { return oned.NewMultiFormatUPCEANReader(nil) }, wr: oned.NewEAN8Writer, format: gozxing.BarcodeFormat_EAN_8, c1: d(7), c2: d(12),
			wr2: oned.NewEAN13Writer, format2: gozxing.BarcodeFormat_EAN_13,
			h1: map[gozxing.DecodeHintType]interface{}{gozxing.DecodeHintType_TRY_HARDER: true}, height: 20},
		{name: "qr", mk: func() gozxing.Reader { return qrcode.NewQRCodeReader() }, wr: func() gozxing.Writer { return qrcode.NewQRCodeWriter() }, format: gozxing.BarcodeFormat_QR_CODE, c1: "first " + d(8), c2: "second h\u00e9llo " + d(5),
			h1: map[gozxing.DecodeHintType]interface{}{gozxing.DecodeHintType_CHARACTER_SET: "Shift_JIS", gozxing.DecodeHintType_PURE_BARCODE: true}, height: 0},
		{name: "dm", mk: func() gozxing.Reader { return datamatrix.NewDataMatrixReader() }, wr: func() gozxing.Writer { return datamatrix.NewDataMatrixWriter() }, format: gozxing.BarcodeFormat_DATA_MATRIX, c1: "first " + d(8), c2: "second " + d(20),
			h1: map[gozxing.DecodeHintType]interface{}{gozxing.DecodeHintType_PURE_BARCODE: true}, height: 0},
	}
	sp := specs[r.Intn(len(specs))]
	if sp.wr2 == nil {
		sp.wr2, sp.format2 = sp.wr, sp.format
	}
	return Op{"reuse/" + sp.name, func() string {
		m1, e1 := sp.wr().Encode(sp.c1, sp.format, 0, sp.height, nil)
		m2, e2 := sp.wr2().Encode(sp.c2, sp.format2, 0, sp.height, nil)
		if e1 != nil || e2 != nil {
			return fmt.Sprintf("reuse/%s: writer errors %v %v", sp.name, e1, e2)
		}
		if sp.height == 0 { // 2-D: a few pixels per module and a frame for the detector path
			m1, _ = sp.wr().Encode(sp.c1, sp.format, 3*m1.GetWidth(), 3*m1.GetHeight(), nil)
			m2, _ = sp.wr2().Encode(sp.c2, sp.format2, 3*m2.GetWidth()+24, 3*m2.GetHeight()+24, nil)
		}
		b1, _ := gozxing.NewBinaryBitmapFromImage(m1)
		b2, _ := gozxing.NewBinaryBitmapFromImage(m2)
		rd := sp.mk()
		res1, err1 := rd.Decode(b1, sp.h1)
		r1 := canon(res1, err1)
		r2 := canon(rd.Decode(b2, nil))
		// the first result is the caller's: the second read on the same instance does not change it
		if again := canon(res1, err1); again != r1 {
			return fmt.Sprintf("APRIORI-MISMATCH reuse/%s: the result of the first read was %s; after the same reader instance read another symbol it says %s", sp.name, clip(r1), clip(again))
		}
		b2f, _ := gozxing.NewBinaryBitmapFromImage(m2)
		fresh := canon(sp.mk().Decode(b2f, nil))
		if r2 != fresh {
			return fmt.Sprintf("APRIORI-MISMATCH reuse/%s: after a read under %v the same reader instance answers %s for the next symbol, a fresh instance %s", sp.name, sp.h1, clip(r2), clip(fresh))
		}
		return fmt.Sprintf("reuse/%s %s | %s", sp.name, r1, r2)
	}}
}

func BuildOps(r *fw.Rand, n int) []Op {
	ops := make([]Op, 0, n)
	for len(ops) < n {
		if r.Intn(10) == 0 {
			ops = append(ops, reuseOp(r))
			continue
		}
		if r.Intn(25) == 0 {
			ops = append(ops, dmGS1Op(r))
			continue
		}
		switch k := r.Intn(21); {
		case k < 7: // 1-D write + read
			w := oneD[r.Intn(len(oneD))]
			content := w.gen(r)
			width, height := r.Intn(300), 1+r.Intn(40)
			multi := r.Intn(3) == 0 && (w.name == "EAN_13" || w.name == "EAN_8" || w.name == "UPC_A" || w.name == "UPC_E")
			// upside-down and sideways symbols take the reversed-row and rotated-image paths of the row scanner
			rot := 0
			if r.Bool() {
				rot = 1 + r.Intn(3)
				if height < 8 {
					height += 8
				}
			}
			tryHarder := rot != 2 || r.Bool()
			shared := r.Intn(3) == 0
			ops = append(ops, Op{"1d/" + w.name, func() string {
				bm, err := w.mk().Encode(content, w.format, width, height, nil)
				out := matrixHash(bm, err)
				if err != nil {
					return out
				}
				bmp, _ := gozxing.NewBinaryBitmapFromImage(bm)
				for i := 0; i < rot; i++ {
					if bmp, err = bmp.RotateCounterClockwise(); err != nil {
						return out + " rotate: " + err.Error()
					}
				}
				var rd gozxing.Reader
				if multi {
					rd = oned.NewMultiFormatUPCEANReader(nil)
				} else {
					rd = w.rd()
				}
				dh := map[gozxing.DecodeHintType]interface{}{}
				if tryHarder {
					dh[gozxing.DecodeHintType_TRY_HARDER] = true
				}
				if tryHarder && shared {
					dh = SharedHints
				}
				res, rerr := rd.Decode(bmp, dh)
				return out + fmt.Sprintf(" rot%d -> ", rot) + canon(res, rerr)
			}})
		case k < 11: // QR write + read (pure and detector path, charset hints)
			var content string
			hints := map[gozxing.EncodeHintType]interface{}{}
			switch r.Intn(6) {
			case 0:
				content = digits(r, 1+r.Intn(200))
				if r.Intn(2) == 0 {
					content = digits(r, 1300+r.Intn(900)) // more than 512 data codewords (version 15 and up)
				}
			case 1:
				content = from(r, "ABCDEFGHIJKLMNOPQRSTUVWXYZ $%*+-./:0123456789", 1+r.Intn(120))
			case 2:
				content = "héllo wörld " + from(r, "abcdefghijklmnopqrstuvwxyzäöüß€", 1+r.Intn(60))
				if r.Bool() {
					// canonical names, registered aliases and other spellings (the latter are refused on
					// the unchanged tree, deterministically): name lookups hit the shared registry
					hints[gozxing.EncodeHintType_CHARACTER_SET] = []string{"UTF-8", "ISO-8859-15", "windows-1252", "UTF8", "Cp1252", "utf-8", "latin1", "cp819", "csWindows1252", "iso-8859-15", "Windows-1252", "IBM437", "ascii"}[r.Intn(13)]
				}
			case 3:
				content = "漢字テスト日本語"[:3*(1+r.Intn(7))]
				hints[gozxing.EncodeHintType_CHARACTER_SET] = "Shift_JIS"
			default:
				// every registered character set by some name, with text it represents: the symbol
				// carries the ECI designator and the reader goes through the registry and the codec
				cs := charsetTexts[r.Intn(len(charsetTexts))]
				content = cs[1] + from(r, "abcdefghijklmnopqrstuvwxyz 0123456789", 1+r.Intn(20)) + cs[1]
				hints[gozxing.EncodeHintType_CHARACTER_SET] = cs[0]
			}
			hints[gozxing.EncodeHintType_ERROR_CORRECTION] = []string{"L", "M", "Q", "H"}[r.Intn(4)]
			scale := 1 + r.Intn(4)
			pure := r.Bool()
			damage := 0
			if r.Intn(3) == 0 {
				damage = 1 + r.Intn(2)
			}
			if len(content) > 1000 { // keep the race build fast: large symbols at 1-2 px/module, mostly pure
				scale = 1 + r.Intn(2)
				pure = r.Intn(4) != 0
			}
			multi := r.Intn(5) == 0
			dcs := ""
			if r.Intn(3) == 0 { // decode-side character-set hint, in assorted spellings
				dcs = []string{"UTF-8", "utf-8", "ISO-8859-1", "latin1", "l1", "Shift_JIS", "shift_jis", "sjis", "csShiftJIS", "windows-1251", "cp1251", "koi8-r", "KOI8-R", "us-ascii", "gbk", "GB2312"}[r.Intn(16)]
			}
			if r.Intn(3) == 0 {
				hints[gozxing.EncodeHintType_MARGIN] = fmt.Sprint(r.Intn(6)) // string form, like the level
			}
			hintsAsBuilt := encodeHintsSnapshot(hints)
			ops = append(ops, Op{"qr", func() string {
				w := qrcode.NewQRCodeWriter()
				bm, err := w.Encode(content, gozxing.BarcodeFormat_QR_CODE, 0, 0, hints)
				// the hint map of this operation is read by the two goroutines that run it: it is theirs, not the writer's
				if now := encodeHintsSnapshot(hints); now != hintsAsBuilt {
					return "APRIORI-MISMATCH qr: the writer changed the caller's hint map from " + hintsAsBuilt + " to " + now
				}
				if err != nil {
					return matrixHash(bm, err)
				}
				side := bm.GetWidth() * scale
				bm2, err := w.Encode(content, gozxing.BarcodeFormat_QR_CODE, side, side, hints)
				out := matrixHash(bm2, err)
				if err != nil {
					return out
				}
				if damage > 0 && side >= 29*scale {
					// one or two modules flipped in the middle of the symbol: the Reed-Solomon decoder
					// has something to correct (clean symbols never reach its correction code)
					dr := fw.NewRand(uint64(len(content))*977 + uint64(damage))
					for k := 0; k < damage; k++ {
						mx, my := 13+dr.Intn(side/scale-26), 13+dr.Intn(side/scale-26)
						for dy := 0; dy < scale; dy++ {
							for dx := 0; dx < scale; dx++ {
								bm2.Flip(mx*scale+dx, my*scale+dy)
							}
						}
					}
				}
				bmp, _ := gozxing.NewBinaryBitmapFromImage(bm2)
				if multi {
					rs, merr := multiqr.NewQRCodeMultiReader().DecodeMultiple(bmp, nil)
					s := out + " -> multi"
					if merr != nil {
						return s + fmt.Sprintf(" ERR %v", merr)
					}
					for _, x := range rs {
						s += " " + canon(x, nil)
					}
					return s
				}
				dh := map[gozxing.DecodeHintType]interface{}{}
				if pure {
					dh[gozxing.DecodeHintType_PURE_BARCODE] = true
				}
				if dcs != "" {
					dh[gozxing.DecodeHintType_CHARACTER_SET] = dcs
				}
				res, rerr := qrcode.NewQRCodeReader().Decode(bmp, dh)
				return out + " -> " + canon(res, rerr)
			}})
		case k < 14: // Data Matrix write + read
			n := 1 + r.Intn(90)
			if r.Intn(5) == 0 {
				n = 300 + r.Intn(900) // several interleaved Reed-Solomon blocks (52x52 and larger)
			}
			// one alphabet per encodation the high-level encoder can choose (mixed, C40, Text, X12, EDIFACT,
			// Base 256, digit pairs): each mode encoder is exercised by several goroutines at once
			dmAlpha := []string{
				"abcdefghijklmnopqrstuvwxyzABCXYZ0123456789 *>\r!&\xe9\xfc",
				"ABCDEFGHIJKLMNOPQRSTUVWXYZ0123456789 ",
				"abcdefghijklmnopqrstuvwxyz0123456789 ",
				"ABCDEFGHIJ0123456789 *>\r",
				"ABCDEFGH.,-/()!@#$%&'*+:;<=>?[]^_",
				"\x80\x81\x90\xa0\xb5\xc3\xd7\xe9\xfc\xff",
				"0123456789",
			}[r.Intn(7)]
			content := from(r, dmAlpha, n)
			rs := make([]rune, 0, len(content))
			for i := 0; i < len(content); i++ {
				rs = append(rs, rune(content[i]))
			}
			text := string(rs)
			if r.Intn(3) == 0 {
				// size selection under hints: 2n digits are n codewords, and which symbol is the first
				// admissible one for (n, shape, min, max) is known beforehand from Table 7
				cw := 1 + r.Intn(12)
				if r.Intn(4) == 0 {
					cw = 13 + r.Intn(60)
				}
				shape := r.Intn(3)
				var minRC, maxRC *[2]int
				switch r.Intn(5) {
				case 0:
					maxRC = &[][2]int{{10, 40}, {18, 18}, {12, 36}, {16, 48}, {32, 32}}[r.Intn(5)]
				case 1:
					minRC = &[][2]int{{8, 18}, {12, 36}, {14, 14}, {20, 20}, {8, 32}}[r.Intn(5)]
				case 2:
					maxRC = &[][2]int{{10, 40}, {26, 26}, {16, 36}, {44, 44}}[r.Intn(4)]
					minRC = &[][2]int{{8, 8}, {10, 10}, {8, 18}}[r.Intn(3)]
				}
				digs := digits(r, 2*cw)
				ops = append(ops, Op{"dm-sized", func() string {
					hints := map[gozxing.EncodeHintType]interface{}{}
					if shape != 0 {
						hints[gozxing.EncodeHintType_DATA_MATRIX_SHAPE] = dmencoder.SymbolShapeHint(shape)
					}
					minR, minC, maxR, maxC := 0, 0, 0, 0
					if minRC != nil {
						d, _ := gozxing.NewDimension(minRC[1], minRC[0])
						hints[gozxing.EncodeHintType_MIN_SIZE] = d
						minR, minC = minRC[0], minRC[1]
					}
					if maxRC != nil {
						d, _ := gozxing.NewDimension(maxRC[1], maxRC[0])
						hints[gozxing.EncodeHintType_MAX_SIZE] = d
						maxR, maxC = maxRC[0], maxRC[1]
					}
					want, ok := dmref.Lookup(cw, shape, minR, minC, maxR, maxC)
					bm, err := datamatrix.NewDataMatrixWriter().Encode(digs, gozxing.BarcodeFormat_DATA_MATRIX, 0, 0, hints)
					desc := fmt.Sprintf("dm-sized %d codewords shape %d min %v max %v", cw, shape, minRC, maxRC)
					if ok != (err == nil) || (ok && (bm.GetHeight() != want.Rows || bm.GetWidth() != want.Cols)) {
						got := "refused"
						if err == nil {
							got = fmt.Sprintf("%dx%d", bm.GetHeight(), bm.GetWidth())
						}
						return fmt.Sprintf("APRIORI-MISMATCH %s: run alone this gives %dx%d (admissible %v), here %s", desc, want.Rows, want.Cols, ok, got)
					}
					return desc + " -> " + matrixHash(bm, err)
				}})
				continue
			}
			scale := 2 + r.Intn(3)
			pure := r.Bool()
			dmDamage := r.Intn(3) == 0
			ops = append(ops, Op{"dm", func() string {
				w := datamatrix.NewDataMatrixWriter()
				bm, err := w.Encode(text, gozxing.BarcodeFormat_DATA_MATRIX, 0, 0, nil)
				if err != nil {
					return matrixHash(bm, err)
				}
				pad := 0
				if !pure {
					pad = 8 * scale
				}
				bm2, err := w.Encode(text, gozxing.BarcodeFormat_DATA_MATRIX, bm.GetWidth()*scale+pad, bm.GetHeight()*scale+pad, nil)
				out := matrixHash(bm2, err)
				if err != nil {
					return out
				}
				if dmDamage && bm.GetWidth() >= 12 && bm.GetHeight() >= 12 {
					mx, my := 3+len(text)%(bm.GetWidth()-6), 3+(len(text)*7)%(bm.GetHeight()-6)
					off := pad / 2
					for dy := 0; dy < scale; dy++ {
						for dx := 0; dx < scale; dx++ {
							bm2.Flip(off+mx*scale+dx, off+my*scale+dy)
						}
					}
				}
				bmp, _ := gozxing.NewBinaryBitmapFromImage(bm2)
				dh := map[gozxing.DecodeHintType]interface{}{}
				if pure {
					dh[gozxing.DecodeHintType_PURE_BARCODE] = true
				}
				res, rerr := datamatrix.NewDataMatrixReader().Decode(bmp, dh)
				return out + " -> " + canon(res, rerr)
			}})
		case k < 15: // Aztec: reference symbol -> reader
			seed := r.Uint64()
			scale := 3 + r.Intn(2)
			ops = append(ops, Op{"aztec", func() string {
				rr := fw.NewRand(seed)
				specs := azref.AllSpecs()
				spec := specs[rr.Intn(12)] // compact 1..4 and small full symbols keep the race build fast
				nb := 60 + rr.Intn(200)
				if rr.Intn(6) == 0 { // sometimes a large one: 10- and 12-bit codewords, GF(1024) and GF(4096)
					spec = specs[12+rr.Intn(len(specs)-12)]
					nb = 200 + rr.Intn(2000)
				}
				bits, _ := azref.RandomTokens(rr, nb)
				sym, ok := azref.Build(spec, bits, 3)
				if !ok {
					spec = specs[8]
					sym, ok = azref.Build(spec, bits, 3)
					if !ok {
						return "aztec: no symbol"
					}
				}
				img := grayFromBools(sym.Matrix, scale, 4)
				bmp, _ := gozxing.NewBinaryBitmapFromImage(img)
				var ah map[gozxing.DecodeHintType]interface{}
				switch rr.Intn(4) {
				case 0: // decode hints of the kinds applications pass to every reader
					ah = map[gozxing.DecodeHintType]interface{}{gozxing.DecodeHintType_CHARACTER_SET: []string{"ISO-8859-5", "UTF-8", "Shift_JIS", "windows-1251"}[rr.Intn(4)], gozxing.DecodeHintType_TRY_HARDER: true}
				case 1:
					ah = SharedHints
				}
				res, err := aztec.NewAztecReader().Decode(bmp, ah)
				if err != nil {
					return fmt.Sprintf("aztec %v ERR %T", spec, err)
				}
				// the Aztec result carries no timestamp in its canonical fields
				return fmt.Sprintf("aztec %v -> %s", spec, canon(res, nil))
			}})
		case k < 16: // RSS-14 sample image
			if len(rssFiles) == 0 {
				continue
			}
			f := rssFiles[r.Intn(len(rssFiles))]
			ops = append(ops, Op{"rss14", func() string {
				b, err := ioutil.ReadFile(f)
				if err != nil {
					return "rss14: " + err.Error()
				}
				img, err := png.Decode(bytes.NewReader(b))
				if err != nil {
					return "rss14: " + err.Error()
				}
				bmp, _ := gozxing.NewBinaryBitmapFromImage(img)
				res, rerr := rss.NewRSS14Reader().Decode(bmp, map[gozxing.DecodeHintType]interface{}{gozxing.DecodeHintType_TRY_HARDER: true})
				return filepath.Base(f) + " -> " + canon(res, rerr)
			}})
		case k < 17: // Reed-Solomon on the shared field objects
			seed := r.Uint64()
			ops = append(ops, Op{"rs", func() string {
				rr := fw.NewRand(seed)
				fields := []*reedsolomon.GenericGF{reedsolomon.GenericGF_QR_CODE_FIELD_256, reedsolomon.GenericGF_DATA_MATRIX_FIELD_256, reedsolomon.GenericGF_AZTEC_DATA_10, reedsolomon.GenericGF_AZTEC_PARAM, reedsolomon.GenericGF_AZTEC_DATA_6, reedsolomon.GenericGF_AZTEC_DATA_12, reedsolomon.GenericGF_AZTEC_DATA_8, reedsolomon.GenericGF_MAXICODE_FIELD_64}
				f := fields[rr.Intn(len(fields))]
				n := 4 + rr.Intn(minI(f.GetSize()-5, 60))
				ec := 1 + rr.Intn(n-1)
				word := make([]int, n)
				for i := 0; i < n-ec; i++ {
					word[i] = rr.Intn(f.GetSize())
				}
				if err := reedsolomon.NewReedSolomonEncoder(f).Encode(word, ec); err != nil {
					return "rs enc " + err.Error()
				}
				orig := append([]int{}, word...)
				for e := 0; e < ec/2; e++ {
					word[rr.Intn(n)] ^= 1 + rr.Intn(f.GetSize()-1)
				}
				if err := reedsolomon.NewReedSolomonDecoder(f).Decode(word, ec); err != nil {
					return "rs dec " + err.Error()
				}
				return fmt.Sprintf("rs %v %v", word, fmt.Sprint(word) == fmt.Sprint(orig))
			}})
		case k < 20: // reference-built UPC/EAN rows with 2- and 5-digit add-ons, read under the shared hints map
			var main []bool
			var rd func() gozxing.Reader
			kind := r.Intn(7)
			apriori := ""
			switch kind {
			case 4: // EAN-8 through the multi-format reader
				d := digits(r, 7)
				main, rd = onedref.EAN8Pattern(d+fmt.Sprint(onedref.Mod10(d))), func() gozxing.Reader { return oned.NewMultiFormatUPCEANReader(nil) }
			case 5, 6: // a UPC-A symbol that the EAN-8 decoder alone would accept too, through the multi-format reader
				amb := AmbiguousUPCA()
				if len(amb) == 0 {
					continue
				}
				full := amb[r.Intn(len(amb))]
				apriori = "0" + full
				main, rd = onedref.UPCAPattern(full), func() gozxing.Reader { return oned.NewMultiFormatUPCEANReader(nil) }
			case 0:
				d := digits(r, 12)
				main, rd = onedref.EAN13Pattern(d+fmt.Sprint(onedref.Mod10(d))), oned.NewEAN13Reader
			case 1:
				d := digits(r, 7)
				main, rd = onedref.EAN8Pattern(d+fmt.Sprint(onedref.Mod10(d))), oned.NewEAN8Reader
			case 2:
				d := digits(r, 11)
				main, rd = onedref.UPCAPattern(d+fmt.Sprint(onedref.Mod10(d))), oned.NewUPCAReader
			default:
				d := digits(r, 12)
				main, rd = onedref.EAN13Pattern(d+fmt.Sprint(onedref.Mod10(d))), func() gozxing.Reader { return oned.NewMultiFormatUPCEANReader(nil) }
			}
			var addon []bool
			switch r.Intn(3) + minI(len(apriori), 1)*3 {
			case 0:
				v := r.Intn(100)
				addon = onedref.EAN2AddOn(v, v)
			case 1:
				d := digits(r, 5)
				addon = onedref.EAN5AddOn(d, onedref.EAN5Check(d))
			}
			pat := append([]bool{}, main...)
			if addon != nil {
				for i := 0; i < onedref.AddOnGap(); i++ {
					pat = append(pat, false)
				}
				pat = append(pat, addon...)
			}
			scale, height := 1+r.Intn(3), 1+r.Intn(12)
			flip := r.Intn(3) == 0 && apriori == ""
			ops = append(ops, Op{"upcean+addon", func() string {
				img := grayRow(pat, 12, scale, height)
				bmp, _ := gozxing.NewBinaryBitmapFromImage(img)
				if flip { // upside down: found on the reversed-row attempt (the add-on is then on the wrong side)
					bmp, _ = bmp.RotateCounterClockwise()
					bmp, _ = bmp.RotateCounterClockwise()
				}
				res, err := rd().Decode(bmp, SharedHints)
				if apriori != "" && (err != nil || res.GetText() != apriori) {
					// what this read returns when it is the only thing the process does is known beforehand
					return fmt.Sprintf("APRIORI-MISMATCH upcean+addon kind %d flip %v: run alone this read returns %s, here -> %s", kind, flip, apriori, canon(res, err))
				}
				return fmt.Sprintf("upcean+addon kind %d flip %v -> %s", kind, flip, canon(res, err))
			}})
		default: // grid sampler + binarisers + ECI lookups on private data
			seed := r.Uint64()
			ops = append(ops, Op{"grid", func() string {
				rr := fw.NewRand(seed)
				w, h := 40+rr.Intn(60), 40+rr.Intn(60)
				img := image.NewGray(image.Rect(0, 0, w, h))
				for i := range img.Pix {
					if rr.Intn(3) == 0 {
						img.Pix[i] = 0
					} else {
						img.Pix[i] = 255
					}
				}
				src := gozxing.NewLuminanceSourceFromImage(img)
				b1, e1 := gozxing.NewHybridBinarizer(src).GetBlackMatrix()
				b2, e2 := gozxing.NewGlobalHistgramBinarizer(src).GetBlackMatrix()
				out := matrixHash(b1, e1) + " " + matrixHash(b2, e2)
				if e1 == nil {
					d := 5 + rr.Intn(20)
					g, ge := common.GridSampler_GetInstance().SampleGrid(b1, d, d, 0.5, 0.5, float64(d)-0.5, 0.5, float64(d)-0.5, float64(d)-0.5, 0.5, float64(d)-0.5,
						3, 4, float64(w)-6, 5, float64(w)-5, float64(h)-7, 4, float64(h)-5)
					out += " " + matrixHash(g, ge)
				}
				for _, n := range []string{"UTF-8", "SJIS", "ISO8859_1", "GBK", "nope", "utf-8", "latin1", "cp437", "csISOLatin2", "euc-kr", "big5", "Big5"} {
					e, ok := common.GetCharacterSetECIByName(n)
					if ok {
						out += fmt.Sprintf(" %s=%d", n, e.GetValue())
					}
				}
				return out
			}})
		}
	}
	return ops
}

func minI(a, b int) int {
	if a < b {
		return a
	}
	return b
}

// Round runs one round: sequential reference, then K goroutines behind a start
// barrier; every operation is executed by two different goroutines.  It
// returns a description of the first divergence ("" if none) and counts.
func Round(r *fw.Rand, k, procs, opsPerG int) (diverged string, nops int, names map[string]int, pairs map[string]bool) {
	old := runtime.GOMAXPROCS(procs)
	defer runtime.GOMAXPROCS(old)
	ops := BuildOps(r, k*opsPerG/2+1)
	want := make([]string, len(ops))
	names = map[string]int{}
	for _, op := range ops {
		names[op.Name]++
	}
	// The concurrent phase runs FIRST, on whatever lazily built state the process has so far
	// (the first round of a process is completely cold): a cache that is filled without
	// synchronisation is only written while it is still growing, and a sequential warm-up
	// pass over the same inputs would hide exactly that.  The sequential reference results
	// are computed afterwards.
	// assignment: goroutine g runs ops (g*opsPerG/2 + j) and a second, shifted copy
	type job struct{ g, op int }
	plan := make([][]int, k)
	for g := 0; g < k; g++ {
		for j := 0; j < opsPerG; j++ {
			plan[g] = append(plan[g], (g*opsPerG/2+j*7+g*3)%len(ops))
		}
	}
	pairs = map[string]bool{}
	for g := 0; g < k; g++ {
		for g2 := g + 1; g2 < k && g2 < g+4; g2++ {
			for j := 0; j < len(plan[g]) && j < len(plan[g2]); j++ {
				a, b := ops[plan[g][j]].Name, ops[plan[g2][j]].Name
				if a > b {
					a, b = b, a
				}
				pairs[a+"|"+b] = true
			}
		}
	}
	yields := make([][]int, k)
	for g := range yields {
		for j := 0; j < opsPerG; j++ {
			yields[g] = append(yields[g], r.Intn(4))
		}
	}
	start := make(chan struct{})
	got := make([][]string, k)
	var wg sync.WaitGroup
	for g := 0; g < k; g++ {
		wg.Add(1)
		go func(g int) {
			defer wg.Done()
			<-start
			res := make([]string, 0, len(plan[g]))
			for j, oi := range plan[g] {
				for y := 0; y < yields[g][j]; y++ {
					runtime.Gosched()
				}
				res = append(res, ops[oi].Run())
			}
			got[g] = res
		}(g)
	}
	close(start)
	wg.Wait()
	for i, op := range ops {
		want[i] = op.Run()
	}
	for g := 0; g < k; g++ {
		for j, oi := range plan[g] {
			nops++
			if strings.HasPrefix(got[g][j], "APRIORI-MISMATCH") && diverged == "" {
				diverged = fmt.Sprintf("goroutine %d op %s: %s", g, ops[oi].Name, clip(got[g][j]))
			}
			if strings.HasPrefix(want[oi], "APRIORI-MISMATCH") && diverged == "" {
				diverged = fmt.Sprintf("sequential pass, op %s: %s", ops[oi].Name, clip(want[oi]))
			}
			if got[g][j] != want[oi] && diverged == "" {
				diverged = fmt.Sprintf("goroutine %d op %s: concurrent result %q, sequential result %q", g, ops[oi].Name, clip(got[g][j]), clip(want[oi]))
			}
		}
	}
	if diverged == "" {
		if msg := SharedHintsIntact(); msg != "" {
			diverged = "hints map shared by the goroutines: " + msg
		}
	}
	return
}

func clip(s string) string {
	if len(s) > 300 {
		return s[:300] + "…"
	}
	return s
}

// Driver is the C18 driver body shared by both builds.  snapshot is nil in the
// race build; in the verif build it hashes every package-level table.
func Driver(c *fw.Ctx, snapshot func() uint64, prefix string) {
	rounds := c.Pick(24, 400)
	ks := []int{2, 4, 16, 64}
	procs := []int{2, 4, 16}
	for i := 0; i < rounds; i++ {
		i := i
		c.Run(fmt.Sprintf("%s/round/%d", prefix, i), func(r *fw.Rec) {
			k := ks[i%4]
			p := procs[(i/4)%3]
			opsPerG := 6
			if k >= 16 {
				opsPerG = 4
			}
			var before uint64
			if snapshot != nil {
				before = snapshot()
			}
			div, nops, names, pairs := Round(r.Rng, k, p, opsPerG)
			r.Evals(int64(nops))
			if div != "" {
				r.Violation("divergence", "concurrent-result-differs-from-sequential", fmt.Sprintf("K=%d GOMAXPROCS=%d: %s", k, p, div), map[string]interface{}{"k": k, "gomaxprocs": p})
				return
			}
			if snapshot != nil {
				if after := snapshot(); after != before {
					r.Violation("shared-state", "package-level-table-changed-during-concurrent-run", fmt.Sprintf("K=%d GOMAXPROCS=%d: snapshot of the library's package-level tables changed (%x -> %x)", k, p, before, after), map[string]interface{}{"k": k, "gomaxprocs": p})
					return
				}
				r.Tally(prefix + "_snapshots_unchanged")
			}
			r.Tally(prefix + "_rounds")
			r.TallyN(prefix+"_concurrent_ops", int64(nops))
			r.Tally(fmt.Sprintf("%s_rounds_K%d", prefix, k))
			r.Tally(fmt.Sprintf("%s_rounds_GOMAXPROCS%d", prefix, p))
			for n, cnt := range names {
				r.TallyN(prefix+"_ops_"+n, int64(cnt))
			}
			for pr := range pairs {
				r.Nontrivial(prefix + "|pair|" + pr)
			}
			r.Nontrivial(fmt.Sprintf("%s|round|%d", prefix, i))
			if i == 0 {
				r.Sample(map[string]interface{}{"build": prefix, "round": i, "goroutines": k, "gomaxprocs": p, "ops_per_goroutine": opsPerG, "op_kinds": names})
			}
		})
	}
	c.Floor(prefix+"_rounds", int64(rounds*8/10))
}
