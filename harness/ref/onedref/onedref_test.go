package onedref

import (
	"bytes"
	"math/rand"
	"strings"
	"testing"
)

// ---------------------------------------------------------------------------
// EAN / UPC
// ---------------------------------------------------------------------------

func TestMod10Anchors(t *testing.T) {
	cases := []struct {
		in   string
		want int
	}{
		{"400638133393", 1}, // EAN-13 4006381333931
		{"03600029145", 2},  // UPC-A 036000291452
		{"7351353", 7},      // EAN-8 73513537
		{"978030640615", 7}, // ISBN-13 978-0-306-40615-7
		{"590123412345", 7}, // EAN-13 5901234123457
		{"04210000526", 4},  // UPC-A 0 42100 00526 4
		{"01234500006", 5},  // UPC-A 012345000065 (UPC-E 01234565)
		{"", 0},
	}
	for _, c := range cases {
		if got := Mod10(c.in); got != c.want {
			t.Errorf("Mod10(%q) = %d, want %d", c.in, got, c.want)
		}
	}
	if Mod10("12a") != -1 {
		t.Error("Mod10 of non-digits should be -1")
	}
}

func TestPatternLengths(t *testing.T) {
	if n := len(EAN13Pattern("4006381333931")); n != 95 {
		t.Errorf("EAN-13 %d", n)
	}
	if n := len(EAN8Pattern("73513537")); n != 67 {
		t.Errorf("EAN-8 %d", n)
	}
	if n := len(UPCAPattern("036000291452")); n != 95 {
		t.Errorf("UPC-A %d", n)
	}
	if n := len(UPCEPattern("04252614")); n != 51 {
		t.Errorf("UPC-E %d", n)
	}
	if n := len(EAN2AddOn(34, 34)); n != 20 {
		t.Errorf("EAN-2 %d", n)
	}
	if n := len(EAN5AddOn("52495", 1)); n != 47 {
		t.Errorf("EAN-5 %d", n)
	}
	if g := AddOnGap(); g < 7 || g > 12 {
		t.Errorf("gap %d", g)
	}
	if EAN13Pattern("123") != nil || EAN8Pattern("1234567x") != nil || UPCEPattern("24252614") != nil {
		t.Error("malformed input must give nil")
	}
}

func countRuns(s string) (n int) {
	for i := 0; i < len(s); i++ {
		if i == 0 || s[i] != s[i-1] {
			n++
		}
	}
	return
}

func TestEANNumberSets(t *testing.T) {
	seen := map[string]string{}
	for d := 0; d < 10; d++ {
		for _, set := range []byte{'L', 'G', 'R'} {
			p := EANDigit(d, set)
			if len(p) != 7 || countRuns(p) != 4 {
				t.Errorf("%c%d = %s: want 7 modules in 4 runs", set, d, p)
			}
			ones := strings.Count(p, "1")
			switch set {
			case 'L':
				if ones%2 != 1 || p[0] != '0' || p[6] != '1' {
					t.Errorf("L%d = %s: odd parity, space first, bar last", d, p)
				}
			case 'G':
				if ones%2 != 0 || p[0] != '0' || p[6] != '1' {
					t.Errorf("G%d = %s: even parity, space first, bar last", d, p)
				}
			case 'R':
				if ones%2 != 0 || p[0] != '1' || p[6] != '0' {
					t.Errorf("R%d = %s: even parity, bar first, space last", d, p)
				}
			}
			if prev, dup := seen[p]; dup {
				t.Errorf("%c%d duplicates %s", set, d, prev)
			}
			seen[p] = string(set) + string(rune('0'+d))
		}
	}
	// Second, independent entry of set A as run widths (space bar space bar).
	widths := [10]string{"3211", "2221", "2122", "1411", "1132", "1231", "1114", "1312", "1213", "3112"}
	for d := 0; d < 10; d++ {
		s := ""
		c := "0"
		for _, w := range widths[d] {
			s += strings.Repeat(c, int(w-'0'))
			if c == "0" {
				c = "1"
			} else {
				c = "0"
			}
		}
		if s != eanL[d] {
			t.Errorf("L%d: modules %s, widths give %s", d, eanL[d], s)
		}
	}
}

func TestParityTables(t *testing.T) {
	seen := map[string]bool{}
	for d, p := range ean13Parity {
		if len(p) != 6 || p[0] != 'L' {
			t.Errorf("ean13 parity %d = %s", d, p)
		}
		g := strings.Count(p, "G")
		if (d == 0 && g != 0) || (d > 0 && g != 3) {
			t.Errorf("ean13 parity %d = %s: G count %d", d, p, g)
		}
		if seen[p] {
			t.Errorf("ean13 parity %s twice", p)
		}
		seen[p] = true
		// UPC-E number system 0 uses the opposite number sets of EAN-13 first digit d.
		inv := strings.Map(func(r rune) rune {
			if r == 'L' {
				return 'G'
			}
			return 'L'
		}, p)
		// (Digit 0 is the exception: EAN-13 keeps LLLLLL for UPC-A
		// compatibility, UPC-E uses EEEOOO.)
		if d == 0 {
			inv = "GGGLLL"
		}
		if upceParityNS0[d] != inv || strings.Count(upceParityNS0[d], "G") != 3 {
			t.Errorf("UPC-E parity %d = %s, want inverse of EAN-13 %s", d, upceParityNS0[d], p)
		}
	}
	seen5 := map[string]bool{}
	for d, p := range ean5Parity {
		if len(p) != 5 || strings.Count(p, "G") != 2 || seen5[p] {
			t.Errorf("ean5 parity %d = %s", d, p)
		}
		seen5[p] = true
	}
}

// decodeEANModules is a small table-lookup decoder used only for round trips.
func decodeEANModules(t *testing.T, p []bool, pos int) (digit int, set byte) {
	s := PatternString(p[pos : pos+7])
	for d := 0; d < 10; d++ {
		for _, k := range []byte{'L', 'G', 'R'} {
			if EANDigit(d, k) == s {
				return d, k
			}
		}
	}
	t.Fatalf("no digit at %d: %s", pos, s)
	return
}

func TestEAN13Structure(t *testing.T) {
	p := EAN13Pattern("4006381333931")
	s := PatternString(p)
	if s[0:3] != "101" || s[45:50] != "01010" || s[92:95] != "101" {
		t.Fatalf("guards wrong: %s", s)
	}
	got := ""
	sets := ""
	for i := 0; i < 6; i++ {
		d, k := decodeEANModules(t, p, 3+7*i)
		got += string(rune('0' + d))
		sets += string(k)
	}
	for i := 0; i < 6; i++ {
		d, k := decodeEANModules(t, p, 50+7*i)
		got += string(rune('0' + d))
		sets += string(k)
	}
	if got != "006381333931" || sets != "LGLLGGRRRRRR" {
		t.Errorf("decoded %s sets %s", got, sets)
	}
	if PatternString(UPCAPattern("036000291452")) != PatternString(EAN13Pattern("0036000291452")) {
		t.Error("UPC-A != EAN-13 with leading 0")
	}
	// UPC-A 036000291452 written out by hand from the L and R tables.
	want := "101" +
		"0001101" + "0111101" + "0101111" + "0001101" + "0001101" + "0001101" +
		"01010" +
		"1101100" + "1110100" + "1100110" + "1011100" + "1001110" + "1101100" +
		"101"
	if PatternString(UPCAPattern("036000291452")) != want {
		t.Errorf("UPC-A 036000291452:\n got %s\nwant %s", PatternString(UPCAPattern("036000291452")), want)
	}
}

func TestUPCE(t *testing.T) {
	if got := UPCEExpand("425261", '0'); got != "04210000526" {
		t.Errorf("expand 425261 = %s", got)
	}
	if got := UPCEExpand("123456", '0'); got != "01234500006" {
		t.Errorf("expand 123456 = %s", got)
	}
	// one example per rule (GS1 GenSpecs zero-suppression table)
	cases := []struct{ e, a string }{
		{"123450", "01200000345"},
		{"123451", "01210000345"},
		{"123452", "01220000345"},
		{"123453", "01230000045"},
		{"123454", "01234000005"},
		{"123455", "01234500005"},
		{"123459", "01234500009"},
	}
	for _, c := range cases {
		if got := UPCEExpand(c.e, '0'); got != c.a {
			t.Errorf("expand %s = %s want %s", c.e, got, c.a)
		}
		if got, ok := UPCESuppress(c.a); !ok || got != c.e {
			t.Errorf("suppress %s = %s,%v want %s", c.a, got, ok, c.e)
		}
		if got := UPCEExpand(c.e, '1'); got != "1"+c.a[1:] {
			t.Errorf("expand NS1 %s = %s", c.e, got)
		}
	}
	for _, bad := range []string{"01234567890", "01234500004", "01230000100", "21200000345", "0120000034"} {
		if s, ok := UPCESuppress(bad); ok {
			t.Errorf("suppress %s = %s, want not suppressible", bad, s)
		}
	}
	// 04252614: check digit 4, number system 0 -> E O E E O O = G L G G L L
	p := UPCEPattern("04252614")
	s := PatternString(p)
	if s[0:3] != "101" || s[45:] != "010101" {
		t.Fatalf("UPC-E guards: %s", s)
	}
	got, sets := "", ""
	for i := 0; i < 6; i++ {
		d, k := decodeEANModules(t, p, 3+7*i)
		got += string(rune('0' + d))
		sets += string(k)
	}
	if got != "425261" || sets != "GLGGLL" {
		t.Errorf("UPC-E decoded %s sets %s", got, sets)
	}
	p = UPCEPattern("14252614")
	sets = ""
	for i := 0; i < 6; i++ {
		_, k := decodeEANModules(t, p, 3+7*i)
		sets += string(k)
	}
	if sets != "LGLLGG" {
		t.Errorf("UPC-E NS1 sets %s", sets)
	}
}

func TestUPCEExhaustive(t *testing.T) {
	// every 6-digit string: suppress(expand(e)) expands to the same number,
	// and is e itself unless e is one of the redundant spellings.
	redundant := 0
	for n := 0; n < 1000000; n++ {
		e := []byte("000000")
		for i, v := 5, n; i >= 0; i-- {
			e[i] = byte('0' + v%10)
			v /= 10
		}
		a := UPCEExpand(string(e), '0')
		if len(a) != 11 {
			t.Fatalf("expand %s = %q", e, a)
		}
		s, ok := UPCESuppress(a)
		if !ok {
			t.Fatalf("expand(%s)=%s not suppressible", e, a)
		}
		if UPCEExpand(s, '0') != a {
			t.Fatalf("expand(suppress(%s)=%s) != %s", a, s, a)
		}
		if s != string(e) {
			redundant++
		}
	}
	// Redundant spellings: xx[0-2]yy3 (30000), xxx0y4 (10000), xxxx0[5-9] (50000).
	if redundant != 30000+10000+50000 {
		t.Errorf("redundant UPC-E spellings: %d", redundant)
	}
}

func TestAddOns(t *testing.T) {
	if EAN5Check("52495") != 1 { // 15+18+12+81+15 = 141
		t.Errorf("EAN5Check(52495) = %d", EAN5Check("52495"))
	}
	if EAN5Check("51995") != 7 { // 3*(5+9+5) + 9*(1+9) = 147
		t.Errorf("EAN5Check(51995) = %d", EAN5Check("51995"))
	}
	if EAN5Check("90000") != 7 { // 27
		t.Errorf("EAN5Check(90000) = %d", EAN5Check("90000"))
	}
	p := EAN5AddOn("52495", 1)
	s := PatternString(p)
	if s[0:4] != "1011" {
		t.Fatalf("EAN-5 start %s", s)
	}
	got, sets := "", ""
	for i := 0; i < 5; i++ {
		if i > 0 && s[4+9*i-2:4+9*i] != "01" {
			t.Errorf("EAN-5 delineator %d", i)
		}
		d, k := decodeEANModules(t, p, 4+9*i)
		got += string(rune('0' + d))
		sets += string(k)
	}
	if got != "52495" || sets != "GLGLL" {
		t.Errorf("EAN-5 decoded %s sets %s", got, sets)
	}
	for v := 0; v < 100; v++ {
		p := EAN2AddOn(v, v)
		s := PatternString(p)
		if s[0:4] != "1011" || s[11:13] != "01" {
			t.Fatalf("EAN-2 %d: %s", v, s)
		}
		d1, k1 := decodeEANModules(t, p, 4)
		d2, k2 := decodeEANModules(t, p, 13)
		want := [4]string{"LL", "LG", "GL", "GG"}[v%4]
		if d1*10+d2 != v || string(k1)+string(k2) != want {
			t.Errorf("EAN-2 %d: %d%d %c%c", v, d1, d2, k1, k2)
		}
	}
	// 34 written by hand: 34 mod 4 = 2 -> G L; G3 = 0100001, L4 = 0100011
	if got := PatternString(EAN2AddOn(34, 34)); got != "1011"+"0100001"+"01"+"0100011" {
		t.Errorf("EAN-2 34 = %s", got)
	}
}

// ---------------------------------------------------------------------------
// Code 128
// ---------------------------------------------------------------------------

func TestCode128Table(t *testing.T) {
	seen := map[string]int{}
	for v := 0; v <= 105; v++ {
		w := Code128Widths(v)
		if len(w) != 6 {
			t.Fatalf("value %d: %d elements", v, len(w))
		}
		sum, bars := 0, 0
		for i, x := range w {
			if x < 1 || x > 4 {
				t.Errorf("value %d: element %d", v, x)
			}
			sum += x
			if i%2 == 0 {
				bars += x
			}
		}
		if sum != 11 || bars%2 != 0 {
			t.Errorf("value %d (%s): %d modules, %d bar modules (must be 11 / even)", v, code128Widths[v], sum, bars)
		}
		if prev, dup := seen[code128Widths[v]]; dup {
			t.Errorf("value %d duplicates %d", v, prev)
		}
		seen[code128Widths[v]] = v
	}
	if code128Widths[106] != "2331112" {
		t.Error("stop")
	}
	// The stop character's first six elements must not be a data character
	// and neither may its reverse reading be.
	if _, dup := seen["233111"]; dup {
		t.Error("stop prefix collides")
	}
	// Number of 6-element / 11-module / even-bar patterns with elements 1..4.
	n := 0
	for x := 0; x < 4096; x++ {
		sum, bars := 0, 0
		for i, y := 0, x; i < 6; i++ {
			e := y%4 + 1
			y /= 4
			sum += e
			if i%2 == 0 {
				bars += e
			}
		}
		if sum == 11 && bars%2 == 0 {
			n++
		}
	}
	t.Logf("possible (11,3) even-parity patterns: %d, used: %d", n, len(seen))
	if n < 106 {
		t.Errorf("only %d possible patterns", n)
	}
}

func TestCode128Check(t *testing.T) {
	v, ok := Code128Values([]byte("PJJ123C"), 'A')
	if !ok || Code128Check(v) != 54 {
		t.Errorf("PJJ123C set A: %v check %d, want 54", v, Code128Check(v))
	}
	want := []int{103, 48, 42, 42, 17, 18, 19, 35}
	for i := range want {
		if v[i] != want[i] {
			t.Errorf("PJJ123C values %v", v)
			break
		}
	}
	v, _ = Code128Values([]byte("PJJ123C"), 'B')
	if Code128Check(v) != 55 {
		t.Errorf("PJJ123C set B: check %d, want 55", Code128Check(v))
	}
	// "HI345678" from the ISO 15417 annex style example: Start B H I CodeC 34 56 78
	v, _ = Code128Values([]byte("HI345678"), 0)
	want = []int{104, 40, 41, 99, 34, 56, 78}
	if len(v) != len(want) {
		t.Fatalf("HI345678: %v", v)
	}
	for i := range want {
		if v[i] != want[i] {
			t.Fatalf("HI345678: %v", v)
		}
	}
	// 104 + 40 + 82 + 297 + 136 + 280 + 468 = 1407 = 13*103 + 68
	if Code128Check(v) != 68 {
		t.Errorf("HI345678 check %d", Code128Check(v))
	}
	if n := len(Code128Pattern(append(v, 68))); n != 11*8+13 {
		t.Errorf("pattern length %d", n)
	}
}

func TestCode128RoundTrip(t *testing.T) {
	rnd := rand.New(rand.NewSource(1))
	for it := 0; it < 20000; it++ {
		n := rnd.Intn(24)
		text := make([]byte, n)
		for i := range text {
			switch rnd.Intn(4) {
			case 0:
				text[i] = byte('0' + rnd.Intn(10))
			case 1:
				text[i] = byte(rnd.Intn(32))
			case 2:
				text[i] = byte(96 + rnd.Intn(32))
			default:
				text[i] = byte(rnd.Intn(128))
			}
		}
		v, ok := Code128Values(text, 0)
		if !ok {
			t.Fatalf("auto failed on %q", text)
		}
		back, ok := Code128Decode(v)
		if !ok || !bytes.Equal(back, text) {
			t.Fatalf("round trip %q -> %v -> %q %v", text, v, back, ok)
		}
		for _, set := range []byte{'A', 'B', 'C'} {
			v, ok := Code128Values(text, set)
			if !ok {
				continue
			}
			back, ok := Code128Decode(v)
			if !ok || !bytes.Equal(back, text) {
				t.Fatalf("round trip set %c %q -> %v -> %q %v", set, text, v, back, ok)
			}
		}
	}
	if _, ok := Code128Values([]byte{200}, 0); ok {
		t.Error("byte 200 accepted")
	}
	if _, ok := Code128Values([]byte("123"), 'C'); ok {
		t.Error("odd digits accepted in set C")
	}
	if _, ok := Code128Values([]byte("a"), 'A'); ok {
		t.Error("lower case accepted in set A")
	}
	if _, ok := Code128Decode([]int{104, 102, 33}); ok {
		t.Error("FNC1 accepted")
	}
	// Shift: Start B, 'a', SHIFT, NUL(64), 'b'
	if b, ok := Code128Decode([]int{104, 65, 98, 64, 66}); !ok || string(b) != "a\x00b" {
		t.Errorf("shift decode %q %v", b, ok)
	}
}

// ---------------------------------------------------------------------------
// Code 93
// ---------------------------------------------------------------------------

func TestCode93Table(t *testing.T) {
	// Second entry of the same table as run widths (bar space bar space bar space).
	widths := [48]string{
		"131112", "111213", "111312", "111411", "121113", "121212", "121311", "111114", "131211", "141111",
		"211113", "211212", "211311", "221112", "221211", "231111", "112113", "112212", "112311", "122112",
		"132111", "111123", "111222", "111321", "121122", "131121", "212112", "212211", "211122", "211221",
		"221121", "222111", "112122", "112221", "122121", "123111", "121131", "311112", "311211", "321111",
		"112131", "113121", "211131", "121221", "312111", "311121", "122211", "111141",
	}
	seen := map[string]int{}
	for v := 0; v < 48; v++ {
		m := code93Modules[v]
		if len(m) != 9 || m[0] != '1' || m[8] != '0' || countRuns(m) != 6 {
			t.Errorf("value %d: %s", v, m)
		}
		w := []int{}
		for _, c := range widths[v] {
			w = append(w, int(c-'0'))
		}
		if got := PatternString(runs(nil, w)); got != m {
			t.Errorf("value %d: modules %s, widths %s give %s", v, m, widths[v], got)
		}
		if prev, dup := seen[m]; dup {
			t.Errorf("value %d duplicates %d", v, prev)
		}
		seen[m] = v
	}
	if len(Code93Alphabet) != 47 {
		t.Error("alphabet length")
	}
}

func TestCode93Checks(t *testing.T) {
	v, ok := Code93Values([]byte("TEST93"))
	if !ok {
		t.Fatal("TEST93 not encodable")
	}
	c, k := Code93Checks(v)
	if c != 41 || k != 6 || Code93Alphabet[c] != '+' || Code93Alphabet[k] != '6' {
		t.Errorf("TEST93 checks %d %d", c, k)
	}
	if n := len(Code93Pattern(append(v, c, k))); n != 9*10+1 {
		t.Errorf("pattern length %d", n)
	}
	// weights wrap: 21 characters '1' -> C = (1+..+20 + 1) mod 47 = 211 mod 47 = 23
	ones := make([]int, 21)
	for i := range ones {
		ones[i] = 1
	}
	c, k = Code93Checks(ones)
	if c != 23 {
		t.Errorf("C of 21 ones = %d", c)
	}
	// K over 22 values: 23*1 + (2+..+15)*1 + (1+..+7)*1 = 23 + 119 + 28 = 170 mod 47 = 29
	if k != 29 {
		t.Errorf("K of 21 ones = %d", k)
	}
}

func TestCode93RoundTrip(t *testing.T) {
	for b := 0; b < 128; b++ {
		v, ok := Code93Values([]byte{byte(b)})
		if !ok || len(v) < 1 || len(v) > 2 {
			t.Fatalf("byte %d: %v %v", b, v, ok)
		}
		back, ok := Code93DecodeValues(v)
		if !ok || len(back) != 1 || back[0] != byte(b) {
			t.Errorf("byte %d -> %v -> %v", b, v, back)
		}
	}
	if _, ok := Code93Values([]byte{128}); ok {
		t.Error("byte 128 accepted")
	}
	// spot checks of the full-ASCII table
	spots := map[byte]string{0: "bU", 1: "aA", 26: "aZ", 27: "bA", 31: "bE", '!': "cA", ',': "cL", ':': "cZ",
		';': "bF", '?': "bJ", '@': "bV", '[': "bK", '_': "bO", '`': "bW", 'a': "dA", 'z': "dZ", '{': "bP", 127: "bT",
		'$': "$", '%': "%", '+': "+", '/': "/", '-': "-", '.': ".", ' ': " "}
	for b, want := range spots {
		v, _ := Code93Values([]byte{b})
		got := ""
		for _, x := range v {
			got += string(Code93Alphabet[x])
		}
		if got != want {
			t.Errorf("byte %d: %s want %s", b, got, want)
		}
	}
	for _, bad := range [][]int{{43}, {43, 5}, {45, 10 + 15}, {45, 10 + 24}, {46, 36}} {
		if _, ok := Code93DecodeValues(bad); ok {
			t.Errorf("%v accepted", bad)
		}
	}
	for _, del := range []int{33, 34, 35} { // (%)X (%)Y (%)Z
		if b, ok := Code93DecodeValues([]int{44, del}); !ok || b[0] != 127 {
			t.Errorf("(%%)%c -> %v %v", Code93Alphabet[del], b, ok)
		}
	}
}

// ---------------------------------------------------------------------------
// Code 39
// ---------------------------------------------------------------------------

func TestCode39Table(t *testing.T) {
	// Structural construction: bars carry a 2-of-5 code (weights 1 2 4 7 P),
	// one wide space selects the group of ten; $ / + % have three wide spaces.
	barCode := func(n int) string { // n = 1..10, 10 -> 4+7
		w := [4]int{1, 2, 4, 7}
		if n == 10 {
			n = 11
		}
		for a := 0; a < 4; a++ {
			if w[a] == n {
				b := []byte("NNNNW")
				b[a] = 'W'
				return string(b)
			}
			for c := a + 1; c < 4; c++ {
				if w[a]+w[c] == n {
					b := []byte("NNNNN")
					b[a], b[c] = 'W', 'W'
					return string(b)
				}
			}
		}
		return ""
	}
	build := func(bars, spaces string) string {
		e := make([]byte, 9)
		for i := 0; i < 5; i++ {
			e[2*i] = bars[i]
		}
		for i := 0; i < 4; i++ {
			e[2*i+1] = spaces[i]
		}
		return string(e)
	}
	groups := []struct{ chars, spaces string }{
		{"1234567890", "NWNN"},
		{"ABCDEFGHIJ", "NNWN"},
		{"KLMNOPQRST", "NNNW"},
		{"UVWXYZ-. *", "WNNN"},
	}
	seen := map[string]byte{}
	for _, g := range groups {
		for i := 0; i < 10; i++ {
			want := build(barCode(i+1), g.spaces)
			got := Code39Elements(g.chars[i])
			if got != want {
				t.Errorf("%q: table %s, structure %s", g.chars[i], got, want)
			}
			seen[got] = g.chars[i]
		}
	}
	special := map[byte]string{'$': "WWWN", '/': "WWNW", '+': "WNWW", '%': "NWWW"}
	for ch, sp := range special {
		want := build("NNNNN", sp)
		if got := Code39Elements(ch); got != want {
			t.Errorf("%q: table %s, structure %s", ch, got, want)
		}
		seen[Code39Elements(ch)] = ch
	}
	if len(seen) != 44 {
		t.Errorf("%d distinct patterns", len(seen))
	}
	if len(Code39Alphabet) != 43 {
		t.Error("alphabet length")
	}
}

func TestCode39(t *testing.T) {
	if n := len(Code39Pattern("CODE39")); n != 13*8-1 {
		t.Errorf("pattern length %d", n)
	}
	// '*' = NWNNWNWNN with narrow 1 / wide 2
	if s := PatternString(Code39Pattern("")); s != "100101101101"+"0"+"100101101101" {
		t.Errorf("empty symbol %s", s)
	}
	if s := PatternString(Code39Pattern("A")); s != "100101101101"+"0"+"110101001011"+"0"+"100101101101" {
		t.Errorf("*A* = %s", s)
	}
	if Code39Pattern("a") != nil || Code39Pattern("*") != nil {
		t.Error("invalid characters accepted")
	}
	// C=12 O=24 D=13 E=14 3 9 -> 75 mod 43 = 32 = 'W'
	if c := Code39Mod43("CODE39"); c != 'W' {
		t.Errorf("mod43 CODE39 = %c", c)
	}
	// with the space (38): 113 mod 43 = 27 = 'R'
	if c := Code39Mod43("CODE 39"); c != 'R' {
		t.Errorf("mod43 'CODE 39' = %c", c)
	}
	// 1+2+3+4+5+6+7+8+9+0 = 45 mod 43 = 2
	if c := Code39Mod43("1234567890"); c != '2' {
		t.Errorf("mod43 digits = %c", c)
	}
	if c := Code39Mod43("%"); c != '%' {
		t.Errorf("mod43 %% = %c", c)
	}
	for b := 0; b < 128; b++ {
		s, ok := Code39Extended([]byte{byte(b)})
		if !ok || len(s) < 1 || len(s) > 2 || Code39Pattern(s) == nil {
			t.Fatalf("byte %d: %q %v", b, s, ok)
		}
		back, ok := Code39ExtendedDecode(s)
		if !ok || len(back) != 1 || back[0] != byte(b) {
			t.Errorf("byte %d -> %q -> %v", b, s, back)
		}
	}
	spots := map[byte]string{0: "%U", 1: "$A", 26: "$Z", 27: "%A", 31: "%E", '!': "/A", '$': "/D", '%': "/E",
		'+': "/K", ',': "/L", '/': "/O", ':': "/Z", ';': "%F", '?': "%J", '@': "%V", '[': "%K", '_': "%O",
		'`': "%W", 'a': "+A", 'z': "+Z", '{': "%P", 127: "%T", '-': "-", '.': ".", ' ': " ", '5': "5", 'Q': "Q"}
	for b, want := range spots {
		if got, _ := Code39Extended([]byte{b}); got != want {
			t.Errorf("byte %d: %s want %s", b, got, want)
		}
	}
	if _, ok := Code39Extended([]byte{0x80}); ok {
		t.Error("byte 128 accepted")
	}
}

// ---------------------------------------------------------------------------
// ITF
// ---------------------------------------------------------------------------

func TestITF(t *testing.T) {
	w := [5]int{1, 2, 4, 7, 0}
	seen := map[string]bool{}
	for d := 0; d < 10; d++ {
		e := itfElements[d]
		sum, wide := 0, 0
		for i := 0; i < 5; i++ {
			if e[i] == 'W' {
				sum += w[i]
				wide++
			}
		}
		if d == 0 {
			sum -= 11
		} else {
			sum -= d
		}
		if wide != 2 || sum != 0 || seen[e] {
			t.Errorf("digit %d: %s", d, e)
		}
		seen[e] = true
	}
	// "12": 1 = WNNNW in bars, 2 = NWNNW in spaces
	want := "1010" + "111" + "0" + "1" + "000" + "1" + "0" + "1" + "0" + "111" + "000" + "11101"
	if got := PatternString(ITFPattern("12")); got != want {
		t.Errorf("ITF 12 = %s want %s", got, want)
	}
	if n := len(ITFPattern("00123456789012")); n != 4+9*14+5 {
		t.Errorf("ITF-14 length %d", n)
	}
	if ITFPattern("123") != nil || ITFPattern("1a") != nil {
		t.Error("invalid ITF input accepted")
	}
}

// ---------------------------------------------------------------------------
// Codabar
// ---------------------------------------------------------------------------

func TestCodabar(t *testing.T) {
	// Second entry: module strings at narrow 1 / wide 2.
	modules := map[byte]string{
		'0': "101010011", '1': "101011001", '2': "101001011", '3': "110010101", '4': "101101001",
		'5': "110101001", '6': "100101011", '7': "100101101", '8': "100110101", '9': "110100101",
		'-': "101001101", '$': "101100101", ':': "1101011011", '/': "1101101011", '.': "1101101101",
		'+': "1011011011", 'A': "1011001001", 'B': "1001001011", 'C': "1010010011", 'D': "1010011001",
	}
	seen := map[string]bool{}
	for i := 0; i < len(CodabarAlphabet); i++ {
		ch := CodabarAlphabet[i]
		got := PatternString(CodabarPattern(string(ch)))
		if got != modules[ch] {
			t.Errorf("%c: %s want %s", ch, got, modules[ch])
		}
		if seen[got] {
			t.Errorf("%c duplicate", ch)
		}
		seen[got] = true
		e := codabarElements[i]
		wide := strings.Count(e, "1")
		switch {
		case i < 12: // 0-9 - $  one wide bar and one wide space
			wb := strings.Count(string([]byte{e[0], e[2], e[4], e[6]}), "1")
			if wide != 2 || wb != 1 {
				t.Errorf("%c: %s", ch, e)
			}
		case i < 16: // : / . + : three wide bars, no wide space
			if wide != 3 || e[1] != '0' || e[3] != '0' || e[5] != '0' {
				t.Errorf("%c: %s", ch, e)
			}
		default: // start/stop: one wide bar, two wide spaces
			wb := strings.Count(string([]byte{e[0], e[2], e[4], e[6]}), "1")
			if wide != 3 || wb != 1 {
				t.Errorf("%c: %s", ch, e)
			}
		}
	}
	a := PatternString(CodabarPattern("A40156B"))
	if a != PatternString(CodabarPattern("T40156N")) {
		t.Error("T/N aliases")
	}
	if PatternString(CodabarPattern("C1D")) != PatternString(CodabarPattern("*1E")) {
		t.Error("*/E aliases")
	}
	if want := modules['A'] + "0" + modules['4'] + "0" + modules['0'] + "0" + modules['1'] + "0" + modules['5'] + "0" + modules['6'] + "0" + modules['B']; a != want {
		t.Errorf("A40156B = %s", a)
	}
	if CodabarPattern("A1X") != nil {
		t.Error("invalid character accepted")
	}
}
