// vcheck is the orchestrator: it rebuilds the worker from /repo's current
// working tree, shards the deterministic case list over worker processes,
// survives and attributes worker deaths, merges what the monitors observed,
// matches known findings, writes the evidence file and decides the verdict.
//
//	vcheck <Cxx> [--tier quick|thorough] [--replay file] [--shards n] [--keep]
//
// exit 0: held on everything observed (KNOWN-FINDING lines may be printed)
// exit 1: at least one violation not listed as a known finding (VIOLATION lines)
// exit 2: inconclusive / broken (build failure, reference self-test failure,
//
//	floor not reached, budget hit that did not reproduce, wall-clock watchdog)
package main

import (
	"bufio"
	"bytes"
	"crypto/sha1"
	"encoding/binary"
	"encoding/json"
	"fmt"
	"io/ioutil"
	"os"
	"os/exec"
	"path/filepath"
	"runtime"
	"sort"
	"strconv"
	"strings"
	"sync"
	"time"
)

const verifRoot = "/verif"

type event struct {
	T       string                 `json:"t"`
	ID      string                 `json:"id"`
	Kind    string                 `json:"kind"`
	Sig     string                 `json:"sig"`
	Detail  string                 `json:"detail"`
	Data    interface{}            `json:"data"`
	Evals   int64                  `json:"evals"`
	Tallies map[string]int64       `json:"tallies"`
	Maxes   map[string]int64       `json:"maxes"`
	Floors  map[string]int64       `json:"floors"`
	Samples []interface{}          `json:"samples"`
	Rule    string                 `json:"rule"`
	Notes   []string               `json:"notes"`
	Exh     []string               `json:"exhaustive"`
	Assume  []string               `json:"assumptions"`
	Extra   map[string]interface{} `json:"-"`
	CPU     float64                `json:"cpu_s"`
	HeapMB  int64                  `json:"heap_mb"`
	Enum    int64                  `json:"cases_enumerated"`
}

type finding struct {
	Status    string  `json:"status"`
	Property  string  `json:"property"`
	Signature string  `json:"signature"`
	What      string  `json:"what"`
	Commit    string  `json:"commit,omitempty"`
	MaxRate   float64 `json:"max_rate,omitempty"`
	RateOf    string  `json:"rate_of,omitempty"`    // tally key(s), comma separated, summed: the denominator
	CountFrom string  `json:"count_from,omitempty"` // optional tally-key prefix whose sum is the numerator (default: number of violation events)
}

type violation struct {
	ID, Kind, Sig, Detail string
	Data                  interface{}
}

var (
	prop     string
	tier     = "quick"
	seed     uint64
	nshards  = 16
	keep     bool
	replay   string
	workDir  string
	worker   string
	raceWkr  string
	goEnv    []string
	wallCap  = 20 * time.Minute
	extraArg []string
)

func main() {
	args := os.Args[1:]
	if len(args) == 0 {
		fmt.Println("usage: vcheck <Cxx> [--tier quick|thorough] [--replay file]")
		os.Exit(2)
	}
	prop = args[0]
	if t := os.Getenv("VERIF_TIER"); t == "quick" || t == "thorough" {
		tier = t
	}
	for i := 1; i < len(args); i++ {
		switch args[i] {
		case "--tier":
			i++
			tier = args[i]
		case "--replay":
			i++
			replay = args[i]
		case "--shards":
			i++
			nshards, _ = strconv.Atoi(args[i])
		case "--keep":
			keep = true
		default:
			extraArg = append(extraArg, args[i])
		}
	}
	seed = 1
	if s := os.Getenv("VERIF_SEED"); s != "" {
		if v, err := strconv.ParseUint(s, 10, 64); err == nil {
			seed = v
		}
	}
	if n := runtime.NumCPU(); nshards > n {
		nshards = n
	}
	if tier == "thorough" {
		wallCap = 90 * time.Minute
	}
	goEnv = append(os.Environ(), "GOFLAGS=-mod=mod", "GOPROXY=off", "GOSUMDB=off", "GOTOOLCHAIN=local", "CGO_ENABLED=1")
	os.Exit(run())
}

func run() int {
	t0 := time.Now()
	workDir = filepath.Join(verifRoot, "work", fmt.Sprintf("%s-%d", prop, os.Getpid()))
	os.MkdirAll(workDir, 0755)
	if !keep {
		defer os.RemoveAll(workDir)
	}
	// 1. rebuild the worker from /repo's current working tree
	worker = filepath.Join(workDir, "worker")
	if out, err := goBuild(worker, "-tags", "verif", "./worker"); err != nil {
		// Fall back to this property's own files: another driver that no longer compiles
		// against /repo's working tree must not take this check down with it.
		files, _ := filepath.Glob(filepath.Join(verifRoot, "harness", "worker", "*util*.go"))
		own, _ := filepath.Glob(filepath.Join(verifRoot, "harness", "worker", strings.ToLower(prop)+"*.go"))
		files = append(append([]string{filepath.Join(verifRoot, "harness", "worker", "main.go")}, files...), own...)
		if out2, err2 := goBuild(worker, append([]string{"-tags", "verif"}, files...)...); err2 != nil {
			fmt.Printf("BROKEN property=%s: worker does not build against /repo's working tree:\n%s\n%s\n", prop, out, out2)
			return 2
		}
		fmt.Printf("note: full worker package does not build (%s); built this property's files only\n", oneLine(out, 200))
	}
	if prop == "C18" {
		raceWkr = filepath.Join(workDir, "worker_race")
		if out, err := goBuild(raceWkr, "-race", "./worker18"); err != nil {
			fmt.Printf("BROKEN property=%s: race worker does not build:\n%s\n", prop, out)
			return 2
		}
	}
	// 2. reference self-test
	if out, err := exec.Command(worker, "-selftest").CombinedOutput(); err != nil {
		fmt.Printf("INCONCLUSIVE property=%s: reference self-test failed: %s\n", prop, out)
		return 2
	}
	if replay != "" {
		return doReplay()
	}
	res := runAll()
	return conclude(res, time.Since(t0))
}

func goBuild(out string, args ...string) (string, error) {
	a := []string{"build", "-o", out}
	if mf := os.Getenv("VERIF_GOMOD"); mf != "" { // development aid: build against a scratch worktree of /repo
		a = append(a, "-modfile="+mf)
	}
	a = append(a, args...)
	cmd := exec.Command("go", a...)
	cmd.Dir = filepath.Join(verifRoot, "harness")
	cmd.Env = goEnv
	b, err := cmd.CombinedOutput()
	return string(b), err
}

type result struct {
	evals        int64
	tallies      map[string]int64
	maxes        map[string]int64
	floors       map[string]int64
	samples      []interface{}
	rule         string
	notes        []string
	exh          map[string]bool
	assume       map[string]bool
	viols        []violation
	inconclusive []string
	distinct     int
	shardsDone   int
	enumerated   int64
}

func workerBin() string {
	if prop == "C18" && os.Getenv("VCHECK_C18_PHASE") == "race" {
		return raceWkr
	}
	return worker
}

// runShard runs one shard to completion, restarting after fatal deaths.
func runShard(bin string, shard int, phase string, res *result, mu *sync.Mutex) {
	logPath := filepath.Join(workDir, fmt.Sprintf("%s-shard%02d.jsonl", phase, shard))
	after := ""
	for attempt := 0; attempt < 40; attempt++ {
		os.Remove(logPath + ".cur")
		cur := logPath + ".cur"
		args := []string{"-prop", prop, "-tier", tier, "-seed", fmt.Sprint(seed), "-shard", fmt.Sprint(shard), "-nshards", fmt.Sprint(nshards), "-out", cur}
		if after != "" {
			args = append(args, "-after", after)
		}
		args = append(args, extraArg...)
		status, stderr := runWorker(bin, args, filepath.Join(workDir, fmt.Sprintf("%s-shard%02d.stderr", phase, shard)))
		evs := readEvents(cur)
		appendFile(logPath, cur)
		done := false
		lastBegin := ""
		var budget *event
		for i := range evs {
			switch evs[i].T {
			case "begin":
				lastBegin = evs[i].ID
			case "done":
				done = true
			case "budget":
				budget = &evs[i]
			}
		}
		mu.Lock()
		mergeEvents(res, evs)
		mergeKeys(res, cur+".keys")
		mu.Unlock()
		os.Remove(cur + ".keys")
		if done && status == 0 {
			mu.Lock()
			res.shardsDone++
			mu.Unlock()
			return
		}
		if status == -2 {
			mu.Lock()
			res.inconclusive = append(res.inconclusive, fmt.Sprintf("shard %d: wall-clock watchdog fired (case %q)", shard, lastBegin))
			mu.Unlock()
			return
		}
		if lastBegin == "" {
			mu.Lock()
			res.inconclusive = append(res.inconclusive, fmt.Sprintf("shard %d: worker died (status %d) before its first case: %s", shard, status, tail(stderr, 600)))
			mu.Unlock()
			return
		}
		// the worker died inside lastBegin: confirm alone
		kind := "fatal"
		detail := fmt.Sprintf("worker process died (exit status %d) while executing this case; stderr tail:\n%s", status, tail(stderr, 1500))
		if budget != nil {
			kind = "budget"
			detail = fmt.Sprintf("no result within budget: cpu %.1fs, live heap %d MiB", budget.CPU, budget.HeapMB)
		}
		solo := filepath.Join(workDir, fmt.Sprintf("%s-solo%02d-%d.jsonl", phase, shard, attempt))
		sargs := []string{"-prop", prop, "-tier", tier, "-seed", fmt.Sprint(seed), "-only", lastBegin, "-out", solo}
		sargs = append(sargs, extraArg...)
		st2, stderr2 := runWorker(bin, sargs, solo+".stderr")
		sevs := readEvents(solo)
		soloDone := false
		for _, e := range sevs {
			if e.T == "done" {
				soloDone = true
			}
		}
		mu.Lock()
		if st2 != 0 || !soloDone {
			sig := kind + ":" + fatalSite(stderr2)
			res.viols = append(res.viols, violation{ID: lastBegin, Kind: kind, Sig: sig, Detail: detail + "\n(reproduced when the case was run alone)"})
		} else {
			res.inconclusive = append(res.inconclusive, fmt.Sprintf("case %q: %s once (%s), but not when run alone", lastBegin, kind, firstLine(detail)))
		}
		mu.Unlock()
		after = lastBegin
	}
	mu.Lock()
	res.inconclusive = append(res.inconclusive, fmt.Sprintf("shard %d: gave up after 40 worker deaths", shard))
	mu.Unlock()
}

// fatalSite extracts a stable site from a Go fatal error / unrecovered panic dump.
func fatalSite(stderr string) string {
	first := ""
	for _, l := range strings.Split(stderr, "\n") {
		if strings.HasPrefix(l, "fatal error:") || strings.HasPrefix(l, "panic:") || strings.HasPrefix(l, "runtime: goroutine stack exceeds") {
			if first == "" {
				first = strings.TrimSpace(l)
			}
		}
		if strings.HasPrefix(l, "github.com/makiuchi-d/gozxing") {
			fn := l
			if j := strings.LastIndex(fn, "("); j > 0 {
				fn = fn[:j]
			}
			return first + "@" + strings.TrimPrefix(fn, "github.com/makiuchi-d/gozxing/")
		}
	}
	if first == "" {
		return "unknown"
	}
	return first
}

func tail(s string, n int) string {
	if len(s) > n {
		return "…" + s[len(s)-n:]
	}
	return s
}

func appendFile(dst, src string) {
	b, err := ioutil.ReadFile(src)
	if err != nil {
		return
	}
	f, err := os.OpenFile(dst, os.O_CREATE|os.O_APPEND|os.O_WRONLY, 0644)
	if err != nil {
		return
	}
	f.Write(b)
	f.Close()
	os.Remove(src)
}

// runWorker returns the exit status (-2 = wall-clock watchdog) and captured stderr (tail).
func runWorker(bin string, args []string, stderrPath string) (int, string) {
	cmd := exec.Command(bin, args...)
	ef, _ := os.Create(stderrPath)
	cmd.Stderr = ef
	cmd.Stdout = ef
	cmd.Env = append(append(os.Environ(), "GOTRACEBACK=single"), extraEnv...)
	if err := cmd.Start(); err != nil {
		return -1, err.Error()
	}
	doneCh := make(chan error, 1)
	go func() { doneCh <- cmd.Wait() }()
	status := 0
	select {
	case err := <-doneCh:
		if err != nil {
			if ee, ok := err.(*exec.ExitError); ok {
				status = ee.ExitCode()
				if status == 0 || status == -1 {
					status = 137
				}
			} else {
				status = -1
			}
		}
	case <-time.After(wallCap):
		cmd.Process.Kill()
		<-doneCh
		status = -2
	}
	ef.Close()
	b, _ := ioutil.ReadFile(stderrPath)
	if len(b) > 200000 {
		b = append(b[:100000], b[len(b)-100000:]...)
	}
	return status, string(b)
}

func readEvents(path string) []event {
	f, err := os.Open(path)
	if err != nil {
		return nil
	}
	defer f.Close()
	var evs []event
	sc := bufio.NewScanner(f)
	sc.Buffer(make([]byte, 1<<20), 64<<20)
	for sc.Scan() {
		line := sc.Bytes()
		if len(line) == 0 {
			continue
		}
		// fast path for begin records: keep only the last one per run of begins
		var e event
		if err := json.Unmarshal(line, &e); err != nil {
			continue // torn last line of a dying worker
		}
		if e.T == "begin" && len(evs) > 0 && evs[len(evs)-1].T == "begin" {
			evs[len(evs)-1] = e
			continue
		}
		evs = append(evs, e)
	}
	return evs
}

var allKeys []uint64

func mergeKeys(res *result, path string) {
	b, err := ioutil.ReadFile(path)
	if err != nil {
		return
	}
	for i := 0; i+8 <= len(b); i += 8 {
		allKeys = append(allKeys, binary.LittleEndian.Uint64(b[i:]))
	}
}

func mergeEvents(res *result, evs []event) {
	for _, e := range evs {
		switch e.T {
		case "viol":
			res.viols = append(res.viols, violation{ID: e.ID, Kind: e.Kind, Sig: e.Sig, Detail: e.Detail, Data: e.Data})
		case "inconclusive":
			res.inconclusive = append(res.inconclusive, fmt.Sprintf("case %q: %s", e.ID, e.Detail))
		case "done":
			res.evals += e.Evals
			res.enumerated = e.Enum
			for k, v := range e.Tallies {
				res.tallies[k] += v
			}
			for k, v := range e.Maxes {
				if old, ok := res.maxes[k]; !ok || v > old {
					res.maxes[k] = v
				}
			}
			for k, v := range e.Floors {
				res.floors[k] = v
			}
			if len(res.samples) < 8 {
				for _, s := range e.Samples {
					if len(res.samples) < 8 {
						res.samples = append(res.samples, s)
					}
				}
			}
			if e.Rule != "" {
				res.rule = e.Rule
			}
			for _, n := range e.Notes {
				found := false
				for _, o := range res.notes {
					if o == n {
						found = true
					}
				}
				if !found {
					res.notes = append(res.notes, n)
				}
			}
			for _, x := range e.Exh {
				res.exh[x] = true
			}
			for _, x := range e.Assume {
				res.assume[x] = true
			}
		}
	}
}

func newResult() *result {
	return &result{tallies: map[string]int64{}, maxes: map[string]int64{}, floors: map[string]int64{}, exh: map[string]bool{}, assume: map[string]bool{}}
}

func runPhase(bin, phase string, res *result) {
	var wg sync.WaitGroup
	var mu sync.Mutex
	par := runtime.NumCPU()
	if par > 16 {
		par = 16
	}
	sem := make(chan struct{}, par)
	for s := 0; s < nshards; s++ {
		wg.Add(1)
		go func(s int) {
			defer wg.Done()
			sem <- struct{}{}
			defer func() { <-sem }()
			runShard(bin, s, phase, res, &mu)
		}(s)
	}
	wg.Wait()
}

func runAll() *result {
	res := newResult()
	if prop == "C18" {
		runC18(res)
	} else {
		runPhase(worker, "main", res)
	}
	sort.Slice(allKeys, func(i, j int) bool { return allKeys[i] < allKeys[j] })
	n := 0
	for i := range allKeys {
		if i == 0 || allKeys[i] != allKeys[i-1] {
			n++
		}
	}
	res.distinct = n
	return res
}

func loadFindings() []finding {
	var doc struct {
		Findings []finding `json:"findings"`
	}
	b, err := ioutil.ReadFile(filepath.Join(verifRoot, "known_findings.json"))
	if err != nil {
		return nil
	}
	if err := json.Unmarshal(b, &doc); err != nil {
		fmt.Println("warning: known_findings.json does not parse:", err)
		return nil
	}
	return doc.Findings
}

// sigMatch: exact match, or a glob where '*' stands for any run of characters.
func sigMatch(pat, sig string) bool {
	if !strings.Contains(pat, "*") {
		return pat == sig
	}
	parts := strings.Split(pat, "*")
	if !strings.HasPrefix(sig, parts[0]) {
		return false
	}
	rest := sig[len(parts[0]):]
	for i := 1; i < len(parts); i++ {
		if i == len(parts)-1 {
			return strings.HasSuffix(rest, parts[i])
		}
		j := strings.Index(rest, parts[i])
		if j < 0 {
			return false
		}
		rest = rest[j+len(parts[i]):]
	}
	return true
}

func conclude(res *result, wall time.Duration) int {
	findings := loadFindings()
	known := map[int][]violation{}
	var unknown []violation
	for _, v := range res.viols {
		matched := -1
		for i, f := range findings {
			if f.Status == "open" && f.Property == prop && sigMatch(f.Signature, v.Sig) {
				matched = i
				break
			}
		}
		if matched >= 0 {
			known[matched] = append(known[matched], v)
		} else {
			unknown = append(unknown, v)
		}
	}
	// rate caps on known findings: above the cap it is a different problem.  The denominators are
	// tallies, which a worker reports when its shard ends: after a worker death (the shard is resumed
	// behind the case it died in) or an unfinished shard they are incomplete while the violation
	// events - the numerators - were streamed as they happened.  Such a run is INCONCLUSIVE anyway
	// (a note has been recorded); a rate computed from it would be an artefact of the harness.
	tallyComplete := len(res.inconclusive) == 0 && res.shardsDone >= expectedShards()
	for i, vs := range known {
		f := findings[i]
		if f.MaxRate > 0 && f.RateOf != "" && tallyComplete {
			var den int64
			for _, k := range strings.Split(f.RateOf, ",") {
				den += res.tallies[strings.TrimSpace(k)]
			}
			num := int64(len(vs))
			if f.CountFrom != "" {
				num = 0
				for k, v := range res.tallies {
					if strings.HasPrefix(k, f.CountFrom) {
						num += v
					}
				}
			}
			if den > 0 && float64(num) > f.MaxRate*float64(den) {
				unknown = append(unknown, violation{ID: vs[0].ID, Kind: "rate", Sig: "rate-above-known:" + f.Signature,
					Detail: fmt.Sprintf("%d occurrences of known finding %q among %d %s exceeds the recorded rate cap %.4f", num, f.Signature, den, f.RateOf, f.MaxRate), Data: vs[0].Data})
			}
		}
	}
	idx := make([]int, 0, len(known))
	for i := range known {
		idx = append(idx, i)
	}
	sort.Ints(idx)
	for _, i := range idx {
		fmt.Printf("KNOWN-FINDING: property=%s %s (signature %q, %d occurrence(s) this run, e.g. case %s)\n", prop, findings[i].What, findings[i].Signature, len(known[i]), known[i][0].ID)
	}
	// floors
	floorKeys := make([]string, 0, len(res.floors))
	for k := range res.floors {
		floorKeys = append(floorKeys, k)
	}
	sort.Strings(floorKeys)
	for _, k := range floorKeys {
		if res.tallies[k] < res.floors[k] {
			res.inconclusive = append(res.inconclusive, fmt.Sprintf("floor not reached: %s = %d < %d", k, res.tallies[k], res.floors[k]))
		}
	}
	if res.shardsDone < expectedShards() && len(res.inconclusive) == 0 && len(unknown) == 0 {
		res.inconclusive = append(res.inconclusive, fmt.Sprintf("only %d of %d shards completed", res.shardsDone, expectedShards()))
	}
	writeEvidence(res, wall, len(unknown), known, findings)
	// replay files + VIOLATION lines, grouped by signature
	bySig := map[string][]violation{}
	var sigs []string
	for _, v := range unknown {
		if _, ok := bySig[v.Sig]; !ok {
			sigs = append(sigs, v.Sig)
		}
		bySig[v.Sig] = append(bySig[v.Sig], v)
	}
	sort.Strings(sigs)
	printed := 0
	for _, s := range sigs {
		vs := bySig[s]
		for j, v := range vs {
			if j >= 1 {
				break
			}
			path := writeReplay(v)
			if printed < 14 {
				fmt.Printf("VIOLATION property=%s replay=%s kind=%s sig=%q case=%s (%d with this signature): %s\n", prop, path, v.Kind, v.Sig, v.ID, len(vs), oneLine(v.Detail, 240))
				printed++
			}
		}
	}
	summary := fmt.Sprintf("property=%s tier=%s seed=%d evaluations=%d distinct_nontrivial=%d violations=%d known=%d wall=%.1fs", prop, tier, seed, res.evals, res.distinct, len(unknown), len(res.viols)-len(unknown), wall.Seconds())
	if len(unknown) > 0 {
		fmt.Println("FAIL", summary)
		return 1
	}
	if len(res.inconclusive) > 0 {
		for i, s := range res.inconclusive {
			if i < 10 {
				fmt.Printf("INCONCLUSIVE property=%s: %s\n", prop, s)
			}
		}
		fmt.Println("INCONCLUSIVE", summary)
		return 2
	}
	fmt.Println("OK", summary)
	return 0
}

func expectedShards() int {
	if prop == "C18" {
		return c18Expected
	}
	return nshards
}

var c18Expected = 0

func oneLine(s string, n int) string {
	s = strings.ReplaceAll(s, "\n", " | ")
	if len(s) > n {
		s = s[:n] + "…"
	}
	return s
}

func writeReplay(v violation) string {
	dir := filepath.Join(outRoot(), "replays", prop)
	os.MkdirAll(dir, 0755)
	h := sha1.Sum([]byte(fmt.Sprintf("%s|%s|%d|%s|%s", prop, tier, seed, v.ID, v.Sig)))
	path := filepath.Join(dir, fmt.Sprintf("%x.json", h[:6]))
	doc := map[string]interface{}{"property": prop, "tier": tier, "seed": seed, "case_id": v.ID, "kind": v.Kind, "signature": v.Sig, "detail": v.Detail, "data": v.Data,
		"replay": fmt.Sprintf("cd /verif && ./check %s --replay %s", prop, path)}
	b, _ := json.MarshalIndent(doc, "", " ")
	ioutil.WriteFile(path, b, 0644)
	return path
}

func writeEvidence(res *result, wall time.Duration, nviol int, known map[int][]violation, findings []finding) {
	cov := map[string]interface{}{
		"evaluations":         res.evals,
		"distinct_nontrivial": res.distinct,
		"rule":                res.rule,
		"samples":             res.samples,
		"tallies":             res.tallies,
		"maxima":              res.maxes,
		"floors":              res.floors,
		"notes":               res.notes,
		"shards":              nshards,
		"shards_completed":    res.shardsDone,
		"cases_enumerated":    res.enumerated,
		"inconclusive":        res.inconclusive,
	}
	exh := []string{}
	for k := range res.exh {
		exh = append(exh, k)
	}
	sort.Strings(exh)
	cov["exhaustive_subspaces"] = exh
	cov["exhaustive"] = false
	kf := []map[string]interface{}{}
	for i, vs := range known {
		kf = append(kf, map[string]interface{}{"signature": findings[i].Signature, "occurrences": len(vs), "example_case": vs[0].ID})
	}
	cov["known_findings_observed"] = kf
	sigCount := map[string]int{}
	for _, v := range res.viols {
		sigCount[v.Sig]++
	}
	cov["violation_signatures"] = sigCount
	if res.samples == nil {
		cov["samples"] = []interface{}{}
	}
	assume := []string{}
	for k := range res.assume {
		assume = append(assume, k)
	}
	sort.Strings(assume)
	doc := map[string]interface{}{
		"property_id": prop, "tier": tier, "seed": seed, "level": "exploration", "coverage": cov,
		"assumptions": assume, "wall_s": wall.Seconds(), "violations": nviol,
		"repo_tree": repoState(),
	}
	b, _ := json.MarshalIndent(doc, "", " ")
	os.MkdirAll(filepath.Join(outRoot(), "evidence"), 0755)
	ioutil.WriteFile(filepath.Join(outRoot(), "evidence", prop+".json"), b, 0644)
}

// outRoot: evidence and replay files of development runs against a scratch worktree
// (VERIF_GOMOD) must not overwrite those of /repo itself.
func outRoot() string {
	if os.Getenv("VERIF_GOMOD") != "" {
		return filepath.Join(verifRoot, "work", "dev")
	}
	return verifRoot
}

func repoState() string {
	out, err := exec.Command("git", "-C", "/repo", "rev-parse", "--short", "HEAD").Output()
	if err != nil {
		return "unknown"
	}
	st, _ := exec.Command("git", "-C", "/repo", "status", "--porcelain").Output()
	s := strings.TrimSpace(string(out))
	if len(bytes.TrimSpace(st)) > 0 {
		s += "+dirty"
	}
	return s
}

func doReplay() int {
	if prop == "C18" {
		// a race report cannot be pinned to one case: replay = the whole concurrent run of that tier and seed
		if b, err := ioutil.ReadFile(replay); err == nil {
			var doc struct {
				Tier string `json:"tier"`
				Seed uint64 `json:"seed"`
			}
			if json.Unmarshal(b, &doc) == nil && doc.Tier != "" {
				tier, seed = doc.Tier, doc.Seed
			}
		}
		t0 := time.Now()
		return conclude(runAll(), time.Since(t0))
	}
	b, err := ioutil.ReadFile(replay)
	if err != nil {
		fmt.Println("cannot read replay file:", err)
		return 2
	}
	var doc struct {
		Property string `json:"property"`
		Tier     string `json:"tier"`
		Seed     uint64 `json:"seed"`
		CaseID   string `json:"case_id"`
	}
	if err := json.Unmarshal(b, &doc); err != nil {
		fmt.Println("bad replay file:", err)
		return 2
	}
	tier, seed = doc.Tier, doc.Seed
	bin := worker
	if strings.HasPrefix(doc.CaseID, "race/") && raceWkr != "" {
		bin = raceWkr
	}
	solo := filepath.Join(workDir, "replay.jsonl")
	args := []string{"-prop", prop, "-tier", tier, "-seed", fmt.Sprint(seed), "-only", doc.CaseID, "-out", solo}
	st, stderr := runWorker(bin, args, solo+".stderr")
	evs := readEvents(solo)
	n := 0
	ran := false
	for _, e := range evs {
		if e.T == "begin" {
			ran = true
		}
		if e.T == "viol" {
			n++
			fmt.Printf("VIOLATION property=%s replay=%s kind=%s sig=%q case=%s: %s\n", prop, replay, e.Kind, e.Sig, e.ID, oneLine(e.Detail, 600))
		}
		if e.T == "budget" {
			n++
			fmt.Printf("VIOLATION property=%s replay=%s kind=budget case=%s: cpu %.1fs heap %d MiB\n", prop, replay, e.ID, e.CPU, e.HeapMB)
		}
	}
	if st != 0 && n == 0 {
		n++
		fmt.Printf("VIOLATION property=%s replay=%s kind=fatal case=%s: worker died: %s\n", prop, replay, doc.CaseID, oneLine(tail(stderr, 600), 600))
	}
	if !ran {
		fmt.Printf("INCONCLUSIVE property=%s: case %q was not found in the case list for tier=%s seed=%d\n", prop, doc.CaseID, tier, seed)
		return 2
	}
	if n > 0 {
		return 1
	}
	fmt.Printf("OK property=%s replayed case %s: no violation on the current tree\n", prop, doc.CaseID)
	return 0
}

func firstLine(s string) string {
	if i := strings.IndexByte(s, '\n'); i >= 0 {
		return s[:i]
	}
	return s
}
