//go:build verif

package main

import (
	"fmt"
	"image"
	"image/color"
	"image/draw"
	"unicode/utf8"

	"github.com/makiuchi-d/gozxing"
	qrdec "github.com/makiuchi-d/gozxing/qrcode/decoder"
	qrenc "github.com/makiuchi-d/gozxing/qrcode/encoder"

	"verifharness/fw"
	"verifharness/ref/qrref"
)

// C01: QR write -> read identity over versions, levels, masks, modes, charsets, sizes.

func init() { fw.Register("C01", c01) }

type c01Opts struct {
	text    string
	level   qrref.Level
	version int // 0 = none
	mask    int // -1 = none
	charset string
	margin  int // 0 = default (no hint)
	w, h    int
}

func (o c01Opts) info() map[string]interface{} {
	return map[string]interface{}{"text": o.text, "level": qrLevelName[o.level], "version_hint": o.version, "mask_hint": o.mask, "charset_hint": o.charset, "margin": o.margin, "width": o.w, "height": o.h}
}

// c01RoundTrip runs both decode paths.  mustFit: the reference says the text fits.
func c01RoundTrip(r *fw.Rec, o c01Opts, class string) bool {
	hints := qrHints(o.version, o.mask, o.charset)
	info := o.info()
	info["class"] = class
	// path (a): encoder matrix -> decoder
	code, err := qrenc.Encoder_encode(o.text, qrLibLevel[o.level], hints)
	r.Evals(1)
	if err != nil {
		r.Violation("roundtrip", "qr.encode:refused-fitting-content:"+class, fmt.Sprintf("Encoder_encode refused a fitting text (%s): %v", class, err), info)
		return false
	}
	bits := boolsToBitMatrix(byteMatrixToBools(code.GetMatrix()))
	res, derr := qrdec.NewDecoder().Decode(bits, nil)
	if derr != nil {
		r.Violation("roundtrip", "qr.matrix-path:decode-error:"+class, fmt.Sprintf("decoder rejected the encoder's own matrix (%s, version %d mask %d): %v", class, code.GetVersion().GetVersionNumber(), code.GetMaskPattern(), derr), info)
		return false
	}
	if res.GetText() != o.text {
		r.Violation("roundtrip", "qr.matrix-path:other-text:"+class, fmt.Sprintf("matrix path returned %q for %q (%s)", trunc(res.GetText(), 60), trunc(o.text, 60), class), info)
		return false
	}
	if res.GetECLevel() != qrLevelName[o.level] {
		r.Violation("roundtrip", "qr.matrix-path:ec-level", fmt.Sprintf("matrix path reports level %q, written %s", res.GetECLevel(), qrLevelName[o.level]), info)
		return false
	}
	r.Tally("matrix_path_ok")
	// path (b): writer -> image -> reader (pure barcode)
	wh := map[gozxing.EncodeHintType]interface{}{gozxing.EncodeHintType_ERROR_CORRECTION: qrLibLevel[o.level]}
	if r.Rng.Bool() {
		wh[gozxing.EncodeHintType_ERROR_CORRECTION] = qrLevelName[o.level] // string form of the hint
	}
	for k, v := range hints {
		wh[k] = v
	}
	if o.margin > 0 {
		wh[gozxing.EncodeHintType_MARGIN] = o.margin
	}
	img, werr := instQRWriter().Encode(o.text, gozxing.BarcodeFormat_QR_CODE, o.w, o.h, wh)
	r.Evals(1)
	if werr != nil {
		r.Violation("roundtrip", "qr.writer:refused-fitting-content:"+class, fmt.Sprintf("QRCodeWriter.Encode refused a fitting text (%s): %v", class, werr), info)
		return false
	}
	// the rendered image is handed to the reader as it is (a BitMatrix is an image.Image), or
	// the way an application would have it after saving / compositing: as a Gray, RGBA or NRGBA
	// picture, packed or as a SubImage view of a larger canvas (origin and stride differ)
	var pic image.Image = img
	if k := r.Rng.Intn(8); k < 4 && img.GetWidth()*img.GetHeight() <= 1<<20 {
		ox, oy := r.Rng.Intn(6), r.Rng.Intn(6)
		if k%2 == 0 {
			ox, oy = 0, 0
		}
		rect := image.Rect(ox, oy, ox+img.GetWidth(), oy+img.GetHeight())
		full := image.Rect(0, 0, rect.Max.X+ox, rect.Max.Y+oy)
		var canvas draw.Image
		switch k / 2 {
		case 0:
			canvas = image.NewGray(full)
		default:
			if r.Rng.Bool() {
				canvas = image.NewRGBA(full)
			} else {
				canvas = image.NewNRGBA(full)
			}
		}
		draw.Draw(canvas, full, image.NewUniform(color.Gray{0x40}), image.Point{}, draw.Src)
		draw.Draw(canvas, rect, img, image.Point{}, draw.Src)
		pic = canvas.(interface {
			SubImage(image.Rectangle) image.Image
		}).SubImage(rect)
		r.Tally("image_path_through_go_image_types")
	}
	bmp, berr := gozxing.NewBinaryBitmapFromImage(pic)
	if berr != nil {
		r.Violation("roundtrip", "qr.image-path:bitmap-error", fmt.Sprintf("NewBinaryBitmapFromImage: %v", berr), info)
		return false
	}
	result, rerr := instQRReader().Decode(bmp, map[gozxing.DecodeHintType]interface{}{gozxing.DecodeHintType_PURE_BARCODE: true})
	if rerr != nil {
		r.Violation("roundtrip", "qr.image-path:decode-error:"+class, fmt.Sprintf("pure-barcode reader rejected the writer's %dx%d image (%s, margin %d): %v", img.GetWidth(), img.GetHeight(), class, o.margin, rerr), info)
		return false
	}
	if result.GetText() != o.text {
		r.Violation("roundtrip", "qr.image-path:other-text:"+class, fmt.Sprintf("image path returned %q for %q (%s)", trunc(result.GetText(), 60), trunc(o.text, 60), class), info)
		return false
	}
	if result.GetBarcodeFormat() != gozxing.BarcodeFormat_QR_CODE {
		r.Violation("roundtrip", "qr.image-path:format", fmt.Sprintf("format %v", result.GetBarcodeFormat()), info)
		return false
	}
	if lv, _ := result.GetResultMetadata()[gozxing.ResultMetadataType_ERROR_CORRECTION_LEVEL].(string); lv != qrLevelName[o.level] {
		r.Violation("roundtrip", "qr.image-path:ec-level", fmt.Sprintf("image path reports level %q, written %s", lv, qrLevelName[o.level]), info)
		return false
	}
	r.Tally("image_path_ok")
	r.Tally("class_" + class)
	r.Tally(fmt.Sprintf("version_%02d", code.GetVersion().GetVersionNumber()))
	r.Nontrivial(fmt.Sprintf("%s|%d|%d|%d|%s|%d|%d|%d", o.text, o.level, o.version, o.mask, o.charset, o.margin, o.w, o.h))
	return true
}

func c01Size(rng *fw.Rand, v int, margin int) (int, int) {
	m := 4
	if margin > 0 {
		m = margin
	}
	nat := qrref.Size(v) + 2*m
	if v <= 3 && rng.Intn(12) == 0 {
		// poster sizes: a module is 33..70 pixels wide and spans two or more 32-bit words of a row
		k := 33 + rng.Intn(38)
		return nat*k + rng.Intn(k), nat*k + rng.Intn(k)
	}
	switch rng.Intn(8) {
	case 6, 7:
		// one axis left to the writer (0) or below the symbol, the other several symbols long
		long, short := nat*(2+rng.Intn(4))+rng.Intn(nat), []int{0, 0, 1, rng.Intn(nat)}[rng.Intn(4)]
		if rng.Bool() {
			return long, short
		}
		return short, long
	case 0:
		return 0, 0
	case 1:
		return nat, nat
	case 2:
		return nat + rng.Intn(nat), nat + rng.Intn(nat)
	case 3:
		k := 2 + rng.Intn(4)
		return nat * k, nat * k
	case 4:
		return nat*(1+rng.Intn(3)) + rng.Intn(7), nat + rng.Intn(3*nat) // non-square
	default:
		return rng.Intn(nat), rng.Intn(2 * nat)
	}
}

// c01Retained: several symbols of ONE version are encoded one after the other and every result is
// decoded only after the last encode: a QRCode handed out earlier keeps its modules, mask and
// format information whatever the encoder does afterwards.
func c01Retained(r *fw.Rec, v int) {
	rng := r.Rng
	type held struct {
		code  *qrenc.QRCode
		text  string
		level qrref.Level
	}
	var hs []held
	for i := 0; i < 4; i++ {
		l := qrAllLevels[rng.Intn(4)]
		mode := qrAllModes[rng.Intn(4)]
		n := qrLenIn(rng, v, l, mode)
		if n == 0 {
			continue
		}
		text, _, charset := qrPayload(rng, mode, n)
		mask := -1
		if rng.Bool() {
			mask = rng.Intn(8)
		}
		code, err := qrenc.Encoder_encode(text, qrLibLevel[l], qrHints(v, mask, charset))
		r.Evals(1)
		if err != nil {
			r.Violation("roundtrip", "qr.encode:refused-fitting-content:retained", fmt.Sprintf("Encoder_encode refused %d %s characters for %d-%s: %v", n, qrModeName[mode], v, qrLevelName[l], err), nil)
			return
		}
		hs = append(hs, held{code, text, l})
	}
	for i, h := range hs {
		res, err := qrdec.NewDecoder().Decode(boolsToBitMatrix(byteMatrixToBools(h.code.GetMatrix())), nil)
		info := map[string]interface{}{"version": v, "position_in_history": i, "history_length": len(hs), "text": h.text}
		if err != nil || res.GetText() != h.text || res.GetECLevel() != qrLevelName[h.level] {
			got, lv := "", ""
			if res != nil {
				got, lv = res.GetText(), res.GetECLevel()
			}
			r.Violation("roundtrip", "qr.matrix-path:earlier-result-changed-by-later-encodes", fmt.Sprintf("version %d: the matrix of encode %d of %d, decoded after the last encode, gives %q / level %s / %v; it was written as %q / level %s", v, i+1, len(hs), trunc(got, 50), lv, err, trunc(h.text, 50), qrLevelName[h.level]), info)
			return
		}
		r.Tally("retained_results_decoded_after_later_encodes")
	}
	r.Nontrivial(fmt.Sprintf("retained/%d/%d", v, rng.Uint64()))
}

func c01(c *fw.Ctx) {
	c.Rule("boundary enumeration: every (version 1..40, level, mode) with length capacity and capacity-1 under a forced version, and capacity and capacity+1 with no version hint (the latter must land on the next version), masks rotating 0..7/none; random classes: digits, 45-set, byte mode with every value 0..255 (ISO-8859-1 hint), UTF-8 without hint (1-4 byte sequences, NUL, controls, U+FEFF, astral), every registered charset with text from its repertoire, Shift_JIS double-byte (kanji mode); both decode paths (encoder matrix -> decoder; writer image at random sizes/margins -> pure-barcode reader); distinct = distinct (text, options) Half of the rendered images reach the reader as Gray / RGBA / NRGBA pictures, packed or as SubImage views of a larger canvas.")
	c.Assume("'fits' is decided by qrref capacities (ISO 18004 tables), not by the library; charset hints are only combined with text drawn from that charset's repertoire (x/text codec round trip)")
	for v := 1; v <= 40; v++ {
		v := v
		for k := 0; k < c.Pick(2, 30); k++ {
			c.Run(fmt.Sprintf("retained/%d/%d", v, k), func(r *fw.Rec) { c01Retained(r, v) })
		}
	}
	c.Floor("retained_results_decoded_after_later_encodes", 250)
	c.Floor("boundary_numeric_or_alphanumeric_with_charset_hint", 150)
	// (a) boundaries
	for v := 1; v <= 40; v++ {
		for _, l := range qrAllLevels {
			for _, mode := range qrAllModes {
				v, l, mode := v, l, mode
				c.Run(fmt.Sprintf("bound/%d/%s/%s", v, qrLevelName[l], qrModeName[mode]), func(r *fw.Rec) {
					rng := r.Rng
					capv := qrref.Capacity(v, l, mode)
					if capv < 1 {
						return
					}
					masks := []int{(v + int(l) + int(mode)) % 8, -1, (v*3 + int(mode)) % 8, -1}
					lens := []int{capv, capv - 1, capv, capv + 1}
					forced := []int{v, v, 0, 0}
					if v == 40 {
						lens[3] = 0 // capacity+1 of version 40 does not fit anything (refusal is C13's)
					}
					for i := 0; i < 4; i++ {
						if lens[i] < 1 {
							continue
						}
						if forced[i] == 0 && i == 2 && qrref.MinVersion(lens[i], mode, l) != v {
							continue
						}
						text, _, charset := qrPayload(rng, mode, lens[i])
						if (mode == qrref.Numeric || mode == qrref.Alphanumeric) && charset == "" && rng.Intn(3) == 0 {
							// a character-set hint next to content that needs none: digits and the 45-character
							// set are the same in every character set and take no designator, so exactly as
							// much fits as without the hint
							charset = []string{"UTF-8", "ISO-8859-1", "Shift_JIS", "UTF-16BE"}[rng.Intn(4)]
							r.Tally("boundary_numeric_or_alphanumeric_with_charset_hint")
						}
						margin := 0
						if rng.Intn(3) == 0 {
							margin = 4 + rng.Intn(9)
						}
						w, h := c01Size(rng, v, margin)
						if v > 20 && w > 3*(qrref.Size(v)+24) {
							w, h = 0, 0 // keep huge renderings out of the quick tier
						}
						o := c01Opts{text: text, level: l, version: forced[i], mask: masks[i], charset: charset, margin: margin, w: w, h: h}
						if !c01RoundTrip(r, o, "boundary-"+qrModeName[mode]) {
							return
						}
					}
					if v == 9 && l == qrref.M && mode == qrref.Numeric {
						r.Sample(map[string]interface{}{"kind": "boundary", "version": v, "level": "M", "mode": "numeric", "lengths": lens, "forced": forced, "masks": masks})
					}
				})
			}
		}
	}
	c.Exhaustive("QR (version, level, mode) capacity boundaries: all 640, lengths capacity and capacity-1")
	// (a2) every character of the Kanji mode repertoire once, 60 to a symbol
	{
		kt := kanjiTable()
		for lo := 0; lo < len(kt); lo += 60 {
			lo := lo
			c.Run(fmt.Sprintf("kanji-sweep/%d", lo), func(r *fw.Rec) {
				hi := lo + 60
				if hi > len(kt) {
					hi = len(kt)
				}
				o := c01Opts{text: string(kt[lo:hi]), level: qrAllLevels[(lo/60)%4], version: 0, mask: -1, charset: []string{"Shift_JIS", "SJIS"}[(lo/60)%2]}
				if c01RoundTrip(r, o, "kanji-sweep") {
					r.TallyN("kanji_repertoire_characters_round_tripped", int64(hi-lo))
				}
			})
		}
		c.Exhaustive("the double-byte Shift_JIS characters eligible for Kanji mode (each once)")
		c.Floor("kanji_repertoire_characters_round_tripped", 6000)
	}
	// (b) random classes
	nrand := c.Pick(8000, 500000)
	for i := 0; i < nrand; i++ {
		i := i
		c.Run(fmt.Sprintf("rand/%d", i), func(r *fw.Rec) {
			rng := r.Rng
			l := qrAllLevels[rng.Intn(4)]
			o := c01Opts{level: l, mask: -1}
			if rng.Intn(3) == 0 {
				o.mask = rng.Intn(8)
			}
			class := ""
			maxLen := 1 + rng.Intn(60)
			if rng.Intn(10) == 0 {
				maxLen = 1 + rng.Intn(700)
			}
			var mode qrref.Mode
			nUnits := 0
			switch k := i % 8; k {
			case 0:
				class, mode = "digits", qrref.Numeric
				o.text, _, _ = qrPayload(rng, qrref.Numeric, maxLen)
				nUnits = maxLen
			case 1:
				class, mode = "alphanumeric", qrref.Alphanumeric
				o.text, _, _ = qrPayload(rng, qrref.Alphanumeric, maxLen)
				nUnits = maxLen
			case 2:
				// every byte value under the ISO-8859-1 hint
				class, mode = "latin1-all-bytes", qrref.Byte
				rs := make([]rune, maxLen)
				for j := range rs {
					rs[j] = rune(rng.Intn(256))
				}
				rs[0] = rune(0x80 + rng.Intn(0x80)) // not in the 45-set: byte mode
				o.text = string(rs)
				o.charset = "ISO-8859-1"
				nUnits = maxLen + 2 // ECI header takes 12 bits
			case 3:
				class, mode = "utf8-nohint", qrref.Byte
				o.text, _, _ = qrPayload(rng, qrref.Byte, maxLen)
				nUnits = maxLen
				if rng.Intn(5) == 0 {
					// a long plain text whose only non-ASCII characters come after 1 to 2.5 KB: which
					// character set an undesignated byte segment is in is a property of ALL its bytes
					pre := 1000 + rng.Intn(1500)
					tail := []string{"é", "€5", "日本", "ß→∞"}[rng.Intn(4)]
					o.text = "a" + fromAlphabet(rng, "abcdefghijklmnopqrstuvwxyz ,.;0123456789", pre-1) + tail
					o.version, o.mask = 0, -1
					o.level = qrref.L
					nUnits = len(o.text)
					class = "utf8-nohint-late-non-ascii"
				} else if rng.Intn(5) == 0 {
					// ASCII text that is ALMOST alphanumeric-mode material: characters of the 45-set
					// plus one or two ASCII characters just outside it (comma, quotes, brackets, ...):
					// byte mode, and every character comes back as itself
					b := []byte(fromAlphabet(rng, "0123456789ABCDEFGHIJKLMNOPQRSTUVWXYZ $%*+-./:", maxLen))
					outside := "!\"#&'(),;<=>?@[\\]^_`{|}~"
					for k := 1 + rng.Intn(2); k > 0; k-- {
						b[rng.Intn(len(b))] = outside[rng.Intn(len(outside))]
					}
					o.text = string(b)
					nUnits = maxLen
					class = "ascii-almost-45-set"
				} else if rng.Intn(6) == 0 { // text that BEGINS with U+FEFF (a decoder must not take it for a byte order mark)
					o.text = "\ufeff" + o.text
					nUnits += 3
					class = "utf8-nohint-leading-feff"
				}
			case 4:
				class, mode = "kanji", qrref.Kanji
				n := 1 + maxLen/2
				o.text, _, o.charset = qrPayload(rng, qrref.Kanji, n)
				nUnits = n
			default:
				e := &csTable[rng.Intn(len(csTable))]
				class, mode = "charset-"+e.Name, qrref.Byte
				name := e.Name
				if len(e.Aliases) > 0 && rng.Bool() {
					name = e.Aliases[rng.Intn(len(e.Aliases))]
				}
				o.charset = name
				for tries := 0; ; tries++ {
					o.text = csRandomText(rng, e, maxLen)
					if tries == 0 && rng.Intn(5) == 0 {
						// plain ASCII under the hint (every byte of its encoding below 0x80, also in the
						// two-byte character sets): the designated character set still decides how it is read
						o.text = fromAlphabet(rng, "abcdefghijklmnopqrstuvwxyz ,;!?0123456789", 1+rng.Intn(maxInt(1, maxLen/2)))
						r.Tally("hinted_texts_plain_ascii")
					}
					b, ok := e.csEncode(o.text)
					if !ok {
						if tries > 20 {
							return
						}
						continue
					}
					nUnits = len(b) + 2
					// make sure byte mode is selected: some character outside the 45-set
					sel := false
					for j := 0; j < len(o.text); j++ {
						ch := o.text[j]
						if !(ch >= '0' && ch <= '9') && !(ch >= 'A' && ch <= 'Z') && ch != ' ' && ch != '$' && ch != '%' && ch != '*' && ch != '+' && ch != '-' && ch != '.' && ch != '/' && ch != ':' {
							sel = true
						}
					}
					if e.Name == "Shift_JIS" {
						// texts that are entirely double-byte kanji select kanji mode (own class)
						kanjiTable()
						allK := true
						for _, ru := range o.text {
							if _, k := kanjiBytes[ru]; !k {
								allK = false
							}
						}
						if allK {
							sel = false
						}
					}
					if sel || tries > 20 {
						if !sel {
							return
						}
						break
					}
				}
			}
			if !utf8.ValidString(o.text) {
				return
			}
			minV := qrref.MinVersion(nUnits, mode, l)
			if minV == 0 || minV > 38 {
				return
			}
			if rng.Intn(3) == 0 {
				o.version = minV + rng.Intn(41-minV)
				if rng.Bool() {
					o.version = minV
				}
			}
			if rng.Intn(3) == 0 {
				o.margin = 4 + rng.Intn(9)
			}
			vv := o.version
			if vv == 0 {
				vv = minV
			}
			o.w, o.h = c01Size(rng, vv, o.margin)
			if vv > 12 && o.w > 2*(qrref.Size(vv)+24) {
				o.w, o.h = 0, 0
			}
			if c01RoundTrip(r, o, class) && i < 16 {
				r.Sample(o.info())
			}
		})
	}
	c.Floor("matrix_path_ok", 2500)
	c.Floor("image_path_ok", 2500)
	c.Floor("image_path_through_go_image_types", 1000)
	for _, cl := range []string{"digits", "alphanumeric", "latin1-all-bytes", "utf8-nohint", "utf8-nohint-leading-feff", "ascii-almost-45-set", "utf8-nohint-late-non-ascii", "kanji", "boundary-numeric", "boundary-alphanumeric", "boundary-byte", "boundary-kanji"} {
		c.Floor("class_"+cl, 50)
	}
	for v := 1; v <= 40; v++ {
		c.Floor(fmt.Sprintf("version_%02d", v), 1)
	}
}
