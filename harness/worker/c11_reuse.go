//go:build verif

package main

import (
	"fmt"

	azdec "github.com/makiuchi-d/gozxing/aztec/decoder"
	azdet "github.com/makiuchi-d/gozxing/aztec/detector"

	"verifharness/fw"
	"verifharness/ref/azref"
)

// C11 addition: ONE decoder instance (and one reader instance) used for a history of symbols
// of changing size and type - in particular full-range and compact symbols with the same
// layer count back to back.  Every symbol of the history must decode to its text; symbols that have to be refused (after or
// before error correction) are fed in between.
func c11ReuseCase(r *fw.Rec) {
	rng := r.Rng
	dec := azdec.NewDecoder()
	specs := azref.AllSpecs()
	var hist []string
	prev := specs[rng.Intn(len(specs))]
	for step := 0; step < 14; step++ {
		var s azref.Spec
		switch step % 3 {
		case 1: // same layer count, other type (only layers 1..4 exist in both)
			s = azref.Spec{Compact: !prev.Compact, Layers: 1 + (prev.Layers-1)%4}
		case 2: // same spec again
			s = prev
		default:
			s = specs[rng.Intn(len(specs))]
			if rng.Bool() {
				s = specs[rng.Intn(10)] // small symbols: compact 1..4, full 1..6
			}
		}
		prev = s
		if rng.Intn(3) == 0 {
			// in between, a symbol the decoder has to refuse AFTER error correction succeeded (its
			// bit stream announces an unregistered character set, or the reserved FLG(7)), or one
			// damaged beyond repair: whatever it leaves behind must not reach the next symbol
			enc := azref.NewEncoder()
			for i := 0; i < 2+rng.Intn(6); i++ {
				enc.Char(2 + rng.Intn(26))
			}
			bits := append([]bool{}, enc.Bits()...)
			switch rng.Intn(3) {
			case 0:
				enc.ECI(100 + rng.Intn(700))
				for i := 0; i < 3+rng.Intn(20); i++ {
					enc.Char(1 + rng.Intn(27))
				}
				bits = append([]bool{}, enc.Bits()...)
			case 1: // P/S, FLG(n) with n = 7, then ones
				for _, b := range "0000000000111" {
					bits = append(bits, b == '1')
				}
				for i := 0; i < 10+rng.Intn(100); i++ {
					bits = append(bits, true)
				}
			}
			if bad, ok := azref.Build(s, bits, 3); ok {
				m := bad.Matrix
				if rng.Intn(3) == 0 {
					idx := rng.Perm(len(bad.Words))[:minInt(len(bad.Words), bad.MaxCorrectable()+2+rng.Intn(3))]
					vals := make([]int, len(idx))
					for i := range vals {
						vals[i] = rng.Intn(1 << uint(s.WordSize()))
					}
					m = azref.BuildDamaged(bad, idx, vals)
				}
				_, _, panicked := fw.Guard(func() {
					dec.Decode(azdet.NewAztecDetectorResult(azBitMatrix(m), nil, s.Compact, bad.DataWords, s.Layers))
				})
				if !panicked {
					r.Tally("reused_decoder_refusable_symbols_in_between")
					hist = append(hist, azSpecName(s)+"(refusable)")
				}
			}
		}
		var sym *azref.Symbol
		var text []byte
		for tries := 0; tries < 30 && sym == nil; tries++ {
			maxBits := s.TotalWords()*s.WordSize()*2/3 - 8
			if maxBits < 8 {
				maxBits = 8
			}
			bits, t := azref.RandomTokens(rng, 5+rng.Intn(maxBits))
			if b, ok := azref.Build(s, bits, 3); ok {
				sym, text = b, t
			}
		}
		if sym == nil {
			continue
		}
		hist = append(hist, azSpecName(s))
		res, err := dec.Decode(azdet.NewAztecDetectorResult(azBitMatrix(sym.Matrix), nil, s.Compact, sym.DataWords, s.Layers))
		r.Evals(1)
		info := map[string]interface{}{"history": hist, "text_hex": fmt.Sprintf("%x", text)}
		if err != nil {
			r.Violation("history", "aztec.decoder:reused-instance:error", fmt.Sprintf("a reused Decoder rejected symbol %d of the history %v: %v", len(hist), hist, err), info)
			return
		}
		if res.GetText() != latin1String(string(text)) {
			r.Violation("history", "aztec.decoder:reused-instance:other-text", fmt.Sprintf("a reused Decoder read other text for symbol %d of the history %v", len(hist), hist), info)
			return
		}
		r.Tally("reused_decoder_symbols_ok")
	}
	r.Tally("reused_decoder_histories")
	r.Nontrivial("reuse|" + fmt.Sprint(hist))
}
