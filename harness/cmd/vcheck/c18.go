package main

func runC18(res *result) {
	// filled in with the C18 driver
	runPhase(worker, "main", res)
	c18Expected = nshards
}
