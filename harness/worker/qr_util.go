//go:build verif

package main

import (
	"fmt"
	"sync"

	"golang.org/x/text/encoding/japanese"

	"github.com/makiuchi-d/gozxing"
	qrdec "github.com/makiuchi-d/gozxing/qrcode/decoder"
	qrenc "github.com/makiuchi-d/gozxing/qrcode/encoder"

	"verifharness/fw"
	"verifharness/ref/qrref"
)

// shared helpers of the QR drivers (C01, C05, C07, C13, C14, C15)

var qrLibLevel = map[qrref.Level]qrdec.ErrorCorrectionLevel{
	qrref.L: qrdec.ErrorCorrectionLevel_L, qrref.M: qrdec.ErrorCorrectionLevel_M,
	qrref.Q: qrdec.ErrorCorrectionLevel_Q, qrref.H: qrdec.ErrorCorrectionLevel_H,
}
var qrLevelName = map[qrref.Level]string{qrref.L: "L", qrref.M: "M", qrref.Q: "Q", qrref.H: "H"}
var qrModeName = map[qrref.Mode]string{qrref.Numeric: "numeric", qrref.Alphanumeric: "alphanumeric", qrref.Byte: "byte", qrref.Kanji: "kanji"}
var qrAllLevels = []qrref.Level{qrref.L, qrref.M, qrref.Q, qrref.H}
var qrAllModes = []qrref.Mode{qrref.Numeric, qrref.Alphanumeric, qrref.Byte, qrref.Kanji}

func byteMatrixToBools(m *qrenc.ByteMatrix) [][]bool {
	out := make([][]bool, m.GetHeight())
	for y := range out {
		out[y] = make([]bool, m.GetWidth())
		for x := range out[y] {
			out[y][x] = m.Get(x, y) == 1
		}
	}
	return out
}

func boolsToBitMatrix(b [][]bool) *gozxing.BitMatrix {
	bm, err := gozxing.NewBitMatrix(len(b[0]), len(b))
	if err != nil {
		panic(err)
	}
	for y := range b {
		for x := range b[y] {
			if b[y][x] {
				bm.Set(x, y)
			}
		}
	}
	return bm
}

func bitMatrixToBools(bm *gozxing.BitMatrix) [][]bool {
	out := make([][]bool, bm.GetHeight())
	for y := range out {
		out[y] = make([]bool, bm.GetWidth())
		for x := range out[y] {
			out[y][x] = bm.Get(x, y)
		}
	}
	return out
}

func copyBools(b [][]bool) [][]bool {
	out := make([][]bool, len(b))
	for y := range b {
		out[y] = append([]bool{}, b[y]...)
	}
	return out
}

// kanji table: every Shift_JIS double-byte code in the QR kanji-mode ranges that
// x/text maps to a rune and back to the same two bytes.
var (
	kanjiOnce  sync.Once
	kanjiRunes []rune
	kanjiBytes map[rune][2]byte
)

func kanjiTable() []rune {
	kanjiOnce.Do(func() {
		kanjiBytes = map[rune][2]byte{}
		dec := japanese.ShiftJIS.NewDecoder()
		enc := japanese.ShiftJIS.NewEncoder()
		for _, rg := range [][2]int{{0x8140, 0x9FFC}, {0xE040, 0xEBBF}} {
			for code := rg[0]; code <= rg[1]; code++ {
				b := []byte{byte(code >> 8), byte(code)}
				u, err := dec.Bytes(b)
				if err != nil {
					continue
				}
				rs := []rune(string(u))
				if len(rs) != 1 || rs[0] == 0xFFFD {
					continue
				}
				back, err := enc.Bytes([]byte(string(rs)))
				if err != nil || len(back) != 2 || back[0] != b[0] || back[1] != b[1] {
					continue
				}
				if _, dup := kanjiBytes[rs[0]]; dup {
					continue
				}
				kanjiBytes[rs[0]] = [2]byte{b[0], b[1]}
				kanjiRunes = append(kanjiRunes, rs[0])
			}
		}
	})
	return kanjiRunes
}

// qrPayload generates a text of exactly n characters that selects `mode`
// unambiguously, with the reference segment(s) that the standard prescribes
// for it and the character-set hint needed ("" = none).
//   - numeric: digits only
//   - alphanumeric: the 45-character set, at least one non-digit
//   - byte: UTF-8 text (no hint, no ECI header) with at least one character outside the 45-set;
//     n counts BYTES of the UTF-8 encoding
//   - kanji: Shift_JIS double-byte characters, hint Shift_JIS
func qrPayload(rng *fw.Rand, mode qrref.Mode, n int) (text string, segs []qrref.Segment, charset string) {
	switch mode {
	case qrref.Numeric:
		b := make([]byte, n)
		for i := range b {
			b[i] = byte('0' + rng.Intn(10))
		}
		return string(b), []qrref.Segment{{Mode: qrref.Numeric, Data: b, ECI: -1}}, ""
	case qrref.Alphanumeric:
		b := make([]byte, n)
		// three sub-alphabets: the whole 45-character set, digits with the nine punctuation characters
		// only (telephone numbers, dates, prices: alphanumeric material without a single letter), and
		// letters only
		lo, span := 0, 45
		switch rng.Intn(4) {
		case 0:
			lo, span = 36, 9 // no letter: the one non-digit below is punctuation, the rest digits or punctuation
		case 1:
			lo, span = 10, 26
		}
		for i := range b {
			if lo == 36 {
				if rng.Intn(3) == 0 {
					b[i] = qrref.AlnumCharset[36+rng.Intn(9)]
				} else {
					b[i] = qrref.AlnumCharset[rng.Intn(10)]
				}
			} else {
				b[i] = qrref.AlnumCharset[lo+rng.Intn(span)]
			}
		}
		if lo == 0 {
			b[rng.Intn(n)] = qrref.AlnumCharset[10+rng.Intn(35)]
		} else if lo == 36 {
			b[rng.Intn(n)] = qrref.AlnumCharset[36+rng.Intn(9)]
		}
		return string(b), []qrref.Segment{{Mode: qrref.Alphanumeric, Data: b, ECI: -1}}, ""
	case qrref.Byte:
		b := make([]byte, 0, n)
		// first byte: a lower-case letter (outside the 45-set) so that byte mode is selected
		b = append(b, byte('a'+rng.Intn(26)))
		for len(b) < n {
			left := n - len(b)
			var r rune
			switch k := rng.Intn(10); {
			case k < 5 || left < 2:
				r = rune(rng.Intn(0x80)) // incl. NUL and controls
			case k < 7 || left < 3:
				r = rune(0x80 + rng.Intn(0x780))
			case k < 9 || left < 4:
				r = rune(0x800 + rng.Intn(0xF800))
				if r >= 0xD800 && r < 0xE000 {
					r = 0xFEFF
				}
			default:
				r = rune(0x10000 + rng.Intn(0x100000))
			}
			b = append(b, []byte(string(r))...)
		}
		return string(b), []qrref.Segment{{Mode: qrref.Byte, Data: b, ECI: -1}}, ""
	case qrref.Kanji:
		tab := kanjiTable()
		rs := make([]rune, n)
		data := make([]byte, 0, 2*n)
		for i := range rs {
			rs[i] = tab[rng.Intn(len(tab))]
			kb := kanjiBytes[rs[i]]
			data = append(data, kb[0], kb[1])
		}
		return string(rs), []qrref.Segment{{Mode: qrref.Kanji, Data: data, ECI: -1}}, "Shift_JIS"
	}
	panic("bad mode")
}

// qrLenIn picks a payload length for (v, l, mode) from [1, capacity].
func qrLenIn(rng *fw.Rand, v int, l qrref.Level, mode qrref.Mode) int {
	c := qrref.Capacity(v, l, mode)
	if c < 1 {
		return 0
	}
	switch rng.Intn(4) {
	case 0:
		return c
	case 1:
		if c > 1 {
			return c - 1
		}
		return c
	default:
		return 1 + rng.Intn(c)
	}
}

func qrHints(version, mask int, charset string) map[gozxing.EncodeHintType]interface{} {
	h := map[gozxing.EncodeHintType]interface{}{}
	// both documented forms of the two numeric hints (int and decimal string), chosen by the values
	// themselves so that a case is reproducible without a generator
	form := (version*11 + (mask+1)*5 + len(charset)) % 4
	if version > 0 {
		h[gozxing.EncodeHintType_QR_VERSION] = version
		if form == 1 || form == 3 {
			h[gozxing.EncodeHintType_QR_VERSION] = fmt.Sprint(version)
		}
	}
	if mask >= 0 {
		h[gozxing.EncodeHintType_QR_MASK_PATTERN] = mask
		if form == 2 || form == 3 {
			h[gozxing.EncodeHintType_QR_MASK_PATTERN] = fmt.Sprint(mask)
		}
	}
	if charset != "" {
		h[gozxing.EncodeHintType_CHARACTER_SET] = charset
	}
	return h
}

// diffModules returns the number of differing modules and a classification of the first one.
func diffModules(v int, a, b [][]bool) (n int, where string) {
	if len(a) != len(b) {
		return -1, fmt.Sprintf("size %d vs %d", len(a), len(b))
	}
	fn := qrref.IsFunction(v)
	for y := range a {
		for x := range a[y] {
			if a[y][x] != b[y][x] {
				if n == 0 {
					kind := "data-region"
					if fn[y][x] {
						kind = "function-pattern"
						size := len(a)
						c1, c2 := qrref.FormatBitPositions(size)
						for k := 0; k < 15; k++ {
							if (c1[k][0] == x && c1[k][1] == y) || (c2[k][0] == x && c2[k][1] == y) {
								kind = "format-info"
							}
						}
						if v >= 7 {
							v1, v2 := qrref.VersionBitPositions(size)
							for k := 0; k < 18; k++ {
								if (v1[k][0] == x && v1[k][1] == y) || (v2[k][0] == x && v2[k][1] == y) {
									kind = "version-info"
								}
							}
						}
					}
					where = fmt.Sprintf("%s at (%d,%d)", kind, x, y)
				}
				n++
			}
		}
	}
	return
}

func whereKind(where string) string {
	for i := 0; i < len(where); i++ {
		if where[i] == ' ' {
			return where[:i]
		}
	}
	return where
}
