package main

import (
	"fmt"
	"io/ioutil"
	"os"
	"path/filepath"
	"regexp"
	"sort"
	"strings"
)

var extraEnv []string

// runC18: canary, race phase (race build, production library), snapshot phase (verif build).
func runC18(res *result) {
	// many short race processes: a process is "cold" (no lazily built library state yet) only
	// in its first round, and unsynchronised lazy initialisation races only while it is cold
	raceShards := 24
	if tier == "thorough" {
		raceShards = 100
	}
	saved := nshards
	// 1. canary: the detector must report a deliberate race on a harness-owned variable
	canaryLog := filepath.Join(workDir, "canary")
	extraEnv = []string{"VERIF_C18_CANARY=1", "GORACE=halt_on_error=0 log_path=" + canaryLog}
	runWorker(raceWkr, []string{"-prop", "C18", "-tier", tier, "-seed", fmt.Sprint(seed), "-only", "canary", "-out", filepath.Join(workDir, "canary.jsonl")}, filepath.Join(workDir, "canary.stderr"))
	canaryReports := countRaceReports(canaryLog)
	res.tallies["race_canary_reports"] = int64(canaryReports)
	if canaryReports == 0 {
		res.inconclusive = append(res.inconclusive, "race detector canary: a deliberate race on a harness variable was not reported - the detector is not working here")
	}
	// 2. race phase
	nshards = raceShards
	extraEnv = []string{"GORACE=halt_on_error=0 log_path=" + filepath.Join(workDir, "racelog")}
	runPhase(raceWkr, "race", res)
	done := res.shardsDone
	blocks := readRaceReports(filepath.Join(workDir, "racelog"))
	res.tallies["race_reports_total"] = int64(len(blocks))
	seen := map[string]int{}
	for _, b := range blocks {
		sig, lib := raceSignature(b)
		if !lib {
			res.inconclusive = append(res.inconclusive, "race report without a library frame (harness race?): "+oneLine(b, 300))
			continue
		}
		seen[sig]++
		if seen[sig] == 1 {
			res.viols = append(res.viols, violation{ID: "race/all", Kind: "data-race", Sig: sig, Detail: b})
		}
	}
	res.tallies["race_reports_distinct_library_sites"] = int64(len(seen))
	// 3. snapshot phase (verif build, no race detector)
	nshards = saved
	extraEnv = nil
	runPhase(worker, "snap", res)
	c18Expected = raceShards + saved
	_ = done
}

func countRaceReports(prefix string) int { return len(readRaceReports(prefix)) }

func readRaceReports(prefix string) []string {
	files, _ := filepath.Glob(prefix + ".*")
	sort.Strings(files)
	var out []string
	for _, f := range files {
		b, err := ioutil.ReadFile(f)
		if err != nil {
			continue
		}
		parts := strings.Split(string(b), "==================")
		for _, p := range parts {
			if strings.Contains(p, "WARNING: DATA RACE") {
				out = append(out, strings.TrimSpace(p))
			}
		}
	}
	return out
}

var frameRe = regexp.MustCompile(`(?m)^  (github\.com/makiuchi-d/gozxing[^\n]*?)\(\)\s*$`)

// raceSignature: the innermost library function of each of the first two stacks, sorted.
func raceSignature(block string) (string, bool) {
	stacks := regexp.MustCompile(`(?m)^(Write|Read|Previous write|Previous read)[^\n]*\n`).Split(block, -1)
	var fns []string
	for _, s := range stacks[1:] {
		if m := frameRe.FindStringSubmatch(s); m != nil {
			fn := strings.TrimPrefix(m[1], "github.com/makiuchi-d/gozxing")
			fns = append(fns, strings.TrimLeft(fn, "/."))
		}
		if len(fns) == 2 {
			break
		}
	}
	if len(fns) == 0 {
		return "", false
	}
	sort.Strings(fns)
	return "race:" + strings.Join(fns, "|"), true
}

func init() {
	_ = os.Getenv
}
