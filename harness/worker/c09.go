//go:build verif

package main

import (
	"fmt"
	"image"
	"strings"
	"unicode/utf8"

	"github.com/makiuchi-d/gozxing"
	"github.com/makiuchi-d/gozxing/datamatrix"
	"github.com/makiuchi-d/gozxing/oned"
	"github.com/makiuchi-d/gozxing/qrcode"
	qrdec "github.com/makiuchi-d/gozxing/qrcode/decoder"

	"verifharness/fw"
	"verifharness/ref/dmref"
	"verifharness/ref/onedref"
	"verifharness/ref/qrref"
)

// C09: located symbols are never misread; orientation and mirroring are handled.
//
// Images come from the library's writers (1 px per module, default quiet zone)
// and are transformed by the harness only: white padding, integer pixel
// replication, rotation by multiples of 90 degrees, transposition (QR).

func init() { fw.Register("C09", c09) }

// ---------------------------------------------------------------------------
// poses
// ---------------------------------------------------------------------------

type c09Pose struct {
	PadL, PadR, PadT, PadB int  // white pixels added around the writer image (before scaling)
	Scale                  int  // pixel replication factor
	Rot                    int  // clockwise rotation in degrees: 0, 90, 180, 270
	Mirror                 bool // transpose the writer image first (QR only)
	TryHarder              bool
}

func (p c09Pose) info() map[string]interface{} {
	return map[string]interface{}{"pad_left": p.PadL, "pad_right": p.PadR, "pad_top": p.PadT, "pad_bottom": p.PadB,
		"scale": p.Scale, "rotation_cw": p.Rot, "mirror": p.Mirror, "try_harder": p.TryHarder}
}

func (p c09Pose) hints() map[gozxing.DecodeHintType]interface{} {
	if p.TryHarder {
		// "Doesn't matter what it maps to" (decode_hint_type.go): the presence of the key is the request
		vals := []interface{}{true, true, struct{}{}, 1, "true"}
		return map[gozxing.DecodeHintType]interface{}{gozxing.DecodeHintType_TRY_HARDER: vals[(p.Scale+p.PadL+p.Rot/90)%len(vals)]}
	}
	return nil
}

// c09Render applies the pose to a module matrix (true = black) and paints the
// result: transpose, pad, rotate clockwise, replicate pixels.
func c09Render(m [][]bool, p c09Pose) *image.Gray {
	h, w := len(m), len(m[0])
	src := m
	if p.Mirror {
		t := make([][]bool, w)
		for y := range t {
			t[y] = make([]bool, h)
			for x := range t[y] {
				t[y][x] = m[x][y]
			}
		}
		src, h, w = t, w, h
	}
	// pad
	ph, pw := h+p.PadT+p.PadB, w+p.PadL+p.PadR
	pad := make([][]bool, ph)
	for y := range pad {
		pad[y] = make([]bool, pw)
		if y >= p.PadT && y < p.PadT+h {
			copy(pad[y][p.PadL:], src[y-p.PadT])
		}
	}
	// rotate clockwise
	var rot [][]bool
	switch p.Rot {
	case 0:
		rot = pad
	case 90:
		rot = make([][]bool, pw)
		for y := range rot {
			rot[y] = make([]bool, ph)
			for x := range rot[y] {
				rot[y][x] = pad[ph-1-x][y]
			}
		}
	case 180:
		rot = make([][]bool, ph)
		for y := range rot {
			rot[y] = make([]bool, pw)
			for x := range rot[y] {
				rot[y][x] = pad[ph-1-y][pw-1-x]
			}
		}
	case 270:
		rot = make([][]bool, pw)
		for y := range rot {
			rot[y] = make([]bool, ph)
			for x := range rot[y] {
				rot[y][x] = pad[x][pw-1-y]
			}
		}
	default:
		panic("bad rotation")
	}
	// replicate
	rh, rw := len(rot), len(rot[0])
	s := p.Scale
	img := image.NewGray(image.Rect(0, 0, rw*s, rh*s))
	for y := 0; y < rh; y++ {
		line := img.Pix[y*s*img.Stride : y*s*img.Stride+rw*s]
		for x := 0; x < rw; x++ {
			v := byte(255)
			if rot[y][x] {
				v = 0
			}
			for k := 0; k < s; k++ {
				line[x*s+k] = v
			}
		}
		for k := 1; k < s; k++ {
			copy(img.Pix[(y*s+k)*img.Stride:(y*s+k)*img.Stride+rw*s], line)
		}
	}
	return img
}

func c09RandomPad(rng *fw.Rand) (l, r, t, b int) {
	switch rng.Intn(5) {
	case 0:
		return 0, 0, 0, 0
	case 1:
		k := rng.Intn(41)
		return k, k, k, k
	case 2: // one side bare
		v := [4]int{rng.Intn(41), rng.Intn(41), rng.Intn(41), rng.Intn(41)}
		v[rng.Intn(4)] = 0
		return v[0], v[1], v[2], v[3]
	}
	return rng.Intn(41), rng.Intn(41), rng.Intn(41), rng.Intn(41)
}

// ---------------------------------------------------------------------------
// outcome classification (the "never misread" oracle)
// ---------------------------------------------------------------------------

// c09Outcome runs the reader on the posed image and classifies the result.
// outcome is "read", "notfound", "checksum", "format" or "" after a violation.
//
// oneDRot is the clockwise rotation of a 1-D pose (-1 for 2-D symbols): a 1-D
// misread is qualified by the reading direction the reader claims, compared
// with the true one (the ORIENTATION the reader ought to report is 0, 270,
// 180, 90 for poses 0, 90, 180, 270).
func c09Outcome(r *fw.Rec, sym string, rd gozxing.Reader, img *image.Gray, hints map[gozxing.DecodeHintType]interface{}, want string, info map[string]interface{}, oneDRot int) (outcome string, res *gozxing.Result) {
	var err error
	if r.Rng.Intn(4) == 0 {
		// the same pixels handed over as a view of a larger canvas (what cropping a camera frame
		// with SubImage gives): origin and stride differ from a packed image
		b := img.Bounds()
		ox, oy := 1+r.Rng.Intn(9), 1+r.Rng.Intn(9)
		canvas := image.NewGray(image.Rect(0, 0, b.Dx()+ox+1+r.Rng.Intn(9), b.Dy()+oy+1+r.Rng.Intn(9)))
		for i := range canvas.Pix {
			canvas.Pix[i] = uint8(r.Rng.Intn(256))
		}
		for y := 0; y < b.Dy(); y++ {
			copy(canvas.Pix[(y+oy)*canvas.Stride+ox:(y+oy)*canvas.Stride+ox+b.Dx()], img.Pix[y*img.Stride:y*img.Stride+b.Dx()])
		}
		img = canvas.SubImage(image.Rect(ox, oy, ox+b.Dx(), oy+b.Dy())).(*image.Gray)
		r.Tally("poses_handed_over_as_a_view_of_a_larger_canvas")
	}
	msg, stack, panicked := fw.Guard(func() {
		var bmp *gozxing.BinaryBitmap
		bmp, err = gozxing.NewBinaryBitmapFromImage(img)
		if err != nil {
			return
		}
		res, err = rd.Decode(bmp, hints)
	})
	r.Evals(1)
	if panicked {
		r.Violation("panic", sym+":panic:"+fw.PanicSite(stack), fmt.Sprintf("%s reader panicked on a posed writer image: %s\n%s", sym, msg, trunc(stack, 2500)), info)
		return "", nil
	}
	if err != nil {
		switch err.(type) {
		case gozxing.NotFoundException:
			return "notfound", nil
		case gozxing.ChecksumException:
			return "checksum", nil
		case gozxing.FormatException:
			return "format", nil
		}
		r.Violation("error-kind", fmt.Sprintf("%s:error-kind:%s", sym, odErrKind(err)), fmt.Sprintf("%s reader failed with %T (%v): not one of NotFound/Checksum/Format", sym, err, err), info)
		return "", nil
	}
	if res == nil {
		r.Violation("error-kind", sym+":error-kind:nil-result-nil-error", sym+" reader returned (nil, nil)", info)
		return "", nil
	}
	if got := res.GetText(); got != want {
		info["returned"] = got
		sig, how := sym+":misread", ""
		if oneDRot >= 0 {
			claimed, _ := res.GetResultMetadata()[gozxing.ResultMetadataType_ORIENTATION].(int)
			truth := (360 - oneDRot) % 360
			info["orientation_claimed"] = claimed
			info["orientation_true"] = truth
			if (claimed-truth+360)%360 == 180 {
				sig = sym + ":misread:row-accepted-in-reverse-direction"
				how = fmt.Sprintf(" (the reader accepted the row in the wrong reading direction: claims orientation %d, the symbol lies at %d)", claimed, truth)
			}
		}
		r.Violation("misread", sig, fmt.Sprintf("%s reader returned %q for a symbol that carries %q%s", sym, trunc(got, 80), trunc(want, 80), how), info)
		return "", nil
	}
	return "read", res
}

// c09ReverseAccepted: an upside-down 1-D symbol read with the right text but WITHOUT orientation
// metadata was accepted on the forward attempt, i.e. in the wrong reading direction - the mechanism
// of the recorded UPC-E finding, here with the misgrouped runs spelling the same number.
func c09ReverseAccepted(res *gozxing.Result) string {
	if res != nil {
		if _, has := res.GetResultMetadata()[gozxing.ResultMetadataType_ORIENTATION]; !has {
			return ":row-accepted-in-reverse-direction"
		}
	}
	return ""
}

func c09Tally(r *fw.Rec, sym string, p c09Pose, outcome string, twoD bool) {
	r.Tally("poses")
	r.Tally(sym + "_poses")
	r.Tally(sym + "_" + outcome)
	cell := fmt.Sprintf("%s_s%d_r%03d", sym, p.Scale, p.Rot)
	if twoD {
		if p.Scale >= 3 && minInt(minInt(p.PadL, p.PadR), minInt(p.PadT, p.PadB)) >= 4 {
			r.Tally(sym + "_scale_ge3_padded_ge4_poses")
			if outcome == "read" {
				r.Tally(sym + "_scale_ge3_padded_ge4_read")
			}
		}
		r.Tally(cell + "_poses")
		if outcome == "read" {
			r.Tally(cell + "_read")
			if p.Scale >= 3 {
				r.Tally(sym + "_read_at_scale_ge3")
			}
		}
		if p.Mirror {
			r.Tally(sym + "_mirrored_poses")
			if outcome == "read" {
				r.Tally(sym + "_mirrored_read")
			}
		}
	} else {
		th := "default"
		if p.TryHarder {
			th = "tryharder"
		}
		r.Tally(fmt.Sprintf("%s_r%03d_%s_%s", sym, p.Rot, th, outcome))
		r.Tally(fmt.Sprintf("oned_s%d_%s", p.Scale, outcome))
	}
}

// ---------------------------------------------------------------------------
// QR
// ---------------------------------------------------------------------------

// c09FinderBytes: byte payloads that imitate finder patterns: long runs of
// 0x00 / 0xFF, 1011101 bit patterns (0x5D, 0xBA, 0x17, 0x74, 0x2E, 0xE8), alternation.
func c09FinderBytes(rng *fw.Rand, n int) []byte {
	b := make([]byte, 0, n)
	pats := [][]byte{{0x00}, {0xFF}, {0x5D}, {0xBA}, {0x17, 0x45, 0xD1, 0x74}, {0xFE, 0x82, 0xBA, 0xBA, 0xBA, 0x82, 0xFE}, {0xAA}, {0x55}, {0xFF, 0x00}, {0x2E, 0x8B, 0xA2, 0xE8}, {0xFD, 0x05, 0x75, 0x75, 0x75, 0x05, 0xFD}}
	for len(b) < n {
		p := pats[rng.Intn(len(pats))]
		run := 1 + rng.Intn(40)
		if rng.Intn(4) == 0 {
			run = 1 + rng.Intn(4)
		}
		for k := 0; k < run && len(b) < n; k++ {
			b = append(b, p[k%len(p)])
		}
		if rng.Intn(6) == 0 && len(b) < n {
			b = append(b, byte(rng.Intn(256)))
		}
	}
	return b
}

type c09QRSym struct {
	text    string
	class   string
	version int
	level   qrref.Level
	mask    int
	charset string
}

func c09QRSymbol(rng *fw.Rand, v int) (c09QRSym, bool) {
	s := c09QRSym{version: v, level: qrAllLevels[rng.Intn(4)], mask: -1}
	if rng.Intn(2) == 0 {
		s.mask = rng.Intn(8)
	}
	switch rng.Intn(7) {
	case 6:
		s.class = "kanji"
		n := qrLenIn(rng, v, s.level, qrref.Kanji)
		if n < 1 {
			return s, false
		}
		s.text, _, s.charset = qrPayload(rng, qrref.Kanji, n)
	case 0:
		s.class = "numeric"
		n := qrLenIn(rng, v, s.level, qrref.Numeric)
		s.text, _, _ = qrPayload(rng, qrref.Numeric, n)
		if rng.Intn(3) == 0 { // digit runs
			b := []byte(s.text)
			d := byte('0' + rng.Intn(10))
			for i := range b {
				if rng.Intn(12) == 0 {
					d = byte('0' + rng.Intn(10))
				}
				b[i] = d
			}
			s.text = string(b)
		}
	case 1:
		s.class = "alphanumeric"
		n := qrLenIn(rng, v, s.level, qrref.Alphanumeric)
		s.text, _, _ = qrPayload(rng, qrref.Alphanumeric, n)
	case 2:
		s.class = "utf8"
		n := qrLenIn(rng, v, s.level, qrref.Byte)
		s.text, _, _ = qrPayload(rng, qrref.Byte, n)
		if rng.Intn(3) == 0 {
			// unhinted everyday text: runs of accented Latin letters, kana, Cyrillic (whose UTF-8
			// bytes also look like other character sets to a reader that has to guess)
			s.class = "utf8-words"
			words := []string{"äöü", "Grüße", "ñandú", "crème brûlée", "こんにちは", "カタカナ", "Привет", "ÀÉÎÕÜ", "ßøå", "日本語", "ﾊﾝｶｸ"}
			var sb strings.Builder
			for sb.Len() < minInt(n, 60) {
				sb.WriteString(words[rng.Intn(len(words))])
				if rng.Bool() {
					sb.WriteByte(' ')
				}
			}
			t := sb.String()
			for len(t) > n || !utf8.ValidString(t) {
				t = t[:len(t)-1]
			}
			if t == "" {
				t = "a"
			}
			s.text = t
		}
	default:
		// ISO-8859-1 bytes under the charset hint (ECI header: 12 bits = 2 byte-units of room)
		s.class = "finder-like-bytes"
		capv := qrref.Capacity(v, s.level, qrref.Byte) - 2
		if capv < 1 {
			return s, false
		}
		n := capv
		if rng.Intn(3) != 0 {
			n = 1 + rng.Intn(capv)
		}
		b := c09FinderBytes(rng, n)
		if rng.Intn(4) == 0 {
			s.class = "random-bytes"
			b = rng.Bytes(n)
		}
		if b[0] < 0x80 {
			b[0] |= 0x80 // outside the 45-set: byte mode is selected
		}
		rs := make([]rune, n)
		for i := range rs {
			rs[i] = rune(b[i])
		}
		s.text = string(rs)
		s.charset = "ISO-8859-1"
	}
	return s, s.text != ""
}

func (s c09QRSym) info() map[string]interface{} {
	return map[string]interface{}{"symbology": "QR_CODE", "content": s.text, "class": s.class, "version": s.version, "level": qrLevelName[s.level], "mask_hint": s.mask, "charset_hint": s.charset}
}

func c09Merge(a map[string]interface{}, p c09Pose) map[string]interface{} {
	out := map[string]interface{}{}
	for k, v := range a {
		out[k] = v
	}
	out["pose"] = p.info()
	return out
}

func c09QRCase(r *fw.Rec, v int, nposes int, sample bool) {
	rng := r.Rng
	s, ok := c09QRSymbol(rng, v)
	if !ok {
		return
	}
	wh := map[gozxing.EncodeHintType]interface{}{gozxing.EncodeHintType_ERROR_CORRECTION: qrLibLevel[s.level]}
	for k, val := range qrHints(s.version, s.mask, s.charset) {
		wh[k] = val
	}
	bm, err := qrcode.NewQRCodeWriter().Encode(s.text, gozxing.BarcodeFormat_QR_CODE, 0, 0, wh)
	r.Evals(1)
	if err != nil {
		// refusing a fitting text is C01's subject; here the symbol is simply not available
		r.Tally("QR_CODE_writer_refused")
		return
	}
	full := bitMatrixToBools(bm)
	size := qrref.Size(v)
	if len(full) != size+8 || len(full[0]) != size+8 {
		r.Tally("QR_CODE_writer_other_size")
		return
	}
	bare := make([][]bool, size)
	for y := range bare {
		bare[y] = append([]bool{}, full[y+4][4:4+size]...)
	}
	r.Tally(fmt.Sprintf("QR_CODE_version_%02d", v))
	r.Tally("QR_CODE_class_" + s.class)
	r.Nontrivial(fmt.Sprintf("qr|%s|%d|%d|%d", s.text, v, s.level, s.mask))

	// --- decoder obligations: upright not flagged, transposed read and flagged ---
	{
		res, derr := qrdec.NewDecoder().Decode(boolsToBitMatrix(bare), nil)
		r.Evals(1)
		switch {
		case derr != nil || res == nil:
			r.Violation("orientation", "qr.decoder:upright-not-read", fmt.Sprintf("Decoder.Decode rejected the writer's own upright matrix (version %d): %v", v, derr), s.info())
			return
		case res.GetText() != s.text:
			r.Violation("misread", "qr.decoder:upright-misread", fmt.Sprintf("Decoder.Decode returned %q for %q", trunc(res.GetText(), 80), trunc(s.text, 80)), s.info())
			return
		}
		if md, isMd := res.GetOther().(*qrdec.QRCodeDecoderMetaData); isMd && md != nil && md.IsMirrored() {
			r.Violation("orientation", "qr.decoder:upright-flagged-mirrored", fmt.Sprintf("upright version-%d matrix decoded but flagged as mirrored", v), s.info())
			return
		}
		r.Tally("qr_decoder_upright_ok")
		tr := make([][]bool, size)
		for y := range tr {
			tr[y] = make([]bool, size)
			for x := range tr[y] {
				tr[y][x] = bare[x][y]
			}
		}
		res, derr = qrdec.NewDecoder().Decode(boolsToBitMatrix(tr), nil)
		r.Evals(1)
		switch {
		case derr != nil || res == nil:
			r.Violation("orientation", "qr.decoder:mirrored-not-read", fmt.Sprintf("Decoder.Decode did not read the transposed matrix (version %d level %s): %v", v, qrLevelName[s.level], derr), s.info())
			return
		case res.GetText() != s.text:
			sig := "qr.decoder:mirrored-misread"
			if md, isMd := res.GetOther().(*qrdec.QRCodeDecoderMetaData); !isMd || md == nil || !md.IsMirrored() {
				// the answer of the FIRST, unmirrored pass: the transposed symbol read as it lies (the format
				// information then names some other level and mask) passed Reed-Solomon
				sig += ":unmirrored-reading-accepted-by-reed-solomon"
			}
			info := s.info()
			info["returned_level"] = res.GetECLevel()
			info["returned_raw_bytes"] = fmt.Sprintf("%x", res.GetRawBytes())
			r.Violation("misread", sig, fmt.Sprintf("Decoder.Decode of the transposed matrix returned %q (level %s, not flagged mirrored: the unmirrored first pass was accepted) for %q written at level %s", trunc(res.GetText(), 80), res.GetECLevel(), trunc(s.text, 80), qrLevelName[s.level]), info)
			return
		}
		md, isMd := res.GetOther().(*qrdec.QRCodeDecoderMetaData)
		if !isMd || md == nil || !md.IsMirrored() {
			r.Violation("orientation", "qr.decoder:mirrored-flag", fmt.Sprintf("transposed version-%d matrix was read but GetOther() = %#v does not flag it as mirrored", v, res.GetOther()), s.info())
			return
		}
		r.Tally("qr_decoder_mirrored_ok")
	}

	// --- poses through the detector ---
	rd := qrcode.NewQRCodeReader()
	for k := 0; k < nposes; k++ {
		p := c09Pose{Scale: 1 + rng.Intn(6), Rot: 90 * rng.Intn(4), Mirror: rng.Intn(3) == 0, TryHarder: rng.Bool()}
		p.PadL, p.PadR, p.PadT, p.PadB = c09RandomPad(rng)
		img := c09Render(full, p)
		info := c09Merge(s.info(), p)
		out, _ := c09Outcome(r, "QR_CODE", rd, img, p.hints(), s.text, info, -1)
		if out == "" {
			return
		}
		c09Tally(r, "QR_CODE", p, out, true)
		if out == "read" && p.Scale >= 3 {
			r.Tally(fmt.Sprintf("QR_CODE_version_%02d_read_at_scale_ge3", v))
		}
		if sample && k == 0 {
			info["outcome"] = out
			info["content"] = trunc(s.text, 60)
			r.Sample(info)
		}
	}
}

// c09QRLarge: versions 7..40 (the ones that carry version information), upright, the writer's
// own quiet zone, 2..5 pixels per module: the dimension estimate of the locating stage is off by
// a few modules for some of these clean images, and everything downstream has to cope with a
// grid that does not fit the symbol.
func c09QRLarge(r *fw.Rec, v int, nsym int) {
	rng := r.Rng
	rd := qrcode.NewQRCodeReader()
	for i := 0; i < nsym; i++ {
		s, ok := c09QRSymbol(rng, v)
		if !ok {
			continue
		}
		wh := map[gozxing.EncodeHintType]interface{}{gozxing.EncodeHintType_ERROR_CORRECTION: qrLibLevel[s.level]}
		for k, val := range qrHints(s.version, s.mask, s.charset) {
			wh[k] = val
		}
		bm, err := qrcode.NewQRCodeWriter().Encode(s.text, gozxing.BarcodeFormat_QR_CODE, 0, 0, wh)
		if err != nil {
			continue
		}
		full := bitMatrixToBools(bm)
		for sc := 2; sc <= 5; sc++ {
			p := c09Pose{Scale: sc, TryHarder: rng.Bool()}
			out, _ := c09Outcome(r, "QR_CODE", rd, c09Render(full, p), p.hints(), s.text, c09Merge(s.info(), p), -1)
			if out == "" {
				return
			}
			c09Tally(r, "QR_CODE", p, out, true)
			r.Tally("QR_CODE_large_upright_" + out)
		}
		r.Nontrivial(fmt.Sprintf("qrlarge|%s|%d", s.text, v))
	}
}

// ---------------------------------------------------------------------------
// Data Matrix
// ---------------------------------------------------------------------------

func c09DMCase(r *fw.Rec, k int, variant int, nposes int, sample bool) {
	c09DMCaseT(r, k, variant, nposes, sample, false)
}

// c09DMCaseT: tight = every pose has a white border of exactly one pixel at scale 1 or 2, in all
// four orientations (the locating stage then works at the very edge of the image).
func c09DMCaseT(r *fw.Rec, k int, variant int, nposes int, sample bool, tight bool) {
	rng := r.Rng
	syms := dmref.Symbols()
	s := syms[k]
	// data codewords of the next smaller symbol of the same shape
	prev := 0
	for _, o := range syms {
		if o.Rect == s.Rect && o.DataCW < s.DataCW && o.DataCW > prev {
			prev = o.DataCW
		}
	}
	var content, class string
	ncw := s.DataCW
	if rng.Intn(3) == 0 {
		ncw = prev + 1 + rng.Intn(s.DataCW-prev)
	}
	switch variant % 4 { // fixed by the case index so that every size is reached a known number of times
	case 0: // digit runs
		class = "digit-runs"
		b := make([]byte, 2*ncw)
		d := byte('0' + rng.Intn(10))
		for i := range b {
			if rng.Intn(10) == 0 {
				d = byte('0' + rng.Intn(10))
			}
			b[i] = d
		}
		content = string(b)
	case 3: // text-mode compaction: lands on this or a smaller size
		class = "letters"
		content = fromAlphabet(rng, "abcdefghijklmnopqrstuvwxyz", 1+rng.Intn(ncw))
		if rng.Bool() {
			// label-like text: one letter case with digits and the punctuation of the shift sets
			class = "label-text"
			alpha := []string{"abcdefghijklmnopqrstuvwxyz0123456789 :;,.-/=", "ABCDEFGHIJKLMNOPQRSTUVWXYZ0123456789 :;,.-/="}[rng.Intn(2)]
			content = fromAlphabet(rng, alpha, 1+rng.Intn(ncw))
		}
	default:
		class = "digits"
		content = digitsN(rng, 2*ncw)
	}
	hints := map[gozxing.EncodeHintType]interface{}{gozxing.EncodeHintType_DATA_MATRIX_SHAPE: shapeHint(s)}
	bm, err := datamatrix.NewDataMatrixWriter().Encode(content, gozxing.BarcodeFormat_DATA_MATRIX, 0, 0, hints)
	r.Evals(1)
	if err != nil {
		r.Tally("DATA_MATRIX_writer_refused")
		return
	}
	full := bitMatrixToBools(bm)
	rows, cols := len(full), len(full[0])
	sizeName := fmt.Sprintf("%dx%d", rows, cols)
	if _, known := dmref.BySize(rows, cols); !known {
		r.Tally("DATA_MATRIX_writer_other_size")
		return
	}
	r.Tally("DATA_MATRIX_size_" + sizeName)
	r.Tally("DATA_MATRIX_class_" + class)
	r.Nontrivial("dm|" + content + "|" + sizeName)
	base := map[string]interface{}{"symbology": "DATA_MATRIX", "content": content, "class": class, "size": sizeName, "shape_hint": dmShapeName[shapeOf(s)]}
	rd := datamatrix.NewDataMatrixReader()
	for i := 0; i < nposes; i++ {
		p := c09Pose{Scale: 1 + rng.Intn(6), Rot: 90 * rng.Intn(4), TryHarder: rng.Intn(4) == 0}
		p.PadL, p.PadR, p.PadT, p.PadB = c09RandomPad(rng)
		if tight {
			p = c09Pose{Scale: 1 + i/4%2, Rot: 90 * (i % 4), TryHarder: i%3 == 0, PadL: 1, PadR: 1, PadT: 1, PadB: 1}
			r.Tally("DATA_MATRIX_poses_with_one_pixel_border")
		}
		if rows >= 120 && p.Scale > 4 && rng.Bool() {
			p.Scale = 1 + rng.Intn(4)
		}
		img := c09Render(full, p)
		info := c09Merge(base, p)
		out, _ := c09Outcome(r, "DATA_MATRIX", rd, img, p.hints(), content, info, -1)
		if out == "" {
			return
		}
		c09Tally(r, "DATA_MATRIX", p, out, true)
		if out == "read" && p.Scale >= 3 {
			r.Tally("DATA_MATRIX_size_" + sizeName + "_read_at_scale_ge3")
		}
		if sample && i == 0 {
			info["outcome"] = out
			info["content"] = trunc(content, 60)
			r.Sample(info)
		}
	}
}

// ---------------------------------------------------------------------------
// 1-D
// ---------------------------------------------------------------------------

type c09OneD struct {
	name   string
	reader func() gozxing.Reader
}

var c09OneDs = []c09OneD{
	{"EAN_13", oned.NewEAN13Reader},
	{"EAN_8", oned.NewEAN8Reader},
	{"UPC_A", oned.NewUPCAReader},
	{"UPC_E", oned.NewUPCEReader},
	{"CODE_39", oned.NewCode39Reader},
	{"CODE_93", oned.NewCode93Reader},
	{"CODE_128", oned.NewCode128Reader},
	{"ITF", oned.NewITFReader},
	{"CODABAR", oned.NewCodaBarReader},
}

// c09OneDContent draws a content from the writers table (sometimes replaced
// by digit runs) and returns what is handed to the writer and the canonical
// text the matching reader reports for that symbol.
func c09OneDContent(rng *fw.Rand, ws *writerSpec) (toWriter, canonical string) {
	c := ws.Gen(rng, false)
	// contents beyond the writers table that the matching reader accepts by contract
	if rng.Intn(3) == 0 {
		switch ws.Name {
		case "CODABAR": // full data alphabet, optionally explicit (also alternative) guards which the reader strips
			data := fromAlphabet(rng, "0123456789-$:/.+", 2+rng.Intn(19))
			switch rng.Intn(3) {
			case 0:
				return data, data
			case 1:
				return string("ABCD"[rng.Intn(4)]) + data + string("ABCD"[rng.Intn(4)]), data
			}
			return string("TN*E"[rng.Intn(4)]) + data + string("TN*E"[rng.Intn(4)]), data
		case "CODE_128": // all of ASCII (control characters select code set A)
			if rng.Bool() { // digit strings and text ending in digits: the symbol ends in code set C
				d := digitsN(rng, 2*(2+rng.Intn(10)))
				if rng.Bool() {
					d = fromAlphabet(rng, "ABCxyz-", 1+rng.Intn(6)) + d
				}
				return d, d
			}
			b := make([]byte, 1+rng.Intn(30))
			for i := range b {
				b[i] = byte(rng.Intn(0x80))
			}
			return string(b), string(b)
		case "CODE_93": // full ASCII through the shift characters
			b := make([]byte, 1+rng.Intn(20))
			for i := range b {
				b[i] = byte(rng.Intn(0x80))
			}
			return string(b), string(b)
		case "ITF": // longer than the default allowed lengths is allowed too
			d := digitsN(rng, 2*(8+rng.Intn(13)))
			return d, d
		}
	}
	if rng.Intn(4) == 0 {
		// runs: keep the length and (where applicable) the alphabet, repeat characters
		b := []byte(c)
		allDigit := odIn("0123456789", c)
		pick := func() byte {
			if allDigit || rng.Bool() {
				return byte('0' + rng.Intn(10))
			}
			return b[rng.Intn(len(b))]
		}
		d := pick()
		for i := range b {
			if rng.Intn(6) == 0 {
				d = pick()
			}
			b[i] = d
		}
		if ws.Name == "UPC_E" && b[0] > '1' {
			b[0] = byte('0' + rng.Intn(2))
		}
		c = string(b)
	}
	switch ws.Name {
	case "EAN_13", "EAN_8", "UPC_A":
		full := c + string(rune('0'+onedref.Mod10(c)))
		if rng.Bool() {
			return full, full // check digit supplied
		}
		return c, full // check digit computed by the writer
	case "UPC_E":
		// always hand over all 8 digits: the writer's own check digit for 7-digit input is a separate (known) defect
		full := c + string(rune('0'+onedref.Mod10(onedref.UPCEExpand(c[1:7], c[0]))))
		return full, full
	}
	return c, c
}

func c09OneDCase(r *fw.Rec, od c09OneD, nrandom int, sample bool) {
	rng := r.Rng
	ws := writerByName(od.name)
	toWriter, want := c09OneDContent(rng, ws)
	base := map[string]interface{}{"symbology": od.name, "to_writer": toWriter, "content": want}
	r.Nontrivial("oned|" + od.name + "|" + toWriter)
	render := func(height int) ([][]bool, bool) {
		bm, err := ws.New().Encode(toWriter, ws.Format, 0, height, nil)
		r.Evals(1)
		if err != nil {
			r.Tally(od.name + "_writer_refused")
			return nil, false
		}
		return bitMatrixToBools(bm), true
	}
	rd := od.reader()

	// --- positive obligations under generous conditions ---
	gh := 30 + rng.Intn(31)
	mod, ok := render(gh)
	if !ok {
		return
	}
	generous := func(rot int, th bool) c09Pose {
		p := c09Pose{Scale: 2 + rng.Intn(5), Rot: rot, TryHarder: th}
		p.PadL, p.PadR = 10+rng.Intn(31), 10+rng.Intn(31)
		p.PadT = 10 + rng.Intn(26)
		p.PadB = p.PadT + rng.Intn(6)
		return p
	}
	type oblig struct {
		rot int
		th  bool
	}
	for _, o := range []oblig{{180, false}, {180, true}, {90, true}, {270, true}, {0, false}} {
		p := generous(o.rot, o.th)
		img := c09Render(mod, p)
		info := c09Merge(base, p)
		info["image_height_modules"] = gh
		out, res := c09Outcome(r, od.name, rd, img, p.hints(), want, info, p.Rot)
		if out == "" {
			return
		}
		c09Tally(r, od.name, p, out, false)
		switch o.rot {
		case 180:
			if out != "read" {
				r.Violation("orientation", od.name+":rot180-not-read", fmt.Sprintf("%s symbol %q turned upside down (scale %d, %d rows, quiet >= 10 px) was not read: %s", od.name, want, p.Scale, gh*p.Scale, out), info)
				return
			}
			o180, has := res.GetResultMetadata()[gozxing.ResultMetadataType_ORIENTATION]
			if v, isInt := o180.(int); !has || !isInt || v != 180 {
				info["orientation"] = fmt.Sprint(o180)
				r.Violation("orientation", od.name+":rot180-orientation-metadata"+c09ReverseAccepted(res), fmt.Sprintf("%s symbol %q turned upside down was read but ORIENTATION metadata is %v (present=%v), expected 180", od.name, want, o180, has), info)
				return
			}
			r.Tally(od.name + "_rot180_read_with_orientation")
			r.Tally("oned_rot180_obligations_met")
		case 90, 270:
			if out != "read" {
				r.Violation("orientation", fmt.Sprintf("%s:rot%d-tryharder-not-read", od.name, o.rot), fmt.Sprintf("%s symbol %q rotated %d degrees (scale %d, quiet >= 10 px) was not read with TRY_HARDER: %s", od.name, want, o.rot, p.Scale, out), info)
				return
			}
			r.Tally(od.name + "_sideways_tryharder_read")
			r.Tally("oned_sideways_obligations_met")
			r.Tally(fmt.Sprintf("dont_care_sideways_rot%03d_orientation_%v", o.rot, res.GetResultMetadata()[gozxing.ResultMetadataType_ORIENTATION]))
		case 0:
			// the upright read is the subject of other properties; here only "content or typed error"
			if out == "read" {
				r.Tally(od.name + "_upright_generous_read")
				if _, has := res.GetResultMetadata()[gozxing.ResultMetadataType_ORIENTATION]; has {
					r.Tally("dont_care_upright_with_orientation_metadata")
				}
			} else {
				r.Tally("dont_care_upright_generous_" + out)
			}
		}
	}
	if sample {
		r.Sample(map[string]interface{}{"symbology": od.name, "to_writer": toWriter, "content": want, "obligations": "rot180 (default + TRY_HARDER), rot90/270 TRY_HARDER, upright", "rows_modules": gh})
	}

	// --- low strips: an image less than 32 pixels high whose bars lie entirely above (or below)
	// the middle row, but within six rows of it; no TRY_HARDER.  The row scanner visits the
	// middle row and then rows at growing distance on both sides, so the bars are reached;
	// upside down the content comes with ORIENTATION 180.
	for k := 0; k < 4; k++ {
		hb, sc := 2+rng.Intn(3), 2+rng.Intn(2) // 4..12 pixel rows of bars
		m, ok := render(hb)
		if !ok {
			return
		}
		bars := hb * sc
		p := c09Pose{Scale: sc, Rot: 180 * (k % 2)}
		p.PadL, p.PadR = 12+rng.Intn(20), 12+rng.Intn(20)
		// paddings are in modules; the geometry is judged in pixels
		near := rng.Intn(2)
		var fars []int
		for far := 0; far < 32; far++ {
			H := (near + hb + far) * sc
			mid := H / 2
			end := (near + hb) * sc // first white pixel row behind the bars
			if H < 32 && mid >= end && mid-(end-1) <= 6 {
				fars = append(fars, far)
			}
		}
		if len(fars) == 0 {
			continue
		}
		far := fars[rng.Intn(len(fars))]
		H := (near + hb + far) * sc
		if rng.Bool() {
			p.PadT, p.PadB = near, far
		} else {
			p.PadT, p.PadB = far, near
		}
		img := c09Render(m, p)
		info := c09Merge(base, p)
		info["image_height_pixels"] = H
		out, res := c09Outcome(r, od.name, rd, img, p.hints(), want, info, p.Rot)
		if out == "" {
			return
		}
		if out != "read" {
			r.Violation("orientation", fmt.Sprintf("%s:low-strip-rot%d-not-read", od.name, p.Rot), fmt.Sprintf("%s symbol %q, %d pixel rows of bars in a strip %d pixels high (middle row white, bars within six rows of it), rotation %d, was not read: %s", od.name, want, bars, H, p.Rot, out), info)
			return
		}
		if p.Rot == 180 {
			if v, isInt := res.GetResultMetadata()[gozxing.ResultMetadataType_ORIENTATION].(int); !isInt || v != 180 {
				r.Violation("orientation", od.name+":rot180-orientation-metadata"+c09ReverseAccepted(res), fmt.Sprintf("%s symbol %q upside down in a low strip was read without ORIENTATION 180", od.name, want), info)
				return
			}
		}
		r.Tally("oned_low_strip_reads")
	}

	// --- arbitrary poses: content or typed error ---
	for i := 0; i < nrandom; i++ {
		h := 1 + rng.Intn(60)
		if rng.Intn(3) == 0 {
			h = 1 + rng.Intn(4)
		}
		m, ok := render(h)
		if !ok {
			return
		}
		p := c09Pose{Scale: 1 + rng.Intn(6), Rot: 90 * rng.Intn(4), TryHarder: rng.Bool()}
		p.PadL, p.PadR, p.PadT, p.PadB = c09RandomPad(rng)
		img := c09Render(m, p)
		info := c09Merge(base, p)
		info["image_height_modules"] = h
		out, _ := c09Outcome(r, od.name, rd, img, p.hints(), want, info, p.Rot)
		if out == "" {
			return
		}
		c09Tally(r, od.name, p, out, false)
		r.Tally(od.name + "_arbitrary_pose_" + out)
	}
}

// c09OneDSweep: many symbols, one cheap pose each (upside down or upright at
// 2..3 px per module, 30 rows, >= 12 px of quiet zone): the rot180 obligation and the
// never-misread oracle at a volume that exposes per-number ambiguities of a symbology.
func c09OneDSweep(r *fw.Rec, od c09OneD, n int) {
	rng := r.Rng
	ws := writerByName(od.name)
	rd := od.reader()
	for i := 0; i < n; i++ {
		toWriter, want := c09OneDContent(rng, ws)
		bm, err := ws.New().Encode(toWriter, ws.Format, 0, 30, nil)
		r.Evals(1)
		if err != nil {
			r.Tally(od.name + "_writer_refused")
			continue
		}
		p := c09Pose{Scale: 2 + rng.Intn(2), Rot: 180, PadL: 12 + rng.Intn(12), PadR: 12 + rng.Intn(12), PadT: 4, PadB: 4}
		if i%8 == 7 {
			p.Rot = 0
		}
		img := c09Render(bitMatrixToBools(bm), p)
		info := c09Merge(map[string]interface{}{"symbology": od.name, "to_writer": toWriter, "content": want, "image_height_modules": 30}, p)
		out, res := c09Outcome(r, od.name, rd, img, nil, want, info, p.Rot)
		if out == "" {
			return
		}
		c09Tally(r, od.name, p, out, false)
		if p.Rot == 0 {
			continue
		}
		if out != "read" {
			r.Violation("orientation", od.name+":rot180-not-read", fmt.Sprintf("%s symbol %q turned upside down (scale %d, %d rows, quiet >= 12 px) was not read: %s", od.name, want, p.Scale, 30*p.Scale, out), info)
			return
		}
		if v, isInt := res.GetResultMetadata()[gozxing.ResultMetadataType_ORIENTATION].(int); !isInt || v != 180 {
			r.Violation("orientation", od.name+":rot180-orientation-metadata"+c09ReverseAccepted(res), fmt.Sprintf("%s symbol %q turned upside down was read but ORIENTATION metadata is %v, expected 180", od.name, want, res.GetResultMetadata()[gozxing.ResultMetadataType_ORIENTATION]), info)
			return
		}
		r.Tally(od.name + "_rot180_read_with_orientation")
		r.Tally(od.name + "_sweep_rot180_ok")
		r.Tally("oned_rot180_obligations_met")
		if i%16 == 0 {
			r.Nontrivial("oned|" + od.name + "|" + toWriter)
		}
	}
}

// ---------------------------------------------------------------------------

func c09(c *fw.Ctx) {
	c.Rule("symbols from the library's writers (Encode(content, format, 0, h, hints): 1 px/module with the default quiet zone; QR: forced version 1..40 x random level x mask hint none/0..7, contents numeric (incl. digit runs), alphanumeric, UTF-8, kanji (Shift_JIS hint), ISO-8859-1 byte payloads imitating finder patterns (runs of 0x00/0xFF, 1011101 bit patterns, 7-byte finder rows, alternation) and random bytes; Data Matrix: all 30 sizes via digit strings of 2 x data-codewords length under the shape hint, digit runs, letters; nine 1-D symbologies with contents from the writers table and digit/character runs, writer image height 1..60 rows); posed by the harness only: white padding 0..40 px per side (independent, all-zero, uniform, one side bare), pixel replication 1..6, clockwise rotation 0/90/180/270, transposition (QR, 1/3 of poses); read through NewBinaryBitmapFromImage + the matching single-format reader with no hints or TRY_HARDER; per QR symbol additionally Decoder.Decode of the bare upright and transposed module matrix; per 1-D symbol the obligations rot180 (default and TRY_HARDER), rot90/rot270 (TRY_HARDER) under generous conditions (scale 2..6, 30..60 rows, padding >= 10 px); an upside-down sweep of 250 x 12 (quick) / 250 x 200 (thorough) further symbols per 1-D symbology with one cheap pose each (7/8 rot180, 1/8 upright; scale 2..3, 30 rows, quiet >= 12 px) so that per-number ambiguities with a rate of 1e-3 (quick) / 1e-4 (thorough) are met; 1-D contents beyond the writers table: Codabar full data alphabet with explicit/alternative guards, Code 128 and Code 93 all of ASCII, ITF 16..40 digits; distinct = distinct (symbology, content, symbol parameters)")
	c.Assume("canonical 1-D texts are computed independently (onedref.Mod10 / UPCEExpand for EAN-13, EAN-8, UPC-A, UPC-E; content itself for Code 39/93/128, ITF, Codabar whose guards the reader strips); UPC-E is always written from 8 digits with the reference check digit")
	c.Assume("2-D symbols through the detector and 1-D symbols in arbitrary poses may be read or refused with NotFound/Checksum/Format (tallied per symbology, scale, rotation); ORIENTATION metadata of sideways reads and of upright reads, the barcode format field and result points are don't-care here")
	c.Assume("only the single-format reader matching the writer is used (multi-format readers legitimately report UPC-A as EAN-13 etc.); Code 39 is read with the default (non-extended, no check digit) reader; ITF lengths 6..14 (the reader's default allowed lengths) and 16..40 (anything longer than the largest allowed length is accepted; 2 and 4 digits are refused by contract and not generated); Codabar >= 2 data characters (the reader refuses shorter symbols by contract)")

	c.Note("signature UPC_E:misread:row-accepted-in-reverse-direction = the UPC-E reader accepts an upside-down symbol in the forward direction three runs out of step (reversed end guard 101010 starts like the start guard 101; decodeDigit scales every 4-run group by its own width, so groups 5..9 modules wide pass; parity table and one check digit remain): exhaustively 3952 of the 2,000,000 UPC-E numbers (0.198%) at integer scales >= 2, e.g. 12602483 upside down is delivered as 16711983; repaired by notes/fix-c09-1-upce-upside-down-run-shifted-misread.diff (digit widths and end guard must agree with the module width measured over the six digits)")

	// QR
	nq := c.Pick(640, 20000) // symbols; version = 1 + (i*7)%40 visits every version equally
	for i := 0; i < nq; i++ {
		i := i
		v := 1 + (i*7)%40
		c.Run(fmt.Sprintf("qr/v%02d/%d", v, i), func(r *fw.Rec) { c09QRCase(r, v, 12, i < 2) })
	}
	nl := c.Pick(2, 12)
	for v := 7; v <= 40; v++ {
		for j := 0; j < nl; j++ {
			v := v
			c.Run(fmt.Sprintf("qrlarge/v%02d/%d", v, j), func(r *fw.Rec) { c09QRLarge(r, v, 30) })
		}
	}
	c.Floor("QR_CODE_large_upright_read", int64(c.Pick(5000, 30000)))
	// decoder-level sweep: many small symbols, upright and transposed, no poses - the mirrored retry
	// only runs after the un-mirrored pass over garbage codewords has failed, so any weakness of that
	// first pass (e.g. a Reed-Solomon decoder that "corrects" uncorrectable blocks) shows up as a
	// misread of specific payloads at a rate of 1e-3..1e-4
	nh := c.Pick(24, 400)
	for i := 0; i < nh; i++ {
		c.Run(fmt.Sprintf("oned180hints/%d", i), func(r *fw.Rec) { c09HintsCase(r, 60) })
	}
	c.Floor("oned_rot180_with_hints_equal", int64(nh*30))
	nmir := c.Pick(60, 600)
	for i := 0; i < nmir; i++ {
		i := i
		c.Run(fmt.Sprintf("qrmirror/%d", i), func(r *fw.Rec) {
			for k := 0; k < 250; k++ {
				c09QRCase(r, 1+(i+k)%6, 0, false)
			}
		})
	}
	// Data Matrix
	nd := c.Pick(480, 15000)
	for i := 0; i < nd; i++ {
		i := i
		k := i % 30
		c.Run(fmt.Sprintf("dm/%02d/%d", k, i), func(r *fw.Rec) { c09DMCase(r, k, i/30, 12, i < 2) })
		if i < c.Pick(240, 3000) {
			c.Run(fmt.Sprintf("dmtight/%02d/%d", k, i), func(r *fw.Rec) { c09DMCaseT(r, k, i/30, 8, false, true) })
		}
	}
	// 1-D
	no := c.Pick(120, 4000)
	for _, od := range c09OneDs {
		od := od
		for i := 0; i < no; i++ {
			i := i
			c.Run(fmt.Sprintf("oned/%s/%d", od.name, i), func(r *fw.Rec) { c09OneDCase(r, od, 6, i == 0 && (od.name == "EAN_13" || od.name == "CODE_128")) })
		}
	}

	// upside-down sweep: 250 symbols per case
	nsw := c.Pick(12, 200)
	for _, od := range c09OneDs {
		od := od
		for i := 0; i < nsw; i++ {
			c.Run(fmt.Sprintf("oned180/%s/%d", od.name, i), func(r *fw.Rec) { c09OneDSweep(r, od, 250) })
		}
	}

	c.Floor("poses", int64(c.Pick(35000, 700000)))
	c.Floor("oned_low_strip_reads", int64(c.Pick(1500, 30000)))
	c.Floor("qr_decoder_upright_ok", int64(c.Pick(500, 16000)))
	c.Floor("qr_decoder_mirrored_ok", int64(c.Pick(500, 16000)))
	c.Floor("QR_CODE_read_at_scale_ge3", int64(c.Pick(1000, 30000)))
	c.Floor("DATA_MATRIX_read_at_scale_ge3", int64(c.Pick(600, 20000)))
	c.Floor("QR_CODE_mirrored_read", int64(c.Pick(300, 10000)))
	c.Floor("QR_CODE_class_finder-like-bytes", int64(c.Pick(120, 4000)))
	for v := 1; v <= 40; v++ {
		c.Floor(fmt.Sprintf("QR_CODE_version_%02d", v), int64(c.Pick(8, 300)))
		c.Floor(fmt.Sprintf("QR_CODE_version_%02d_read_at_scale_ge3", v), 1)
	}
	for _, s := range dmref.Symbols() {
		c.Floor(fmt.Sprintf("DATA_MATRIX_size_%dx%d", s.Rows, s.Cols), int64(c.Pick(8, 300)))
		c.Floor(fmt.Sprintf("DATA_MATRIX_size_%dx%d_read_at_scale_ge3", s.Rows, s.Cols), 1)
	}
	for _, od := range c09OneDs {
		c.Floor(od.name+"_rot180_read_with_orientation", int64(c.Pick(1500, 30000)))
		c.Floor(od.name+"_sideways_tryharder_read", int64(c.Pick(120, 3000)))
		c.Floor(od.name+"_read", int64(c.Pick(2000, 40000)))
	}
}
