//go:build verif

package main

import (
	"github.com/makiuchi-d/gozxing"
	"github.com/makiuchi-d/gozxing/datamatrix"
	"github.com/makiuchi-d/gozxing/oned"
	"github.com/makiuchi-d/gozxing/qrcode"

	"verifharness/fw"
)

// The library's 11 writers with a generator of valid contents for each.
type writerSpec struct {
	Name   string
	Format gozxing.BarcodeFormat
	New    func() gozxing.Writer
	Gen    func(rng *fw.Rand, small bool) string
	OneD   bool
}

func digitsN(rng *fw.Rand, n int) string {
	b := make([]byte, n)
	for i := range b {
		b[i] = byte('0' + rng.Intn(10))
	}
	return string(b)
}

func fromAlphabet(rng *fw.Rand, alphabet string, n int) string {
	b := make([]byte, n)
	for i := range b {
		b[i] = alphabet[rng.Intn(len(alphabet))]
	}
	return string(b)
}

const code39Alphabet = "0123456789ABCDEFGHIJKLMNOPQRSTUVWXYZ-. $/+%"

func lenFor(rng *fw.Rand, small bool, lo, hi int) int {
	if small {
		return lo + rng.Intn(3)
	}
	return lo + rng.Intn(hi-lo+1)
}

var allWriters = []writerSpec{
	{"QR_CODE", gozxing.BarcodeFormat_QR_CODE, func() gozxing.Writer { return qrcode.NewQRCodeWriter() },
		func(rng *fw.Rand, small bool) string {
			n := lenFor(rng, small, 1, 60)
			switch rng.Intn(3) {
			case 0:
				return digitsN(rng, n)
			case 1:
				return fromAlphabet(rng, "0123456789ABCDEFGHIJKLMNOPQRSTUVWXYZ $%*+-./:", n)
			}
			return fromAlphabet(rng, "abcdefghijklmnopqrstuvwxyz ,.!?0123456789", n)
		}, false},
	{"DATA_MATRIX", gozxing.BarcodeFormat_DATA_MATRIX, func() gozxing.Writer { return datamatrix.NewDataMatrixWriter() },
		func(rng *fw.Rand, small bool) string {
			// plain ASCII-encodable contents (digits and lower-case letters keep the encoder in ASCII mode)
			n := lenFor(rng, small, 1, 40)
			if rng.Bool() {
				return digitsN(rng, n)
			}
			return fromAlphabet(rng, "abcdefghijklmnopqrstuvwxyz", n)
		}, false},
	{"EAN_13", gozxing.BarcodeFormat_EAN_13, oned.NewEAN13Writer, func(rng *fw.Rand, small bool) string { return digitsN(rng, 12) }, true},
	{"EAN_8", gozxing.BarcodeFormat_EAN_8, oned.NewEAN8Writer, func(rng *fw.Rand, small bool) string { return digitsN(rng, 7) }, true},
	{"UPC_A", gozxing.BarcodeFormat_UPC_A, oned.NewUPCAWriter, func(rng *fw.Rand, small bool) string { return digitsN(rng, 11) }, true},
	{"UPC_E", gozxing.BarcodeFormat_UPC_E, oned.NewUPCEWriter, func(rng *fw.Rand, small bool) string {
		return string(byte('0'+rng.Intn(2))) + digitsN(rng, 6)
	}, true},
	{"CODE_39", gozxing.BarcodeFormat_CODE_39, oned.NewCode39Writer, func(rng *fw.Rand, small bool) string {
		return fromAlphabet(rng, code39Alphabet, lenFor(rng, small, 1, 30))
	}, true},
	{"CODE_93", gozxing.BarcodeFormat_CODE_93, oned.NewCode93Writer, func(rng *fw.Rand, small bool) string {
		return fromAlphabet(rng, code39Alphabet, lenFor(rng, small, 1, 30))
	}, true},
	{"CODE_128", gozxing.BarcodeFormat_CODE_128, oned.NewCode128Writer, func(rng *fw.Rand, small bool) string {
		n := lenFor(rng, small, 1, 30)
		b := make([]byte, n)
		for i := range b {
			b[i] = byte(0x20 + rng.Intn(0x5F))
		}
		if rng.Intn(3) == 0 {
			return digitsN(rng, 2*((n+1)/2))
		}
		return string(b)
	}, true},
	{"ITF", gozxing.BarcodeFormat_ITF, oned.NewITFWriter, func(rng *fw.Rand, small bool) string {
		n := 2 * lenFor(rng, small, 3, 7)
		return digitsN(rng, n)
	}, true},
	{"CODABAR", gozxing.BarcodeFormat_CODABAR, oned.NewCodaBarWriter, func(rng *fw.Rand, small bool) string {
		return fromAlphabet(rng, "0123456789-$", lenFor(rng, small, 2, 20))
	}, true},
}

func writerByName(name string) *writerSpec {
	for i := range allWriters {
		if allWriters[i].Name == name {
			return &allWriters[i]
		}
	}
	return nil
}
