package qrref

// Mask evaluation (ISO 18004:2006 8.8.2 / 2015 7.8.3, Table 11).
//
//   N1 = 3   adjacent modules in row/column in same colour, run of 5+i: N1+i
//   N2 = 3   block of modules in same colour, m x n: N2*(m-1)*(n-1)
//            (equivalently: N2 for every 2x2 same-colour window)
//   N3 = 40  1:1:3:1:1 (dark:light:dark:light:dark) pattern in row/column,
//            preceded or followed by a light area 4 modules wide
//   N4 = 10  dark proportion 50 +/- (5k)% .. 50 +/- (5(k+1))%: N4*k
//
// The N3 wording is ambiguous in two ways (does the quiet zone count as the
// light area; does a pattern with light on both sides score once or twice).
// PenaltyScore takes the literal in-symbol reading: each position where the
// 7 modules 1011101 occur scores N3 once if the 4 modules before it or the 4
// modules after it exist inside the symbol and are all light.  PenaltyN3Alt
// exposes the other common reading for comparison.

// PenaltyParts returns the four feature scores separately.
func PenaltyParts(m [][]bool) (n1, n2, n3, n4 int) {
	size := len(m)
	get := func(x, y int, transpose bool) bool {
		if transpose {
			return m[x][y]
		}
		return m[y][x]
	}
	for _, tr := range []bool{false, true} {
		for a := 0; a < size; a++ {
			// N1
			run := 0
			for b := 0; b < size; b++ {
				if b > 0 && get(b, a, tr) == get(b-1, a, tr) {
					run++
				} else {
					run = 1
				}
				if run == 5 {
					n1 += 3
				} else if run > 5 {
					n1++
				}
			}
			// N3
			for b := 0; b+7 <= size; b++ {
				if !(get(b, a, tr) && !get(b+1, a, tr) && get(b+2, a, tr) && get(b+3, a, tr) &&
					get(b+4, a, tr) && !get(b+5, a, tr) && get(b+6, a, tr)) {
					continue
				}
				light := func(from int) bool {
					if from < 0 || from+4 > size {
						return false
					}
					for k := from; k < from+4; k++ {
						if get(k, a, tr) {
							return false
						}
					}
					return true
				}
				if light(b-4) || light(b+7) {
					n3 += 40
				}
			}
		}
	}
	dark := 0
	for y := 0; y < size; y++ {
		for x := 0; x < size; x++ {
			if m[y][x] {
				dark++
			}
			if x+1 < size && y+1 < size && m[y][x] == m[y][x+1] && m[y][x] == m[y+1][x] && m[y][x] == m[y+1][x+1] {
				n2 += 3
			}
		}
	}
	total := size * size
	dev := 20*dark - 10*total // |pct-50|/5 = |20*dark-10*total| / total
	if dev < 0 {
		dev = -dev
	}
	n4 = 10 * (dev / total)
	return
}

// PenaltyScore returns N1+N2+N3+N4 penalty points of a symbol.
func PenaltyScore(m [][]bool) int {
	a, b, c, d := PenaltyParts(m)
	return a + b + c + d
}

// PenaltyN3Alt is the alternative reading of the N3 rule: modules outside
// the symbol count as light, and a 1011101 with a 4-module light area on
// both sides scores twice.
func PenaltyN3Alt(m [][]bool) int {
	size := len(m)
	n3 := 0
	for _, tr := range []bool{false, true} {
		get := func(b, a int) bool {
			if b < 0 || b >= size {
				return false
			}
			if tr {
				return m[b][a]
			}
			return m[a][b]
		}
		for a := 0; a < size; a++ {
			for b := 0; b+7 <= size; b++ {
				if !(get(b, a) && !get(b+1, a) && get(b+2, a) && get(b+3, a) &&
					get(b+4, a) && !get(b+5, a) && get(b+6, a)) {
					continue
				}
				if !get(b-1, a) && !get(b-2, a) && !get(b-3, a) && !get(b-4, a) {
					n3 += 40
				}
				if !get(b+7, a) && !get(b+8, a) && !get(b+9, a) && !get(b+10, a) {
					n3 += 40
				}
			}
		}
	}
	return n3
}
