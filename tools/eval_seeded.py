#!/usr/bin/env python3
"""Evaluate independently authored seeded changes found in /tmp/mut-<id>-out/ and keep the confirmed ones
under /verif/seeded/<id>-<k>/ (patch.diff, demo_test.go, meta.json incl. what was run and which check caught it)."""
import json, os, subprocess, sys, shutil, glob, re
WAVE = int(os.environ.get('WAVE', '1'))
PFX = '/tmp/mut' + ('' if WAVE == 1 else str(WAVE))
ids = sys.argv[1:] or sorted(set(re.search(r'-(C\d+)-out', d).group(1) for d in glob.glob(PFX + '-C*-out')))
for pid in ids:
    out = f'{PFX}-{pid}-out'
    for k in (1, 2, 3):
        patch, demo, meta = f'{out}/patch{k}.diff', f'{out}/demo{k}_test.go', f'{out}/meta{k}.json'
        dest = f'/verif/seeded/{pid}-{k + 2 * (WAVE - 1)}'
        if not (os.path.exists(patch) and os.path.exists(demo) and os.path.exists(meta)) or os.path.exists(dest + '/meta.json'):
            continue
        extra = [a for a in os.environ.get('ALSO', '').split() if a != pid]
        res = subprocess.run(['/verif/tools/try_seeded.sh', patch, demo, pid] + extra, capture_output=True, text=True, errors='replace')
        lines = [l for l in res.stdout.splitlines() if l.startswith('RESULT')]
        txt = '\n'.join(lines)
        suite = 'suite=PASS' in txt
        demo_ok = 'demo_with_change=FAIL(expected)' in txt and 'demo_without_change=PASS(expected)' in txt
        caught = [re.search(r'check=(\S+) tier=(\S+) CAUGHT', l).groups() for l in lines if ' CAUGHT' in l]
        missed = [re.search(r'check=(\S+) tier=thorough', l).group(1) for l in lines if ' MISSED' in l]
        try:
            m = json.load(open(meta))
        except Exception as e:
            m = {'property': pid, 'summary': 'meta.json unreadable: %s' % e}
        confirmed = suite and demo_ok
        m.update({'confirmed_by_harness_author': confirmed, 'suite_passes_with_change': suite, 'demo_fails_with_change_passes_without': demo_ok,
                  'caught_by': [{'check': c, 'tier': t} for c, t in caught], 'missed_by': missed,
                  'what_was_run': 'tools/try_seeded.sh patch.diff demo_test.go %s %s (scratch worktree of /repo HEAD %s)' % (pid, ' '.join(extra), subprocess.run(['git','-C','/repo','rev-parse','--short','HEAD'],capture_output=True,text=True).stdout.strip()),
                  'result_lines': lines})
        m['wave'] = WAVE
        print(f"{os.path.basename(dest)}: confirmed={confirmed} caught={caught} missed={missed} :: {m.get('summary','')[:110]}")
        if confirmed:
            os.makedirs(dest, exist_ok=True)
            shutil.copy(patch, dest + '/patch.diff'); shutil.copy(demo, dest + '/demo_test.go')
            json.dump(m, open(dest + '/meta.json', 'w'), indent=1)
        else:
            os.makedirs('/verif/work/rejected-seeds', exist_ok=True)
            json.dump(m, open(f'/verif/work/rejected-seeds/{os.path.basename(dest)}.json', 'w'), indent=1)
            print('   ', txt.replace('\n', '\n    ')[:1500])
