// Package qrref is an independent reference model of QR Code Model 2
// (ISO/IEC 18004:2006 / 2015).  It is written from the standard, shares no
// code or tables with the library under test, and prefers computing over
// typing: the only typed tables are the error-correction characteristics
// (EC codewords per block, number of blocks), the alignment pattern centres
// (cross-checked in the tests against a closed-form rule), the character
// count widths and the mode indicators.  Everything else (module counts,
// codeword totals, remainder bits, BCH words, capacities, block structure)
// is derived.
//
// Coordinates: x = column (j in the standard), y = row (i in the standard),
// origin top-left.  Matrices are indexed [y][x]; true = dark.
package qrref

import "fmt"

// Level is the error correction level.
type Level int

const (
	L Level = iota
	M
	Q
	H
)

func (l Level) String() string {
	switch l {
	case L:
		return "L"
	case M:
		return "M"
	case Q:
		return "Q"
	case H:
		return "H"
	}
	return fmt.Sprintf("Level(%d)", int(l))
}

// Mode is an encoding mode.
type Mode int

const (
	Numeric Mode = iota
	Alphanumeric
	Byte
	Kanji
)

// Pseudo modes (never have a character count).
const (
	ModeECI              Mode = -1 // ECI header, indicator 0111
	ModeFNC1First        Mode = -2 // indicator 0101, no payload
	ModeFNC1Second       Mode = -3 // indicator 1001, 8 bit application indicator
	ModeStructuredAppend Mode = -4 // indicator 0011, 4+4 bit sequence, 8 bit parity
)

func (m Mode) String() string {
	switch m {
	case Numeric:
		return "Numeric"
	case Alphanumeric:
		return "Alphanumeric"
	case Byte:
		return "Byte"
	case Kanji:
		return "Kanji"
	case ModeECI:
		return "ECI"
	case ModeFNC1First:
		return "FNC1-1st"
	case ModeFNC1Second:
		return "FNC1-2nd"
	case ModeStructuredAppend:
		return "StructuredAppend"
	}
	return fmt.Sprintf("Mode(%d)", int(m))
}

// Mode indicators (ISO 18004 Table 2).
const (
	indTerminator       = 0x0
	indNumeric          = 0x1
	indAlphanumeric     = 0x2
	indStructuredAppend = 0x3
	indByte             = 0x4
	indFNC1First        = 0x5
	indECI              = 0x7
	indKanji            = 0x8
	indFNC1Second       = 0x9
)

// AlnumCharset is the 45 character alphanumeric set in value order (Table 5).
const AlnumCharset = "0123456789ABCDEFGHIJKLMNOPQRSTUVWXYZ $%*+-./:"

// ecPerBlock[level][version-1]: number of error correction codewords in each
// block (ISO 18004 Table 9; every block of a version/level has the same
// number of EC codewords).
var ecPerBlock = [4][40]int{
	// L
	{7, 10, 15, 20, 26, 18, 20, 24, 30, 18,
		20, 24, 26, 30, 22, 24, 28, 30, 28, 28,
		28, 28, 30, 30, 26, 28, 30, 30, 30, 30,
		30, 30, 30, 30, 30, 30, 30, 30, 30, 30},
	// M
	{10, 16, 26, 18, 24, 16, 18, 22, 22, 26,
		30, 22, 22, 24, 24, 28, 28, 26, 26, 26,
		26, 28, 28, 28, 28, 28, 28, 28, 28, 28,
		28, 28, 28, 28, 28, 28, 28, 28, 28, 28},
	// Q
	{13, 22, 18, 26, 18, 24, 18, 22, 20, 24,
		28, 26, 24, 20, 30, 24, 28, 28, 26, 30,
		28, 30, 30, 30, 30, 28, 30, 30, 30, 30,
		30, 30, 30, 30, 30, 30, 30, 30, 30, 30},
	// H
	{17, 28, 22, 16, 22, 28, 26, 26, 24, 28,
		24, 28, 22, 24, 24, 30, 28, 28, 26, 28,
		30, 24, 30, 30, 30, 30, 30, 30, 30, 30,
		30, 30, 30, 30, 30, 30, 30, 30, 30, 30},
}

// numBlocks[level][version-1]: total number of RS blocks (Table 9).
var numBlocks = [4][40]int{
	// L
	{1, 1, 1, 1, 1, 2, 2, 2, 2, 4,
		4, 4, 4, 4, 6, 6, 6, 6, 7, 8,
		8, 9, 9, 10, 12, 12, 12, 13, 14, 15,
		16, 17, 18, 19, 19, 20, 21, 22, 24, 25},
	// M
	{1, 1, 1, 2, 2, 4, 4, 4, 5, 5,
		5, 8, 9, 9, 10, 10, 11, 13, 14, 16,
		17, 17, 18, 20, 21, 23, 25, 26, 28, 29,
		31, 33, 35, 37, 38, 40, 43, 45, 47, 49},
	// Q
	{1, 1, 2, 2, 4, 4, 6, 6, 8, 8,
		8, 10, 12, 16, 12, 17, 16, 18, 21, 20,
		23, 23, 25, 27, 29, 34, 34, 35, 38, 40,
		43, 45, 48, 51, 53, 56, 59, 62, 65, 68},
	// H
	{1, 1, 2, 4, 4, 4, 5, 6, 8, 8,
		11, 11, 16, 16, 18, 16, 19, 21, 25, 25,
		25, 34, 30, 32, 35, 37, 40, 42, 45, 48,
		51, 54, 57, 60, 63, 66, 70, 74, 77, 81},
}

// alignCenters[version-1]: row/column coordinates of alignment pattern
// centres (ISO 18004 Annex E, Table E.1).
var alignCenters = [40][]int{
	nil,
	{6, 18},
	{6, 22},
	{6, 26},
	{6, 30},
	{6, 34},
	{6, 22, 38},
	{6, 24, 42},
	{6, 26, 46},
	{6, 28, 50},
	{6, 30, 54},
	{6, 32, 58},
	{6, 34, 62},
	{6, 26, 46, 66},
	{6, 26, 48, 70},
	{6, 26, 50, 74},
	{6, 30, 54, 78},
	{6, 30, 56, 82},
	{6, 30, 58, 86},
	{6, 34, 62, 90},
	{6, 28, 50, 72, 94},
	{6, 26, 50, 74, 98},
	{6, 30, 54, 78, 102},
	{6, 28, 54, 80, 106},
	{6, 32, 58, 84, 110},
	{6, 30, 58, 86, 114},
	{6, 34, 62, 90, 118},
	{6, 26, 50, 74, 98, 122},
	{6, 30, 54, 78, 102, 126},
	{6, 26, 52, 78, 104, 130},
	{6, 30, 56, 82, 108, 134},
	{6, 34, 60, 86, 112, 138},
	{6, 30, 58, 86, 114, 142},
	{6, 34, 62, 90, 118, 146},
	{6, 30, 54, 78, 102, 126, 150},
	{6, 24, 50, 76, 102, 128, 154},
	{6, 28, 54, 80, 106, 132, 158},
	{6, 32, 58, 84, 110, 136, 162},
	{6, 26, 54, 82, 110, 138, 166},
	{6, 30, 58, 86, 114, 142, 170},
}

func checkVersion(v int) {
	if v < 1 || v > 40 {
		panic(fmt.Sprintf("qrref: version %d out of range 1..40", v))
	}
}

func checkLevel(l Level) {
	if l < L || l > H {
		panic(fmt.Sprintf("qrref: level %d out of range", int(l)))
	}
}

// Size returns the side length in modules: 17+4v.
func Size(v int) int {
	checkVersion(v)
	return 17 + 4*v
}

// ECCodewordsPerBlock returns the number of EC codewords in every RS block.
func ECCodewordsPerBlock(v int, l Level) int {
	checkVersion(v)
	checkLevel(l)
	return ecPerBlock[l][v-1]
}

// NumBlocks returns the number of RS blocks.
func NumBlocks(v int, l Level) int {
	checkVersion(v)
	checkLevel(l)
	return numBlocks[l][v-1]
}

// DataCodewords returns the number of data codewords of the symbol.
func DataCodewords(v int, l Level) int {
	return TotalCodewords(v) - NumBlocks(v, l)*ECCodewordsPerBlock(v, l)
}

// Blocks returns the block structure as groups {count, dataCodewordsPerBlock},
// shorter blocks first.  The standard's rule: all blocks have the same number
// of EC codewords; total block lengths differ by at most one, the longer
// blocks come last.
func Blocks(v int, l Level) [][2]int {
	n := NumBlocks(v, l)
	ec := ECCodewordsPerBlock(v, l)
	total := TotalCodewords(v)
	short := total / n
	nLong := total % n
	nShort := n - nLong
	out := [][2]int{{nShort, short - ec}}
	if nLong > 0 {
		out = append(out, [2]int{nLong, short + 1 - ec})
	}
	return out
}

// blockDataLens expands Blocks into one entry per block.
func blockDataLens(v int, l Level) []int {
	var out []int
	for _, g := range Blocks(v, l) {
		for i := 0; i < g[0]; i++ {
			out = append(out, g[1])
		}
	}
	return out
}

// AlignmentCenters returns the alignment pattern centre coordinates (nil for
// version 1).  The returned slice is a copy.
func AlignmentCenters(v int) []int {
	checkVersion(v)
	if alignCenters[v-1] == nil {
		return nil
	}
	return append([]int(nil), alignCenters[v-1]...)
}

// CharCountBits returns the width of the character count indicator (Table 3).
func CharCountBits(m Mode, v int) int {
	checkVersion(v)
	var w [3]int
	switch m {
	case Numeric:
		w = [3]int{10, 12, 14}
	case Alphanumeric:
		w = [3]int{9, 11, 13}
	case Byte:
		w = [3]int{8, 16, 16}
	case Kanji:
		w = [3]int{8, 10, 12}
	default:
		return 0
	}
	switch {
	case v <= 9:
		return w[0]
	case v <= 26:
		return w[1]
	}
	return w[2]
}

// bch computes data<<(n-k) | remainder for generator g of degree deg.
func bch(data, deg, g int) int {
	r := data << uint(deg)
	for bit := 30; bit >= deg; bit-- {
		if r>>uint(bit)&1 == 1 {
			r ^= g << uint(bit-deg)
		}
	}
	return data<<uint(deg) | r
}

// levelBits are the two format-information bits of each level (Table 12):
// L=01 M=00 Q=11 H=10.
func levelBits(l Level) int {
	checkLevel(l)
	switch l {
	case L:
		return 1
	case M:
		return 0
	case Q:
		return 3
	}
	return 2
}

// FormatWord returns the 15 bit format information: (level bits, mask) with
// BCH(15,5) generator x^10+x^8+x^5+x^4+x^2+x+1 (0x537), XORed with
// 101010000010010 (0x5412).
func FormatWord(l Level, mask int) int {
	if mask < 0 || mask > 7 {
		panic(fmt.Sprintf("qrref: mask %d out of range", mask))
	}
	return bch(levelBits(l)<<3|mask, 10, 0x537) ^ 0x5412
}

// VersionWord returns the 18 bit version information: version with
// BCH(18,6) generator x^12+x^11+x^10+x^9+x^8+x^5+x^2+1 (0x1F25).
func VersionWord(v int) int {
	checkVersion(v)
	if v < 7 {
		panic(fmt.Sprintf("qrref: version %d has no version information", v))
	}
	return bch(v, 12, 0x1F25)
}

// Capacity returns the maximum number of characters a single segment of mode
// m can carry in a v-l symbol.
func Capacity(v int, l Level, m Mode) int { return CapacityWithHeader(v, l, m, 0) }

// CapacityWithHeader is Capacity when headerBits further bits precede the segment (4 for the
// FNC1-in-first-position mode indicator of a GS1 symbol, 12 for a one-byte ECI header).
func CapacityWithHeader(v int, l Level, m Mode, headerBits int) int {
	avail := 8*DataCodewords(v, l) - 4 - CharCountBits(m, v) - headerBits
	if avail < 0 {
		return 0
	}
	n := 0
	switch m {
	case Numeric:
		n = 3 * (avail / 10)
		switch r := avail % 10; {
		case r >= 7:
			n += 2
		case r >= 4:
			n++
		}
	case Alphanumeric:
		n = 2 * (avail / 11)
		if avail%11 >= 6 {
			n++
		}
	case Byte:
		n = avail / 8
	case Kanji:
		n = avail / 13
	default:
		return 0
	}
	// the count field itself limits the count
	if max := 1<<uint(CharCountBits(m, v)) - 1; n > max {
		n = max
	}
	return n
}

// MinVersion returns the smallest version whose Capacity(v,l,m) >= n, or 0.
func MinVersion(n int, m Mode, l Level) int { return MinVersionWithHeader(n, m, l, 0) }

// MinVersionWithHeader is MinVersion with headerBits further bits before the segment.
func MinVersionWithHeader(n int, m Mode, l Level, headerBits int) int {
	for v := 1; v <= 40; v++ {
		if CapacityWithHeader(v, l, m, headerBits) >= n {
			return v
		}
	}
	return 0
}
