//go:build verif

// Command worker is the process that calls the library under the monitors.
package main

import "verifharness/fw"

func main() { fw.Main() }
