// Package gf is a deliberately naive model of GF(2^m): multiplication is
// carry-less shift-and-xor followed by reduction modulo the primitive
// polynomial.  No tables, no code shared with the library under test.
package gf

// Field describes GF(2^m) by its primitive polynomial (including the x^m term).
type Field struct {
	Name string
	Prim int // primitive polynomial, e.g. 0x11D
	Size int // 2^m
	Base int // generator base b: RS generator roots are alpha^b .. alpha^(b+r-1)
}

// The six fields ISO 18004 / 16022 / 24778 prescribe.
var (
	QR256     = Field{"QR-256", 0x11D, 256, 0}
	DM256     = Field{"DataMatrix-256", 0x12D, 256, 1}
	Aztec16   = Field{"Aztec-16", 0x13, 16, 1}
	Aztec64   = Field{"Aztec-64", 0x43, 64, 1}
	Aztec1024 = Field{"Aztec-1024", 0x409, 1024, 1}
	Aztec4096 = Field{"Aztec-4096", 0x1069, 4096, 1}
	All       = []Field{QR256, DM256, Aztec16, Aztec64, Aztec1024, Aztec4096}
)

// Mul multiplies by carry-less multiplication and long reduction.
func (f Field) Mul(a, b int) int {
	p := 0
	for i := 0; b>>uint(i) != 0; i++ {
		if b>>uint(i)&1 == 1 {
			p ^= a << uint(i)
		}
	}
	// reduce
	m := 0
	for 1<<uint(m) < f.Size {
		m++
	}
	for bit := 2*m - 2; bit >= m; bit-- {
		if p>>uint(bit)&1 == 1 {
			p ^= f.Prim << uint(bit-m)
		}
	}
	return p
}

// Pow returns alpha^e (alpha = 2) by repeated multiplication.
func (f Field) Pow(e int) int {
	e %= f.Size - 1
	if e < 0 {
		e += f.Size - 1
	}
	x := 1
	for i := 0; i < e; i++ {
		x = f.Mul(x, 2)
	}
	return x
}

// PowOf returns a^e by repeated multiplication.
func (f Field) PowOf(a, e int) int {
	x := 1
	for i := 0; i < e; i++ {
		x = f.Mul(x, a)
	}
	return x
}

// Inv returns the inverse by search (a != 0).
func (f Field) Inv(a int) int {
	for b := 1; b < f.Size; b++ {
		if f.Mul(a, b) == 1 {
			return b
		}
	}
	return -1
}

// Log returns the discrete log base 2 by search (a != 0).
func (f Field) Log(a int) int {
	x := 1
	for i := 0; i < f.Size-1; i++ {
		if x == a {
			return i
		}
		x = f.Mul(x, 2)
	}
	return -1
}

// Order returns the multiplicative order of 2 (must be Size-1 for a primitive polynomial).
func (f Field) Order() int {
	x := 2
	n := 1
	for x != 1 {
		x = f.Mul(x, 2)
		n++
		if n > f.Size {
			return -1
		}
	}
	return n
}
