//go:build verif

package main

import (
	"fmt"
	"image"

	"github.com/makiuchi-d/gozxing"
	"github.com/makiuchi-d/gozxing/oned"

	"verifharness/fw"
	"verifharness/ref/onedref"
)

// C10: check digits / check characters are computed (writers), demanded and
// enforced (readers); UPC-E expansion inverts zero-suppression; add-ons are
// accepted only with their parity-encoded check value.

func init() { fw.Register("C10", c10) }

// ---------------------------------------------------------------------------
// A. writers
// ---------------------------------------------------------------------------

// c10WriterNumber checks one payload: the bars drawn for the short form and for the long form
// with the right digit equal the reference pattern with the reference check digit; the nine
// wrong digits are refused.  allWrong=false tries one seeded wrong digit only.
func c10WriterNumber(r *fw.Rec, s *odUPCEAN, w gozxing.Writer, payload string, allWrong bool) bool {
	want := s.full(payload)
	ref := s.pattern(want)
	data := map[string]interface{}{"symbology": s.name, "payload": payload, "reference_number": want}
	if s == odUPCE {
		data["expanded"] = onedref.UPCEExpand(payload[1:7], payload[0])
	}
	for _, content := range []string{payload, want} {
		m, err := w.Encode(content, s.format, 0, 1, nil)
		if err != nil || m == nil {
			r.Violation("model-mismatch", fmt.Sprintf("%s.write:refuses-valid-%d-digit-form", s.name, len(content)), fmt.Sprintf("%s writer refused %s: %v", s.name, content, err), data)
			return false
		}
		bars := odTrim(odMatrixRow(m, 0))
		if odBoolsEq(bars, ref) {
			continue
		}
		got := -1
		for d := 0; d < 10; d++ {
			if odBoolsEq(bars, s.pattern(payload+string(rune('0'+d)))) {
				got = d
			}
		}
		if got >= 0 {
			r.Violation("model-mismatch", fmt.Sprintf("%s.write:wrong-check-digit-%d-digit-form", s.name, len(content)),
				fmt.Sprintf("%s writer given %s drew the symbol of %s%d; the mod-10 check digit is %c (reference number %s)", s.name, content, payload, got, want[len(want)-1], want), data)
		} else {
			r.Violation("model-mismatch", fmt.Sprintf("%s.write:bars-differ-from-reference", s.name), fmt.Sprintf("%s writer given %s drew %s, reference %s", s.name, content, onedref.PatternString(bars), onedref.PatternString(ref)), data)
		}
		return false
	}
	ck := int(want[len(want)-1] - '0')
	for k := 1; k <= 9; k++ {
		if !allWrong && k != 1+r.Rng.Intn(9) {
			continue
		}
		bad := payload + string(rune('0'+(ck+k)%10))
		m, err := w.Encode(bad, s.format, 0, 1, nil)
		if err == nil || m != nil {
			r.Violation("model-mismatch", s.name+".write:accepts-wrong-check-digit", fmt.Sprintf("%s writer accepted %s; the check digit of %s is %d", s.name, bad, payload, ck), data)
			return false
		}
		r.Tally("writer_wrong_digit_refused_" + s.name)
	}
	r.Tally("writer_check_digit_matches_" + s.name)
	return true
}

var c10C128Index = func() map[string]int {
	m := map[string]int{}
	for v := 0; v <= 106; v++ {
		m[fmt.Sprint(onedref.Code128Widths(v))] = v
	}
	return m
}()

func c10Runs(bars []bool) []int {
	var out []int
	for i := 0; i < len(bars); {
		j := i
		for j < len(bars) && bars[j] == bars[i] {
			j++
		}
		out = append(out, j-i)
		i = j
	}
	return out
}

// c10ParseCode128 turns drawn bars into symbol values (start .. check), using the reference width table.
func c10ParseCode128(bars []bool) ([]int, bool) {
	runs := c10Runs(bars)
	if len(runs) < 13 || (len(runs)-7)%6 != 0 {
		return nil, false
	}
	var vals []int
	for i := 0; i+7 < len(runs); i += 6 {
		v, ok := c10C128Index[fmt.Sprint(runs[i:i+6])]
		if !ok {
			return nil, false
		}
		vals = append(vals, v)
	}
	if v, ok := c10C128Index[fmt.Sprint(runs[len(runs)-7:])]; !ok || v != onedref.C128Stop {
		return nil, false
	}
	return vals, true
}

func c10WriterCode128(r *fw.Rec, w gozxing.Writer, text string, force string) bool {
	var hints map[gozxing.EncodeHintType]interface{}
	if force != "" {
		hints = map[gozxing.EncodeHintType]interface{}{gozxing.EncodeHintType_FORCE_CODE_SET: force}
	}
	data := map[string]interface{}{"text": odQuote(text), "force": force}
	m, err := w.Encode(text, gozxing.BarcodeFormat_CODE_128, 0, 1, hints)
	if err != nil {
		// acceptance is C03's business; nothing to check here
		r.Tally("writer_code128_refused_content")
		return true
	}
	vals, ok := c10ParseCode128(odTrim(odMatrixRow(m, 0)))
	if !ok || len(vals) < 2 {
		r.Violation("model-mismatch", "code128.write:not-a-sequence-of-symbol-characters", fmt.Sprintf("Code 128 writer output for %s is not start/characters/stop of the reference table", odQuote(text)), data)
		return false
	}
	body, ck := vals[:len(vals)-1], vals[len(vals)-1]
	data["values"] = vals
	if want := onedref.Code128Check(body); ck != want {
		r.Violation("model-mismatch", "code128.write:wrong-check-character", fmt.Sprintf("Code 128 writer drew values %v with check character %d; mod-103 of the drawn characters is %d", body, ck, want), data)
		return false
	}
	if dec, ok := onedref.Code128Decode(body); !ok || string(dec) != text {
		r.Violation("model-mismatch", "code128.write:characters-do-not-spell-content", fmt.Sprintf("Code 128 writer drew values %v for %s, which spell %s", body, odQuote(text), odQuote(string(dec))), data)
		return false
	}
	r.Tally("writer_check_character_matches_code128")
	return true
}

func c10WriterCode93(r *fw.Rec, w gozxing.Writer, text string) bool {
	data := map[string]interface{}{"text": odQuote(text)}
	vals, ok := onedref.Code93Values([]byte(text))
	if !ok {
		return true
	}
	m, err := w.Encode(text, gozxing.BarcodeFormat_CODE_93, 0, 1, nil)
	if err != nil {
		r.Tally("writer_code93_refused_content")
		return true
	}
	cc, kk := onedref.Code93Checks(vals)
	ref := onedref.Code93Pattern(append(append([]int{}, vals...), cc, kk))
	bars := odTrim(odMatrixRow(m, 0))
	if odBoolsEq(bars, ref) {
		r.Tally("writer_check_characters_match_code93")
		return true
	}
	// which check characters did it draw?
	for c2 := 0; c2 < 47; c2++ {
		for k2 := 0; k2 < 47; k2++ {
			if odBoolsEq(bars, onedref.Code93Pattern(append(append([]int{}, vals...), c2, k2))) {
				r.Violation("model-mismatch", "code93.write:wrong-check-characters", fmt.Sprintf("Code 93 writer drew check characters C=%d K=%d for %s (values %v); the weighted mod-47 sums are C=%d K=%d", c2, k2, odQuote(text), vals, cc, kk), data)
				return false
			}
		}
	}
	r.Violation("model-mismatch", "code93.write:bars-differ-from-reference", fmt.Sprintf("Code 93 writer output for %s differs from the reference symbol beyond the check characters", odQuote(text)), data)
	return false
}

// ---------------------------------------------------------------------------
// B. readers on reference-rendered UPC/EAN symbols
// ---------------------------------------------------------------------------

var c10MultiSeen = map[string]bool{}

type c10Readers struct {
	own   map[*odUPCEAN]gozxing.Reader
	multi gozxing.Reader
}

func newC10Readers() *c10Readers {
	x := &c10Readers{own: map[*odUPCEAN]gozxing.Reader{}, multi: oned.NewMultiFormatUPCEANReader(nil)}
	for _, s := range odAllUPCEAN {
		x.own[s] = s.reader()
	}
	return x
}

// c10Judge applies the reader oracle to one decode of a symbol that carries `carried`:
// a number may be returned only if it is `carried` and its check digit verifies.
// known is set when the observation is the (separately tallied) reversed misread.
func c10Judge(r *fw.Rec, s *odUPCEAN, who string, carried string, res *gozxing.Result, err error, cfg string, knownSeen *bool) (ok bool, known bool) {
	valid := s.valid(carried)
	if err != nil {
		if valid {
			r.Tally("valid_symbol_not_read_" + who + "_" + s.name)
		} else {
			r.Tally("stale_symbol_refused_" + who + "_" + s.name)
		}
		return true, false
	}
	got, gf := res.GetText(), res.GetBarcodeFormat()
	same := got == carried && gf == s.format
	if s == odUPCA && who == "multi" && got == "0"+carried && gf == gozxing.BarcodeFormat_EAN_13 {
		same = true // documented: UPC-A is the EAN-13 with a leading 0
	}
	if valid && same {
		r.Tally("valid_symbol_read_" + who + "_" + s.name)
		return true, false
	}
	rev := ""
	if o, ok := res.GetResultMetadata()[gozxing.ResultMetadataType_ORIENTATION]; ok && fmt.Sprint(o) == "180" {
		rev = "reversed-"
	}
	if who == "multi" && !same {
		// outside the matching-reader oracle: the multi-format reader lets the decoders of the other
		// formats try the symbol; what they make of it is tallied, not charged (see Assume)
		if gf == s.format {
			r.Tally("multi_" + s.name + "_symbol_read_" + rev + "as_other_number_of_same_format")
			return true, false
		}
		r.Tally("multi_" + s.name + "_symbol_read_" + rev + "as_number_of_format_" + gf.String())
		if !valid {
			// a stale symbol must not be read as any number: the multi-format reader lets the other
			// formats' decoders try it and one of them accepts (tallied class, one event per case)
			if !c10MultiSeen[r.ID] {
				c10MultiSeen[r.ID] = true
				r.Violation("model-mismatch", "multi-upcean:stale-symbol-read-as-number-of-other-format", fmt.Sprintf("multi-format UPC/EAN reader (no hints) returned %s (%v) for a %s symbol carrying %s, whose check digit does not verify (%s)", got, gf, s.name, carried, cfg),
					map[string]interface{}{"symbology": s.name, "symbol_carries": carried, "returned": got, "returned_format": gf.String(), "rendering": cfg, "modules": onedref.PatternString(s.pattern(carried))})
			}
			return false, true
		}
		return true, false
	}
	data := map[string]interface{}{"symbology": s.name, "reader": who, "symbol_carries": carried, "check_verifies": valid, "returned": got, "returned_format": gf.String(), "rendering": cfg, "modules": onedref.PatternString(s.pattern(carried))}
	switch {
	case same: // stale check digit, returned as is
		r.Violation("model-mismatch", s.name+":stale-check-read-as-itself", fmt.Sprintf("%s %s returned %s although its check digit does not verify (reference check digit %d)", s.name, who, got, s.check(carried[:len(carried)-1])), data)
		return false, false
	case valid:
		r.Violation("model-mismatch", s.name+":valid-symbol-read-"+rev+"as-other-number", fmt.Sprintf("%s %s returned %s (%v) for the symbol of %s", s.name, who, got, gf, carried), data)
		return false, false
	}
	sig := s.name + ":stale-check-read-" + rev + "as-other-number"
	r.Tally("stale_symbol_read_" + rev + "as_other_number_" + who + "_" + s.name)
	known = rev != "" && s == odUPCE
	if known { // tallied class: every occurrence is counted, one event per case
		if *knownSeen {
			return false, true
		}
		*knownSeen = true
	}
	r.Violation("model-mismatch", sig, fmt.Sprintf("%s %s returned %s (%v, orientation %v) for the symbol carrying %s, whose check digit does not verify (%s)", s.name, who, got, gf, res.GetResultMetadata()[gozxing.ResultMetadataType_ORIENTATION], carried, cfg), data)
	return false, known
}

// c10Substitutions lists every number that differs from full in one digit and can still be
// carried by a well-formed symbol of s (UPC-E number system: 0 <-> 1 only).
func c10Substitutions(s *odUPCEAN, full string) []string {
	var out []string
	for i := 0; i < len(full); i++ {
		for d := byte('0'); d <= '9'; d++ {
			if d == full[i] || (s == odUPCE && i == 0 && d > '1') {
				continue
			}
			b := []byte(full)
			b[i] = d
			out = append(out, string(b))
		}
	}
	return out
}

// c10ReaderNumber: control (the valid symbol) + all substitutions, one rendering per number.
func c10ReaderNumber(r *fw.Rec, s *odUPCEAN, rd *c10Readers, payload string) bool {
	rng := r.Rng
	full := s.full(payload)
	scale, height := 2+rng.Intn(2), 4+rng.Intn(7)
	ql, qr := 10+rng.Intn(11), 10+rng.Intn(11)
	cfg := fmt.Sprintf("quiet %d/%d modules, %d px per module, %d rows", ql, qr, scale, height)
	cands := append([]string{full}, c10Substitutions(s, full)...)
	knownSeen := false
	for _, carried := range cands {
		img := odRender(s.pattern(carried), ql, qr, scale, height)
		bmp, err := gozxing.NewBinaryBitmapFromImage(img)
		if err != nil {
			r.Inconclusive("NewBinaryBitmapFromImage: " + err.Error())
			return false
		}
		for _, who := range []string{"reader", "multi"} {
			var res *gozxing.Result
			var derr error
			if who == "reader" {
				res, derr = rd.own[s].Decode(bmp, nil)
			} else {
				res, derr = rd.multi.Decode(bmp, nil)
			}
			r.Evals(1)
			if carried == full && derr != nil {
				r.Inconclusive(fmt.Sprintf("control: %s %s does not read the reference rendering of the valid number %s (%s): %v", s.name, who, full, cfg, derr))
				return false
			}
			if ok, known := c10Judge(r, s, who, carried, res, derr, cfg, &knownSeen); !ok && !known {
				return false
			}
		}
		if carried != full {
			if s.valid(carried) {
				r.Tally("substitutions_landing_on_a_valid_number_" + s.name)
			} else {
				r.Tally("substitutions_stale_" + s.name)
			}
		}
	}
	return true
}

// c10Painter renders same-length patterns into one reusable image (scale px per module, one row).
type c10Painter struct {
	img   *image.Gray
	quiet int
	scale int
}

func newC10Painter(modules, quiet, scale int) *c10Painter {
	return &c10Painter{img: odRender(make([]bool, modules), quiet, quiet, scale, 1), quiet: quiet, scale: scale}
}

func (p *c10Painter) paint(mod []bool) *image.Gray {
	o := p.quiet * p.scale
	for i, m := range mod {
		v := byte(255)
		if m {
			v = 0
		}
		for k := 0; k < p.scale; k++ {
			p.img.Pix[o+i*p.scale+k] = v
		}
	}
	return p.img
}

// c10SweepUPCE decodes every UPC-E symbol (2 number systems x 10 parity patterns) of the six-digit
// values in vals.
func c10SweepUPCE(r *fw.Rec, vals []int, scale int) {
	rd := oned.NewUPCEReader()
	p := newC10Painter(51, 10, scale)
	cfg := fmt.Sprintf("quiet 10/10 modules, %d px per module, 1 row", scale)
	knownSeen := false
	var n, nvalid int64
	for _, v := range vals {
		d6 := odPad(v, 6)
		for ns := byte('0'); ns <= '1'; ns++ {
			right := onedref.Mod10(onedref.UPCEExpand(d6, ns))
			for ck := 0; ck < 10; ck++ {
				carried := string(ns) + d6 + string(rune('0'+ck))
				bmp, err := gozxing.NewBinaryBitmapFromImage(p.paint(onedref.UPCEPattern(carried)))
				if err != nil {
					r.Inconclusive(err.Error())
					return
				}
				res, derr := rd.Decode(bmp, nil)
				n++
				if ck == right {
					nvalid++
					if derr == nil && res.GetText() == carried && res.GetBarcodeFormat() == gozxing.BarcodeFormat_UPC_E {
						continue // valid symbol read as itself
					}
					if derr != nil {
						r.Inconclusive(fmt.Sprintf("control: UPC-E reader does not read the reference rendering of the valid number %s (%s): %v", carried, cfg, derr))
						return
					}
				} else if derr != nil {
					continue // stale symbol refused
				}
				if ok, known := c10Judge(r, odUPCE, fmt.Sprintf("reader@%dpx-sweep", scale), carried, res, derr, cfg, &knownSeen); !ok && !known {
					return
				}
			}
		}
	}
	r.Evals(n)
	r.TallyN(fmt.Sprintf("sweep_upce_symbols_decoded_%dpx", scale), n)
	r.TallyN(fmt.Sprintf("sweep_upce_valid_symbols_read_%dpx", scale), nvalid)
	r.TallyN(fmt.Sprintf("sweep_upce_stale_symbols_%dpx", scale), n-nvalid)
	if scale >= 2 {
		r.Tally("upce_cases_decoding_stale_symbols_at_2px_or_more")
	}
}

// c10SweepEAN8 decodes the symbols of all ten 8-digit strings of every payload in vals.
func c10SweepEAN8(r *fw.Rec, vals []int) {
	rd := oned.NewEAN8Reader()
	p := newC10Painter(67, 10, 1)
	cfg := "quiet 10/10 modules, 1 px per module, 1 row"
	var n, nvalid int64
	for _, v := range vals {
		payload := odPad(v, 7)
		right := onedref.Mod10(payload)
		for ck := 0; ck < 10; ck++ {
			carried := payload + string(rune('0'+ck))
			bmp, err := gozxing.NewBinaryBitmapFromImage(p.paint(onedref.EAN8Pattern(carried)))
			if err != nil {
				r.Inconclusive(err.Error())
				return
			}
			res, derr := rd.Decode(bmp, nil)
			n++
			if ck == right {
				nvalid++
				if derr == nil && res.GetText() == carried && res.GetBarcodeFormat() == gozxing.BarcodeFormat_EAN_8 {
					continue
				}
				if derr != nil {
					r.Inconclusive(fmt.Sprintf("control: EAN-8 reader does not read the reference rendering of the valid number %s (%s): %v", carried, cfg, derr))
					return
				}
			} else if derr != nil {
				continue
			}
			var ks bool
			if ok, _ := c10Judge(r, odEAN8, "reader", carried, res, derr, cfg, &ks); !ok {
				return
			}
		}
	}
	r.Evals(n)
	r.TallyN("sweep_ean8_symbols_decoded", n)
	r.TallyN("sweep_ean8_valid_symbols_read", nvalid)
	r.TallyN("sweep_ean8_stale_symbols", n-nvalid)
}

func c10Range(lo, hi int) []int {
	v := make([]int, hi-lo)
	for i := range v {
		v[i] = lo + i
	}
	return v
}

func c10SampleRange(rng *fw.Rand, lo, hi, n int) []int {
	v := make([]int, n)
	for i := range v {
		v[i] = lo + rng.Intn(hi-lo)
	}
	return v
}

// ---------------------------------------------------------------------------
// C. Code 128 / Code 93 single-character substitutions
// ---------------------------------------------------------------------------

func c10Text(rng *fw.Rand, n int, classes string) string {
	b := make([]byte, 0, n)
	for len(b) < n {
		run := 1 + rng.Intn(5)
		cl := classes[rng.Intn(len(classes))]
		for k := 0; k < run && len(b) < n; k++ {
			switch cl {
			case 'd':
				b = append(b, byte('0'+rng.Intn(10)))
			case 'U':
				b = append(b, byte(32+rng.Intn(64)))
			case 'l':
				b = append(b, byte(96+rng.Intn(32)))
			case 'c':
				b = append(b, byte(rng.Intn(32)))
			}
		}
	}
	return string(b)
}

// c10SubstCode128: reference symbol of text (reference encodation, reference check character), then
// every symbol-character position x every other value, check character left stale.
func c10SubstCode128(r *fw.Rec) {
	rng := r.Rng
	rd := oned.NewCode128Reader()
	var text string
	var force byte
	switch rng.Intn(5) {
	case 0:
		text, force = c10Text(rng, 1+rng.Intn(16), "Ucd"), 'A'
	case 1:
		text, force = c10Text(rng, 1+rng.Intn(16), "Uld"), 'B'
	case 2:
		text, force = odDigits(rng, 2*(1+rng.Intn(10))), 'C'
	default:
		text, force = c10Text(rng, 1+rng.Intn(20), "Ulcdd"), 0
	}
	long := rng.Intn(6) == 0
	if long {
		// more than 103 symbol characters: the position weights of the mod-103 sum pass the modulus
		// (longer than the library's writer emits; the symbology has no such limit)
		if rng.Bool() {
			text, force = c10Text(rng, 103+rng.Intn(25), "Uld"), 'B'
		} else {
			text, force = odDigits(rng, 2*(103+rng.Intn(20))), 'C'
		}
	}
	vals, ok := onedref.Code128Values([]byte(text), force)
	if !ok {
		r.Inconclusive("reference encoder refused " + odQuote(text))
		return
	}
	full := append(append([]int{}, vals...), onedref.Code128Check(vals))
	scale, height, quiet := 1+rng.Intn(2), 1+rng.Intn(3), 10+rng.Intn(6)
	cfg := fmt.Sprintf("quiet %d modules, %d px per module, %d rows", quiet, scale, height)
	res, err := odDecode(rd, odRender(onedref.Code128Pattern(full), quiet, quiet, scale, height), nil)
	controlFailed := ""
	if err != nil || res.GetText() != text {
		// not this property's business by itself (C03 reads conforming symbols); the substitutions are
		// tried all the same, and the case ends inconclusive only if none of them is misread
		controlFailed = fmt.Sprintf("control: Code 128 reader does not read the reference symbol %v of %s (%s): %v", full, odQuote(text), cfg, err)
	} else {
		r.Tally("code128_reference_symbols_read")
		if long {
			r.Tally("code128_reference_symbols_read_with_more_than_103_characters")
		}
	}
	defer func() {
		if controlFailed != "" {
			r.Inconclusive(controlFailed)
		}
	}()
	for pos := 0; pos < len(full); pos++ {
		lo, hi := 0, 102
		if pos == 0 {
			lo, hi = onedref.C128StartA, onedref.C128StartC
		}
		for v := lo; v <= hi; v++ {
			if v == full[pos] {
				continue
			}
			if long && pos > 0 && rng.Intn(12) != 0 { // long symbols: a sample of the replacement values at every position
				continue
			}
			if pos > 0 && pos%103 == 0 && pos < len(full)-1 {
				// the weight of character 103 (206, ...) is 0 modulo 103: no mod-103 sum can see a
				// substitution there - a limit of the symbology, not of a reader
				r.Tally("code128_substitutions_at_weight_0_mod_103_not_detectable_by_construction")
				continue
			}
			mut := append([]int{}, full...)
			mut[pos] = v
			res, err := odDecode(rd, odRender(onedref.Code128Pattern(mut), quiet, quiet, scale, height), nil)
			r.Evals(1)
			switch {
			case err != nil:
				r.Tally("code128_substitutions_refused")
			case res.GetText() == text:
				r.Tally("code128_substitutions_read_as_original_text")
			default:
				what := "data"
				if pos == 0 {
					what = "start"
				} else if pos == len(full)-1 {
					what = "check"
				}
				r.Violation("model-mismatch", "code128:"+what+"-character-substitution-read-as-different-text",
					fmt.Sprintf("Code 128 symbol %v of %s with character %d (%s) replaced by %d (check character stale: mod-103 of the new characters is %d) was read as %s", full, odQuote(text), pos, what, v, onedref.Code128Check(mut[:len(mut)-1]), odQuote(res.GetText())),
					map[string]interface{}{"text": odQuote(text), "values": full, "position": pos, "replacement": v, "returned": odQuote(res.GetText()), "rendering": cfg})
				return
			}
		}
	}
	r.Nontrivial("c128/" + text)
}

func c10SubstCode93(r *fw.Rec) {
	rng := r.Rng
	rd := oned.NewCode93Reader()
	var text string
	if rng.Bool() {
		text = c10FromAlphabet(rng, onedref.Code93Alphabet[:43], 1+rng.Intn(20))
	} else {
		text = c10Text(rng, 1+rng.Intn(12), "Ulcd")
	}
	if rng.Intn(4) == 0 {
		// long symbols: the check weights wrap around (C after 20 characters, K after 15), more than once
		text = c10FromAlphabet(rng, onedref.Code93Alphabet[:43], 28+rng.Intn(50))
		r.Tally("code93_long_symbols")
	}
	vals, ok := onedref.Code93Values([]byte(text))
	if !ok {
		r.Inconclusive("reference encoder refused " + odQuote(text))
		return
	}
	cc, kk := onedref.Code93Checks(vals)
	full := append(append([]int{}, vals...), cc, kk)
	scale, height, quiet := 1+rng.Intn(2), 1+rng.Intn(3), 10+rng.Intn(6)
	cfg := fmt.Sprintf("quiet %d modules, %d px per module, %d rows", quiet, scale, height)
	res, err := odDecode(rd, odRender(onedref.Code93Pattern(full), quiet, quiet, scale, height), nil)
	controlFailed := err != nil || res.GetText() != text
	if controlFailed {
		// the substitutions are still tried (a reader that weighs the characters wrongly refuses
		// the valid symbol and accepts one of its neighbours); the case ends inconclusive if none is accepted
		defer r.Inconclusive(fmt.Sprintf("control: Code 93 reader does not read the reference symbol %v of %s (%s): %v", full, odQuote(text), cfg, err))
	} else {
		r.Tally("code93_reference_symbols_read")
	}
	for pos := 0; pos < len(full); pos++ {
		for v := 0; v <= 46; v++ {
			if v == full[pos] {
				continue
			}
			mut := append([]int{}, full...)
			mut[pos] = v
			res, err := odDecode(rd, odRender(onedref.Code93Pattern(mut), quiet, quiet, scale, height), nil)
			r.Evals(1)
			switch {
			case err != nil:
				r.Tally("code93_substitutions_refused")
			case res.GetText() == text:
				r.Tally("code93_substitutions_read_as_original_text")
			default:
				what := "data"
				if pos == len(full)-2 {
					what = "check-C"
				} else if pos == len(full)-1 {
					what = "check-K"
				}
				r.Violation("model-mismatch", "code93:"+what+"-character-substitution-read-as-different-text",
					fmt.Sprintf("Code 93 symbol %v of %s with character %d (%s) replaced by %d (check characters stale) was read as %s", full, odQuote(text), pos, what, v, odQuote(res.GetText())),
					map[string]interface{}{"text": odQuote(text), "values": full, "position": pos, "replacement": v, "returned": odQuote(res.GetText()), "rendering": cfg})
				return
			}
		}
	}
	// both check characters must be enforced: a wrong C with the K that fits it, and the right C with
	// a wrong K, are each a symbol "whose check characters do not verify"
	for k := 0; k < 12; k++ {
		wrongC := (cc + 1 + rng.Intn(46)) % 47
		kFit := c10Code93K(append(append([]int{}, vals...), wrongC))
		for _, mut := range [][]int{append(append([]int{}, vals...), wrongC, kFit), append(append([]int{}, vals...), cc, (kk+1+rng.Intn(46))%47)} {
			res, err := odDecode(rd, odRender(onedref.Code93Pattern(mut), quiet, quiet, scale, height), nil)
			r.Evals(1)
			if err == nil {
				r.Violation("model-mismatch", "code93:symbol-with-non-verifying-check-character-read",
					fmt.Sprintf("Code 93 symbol %v of %s (standard check characters C=%d K=%d) was read as %s although its check characters do not verify", mut, odQuote(text), cc, kk, odQuote(res.GetText())),
					map[string]interface{}{"text": odQuote(text), "values": mut, "standard_C": cc, "standard_K": kk, "rendering": cfg})
				return
			}
			r.Tally("code93_non_verifying_check_pairs_refused")
		}
	}
	r.Nontrivial("c93/" + text)
}

// c10SubstCode39: Code 39 readers that are asked to demand the optional mod-43 check character
// (every constructor that takes the flag) return the text without it, and refuse every
// single-character substitution; readers that are not asked return all characters.
func c10SubstCode39(r *fw.Rec) {
	rng := r.Rng
	ctors := []struct {
		name  string
		mk    func() gozxing.Reader
		check bool
	}{
		{"NewCode39ReaderWithCheckDigitFlag(true)", func() gozxing.Reader { return oned.NewCode39ReaderWithCheckDigitFlag(true) }, true},
		{"NewCode39ReaderWithFlags(true, false)", func() gozxing.Reader { return oned.NewCode39ReaderWithFlags(true, false) }, true},
		{"NewCode39ReaderWithFlags(true, true)", func() gozxing.Reader { return oned.NewCode39ReaderWithFlags(true, true) }, true},
		{"NewCode39ReaderWithCheckDigitFlag(false)", func() gozxing.Reader { return oned.NewCode39ReaderWithCheckDigitFlag(false) }, false},
		{"NewCode39Reader()", oned.NewCode39Reader, false},
	}
	ct := ctors[rng.Intn(len(ctors))]
	rd := ct.mk()
	alpha := onedref.Code39Alphabet[:39] // without $ / + %, which the extended reader combines with the next letter
	text := c10FromAlphabet(rng, alpha, 1+rng.Intn(14))
	full := text + string(onedref.Code39Mod43(text))
	scale, height, quiet := 1+rng.Intn(2), 1+rng.Intn(3), 10+rng.Intn(6)
	cfg := fmt.Sprintf("quiet %d modules, %d px per module, %d rows", quiet, scale, height)
	want := text
	if !ct.check {
		want = full
	}
	res, err := odDecode(rd, odRender(onedref.Code39Pattern(full), quiet, quiet, scale, height), nil)
	r.Evals(1)
	if err != nil || res.GetText() != want {
		got := ""
		if res != nil {
			got = res.GetText()
		}
		r.Violation("model-mismatch", "code39:valid-check-character:"+ct.name, fmt.Sprintf("%s on the symbol *%s* (data %s + mod-43 check %q, %s) returned %s %v, expected %s", ct.name, full, odQuote(text), full[len(full)-1], cfg, odQuote(got), err, odQuote(want)),
			map[string]interface{}{"constructor": ct.name, "symbol": full, "rendering": cfg})
		return
	}
	r.Tally("code39_symbols_with_check_character_read")
	if !ct.check {
		r.Nontrivial("c39/" + ct.name + "/" + text)
		return
	}
	for pos := 0; pos < len(full); pos++ {
		for v := 0; v < 43; v++ {
			c := onedref.Code39Alphabet[v]
			if c == full[pos] {
				continue
			}
			mut := full[:pos] + string(c) + full[pos+1:]
			res, err := odDecode(rd, odRender(onedref.Code39Pattern(mut), quiet, quiet, scale, height), nil)
			r.Evals(1)
			if err == nil {
				r.Violation("model-mismatch", "code39:substitution-read-although-the-check-character-is-demanded", fmt.Sprintf("%s: symbol *%s* with character %d replaced by %q (mod-43 check no longer verifies) was read as %s", ct.name, full, pos, c, odQuote(res.GetText())),
					map[string]interface{}{"constructor": ct.name, "symbol": full, "mutated": mut, "returned": odQuote(res.GetText()), "rendering": cfg})
				return
			}
			r.Tally("code39_substitutions_refused")
		}
	}
	r.Nontrivial("c39/" + ct.name + "/" + text)
}

// c10Code93K: the K check character over data+C (weights 1..15 from the right), AIM Code 93.
func c10Code93K(valsWithC []int) int {
	sum, w := 0, 1
	for i := len(valsWithC) - 1; i >= 0; i-- {
		sum += valsWithC[i] * w
		w++
		if w > 15 {
			w = 1
		}
	}
	return sum % 47
}

func c10FromAlphabet(rng *fw.Rand, alphabet string, n int) string {
	b := make([]byte, n)
	for i := range b {
		b[i] = alphabet[rng.Intn(len(alphabet))]
	}
	return string(b)
}

// ---------------------------------------------------------------------------
// D. UPC-E <-> UPC-A
// ---------------------------------------------------------------------------

func c10Expand(r *fw.Rec, lo, hi int) {
	for v := lo; v < hi; v++ {
		d6 := odPad(v%1000000, 6)
		ns := byte('0' + v/1000000)
		want := onedref.UPCEExpand(d6, ns)
		got := oned.VerifConvertUPCEtoUPCA(string(ns) + d6)
		if got != want {
			r.Violation("model-mismatch", "convertUPCEtoUPCA:wrong-expansion", fmt.Sprintf("convertUPCEtoUPCA(%q) = %q, GS1 expansion %q", string(ns)+d6, got, want), map[string]interface{}{"upce": string(ns) + d6})
			return
		}
		ck := byte('0' + v%10)
		if got := oned.VerifConvertUPCEtoUPCA(string(ns) + d6 + string(ck)); got != want+string(ck) {
			r.Violation("model-mismatch", "convertUPCEtoUPCA:wrong-expansion-with-check-digit", fmt.Sprintf("convertUPCEtoUPCA(%q) = %q, GS1 expansion %q", string(ns)+d6+string(ck), got, want+string(ck)), map[string]interface{}{"upce": string(ns) + d6 + string(ck)})
			return
		}
	}
	r.Evals(int64(2 * (hi - lo)))
	r.TallyN("upce_expansions_compared", int64(hi-lo))
}

// c10SuppressRule enumerates the 11-digit numbers that rule `rule` of the GS1 zero-suppression table
// can suppress (index idx in the rule's own parameter space) and returns the number.
//
//	rule 1: manufacturer ab{0,1,2}00, item 00xyz   (2*100*3*1000 numbers)
//	rule 2: manufacturer abc00,       item 000xy   (2*1000*100)
//	rule 3: manufacturer abcd0,       item 0000x   (2*10000*10)
//	rule 4: manufacturer abcde,       item 0000x, x in 5..9 (2*100000*5)
var c10RuleSizes = [5]int{0, 600000, 200000, 200000, 1000000}

func c10RuleNumber(rule, idx int) string {
	switch rule {
	case 1:
		xyz, rest := idx%1000, idx/1000
		m2, rest := rest%3, rest/3
		ab, ns := rest%100, rest/100
		return fmt.Sprintf("%d%02d%d00"+"00%03d", ns, ab, m2, xyz)
	case 2:
		xy, rest := idx%100, idx/100
		abc, ns := rest%1000, rest/1000
		return fmt.Sprintf("%d%03d00"+"000%02d", ns, abc, xy)
	case 3:
		x, rest := idx%10, idx/10
		abcd, ns := rest%10000, rest/10000
		return fmt.Sprintf("%d%04d0"+"0000%d", ns, abcd, x)
	}
	x, rest := 5+idx%5, idx/5
	abcde, ns := rest%100000, rest/100000
	return fmt.Sprintf("%d%05d"+"0000%d", ns, abcde, x)
}

func c10Suppress(r *fw.Rec, rule, lo, hi int) {
	for idx := lo; idx < hi; idx++ {
		n := c10RuleNumber(rule, idx)
		e6, ok := onedref.UPCESuppress(n)
		if !ok || len(n) != 11 {
			r.Inconclusive(fmt.Sprintf("reference: rule %d number %s is not suppressible", rule, n))
			return
		}
		if got := oned.VerifConvertUPCEtoUPCA(n[:1] + e6); got != n {
			r.Violation("model-mismatch", "convertUPCEtoUPCA:not-inverse-of-zero-suppression", fmt.Sprintf("UPC-A %s zero-suppresses to UPC-E %s%s (rule %d), convertUPCEtoUPCA gives back %s", n, n[:1], e6, rule, got), map[string]interface{}{"upca": n, "upce": n[:1] + e6, "rule": rule})
			return
		}
	}
	r.Evals(int64(hi - lo))
	r.TallyN(fmt.Sprintf("suppressible_numbers_rule_%d", rule), int64(hi-lo))
}

// ---------------------------------------------------------------------------
// E. add-ons
// ---------------------------------------------------------------------------

// c10WithAddOn is main symbol, light gap, add-on.
func c10WithAddOn(main []bool, gap int, addon []bool) []bool {
	p := append([]bool{}, main...)
	for i := 0; i < gap; i++ {
		p = append(p, false)
	}
	return append(p, addon...)
}

// c10AddOnPattern: start 1011, digits in the number sets given by sets ('L'/'G'), separated by 01.
func c10AddOnPattern(digits string, sets string) []bool {
	s := "1011"
	for i := 0; i < len(digits); i++ {
		if i > 0 {
			s += "01"
		}
		s += onedref.EANDigit(int(digits[i]-'0'), sets[i])
	}
	p := make([]bool, len(s))
	for i := range s {
		p[i] = s[i] == '1'
	}
	return p
}

type c10AddOnObs struct {
	ext    string
	hasExt bool
}

func c10DecodeAddOn(r *fw.Rec, s *odUPCEAN, rd gozxing.Reader, base string, pat []bool, scale, height int) (c10AddOnObs, bool) {
	return c10DecodeAddOnQ(r, s, rd, base, pat, scale, height, 10)
}

// c10DecodeAddOnQ: quietR modules of white after the add-on (0: its last bar touches the end of the row).
func c10DecodeAddOnQ(r *fw.Rec, s *odUPCEAN, rd gozxing.Reader, base string, pat []bool, scale, height, quietR int) (c10AddOnObs, bool) {
	res, err := odDecode(rd, odRender(pat, 10, quietR, scale, height), nil)
	r.Evals(1)
	if err != nil || res.GetText() != base {
		got := ""
		if res != nil {
			got = res.GetText()
		}
		r.Inconclusive(fmt.Sprintf("control: %s reader does not read the valid main symbol %s followed by an add-on: %q %v", s.name, base, got, err))
		return c10AddOnObs{}, false
	}
	v, ok := res.GetResultMetadata()[gozxing.ResultMetadataType_UPC_EAN_EXTENSION]
	if !ok {
		return c10AddOnObs{}, true
	}
	return c10AddOnObs{ext: fmt.Sprint(v), hasExt: true}, true
}

func c10AddOn2(r *fw.Rec, s *odUPCEAN) {
	rng := r.Rng
	rd := s.reader()
	for v := 0; v < 100; v++ {
		base := s.full(s.randPayload(rng))
		gap := 7 + rng.Intn(6)
		scale, height := 1+rng.Intn(3), 1+rng.Intn(4)
		for par := 0; par < 4; par++ {
			pat := c10WithAddOn(s.pattern(base), gap, onedref.EAN2AddOn(v, par))
			obs, ok := c10DecodeAddOn(r, s, rd, base, pat, scale, height)
			if !ok {
				return
			}
			want := odPad(v, 2)
			data := map[string]interface{}{"main": base, "symbology": s.name, "addon": want, "parity_of": par, "value_mod_4": v % 4, "gap": gap, "scale": scale, "reported": obs.ext}
			if par == v%4 {
				if !obs.hasExt || obs.ext != want {
					r.Violation("model-mismatch", "addon2:right-parity-not-reported", fmt.Sprintf("%s %s + 2-digit add-on %s with the number sets of value mod 4 = %d: extension reported %v %q", s.name, base, want, par, obs.hasExt, obs.ext), data)
					return
				}
				r.Tally("addon2_right_parity_reported")
			} else {
				switch {
				case !obs.hasExt:
					r.Tally("addon2_wrong_parity_absent")
				case obs.ext == want:
					r.Violation("model-mismatch", "addon2:wrong-parity-accepted", fmt.Sprintf("%s %s + 2-digit add-on %s drawn with the number sets of remainder %d (value mod 4 = %d) was reported as %q", s.name, base, want, par, v%4, obs.ext), data)
					return
				default:
					r.Tally("dont_care_addon2_wrong_parity_reported_as_other_value")
				}
			}
		}
	}
	r.Nontrivial("addon2/" + s.name)
}

var c10Sets32 = func() []string {
	var out []string
	for m := 0; m < 32; m++ {
		b := make([]byte, 5)
		for i := range b {
			if m>>uint(4-i)&1 == 1 {
				b[i] = 'G'
			} else {
				b[i] = 'L'
			}
		}
		out = append(out, string(b))
	}
	return out
}()

func c10AddOn5(r *fw.Rec, vals []int) {
	rng := r.Rng
	readers := map[*odUPCEAN]gozxing.Reader{}
	for _, v := range vals {
		s := odAllUPCEAN[v%4]
		rd, ok := readers[s]
		if !ok {
			rd = s.reader()
			readers[s] = rd
		}
		digits := odPad(v, 5)
		base := s.full(s.randPayload(rng))
		gap := 7 + rng.Intn(6)
		scale := 1 + rng.Intn(2)
		right := onedref.EAN5AddOn(digits, onedref.EAN5Check(digits))
		nright := 0
		for _, sets := range c10Sets32 {
			addon := c10AddOnPattern(digits, sets)
			isRight := odBoolsEq(addon, right)
			obs, ok := c10DecodeAddOn(r, s, rd, base, c10WithAddOn(s.pattern(base), gap, addon), scale, 1)
			if !ok {
				return
			}
			data := map[string]interface{}{"main": base, "symbology": s.name, "addon": digits, "number_sets": sets, "check_value": onedref.EAN5Check(digits), "gap": gap, "scale": scale, "reported": obs.ext}
			if isRight {
				nright++
				// the same add-on with little or no white after it (the standard asks for a quiet zone there,
				// so not finding the add-on is tolerated): whatever IS reported must be this add-on
				qr := []int{0, 0, 1, 2, 4}[rng.Intn(5)]
				if tight, ok2 := c10DecodeAddOnQ(r, s, rd, base, c10WithAddOn(s.pattern(base), gap, addon), scale, 1, qr); ok2 {
					switch {
					case !tight.hasExt:
						r.Tally("dont_care_addon5_without_right_quiet_zone_not_found")
					case tight.ext != digits:
						// observed on the unchanged tree (the 5-digit decoder wants white after the last bar, the
						// 2-digit one then reads the first two digits): an image without the quiet zone the
						// standard prescribes is not a well-formed symbol, nothing is demanded
						r.Tally("dont_care_addon5_without_right_quiet_zone_reported_as_other_extension")
					default:
						r.Tally("addon5_without_right_quiet_zone_reported")
					}
				} else {
					return
				}
				if !obs.hasExt || obs.ext != digits {
					r.Violation("model-mismatch", "addon5:right-parity-not-reported", fmt.Sprintf("%s %s + 5-digit add-on %s with the number sets %s of its check value %d: extension reported %v %q", s.name, base, digits, sets, onedref.EAN5Check(digits), obs.hasExt, obs.ext), data)
					return
				}
				r.Tally("addon5_right_parity_reported")
				continue
			}
			switch {
			case !obs.hasExt:
				r.Tally("dont_care_addon5_wrong_parity_absent")
			case obs.ext == digits:
				r.Violation("model-mismatch", "addon5:wrong-parity-accepted", fmt.Sprintf("%s %s + 5-digit add-on %s drawn with number sets %s (check value %d wants %s) was reported as %q", s.name, base, digits, sets, onedref.EAN5Check(digits), "the pattern of the check value", obs.ext), data)
				return
			case len(obs.ext) == 2:
				r.Tally("dont_care_addon5_wrong_parity_reported_as_2_digit")
			default:
				r.Tally("dont_care_addon5_wrong_parity_reported_as_other_5_digit")
			}
		}
		if nright != 1 {
			r.Inconclusive(fmt.Sprintf("reference: %d of the 32 number-set patterns equal the reference add-on of %s", nright, digits))
			return
		}
	}
	r.NontrivialH(odHash(fmt.Sprint("addon5/", vals[0], len(vals))))
}

// ---------------------------------------------------------------------------
// driver
// ---------------------------------------------------------------------------

func c10(c *fw.Ctx) {
	c.Rule("writers: seeded payloads of EAN-13/EAN-8/UPC-A/UPC-E (incl. all-0, all-9, zero-rich) and all (thorough) / 200 000 sampled (quick) UPC-E numbers and EAN-8 payloads: the bars drawn must equal the onedref pattern carrying the independent mod-10 digit (UPC-E: of the expanded number), all nine wrong supplied digits must be refused; Code 128: drawn bars parsed with the reference width table, check character == mod-103 of the drawn characters and characters spell the text; Code 93: bars == reference symbol with C and K. Readers: symbols rendered from onedref patterns (white quiet zone >= 10 modules, 2-3 px per module, 4-10 rows): the valid number (control) and every one-digit substitution carried by a well-formed symbol; sweeps at 1 row: every UPC-E symbol (2 number systems x 10^6 digit strings x 10 parity patterns) and every 8-digit EAN-8 string in thorough, stratified samples in quick; Code 128 / Code 93: every symbol-character position (start, data, check) x every other value; UPC-E expansion of all 2*10^6 numbers and expand(suppress(n)) for all numbers of the four GS1 suppression rules; add-ons: 100 EAN-2 values x 4 number-set choices on each of the four main symbologies, EAN-5 values x all 32 number-set patterns Code 39: every constructor that takes the check-digit flag (data + mod-43 check read as the data; every single-character substitution refused; without the flag all characters returned). The multi-format reader under every subset and order of the four UPC/EAN formats on valid symbols of all four kinds: a returned number verifies under the format it reports. Results kept while the same reader instance reads on (valid and stale symbols) still carry their number afterwards.")
	c.Assume("reader oracle: a number may be returned only if it is exactly the number the symbol carries and onedref says its check digit verifies; any error is accepted for every other symbol. Controls (valid reference symbols) that are not read make the case inconclusive, not failed")
	c.Assume("UPC-E substitutions are defined on the symbol: digits 1..6 are replaced under the unchanged parity pattern, the check digit by drawing the parity pattern of the other digit, the number system by 0<->1 (the only other value a UPC-E symbol can carry): 1+54+9 = 64 per number; the oracle recomputes validity of the carried number (a sixth-digit substitution can change the zero-suppression layout onto a valid number)")
	c.Assume("the verdict is on the matching reader. The multi-format reader (no hints) decodes the same images: returning the carried stale number itself is charged (check not enforced); a number of another format for a STALE symbol (e.g. the EAN-8 decoder reading digits 1-4 and 7-10 of a 12-digit symbol past an unanchored centre-guard search, check digit passing by chance) is charged under the signature multi-upcean:stale-symbol-read-as-number-of-other-format (every occurrence tallied as multi_*_symbol_read_*as_number_of_format_*, one event per case); UPC-A reported as EAN-13 '0'+number counts as the carried number")
	c.Assume("don't care (DESIGN C10): a 5-digit add-on with wrong parity reported as absent, as a 2-digit add-on or as another value; only 'reported as the 5-digit value' is charged. Same for a wrong-parity 2-digit add-on reported as another value")
	c.Assume("Code 128 / Code 93 substitutions: 'same text' or any error are accepted, only different text is charged; in Code 128 symbols of more than 103 characters the character whose position weight is a multiple of 103 is not substituted (no mod-103 sum can see it); 5-digit add-ons without white after their last bar are observed only")
	c.Assume("signature upce:stale-check-read-reversed-as-other-number: at >= 2 px per module the UPC-E reader, after refusing a stale-check symbol, retries the row reversed and matches digit windows that are 5..10 instead of 7 modules wide within its variance limits (0.48 average / 0.7 individual); about 0.2 % of all stale symbols then pass the check digit of the number so read. Every occurrence is tallied (stale_symbol_read_reversed-as_other_number_*), at most one event per case is emitted; denominators: substitutions_stale_upce, sweep_upce_stale_symbols_2px, upce_cases_decoding_stale_symbols_at_2px_or_more")
	q := c.Quick()

	// --- A. writers ---
	for _, s := range odAllUPCEAN {
		s := s
		n := c.Pick(50, 500)
		for i := 0; i < n; i++ {
			c.Run(fmt.Sprintf("writer/%s/%d", s.name, i), func(r *fw.Rec) {
				w := s.writer()
				for k := 0; k < 200; k++ {
					p := s.randPayload(r.Rng)
					if !c10WriterNumber(r, s, w, p, true) {
						return
					}
					r.NontrivialH(odHash(s.name + p))
				}
				r.Evals(200 * 11)
				if i == 0 {
					p := s.randPayload(r.Rng)
					r.Sample(map[string]interface{}{"kind": "writer check digit", "symbology": s.name, "payload": p, "reference_number": s.full(p)})
				}
			})
		}
	}
	for _, s := range []*odUPCEAN{odUPCE, odEAN8} {
		s := s
		total := 2000000
		if s == odEAN8 {
			total = 10000000
		}
		chunk := 20000
		for lo := 0; lo < total; lo += chunk {
			lo := lo
			if q {
				c.Run(fmt.Sprintf("writer/%s/sample/%d", s.name, lo/chunk), func(r *fw.Rec) {
					w := s.writer()
					n := 2000
					if s == odEAN8 {
						n = 400
					}
					for k := 0; k < n; k++ {
						if !c10WriterNumber(r, s, w, odPad(lo+r.Rng.Intn(chunk), s.payload), false) {
							return
						}
					}
					r.Evals(int64(3 * n))
					r.TallyN("writer_sweep_"+s.name, int64(n))
				})
			} else {
				c.Run(fmt.Sprintf("writer/%s/all/%d", s.name, lo/chunk), func(r *fw.Rec) {
					w := s.writer()
					for v := lo; v < lo+chunk; v++ {
						if !c10WriterNumber(r, s, w, odPad(v, s.payload), true) {
							return
						}
					}
					r.Evals(int64(11 * chunk))
					r.TallyN("writer_sweep_"+s.name, int64(chunk))
				})
			}
		}
	}
	if !q {
		c.Exhaustive("writer check digit and refusal of all 9 wrong digits for all 2 000 000 UPC-E numbers and all 10 000 000 EAN-8 payloads")
	}
	nw := c.Pick(60, 600)
	for i := 0; i < nw; i++ {
		c.Run(fmt.Sprintf("writer/code128/%d", i), func(r *fw.Rec) {
			w := oned.NewCode128Writer()
			for k := 0; k < 100; k++ {
				var text, force string
				switch r.Rng.Intn(6) {
				case 0:
					text, force = c10Text(r.Rng, 1+r.Rng.Intn(80), "Ucd"), "A"
				case 1:
					text, force = c10Text(r.Rng, 1+r.Rng.Intn(80), "Uld"), "B"
				case 2:
					text, force = odDigits(r.Rng, 2*(1+r.Rng.Intn(40))), "C"
				default:
					text = c10Text(r.Rng, 1+r.Rng.Intn(80), "Ulcdd")
				}
				if !c10WriterCode128(r, w, text, force) {
					return
				}
				r.NontrivialH(odHash("w128" + force + text))
			}
			r.Evals(100)
		})
		c.Run(fmt.Sprintf("writer/code93/%d", i), func(r *fw.Rec) {
			w := oned.NewCode93Writer()
			for k := 0; k < 100; k++ {
				var text string
				if r.Rng.Bool() {
					text = c10FromAlphabet(r.Rng, onedref.Code93Alphabet[:43], 1+r.Rng.Intn(80))
				} else {
					text = c10Text(r.Rng, 1+r.Rng.Intn(40), "Ulcd")
				}
				if !c10WriterCode93(r, w, text) {
					return
				}
				r.NontrivialH(odHash("w93" + text))
			}
			r.Evals(100)
		})
	}

	// --- B. readers, sampled numbers with every substitution ---
	for _, s := range odAllUPCEAN {
		s := s
		n := c.Pick(150, 1500)
		for i := 0; i < n; i++ {
			c.Run(fmt.Sprintf("reader/%s/%d", s.name, i), func(r *fw.Rec) {
				rd := newC10Readers()
				for k := 0; k < 5; k++ {
					p := s.randPayload(r.Rng)
					if !c10ReaderNumber(r, s, rd, p) {
						return
					}
					r.NontrivialH(odHash("rd" + s.name + p))
				}
				if s == odUPCE {
					r.Tally("upce_cases_decoding_stale_symbols_at_2px_or_more")
				}
				if i == 0 {
					p := s.randPayload(r.Rng)
					f := s.full(p)
					r.Sample(map[string]interface{}{"kind": "reader fault enumeration", "symbology": s.name, "valid_number": f, "substitutions": len(c10Substitutions(s, f)), "first_substitution": c10Substitutions(s, f)[0]})
				}
			})
		}
	}
	// sweeps
	{
		step := 2000 // six-digit values per case: 2000 * 20 symbols
		for lo := 0; lo < 1000000; lo += step {
			lo := lo
			if q {
				if (lo/step)%5 == 0 {
					c.Run(fmt.Sprintf("sweep/upce/sample/%d", lo/step), func(r *fw.Rec) {
						c10SweepUPCE(r, c10SampleRange(r.Rng, lo, lo+5*step, 150), 1)
						c10SweepUPCE(r, c10SampleRange(r.Rng, lo, lo+5*step, 150), 2)
					})
				}
			} else {
				c.Run(fmt.Sprintf("sweep/upce/1px/%d", lo/step), func(r *fw.Rec) { c10SweepUPCE(r, c10Range(lo, lo+step), 1) })
				c.Run(fmt.Sprintf("sweep/upce/2px/%d", lo/step), func(r *fw.Rec) { c10SweepUPCE(r, c10Range(lo, lo+step), 2) })
			}
		}
		estep := 5000 // payloads per case: 5000 * 10 strings
		for lo := 0; lo < 10000000; lo += estep {
			lo := lo
			if q {
				if (lo/estep)%10 == 0 {
					c.Run(fmt.Sprintf("sweep/ean8/sample/%d", lo/estep), func(r *fw.Rec) { c10SweepEAN8(r, c10SampleRange(r.Rng, lo, lo+10*estep, 200)) })
				}
			} else {
				c.Run(fmt.Sprintf("sweep/ean8/all/%d", lo/estep), func(r *fw.Rec) { c10SweepEAN8(r, c10Range(lo, lo+estep)) })
			}
		}
		if !q {
			c.Exhaustive("every UPC-E symbol (2 x 10^6 x 10 parity patterns = 2*10^7: every valid number and every stale-check symbol), at 1 and at 2 px per module, 1 row")
			c.Exhaustive("every 8-digit string as an EAN-8 symbol (10^8: all 10^7 valid numbers and all 9*10^7 stale-check symbols), 1 px per module, 1 row")
		}
	}

	// --- C. Code 128 / Code 93 substitutions ---
	ns := c.Pick(300, 3000)
	for i := 0; i < ns; i++ {
		c.Run(fmt.Sprintf("subst/code128/%d", i), c10SubstCode128)
		c.Run(fmt.Sprintf("subst/code93/%d", i), c10SubstCode93)
		c.Run(fmt.Sprintf("subst/code39/%d", i), c10SubstCode39)
		c.Run(fmt.Sprintf("frontends/%d", i), c10FrontEnds)
		for k := 0; k < 8; k++ {
			c.Run(fmt.Sprintf("retained/%d/%d", i, k), c10Retained)
		}
	}

	// --- D. expansion ---
	for lo := 0; lo < 2000000; lo += 50000 {
		lo := lo
		c.Run(fmt.Sprintf("expand/%d", lo/50000), func(r *fw.Rec) { c10Expand(r, lo, lo+50000) })
	}
	c.Exhaustive("convertUPCEtoUPCA against the GS1 expansion for all 2 000 000 UPC-E numbers (7- and 8-digit form)")
	for rule := 1; rule <= 4; rule++ {
		rule := rule
		for lo := 0; lo < c10RuleSizes[rule]; lo += 50000 {
			lo := lo
			c.Run(fmt.Sprintf("suppress/rule%d/%d", rule, lo/50000), func(r *fw.Rec) { c10Suppress(r, rule, lo, lo+50000) })
		}
	}
	c.Exhaustive("expand(suppress(n)) == n for every 11-digit UPC-A number (number system 0/1) matched by one of the four GS1 zero-suppression rules")

	// --- E. add-ons ---
	for _, s := range odAllUPCEAN {
		s := s
		c.Run("addon2/"+s.name, func(r *fw.Rec) { c10AddOn2(r, s) })
	}
	c.Exhaustive("EAN-2 add-on: 100 values x 4 number-set choices, on each main symbology")
	if q {
		for i := 0; i < 100; i++ {
			i := i
			c.Run(fmt.Sprintf("addon5/sample/%d", i), func(r *fw.Rec) {
				c10AddOn5(r, c10SampleRange(r.Rng, i*1000, (i+1)*1000, 20))
				r.TallyN("addon5_values", 20)
			})
		}
	} else {
		for lo := 0; lo < 100000; lo += 500 {
			lo := lo
			c.Run(fmt.Sprintf("addon5/all/%d", lo/500), func(r *fw.Rec) {
				c10AddOn5(r, c10Range(lo, lo+500))
				r.TallyN("addon5_values", 500)
			})
		}
		c.Exhaustive("EAN-5 add-on: all 100 000 values x all 32 number-set patterns")
	}

	for _, s := range odAllUPCEAN {
		c.Floor("writer_check_digit_matches_"+s.name, 5000)
		c.Floor("writer_wrong_digit_refused_"+s.name, 5000)
		c.Floor("valid_symbol_read_reader_"+s.name, 500)
		c.Floor("stale_symbol_refused_reader_"+s.name, 20000)
	}
	c.Floor("writer_sweep_upce", int64(c.Pick(200000, 2000000)))
	c.Floor("writer_sweep_ean8", int64(c.Pick(200000, 10000000)))
	c.Floor("writer_check_character_matches_code128", 3000)
	c.Floor("writer_check_characters_match_code93", 3000)
	c.Floor("sweep_upce_symbols_decoded_1px", int64(c.Pick(200000, 20000000)))
	c.Floor("sweep_upce_symbols_decoded_2px", int64(c.Pick(200000, 20000000)))
	c.Floor("sweep_ean8_symbols_decoded", int64(c.Pick(200000, 100000000)))
	c.Floor("code128_substitutions_refused", 100000)
	c.Floor("code128_reference_symbols_read_with_more_than_103_characters", 20)
	c.Floor("addon5_without_right_quiet_zone_reported", 200)
	c.Floor("code93_substitutions_refused", 50000)
	c.Floor("code93_non_verifying_check_pairs_refused", 500)
	c.Floor("code39_substitutions_refused", 20000)
	c.Floor("front_end_results_verify", 2000)
	c.Floor("retained_results_unchanged", 2000)
	c.Floor("stale_twin_after_valid_symbol_not_returned", 10000)
	c.Floor("code93_long_symbols", 10)
	c.Floor("code39_symbols_with_check_character_read", 100)
	c.Floor("upce_expansions_compared", 2000000)
	c.Floor("suppressible_numbers_rule_1", 600000)
	c.Floor("suppressible_numbers_rule_2", 200000)
	c.Floor("suppressible_numbers_rule_3", 200000)
	c.Floor("suppressible_numbers_rule_4", 1000000)
	c.Floor("addon2_right_parity_reported", 400)
	c.Floor("addon2_wrong_parity_absent", 1000)
	c.Floor("addon5_right_parity_reported", int64(c.Pick(2000, 100000)))
	c.Floor("addon5_values", int64(c.Pick(2000, 100000)))
}

// ---------------------------------------------------------------------------
// F. whatever front end and whatever came before: a returned number verifies, and stays what it was
// ---------------------------------------------------------------------------

// c10VerifiesAs: does text verify as a number of the given UPC/EAN format?
func c10VerifiesAs(f gozxing.BarcodeFormat, text string) bool {
	for _, s := range odAllUPCEAN {
		if s.format == f {
			for i := 0; i < len(text); i++ {
				if text[i] < '0' || text[i] > '9' {
					return false
				}
			}
			if s == odUPCE && (len(text) != 8 || text[0] > '1') {
				return false
			}
			return s.valid(text)
		}
	}
	return false
}

// c10FrontEnds: the multi-format reader under every non-empty subset of the four formats
// (construction hints and decode hints the same, or decode hints nil), reading valid symbols of
// all four kinds.  Whatever it makes of a symbol of a kind that was not asked for, a returned
// result must verify under the format it reports.
func c10FrontEnds(r *fw.Rec) {
	rng := r.Rng
	for rep := 0; rep < 40; rep++ {
		mask := 1 + rng.Intn(15)
		var fs []gozxing.BarcodeFormat
		for i, s := range odAllUPCEAN {
			if mask>>uint(i)&1 == 1 {
				fs = append(fs, s.format)
			}
		}
		for i, j := range rng.Perm(len(fs)) {
			if i < j {
				fs[i], fs[j] = fs[j], fs[i]
			}
		}
		hints := map[gozxing.DecodeHintType]interface{}{gozxing.DecodeHintType_POSSIBLE_FORMATS: fs}
		rd := oned.NewMultiFormatUPCEANReader(hints)
		dh := hints
		if rng.Intn(3) == 0 {
			dh = nil
		}
		for _, s := range odAllUPCEAN {
			payload := s.randPayload(rng)
			if s == odUPCE {
				payload = string(byte('0'+rng.Intn(2))) + payload[1:]
			}
			full := s.full(payload)
			scale, height, quiet := 1+rng.Intn(2), 1+rng.Intn(3), 10+rng.Intn(6)
			res, err := odDecode(rd, odRender(s.pattern(full), quiet, quiet, scale, height), dh)
			r.Evals(1)
			if err != nil {
				r.Tally("front_end_symbol_of_unrequested_kind_refused_or_not_found")
				continue
			}
			if !c10VerifiesAs(res.GetBarcodeFormat(), res.GetText()) {
				r.Violation("model-mismatch", "multi-upcean:returned-number-does-not-verify", fmt.Sprintf("multi-format reader for %v (decode hints %v) read the %s symbol %s as %s/%v, which does not verify as a %v number", fs, dh != nil, s.name, full, res.GetText(), res.GetBarcodeFormat(), res.GetBarcodeFormat()),
					map[string]interface{}{"possible_formats": fmt.Sprint(fs), "decode_hints_given": dh != nil, "symbol_kind": s.name, "symbol": full, "returned": res.GetText(), "returned_format": res.GetBarcodeFormat().String()})
				return
			}
			r.Tally("front_end_results_verify")
		}
	}
	r.Nontrivial(fmt.Sprintf("frontends/%d", rng.Uint64()))
}

// c10Retained: results handed out earlier are kept while the same reader instance goes on
// reading (valid symbols, and symbols with a stale check digit that it must refuse); at the end
// every kept result still carries its number and still verifies.
func c10Retained(r *fw.Rec) {
	rng := r.Rng
	s := odAllUPCEAN[rng.Intn(len(odAllUPCEAN))]
	rd := s.reader()
	if rng.Intn(3) == 0 {
		rd = oned.NewMultiFormatUPCEANReader(map[gozxing.DecodeHintType]interface{}{gozxing.DecodeHintType_POSSIBLE_FORMATS: []gozxing.BarcodeFormat{s.format}})
	}
	type kept struct {
		res  *gozxing.Result
		want string
	}
	var keep []kept
	for i := 0; i < 12; i++ {
		payload := s.randPayload(rng)
		if s == odUPCE {
			payload = string(byte('0'+rng.Intn(2))) + payload[1:]
		}
		full := s.full(payload)
		stale := i%2 == 1
		shown := full
		if stale {
			shown = payload + string(rune('0'+(s.check(payload)+1+rng.Intn(9))%10))
		}
		res, err := odDecode(rd, odRender(s.pattern(shown), 12, 12, 1+rng.Intn(2), 1+rng.Intn(3)), nil)
		r.Evals(1)
		if !stale && err == nil && res.GetText() == full {
			keep = append(keep, kept{res, full})
			// directly afterwards, on the same instance: the same number with each of the nine
			// other check digits - whatever the reader remembers of the symbol it just verified
			for d := 1; d <= 9; d++ {
				wrong := payload + string(rune('0'+(s.check(payload)+d)%10))
				r2, e2 := odDecode(rd, odRender(s.pattern(wrong), 12, 12, 1, 1), nil)
				r.Evals(1)
				if e2 == nil && !c10VerifiesAs(r2.GetBarcodeFormat(), r2.GetText()) {
					r.Violation("model-mismatch", "upcean:stale-symbol-read-right-after-the-valid-one", fmt.Sprintf("%s reader: directly after reading %s, the symbol %s (same digits, wrong check digit) was returned as %s, which does not verify", s.name, full, wrong, r2.GetText()),
						map[string]interface{}{"symbology": s.name, "valid": full, "stale": wrong, "returned": r2.GetText()})
					return
				}
				r.Tally("stale_twin_after_valid_symbol_not_returned")
			}
		}
	}
	for _, k := range keep {
		if k.res.GetText() != k.want || !c10VerifiesAs(k.res.GetBarcodeFormat(), k.res.GetText()) {
			r.Violation("model-mismatch", "upcean:result-changed-after-later-reads", fmt.Sprintf("%s reader: a result returned as %s reads %s after the same reader instance decoded further symbols", s.name, k.want, k.res.GetText()),
				map[string]interface{}{"symbology": s.name, "returned_as": k.want, "now": k.res.GetText()})
			return
		}
		r.Tally("retained_results_unchanged")
	}
	r.Nontrivial(fmt.Sprintf("retained/%s/%d", s.name, rng.Uint64()))
}
