package qrref

import (
	"fmt"
	"strings"

	"verifharness/ref/gf"
	"verifharness/ref/rs"
)

// Segment is one element of the data bit stream.
//
// Data: Numeric = ASCII digits; Alphanumeric = ASCII characters of
// AlnumCharset; Byte = raw bytes; Kanji = Shift_JIS byte pairs in
// 0x8140..0x9FFC or 0xE040..0xEBBF.  Mode == ModeECI makes an ECI header
// with assignment number ECI (0..999999); ECI is ignored for other modes.
// ModeFNC1First has no data; ModeFNC1Second takes Data[0] as the application
// indicator byte; ModeStructuredAppend takes Data = {seq (pos<<4|total-1),
// parity}.
type Segment struct {
	Mode Mode
	Data []byte
	ECI  int
}

type bitBuf []bool

func (b *bitBuf) put(val, n int) {
	for i := n - 1; i >= 0; i-- {
		*b = append(*b, val>>uint(i)&1 == 1)
	}
}

// ValidSegment reports why a segment cannot be encoded in version v (nil if
// it can; the symbol capacity is not considered, only the count field).
func ValidSegment(v int, s Segment) error {
	checkVersion(v)
	switch s.Mode {
	case Numeric:
		for _, c := range s.Data {
			if c < '0' || c > '9' {
				return fmt.Errorf("numeric segment: non-digit 0x%02X", c)
			}
		}
	case Alphanumeric:
		for _, c := range s.Data {
			if strings.IndexByte(AlnumCharset, c) < 0 {
				return fmt.Errorf("alphanumeric segment: character 0x%02X not in set", c)
			}
		}
	case Byte:
	case Kanji:
		if len(s.Data)%2 != 0 {
			return fmt.Errorf("kanji segment: odd byte length")
		}
		for i := 0; i < len(s.Data); i += 2 {
			if _, ok := kanjiValue(s.Data[i], s.Data[i+1]); !ok {
				return fmt.Errorf("kanji segment: %02X%02X outside 8140-9FFC / E040-EBBF", s.Data[i], s.Data[i+1])
			}
		}
	case ModeECI:
		if s.ECI < 0 || s.ECI > 999999 {
			return fmt.Errorf("ECI %d out of range", s.ECI)
		}
		return nil
	case ModeFNC1First:
		return nil
	case ModeFNC1Second:
		if len(s.Data) != 1 {
			return fmt.Errorf("FNC1 second position needs 1 byte application indicator")
		}
		return nil
	case ModeStructuredAppend:
		if len(s.Data) != 2 {
			return fmt.Errorf("structured append needs 2 bytes")
		}
		return nil
	default:
		return fmt.Errorf("unknown mode %d", int(s.Mode))
	}
	if n := segCount(s); n >= 1<<uint(CharCountBits(s.Mode, v)) {
		return fmt.Errorf("%v segment: count %d does not fit %d bit count field", s.Mode, n, CharCountBits(s.Mode, v))
	}
	return nil
}

func segCount(s Segment) int {
	if s.Mode == Kanji {
		return len(s.Data) / 2
	}
	return len(s.Data)
}

// kanjiValue compacts a Shift_JIS double byte character to 13 bits (8.4.5).
func kanjiValue(hi, lo byte) (int, bool) {
	c := int(hi)<<8 | int(lo)
	switch {
	case c >= 0x8140 && c <= 0x9FFC:
		c -= 0x8140
	case c >= 0xE040 && c <= 0xEBBF:
		c -= 0xC140
	default:
		return 0, false
	}
	return (c>>8)*0xC0 + (c & 0xFF), true
}

// EncodeSegments returns mode indicator + character count + data bits for
// each segment, concatenated; no terminator.  Panics on a segment that is
// not encodable (see ValidSegment).
func EncodeSegments(v int, segs []Segment) []bool {
	var b bitBuf
	for _, s := range segs {
		if err := ValidSegment(v, s); err != nil {
			panic("qrref: " + err.Error())
		}
		switch s.Mode {
		case Numeric:
			b.put(indNumeric, 4)
			b.put(len(s.Data), CharCountBits(Numeric, v))
			d := s.Data
			for len(d) >= 3 {
				b.put(int(d[0]-'0')*100+int(d[1]-'0')*10+int(d[2]-'0'), 10)
				d = d[3:]
			}
			switch len(d) {
			case 2:
				b.put(int(d[0]-'0')*10+int(d[1]-'0'), 7)
			case 1:
				b.put(int(d[0]-'0'), 4)
			}
		case Alphanumeric:
			b.put(indAlphanumeric, 4)
			b.put(len(s.Data), CharCountBits(Alphanumeric, v))
			d := s.Data
			for len(d) >= 2 {
				b.put(strings.IndexByte(AlnumCharset, d[0])*45+strings.IndexByte(AlnumCharset, d[1]), 11)
				d = d[2:]
			}
			if len(d) == 1 {
				b.put(strings.IndexByte(AlnumCharset, d[0]), 6)
			}
		case Byte:
			b.put(indByte, 4)
			b.put(len(s.Data), CharCountBits(Byte, v))
			for _, c := range s.Data {
				b.put(int(c), 8)
			}
		case Kanji:
			b.put(indKanji, 4)
			b.put(len(s.Data)/2, CharCountBits(Kanji, v))
			for i := 0; i < len(s.Data); i += 2 {
				val, _ := kanjiValue(s.Data[i], s.Data[i+1])
				b.put(val, 13)
			}
		case ModeECI:
			b.put(indECI, 4)
			switch {
			case s.ECI <= 127:
				b.put(s.ECI, 8) // 0bbbbbbb
			case s.ECI <= 16383:
				b.put(2, 2) // 10
				b.put(s.ECI, 14)
			default:
				b.put(6, 3) // 110
				b.put(s.ECI, 21)
			}
		case ModeFNC1First:
			b.put(indFNC1First, 4)
		case ModeFNC1Second:
			b.put(indFNC1Second, 4)
			b.put(int(s.Data[0]), 8)
		case ModeStructuredAppend:
			b.put(indStructuredAppend, 4)
			b.put(int(s.Data[0]), 8)
			b.put(int(s.Data[1]), 8)
		}
	}
	return b
}

// DataCodewordsFor builds the data codeword sequence: segment bits,
// terminator (0000, shortened if fewer than 4 bits remain), zero bits to the
// next codeword boundary, then pad codewords 11101100 / 00010001 alternately
// up to DataCodewords(v,l).  ok=false if the bit stream does not fit.
func DataCodewordsFor(v int, l Level, segs []Segment) ([]byte, bool) {
	bits := EncodeSegments(v, segs)
	n := DataCodewords(v, l)
	capBits := 8 * n
	if len(bits) > capBits {
		return nil, false
	}
	for t := 0; t < 4 && len(bits) < capBits; t++ {
		bits = append(bits, false)
	}
	for len(bits)%8 != 0 {
		bits = append(bits, false)
	}
	out := make([]byte, 0, n)
	for i := 0; i < len(bits); i += 8 {
		var c byte
		for j := 0; j < 8; j++ {
			c <<= 1
			if bits[i+j] {
				c |= 1
			}
		}
		out = append(out, c)
	}
	for k := 0; len(out) < n; k++ {
		if k%2 == 0 {
			out = append(out, 0xEC)
		} else {
			out = append(out, 0x11)
		}
	}
	return out, true
}

// SplitBlocks divides the data codewords into RS blocks (in order) and
// computes each block's EC codewords.
func SplitBlocks(v int, l Level, data []byte) (dataBlocks, ecBlocks [][]byte) {
	if len(data) != DataCodewords(v, l) {
		panic(fmt.Sprintf("qrref: %d-%v needs %d data codewords, got %d", v, l, DataCodewords(v, l), len(data)))
	}
	ec := ECCodewordsPerBlock(v, l)
	off := 0
	for _, n := range blockDataLens(v, l) {
		d := append([]byte(nil), data[off:off+n]...)
		off += n
		dataBlocks = append(dataBlocks, d)
		ecBlocks = append(ecBlocks, rs.ParityBytes(gf.QR256, d, ec))
	}
	return
}

// FinalCodewords returns the final codeword sequence: data codewords of all
// blocks interleaved (D1 of block 1, D1 of block 2, ...; short blocks simply
// drop out at their end), then EC codewords interleaved likewise.
func FinalCodewords(v int, l Level, data []byte) []byte {
	db, eb := SplitBlocks(v, l, data)
	out := make([]byte, 0, TotalCodewords(v))
	maxLen := len(db[len(db)-1])
	for j := 0; j < maxLen; j++ {
		for _, b := range db {
			if j < len(b) {
				out = append(out, b[j])
			}
		}
	}
	for j := 0; j < ECCodewordsPerBlock(v, l); j++ {
		for _, b := range eb {
			out = append(out, b[j])
		}
	}
	return out
}

// CodewordBlock tells which RS block the i-th final codeword belongs to,
// whether it is an EC codeword, and its index within the block's data (or
// EC) part.
func CodewordBlock(v int, l Level, i int) (block int, isEC bool, idx int) {
	lens := blockDataLens(v, l)
	if i < 0 || i >= TotalCodewords(v) {
		panic(fmt.Sprintf("qrref: codeword index %d out of range", i))
	}
	k := 0
	maxLen := lens[len(lens)-1]
	for j := 0; j < maxLen; j++ {
		for b, n := range lens {
			if j < n {
				if k == i {
					return b, false, j
				}
				k++
			}
		}
	}
	i -= k
	return i % len(lens), true, i / len(lens)
}

// BuildMatrix builds the full symbol [y][x] (true = dark) from the data
// codewords (length DataCodewords(v,l)): function patterns, format and
// version information, final codewords placed MSB first in the zig-zag
// order, zero remainder bits, and data mask `mask` applied to the encoding
// region only (codeword and remainder modules).
func BuildMatrix(v int, l Level, mask int, data []byte) [][]bool {
	return BuildMatrixFromFinal(v, l, mask, FinalCodewords(v, l, data))
}

// BuildMatrixFromFinal is BuildMatrix for an already interleaved codeword
// sequence of length TotalCodewords(v) (lets a test inject errors).
func BuildMatrixFromFinal(v int, l Level, mask int, final []byte) [][]bool {
	g := geom(v)
	if len(final) != len(g.order)/8 {
		panic(fmt.Sprintf("qrref: version %d needs %d codewords, got %d", v, len(g.order)/8, len(final)))
	}
	m := copyGrid(g.dark)
	for k, p := range g.order {
		bit := false
		if k/8 < len(final) {
			bit = final[k/8]>>uint(7-k%8)&1 == 1
		}
		m[p[1]][p[0]] = bit != MaskBit(mask, p[0], p[1])
	}
	fw := FormatWord(l, mask)
	c1, c2 := FormatBitPositions(g.size)
	for k := 0; k < 15; k++ {
		bit := fw>>uint(k)&1 == 1
		m[c1[k][1]][c1[k][0]] = bit
		m[c2[k][1]][c2[k][0]] = bit
	}
	if v >= 7 {
		vw := VersionWord(v)
		v1, v2 := VersionBitPositions(g.size)
		for k := 0; k < 18; k++ {
			bit := vw>>uint(k)&1 == 1
			m[v1[k][1]][v1[k][0]] = bit
			m[v2[k][1]][v2[k][0]] = bit
		}
	}
	return m
}
