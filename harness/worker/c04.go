//go:build verif

package main

import (
	"fmt"

	"github.com/makiuchi-d/gozxing/common/reedsolomon"

	"verifharness/fw"
	"verifharness/ref/gf"
	"verifharness/ref/rs"
)

// C04: GF(2^m) arithmetic against carry-less multiplication, RS encoder
// against polynomial long division, RS decoder against "restores the word".

func init() { fw.Register("C04", c04) }

type c04Field struct {
	ref gf.Field
	lib *reedsolomon.GenericGF
}

func c04Fields() []c04Field {
	return []c04Field{
		{gf.QR256, reedsolomon.GenericGF_QR_CODE_FIELD_256},
		{gf.DM256, reedsolomon.GenericGF_DATA_MATRIX_FIELD_256},
		{gf.Aztec16, reedsolomon.GenericGF_AZTEC_PARAM},
		{gf.Aztec64, reedsolomon.GenericGF_AZTEC_DATA_6},
		{gf.Aztec1024, reedsolomon.GenericGF_AZTEC_DATA_10},
		{gf.Aztec4096, reedsolomon.GenericGF_AZTEC_DATA_12},
	}
}

func c04Arith(r *fw.Rec, f c04Field, aLo, aHi int) {
	size := f.ref.Size
	if f.lib.GetSize() != size {
		r.Violation("model-mismatch", "gf:size", fmt.Sprintf("%s: GetSize %d", f.ref.Name, f.lib.GetSize()), nil)
		return
	}
	if f.lib.GetGeneratorBase() != f.ref.Base {
		r.Violation("model-mismatch", "gf:base", fmt.Sprintf("%s: generator base %d, standard %d", f.ref.Name, f.lib.GetGeneratorBase(), f.ref.Base), nil)
		return
	}
	for a := aLo; a < aHi; a++ {
		for b := 0; b < size; b++ {
			got := f.lib.Multiply(a, b)
			want := f.ref.Mul(a, b)
			if got != want {
				r.Violation("model-mismatch", "gf:multiply", fmt.Sprintf("%s: Multiply(%d,%d)=%d, clmul mod p = %d", f.ref.Name, a, b, got, want), map[string]interface{}{"field": f.ref.Name, "a": a, "b": b})
				return
			}
		}
		r.Evals(int64(size))
		if a != 0 {
			inv, err := f.lib.Inverse(a)
			if err != nil || f.ref.Mul(a, inv) != 1 {
				r.Violation("model-mismatch", "gf:inverse", fmt.Sprintf("%s: Inverse(%d)=%d,%v: a*inv = %d", f.ref.Name, a, inv, err, f.ref.Mul(a, inv)), map[string]interface{}{"field": f.ref.Name, "a": a})
				return
			}
			lg, err := f.lib.Log(a)
			if err != nil || lg < 0 || lg >= size-1 || f.lib.Exp(lg) != a {
				r.Violation("model-mismatch", "gf:explog", fmt.Sprintf("%s: Log(%d)=%d,%v Exp(Log)=%v", f.ref.Name, a, lg, err, f.lib.Exp(lg%size)), map[string]interface{}{"field": f.ref.Name, "a": a})
				return
			}
			r.NontrivialH(uint64(f.ref.Prim)<<20 | uint64(a))
		} else {
			if _, err := f.lib.Inverse(0); err == nil {
				r.Violation("model-mismatch", "gf:inverse0", f.ref.Name+": Inverse(0) did not fail", nil)
			}
			if _, err := f.lib.Log(0); err == nil {
				r.Violation("model-mismatch", "gf:log0", f.ref.Name+": Log(0) did not fail", nil)
			}
		}
	}
	r.TallyN("gf_products_compared", int64((aHi-aLo)*size))
}

// exp table against repeated multiplication by alpha in the reference
func c04Exp(r *fw.Rec, f c04Field) {
	x := 1
	for e := 0; e < f.ref.Size; e++ {
		if got := f.lib.Exp(e); got != x {
			r.Violation("model-mismatch", "gf:exp", fmt.Sprintf("%s: Exp(%d)=%d, alpha^e = %d", f.ref.Name, e, got, x), map[string]interface{}{"field": f.ref.Name, "e": e})
			return
		}
		x = f.ref.Mul(x, 2)
	}
	r.TallyN("gf_exp_compared", int64(f.ref.Size))
	r.Nontrivial("exp/" + f.ref.Name)
}

func toInts(n int, rng *fw.Rand, size int, kind int) []int {
	d := make([]int, n)
	for i := range d {
		switch kind {
		case 0:
			d[i] = rng.Intn(size)
		case 1:
			d[i] = 0
		case 2:
			d[i] = size - 1
		case 3:
			if rng.Intn(8) == 0 {
				d[i] = rng.Intn(size)
			}
		}
	}
	return d
}

// encodeAndCheck runs the library encoder and checks it against the reference.
func c04Encode(r *fw.Rec, f c04Field, enc *reedsolomon.ReedSolomonEncoder, data []int, ec int) ([]int, bool) {
	k := len(data)
	word := make([]int, k+ec)
	copy(word, data)
	for i := k; i < k+ec; i++ {
		word[i] = 0x55 & (f.ref.Size - 1) // stale parity area must be overwritten
	}
	err := enc.Encode(word, ec)
	info := map[string]interface{}{"field": f.ref.Name, "k": k, "r": ec, "data": clip(data)}
	if err != nil {
		r.Violation("model-mismatch", "rs:encode-error", fmt.Sprintf("%s: Encode(k=%d, r=%d) failed: %v", f.ref.Name, k, ec, err), info)
		return nil, false
	}
	for i := 0; i < k; i++ {
		if word[i] != data[i] {
			r.Violation("model-mismatch", "rs:encode-data-changed", fmt.Sprintf("%s: Encode(k=%d, r=%d) changed data symbol %d", f.ref.Name, k, ec, i), info)
			return nil, false
		}
	}
	for i := k; i < k+ec; i++ {
		if word[i] < 0 || word[i] >= f.ref.Size {
			r.Violation("model-mismatch", "rs:encode-range", fmt.Sprintf("%s: parity symbol %d out of field", f.ref.Name, word[i]), info)
			return nil, false
		}
	}
	if !rs.IsCodeword(f.ref, word, ec) {
		r.Violation("model-mismatch", "rs:encode-syndromes", fmt.Sprintf("%s: Encode(k=%d, r=%d): syndromes %v not all zero", f.ref.Name, k, ec, clip(rs.Syndromes(f.ref, word, ec))), info)
		return nil, false
	}
	par := rs.Parity(f.ref, data, ec)
	if !intsEq(par, word[k:]) {
		r.Violation("model-mismatch", "rs:encode-parity", fmt.Sprintf("%s: Encode(k=%d, r=%d): parity %v, long division %v", f.ref.Name, k, ec, clip(word[k:]), clip(par)), info)
		return nil, false
	}
	r.Tally("rs_words_encoded")
	return word, true
}

// decodeAndCheck corrupts word at pos with magnitudes mags (non-zero xor) and demands exact restoration.
func c04Decode(r *fw.Rec, f c04Field, dec *reedsolomon.ReedSolomonDecoder, word []int, ec int, pos, mags []int) bool {
	recv := append([]int{}, word...)
	for i, p := range pos {
		recv[p] ^= mags[i]
	}
	err := dec.Decode(recv, ec)
	info := map[string]interface{}{"field": f.ref.Name, "n": len(word), "r": ec, "positions": pos, "magnitudes": mags, "word": clip(word)}
	if err != nil {
		r.Violation("model-mismatch", fmt.Sprintf("rs:decode-error:%d-errors", len(pos)), fmt.Sprintf("%s: Decode(n=%d, r=%d) with %d errors (<= %d) at %v failed: %v", f.ref.Name, len(word), ec, len(pos), ec/2, pos, err), info)
		return false
	}
	if !intsEq(recv, word) {
		r.Violation("model-mismatch", fmt.Sprintf("rs:decode-wrong:%d-errors", len(pos)), fmt.Sprintf("%s: Decode(n=%d, r=%d) with %d errors (<= %d) at %v did not restore the word", f.ref.Name, len(word), ec, len(pos), ec/2, pos), info)
		return false
	}
	r.Tally(fmt.Sprintf("rs_decoded_%s", errBucket(len(pos), ec/2)))
	r.Evals(1)
	return true
}

func errBucket(e, t int) string {
	switch {
	case e == 0:
		return "clean"
	case e == t:
		return "at_capacity"
	case e == 1:
		return "single"
	case e == 2:
		return "double"
	default:
		return "below_capacity"
	}
}

func c04Short(r *fw.Rec, f c04Field, k, ec int) {
	rng := r.Rng
	size := f.ref.Size
	enc := reedsolomon.NewReedSolomonEncoder(f.lib)
	dec := reedsolomon.NewReedSolomonDecoder(f.lib)
	data := toInts(k, rng, size, rng.Intn(4))
	word, ok := c04Encode(r, f, enc, data, ec)
	if !ok {
		return
	}
	n := k + ec
	if !c04Decode(r, f, dec, word, ec, nil, nil) {
		return
	}
	t := ec / 2
	nm := 3
	if t >= 1 {
		for p := 0; p < n; p++ {
			for m := 0; m < nm; m++ {
				mag := 1 + rng.Intn(size-1)
				if m == 0 {
					mag = 1
				} else if m == 1 {
					mag = size - 1
				}
				if !c04Decode(r, f, dec, word, ec, []int{p}, []int{mag}) {
					return
				}
			}
		}
	}
	if t >= 2 {
		for p := 0; p < n; p++ {
			for q := p + 1; q < n; q++ {
				if !c04Decode(r, f, dec, word, ec, []int{p, q}, []int{1 + rng.Intn(size-1), 1 + rng.Intn(size-1)}) {
					return
				}
			}
		}
	}
	r.Nontrivial(fmt.Sprintf("short/%s/%d/%d/%v", f.ref.Name, k, ec, data))
}

func c04Long(r *fw.Rec, f c04Field) {
	rng := r.Rng
	size := f.ref.Size
	maxN := size - 1
	var n, ec int
	switch rng.Intn(4) {
	case 0:
		n = maxN
	case 1:
		n = 2 + rng.Intn(maxN-1)
	default:
		lim := maxN
		if lim > 300 {
			lim = 300
		}
		n = 2 + rng.Intn(lim-1)
	}
	switch rng.Intn(5) {
	case 0:
		ec = 1 + rng.Intn(n-1)
	case 1:
		ec = n - 1
	default:
		m := n - 1
		if m > 70 {
			m = 70
		}
		ec = 1 + rng.Intn(m)
	}
	if (n-ec)*ec > 400000 { // keep the naive reference affordable
		ec = 400000 / n
		if ec < 1 {
			ec = 1
		}
	}
	k := n - ec
	enc := reedsolomon.NewReedSolomonEncoder(f.lib)
	if rng.Bool() { // warm the encoder's generator cache with other degrees first
		w := make([]int, 9)
		enc.Encode(w, 1+rng.Intn(7))
		if ec+3 <= maxN { // stay inside k+r <= |F|-1
			w2 := make([]int, ec+3)
			enc.Encode(w2, ec+1+rng.Intn(2))
		}
	}
	dec := reedsolomon.NewReedSolomonDecoder(f.lib)
	data := toInts(k, rng, size, rng.Intn(4))
	word, ok := c04Encode(r, f, enc, data, ec)
	if !ok {
		return
	}
	t := ec / 2
	counts := []int{0}
	if t >= 1 {
		counts = append(counts, 1, t)
	}
	if t >= 2 {
		counts = append(counts, t-1, t)
	}
	for _, e := range counts {
		for rep := 0; rep < 2; rep++ {
			var pos []int
			used := map[int]bool{}
			extremes := []int{0, n - 1, k - 1, k}
			for len(pos) < e {
				var p int
				if rep == 1 && len(pos) < len(extremes) {
					p = extremes[len(pos)]
				} else {
					p = rng.Intn(n)
				}
				if p < 0 || p >= n || used[p] {
					p = rng.Intn(n)
					if used[p] {
						continue
					}
				}
				used[p] = true
				pos = append(pos, p)
			}
			mags := make([]int, e)
			for i := range mags {
				mags[i] = 1 + rng.Intn(size-1)
			}
			if rep == 1 && e > 0 && e == t && rng.Bool() { // burst
				start := rng.Intn(n - e + 1)
				for i := range pos {
					pos[i] = start + i
				}
			}
			if !c04Decode(r, f, dec, word, ec, pos, mags) {
				return
			}
		}
	}
	r.Nontrivial(fmt.Sprintf("long/%s/%d/%d/%v", f.ref.Name, k, ec, clip(data)))
	r.Max("max_codeword_length_"+f.ref.Name, int64(n))
	r.Max("max_parity_"+f.ref.Name, int64(ec))
}

// c04Reuse: ONE encoder and ONE decoder instance used for a history of words with
// varying parity counts (descending, ascending, random) - a codec may keep scratch state
// between calls, and the statement holds for every call of every history.
func c04Reuse(r *fw.Rec, f c04Field) {
	rng := r.Rng
	size := f.ref.Size
	enc := reedsolomon.NewReedSolomonEncoder(f.lib)
	dec := reedsolomon.NewReedSolomonDecoder(f.lib)
	maxN := size - 1
	if maxN > 60 {
		maxN = 60
	}
	var hist []string
	for step := 0; step < 24; step++ {
		n := 3 + rng.Intn(maxN-2)
		var ec int
		switch step % 4 {
		case 0: // large parity count first ...
			ec = n - 1 - rng.Intn((n+1)/3)
		case 1: // ... then a small one on the same instances
			ec = 1 + rng.Intn(3)
		default:
			ec = 1 + rng.Intn(n-1)
		}
		if ec >= n {
			ec = n - 1
		}
		if ec < 1 {
			ec = 1
		}
		data := toInts(n-ec, rng, size, rng.Intn(4))
		hist = append(hist, fmt.Sprintf("(n=%d,r=%d)", n, ec))
		word, ok := c04Encode(r, f, enc, data, ec)
		if !ok {
			return
		}
		t := ec / 2
		e := t
		if step%3 == 2 {
			e = rng.Intn(t + 1)
		}
		pos := rng.Perm(n)[:e]
		mags := make([]int, e)
		for i := range mags {
			mags[i] = 1 + rng.Intn(size-1)
		}
		if !c04Decode(r, f, dec, word, ec, pos, mags) {
			r.Tally("reuse_history_failed_at_step")
			return
		}
		// re-encoding the (restored) code word in place must reproduce the same parity
		again := append([]int{}, word...)
		if err := enc.Encode(again, ec); err != nil || !intsEq(again, word) {
			r.Violation("model-mismatch", "rs:encode-not-idempotent-on-codeword", fmt.Sprintf("%s: Encode of a valid code word in place (n=%d, r=%d) changed it or failed (%v) after history %v", f.ref.Name, n, ec, err, hist), map[string]interface{}{"field": f.ref.Name, "n": n, "r": ec, "word": clip(word)})
			return
		}
	}
	r.Tally("rs_reuse_histories")
	r.Nontrivial("reuse/" + f.ref.Name + "/" + fmt.Sprint(hist))
}

func c04(c *fw.Ctx) {
	c.Rule("all six fields: every product a*b (exhaustive, up to 4096^2), every inverse, log and exp compared with shift-and-xor multiplication modulo the primitive polynomial; RS encode compared with polynomial long division and direct syndrome evaluation; RS decode must restore the exact word: short codes (n <= 20) with every single and double error position, long codes with random (k, r) up to n = |F|-1 and 0, 1, t-1, t errors at random, extreme and burst positions; floor(r/2) errors with magnitudes solved so that two chosen syndromes (the highest, the lowest, or any two) vanish, and all-zero data words over a stale parity area; blocks of the 10- and 12-bit fields with 514..1013 check symbols and up to floor(r/2) > 256 errors; histories of 24 words with varying parity counts on ONE encoder and ONE decoder instance (large then small r, re-encoding in place); 14 operations (Inverse, Exp, Log, Multiply, GetZero, GetOne, BuildMonomial, polynomial evaluation and product, Encode, Decode, the same on a freshly constructed field) each as the FIRST use of each field in a fresh process; distinct = distinct field elements + distinct (field, k, r, data)")
	c.Assume("more than floor(r/2) errors are outside the statement and never generated")
	fields := c04Fields()
	for _, f := range fields {
		f := f
		step := 64
		if f.ref.Size <= 256 {
			step = f.ref.Size
		}
		for lo := 0; lo < f.ref.Size; lo += step {
			lo := lo
			c.Run(fmt.Sprintf("arith/%s/%d", f.ref.Name, lo), func(r *fw.Rec) {
				c04Arith(r, f, lo, lo+step)
				if lo == 0 {
					r.Sample(map[string]interface{}{"kind": "exhaustive products", "field": f.ref.Name, "a": fmt.Sprintf("%d..%d", lo, lo+step-1), "b": fmt.Sprintf("0..%d", f.ref.Size-1)})
				}
			})
		}
		c.Run("exp/"+f.ref.Name, func(r *fw.Rec) { c04Exp(r, f) })
	}
	c.Exhaustive("GF multiplication, inverse, exp, log over all elements of all six fields")
	// every operation as the first thing a fresh process does with a field
	for fi := range fields {
		fi := fi
		c.Run("cold/"+fields[fi].ref.Name, func(r *fw.Rec) { c04Cold(r, fi) })
	}
	// short codes, exhaustive single/double positions
	reps := c.Pick(1, 6)
	for _, f := range fields {
		f := f
		for n := 2; n <= 20 && n <= f.ref.Size-1; n++ {
			for ec := 1; ec < n; ec++ {
				for rep := 0; rep < reps; rep++ {
					n, ec := n, ec
					c.Run(fmt.Sprintf("short/%s/%d/%d/%d", f.ref.Name, n, ec, rep), func(r *fw.Rec) {
						c04Short(r, f, n-ec, ec)
						if n == 12 && ec == 5 && rep == 0 {
							r.Sample(map[string]interface{}{"kind": "short code", "field": f.ref.Name, "n": n, "r": ec, "errors": "clean, every single position x 3 magnitudes, every position pair"})
						}
					})
				}
			}
		}
	}
	c.Exhaustive("single- and double-error positions of RS codes with n <= 20 (magnitudes sampled)")
	nlong := c.Pick(250, 6000)
	for _, f := range fields {
		f := f
		for i := 0; i < nlong; i++ {
			c.Run(fmt.Sprintf("long/%s/%d", f.ref.Name, i), func(r *fw.Rec) { c04Long(r, f) })
		}
	}
	nreuse := c.Pick(60, 1500)
	for _, f := range fields {
		f := f
		for i := 0; i < nreuse; i++ {
			c.Run(fmt.Sprintf("reuse/%s/%d", f.ref.Name, i), func(r *fw.Rec) { c04Reuse(r, f) })
		}
	}
	for _, f := range fields {
		f := f
		if f.ref.Size < 1024 {
			continue
		}
		for i := 0; i < c.Pick(6, 120); i++ {
			c.Run(fmt.Sprintf("wideparity/%s/%d", f.ref.Name, i), func(r *fw.Rec) { c04WideParity(r, f) })
		}
	}
	c.Floor("rs_decoded_with_more_than_256_errors", 20)
	nzs := c.Pick(120, 3000)
	for _, f := range fields {
		f := f
		for i := 0; i < nzs; i++ {
			c.Run(fmt.Sprintf("zerosyn/%s/%d", f.ref.Name, i), func(r *fw.Rec) { c04ZeroSyndromes(r, f) })
		}
	}
	c.Floor("rs_decoded_with_two_vanishing_syndromes", int64(6*nzs*10))
	c.Floor("rs_all_zero_data_words", int64(6*nzs*2))
	c.Floor("rs_reuse_histories", int64(6*nreuse*9/10))
	c.Floor("rs_words_encoded", 1000)
	c.Floor("cold_start_first_operations", 84)
	c.Floor("rs_decoded_at_capacity", 500)
	c.Floor("rs_decoded_clean", 500)
}

// ---- cold starts: each operation as the very first use of a field in a fresh process

var c04ColdOps = []string{"inverse", "exp", "log", "multiply", "zero", "one", "monomial", "poly-eval", "poly-multiply", "encode", "decode", "fresh-inverse", "fresh-multiply", "string"}

func init() {
	fw.RegisterCold("c04first", func(arg string) (out string) {
		defer func() {
			if p := recover(); p != nil {
				out = fmt.Sprintf("PANIC %v", p)
			}
		}()
		var fi int
		var op string
		fmt.Sscanf(arg, "%d %s", &fi, &op)
		f := c04Fields()[fi]
		g := f.lib
		if op == "fresh-inverse" || op == "fresh-multiply" {
			g = reedsolomon.NewGenericGF(f.ref.Prim, f.ref.Size, f.ref.Base)
		}
		a, b := 2+fi, f.ref.Size-1
		switch op {
		case "inverse", "fresh-inverse":
			for _, x := range []int{a, 1, b, f.ref.Size / 2} {
				inv, err := g.Inverse(x)
				if err != nil || f.ref.Mul(x, inv) != 1 {
					return fmt.Sprintf("Inverse(%d) = %d, %v as the first operation on the field", x, inv, err)
				}
			}
		case "exp":
			for _, e := range []int{0, 1, 5, f.ref.Size - 2} {
				if got := g.Exp(e); got != f.ref.Pow(e) {
					return fmt.Sprintf("Exp(%d) = %d, want %d as the first operation on the field", e, got, f.ref.Pow(e))
				}
			}
		case "log":
			for _, x := range []int{1, 2, a, b} {
				l, err := g.Log(x)
				if err != nil || f.ref.Pow(l) != x {
					return fmt.Sprintf("Log(%d) = %d, %v as the first operation on the field", x, l, err)
				}
			}
		case "multiply", "fresh-multiply":
			for _, x := range []int{a, b, 1} {
				if got := g.Multiply(x, b); got != f.ref.Mul(x, b) {
					return fmt.Sprintf("Multiply(%d,%d) = %d, want %d as the first operation on the field", x, b, got, f.ref.Mul(x, b))
				}
			}
		case "zero":
			if z := g.GetZero(); z == nil || !z.IsZero() {
				return "GetZero() is not the zero polynomial as the first operation on the field"
			}
		case "one":
			if o := g.GetOne(); o == nil || o.GetDegree() != 0 || o.GetCoefficient(0) != 1 {
				return "GetOne() is not the polynomial 1 as the first operation on the field"
			}
		case "monomial":
			m, err := g.BuildMonomial(3, a)
			if err != nil || m.GetDegree() != 3 || m.GetCoefficient(3) != a || m.EvaluateAt(2) != f.ref.Mul(a, f.ref.Mul(2, f.ref.Mul(2, 2))) {
				return fmt.Sprintf("BuildMonomial(3,%d) wrong as the first operation on the field (%v)", a, err)
			}
		case "poly-eval":
			p, err := reedsolomon.NewGenericGFPoly(g, []int{a, 1, b})
			want := f.ref.Mul(a, f.ref.Mul(3, 3)) ^ 3 ^ b
			if err != nil || p.EvaluateAt(3) != want {
				return fmt.Sprintf("EvaluateAt(3) of %d x^2 + x + %d wrong as the first operation on the field (%v)", a, b, err)
			}
		case "poly-multiply":
			p, _ := reedsolomon.NewGenericGFPoly(g, []int{1, a})
			q, _ := reedsolomon.NewGenericGFPoly(g, []int{1, b})
			m, err := p.Multiply(q)
			if err != nil || m.GetDegree() != 2 || m.GetCoefficient(0) != f.ref.Mul(a, b) || m.GetCoefficient(1) != a^b {
				return fmt.Sprintf("(x+%d)(x+%d) wrong as the first operation on the field (%v)", a, b, err)
			}
		case "encode", "decode":
			k, rr := 5, 4
			word := make([]int, k+rr)
			for i := 0; i < k; i++ {
				word[i] = (a*7 + i*3) % f.ref.Size
			}
			if op == "decode" {
				copy(word[k:], rs.Parity(f.ref, word[:k], rr))
				orig := append([]int{}, word...)
				word[1] ^= 1
				word[6] ^= b
				if err := reedsolomon.NewReedSolomonDecoder(g).Decode(word, rr); err != nil || fmt.Sprint(word) != fmt.Sprint(orig) {
					return fmt.Sprintf("Decode as the first operation on the field: %v, word %v, want %v", err, word, orig)
				}
			} else {
				if err := reedsolomon.NewReedSolomonEncoder(g).Encode(word, rr); err != nil {
					return "Encode as the first operation on the field: " + err.Error()
				}
				if want := rs.Parity(f.ref, word[:k], rr); fmt.Sprint(word[k:]) != fmt.Sprint(want) {
					return fmt.Sprintf("Encode as the first operation on the field: parity %v, long division gives %v", word[k:], want)
				}
			}
		case "string":
			if g.String() == "" {
				return "String() empty"
			}
		}
		return "OK"
	})
}

// c04Cold runs every operation as the first use of every field, one fresh process each.
func c04Cold(r *fw.Rec, fi int) {
	f := c04Fields()[fi]
	for _, op := range c04ColdOps {
		out, err := fw.RunCold("c04first", fmt.Sprintf("%d %s", fi, op))
		r.Evals(1)
		if err != nil || out != "OK" {
			r.Violation("model-mismatch", "gf:cold-start:"+op, fmt.Sprintf("%s, fresh process: %s %v", f.ref.Name, out, err), map[string]interface{}{"field": f.ref.Name, "first_operation": op})
			return
		}
		r.Tally("cold_start_first_operations")
	}
	r.Nontrivial("cold/" + f.ref.Name)
}

// c04WideParity: blocks with more than 512 check symbols (only the 10- and 12-bit fields are
// large enough) and floor(r/2) > 256 errors: every buffer sized for "a byte's worth" of errors
// is too small here.
func c04WideParity(r *fw.Rec, f c04Field) {
	rng := r.Rng
	size := f.ref.Size
	ec := 514 + rng.Intn(minInt(500, size-1-514-1))
	k := 1 + rng.Intn(minInt(200, size-1-ec))
	enc := reedsolomon.NewReedSolomonEncoder(f.lib)
	dec := reedsolomon.NewReedSolomonDecoder(f.lib)
	data := toInts(k, rng, size, rng.Intn(4))
	word, ok := c04Encode(r, f, enc, data, ec)
	if !ok {
		return
	}
	n := k + ec
	for _, e := range []int{ec / 2, 257 + rng.Intn(ec/2-256), 256, 1} {
		pos := rng.Perm(n)[:e]
		mags := make([]int, e)
		for i := range mags {
			mags[i] = 1 + rng.Intn(size-1)
		}
		if !c04Decode(r, f, dec, word, ec, pos, mags) {
			return
		}
		if e > 256 {
			r.Tally("rs_decoded_with_more_than_256_errors")
		}
	}
	r.NontrivialH(hashInts(word[:minInt(len(word), 64)], []int{k, ec}))
}

// ---- structured error patterns

// c04ZeroSyndromes: t = floor(r/2) errors whose magnitudes are chosen so that two of the r
// syndromes (any two, often the highest or the lowest) are zero although the word is damaged;
// plus the all-zero data word.  A decoder that reads too much into a vanishing syndrome (a
// "clean" shortcut, a degree taken from a normalised polynomial) fails exactly here.
func c04ZeroSyndromes(r *fw.Rec, f c04Field) {
	rng := r.Rng
	enc := reedsolomon.NewReedSolomonEncoder(f.lib)
	dec := reedsolomon.NewReedSolomonDecoder(f.lib)
	size := f.ref.Size
	for rep := 0; rep < 30; rep++ {
		ec := 4 + 2*rng.Intn(4) // 4, 6, 8, 10
		if rng.Intn(4) == 0 {
			ec++
		}
		maxK := size - 1 - ec
		if maxK < 1 {
			continue
		}
		k := 1 + rng.Intn(minInt(maxK, 40))
		data := make([]int, k)
		if rep%10 != 0 { // every tenth word is all zero
			for i := range data {
				data[i] = rng.Intn(size)
			}
		} else {
			r.Tally("rs_all_zero_data_words")
		}
		word, ok := c04Encode(r, f, enc, data, ec)
		if !ok {
			return
		}
		n, t := k+ec, ec/2
		if t < 3 {
			t = 2
		}
		if t > ec/2 {
			t = ec / 2
		}
		pos := rng.Perm(n)[:t]
		// which two syndromes stay zero
		j1, j2 := ec-1, ec-2
		switch rng.Intn(3) {
		case 1:
			j1, j2 = 0, 1
		case 2:
			j1 = rng.Intn(ec)
			j2 = (j1 + 1 + rng.Intn(ec-1)) % ec
		}
		w := func(j, p int) int { // contribution weight of an error at position p to syndrome j
			return f.ref.PowOf(f.ref.Pow((f.ref.Base+j)%(size-1)), n-1-p)
		}
		mags := make([]int, t)
		c1, c2 := 0, 0
		for i := 0; i < t-2; i++ {
			mags[i] = 1 + rng.Intn(size-1)
			c1 ^= f.ref.Mul(mags[i], w(j1, pos[i]))
			c2 ^= f.ref.Mul(mags[i], w(j2, pos[i]))
		}
		pa, pb := pos[t-2], pos[t-1]
		a11, a12, a21, a22 := w(j1, pa), w(j1, pb), w(j2, pa), w(j2, pb)
		det := f.ref.Mul(a11, a22) ^ f.ref.Mul(a12, a21)
		if det == 0 {
			continue
		}
		di := f.ref.Inv(det)
		mags[t-2] = f.ref.Mul(di, f.ref.Mul(c1, a22)^f.ref.Mul(c2, a12))
		mags[t-1] = f.ref.Mul(di, f.ref.Mul(c2, a11)^f.ref.Mul(c1, a21))
		if mags[t-2] == 0 || mags[t-1] == 0 {
			// t-2 free errors already satisfy the constraints (t == 2: no damage at all): not a t-error pattern
			continue
		}
		// self-check of the construction against the reference syndromes
		recv := append([]int{}, word...)
		for i, p := range pos {
			recv[p] ^= mags[i]
		}
		syn := rs.Syndromes(f.ref, recv, ec)
		if syn[j1] != 0 || syn[j2] != 0 {
			r.Inconclusive(fmt.Sprintf("construction: syndromes %d and %d are %d, %d, expected 0", j1, j2, syn[j1], syn[j2]))
			return
		}
		if !c04Decode(r, f, dec, word, ec, pos, mags) {
			return
		}
		r.Tally("rs_decoded_with_two_vanishing_syndromes")
		r.NontrivialH(hashInts(word, pos) ^ uint64(ec))
	}
}
