//go:build verif

package main

import (
	"fmt"

	azdec "github.com/makiuchi-d/gozxing/aztec/decoder"
	azdet "github.com/makiuchi-d/gozxing/aztec/detector"

	"verifharness/fw"
	"verifharness/ref/azref"
)

// C11 addition: ONE decoder instance (and one reader instance) used for a history of symbols
// of changing size and type - in particular full-range and compact symbols with the same
// layer count back to back.  Every symbol of the history must decode to its text.
func c11ReuseCase(r *fw.Rec) {
	rng := r.Rng
	dec := azdec.NewDecoder()
	specs := azref.AllSpecs()
	var hist []string
	prev := specs[rng.Intn(len(specs))]
	for step := 0; step < 14; step++ {
		var s azref.Spec
		switch step % 3 {
		case 1: // same layer count, other type (only layers 1..4 exist in both)
			s = azref.Spec{Compact: !prev.Compact, Layers: 1 + (prev.Layers-1)%4}
		case 2: // same spec again
			s = prev
		default:
			s = specs[rng.Intn(len(specs))]
			if rng.Bool() {
				s = specs[rng.Intn(10)] // small symbols: compact 1..4, full 1..6
			}
		}
		prev = s
		var sym *azref.Symbol
		var text []byte
		for tries := 0; tries < 30 && sym == nil; tries++ {
			maxBits := s.TotalWords()*s.WordSize()*2/3 - 8
			if maxBits < 8 {
				maxBits = 8
			}
			bits, t := azref.RandomTokens(rng, 5+rng.Intn(maxBits))
			if b, ok := azref.Build(s, bits, 3); ok {
				sym, text = b, t
			}
		}
		if sym == nil {
			continue
		}
		hist = append(hist, azSpecName(s))
		res, err := dec.Decode(azdet.NewAztecDetectorResult(azBitMatrix(sym.Matrix), nil, s.Compact, sym.DataWords, s.Layers))
		r.Evals(1)
		info := map[string]interface{}{"history": hist, "text_hex": fmt.Sprintf("%x", text)}
		if err != nil {
			r.Violation("history", "aztec.decoder:reused-instance:error", fmt.Sprintf("a reused Decoder rejected symbol %d of the history %v: %v", len(hist), hist, err), info)
			return
		}
		if res.GetText() != latin1String(string(text)) {
			r.Violation("history", "aztec.decoder:reused-instance:other-text", fmt.Sprintf("a reused Decoder read other text for symbol %d of the history %v", len(hist), hist), info)
			return
		}
		r.Tally("reused_decoder_symbols_ok")
	}
	r.Tally("reused_decoder_histories")
	r.Nontrivial("reuse|" + fmt.Sprint(hist))
}
