//go:build verif

package main

import (
	"fmt"
	"image"
	"image/color"
	"image/draw"
	"strings"

	"github.com/makiuchi-d/gozxing"

	"verifharness/fw"
)

// C16: BitMatrix / BitArray against naive [][]bool / []bool models.

func init() { fw.Register("C16", c16) }

type mmodel struct {
	w, h int
	b    [][]bool // [y][x]
}

func newMModel(w, h int) *mmodel {
	m := &mmodel{w: w, h: h, b: make([][]bool, h)}
	for y := range m.b {
		m.b[y] = make([]bool, w)
	}
	return m
}

func (m *mmodel) rot90() *mmodel {
	// counter-clockwise: new(x', y') with x' = y, y' = w-1-x
	n := newMModel(m.h, m.w)
	for y := 0; y < m.h; y++ {
		for x := 0; x < m.w; x++ {
			if m.b[y][x] {
				n.b[m.w-1-x][y] = true
			}
		}
	}
	return n
}

func (m *mmodel) rot180() *mmodel {
	n := newMModel(m.w, m.h)
	for y := 0; y < m.h; y++ {
		for x := 0; x < m.w; x++ {
			n.b[m.h-1-y][m.w-1-x] = m.b[y][x]
		}
	}
	return n
}

func (m *mmodel) str(set, unset, sep string) string {
	var sb strings.Builder
	for y := 0; y < m.h; y++ {
		for x := 0; x < m.w; x++ {
			if m.b[y][x] {
				sb.WriteString(set)
			} else {
				sb.WriteString(unset)
			}
		}
		sb.WriteString(sep)
	}
	return sb.String()
}

func (m *mmodel) enclosing() []int {
	l, t, r, b := m.w, m.h, -1, -1
	for y := 0; y < m.h; y++ {
		for x := 0; x < m.w; x++ {
			if m.b[y][x] {
				if x < l {
					l = x
				}
				if x > r {
					r = x
				}
				if y < t {
					t = y
				}
				if y > b {
					b = y
				}
			}
		}
	}
	if r < 0 {
		return nil
	}
	return []int{l, t, r - l + 1, b - t + 1}
}

func (m *mmodel) topLeft() []int {
	for y := 0; y < m.h; y++ {
		for x := 0; x < m.w; x++ {
			if m.b[y][x] {
				return []int{x, y}
			}
		}
	}
	return nil
}

func (m *mmodel) bottomRight() []int {
	for y := m.h - 1; y >= 0; y-- {
		for x := m.w - 1; x >= 0; x-- {
			if m.b[y][x] {
				return []int{x, y}
			}
		}
	}
	return nil
}

// interesting x positions: word boundaries
func edgeX(r *fw.Rand, w int) int {
	if r.Intn(3) == 0 {
		c := []int{0, 30, 31, 32, 33, 62, 63, 64, 65, 95, 96, 97, 127, 128, w - 1, w - 2}
		x := c[r.Intn(len(c))]
		if x >= 0 && x < w {
			return x
		}
	}
	return r.Intn(w)
}

func fillRandom(r *fw.Rand, m *mmodel, kind int) {
	for y := 0; y < m.h; y++ {
		for x := 0; x < m.w; x++ {
			switch kind {
			case 0:
				m.b[y][x] = r.Bool()
			case 1:
				m.b[y][x] = true
			case 2:
				m.b[y][x] = false
			case 3:
				m.b[y][x] = x%2 == 0
			case 4:
				m.b[y][x] = y%2 == 0
			case 5:
				m.b[y][x] = r.Intn(16) == 0
			}
		}
	}
	if kind == 6 { // single bit at a word boundary
		m.b[r.Intn(m.h)][edgeX(r, m.w)] = true
	}
}

func checkMatrix(bm *gozxing.BitMatrix, m *mmodel, r *fw.Rand) string {
	if bm.GetWidth() != m.w || bm.GetHeight() != m.h {
		return fmt.Sprintf("dimensions %dx%d, model %dx%d", bm.GetWidth(), bm.GetHeight(), m.w, m.h)
	}
	if bm.GetRowSize() != (m.w+31)/32 {
		return fmt.Sprintf("GetRowSize %d, model %d", bm.GetRowSize(), (m.w+31)/32)
	}
	for y := 0; y < m.h; y++ {
		for x := 0; x < m.w; x++ {
			if bm.Get(x, y) != m.b[y][x] {
				return fmt.Sprintf("Get(%d,%d)=%v, model %v", x, y, bm.Get(x, y), m.b[y][x])
			}
		}
	}
	for _, p := range [][2]int{{-1, 0}, {0, -1}, {m.w, 0}, {0, m.h}, {m.w, m.h}, {m.w + 31, 0}, {-33, -1}} {
		if bm.Get(p[0], p[1]) {
			return fmt.Sprintf("Get(%d,%d) outside the matrix is true", p[0], p[1])
		}
	}
	var reuse *gozxing.BitArray
	if r.Intn(4) == 0 {
		// a caller-supplied row that is too narrow (by a few bits: often the same number of 32-bit
		// words as the matrix row) is replaced by one of the full width
		reuse = gozxing.NewBitArray(m.w - minInt(m.w, 1+r.Intn(12)))
	} else if r.Bool() {
		reuse = gozxing.NewBitArray(m.w + r.Intn(40) + 32*r.Intn(3))
		for i := 0; i < reuse.GetSize(); i++ {
			if r.Bool() {
				reuse.Set(i)
			}
		}
	}
	for y := 0; y < m.h; y++ {
		row := bm.GetRow(y, reuse)
		if row.GetSize() < m.w {
			return fmt.Sprintf("GetRow(%d) size %d < width", y, row.GetSize())
		}
		for x := 0; x < m.w; x++ {
			if row.Get(x) != m.b[y][x] {
				return fmt.Sprintf("GetRow(%d).Get(%d)=%v, model %v", y, x, row.Get(x), m.b[y][x])
			}
		}
		// next-set walk over the row must see exactly the model's set bits
		nxt := row.GetNextSet(0)
		for x := 0; x < m.w; x++ {
			if m.b[y][x] {
				if nxt != x {
					return fmt.Sprintf("GetRow(%d).GetNextSet walk: got %d, model %d", y, nxt, x)
				}
				nxt = row.GetNextSet(x + 1)
			}
		}
		if row.GetSize() == m.w && nxt != m.w {
			return fmt.Sprintf("GetRow(%d).GetNextSet after last set bit: got %d, model %d", y, nxt, m.w)
		}
		// a caller-supplied row that is wider than the matrix comes back cleared beyond the width
		for x := m.w; x < row.GetSize(); x++ {
			if row.Get(x) {
				return fmt.Sprintf("GetRow(%d) into a reused row of size %d: bit %d beyond the matrix width %d is set (stale content of the buffer)", y, row.GetSize(), x, m.w)
			}
		}
	}
	if got, want := bm.GetEnclosingRectangle(), m.enclosing(); !intsEq(got, want) {
		return fmt.Sprintf("GetEnclosingRectangle %v, model %v", got, want)
	}
	// answers handed out by earlier queries (on this or another matrix) still say what they said
	for _, k := range c16Kept {
		if !intsEq(k.got, k.want) {
			return fmt.Sprintf("the slice returned earlier by %s (%v then) reads %v after later queries", k.what, k.want, k.got)
		}
	}
	if tl := bm.GetTopLeftOnBit(); tl != nil {
		c16Kept = append(c16Kept, c16KeptAnswer{"GetTopLeftOnBit", tl, append([]int{}, tl...)})
	}
	if br := bm.GetBottomRightOnBit(); br != nil {
		c16Kept = append(c16Kept, c16KeptAnswer{"GetBottomRightOnBit", br, append([]int{}, br...)})
	}
	if er := bm.GetEnclosingRectangle(); er != nil {
		c16Kept = append(c16Kept, c16KeptAnswer{"GetEnclosingRectangle", er, append([]int{}, er...)})
	}
	if len(c16Kept) > 12 {
		c16Kept = c16Kept[len(c16Kept)-12:]
	}
	if got, want := bm.GetTopLeftOnBit(), m.topLeft(); !intsEq(got, want) {
		return fmt.Sprintf("GetTopLeftOnBit %v, model %v", got, want)
	}
	if got, want := bm.GetBottomRightOnBit(), m.bottomRight(); !intsEq(got, want) {
		return fmt.Sprintf("GetBottomRightOnBit %v, model %v", got, want)
	}
	if got, want := bm.String(), m.str("X ", "  ", "\n"); got != want {
		return "String() differs from model"
	}
	if got, want := bm.ToString("#", "."), m.str("#", ".", "\n"); got != want {
		return "ToString(#,.) differs from model"
	}
	if got, want := bm.ToStringWithLineSeparator("11", "0", "\r\n"), m.str("11", "0", "\r\n"); got != want {
		return "ToStringWithLineSeparator differs from model"
	}
	if bm.Bounds() != image.Rect(0, 0, m.w, m.h) {
		return fmt.Sprintf("Bounds %v", bm.Bounds())
	}
	if bm.ColorModel() != color.GrayModel {
		return "ColorModel is not GrayModel"
	}
	for i := 0; i < 8; i++ {
		x, y := edgeX(r, m.w), r.Intn(m.h)
		g, ok := bm.At(x, y).(color.Gray)
		want := uint8(255)
		if m.b[y][x] {
			want = 0
		}
		if !ok || g.Y != want {
			return fmt.Sprintf("At(%d,%d)=%v, model gray %d", x, y, bm.At(x, y), want)
		}
		// whatever other pixel accessors the image view offers say the same colour as At
		if v, ok := interface{}(bm).(interface {
			RGBA64At(x, y int) color.RGBA64
		}); ok {
			cr, cg, cb, ca := bm.At(x, y).RGBA()
			if c := v.RGBA64At(x, y); uint32(c.R) != cr || uint32(c.G) != cg || uint32(c.B) != cb || uint32(c.A) != ca {
				return fmt.Sprintf("RGBA64At(%d,%d)=%v, At says %v", x, y, c, bm.At(x, y))
			}
		}
	}
	// the image view as the standard library consumes it: drawn over a white page and copied into a
	// colour image it shows the model's picture (small matrices only: a draw costs w*h)
	if m.w*m.h <= 1200 && r.Intn(6) == 0 {
		page := image.NewGray(bm.Bounds())
		draw.Draw(page, page.Bounds(), image.White, image.Point{}, draw.Src)
		draw.Draw(page, page.Bounds(), bm, image.Point{}, draw.Over)
		cp := image.NewNRGBA(bm.Bounds())
		draw.Draw(cp, cp.Bounds(), bm, image.Point{}, draw.Src)
		for y := 0; y < m.h; y++ {
			for x := 0; x < m.w; x++ {
				want := uint8(255)
				if m.b[y][x] {
					want = 0
				}
				if got := page.GrayAt(x, y).Y; got != want {
					return fmt.Sprintf("image view drawn over a white page: pixel (%d,%d) = %d, model %d", x, y, got, want)
				}
				if got := cp.NRGBAAt(x, y); got != (color.NRGBA{want, want, want, 255}) {
					return fmt.Sprintf("image view copied into an NRGBA image: pixel (%d,%d) = %v, model gray %d opaque", x, y, got, want)
				}
			}
		}
	}
	return ""
}

func paddingDirty(bm *gozxing.BitMatrix) bool {
	w := bm.GetWidth()
	if w%32 == 0 {
		return false
	}
	for y := 0; y < bm.GetHeight(); y++ {
		row := bm.GetRow(y, nil)
		words := row.GetBitArray()
		last := words[(w-1)/32]
		if last>>uint(w%32) != 0 {
			return true
		}
	}
	return false
}

func c16Matrix(r *fw.Rec, w, h int) {
	rng := r.Rng
	m := newMModel(w, h)
	fillRandom(rng, m, rng.Intn(7))
	var bm *gozxing.BitMatrix
	var err error
	var trace []string
	var keptRow *gozxing.BitArray
	var keptRowModel []bool
	if rng.Bool() {
		bm, err = gozxing.ParseBoolMapToBitMatrix(m.b)
		trace = append(trace, "ParseBoolMap")
	} else {
		// rows may be separated by any run of line-break characters; blank lines are not rows
		sep := []string{"\n", "\n", "\r\n", "\n\n", "\r", "\n\r\n"}[rng.Intn(6)]
		str := m.str("X", " ", sep)
		if rng.Intn(4) == 0 {
			str = sep + str
		}
		if rng.Intn(4) == 0 {
			str = strings.TrimRight(str, "\r\n")
		}
		if sep != "\n" {
			r.Tally("parsed_with_multi_character_line_breaks")
		}
		bm, err = gozxing.ParseStringToBitMatrix(str, "X", " ")
		trace = append(trace, fmt.Sprintf("ParseString(sep=%q)", sep))
	}
	fail := func(msg string) {
		op := trace[len(trace)-1]
		if i := strings.IndexAny(op, "( "); i > 0 {
			op = op[:i]
		}
		r.Violation("model-mismatch", "bitmatrix:"+op+":"+firstWords(msg, 1), fmt.Sprintf("BitMatrix %dx%d after %v: %s", w, h, trace, msg),
			map[string]interface{}{"w": w, "h": h, "ops": trace})
	}
	if err != nil {
		fail("constructor error: " + err.Error())
		return
	}
	if s := checkMatrix(bm, m, rng); s != "" {
		fail(s)
		return
	}
	nops := 40
	for step := 0; step < nops; step++ {
		switch op := rng.Intn(16); op {
		case 0, 1:
			x, y := edgeX(rng, m.w), rng.Intn(m.h)
			bm.Set(x, y)
			m.b[y][x] = true
			trace = append(trace, fmt.Sprintf("Set(%d,%d)", x, y))
		case 2:
			x, y := edgeX(rng, m.w), rng.Intn(m.h)
			bm.Unset(x, y)
			m.b[y][x] = false
			trace = append(trace, fmt.Sprintf("Unset(%d,%d)", x, y))
		case 3:
			x, y := edgeX(rng, m.w), rng.Intn(m.h)
			bm.Flip(x, y)
			m.b[y][x] = !m.b[y][x]
			trace = append(trace, fmt.Sprintf("Flip(%d,%d)", x, y))
		case 4:
			bm.FlipAll()
			for y := range m.b {
				for x := range m.b[y] {
					m.b[y][x] = !m.b[y][x]
				}
			}
			trace = append(trace, "FlipAll")
		case 5:
			if rng.Intn(3) == 0 {
				bm.Clear()
				for y := range m.b {
					for x := range m.b[y] {
						m.b[y][x] = false
					}
				}
				trace = append(trace, "Clear")
			}
		case 6, 7:
			l, t := edgeX(rng, m.w), rng.Intn(m.h)
			rw, rh := 1+rng.Intn(m.w-l), 1+rng.Intn(m.h-t)
			if rng.Intn(3) == 0 {
				rw = m.w - l
			}
			trace = append(trace, fmt.Sprintf("SetRegion(%d,%d,%d,%d)", l, t, rw, rh))
			if e := bm.SetRegion(l, t, rw, rh); e != nil {
				fail("SetRegion with an in-range rectangle failed: " + e.Error())
				return
			}
			for y := t; y < t+rh; y++ {
				for x := l; x < l+rw; x++ {
					m.b[y][x] = true
				}
			}
		case 8:
			mask := newMModel(m.w, m.h)
			fillRandom(rng, mask, rng.Intn(7))
			mb, _ := gozxing.ParseBoolMapToBitMatrix(mask.b)
			if rng.Intn(4) == 0 {
				mb.FlipAll()
				for y := range mask.b {
					for x := range mask.b[y] {
						mask.b[y][x] = !mask.b[y][x]
					}
				}
			}
			trace = append(trace, "Xor(mask)")
			if e := bm.Xor(mb); e != nil {
				fail("Xor with an equally sized matrix failed: " + e.Error())
				return
			}
			for y := range m.b {
				for x := range m.b[y] {
					m.b[y][x] = m.b[y][x] != mask.b[y][x]
				}
			}
		case 9:
			y := rng.Intn(m.h)
			bs := make([]bool, m.w)
			for i := range bs {
				bs[i] = rng.Bool()
			}
			if rng.Intn(3) == 0 {
				// a row longer than the matrix is wide: SetRow takes its first GetRowSize() words
				// and nothing else; the bits between the width and the word boundary stay clear,
				// the surplus words are random
				full := 32 * ((m.w + 31) / 32)
				wide := make([]bool, full+1+rng.Intn(100))
				copy(wide, bs)
				for i := full; i < len(wide); i++ {
					wide[i] = rng.Bool()
				}
				bm.SetRow(y, rowFromBools(wide))
				trace = append(trace, fmt.Sprintf("SetRow(%d, %d-bit row)", y, len(wide)))
				r.Tally("setrow_with_wider_row")
			} else {
				bm.SetRow(y, rowFromBools(bs))
				trace = append(trace, fmt.Sprintf("SetRow(%d)", y))
			}
			copy(m.b[y], bs)
		case 10:
			// copy a row through GetRow/SetRow
			y1, y2 := rng.Intn(m.h), rng.Intn(m.h)
			row := bm.GetRow(y1, nil)
			bm.SetRow(y2, row)
			copy(m.b[y2], m.b[y1])
			trace = append(trace, fmt.Sprintf("SetRow(%d,GetRow(%d))", y2, y1))
			// the row handed out is the caller's copy: it keeps these bits whatever happens to the matrix
			keptRow, keptRowModel = row, append([]bool{}, m.b[y1]...)
		case 11, 12:
			bm.Rotate180()
			m = m.rot180()
			trace = append(trace, "Rotate180")
		case 13:
			bm.Rotate90()
			m = m.rot90()
			trace = append(trace, "Rotate90")
		case 14:
			sep := []string{"\n", "\r\n", "\n\n", "\r"}[rng.Intn(4)]
			// cell strings of equal and of different lengths (neither a prefix of the other)
			pair := [][2]string{{"1", "0"}, {"1", "0"}, {"#", "  "}, {"1", "00"}, {"XX", "."}, {"[]", "  "}, {"x", "-+-"}}[rng.Intn(7)]
			s := bm.ToStringWithLineSeparator(pair[0], pair[1], sep)
			if sep == "\n" && s != bm.ToString(pair[0], pair[1]) {
				trace = append(trace, "ToString")
				fail("ToString differs from ToStringWithLineSeparator with \\n")
				return
			}
			if want := m.str(pair[0], pair[1], sep); s != want {
				trace = append(trace, "ToString")
				fail(fmt.Sprintf("ToStringWithLineSeparator(%q, %q, %q) = %q, cell by cell %q", pair[0], pair[1], sep, trunc(s, 80), trunc(want, 80)))
				return
			}
			nb, e := gozxing.ParseStringToBitMatrix(s, pair[0], pair[1])
			trace = append(trace, fmt.Sprintf("Parse(ToString sep=%q)", sep))
			if e != nil {
				fail("Parse(ToString(m)) failed: " + e.Error())
				return
			}
			bm = nb
		case 15:
			// reversed rows via BitArray.Reverse: mirror the matrix left-right
			for y := 0; y < m.h; y++ {
				row := bm.GetRow(y, nil)
				row.Reverse()
				bm.SetRow(y, row)
				for i, j := 0, m.w-1; i < j; i, j = i+1, j-1 {
					m.b[y][i], m.b[y][j] = m.b[y][j], m.b[y][i]
				}
			}
			trace = append(trace, "ReverseRows")
		}
		if s := checkMatrix(bm, m, rng); s != "" {
			fail(s)
			return
		}
		if keptRow != nil {
			bad := keptRow.GetSize() != len(keptRowModel)
			for i := 0; !bad && i < len(keptRowModel); i++ {
				bad = keptRow.Get(i) != keptRowModel[i]
			}
			if bad {
				trace = append(trace, "(row returned by an earlier GetRow re-read)")
				fail("a row returned by an earlier GetRow(y, nil) changed through later operations on the matrix")
				return
			}
			r.Tally("rows_from_getrow_rechecked_after_later_operations")
		}
		r.Evals(1)
	}
	if paddingDirty(bm) {
		r.Tally("matrix_padding_bits_nonzero_at_end")
	}
	r.Nontrivial(fmt.Sprintf("m/%d/%d/%s", w, h, strings.Join(trace, ",")))
	if w == 64 || w == 33 {
		r.Sample(map[string]interface{}{"kind": "BitMatrix", "w": w, "h": h, "ops": trace})
	}
	r.Tally("matrix_sequences")
	if w%32 == 0 {
		r.Tally("matrix_sequences_width_multiple_of_32")
	}
}

// ---- BitArray ----

func checkArray(a *gozxing.BitArray, m []bool, r *fw.Rand) string {
	n := len(m)
	if a.GetSize() != n {
		return fmt.Sprintf("GetSize %d, model %d", a.GetSize(), n)
	}
	if a.GetSizeInBytes() != (n+7)/8 {
		return fmt.Sprintf("GetSizeInBytes %d, model %d", a.GetSizeInBytes(), (n+7)/8)
	}
	for i := 0; i < n; i++ {
		if a.Get(i) != m[i] {
			return fmt.Sprintf("Get(%d)=%v, model %v", i, a.Get(i), m[i])
		}
	}
	for from := 0; from <= n+1; from++ {
		ws, wu := n, n
		for i := from; i < n; i++ {
			if m[i] {
				ws = i
				break
			}
		}
		for i := from; i < n; i++ {
			if !m[i] {
				wu = i
				break
			}
		}
		if n == 0 && from == 0 {
			// size 0: from >= size
		}
		if g := a.GetNextSet(from); g != ws {
			return fmt.Sprintf("GetNextSet(%d)=%d, model %d", from, g, ws)
		}
		if g := a.GetNextUnset(from); g != wu {
			return fmt.Sprintf("GetNextUnset(%d)=%d, model %d", from, g, wu)
		}
	}
	for k := 0; k < 12; k++ {
		s := r.Intn(n + 1)
		e := s + r.Intn(n-s+1)
		if k == 0 {
			s, e = 0, n
		}
		for _, v := range []bool{false, true} {
			want := true
			for i := s; i < e; i++ {
				if m[i] != v {
					want = false
				}
			}
			got, err := a.IsRange(s, e, v)
			if err != nil || got != want {
				return fmt.Sprintf("IsRange(%d,%d,%v)=%v,%v, model %v", s, e, v, got, err, want)
			}
		}
	}
	nb := (n + 7) / 8
	out := make([]byte, nb+2)
	out[0], out[nb+1] = 0xA5, 0x5A
	a.ToBytes(0, out, 1, nb)
	if out[0] != 0xA5 || out[nb+1] != 0x5A {
		return "ToBytes wrote outside [offset, offset+numBytes)"
	}
	for i := 0; i < nb; i++ {
		var want byte
		for j := 0; j < 8; j++ {
			if 8*i+j < n && m[8*i+j] {
				want |= 1 << uint(7-j)
			}
		}
		if out[1+i] != want {
			return fmt.Sprintf("ToBytes byte %d = %#02x, model %#02x", i, out[1+i], want)
		}
	}
	var sb strings.Builder
	for i := 0; i < n; i++ {
		if i%8 == 0 {
			sb.WriteByte(' ')
		}
		if m[i] {
			sb.WriteByte('X')
		} else {
			sb.WriteByte('.')
		}
	}
	if a.String() != sb.String() {
		return "String() differs from model"
	}
	return ""
}

func makeArrayPair(rng *fw.Rand, n int, ctor int) (*gozxing.BitArray, []bool) {
	m := make([]bool, n)
	var a *gozxing.BitArray
	if ctor == 0 {
		a = gozxing.NewBitArray(n)
		if rng.Bool() {
			for i := range m {
				if rng.Bool() {
					m[i] = true
					a.Set(i)
				}
			}
		}
	} else {
		a = gozxing.NewEmptyBitArray()
		for i := range m {
			m[i] = rng.Bool()
			a.AppendBit(m[i])
		}
	}
	return a, m
}

func c16Array(r *fw.Rec, n, ctor int) {
	rng := r.Rng
	a, m := makeArrayPair(rng, n, ctor)
	var keptArg *gozxing.BitArray
	var keptArgModel []bool
	trace := []string{fmt.Sprintf("ctor%d(%d)", ctor, n)}
	fail := func(msg string) {
		op := trace[len(trace)-1]
		if i := strings.IndexAny(op, "( "); i > 0 {
			op = op[:i]
		}
		r.Violation("model-mismatch", "bitarray:"+op+":"+firstWords(msg, 1), fmt.Sprintf("BitArray after %v: %s", trace, msg),
			map[string]interface{}{"size": n, "ctor": ctor, "ops": trace})
	}
	if s := checkArray(a, m, rng); s != "" {
		fail(s)
		return
	}
	for step := 0; step < 40; step++ {
		n := len(m)
		switch op := rng.Intn(12); op {
		case 0:
			if n > 0 {
				i := edgeX(rng, n)
				a.Set(i)
				m[i] = true
				trace = append(trace, fmt.Sprintf("Set(%d)", i))
			}
		case 1:
			if n > 0 {
				i := edgeX(rng, n)
				a.Flip(i)
				m[i] = !m[i]
				trace = append(trace, fmt.Sprintf("Flip(%d)", i))
			}
		case 2:
			if n > 0 {
				i := 32 * rng.Intn((n+31)/32)
				v := uint32(rng.Uint64())
				if rng.Intn(4) == 0 {
					v = 0xFFFFFFFF
				}
				if i+32 > n { // keep bits beyond size clear: only in-range bits are written
					v &= (1 << uint(n-i)) - 1
				}
				a.SetBulk(i, v)
				for j := 0; j < 32 && i+j < n; j++ {
					m[i+j] = v>>uint(j)&1 == 1
				}
				trace = append(trace, fmt.Sprintf("SetBulk(%d,%#x)", i, v))
			}
		case 3:
			s := rng.Intn(n + 1)
			e := s + rng.Intn(n-s+1)
			if rng.Intn(3) == 0 {
				e = n
			}
			trace = append(trace, fmt.Sprintf("SetRange(%d,%d)", s, e))
			if err := a.SetRange(s, e); err != nil {
				fail("SetRange with in-range arguments failed: " + err.Error())
				return
			}
			for i := s; i < e; i++ {
				m[i] = true
			}
		case 4:
			if rng.Intn(4) == 0 {
				a.Clear()
				for i := range m {
					m[i] = false
				}
				trace = append(trace, "Clear")
			}
		case 5:
			if n < 260 {
				v := rng.Bool()
				a.AppendBit(v)
				m = append(m, v)
				trace = append(trace, fmt.Sprintf("AppendBit(%v)", v))
			}
		case 6:
			if n < 260 {
				nb := rng.Intn(33)
				v := int(rng.Uint64() & 0xFFFFFFFF)
				if rng.Intn(4) == 0 {
					v = int(int32(uint32(v))) // negative values: low bits count
				}
				switch rng.Intn(6) {
				case 0: // all bits clear: the array still has to grow
					v = 0
					r.Tally("appendbits_all_zero")
				case 1:
					v = 0xFFFFFFFF
				}
				trace = append(trace, fmt.Sprintf("AppendBits(%#x,%d)", v, nb))
				if err := a.AppendBits(v, nb); err != nil {
					fail("AppendBits with 0..32 bits failed: " + err.Error())
					return
				}
				for i := nb - 1; i >= 0; i-- {
					m = append(m, (uint64(v)>>uint(i))&1 == 1)
				}
			}
		case 7:
			if n < 130 && rng.Intn(4) == 0 {
				// the array appended to itself: the argument is a snapshot of the receiver
				a.AppendBitArray(a)
				m = append(m, append([]bool{}, m...)...)
				trace = append(trace, "AppendBitArray(itself)")
				r.Tally("array_appended_to_itself")
			} else if n < 260 {
				on := rng.Intn(70)
				o, om := makeArrayPair(rng, on, rng.Intn(2))
				a.AppendBitArray(o)
				m = append(m, om...)
				trace = append(trace, fmt.Sprintf("AppendBitArray(size %d)", on))
				// the argument stays the caller's own array: what is done to the receiver later
				// does not show in it (checked after every later step)
				keptArg, keptArgModel = o, om
			}
		case 8:
			octor := rng.Intn(2)
			o, om := makeArrayPair(rng, n, octor)
			trace = append(trace, fmt.Sprintf("Xor(ctor%d size %d)", octor, n))
			if err := a.Xor(o); err != nil {
				fail("Xor with an equally sized array failed: " + err.Error())
				return
			}
			for i := range m {
				m[i] = m[i] != om[i]
			}
		case 9, 10:
			a.Reverse()
			for i, j := 0, n-1; i < j; i, j = i+1, j-1 {
				m[i], m[j] = m[j], m[i]
			}
			trace = append(trace, "Reverse")
		case 11:
			if n > 0 {
				// ToBytes from any bit offset (byte-aligned or not) in the middle
				off := 8 * rng.Intn((n+7)/8)
				if rng.Bool() {
					off = rng.Intn(n)
				}
				nb := rng.Intn((n-off)/8 + 1)
				buf := make([]byte, nb)
				a.ToBytes(off, buf, 0, nb)
				for i := 0; i < nb; i++ {
					var want byte
					for j := 0; j < 8; j++ {
						if m[off+8*i+j] {
							want |= 1 << uint(7-j)
						}
					}
					if buf[i] != want {
						trace = append(trace, fmt.Sprintf("ToBytes(%d,%d)", off, nb))
						fail(fmt.Sprintf("ToBytes from bit offset %d: byte %d = %#02x, model %#02x", off, i, buf[i], want))
						return
					}
				}
			}
		}
		if s := checkArray(a, m, rng); s != "" {
			fail(s)
			return
		}
		if keptArg != nil {
			bad := keptArg.GetSize() != len(keptArgModel)
			for i := 0; !bad && i < len(keptArgModel); i++ {
				bad = keptArg.Get(i) != keptArgModel[i]
			}
			if bad {
				trace = append(trace, "(argument of an earlier AppendBitArray re-read)")
				fail("an array that was the ARGUMENT of an earlier AppendBitArray changed through later operations on the receiver")
				return
			}
		}
		r.Evals(1)
	}
	if keptArg != nil {
		// and it is still a whole array of its own: a bit appended to it is the bit appended
		keptArg.AppendBit(false)
		if keptArg.GetSize() != len(keptArgModel)+1 || keptArg.Get(len(keptArgModel)) {
			trace = append(trace, "(argument of an earlier AppendBitArray).AppendBit(false)")
			fail("AppendBit(false) on an array that was the argument of an earlier AppendBitArray reads back as set")
			return
		}
		r.Tally("arguments_of_append_rechecked_after_later_operations")
	}
	r.Nontrivial(fmt.Sprintf("a/%d/%d/%s", n, ctor, strings.Join(trace, ",")))
	if n == 64 || n == 0 {
		r.Sample(map[string]interface{}{"kind": "BitArray", "ops": trace})
	}
	r.Tally("array_sequences")
}

// c16Kept: the last few slices returned by the corner / rectangle queries, with a copy of what
// they said when they were returned.
type c16KeptAnswer struct {
	what      string
	got, want []int
}

var c16Kept []c16KeptAnswer

func c16(c *fw.Ctx) {
	c.Rule("every BitMatrix shape w in 1..130 x h in 1..8 (all 1040, exhaustive) and every BitArray size 0..200 from both constructors, each with N random operation sequences of 40 steps from the exported API (in-range arguments, word-boundary-biased positions); full state and every query compared with a [][]bool / []bool model after every step; each transforming operation also as the first call of its kind in a fresh process (9 sizes on and off the word boundary); a case is non-trivial when all 40 steps ran, distinct = distinct (shape, operation trace)")
	c.Assume("the models in worker/c16.go are the specification of a plain bit container (Get outside the matrix is false, as the Go port documents)")
	nseq := c.Pick(20, 1200)
	for w := 1; w <= 130; w++ {
		for h := 1; h <= 8; h++ {
			for k := 0; k < nseq; k++ {
				w, h := w, h
				c.Run(fmt.Sprintf("m/%d/%d/%d", w, h, k), func(r *fw.Rec) {
					c16Matrix(r, w, h)
				})
			}
		}
	}
	c.Exhaustive("BitMatrix shapes 1..130 x 1..8")
	aseq := c.Pick(30, 1600)
	for n := 0; n <= 200; n++ {
		for ctor := 0; ctor < 2; ctor++ {
			for k := 0; k < aseq; k++ {
				n, ctor := n, ctor
				c.Run(fmt.Sprintf("a/%d/%d/%d", n, ctor, k), func(r *fw.Rec) {
					c16Array(r, n, ctor)
				})
			}
		}
	}
	c.Exhaustive("BitArray sizes 0..200 x both constructors")
	// sizes around the larger powers of two (row sizes of 8, 32 and 128 words and their neighbours)
	for _, n := range []int{255, 256, 257, 1023, 1024, 1025, 4095, 4096, 4097} {
		for k := 0; k < c.Pick(4, 40); k++ {
			n, k := n, k
			c.Run(fmt.Sprintf("m-large/%d/%d", n, k), func(r *fw.Rec) {
				c16Matrix(r, n, []int{1, 2, 33, 3}[k%4])
				r.Tally("large_matrix_sequences")
			})
			c.Run(fmt.Sprintf("m-tall/%d/%d", n, k), func(r *fw.Rec) {
				c16Matrix(r, []int{1, 31, 32, 33}[k%4], n/[]int{1, 8, 16, 4}[k%4])
				r.Tally("large_matrix_sequences")
			})
			c.Run(fmt.Sprintf("a-large/%d/%d", n, k), func(r *fw.Rec) {
				c16Array(r, n, k%2)
				r.Tally("large_array_sequences")
			})
		}
	}
	c.Floor("large_matrix_sequences", 60)
	c.Floor("large_array_sequences", 30)
	// every transforming operation as the first call of its kind in a fresh process
	for _, op := range c16ColdMatrixOps {
		op := op
		c.Run("cold/matrix/"+op, func(r *fw.Rec) { c16Cold(r, true, op) })
	}
	for _, op := range c16ColdArrayOps {
		op := op
		c.Run("cold/array/"+op, func(r *fw.Rec) { c16Cold(r, false, op) })
	}
	c.Floor("cold_start_first_operations", 9*16)
	c.Floor("matrix_sequences", int64(1040*nseq*9/10))
	c.Floor("array_sequences", int64(402*aseq*9/10))
	c.Floor("setrow_with_wider_row", 500)
	c.Floor("array_appended_to_itself", 200)
	c.Floor("arguments_of_append_rechecked_after_later_operations", 2000)
	c.Floor("appendbits_all_zero", 500)
	c.Floor("parsed_with_multi_character_line_breaks", 300)
}
