package qrref

// Mask evaluation (ISO 18004:2006 8.8.2 / 2015 7.8.3, Table 11).
//
//   N1 = 3   adjacent modules in row/column in same colour, run of 5+i: N1+i
//   N2 = 3   block of modules in same colour, m x n: N2*(m-1)*(n-1)
//            (equivalently: N2 for every 2x2 same-colour window)
//   N3 = 40  1:1:3:1:1 (dark:light:dark:light:dark) pattern in row/column,
//            preceded or followed by a light area 4 modules wide
//   N4 = 10  dark proportion 50 +/- (5k)% .. 50 +/- (5(k+1))%: N4*k
//
// The N3 wording is ambiguous in two ways (does the quiet zone, which is
// light and 4 modules wide by definition, count as the light area; does a
// pattern with light on both sides score once or twice).  The standard gives
// no worked example that settles either, so N3 -- and therefore the total
// and the mask choice -- is a don't-care between these readings.
// PenaltyScore / PenaltyParts take the strictest in-symbol reading
// (N3Reading{}): each position where the 7 modules 1011101 occur scores N3
// once if the 4 modules before it or the 4 modules after it all lie inside
// the symbol and are light.  PenaltyN3 evaluates any of the four readings.

// PenaltyParts returns the four feature scores separately.
func PenaltyParts(m [][]bool) (n1, n2, n3, n4 int) {
	size := len(m)
	get := func(x, y int, transpose bool) bool {
		if transpose {
			return m[x][y]
		}
		return m[y][x]
	}
	for _, tr := range []bool{false, true} {
		for a := 0; a < size; a++ {
			// N1
			run := 0
			for b := 0; b < size; b++ {
				if b > 0 && get(b, a, tr) == get(b-1, a, tr) {
					run++
				} else {
					run = 1
				}
				if run == 5 {
					n1 += 3
				} else if run > 5 {
					n1++
				}
			}
		}
	}
	dark := 0
	for y := 0; y < size; y++ {
		for x := 0; x < size; x++ {
			if m[y][x] {
				dark++
			}
			if x+1 < size && y+1 < size && m[y][x] == m[y][x+1] && m[y][x] == m[y+1][x] && m[y][x] == m[y+1][x+1] {
				n2 += 3
			}
		}
	}
	n3 = PenaltyN3(m, N3Reading{})
	total := size * size
	dev := 20*dark - 10*total // |pct-50|/5 = |20*dark-10*total| / total
	if dev < 0 {
		dev = -dev
	}
	n4 = 10 * (dev / total)
	return
}

// PenaltyScore returns N1+N2+N3+N4 penalty points of a symbol.
func PenaltyScore(m [][]bool) int {
	a, b, c, d := PenaltyParts(m)
	return a + b + c + d
}

// N3Reading selects an interpretation of the N3 rule.
type N3Reading struct {
	// QuietZoneLight: modules outside the symbol count as light (so a
	// finder-like run touching or near the edge is "followed by a light
	// area"); otherwise all 4 light modules must lie inside the symbol.
	QuietZoneLight bool
	// CountBothSides: a run with a 4-module light area on both sides scores
	// 2*N3; otherwise N3 once per run.
	CountBothSides bool
}

// PenaltyN3 returns the N3 feature score under the given reading.
func PenaltyN3(m [][]bool, r N3Reading) int {
	size := len(m)
	n3 := 0
	for _, tr := range []bool{false, true} {
		// dark(b,a): module b of line a (row a, or column a when transposed); false outside the symbol
		dark := func(b, a int) bool {
			if b < 0 || b >= size {
				return false
			}
			if tr {
				return m[b][a]
			}
			return m[a][b]
		}
		light4 := func(from, a int) bool {
			for k := from; k < from+4; k++ {
				if (k < 0 || k >= size) && !r.QuietZoneLight {
					return false
				}
				if dark(k, a) {
					return false
				}
			}
			return true
		}
		for a := 0; a < size; a++ {
			for b := 0; b+7 <= size; b++ {
				if !(dark(b, a) && !dark(b+1, a) && dark(b+2, a) && dark(b+3, a) &&
					dark(b+4, a) && !dark(b+5, a) && dark(b+6, a)) {
					continue
				}
				before, after := light4(b-4, a), light4(b+7, a)
				switch {
				case before && after && r.CountBothSides:
					n3 += 80
				case before || after:
					n3 += 40
				}
			}
		}
	}
	return n3
}
