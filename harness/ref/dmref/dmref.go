// Package dmref is an independent reference model of Data Matrix ECC 200
// (ISO/IEC 16022).  It is written from the standard (Table 7 symbol
// attributes, Annex F placement pseudo-code, Annex A/E interleaving, the
// 253-state and 255-state randomising algorithms, and clause 5.2 encodation
// schemes) and shares no code or tables with the library under test.  It is
// deliberately naive: clarity over speed.
package dmref

import (
	"verifharness/ref/gf"
	"verifharness/ref/rs"
)

// Symbol is one row of ISO/IEC 16022 Table 7.
type Symbol struct {
	Rows, Cols             int // full symbol size including finder and clock tracks
	RegionRows, RegionCols int // size of one data region (without finder/clock)
	HRegions, VRegions     int // number of data regions horizontally / vertically
	DataCW, ECCW, Blocks   int // total data codewords, total error codewords, interleaved RS blocks
	Rect                   bool
}

// table7 in the order Symbols() returns it: DataCW ascending, square before
// rectangle on ties:
//
//	10x10(3) 12x12(5) 8x18(5) 14x14(8) 8x32(10) 16x16(12) 12x26(16) 18x18(18)
//	20x20(22) 12x36(22) 22x22(30) 16x36(32) 24x24(36) 26x26(44) 16x48(49)
//	32x32(62) 36x36(86) 40x40(114) 44x44(144) 48x48(174) 52x52(204) 64x64(280)
//	72x72(368) 80x80(456) 88x88(576) 96x96(696) 104x104(816) 120x120(1050)
//	132x132(1304) 144x144(1558)
var table7 = []Symbol{
	{10, 10, 8, 8, 1, 1, 3, 5, 1, false},
	{12, 12, 10, 10, 1, 1, 5, 7, 1, false},
	{8, 18, 6, 16, 1, 1, 5, 7, 1, true},
	{14, 14, 12, 12, 1, 1, 8, 10, 1, false},
	{8, 32, 6, 14, 2, 1, 10, 11, 1, true},
	{16, 16, 14, 14, 1, 1, 12, 12, 1, false},
	{12, 26, 10, 24, 1, 1, 16, 14, 1, true},
	{18, 18, 16, 16, 1, 1, 18, 14, 1, false},
	{20, 20, 18, 18, 1, 1, 22, 18, 1, false},
	{12, 36, 10, 16, 2, 1, 22, 18, 1, true},
	{22, 22, 20, 20, 1, 1, 30, 20, 1, false},
	{16, 36, 14, 16, 2, 1, 32, 24, 1, true},
	{24, 24, 22, 22, 1, 1, 36, 24, 1, false},
	{26, 26, 24, 24, 1, 1, 44, 28, 1, false},
	{16, 48, 14, 22, 2, 1, 49, 28, 1, true},
	{32, 32, 14, 14, 2, 2, 62, 36, 1, false},
	{36, 36, 16, 16, 2, 2, 86, 42, 1, false},
	{40, 40, 18, 18, 2, 2, 114, 48, 1, false},
	{44, 44, 20, 20, 2, 2, 144, 56, 1, false},
	{48, 48, 22, 22, 2, 2, 174, 68, 1, false},
	{52, 52, 24, 24, 2, 2, 204, 84, 2, false},
	{64, 64, 14, 14, 4, 4, 280, 112, 2, false},
	{72, 72, 16, 16, 4, 4, 368, 144, 4, false},
	{80, 80, 18, 18, 4, 4, 456, 192, 4, false},
	{88, 88, 20, 20, 4, 4, 576, 224, 4, false},
	{96, 96, 22, 22, 4, 4, 696, 272, 4, false},
	{104, 104, 24, 24, 4, 4, 816, 336, 6, false},
	{120, 120, 18, 18, 6, 6, 1050, 408, 6, false},
	{132, 132, 20, 20, 6, 6, 1304, 496, 8, false},
	{144, 144, 22, 22, 6, 6, 1558, 620, 10, false},
}

// Symbols returns the 30 ECC 200 symbol sizes, sorted by DataCW ascending
// with the square size before the rectangular one on ties (see table7).
func Symbols() []Symbol {
	out := make([]Symbol, len(table7))
	copy(out, table7)
	return out
}

// BySize returns the symbol with the given full size.
func BySize(rows, cols int) (Symbol, bool) {
	for _, s := range table7 {
		if s.Rows == rows && s.Cols == cols {
			return s, true
		}
	}
	return Symbol{}, false
}

// BlockDataCW is the number of data codewords in RS block b.  Data codeword
// i (0-based) belongs to block i mod Blocks, so the first DataCW mod Blocks
// blocks are one longer (144x144: blocks 0..7 -> 156, 8..9 -> 155).
func (s Symbol) BlockDataCW(b int) int {
	n := s.DataCW / s.Blocks
	if b < s.DataCW%s.Blocks {
		n++
	}
	return n
}

// BlockECCW is the number of error codewords per RS block.
func (s Symbol) BlockECCW() int { return s.ECCW / s.Blocks }

// MappingRows / MappingCols give the size of the Annex F mapping matrix.
func (s Symbol) MappingRows() int { return s.RegionRows * s.VRegions }
func (s Symbol) MappingCols() int { return s.RegionCols * s.HRegions }

// Shape filter values for Lookup.
const (
	ShapeNone   = 0
	ShapeSquare = 1
	ShapeRect   = 2
)

// Lookup returns the first symbol in Symbols() order with DataCW >= dataCW
// that passes the filters.  shape 1 admits only squares, 2 only rectangles.
// A zero bound is unset; minR/minC are lower bounds on Rows/Cols, maxR/maxC
// upper bounds (all inclusive).
func Lookup(dataCW int, shape int, minR, minC, maxR, maxC int) (Symbol, bool) {
	for _, s := range table7 {
		if shape == ShapeSquare && s.Rect {
			continue
		}
		if shape == ShapeRect && !s.Rect {
			continue
		}
		if minR != 0 && s.Rows < minR {
			continue
		}
		if minC != 0 && s.Cols < minC {
			continue
		}
		if maxR != 0 && s.Rows > maxR {
			continue
		}
		if maxC != 0 && s.Cols > maxC {
			continue
		}
		if s.DataCW >= dataCW {
			return s, true
		}
	}
	return Symbol{}, false
}

// Generator returns prod_{i=1..r}(x - 2^i) over GF(256)/0x12D, highest degree
// first (monic).
func Generator(r int) []int { return rs.Generator(gf.DM256, r) }

// CodewordBlock gives the RS block of codeword i of the final sequence
// (DataCW data codewords followed by ECCW error codewords).  The interleave
// is by total position: block = i mod Blocks, through data and EC alike.
// For every size but 144x144 DataCW is a multiple of Blocks, so the first
// error codeword is in block 0; for 144x144 (1558 = 155*10 + 8) it is in
// block 8.
func CodewordBlock(s Symbol, i int) (block int, isEC bool) {
	return i % s.Blocks, i >= s.DataCW
}

// ECC returns data followed by the interleaved error codewords.
func ECC(s Symbol, data []byte) []byte {
	if len(data) != s.DataCW {
		panic("dmref.ECC: wrong number of data codewords")
	}
	out := make([]byte, s.DataCW+s.ECCW)
	copy(out, data)
	r := s.BlockECCW()
	for b := 0; b < s.Blocks; b++ {
		var blk []byte
		for i := b; i < s.DataCW; i += s.Blocks {
			blk = append(blk, data[i])
		}
		par := rs.ParityBytes(gf.DM256, blk, r)
		// final-sequence positions >= DataCW that belong to block b, in order
		k := 0
		for p := s.DataCW; p < s.DataCW+s.ECCW; p++ {
			if p%s.Blocks == b {
				out[p] = par[k]
				k++
			}
		}
		if k != r {
			panic("dmref.ECC: interleave count")
		}
	}
	return out
}

// Values Placement uses for the 2x2 unused corner (present when
// rows*cols mod 8 == 4, i.e. mapping matrices 10x10, 14x14, 18x18, 22x22 =
// symbols 12x12, 16x16, 20x20, 24x24).  Per Annex F the lower-right module
// (rows-1, cols-1) and its diagonal neighbour (rows-2, cols-2) are dark, the
// other two (rows-1, cols-2) and (rows-2, cols-1) are light.
const (
	FixedDark  = -1
	FixedLight = -2
)

// Placement runs the Annex F algorithm on a rows x cols mapping matrix and
// returns [row][col] -> codewordIndex*8 + bit (codewordIndex 0-based, bit 0 =
// most significant = the standard's "bit 1"), FixedDark (-1) or FixedLight
// (-2) for the unused-corner modules.
func Placement(rows, cols int) [][]int {
	const unset = -100
	a := make([][]int, rows)
	for r := range a {
		a[r] = make([]int, cols)
		for c := range a[r] {
			a[r][c] = unset
		}
	}
	// module(): place one bit with the standard's wrap-around rule.
	module := func(row, col, chr, bit int) {
		if row < 0 {
			row += rows
			col += 4 - ((rows + 4) % 8)
		}
		if col < 0 {
			col += cols
			row += 4 - ((cols + 4) % 8)
		}
		a[row][col] = chr*8 + (bit - 1)
	}
	// utah(): the standard L-ish shape, bit 8 at (row, col).
	utah := func(row, col, chr int) {
		module(row-2, col-2, chr, 1)
		module(row-2, col-1, chr, 2)
		module(row-1, col-2, chr, 3)
		module(row-1, col-1, chr, 4)
		module(row-1, col, chr, 5)
		module(row, col-2, chr, 6)
		module(row, col-1, chr, 7)
		module(row, col, chr, 8)
	}
	corner1 := func(chr int) {
		module(rows-1, 0, chr, 1)
		module(rows-1, 1, chr, 2)
		module(rows-1, 2, chr, 3)
		module(0, cols-2, chr, 4)
		module(0, cols-1, chr, 5)
		module(1, cols-1, chr, 6)
		module(2, cols-1, chr, 7)
		module(3, cols-1, chr, 8)
	}
	corner2 := func(chr int) {
		module(rows-3, 0, chr, 1)
		module(rows-2, 0, chr, 2)
		module(rows-1, 0, chr, 3)
		module(0, cols-4, chr, 4)
		module(0, cols-3, chr, 5)
		module(0, cols-2, chr, 6)
		module(0, cols-1, chr, 7)
		module(1, cols-1, chr, 8)
	}
	corner3 := func(chr int) {
		module(rows-3, 0, chr, 1)
		module(rows-2, 0, chr, 2)
		module(rows-1, 0, chr, 3)
		module(0, cols-2, chr, 4)
		module(0, cols-1, chr, 5)
		module(1, cols-1, chr, 6)
		module(2, cols-1, chr, 7)
		module(3, cols-1, chr, 8)
	}
	corner4 := func(chr int) {
		module(rows-1, 0, chr, 1)
		module(rows-1, cols-1, chr, 2)
		module(0, cols-3, chr, 3)
		module(0, cols-2, chr, 4)
		module(0, cols-1, chr, 5)
		module(1, cols-3, chr, 6)
		module(1, cols-2, chr, 7)
		module(1, cols-1, chr, 8)
	}

	chr, row, col := 0, 4, 0
	for {
		// the four corner cases
		if row == rows && col == 0 {
			corner1(chr)
			chr++
		}
		if row == rows-2 && col == 0 && cols%4 != 0 {
			corner2(chr)
			chr++
		}
		if row == rows-2 && col == 0 && cols%8 == 4 {
			corner3(chr)
			chr++
		}
		if row == rows+4 && col == 2 && cols%8 == 0 {
			corner4(chr)
			chr++
		}
		// sweep upward diagonally to the right
		for {
			if row < rows && col >= 0 && a[row][col] == unset {
				utah(row, col, chr)
				chr++
			}
			row -= 2
			col += 2
			if !(row >= 0 && col < cols) {
				break
			}
		}
		row += 1
		col += 3
		// sweep downward diagonally to the left
		for {
			if row >= 0 && col < cols && a[row][col] == unset {
				utah(row, col, chr)
				chr++
			}
			row += 2
			col -= 2
			if !(row < rows && col >= 0) {
				break
			}
		}
		row += 3
		col += 1
		if !(row < rows || col < cols) {
			break
		}
	}
	// fixed pattern in the lower right corner if it was left untouched
	if a[rows-1][cols-1] == unset {
		a[rows-1][cols-1] = FixedDark
		a[rows-2][cols-2] = FixedDark
		a[rows-1][cols-2] = FixedLight
		a[rows-2][cols-1] = FixedLight
	}
	for r := range a {
		for c := range a[r] {
			if a[r][c] == unset {
				panic("dmref.Placement: module left unassigned")
			}
		}
	}
	return a
}

// mapToSymbol converts mapping-matrix coordinates to full-symbol (x, y).
func mapToSymbol(s Symbol, row, col int) (x, y int) {
	y = row + 1 + 2*(row/s.RegionRows)
	x = col + 1 + 2*(col/s.RegionCols)
	return
}

// CodewordModules gives, for every codeword of the final sequence, the
// (x, y) position in the full symbol of its 8 bits, MSB first.
func CodewordModules(s Symbol) [][8][2]int {
	n := s.DataCW + s.ECCW
	out := make([][8][2]int, n)
	seen := make([][8]bool, n)
	p := Placement(s.MappingRows(), s.MappingCols())
	for r := range p {
		for c, v := range p[r] {
			if v < 0 {
				continue
			}
			x, y := mapToSymbol(s, r, c)
			out[v/8][v%8] = [2]int{x, y}
			seen[v/8][v%8] = true
		}
	}
	for i := range seen {
		for b := 0; b < 8; b++ {
			if !seen[i][b] {
				panic("dmref.CodewordModules: codeword bit without module")
			}
		}
	}
	return out
}

// IsFunctionModule reports whether (x, y) of the full symbol belongs to a
// finder / clock track, and if so whether it is dark.  Every data region is
// framed by its own solid left column and solid bottom row (the "L") and an
// alternating top row and right column; the alternation is such that the
// module at the top of the solid left column and the module at the right end
// of the solid bottom row are dark, and the upper right corner is light.
func IsFunctionModule(s Symbol, x, y int) (isFn, dark bool) {
	bw := s.RegionCols + 2
	bh := s.RegionRows + 2
	i := x % bw // offset in region frame
	j := y % bh
	switch {
	case i == 0: // solid left
		return true, true
	case j == bh-1: // solid bottom
		return true, true
	case j == 0: // clock track on top: dark at even offsets
		return true, i%2 == 0
	case i == bw-1: // clock track on the right: dark at odd offsets (bottom is dark)
		return true, j%2 == 1
	}
	return false, false
}

// BuildMatrix builds the complete symbol ([y][x], true = dark) from DataCW
// data codewords.
func BuildMatrix(s Symbol, data []byte) [][]bool {
	cw := ECC(s, data)
	m := make([][]bool, s.Rows)
	for y := range m {
		m[y] = make([]bool, s.Cols)
		for x := range m[y] {
			if fn, dark := IsFunctionModule(s, x, y); fn {
				m[y][x] = dark
			}
		}
	}
	p := Placement(s.MappingRows(), s.MappingCols())
	for r := range p {
		for c, v := range p[r] {
			x, y := mapToSymbol(s, r, c)
			switch {
			case v == FixedDark:
				m[y][x] = true
			case v == FixedLight:
				m[y][x] = false
			default:
				m[y][x] = cw[v/8]>>(7-uint(v%8))&1 == 1
			}
		}
	}
	return m
}

// Pad253 is the 253-state randomised pad codeword at 1-based position padPos.
func Pad253(padPos int) byte {
	pseudo := (149*padPos)%253 + 1
	t := 129 + pseudo
	if t > 254 {
		t -= 254
	}
	return byte(t)
}

// Rand255 is the 255-state randomisation of a Base 256 codeword value v at
// 1-based codeword position pos.
func Rand255(v byte, pos int) byte {
	pseudo := (149*pos)%255 + 1
	t := int(v) + pseudo
	if t > 255 {
		t -= 256
	}
	return byte(t)
}

// Unrand255 inverts Rand255.
func Unrand255(cw byte, pos int) byte {
	pseudo := (149*pos)%255 + 1
	t := int(cw) - pseudo
	if t < 0 {
		t += 256
	}
	return byte(t)
}

// EncodeASCII is plain ASCII encodation: two consecutive digits -> 130 + nn,
// other values < 128 -> value + 1, values >= 128 -> 235 (upper shift) then
// value - 128 + 1.  Greedy digit pairing from the left.  No padding.
func EncodeASCII(text []byte) []byte {
	var out []byte
	isDigit := func(b byte) bool { return b >= '0' && b <= '9' }
	for i := 0; i < len(text); {
		b := text[i]
		if isDigit(b) && i+1 < len(text) && isDigit(text[i+1]) {
			out = append(out, 130+(b-'0')*10+(text[i+1]-'0'))
			i += 2
			continue
		}
		if b >= 128 {
			out = append(out, 235, b-128+1)
		} else {
			out = append(out, b+1)
		}
		i++
	}
	return out
}

// PadTo appends the pad codeword 129 and then 253-state randomised pads
// until the stream has n codewords.  A stream already of length >= n is
// returned unchanged (copied).
func PadTo(cw []byte, n int) []byte {
	out := make([]byte, len(cw))
	copy(out, cw)
	if len(out) < n {
		out = append(out, 129)
	}
	for len(out) < n {
		out = append(out, Pad253(len(out)+1))
	}
	return out
}
