package dmref

import (
	"errors"
	"fmt"
)

// Encodation modes of clause 5.2.
const (
	mASCII = iota
	mC40
	mText
	mX12
	mEDIFACT
	mBase256
)

// DecodeCodewords interprets the data codewords of one symbol (all DataCW of
// them, padding included) per ISO/IEC 16022 clause 5.2 and returns the
// message, each byte value b rendered as the code point U+00b.
//
// Not handled (an error is returned): ECI (241), Structured Append (233),
// Reader Programming (234), the unused ASCII codewords 0 and 242..255.
// Also errors: Upper Shift not followed by a plain ASCII value, 05/06 Macro
// anywhere but the first codeword, undefined C40/Text shift values, Base 256
// fields that overrun the symbol or have a non-canonical length, an
// unlatch (254) in ASCII mode, Upper Shift applied to FNC1, C40/Text/X12
// pairs whose value exceeds 39*1600+39*40+39+1.
//
// Deliberately tolerated: a dangling Shift/Upper Shift at the end of a
// C40/Text segment (the standard pads with Shift 1), 254 as the very last
// codeword of a C40/Text/X12 segment, anything after the pad codeword 129
// (the 253-state pads are not verified; compare with PadTo for that).
// End-of-symbol rules applied: one codeword left in C40/Text/X12 and one or
// two left at an EDIFACT triple boundary are read as ASCII.
func DecodeCodewords(data []byte) (string, error) {
	d := &hlDecoder{cw: data}
	if err := d.run(); err != nil {
		return "", err
	}
	d.out = append(d.out, d.trailer...)
	// Latin-1 -> UTF-8
	r := make([]rune, len(d.out))
	for i, b := range d.out {
		r[i] = rune(b)
	}
	return string(r), nil
}

type hlDecoder struct {
	cw      []byte
	pos     int // index of next codeword (0-based)
	out     []byte
	trailer []byte
	// the most recent explicit unlatch (254) that ended a C40 / Text / X12 run
	unlatchAt, unlatchMode int
}

// Encodation modes as reported by DecodeCodewordsInfo.
const (
	ModeC40  = mC40
	ModeText = mText
	ModeX12  = mX12
)

// DecodeCodewordsInfo is DecodeCodewords and also reports the position and the mode (ModeC40,
// ModeText, ModeX12) of the last explicit unlatch codeword that ended such a run (-1: none).
func DecodeCodewordsInfo(data []byte) (text string, unlatchAt, unlatchMode int, err error) {
	d := &hlDecoder{cw: data, unlatchAt: -1}
	if err := d.run(); err != nil {
		return "", -1, 0, err
	}
	d.out = append(d.out, d.trailer...)
	r := make([]rune, len(d.out))
	for i, b := range d.out {
		r[i] = rune(b)
	}
	return string(r), d.unlatchAt, d.unlatchMode, nil
}

func (d *hlDecoder) rem() int { return len(d.cw) - d.pos }

func (d *hlDecoder) run() error {
	mode := mASCII
	for d.rem() > 0 {
		var err error
		switch mode {
		case mASCII:
			mode, err = d.ascii()
			if mode < 0 { // pad: end of data
				return err
			}
		case mC40, mText:
			err = d.c40text(mode == mText)
			mode = mASCII
		case mX12:
			err = d.x12()
			mode = mASCII
		case mEDIFACT:
			err = d.edifact()
			mode = mASCII
		case mBase256:
			err = d.base256()
			mode = mASCII
		}
		if err != nil {
			return err
		}
	}
	return nil
}

// ascii consumes ASCII-mode codewords until a latch, the pad, or the end.
// It returns the next mode, or -1 after the pad codeword.
func (d *hlDecoder) ascii() (int, error) {
	upper := false
	for d.rem() > 0 {
		at := d.pos
		c := int(d.cw[d.pos])
		d.pos++
		if upper && !(c >= 1 && c <= 128) {
			return 0, fmt.Errorf("dmref: codeword %d at %d after Upper Shift", c, at)
		}
		switch {
		case c == 0:
			return 0, fmt.Errorf("dmref: codeword 0 at %d", at)
		case c <= 128:
			v := c - 1
			if upper {
				v += 128
				upper = false
			}
			d.out = append(d.out, byte(v))
		case c == 129:
			return -1, nil
		case c <= 229:
			n := c - 130
			d.out = append(d.out, byte('0'+n/10), byte('0'+n%10))
		case c == 230:
			return mC40, nil
		case c == 231:
			return mBase256, nil
		case c == 232:
			d.out = append(d.out, 0x1D)
		case c == 233:
			return 0, fmt.Errorf("dmref: Structured Append at %d not supported", at)
		case c == 234:
			return 0, fmt.Errorf("dmref: Reader Programming at %d not supported", at)
		case c == 235:
			upper = true
		case c == 236 || c == 237:
			if at != 0 {
				return 0, fmt.Errorf("dmref: Macro codeword %d at position %d (only allowed first)", c, at)
			}
			if c == 236 {
				d.out = append(d.out, "[)>\x1e05\x1d"...)
			} else {
				d.out = append(d.out, "[)>\x1e06\x1d"...)
			}
			d.trailer = []byte("\x1e\x04")
		case c == 238:
			return mX12, nil
		case c == 239:
			return mText, nil
		case c == 240:
			return mEDIFACT, nil
		case c == 241:
			return 0, fmt.Errorf("dmref: ECI at %d not supported", at)
		default: // 242..255 (254 = unlatch has no meaning in ASCII)
			return 0, fmt.Errorf("dmref: codeword %d at %d not valid in ASCII encodation", c, at)
		}
	}
	if upper {
		return 0, errors.New("dmref: Upper Shift at end of data")
	}
	return mASCII, nil
}

// c40text consumes C40 or Text codeword pairs until the unlatch or until
// fewer than two codewords remain (a single trailing codeword is ASCII).
func (d *hlDecoder) c40text(text bool) error {
	shift := 0 // 0 basic set, 1..3 shift sets
	upper := false
	emit := func(v int) {
		if upper {
			v += 128
			upper = false
		}
		d.out = append(d.out, byte(v))
	}
	for {
		if d.rem() == 0 {
			return nil
		}
		c1 := int(d.cw[d.pos])
		if d.rem() == 1 && c1 != 254 {
			return nil // last codeword of the symbol is ASCII encoded
		}
		if c1 == 254 { // explicit unlatch (also legal as the very last codeword)
			d.unlatchAt, d.unlatchMode = d.pos, mC40
			if text {
				d.unlatchMode = mText
			}
			d.pos++
			return nil
		}
		c2 := int(d.cw[d.pos+1])
		at := d.pos
		d.pos += 2
		full := c1*256 + c2 - 1
		if full < 0 {
			return fmt.Errorf("dmref: C40/Text pair 0,0 at %d", at)
		}
		u := [3]int{full / 1600, full / 40 % 40, full % 40}
		if u[0] > 39 {
			return fmt.Errorf("dmref: C40/Text pair at %d out of range", at)
		}
		for _, v := range u {
			switch shift {
			case 0:
				switch {
				case v <= 2:
					shift = v + 1
				case v == 3:
					emit(' ')
				case v <= 13:
					emit('0' + v - 4)
				default:
					if text {
						emit('a' + v - 14)
					} else {
						emit('A' + v - 14)
					}
				}
			case 1:
				if v > 31 {
					return fmt.Errorf("dmref: C40/Text shift 1 value %d at %d undefined", v, at)
				}
				emit(v)
				shift = 0
			case 2:
				switch {
				case v <= 14: // ! " # $ % & ' ( ) * + , - . /
					emit(33 + v)
				case v <= 21: // : ; < = > ? @
					emit(58 + v - 15)
				case v <= 26: // [ \ ] ^ _
					emit(91 + v - 22)
				case v == 27: // FNC1
					if upper {
						return fmt.Errorf("dmref: Upper Shift applied to FNC1 at %d", at)
					}
					d.out = append(d.out, 0x1D)
				case v == 30: // Upper Shift
					if upper {
						return fmt.Errorf("dmref: double Upper Shift at %d", at)
					}
					upper = true
				default:
					return fmt.Errorf("dmref: C40/Text shift 2 value %d at %d undefined", v, at)
				}
				shift = 0
			case 3:
				if v > 31 {
					return fmt.Errorf("dmref: C40/Text shift 3 value %d at %d undefined", v, at)
				}
				if text {
					switch {
					case v == 0:
						emit('`')
					case v <= 26:
						emit('A' + v - 1)
					default: // { | } ~ DEL
						emit(123 + v - 27)
					}
				} else {
					emit(96 + v)
				}
				shift = 0
			}
		}
	}
}

// x12 consumes ANSI X12 codeword pairs.
func (d *hlDecoder) x12() error {
	for {
		if d.rem() == 0 {
			return nil
		}
		c1 := int(d.cw[d.pos])
		if d.rem() == 1 && c1 != 254 {
			return nil // one trailing ASCII codeword
		}
		if c1 == 254 {
			d.unlatchAt, d.unlatchMode = d.pos, mX12
			d.pos++
			return nil
		}
		c2 := int(d.cw[d.pos+1])
		at := d.pos
		d.pos += 2
		full := c1*256 + c2 - 1
		if full < 0 {
			return fmt.Errorf("dmref: X12 pair 0,0 at %d", at)
		}
		u := [3]int{full / 1600, full / 40 % 40, full % 40}
		if u[0] > 39 {
			return fmt.Errorf("dmref: X12 pair at %d out of range", at)
		}
		for _, v := range u {
			switch {
			case v == 0:
				d.out = append(d.out, 13)
			case v == 1:
				d.out = append(d.out, '*')
			case v == 2:
				d.out = append(d.out, '>')
			case v == 3:
				d.out = append(d.out, ' ')
			case v <= 13:
				d.out = append(d.out, byte('0'+v-4))
			default:
				d.out = append(d.out, byte('A'+v-14))
			}
		}
	}
}

// edifact consumes 6-bit EDIFACT values, four to three codewords.  The
// unlatch value 011111 returns to ASCII at the next codeword boundary.  When
// at a triple boundary only one or two codewords remain in the symbol they
// are ASCII encoded.
func (d *hlDecoder) edifact() error {
	for {
		if d.rem() <= 2 {
			return nil
		}
		b := uint32(d.cw[d.pos])<<16 | uint32(d.cw[d.pos+1])<<8 | uint32(d.cw[d.pos+2])
		for k := 0; k < 4; k++ {
			v := int(b >> uint(18-6*k) & 0x3F)
			if v == 0x1F {
				// codewords touched so far: ceil(6(k+1)/8)
				d.pos += (6*(k+1) + 7) / 8
				return nil
			}
			if v&0x20 == 0 {
				v |= 0x40
			}
			d.out = append(d.out, byte(v))
		}
		d.pos += 3
	}
}

// base256 consumes one Base 256 field (length + data), un-randomising every
// codeword with the 255-state algorithm at its 1-based position in the
// symbol's codeword stream.
func (d *hlDecoder) base256() error {
	at := d.pos
	next := func() int {
		v := Unrand255(d.cw[d.pos], d.pos+1)
		d.pos++
		return int(v)
	}
	if d.rem() == 0 {
		return nil // latch as last codeword: empty field to end of symbol
	}
	d1 := next()
	var n int
	switch {
	case d1 == 0:
		n = d.rem()
	case d1 <= 249:
		n = d1
	default:
		if d.rem() == 0 {
			return fmt.Errorf("dmref: Base 256 field at %d: missing second length byte", at)
		}
		d2 := next()
		n = 250*(d1-249) + d2
		if d2 > 249 {
			return fmt.Errorf("dmref: Base 256 field at %d: second length byte %d > 249", at, d2)
		}
		if n > 1555 {
			return fmt.Errorf("dmref: Base 256 field at %d: length %d > 1555", at, n)
		}
	}
	if n > d.rem() {
		return fmt.Errorf("dmref: Base 256 field at %d: length %d overruns the symbol (%d left)", at, n, d.rem())
	}
	for i := 0; i < n; i++ {
		d.out = append(d.out, byte(next()))
	}
	return nil
}
