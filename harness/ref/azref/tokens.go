// Package azref is an independent reference ENCODER for Aztec Code
// (ISO/IEC 24778).  It exists only to be a test oracle for an Aztec reader:
// it shares no code, no tables and no control flow with the library under
// test.  Everything here is typed from the standard's description.
//
// The high-level part works on TOKEN SEQUENCES: a walk over (latch table,
// action) emits the bit stream and, independently, the text the standard says
// that bit stream means.  The expected text is never obtained by decoding.
package azref

// Rand is the only thing the generator needs from a PRNG (math/rand's *Rand
// satisfies it).
type Rand interface {
	Intn(n int) int
}

// Table identifies one of the five code tables of ISO/IEC 24778.
type Table int

// The five code tables.
const (
	Upper Table = iota
	Lower
	Mixed
	Punct
	Digit
	numTables
)

func (t Table) String() string {
	switch t {
	case Upper:
		return "U"
	case Lower:
		return "L"
	case Mixed:
		return "M"
	case Punct:
		return "P"
	case Digit:
		return "D"
	}
	return "?"
}

// Width returns the code width of the table: 4 bits for Digit, 5 otherwise.
func (t Table) Width() int {
	if t == Digit {
		return 4
	}
	return 5
}

// Control code values (ISO/IEC 24778 code table).
const (
	codePS = 0 // P/S in Upper, Lower, Mixed, Digit; FLG(n) in Punct (never emitted)

	upperLL = 28
	upperML = 29
	upperDL = 30
	upperBS = 31

	lowerUS = 28
	lowerML = 29
	lowerDL = 30
	lowerBS = 31

	mixedLL = 28
	mixedUL = 29
	mixedPL = 30
	mixedBS = 31

	punctUL = 31

	digitUL = 14
	digitUS = 15
)

// charTable[t][code] is the byte string a data code of table t stands for;
// nil for control codes.  Built once by init from the standard's tables.
var charTable [numTables][][]byte

func init() {
	// Upper: 0 P/S, 1 SP, 2..27 A..Z, 28 L/L, 29 M/L, 30 D/L, 31 B/S
	up := make([][]byte, 32)
	up[1] = []byte{' '}
	for i := 0; i < 26; i++ {
		up[2+i] = []byte{byte('A' + i)}
	}
	charTable[Upper] = up

	// Lower: 0 P/S, 1 SP, 2..27 a..z, 28 U/S, 29 M/L, 30 D/L, 31 B/S
	lo := make([][]byte, 32)
	lo[1] = []byte{' '}
	for i := 0; i < 26; i++ {
		lo[2+i] = []byte{byte('a' + i)}
	}
	charTable[Lower] = lo

	// Mixed: 0 P/S, 1 SP, 2..14 ^A..^M (1..13), 15 ESC, 16 FS, 17 GS, 18 RS,
	// 19 US, 20 @, 21 \, 22 ^, 23 _, 24 `, 25 |, 26 ~, 27 DEL,
	// 28 L/L, 29 U/L, 30 P/L, 31 B/S
	mx := make([][]byte, 32)
	mx[1] = []byte{' '}
	for i := 1; i <= 13; i++ {
		mx[1+i] = []byte{byte(i)}
	}
	mx[15] = []byte{27}
	mx[16] = []byte{28}
	mx[17] = []byte{29}
	mx[18] = []byte{30}
	mx[19] = []byte{31}
	mx[20] = []byte{'@'}
	mx[21] = []byte{'\\'}
	mx[22] = []byte{'^'}
	mx[23] = []byte{'_'}
	mx[24] = []byte{'`'}
	mx[25] = []byte{'|'}
	mx[26] = []byte{'~'}
	mx[27] = []byte{127}
	charTable[Mixed] = mx

	// Punct: 0 FLG(n), 1 CR, 2 CR LF, 3 ". ", 4 ", ", 5 ": ",
	// 6 ! 7 " 8 # 9 $ 10 % 11 & 12 ' 13 ( 14 ) 15 * 16 + 17 , 18 - 19 . 20 /
	// 21 : 22 ; 23 < 24 = 25 > 26 ? 27 [ 28 ] 29 { 30 }, 31 U/L
	pu := make([][]byte, 32)
	pu[1] = []byte{'\r'}
	pu[2] = []byte{'\r', '\n'}
	pu[3] = []byte{'.', ' '}
	pu[4] = []byte{',', ' '}
	pu[5] = []byte{':', ' '}
	for i := 0; i < 15; i++ { // '!' (0x21) .. '/' (0x2F)
		pu[6+i] = []byte{byte('!' + i)}
	}
	for i := 0; i < 6; i++ { // ':' (0x3A) .. '?' (0x3F)
		pu[21+i] = []byte{byte(':' + i)}
	}
	pu[27] = []byte{'['}
	pu[28] = []byte{']'}
	pu[29] = []byte{'{'}
	pu[30] = []byte{'}'}
	charTable[Punct] = pu

	// Digit: 0 P/S, 1 SP, 2..11 0..9, 12 ',', 13 '.', 14 U/L, 15 U/S
	dg := make([][]byte, 16)
	dg[1] = []byte{' '}
	for i := 0; i < 10; i++ {
		dg[2+i] = []byte{byte('0' + i)}
	}
	dg[12] = []byte{','}
	dg[13] = []byte{'.'}
	charTable[Digit] = dg
}

// latchCode[from][to] is the code value, in table from, of the direct latch
// to table to; -1 when the standard has no such direct latch.
var latchCode = [numTables][numTables]int{
	Upper: {Upper: -1, Lower: upperLL, Mixed: upperML, Punct: -1, Digit: upperDL},
	Lower: {Upper: -1, Lower: -1, Mixed: lowerML, Punct: -1, Digit: lowerDL},
	Mixed: {Upper: mixedUL, Lower: mixedLL, Mixed: -1, Punct: mixedPL, Digit: -1},
	Punct: {Upper: punctUL, Lower: -1, Mixed: -1, Punct: -1, Digit: -1},
	Digit: {Upper: digitUL, Lower: -1, Mixed: -1, Punct: -1, Digit: -1},
}

// hasPS reports whether table t has a P/S code (all but Punct; value 0).
func hasPS(t Table) bool { return t != Punct }

// usCode returns the U/S code of t, or -1 (only Lower and Digit have one).
func usCode(t Table) int {
	switch t {
	case Lower:
		return lowerUS
	case Digit:
		return digitUS
	}
	return -1
}

// bsCode returns the B/S code of t, or -1 (Upper, Lower and Mixed have one).
func bsCode(t Table) int {
	switch t {
	case Upper:
		return upperBS
	case Lower:
		return lowerBS
	case Mixed:
		return mixedBS
	}
	return -1
}

// MaxBinaryShift is the longest run one B/S can carry: 31 + (2^11 - 1).
const MaxBinaryShift = 31 + 2047

// bitWriter accumulates a bit stream MSB first.
type bitWriter struct {
	bits []bool
}

func (w *bitWriter) put(v, n int) {
	for i := n - 1; i >= 0; i-- {
		w.bits = append(w.bits, v>>uint(i)&1 == 1)
	}
}

// Encoder is the token-level writer: each method appends one token's bits to
// the stream and the token's meaning to the expected text.  It tracks the
// latch table and refuses (panics on) tokens the standard does not offer in
// the current table, so a buggy caller cannot silently produce nonsense.
type Encoder struct {
	w     bitWriter
	text  []byte
	cur   Table
	trace []string
	chars int
	ecis  []ECIMark
}

// NewEncoder starts a stream in the Upper table, as every Aztec message does.
func NewEncoder() *Encoder { return &Encoder{cur: Upper} }

// Bits returns the bit stream so far.
func (e *Encoder) Bits() []bool { return e.w.bits }

// Text returns the expected text so far.
func (e *Encoder) Text() []byte { return e.text }

// Table returns the current latch table.
func (e *Encoder) Table() Table { return e.cur }

// Trace returns one short description per token emitted.
func (e *Encoder) Trace() []string { return e.trace }

// Len returns the number of bits emitted.
func (e *Encoder) Len() int { return len(e.w.bits) }

// Char emits data code `code` of the current table.
func (e *Encoder) Char(code int) {
	s := charTable[e.cur][code]
	if s == nil {
		panic("azref: not a data code")
	}
	e.w.put(code, e.cur.Width())
	e.text = append(e.text, s...)
	e.chars++
	e.trace = append(e.trace, e.cur.String()+":"+quote(s))
}

// Latch emits the direct latch from the current table to `to`.
func (e *Encoder) Latch(to Table) {
	c := latchCode[e.cur][to]
	if c < 0 {
		panic("azref: no direct latch")
	}
	e.w.put(c, e.cur.Width())
	e.trace = append(e.trace, e.cur.String()+":"+to.String()+"/L")
	e.cur = to
}

// ShiftPunct emits P/S followed by Punct data code `code`; the latch table is
// unchanged.
func (e *Encoder) ShiftPunct(code int) {
	if !hasPS(e.cur) {
		panic("azref: no P/S here")
	}
	s := charTable[Punct][code]
	if s == nil {
		panic("azref: not a punct data code")
	}
	e.w.put(codePS, e.cur.Width())
	e.w.put(code, 5)
	e.text = append(e.text, s...)
	e.chars++
	e.trace = append(e.trace, e.cur.String()+":P/S "+quote(s))
}

// ShiftUpper emits U/S followed by Upper data code `code`; the latch table is
// unchanged.
func (e *Encoder) ShiftUpper(code int) {
	c := usCode(e.cur)
	if c < 0 {
		panic("azref: no U/S here")
	}
	s := charTable[Upper][code]
	if s == nil {
		panic("azref: not an upper data code")
	}
	e.w.put(c, e.cur.Width())
	e.w.put(code, 5)
	e.text = append(e.text, s...)
	e.chars++
	e.trace = append(e.trace, e.cur.String()+":U/S "+quote(s))
}

// BinaryShift emits B/S, the length (short form 1..31: five bits; long form
// 32..2078: five zero bits then length-31 in eleven bits) and the bytes, eight
// bits each.  Afterwards the table is the one B/S was issued from.
func (e *Encoder) BinaryShift(data []byte) {
	c := bsCode(e.cur)
	if c < 0 {
		panic("azref: no B/S here")
	}
	n := len(data)
	if n < 1 || n > MaxBinaryShift {
		panic("azref: B/S length out of range")
	}
	e.w.put(c, 5)
	if n <= 31 {
		e.w.put(n, 5)
	} else {
		e.w.put(0, 5)
		e.w.put(n-31, 11)
	}
	for _, b := range data {
		e.w.put(int(b), 8)
	}
	e.text = append(e.text, data...)
	e.chars += n
	form := "short"
	if n > 31 {
		form = "long"
	}
	e.trace = append(e.trace, e.cur.String()+":B/S "+form+" n="+itoa(n))
}

// ECIMark records where in the expected text an ECI escape takes effect.
type ECIMark struct {
	TextPos int // index into Text(): bytes from here on are in the new interpretation
	Value   int
}

// ECI emits an extended-channel-interpretation escape per ISO/IEC 24778: FLG(n)
// (Punct code 0, reached by P/S from Upper, Lower, Mixed and Digit or directly when
// latched to Punct), the 3-bit digit count n = 1..6 and the n decimal digits of the
// assignment number as Digit-table codes (digit d = code d+2).  The expected text is
// not changed; the mark tells the caller which character set applies to the bytes
// that follow.
func (e *Encoder) ECI(value int) {
	if value < 0 || value > 999999 {
		panic("azref: ECI out of range")
	}
	digits := itoa(value)
	if e.cur == Punct {
		e.w.put(0, 5)
	} else {
		if !hasPS(e.cur) {
			panic("azref: no P/S here")
		}
		e.w.put(codePS, e.cur.Width())
		e.w.put(0, 5)
	}
	e.w.put(len(digits), 3)
	for i := 0; i < len(digits); i++ {
		e.w.put(int(digits[i]-'0')+2, 4)
	}
	e.ecis = append(e.ecis, ECIMark{TextPos: len(e.text), Value: value})
	e.trace = append(e.trace, e.cur.String()+":FLG("+itoa(len(digits))+") ECI "+digits)
}

// ECIMarks returns the ECI escapes emitted so far.
func (e *Encoder) ECIMarks() []ECIMark { return e.ecis }

// binaryShiftBits is the cost of one B/S carrying n bytes.
func binaryShiftBits(n int) int {
	if n <= 31 {
		return 10 + 8*n
	}
	return 21 + 8*n
}

func itoa(n int) string {
	if n == 0 {
		return "0"
	}
	s := ""
	for n > 0 {
		s = string(rune('0'+n%10)) + s
		n /= 10
	}
	return s
}

func quote(s []byte) string {
	const hex = "0123456789abcdef"
	out := "'"
	for _, b := range s {
		if b >= 0x20 && b < 0x7f {
			out += string(rune(b))
		} else {
			out += "\\x" + string(rune(hex[b>>4])) + string(rune(hex[b&15]))
		}
	}
	return out + "'"
}

// dataCodes[t] lists the data (non-control) codes of table t.
var dataCodes [numTables][]int

func init() {
	for t := Table(0); t < numTables; t++ {
		for c, s := range charTable[t] {
			if s != nil {
				dataCodes[t] = append(dataCodes[t], c)
			}
		}
	}
}

// RandomTokens performs a random walk over the token grammar and returns the
// bit stream (unpadded, unstuffed) together with the text it stands for.
//
// Guarantees: at least one character; at most maxBits bits (if maxBits is
// smaller than 5, a single 5-bit Upper character is produced anyway).  Over
// many calls every table, every direct latch (and so every multi-step latch
// route), P/S from U/L/M/D, U/S from L/D, the four two-character Punct codes
// and B/S in short and long form from U/L/M are exercised.  FLG(n) is never
// emitted and no token is left incomplete at the end of the stream.
func RandomTokens(r Rand, maxBits int) (bits []bool, text []byte) {
	bits, text, _ = RandomTokensTraced(r, maxBits)
	return
}

// RandomTokensTraced is RandomTokens plus a human-readable token trace.
func RandomTokensTraced(r Rand, maxBits int) (bits []bool, text []byte, trace []string) {
	if maxBits < 5 {
		maxBits = 5
	}
	// Half the time fill the budget, otherwise aim for a random shorter length.
	budget := maxBits
	if r.Intn(2) == 0 {
		budget = 5 + r.Intn(maxBits-4)
	}
	e := NewEncoder()

	const (
		actChar = iota
		actLatch
		actPS
		actUS
		actBSShort
		actBSLong
	)
	type action struct {
		kind   int
		to     Table
		weight int
	}

	// Style of this walk: vary the mix so that some streams are latch-heavy,
	// some text-heavy, some binary-heavy.
	wChar := []int{12, 4, 20}[r.Intn(3)]
	wLatch := []int{1, 3, 6}[r.Intn(3)]
	wShift := []int{1, 3, 6}[r.Intn(3)]
	wBin := []int{1, 2, 5}[r.Intn(3)]

	for {
		rem := budget - e.Len()
		cur := e.cur
		w := cur.Width()
		var acts []action
		if rem >= w {
			acts = append(acts, action{actChar, cur, wChar})
		}
		for to := Table(0); to < numTables; to++ {
			if latchCode[cur][to] < 0 {
				continue
			}
			// A latch with nothing after it is legal but only allowed once a
			// character exists; otherwise insist there is room for a
			// character in the new table.
			if rem >= w+to.Width() || (rem >= w && e.chars > 0 && r.Intn(4) == 0) {
				acts = append(acts, action{actLatch, to, wLatch})
			}
		}
		if hasPS(cur) && rem >= w+5 {
			acts = append(acts, action{actPS, cur, wShift})
		}
		if usCode(cur) >= 0 && rem >= w+5 {
			acts = append(acts, action{actUS, cur, wShift})
		}
		if bsCode(cur) >= 0 {
			if rem >= binaryShiftBits(1) {
				acts = append(acts, action{actBSShort, cur, wBin})
			}
			if rem >= binaryShiftBits(32) {
				acts = append(acts, action{actBSLong, cur, wBin})
			}
		}
		if len(acts) == 0 {
			break
		}
		total := 0
		for _, a := range acts {
			total += a.weight
		}
		pick := r.Intn(total)
		var a action
		for _, c := range acts {
			if pick < c.weight {
				a = c
				break
			}
			pick -= c.weight
		}
		switch a.kind {
		case actChar:
			codes := dataCodes[cur]
			e.Char(codes[r.Intn(len(codes))])
		case actLatch:
			e.Latch(a.to)
		case actPS:
			codes := dataCodes[Punct]
			// favour the two-character codes a little: they are 4 of 30
			if r.Intn(4) == 0 {
				e.ShiftPunct(2 + r.Intn(4))
			} else {
				e.ShiftPunct(codes[r.Intn(len(codes))])
			}
		case actUS:
			codes := dataCodes[Upper]
			e.ShiftUpper(codes[r.Intn(len(codes))])
		case actBSShort:
			max := (rem - 10) / 8
			if max > 31 {
				max = 31
			}
			n := 1 + r.Intn(max)
			switch r.Intn(6) { // boundary lengths
			case 0:
				n = 1
			case 1:
				n = max
			}
			e.BinaryShift(randomBytes(r, n))
		case actBSLong:
			max := (rem - 21) / 8
			if max > MaxBinaryShift {
				max = MaxBinaryShift
			}
			var n int
			switch r.Intn(4) {
			case 0:
				n = 32
			case 1:
				n = max
			case 2:
				n = 32 + r.Intn(max-31)
			default: // skew towards short long-form runs
				span := max - 31
				if span > 16 {
					span = 16
				}
				n = 32 + r.Intn(span)
			}
			e.BinaryShift(randomBytes(r, n))
		}
	}
	if e.chars == 0 {
		// Only reachable if the budget was too small for anything else.
		e.Char(dataCodes[e.cur][r.Intn(len(dataCodes[e.cur]))])
	}
	return e.Bits(), e.Text(), e.Trace()
}

func randomBytes(r Rand, n int) []byte {
	b := make([]byte, n)
	mode := r.Intn(4)
	for i := range b {
		switch mode {
		case 0: // anything
			b[i] = byte(r.Intn(256))
		case 1: // high half
			b[i] = byte(128 + r.Intn(128))
		case 2: // extremes, to provoke stuffing
			b[i] = []byte{0x00, 0xFF, 0x00, 0xFF, 0x80, 0x01, 0x7F, 0xFE}[r.Intn(8)]
		default: // printable ASCII
			b[i] = byte(0x20 + r.Intn(95))
		}
	}
	return b
}

// latchPath returns the shortest sequence of direct latches leading from
// table a to table b (breadth first over latchCode; ties broken by bit cost).
func latchPath(a, b Table) []Table {
	if a == b {
		return nil
	}
	type node struct {
		path []Table
		cost int
	}
	best := map[Table]node{a: {nil, 0}}
	// Bellman-Ford style relaxation; five nodes, so this is trivially small.
	for iter := 0; iter < int(numTables); iter++ {
		for from := Table(0); from < numTables; from++ {
			nf, ok := best[from]
			if !ok {
				continue
			}
			for to := Table(0); to < numTables; to++ {
				if latchCode[from][to] < 0 {
					continue
				}
				c := nf.cost + from.Width()
				if old, ok := best[to]; !ok || c < old.cost {
					p := append(append([]Table{}, nf.path...), to)
					best[to] = node{p, c}
				}
			}
		}
	}
	return best[b].path
}

// findCode returns the data code of s in table t, or -1.
func findCode(t Table, s []byte) int {
	for c, v := range charTable[t] {
		if v != nil && string(v) == string(s) {
			return c
		}
	}
	return -1
}

// EncodeText is a simple deterministic high-level encoder: it stays in the
// current table while it can, uses P/S or U/S for an isolated character of
// those tables, latches (by the shortest route) otherwise, and puts bytes that
// are in no table into B/S runs (long form above 31 bytes, split above 2078).
// It is not optimal and does not try to be.
func EncodeText(text []byte) []bool {
	e := NewEncoder()
	inAny := func(b byte) bool {
		for t := Table(0); t < numTables; t++ {
			if findCode(t, []byte{b}) >= 0 {
				return true
			}
		}
		return false
	}
	i := 0
	for i < len(text) {
		b := text[i]
		cur := e.cur
		// Two-character Punct codes.
		if i+1 < len(text) {
			if pc := findCode(Punct, text[i:i+2]); pc >= 0 {
				if cur == Punct {
					e.Char(pc)
				} else {
					e.ShiftPunct(pc)
				}
				i += 2
				continue
			}
		}
		if c := findCode(cur, []byte{b}); c >= 0 {
			e.Char(c)
			i++
			continue
		}
		if !inAny(b) {
			j := i
			for j < len(text) && !inAny(text[j]) && j-i < MaxBinaryShift {
				j++
			}
			if bsCode(cur) < 0 {
				e.Latch(Upper) // both Punct and Digit have a direct U/L
			}
			e.BinaryShift(text[i:j])
			i = j
			continue
		}
		nextInCur := i+1 >= len(text) || findCode(cur, []byte{text[i+1]}) >= 0
		if pc := findCode(Punct, []byte{b}); pc >= 0 && hasPS(cur) && nextInCur {
			// isolated punctuation: shift
			e.ShiftPunct(pc)
			i++
			continue
		}
		if uc := findCode(Upper, []byte{b}); uc >= 0 && usCode(cur) >= 0 && nextInCur {
			e.ShiftUpper(uc)
			i++
			continue
		}
		// Latch to the first table (in this fixed preference order) holding b.
		for _, t := range []Table{Upper, Lower, Digit, Mixed, Punct} {
			if c := findCode(t, []byte{b}); c >= 0 {
				for _, step := range latchPath(cur, t) {
					e.Latch(step)
				}
				e.Char(c)
				i++
				break
			}
		}
	}
	return e.Bits()
}
