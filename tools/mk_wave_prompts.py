#!/usr/bin/env python3
"""Write the prompts of the next seeded-change round (wave N) from those of wave N-1: the list of changes
already written for the property is rebuilt from /verif/seeded/<id>-*/meta.json (summaries only - the
sub-agents get nothing else from /verif).  usage: mk_wave_prompts.py N ORDINAL [extra-idea-text-file]"""
import json, os, sys, glob
n, word = int(sys.argv[1]), sys.argv[2]
extra = open(sys.argv[3]).read() if len(sys.argv) > 3 else ''
for i in range(1, 21):
    pid = 'C%02d' % i
    s = open('/tmp/mutprompt%d-%s.txt' % (n - 1, pid)).read().replace('mut%d-' % (n - 1), 'mut%d-' % n)
    marker = [l for l in s.splitlines() if l.endswith(' ROUND.') or ' ROUND. ' in l][0].split(' ROUND.')[0] + ' ROUND.'
    head = s[:s.index(marker)]
    tail = s[s.index('Before choosing, list for yourself'):]
    sums = []
    for f in sorted(glob.glob('/verif/seeded/%s-*/meta.json' % pid), key=lambda f: int(f.split('-')[-1].split('/')[0])):
        sums.append('- ' + json.load(open(f))['summary'][:260])
    mid = '%s ROUND. %d changes for this property were already written by others; yours must use DIFFERENT mechanisms and touch different functions / tables / code paths than these:\n' % (word, len(sums)) + '\n'.join(sums) + '\n'
    if extra and extra not in tail:
        tail = tail.replace('Keep it realistic and small', extra.rstrip('\n') + '\nKeep it realistic and small')
    open('/tmp/mutprompt%d-%s.txt' % (n, pid), 'w').write(head + mid + tail)
