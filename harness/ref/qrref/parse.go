package qrref

import "fmt"

// ParsedSegment is one segment recovered from a data codeword stream.
//
// Count is the character count field (0 for the pseudo modes).  Bytes is the
// payload in the same representation Segment.Data uses: ASCII digits, ASCII
// alphanumerics, raw bytes, Shift_JIS pairs; for ModeFNC1Second the
// application indicator byte; for ModeStructuredAppend {sequence, parity}.
// ECI is the assignment number for ModeECI and -1 otherwise.
type ParsedSegment struct {
	Mode  Mode
	Count int
	ECI   int
	Bytes []byte
}

type bitReader struct {
	data []byte
	pos  int
}

func (r *bitReader) left() int { return 8*len(r.data) - r.pos }

func (r *bitReader) read(n int) (int, error) {
	if n > r.left() {
		return 0, fmt.Errorf("bit stream truncated: need %d bits at offset %d, %d left", n, r.pos, r.left())
	}
	val := 0
	for i := 0; i < n; i++ {
		val = val<<1 | int(r.data[r.pos/8]>>uint(7-r.pos%8)&1)
		r.pos++
	}
	return val, nil
}

// ParseDataCodewords walks the data bit stream of a version v symbol.  It
// stops at a terminator (mode 0000) or when fewer than 4 bits remain.
func ParseDataCodewords(v int, data []byte) ([]ParsedSegment, error) {
	segs, _, err := ParseDataCodewordsPos(v, data)
	return segs, err
}

// ParseDataCodewordsPos is ParseDataCodewords and also returns the bit offset
// just after the last segment (where the terminator / padding begins).
func ParseDataCodewordsPos(v int, data []byte) ([]ParsedSegment, int, error) {
	checkVersion(v)
	r := &bitReader{data: data}
	var out []ParsedSegment
	for r.left() >= 4 {
		end := r.pos
		ind, _ := r.read(4)
		if ind == indTerminator {
			return out, end, nil
		}
		seg := ParsedSegment{ECI: -1}
		var err error
		switch ind {
		case indNumeric:
			seg.Mode = Numeric
			err = parseNumeric(r, v, &seg)
		case indAlphanumeric:
			seg.Mode = Alphanumeric
			err = parseAlnum(r, v, &seg)
		case indByte:
			seg.Mode = Byte
			if seg.Count, err = r.read(CharCountBits(Byte, v)); err == nil {
				for i := 0; i < seg.Count && err == nil; i++ {
					var c int
					c, err = r.read(8)
					seg.Bytes = append(seg.Bytes, byte(c))
				}
			}
		case indKanji:
			seg.Mode = Kanji
			if seg.Count, err = r.read(CharCountBits(Kanji, v)); err == nil {
				for i := 0; i < seg.Count && err == nil; i++ {
					var c int
					if c, err = r.read(13); err != nil {
						break
					}
					w := (c/0xC0)<<8 | c%0xC0
					if w < 0x1F00 {
						w += 0x8140
					} else {
						w += 0xC140
					}
					seg.Bytes = append(seg.Bytes, byte(w>>8), byte(w))
				}
			}
		case indECI:
			seg.Mode = ModeECI
			var b int
			if b, err = r.read(8); err == nil {
				switch {
				case b&0x80 == 0:
					seg.ECI = b
				case b&0xC0 == 0x80:
					var lo int
					lo, err = r.read(8)
					seg.ECI = (b&0x3F)<<8 | lo
				case b&0xE0 == 0xC0:
					var lo int
					lo, err = r.read(16)
					seg.ECI = (b&0x1F)<<16 | lo
				default:
					err = fmt.Errorf("invalid ECI designator first byte 0x%02X", b)
				}
			}
		case indFNC1First:
			seg.Mode = ModeFNC1First
		case indFNC1Second:
			seg.Mode = ModeFNC1Second
			var b int
			b, err = r.read(8)
			seg.Bytes = []byte{byte(b)}
		case indStructuredAppend:
			seg.Mode = ModeStructuredAppend
			var a, p int
			if a, err = r.read(8); err == nil {
				p, err = r.read(8)
			}
			seg.Bytes = []byte{byte(a), byte(p)}
		default:
			err = fmt.Errorf("unknown mode indicator %04b at bit %d", ind, end)
		}
		if err != nil {
			return out, end, err
		}
		out = append(out, seg)
	}
	return out, r.pos, nil
}

func parseNumeric(r *bitReader, v int, seg *ParsedSegment) error {
	n, err := r.read(CharCountBits(Numeric, v))
	if err != nil {
		return err
	}
	seg.Count = n
	for n > 0 {
		digits, bits, lim := 3, 10, 1000
		if n == 2 {
			digits, bits, lim = 2, 7, 100
		} else if n == 1 {
			digits, bits, lim = 1, 4, 10
		}
		val, err := r.read(bits)
		if err != nil {
			return err
		}
		if val >= lim {
			return fmt.Errorf("numeric group value %d invalid for %d digits", val, digits)
		}
		s := fmt.Sprintf("%0*d", digits, val)
		seg.Bytes = append(seg.Bytes, s...)
		n -= digits
	}
	return nil
}

func parseAlnum(r *bitReader, v int, seg *ParsedSegment) error {
	n, err := r.read(CharCountBits(Alphanumeric, v))
	if err != nil {
		return err
	}
	seg.Count = n
	for n >= 2 {
		val, err := r.read(11)
		if err != nil {
			return err
		}
		if val >= 45*45 {
			return fmt.Errorf("alphanumeric pair value %d out of range", val)
		}
		seg.Bytes = append(seg.Bytes, AlnumCharset[val/45], AlnumCharset[val%45])
		n -= 2
	}
	if n == 1 {
		val, err := r.read(6)
		if err != nil {
			return err
		}
		if val >= 45 {
			return fmt.Errorf("alphanumeric value %d out of range", val)
		}
		seg.Bytes = append(seg.Bytes, AlnumCharset[val])
	}
	return nil
}
