#!/usr/bin/env python3
"""Regenerates the seeded-changes table in DESIGN.md from seeded/*/meta.json."""
import json, glob, re
rows=[]
for f in sorted(glob.glob('/verif/seeded/*/meta.json')):
    m=json.load(open(f)); sid=f.split('/')[-2]
    caught=', '.join(f"{c['check']} {c['tier']}" for c in m.get('caught_by',[])) or '—'
    missed=', '.join(m.get('missed_by',[])) or ''
    summ=re.sub(r'\s+',' ',m.get('summary',''))[:150].replace('|','\\|')
    need=re.sub(r'\s+',' ',m.get('needs_to_manifest',''))[:120].replace('|','\\|')
    rows.append(f"| {sid} | {summ} | {need} | {caught} | {missed} |")
tab="| id | change | needs to manifest | caught by | missed by |\n|---|---|---|---|---|\n"+'\n'.join(rows)
p='/verif/DESIGN.md'; s=open(p).read()
a=s.index('<!-- SEEDED-TABLE-BEGIN -->')+len('<!-- SEEDED-TABLE-BEGIN -->'); b=s.index('<!-- SEEDED-TABLE-END -->')
open(p,'w').write(s[:a]+'\n'+tab+'\n'+s[b:])
print(len(rows),'rows')
