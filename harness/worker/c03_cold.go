//go:build verif

package main

import (
	"fmt"
	"strings"

	"github.com/makiuchi-d/gozxing"
	"github.com/makiuchi-d/gozxing/oned"

	"verifharness/fw"
	"verifharness/ref/onedref"
)

// Cold starts for C03: each reader's and each writer's first call in a fresh process.  Readers are
// given a symbol built from the reference tables (no library writer has run), writers are compared
// with the reference pattern (no library reader has run), so that tables a reader or writer fills
// on first use are seen in their first use - in a long-running worker some other case has always
// been there before.

type c03ColdSpec struct {
	name    string
	format  gozxing.BarcodeFormat
	content string // what is handed to the writer
	text    string // what a reader returns
	pattern func() []bool
	reader  func() gozxing.Reader
	writer  func() gozxing.Writer
}

func c03ColdSpecs() []c03ColdSpec {
	c128 := func(text string) []bool {
		v, _ := onedref.Code128Values([]byte(text), 0)
		return onedref.Code128Pattern(append(append([]int{}, v...), onedref.Code128Check(v)))
	}
	c93 := func(text string) []bool {
		v, _ := onedref.Code93Values([]byte(text))
		cc, kk := onedref.Code93Checks(v)
		return onedref.Code93Pattern(append(append([]int{}, v...), cc, kk))
	}
	ext39 := func(text string) []bool {
		e, _ := onedref.Code39Extended([]byte(text))
		return onedref.Code39Pattern(e)
	}
	return []c03ColdSpec{
		{"EAN_13", gozxing.BarcodeFormat_EAN_13, "590123412345", "5901234123457", func() []bool { return onedref.EAN13Pattern("5901234123457") }, oned.NewEAN13Reader, oned.NewEAN13Writer},
		{"EAN_8", gozxing.BarcodeFormat_EAN_8, "9638507", "96385074", func() []bool { return onedref.EAN8Pattern("96385074") }, oned.NewEAN8Reader, oned.NewEAN8Writer},
		{"UPC_A", gozxing.BarcodeFormat_UPC_A, "03600029145", "036000291452", func() []bool { return onedref.UPCAPattern("036000291452") }, oned.NewUPCAReader, oned.NewUPCAWriter},
		{"UPC_E", gozxing.BarcodeFormat_UPC_E, "0123456", "01234565", func() []bool { return onedref.UPCEPattern("01234565") }, oned.NewUPCEReader, oned.NewUPCEWriter},
		{"UPC_E/1", gozxing.BarcodeFormat_UPC_E, "1234567", "12345670", func() []bool { return onedref.UPCEPattern("12345670") }, oned.NewUPCEReader, oned.NewUPCEWriter},
		{"CODE_39", gozxing.BarcodeFormat_CODE_39, "AZ09-. $/+%", "AZ09-. $/+%", func() []bool { return onedref.Code39Pattern("AZ09-. $/+%") }, oned.NewCode39Reader, oned.NewCode39Writer},
		{"CODE_39/extended", gozxing.BarcodeFormat_CODE_39, "a~z\x7f{", "a~z\x7f{", func() []bool { return ext39("a~z\x7f{") }, func() gozxing.Reader { return oned.NewCode39ReaderWithFlags(false, true) }, oned.NewCode39Writer},
		{"CODE_93", gozxing.BarcodeFormat_CODE_93, "Z9 -.$/+%a\x7f", "Z9 -.$/+%a\x7f", func() []bool { return c93("Z9 -.$/+%a\x7f") }, oned.NewCode93Reader, oned.NewCode93Writer},
		{"CODE_128", gozxing.BarcodeFormat_CODE_128, "Ab\x01~12345678z", "Ab\x01~12345678z", func() []bool { return c128("Ab\x01~12345678z") }, oned.NewCode128Reader, oned.NewCode128Writer},
		{"ITF", gozxing.BarcodeFormat_ITF, "0123456789012345", "0123456789012345", func() []bool { return onedref.ITFPattern("0123456789012345") }, oned.NewITFReader, oned.NewITFWriter},
		{"CODABAR", gozxing.BarcodeFormat_CODABAR, "A0123456789-$:/.+D", "0123456789-$:/.+", func() []bool { return onedref.CodabarPattern("A0123456789-$:/.+D") }, oned.NewCodaBarReader, oned.NewCodaBarWriter},
		{"multi/EAN_8", gozxing.BarcodeFormat_EAN_8, "9638507", "96385074", func() []bool { return onedref.EAN8Pattern("96385074") }, func() gozxing.Reader { return oned.NewMultiFormatUPCEANReader(nil) }, nil},
		{"multi/UPC_E", gozxing.BarcodeFormat_UPC_E, "1234567", "12345670", func() []bool { return onedref.UPCEPattern("12345670") }, func() gozxing.Reader { return oned.NewMultiFormatUPCEANReader(nil) }, nil},
	}
}

func init() {
	fw.RegisterCold("c03first", func(arg string) (out string) {
		defer func() {
			if p := recover(); p != nil {
				out = fmt.Sprintf("PANIC %v", p)
			}
		}()
		var idx int
		var what string
		fmt.Sscanf(arg, "%d %s", &idx, &what)
		sp := c03ColdSpecs()[idx]
		switch what {
		case "read", "read-upside-down":
			img := odRender(sp.pattern(), 14, 14, 2, 6)
			bmp, err := gozxing.NewBinaryBitmapFromImage(img)
			if err != nil {
				return "bitmap: " + err.Error()
			}
			if what == "read-upside-down" {
				bmp, _ = bmp.RotateCounterClockwise()
				bmp, _ = bmp.RotateCounterClockwise()
			}
			res, err := sp.reader().Decode(bmp, nil)
			if err != nil {
				return fmt.Sprintf("reader failed on a reference-built %s symbol of %q: %v", sp.name, sp.text, err)
			}
			if res.GetText() != sp.text || res.GetBarcodeFormat() != sp.format {
				return fmt.Sprintf("reader returned %q / %v for a reference-built %s symbol of %q", res.GetText(), res.GetBarcodeFormat(), sp.name, sp.text)
			}
		case "write":
			m, err := sp.writer().Encode(sp.content, sp.format, 0, 1, nil)
			if err != nil {
				return fmt.Sprintf("writer refused %q: %v", sp.content, err)
			}
			if sp.name == "CODE_128" {
				// several encodations of one content are valid: the drawn characters must spell the content and carry the mod-103 check
				vals, ok := c10ParseCode128(odTrim(odMatrixRow(m, 0)))
				if !ok || len(vals) < 2 || onedref.Code128Check(vals[:len(vals)-1]) != vals[len(vals)-1] {
					return fmt.Sprintf("writer's modules for %q are not start / characters / verifying check / stop (%v)", sp.content, vals)
				}
				if dec, ok := onedref.Code128Decode(vals[:len(vals)-1]); !ok || string(dec) != sp.content {
					return fmt.Sprintf("writer drew %v for %q, which spells %q", vals, sp.content, dec)
				}
			} else if got, want := odTrim(odMatrixRow(m, 0)), sp.pattern(); !odBoolsEq(got, want) {
				return fmt.Sprintf("writer's modules for %q differ from the reference pattern (%d vs %d modules)", sp.content, len(got), len(want))
			}
		}
		return "OK"
	})
}

// c03Cold: one fresh process per (symbology, first operation).
func c03Cold(r *fw.Rec) {
	for i, sp := range c03ColdSpecs() {
		for _, what := range []string{"read", "read-upside-down", "write"} {
			if what == "write" && sp.writer == nil {
				continue
			}
			out, err := fw.RunCold("c03first", fmt.Sprintf("%d %s", i, what))
			r.Evals(1)
			if err != nil || out != "OK" {
				r.Violation("model-mismatch", "cold-start:"+strings.ReplaceAll(sp.name, "/", "-")+":"+what, fmt.Sprintf("%s as the first library call of a fresh process: %s %v", what, out, err), map[string]interface{}{"symbology": sp.name, "first_operation": what})
				return
			}
			r.Tally("cold_start_first_operations")
		}
	}
	r.Nontrivial("cold")
}
