// Package onedref is an independent reference model of several linear
// symbologies (EAN/UPC with add-ons, Code 128, Code 93, Code 39, ITF,
// Codabar).  All tables are typed from the standards (GS1 General
// Specifications / ISO 15420, ISO 15417, ISO 16388, AIM USS-93, ISO 16390,
// ANSI/AIM BC3); nothing is shared with the library under test.
//
// A "module pattern" is a []bool, one entry per module, true = bar (dark),
// without quiet zones.
package onedref

// ---------------------------------------------------------------------------
// small helpers
// ---------------------------------------------------------------------------

// bits appends the modules written as a string of '0'/'1' to dst.
func bits(dst []bool, s string) []bool {
	for i := 0; i < len(s); i++ {
		dst = append(dst, s[i] == '1')
	}
	return dst
}

// runs appends alternating bar/space runs (first run is a bar) whose lengths
// are given by widths.
func runs(dst []bool, widths []int) []bool {
	bar := true
	for _, w := range widths {
		for k := 0; k < w; k++ {
			dst = append(dst, bar)
		}
		bar = !bar
	}
	return dst
}

func allDigits(s string) bool {
	for i := 0; i < len(s); i++ {
		if s[i] < '0' || s[i] > '9' {
			return false
		}
	}
	return true
}

// PatternString renders a module pattern as a string of '0' and '1'.
func PatternString(p []bool) string {
	b := make([]byte, len(p))
	for i, v := range p {
		if v {
			b[i] = '1'
		} else {
			b[i] = '0'
		}
	}
	return string(b)
}

// ---------------------------------------------------------------------------
// EAN / UPC
// ---------------------------------------------------------------------------

// Number set A ("L", odd parity) of ISO 15420, 7 modules, space first.
// Set C ("R") is the complement, set B ("G", even parity) is R mirrored.
var eanL = [10]string{
	"0001101", // 0
	"0011001", // 1
	"0010011", // 2
	"0111101", // 3
	"0100011", // 4
	"0110001", // 5
	"0101111", // 6
	"0111011", // 7
	"0110111", // 8
	"0001011", // 9
}

func eanR(d int) string {
	l := eanL[d]
	b := make([]byte, 7)
	for i := 0; i < 7; i++ {
		if l[i] == '1' {
			b[i] = '0'
		} else {
			b[i] = '1'
		}
	}
	return string(b)
}

func eanG(d int) string {
	r := eanR(d)
	b := make([]byte, 7)
	for i := 0; i < 7; i++ {
		b[i] = r[6-i]
	}
	return string(b)
}

// EANDigit returns the 7 modules of digit d in number set 'L', 'G' or 'R'.
func EANDigit(d int, set byte) string {
	switch set {
	case 'L':
		return eanL[d]
	case 'G':
		return eanG(d)
	case 'R':
		return eanR(d)
	}
	return ""
}

// Number sets of the six left-half digits of EAN-13, selected by the
// implicit first digit.
var ean13Parity = [10]string{
	"LLLLLL", // 0
	"LLGLGG", // 1
	"LLGGLG", // 2
	"LLGGGL", // 3
	"LGLLGG", // 4
	"LGGLLG", // 5
	"LGGGLL", // 6
	"LGLGLG", // 7
	"LGLGGL", // 8
	"LGGLGL", // 9
}

// UPC-E: number sets of the six digits for number system 0, selected by the
// (implicit) check digit.  Number system 1 uses the opposite set everywhere.
// (E = even parity = set G, O = odd parity = set L.)
var upceParityNS0 = [10]string{
	"GGGLLL", // 0  EEEOOO
	"GGLGLL", // 1  EEOEOO
	"GGLLGL", // 2  EEOOEO
	"GGLLLG", // 3  EEOOOE
	"GLGGLL", // 4  EOEEOO
	"GLLGGL", // 5  EOOEEO
	"GLLLGG", // 6  EOOOEE
	"GLGLGL", // 7  EOEOEO
	"GLGLLG", // 8  EOEOOE
	"GLLGLG", // 9  EOOEOE
}

// Five-digit add-on: number sets selected by the check value.
var ean5Parity = [10]string{
	"GGLLL", // 0
	"GLGLL", // 1
	"GLLGL", // 2
	"GLLLG", // 3
	"LGGLL", // 4
	"LLGGL", // 5
	"LLLGG", // 6
	"LGLGL", // 7
	"LGLLG", // 8
	"LLGLG", // 9
}

// Two-digit add-on: number sets selected by value mod 4.
var ean2Parity = [4]string{"LL", "LG", "GL", "GG"}

const (
	guardNormal  = "101"
	guardCentre  = "01010"
	guardUPCEEnd = "010101"
	guardAddOn   = "1011"
	addOnDelim   = "01"
)

// Mod10 is the GS1 check digit of a digit string that does not yet carry its
// check digit: weights 3,1,3,1,... starting with 3 at the rightmost digit.
// Returns -1 when the string contains a non-digit.
func Mod10(digits string) int {
	if !allDigits(digits) {
		return -1
	}
	sum := 0
	w := 3
	for i := len(digits) - 1; i >= 0; i-- {
		sum += w * int(digits[i]-'0')
		w = 4 - w
	}
	return (10 - sum%10) % 10
}

// EAN13Pattern returns the 95 modules of the 13 digits as given; the check
// digit is not verified.  nil for malformed input.
func EAN13Pattern(d13 string) []bool {
	if len(d13) != 13 || !allDigits(d13) {
		return nil
	}
	par := ean13Parity[d13[0]-'0']
	p := make([]bool, 0, 95)
	p = bits(p, guardNormal)
	for i := 0; i < 6; i++ {
		p = bits(p, EANDigit(int(d13[1+i]-'0'), par[i]))
	}
	p = bits(p, guardCentre)
	for i := 0; i < 6; i++ {
		p = bits(p, EANDigit(int(d13[7+i]-'0'), 'R'))
	}
	p = bits(p, guardNormal)
	return p
}

// EAN8Pattern returns the 67 modules of 8 digits as given.
func EAN8Pattern(d8 string) []bool {
	if len(d8) != 8 || !allDigits(d8) {
		return nil
	}
	p := make([]bool, 0, 67)
	p = bits(p, guardNormal)
	for i := 0; i < 4; i++ {
		p = bits(p, EANDigit(int(d8[i]-'0'), 'L'))
	}
	p = bits(p, guardCentre)
	for i := 4; i < 8; i++ {
		p = bits(p, EANDigit(int(d8[i]-'0'), 'R'))
	}
	p = bits(p, guardNormal)
	return p
}

// UPCAPattern returns the 95 modules of 12 digits as given.
func UPCAPattern(d12 string) []bool {
	if len(d12) != 12 {
		return nil
	}
	return EAN13Pattern("0" + d12)
}

// UPCEPattern returns the 51 modules of a UPC-E symbol.  d8 is number system
// (0 or 1), six digits, check digit.  The check digit is not verified; it
// only selects the parity pattern.
func UPCEPattern(d8 string) []bool {
	if len(d8) != 8 || !allDigits(d8) || d8[0] > '1' {
		return nil
	}
	par := upceParityNS0[d8[7]-'0']
	p := make([]bool, 0, 51)
	p = bits(p, guardNormal)
	for i := 0; i < 6; i++ {
		set := par[i]
		if d8[0] == '1' {
			if set == 'L' {
				set = 'G'
			} else {
				set = 'L'
			}
		}
		p = bits(p, EANDigit(int(d8[1+i]-'0'), set))
	}
	p = bits(p, guardUPCEEnd)
	return p
}

// UPCEExpand returns the 11-digit UPC-A number (number system + 10 digits,
// no check digit) that the six UPC-E digits stand for.  "" for malformed
// input.
func UPCEExpand(d6 string, numberSystem byte) string {
	if len(d6) != 6 || !allDigits(d6) || numberSystem < '0' || numberSystem > '9' {
		return ""
	}
	ns := string(numberSystem)
	switch d6[5] {
	case '0', '1', '2':
		// manufacturer D1 D2 D6 0 0, item 0 0 D3 D4 D5
		return ns + d6[0:2] + d6[5:6] + "00" + "00" + d6[2:5]
	case '3':
		// manufacturer D1 D2 D3 0 0, item 0 0 0 D4 D5
		return ns + d6[0:3] + "00" + "000" + d6[3:5]
	case '4':
		// manufacturer D1 D2 D3 D4 0, item 0 0 0 0 D5
		return ns + d6[0:4] + "0" + "0000" + d6[4:5]
	default:
		// manufacturer D1..D5, item 0 0 0 0 D6 (5..9)
		return ns + d6[0:5] + "0000" + d6[5:6]
	}
}

// UPCESuppress is the inverse of UPCEExpand: the six UPC-E digits of an
// 11-digit UPC-A number (number system first) if one of the four
// zero-suppression rules applies.  When more than one six-digit string
// expands to the number, the rule listed first in the GS1 table wins (this is
// the canonical form: each rule's precondition in the specification excludes
// the earlier ones).
func UPCESuppress(d11 string) (string, bool) {
	if len(d11) != 11 || !allDigits(d11) || d11[0] > '1' {
		return "", false
	}
	m := d11[1:6]   // manufacturer number
	it := d11[6:11] // item number
	switch {
	case m[2] <= '2' && m[3:5] == "00" && it[0:2] == "00":
		return m[0:2] + it[2:5] + m[2:3], true
	case m[3:5] == "00" && it[0:3] == "000":
		return m[0:3] + it[3:5] + "3", true
	case m[4] == '0' && it[0:4] == "0000":
		return m[0:4] + it[4:5] + "4", true
	case it[0:4] == "0000" && it[4] >= '5':
		return m[0:5] + it[4:5], true
	}
	return "", false
}

// EAN2AddOn returns the 20 modules of a two-digit add-on carrying value
// (0..99); the number sets are taken from parityFrom%4.
func EAN2AddOn(value int, parityFrom int) []bool {
	if value < 0 || value > 99 {
		return nil
	}
	par := ean2Parity[((parityFrom%4)+4)%4]
	p := make([]bool, 0, 20)
	p = bits(p, guardAddOn)
	p = bits(p, EANDigit(value/10, par[0]))
	p = bits(p, addOnDelim)
	p = bits(p, EANDigit(value%10, par[1]))
	return p
}

// EAN5Check is the check value of a five-digit add-on.
func EAN5Check(digits string) int {
	if len(digits) != 5 || !allDigits(digits) {
		return -1
	}
	d := func(i int) int { return int(digits[i] - '0') }
	return (3*(d(0)+d(2)+d(4)) + 9*(d(1)+d(3))) % 10
}

// EAN5AddOn returns the 47 modules of a five-digit add-on whose number sets
// are chosen from checkValue (0..9).
func EAN5AddOn(digits string, checkValue int) []bool {
	if len(digits) != 5 || !allDigits(digits) || checkValue < 0 || checkValue > 9 {
		return nil
	}
	par := ean5Parity[checkValue]
	p := make([]bool, 0, 47)
	p = bits(p, guardAddOn)
	for i := 0; i < 5; i++ {
		if i > 0 {
			p = bits(p, addOnDelim)
		}
		p = bits(p, EANDigit(int(digits[i]-'0'), par[i]))
	}
	return p
}

// AddOnGap is the number of light modules placed between the right guard of
// the main symbol and the add-on (GS1: 7X to 12X).
func AddOnGap() int { return 9 }
