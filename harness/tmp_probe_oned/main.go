//go:build verif

package main

import (
	"fmt"

	"github.com/makiuchi-d/gozxing"
	"github.com/makiuchi-d/gozxing/oned"
)

func main() {
	w := oned.NewUPCEWriter()
	rd := oned.NewUPCEReader()
	for _, c := range []string{"07252389", "19999999", "01234565", "00000000", "05096893"} {
		for _, cfg := range [][3]int{{0, 1, -1}, {0, 10, -1}, {0, 10, 9}, {0, 10, 10}, {0, 10, 11}, {0, 10, 12}, {0, 10, 13}, {120, 10, -1}, {180, 10, -1}, {371, 5, -1}} {
			var h map[gozxing.EncodeHintType]interface{}
			if cfg[2] >= 0 {
				h = map[gozxing.EncodeHintType]interface{}{gozxing.EncodeHintType_MARGIN: cfg[2]}
			}
			m, err := w.Encode(c, gozxing.BarcodeFormat_UPC_E, cfg[0], cfg[1], h)
			if err != nil {
				fmt.Println(c, cfg, "encode", err)
				continue
			}
			bmp, _ := gozxing.NewBinaryBitmapFromImage(m)
			res, err := rd.Decode(bmp, nil)
			row := ""
			for x := 0; x < m.GetWidth() && m.GetWidth() < 80; x++ {
				if m.Get(x, 0) {
					row += "1"
				} else {
					row += "0"
				}
			}
			if err != nil {
				fmt.Println(c, cfg, m.GetWidth(), "->", err, row)
			} else {
				fmt.Println(c, cfg, m.GetWidth(), "->", res.GetText(), row)
			}
		}
	}
}
