//go:build verif

package main

import (
	"fmt"
	"sort"
	"strings"
	"sync"
	"unicode/utf8"

	"golang.org/x/text/encoding"
	"golang.org/x/text/encoding/charmap"
	"golang.org/x/text/encoding/japanese"
	"golang.org/x/text/encoding/korean"
	"golang.org/x/text/encoding/simplifiedchinese"
	"golang.org/x/text/encoding/traditionalchinese"
	"golang.org/x/text/encoding/unicode"

	"github.com/makiuchi-d/gozxing"

	"verifharness/fw"
)

// Independent table of the character sets the property counts as supported
// (27 entries), with the ECI designators assigned to them by the AIM ECI
// register (ISO-8859-n = n+2, etc.) and the x/text codec that defines
// "representable" for the oracle.
type csEntry struct {
	Name    string
	Aliases []string
	Values  []int
	Enc     encoding.Encoding
	Kind    int // 0 single byte, 1 double byte (legacy), 2 UTF-8, 3 UTF-16BE, 4 ASCII
}

type asciiEncoding struct{}

var csTable = []csEntry{
	{"Cp437", nil, []int{0, 2}, charmap.CodePage437, 0},
	{"ISO-8859-1", []string{"ISO8859_1"}, []int{1, 3}, charmap.ISO8859_1, 0},
	{"ISO-8859-2", []string{"ISO8859_2"}, []int{4}, charmap.ISO8859_2, 0},
	{"ISO-8859-3", []string{"ISO8859_3"}, []int{5}, charmap.ISO8859_3, 0},
	{"ISO-8859-4", []string{"ISO8859_4"}, []int{6}, charmap.ISO8859_4, 0},
	{"ISO-8859-5", []string{"ISO8859_5"}, []int{7}, charmap.ISO8859_5, 0},
	{"ISO-8859-7", []string{"ISO8859_7"}, []int{9}, charmap.ISO8859_7, 0},
	{"ISO-8859-9", []string{"ISO8859_9"}, []int{11}, charmap.ISO8859_9, 0},
	{"ISO-8859-13", []string{"ISO8859_13"}, []int{15}, charmap.ISO8859_13, 0},
	{"ISO-8859-15", []string{"ISO8859_15"}, []int{17}, charmap.ISO8859_15, 0},
	{"ISO-8859-16", []string{"ISO8859_16"}, []int{18}, charmap.ISO8859_16, 0},
	{"Shift_JIS", []string{"SJIS"}, []int{20}, japanese.ShiftJIS, 1},
	{"windows-1250", []string{"Cp1250"}, []int{21}, charmap.Windows1250, 0},
	{"windows-1251", []string{"Cp1251"}, []int{22}, charmap.Windows1251, 0},
	{"windows-1252", []string{"Cp1252"}, []int{23}, charmap.Windows1252, 0},
	{"windows-1256", []string{"Cp1256"}, []int{24}, charmap.Windows1256, 0},
	{"UTF-16BE", []string{"UnicodeBig", "UnicodeBigUnmarked"}, []int{25}, unicode.UTF16(unicode.BigEndian, unicode.IgnoreBOM), 3},
	{"UTF-8", []string{"UTF8"}, []int{26}, unicode.UTF8, 2},
	{"ASCII", []string{"US-ASCII"}, []int{27, 170}, nil, 4},
	{"Big5", nil, []int{28}, traditionalchinese.Big5, 1},
	{"GB18030", []string{"GB2312", "EUC_CN", "GBK"}, []int{29}, simplifiedchinese.GB18030, 1},
	{"EUC-KR", []string{"EUC_KR"}, []int{30}, korean.EUCKR, 1},
}

// csEncode encodes text in the entry's charset; ok=false when not representable
// (the codec fails or does not round trip).
func (e *csEntry) csEncode(text string) ([]byte, bool) {
	if !utf8.ValidString(text) {
		return nil, false
	}
	if e.Kind == 4 {
		for i := 0; i < len(text); i++ {
			if text[i] >= 0x80 {
				return nil, false
			}
		}
		return []byte(text), true
	}
	b, err := e.Enc.NewEncoder().Bytes([]byte(text))
	if err != nil {
		return nil, false
	}
	back, err := e.Enc.NewDecoder().Bytes(b)
	if err != nil || string(back) != text {
		return nil, false
	}
	return b, true
}

var (
	csRepOnce sync.Once
	csRep     map[string][]rune // single-byte repertoires: every code point that round-trips
)

func csRepertoire(e *csEntry) []rune {
	csRepOnce.Do(func() {
		csRep = map[string][]rune{}
		for i := range csTable {
			t := &csTable[i]
			if t.Kind != 0 {
				continue
			}
			var rs []rune
			for b := 0; b < 256; b++ {
				u, err := t.Enc.NewDecoder().Bytes([]byte{byte(b)})
				if err != nil {
					continue
				}
				r := []rune(string(u))
				if len(r) != 1 || r[0] == 0xFFFD {
					continue
				}
				if back, ok := t.csEncode(string(r)); !ok || len(back) != 1 || back[0] != byte(b) {
					continue
				}
				rs = append(rs, r[0])
			}
			csRep[t.Name] = rs
		}
	})
	return csRep[e.Name]
}

// csRandomRune draws one character of the entry's repertoire.
func csRandomRune(rng *fw.Rand, e *csEntry) rune {
	switch e.Kind {
	case 0:
		rep := csRepertoire(e)
		return rep[rng.Intn(len(rep))]
	case 4:
		return rune(rng.Intn(0x80))
	case 2, 3:
		for {
			var r rune
			switch rng.Intn(4) {
			case 0:
				r = rune(rng.Intn(0x80))
			case 1:
				r = rune(0x80 + rng.Intn(0x780))
			case 2:
				r = rune(0x800 + rng.Intn(0xF800))
			default:
				r = rune(0x10000 + rng.Intn(0x100000))
			}
			if r >= 0xD800 && r < 0xE000 {
				continue
			}
			if e.Kind == 3 && r == 0xFEFF {
				continue // a leading BOM is consumed by UTF-16 decoders
			}
			return r
		}
	default: // legacy double byte: ASCII or a random double-byte code that round-trips
		for tries := 0; tries < 200; tries++ {
			if e.Name == "GB18030" && rng.Intn(5) == 0 {
				// GB 18030 covers all of Unicode: characters outside the double-byte area take four bytes
				r := rune(0x80 + rng.Intn(0xFF80))
				if rng.Intn(3) == 0 {
					r = rune(0x10000 + rng.Intn(0x100000))
				}
				if r >= 0xD800 && r < 0xE000 {
					continue
				}
				if back, ok := e.csEncode(string(r)); ok && len(back) == 4 {
					return r
				}
				continue
			}
			if rng.Intn(4) == 0 {
				r := rune(0x20 + rng.Intn(0x5F))
				if _, ok := e.csEncode(string(r)); ok {
					return r
				}
				continue
			}
			b := []byte{byte(0x81 + rng.Intn(0x7E)), byte(0x40 + rng.Intn(0xBF))}
			u, err := e.Enc.NewDecoder().Bytes(b)
			if err != nil {
				continue
			}
			r := []rune(string(u))
			if len(r) != 1 || r[0] == 0xFFFD {
				continue
			}
			if back, ok := e.csEncode(string(r)); ok && len(back) == 2 {
				return r[0]
			}
		}
		return 'A'
	}
}

// csRandomText draws n characters of the repertoire (always representable).
func csRandomText(rng *fw.Rand, e *csEntry, n int) string {
	rs := make([]rune, n)
	for i := range rs {
		rs[i] = csRandomRune(rng, e)
	}
	return string(rs)
}

// hintsSnapshot renders a hint map with the dynamic TYPE of every value next to the value, keys in
// order: a writer that replaces "4" by 4 or "L" by the typed level has changed the caller's map
// although both print alike.
func hintsSnapshot(h map[gozxing.EncodeHintType]interface{}) string {
	keys := make([]int, 0, len(h))
	for k := range h {
		keys = append(keys, int(k))
	}
	sort.Ints(keys)
	var sb strings.Builder
	for _, k := range keys {
		v := h[gozxing.EncodeHintType(k)]
		fmt.Fprintf(&sb, "%d=(%T)%v;", k, v, v)
	}
	return sb.String()
}
