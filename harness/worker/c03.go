//go:build verif

package main

import (
	"fmt"
	"strings"
	"verifharness/conc"

	"github.com/makiuchi-d/gozxing"
	"github.com/makiuchi-d/gozxing/oned"

	"verifharness/fw"
	"verifharness/ref/onedref"
)

// C03: every writable 1-D symbology: write -> image -> matching reader (and the
// multi-format UPC/EAN reader) returns canonical(content) and the format;
// unacceptable contents are refused.

func init() { fw.Register("C03", c03) }

// c03Env holds the writers and readers of one case (they are reusable).
type c03Env struct {
	r       *fw.Rec
	writers map[string]gozxing.Writer
	readers map[string]gozxing.Reader
	failed  bool
}

func newC03Env(r *fw.Rec) *c03Env {
	return &c03Env{r: r, writers: map[string]gozxing.Writer{}, readers: map[string]gozxing.Reader{}}
}

func (e *c03Env) writer(name string, mk func() gozxing.Writer) gozxing.Writer {
	w, ok := e.writers[name]
	if !ok {
		w = mk()
		e.writers[name] = w
	}
	return w
}

func (e *c03Env) reader(name string, mk func() gozxing.Reader) gozxing.Reader {
	rd, ok := e.readers[name]
	if !ok {
		rd = mk()
		e.readers[name] = rd
	}
	return rd
}

func (e *c03Env) viol(sig, detail string, data map[string]interface{}) {
	if e.failed {
		return
	}
	e.failed = true
	e.r.Violation("model-mismatch", sig, detail, data)
}

// c03Job is one content to be written and read back.
type c03Job struct {
	sym     string // tally / signature label, names symbology and input form
	format  gozxing.BarcodeFormat
	mkW     func() gozxing.Writer
	wname   string
	content string
	ehints  map[gozxing.EncodeHintType]interface{}
	reads   []c03Read
	ref     []bool // reference module pattern of the canonical content (diagnosis of a failed read only)
	// optional: the content is outside the quantifier's accepted set; a refusal is tolerated (tallied),
	// but if the writer accepts it the round trip is demanded ("every content its writer accepts")
	optional string
}

// c03Read is one reader that must return want (or one of the alternatives).
type c03Read struct {
	label  string // "reader", "multi+formats", "multi"
	rname  string
	mk     func() gozxing.Reader
	hints  map[gozxing.DecodeHintType]interface{}
	want   string
	format gozxing.BarcodeFormat
	// documented alternative answer (don't-care), "" if none
	altWant   string
	altFormat gozxing.BarcodeFormat
	altTally  string
}

// c03Size is the requested rendering.
type c03Size struct {
	mode   string // "w0", "natural", "plus", "x2".."x6"
	height int
	margin int // -1: no MARGIN hint; k >= 0: MARGIN = the writer's default margin + k
}

func c03RandSize(rng *fw.Rand) c03Size {
	var s c03Size
	switch k := rng.Intn(10); {
	case k < 2:
		s.mode = "w0"
	case k < 3:
		s.mode = "natural"
	case k < 5:
		s.mode = "plus"
	default:
		s.mode = fmt.Sprintf("x%d", 2+rng.Intn(5))
		if rng.Intn(12) == 0 {
			s.mode = "wide" // posters: 33..52 pixels per module (a bar spans several 32-bit words)
		}
	}
	switch k := rng.Intn(10); {
	case k < 1:
		s.height = 0
	case k < 3:
		s.height = 1
	case k < 7:
		s.height = 2 + rng.Intn(14)
	default:
		s.height = 16 + rng.Intn(65)
	}
	s.margin = -1
	switch k := rng.Intn(10); {
	case k < 2:
		s.margin = 0
	case k < 5:
		s.margin = 1 + rng.Intn(40)
	}
	return s
}

// c03Do writes job.content with the size sz and runs all reads.  Returns false after a violation.
func (e *c03Env) c03Do(job *c03Job, sz c03Size) bool {
	r := e.r
	w := e.writer(job.wname, job.mkW)
	hints := job.ehints
	data := map[string]interface{}{"symbology": job.sym, "content": odQuote(job.content), "size": fmt.Sprintf("%+v", sz), "encode_hints": fmt.Sprint(job.ehints)}
	if sz.margin >= 0 {
		// the writer's default margin: width it chooses by itself minus the bars it drew
		md, err := w.Encode(job.content, job.format, 0, 1, hints)
		r.Evals(1)
		if err != nil && job.optional != "" {
			r.Tally("dont_care_" + job.optional + "_refused_by_writer")
			return true
		}
		if err != nil || md == nil {
			e.viol(job.sym+".write:rejects-acceptable-content", fmt.Sprintf("%s writer refused %s (hints %v): %v", job.sym, odQuote(job.content), job.ehints, err), data)
			return false
		}
		def := md.GetWidth() - len(odTrim(odMatrixRow(md, 0)))
		margin := def + sz.margin
		data["default_margin"] = def
		data["margin"] = margin
		h2 := map[gozxing.EncodeHintType]interface{}{}
		for k, v := range hints {
			h2[k] = v
		}
		if margin%3 == 0 {
			h2[gozxing.EncodeHintType_MARGIN] = fmt.Sprint(margin) // the writer takes int and decimal string
		} else {
			h2[gozxing.EncodeHintType_MARGIN] = margin
		}
		hints = h2
	}
	// natural width: what the writer produces when asked for width 0
	m0, err := w.Encode(job.content, job.format, 0, sz.height, hints)
	r.Evals(1)
	if err != nil && job.optional != "" {
		r.Tally("dont_care_" + job.optional + "_refused_by_writer")
		return true
	}
	if err != nil || m0 == nil {
		e.viol(job.sym+".write:rejects-acceptable-content", fmt.Sprintf("%s writer refused %s (hints %v): %v", job.sym, odQuote(job.content), job.ehints, err), data)
		return false
	}
	m := m0
	if sz.mode != "w0" {
		w0 := m0.GetWidth()
		width := w0
		switch {
		case sz.mode == "plus":
			width = w0 + 1 + r.Rng.Intn(w0-1)
		case sz.mode[0] == 'x':
			k := int(sz.mode[1] - '0')
			width = k*w0 + r.Rng.Intn(w0)
		case sz.mode == "wide":
			k := 33 + r.Rng.Intn(20)
			if w0 > 400 { // very long symbols: stay below ~16 000 pixels
				k = 33 + r.Rng.Intn(3)
			}
			width = k*w0 + r.Rng.Intn(w0)
			r.Tally("renderings_wider_than_32_px_per_module")
		}
		height := sz.height
		if width*height > 160000 { // keep a case affordable: tall images only for moderate widths
			height = 160000 / width
			if height < 1 {
				height = 1
			}
		}
		data["width"] = width
		data["height"] = height
		m, err = w.Encode(job.content, job.format, width, height, hints)
		r.Evals(1)
		if err != nil || m == nil {
			e.viol(job.sym+".write:rejects-larger-size", fmt.Sprintf("%s writer refused %s at %dx%d though it accepts it at width 0: %v", job.sym, odQuote(job.content), width, height, err), data)
			return false
		}
		if m.GetWidth() < width || m.GetHeight() < height {
			r.Tally("dont_care_matrix_smaller_than_requested") // the statement speaks of what is read back, not of the matrix size
		}
	}
	r.Tally("written_" + job.sym)
	r.Tally("size_" + sz.mode)
	if sz.margin >= 0 {
		r.Tally("size_with_margin_hint")
	}
	r.Max("max_image_width", int64(m.GetWidth()))
	r.Max("max_image_height", int64(m.GetHeight()))
	bmp, err := gozxing.NewBinaryBitmapFromImage(m)
	if err != nil {
		e.viol(job.sym+".bitmap:error", fmt.Sprintf("NewBinaryBitmapFromImage: %v", err), data)
		return false
	}
	for i := range job.reads {
		rd := &job.reads[i]
		reader := e.reader(rd.rname, rd.mk)
		res, err := reader.Decode(bmp, rd.hints)
		r.Evals(1)
		data["reader"] = rd.label
		data["decode_hints"] = fmt.Sprint(rd.hints)
		site := job.sym + "." + rd.label
		if err != nil {
			e.viol(site+":error"+c03Diag(m, job.ref), fmt.Sprintf("%s: %s of the written image of %s (%dx%d, %+v) failed: %s %v", job.sym, rd.label, odQuote(job.content), m.GetWidth(), m.GetHeight(), sz, odErrKind(err), err), data)
			return false
		}
		got, gf := res.GetText(), res.GetBarcodeFormat()
		if got == rd.want && gf == rd.format {
			r.Tally("read_" + rd.label + "_" + job.sym)
			continue
		}
		if rd.altTally != "" && got == rd.altWant && gf == rd.altFormat {
			r.Tally(rd.altTally)
			continue
		}
		if got != rd.want {
			e.viol(site+":wrong-text"+c03Diag(m, job.ref), fmt.Sprintf("%s: %s of the written image of %s returned %s (%v), canonical content is %s", job.sym, rd.label, odQuote(job.content), odQuote(got), gf, odQuote(rd.want)), data)
		} else {
			e.viol(site+":wrong-format", fmt.Sprintf("%s: %s of the written image of %s returned format %v, expected %v", job.sym, rd.label, odQuote(job.content), gf, rd.format), data)
		}
		return false
	}
	return true
}

// c03Diag classifies a failed read (signature suffix only, no influence on the verdict):
// do the bars the writer drew equal the reference pattern of the canonical content?
func c03Diag(m *gozxing.BitMatrix, ref []bool) string {
	if ref == nil {
		return ""
	}
	bars := odTrim(odMatrixRow(m, 0))
	if len(bars) == 0 || len(bars)%len(ref) != 0 {
		return "/bars-differ-from-reference"
	}
	k := len(bars) / len(ref)
	for i, b := range bars {
		if b != ref[i/k] {
			return "/bars-differ-from-reference"
		}
	}
	// how many white modules does the image leave to the right of the symbol?
	row := odMatrixRow(m, 0)
	last := len(row) - 1
	for last >= 0 && !row[last] {
		last--
	}
	if rq := (len(row) - 1 - last) / k; rq < 7 {
		return "/bars-match-reference/right-quiet-zone-below-7-modules"
	}
	return "/bars-match-reference"
}

// ---------------------------------------------------------------------------
// jobs per symbology
// ---------------------------------------------------------------------------

func c03MultiNoHints() gozxing.Reader { return oned.NewMultiFormatUPCEANReader(nil) }

func c03UPCEANJob(s *odUPCEAN, payload string, withCheck bool, multi bool) *c03Job {
	full := s.full(payload)
	content := payload
	form := fmt.Sprint(s.payload)
	if withCheck {
		content = full
		form = fmt.Sprint(s.payload + 1)
	}
	job := &c03Job{sym: s.name + form, format: s.format, mkW: s.writer, wname: s.name, content: content, ref: s.pattern(full)}
	job.reads = append(job.reads, c03Read{label: "reader", rname: s.name, mk: s.reader, want: full, format: s.format})
	if multi {
		pf := map[gozxing.DecodeHintType]interface{}{gozxing.DecodeHintType_POSSIBLE_FORMATS: []gozxing.BarcodeFormat{s.format}}
		f := s.format
		job.reads = append(job.reads, c03Read{label: "multi+formats", rname: "multi/" + s.name, mk: func() gozxing.Reader {
			return oned.NewMultiFormatUPCEANReader(map[gozxing.DecodeHintType]interface{}{gozxing.DecodeHintType_POSSIBLE_FORMATS: []gozxing.BarcodeFormat{f}})
		}, hints: pf, want: full, format: s.format})
		// the reader is configured at construction: the same instance called without decode hints
		job.reads = append(job.reads, c03Read{label: "multi+formats-at-construction-only", rname: "multi/" + s.name + "/nil-decode-hints", mk: func() gozxing.Reader {
			return oned.NewMultiFormatUPCEANReader(map[gozxing.DecodeHintType]interface{}{gozxing.DecodeHintType_POSSIBLE_FORMATS: []gozxing.BarcodeFormat{f}})
		}, hints: nil, want: full, format: s.format})
		// several formats named, in an order derived from the content (the reader tries them in turn:
		// a decoder that declines a symbol must not stop the others from being tried)
		all := []gozxing.BarcodeFormat{gozxing.BarcodeFormat_UPC_A, gozxing.BarcodeFormat_EAN_13, gozxing.BarcodeFormat_EAN_8, gozxing.BarcodeFormat_UPC_E}
		rot := 0
		for i := 0; i < len(full); i++ {
			rot += int(full[i])
		}
		order := make([]gozxing.BarcodeFormat, 4)
		for i := range order {
			order[i] = all[(i+rot)%4]
		}
		if rot%3 == 0 {
			order[0], order[1] = order[1], order[0]
		}
		ph := map[gozxing.DecodeHintType]interface{}{gozxing.DecodeHintType_POSSIBLE_FORMATS: order}
		many := c03Read{label: "multi+all-formats", rname: "multi/all", mk: func() gozxing.Reader { return oned.NewMultiFormatUPCEANReader(ph) }, hints: ph, want: full, format: s.format}
		if s == odUPCA {
			// both UPC-A and EAN-13 are named: either description of the same symbol is accepted
			many.altWant, many.altFormat, many.altTally = "0"+full, gozxing.BarcodeFormat_EAN_13, "dont_care_multi_all_upca_as_ean13"
		}
		if s == odEAN13 && full[0] == '0' {
			// an EAN-13 number with a leading 0 is a UPC-A number: with UPC_A among the requested formats it is reported as such
			many.altWant, many.altFormat, many.altTally = full[1:], gozxing.BarcodeFormat_UPC_A, "dont_care_multi_all_ean13_leading0_as_upca"
		}
		job.reads = append(job.reads, many)
		rd := c03Read{label: "multi", rname: "multi", mk: c03MultiNoHints, want: full, format: s.format}
		if s == odUPCA {
			// documented special case: without POSSIBLE_FORMATS naming UPC-A the symbol is an EAN-13 with leading 0
			rd.altWant, rd.altFormat, rd.altTally = "0"+full, gozxing.BarcodeFormat_EAN_13, "dont_care_multi_upca_as_ean13"
		}
		job.reads = append(job.reads, rd)
	}
	return job
}

const c03Code39Alphabet = onedref.Code39Alphabet

func c03Code39Plain() gozxing.Reader { return oned.NewCode39Reader() }
func c03Code39Ext() gozxing.Reader   { return oned.NewCode39ReaderWithFlags(false, true) }

// c03Code39Job: content inside the 43-character alphabet is read with the plain
// reader, anything else with the extended (full ASCII) reader.
func c03Code39Job(content string) *c03Job {
	job := &c03Job{format: gozxing.BarcodeFormat_CODE_39, mkW: oned.NewCode39Writer, wname: "code39", content: content}
	if odIn(c03Code39Alphabet, content) {
		job.sym = "code39"
		job.reads = []c03Read{{label: "reader", rname: "code39", mk: c03Code39Plain, want: content, format: gozxing.BarcodeFormat_CODE_39}}
	} else {
		job.sym = "code39ext"
		job.reads = []c03Read{{label: "reader", rname: "code39ext", mk: c03Code39Ext, want: content, format: gozxing.BarcodeFormat_CODE_39}}
	}
	return job
}

func c03Code93Job(content string) *c03Job {
	return &c03Job{sym: "code93", format: gozxing.BarcodeFormat_CODE_93, mkW: oned.NewCode93Writer, wname: "code93", content: content,
		reads: []c03Read{{label: "reader", rname: "code93", mk: oned.NewCode93Reader, want: content, format: gozxing.BarcodeFormat_CODE_93}}}
}

func c03Code128Job(content string, force string) *c03Job {
	job := &c03Job{sym: "code128auto", format: gozxing.BarcodeFormat_CODE_128, mkW: oned.NewCode128Writer, wname: "code128", content: content,
		reads: []c03Read{{label: "reader", rname: "code128", mk: oned.NewCode128Reader, want: content, format: gozxing.BarcodeFormat_CODE_128}}}
	if force != "" {
		job.sym = "code128force" + force
		job.ehints = map[gozxing.EncodeHintType]interface{}{gozxing.EncodeHintType_FORCE_CODE_SET: force}
	}
	return job
}

func c03ITFJob(content string) *c03Job {
	return &c03Job{sym: "itf", format: gozxing.BarcodeFormat_ITF, mkW: oned.NewITFWriter, wname: "itf", content: content,
		reads: []c03Read{{label: "reader", rname: "itf", mk: oned.NewITFReader, want: content, format: gozxing.BarcodeFormat_ITF}}}
}

const c03CodabarData = "0123456789-$:/.+"

// c03CodabarJob: content is either bare data or data between a start and a
// stop character.  The reader reports the data characters (its default) and,
// with RETURN_CODABAR_START_END, the data between the canonical guard letters
// (T N * E and lower case are other names of A B C D; bare data gets A..A).
func c03CodabarJob(start byte, data string, stop byte) *c03Job {
	content := data
	sym := "codabar"
	cs, ce := byte('A'), byte('A')
	if start != 0 {
		content = string(start) + data + string(stop)
		sym = "codabar+guards"
		cs, ce = odCodabarGuardCanon(start), odCodabarGuardCanon(stop)
	}
	return &c03Job{sym: sym, format: gozxing.BarcodeFormat_CODABAR, mkW: oned.NewCodaBarWriter, wname: "codabar", content: content,
		reads: []c03Read{
			{label: "reader", rname: "codabar", mk: oned.NewCodaBarReader, want: data, format: gozxing.BarcodeFormat_CODABAR},
			{label: "reader+startend", rname: "codabar", mk: oned.NewCodaBarReader, hints: map[gozxing.DecodeHintType]interface{}{gozxing.DecodeHintType_RETURN_CODABAR_START_END: true},
				want: string(cs) + data + string(ce), format: gozxing.BarcodeFormat_CODABAR},
		}}
}

// ---------------------------------------------------------------------------
// content generators
// ---------------------------------------------------------------------------

func c03FromAlphabet(rng *fw.Rand, alphabet string, n int) string {
	b := make([]byte, n)
	for i := range b {
		b[i] = alphabet[rng.Intn(len(alphabet))]
	}
	return string(b)
}

func c03Len(rng *fw.Rand, max int) int {
	switch rng.Intn(6) {
	case 0:
		return 1 + rng.Intn(3)
	case 1:
		return max - rng.Intn(3)
	}
	return 1 + rng.Intn(max)
}

// c03ASCII draws text with runs of one class: digits, upper/punctuation, lower, controls.
func c03ASCII(rng *fw.Rand, n int, classes string) string {
	b := make([]byte, 0, n)
	for len(b) < n {
		run := 1 + rng.Intn(6)
		cl := classes[rng.Intn(len(classes))]
		for k := 0; k < run && len(b) < n; k++ {
			switch cl {
			case 'd':
				b = append(b, byte('0'+rng.Intn(10)))
			case 'U': // 32..95 (shared by code sets A and B)
				b = append(b, byte(32+rng.Intn(64)))
			case 'l': // 96..127 incl. DEL
				b = append(b, byte(96+rng.Intn(32)))
			case 'c': // controls 0..31
				b = append(b, byte(rng.Intn(32)))
			case 'a': // any 0..127
				b = append(b, byte(rng.Intn(128)))
			case 'D': // DEL
				b = append(b, 127)
			}
		}
	}
	return string(b)
}

// c03Code128Auto: digit runs of every parity at the start, in the middle and at the end,
// controls (code set A), lower case / DEL (code set B).
func c03Code128Auto(rng *fw.Rand) string {
	n := c03Len(rng, 80)
	switch rng.Intn(4) {
	case 0:
		return c03ASCII(rng, n, "a")
	case 1:
		return c03ASCII(rng, n, "ddUlc")
	case 2: // structured: [text] digits [text] digits [text]
		var sb strings.Builder
		parts := 1 + rng.Intn(3)
		for p := 0; p < parts; p++ {
			if rng.Intn(3) != 0 || p > 0 {
				sb.WriteString(c03ASCII(rng, 1+rng.Intn(4), "UlcD"))
			}
			sb.WriteString(odDigits(rng, 1+rng.Intn(9)))
		}
		if rng.Bool() {
			sb.WriteString(c03ASCII(rng, 1+rng.Intn(4), "UlcD"))
		}
		s := sb.String()
		if len(s) > 80 {
			s = s[:80]
		}
		return s
	}
	return c03ASCII(rng, n, "dU")
}

func c03Code39ExtContent(rng *fw.Rand) string {
	for {
		n := c03Len(rng, 60)
		s := c03ASCII(rng, n, "aUl")
		// shorten until the escaped form fits the writer's 80 symbol characters
		for {
			x, _ := onedref.Code39Extended([]byte(s))
			if len(x) <= 80 {
				break
			}
			s = s[:len(s)-1]
		}
		if len(s) > 0 && !odIn(c03Code39Alphabet, s) {
			return s
		}
	}
}

func c03Code93Content(rng *fw.Rand) string {
	n := c03Len(rng, 80)
	var s string
	if rng.Bool() {
		s = c03FromAlphabet(rng, onedref.Code93Alphabet[:43], n)
	} else {
		s = c03ASCII(rng, n, "aUld")
	}
	for {
		v, _ := onedref.Code93Values([]byte(s))
		if len(v) <= 80 {
			return s
		}
		s = s[:len(s)-1]
	}
}

var c03ITFLengths = func() []int {
	l := []int{6, 8, 10, 12, 14}
	for n := 16; n <= 80; n += 2 {
		l = append(l, n)
	}
	return l
}()

var c03GuardsNormal = []byte("ABCD")
var c03GuardsAlt = []byte("TN*E")

// ---------------------------------------------------------------------------
// rejection list
// ---------------------------------------------------------------------------

type c03Rej struct {
	sym, class string
	format     gozxing.BarcodeFormat
	mkW        func() gozxing.Writer
	content    string
	ehints     map[gozxing.EncodeHintType]interface{}
}

func (e *c03Env) reject(rj c03Rej) bool {
	w := e.writer(rj.sym, rj.mkW)
	h := 1 + e.r.Rng.Intn(4)
	var m *gozxing.BitMatrix
	var err error
	msg, stack, panicked := fw.Guard(func() { m, err = w.Encode(rj.content, rj.format, 0, h, rj.ehints) })
	e.r.Evals(1)
	data := map[string]interface{}{"symbology": rj.sym, "class": rj.class, "content": odQuote(rj.content), "encode_hints": fmt.Sprint(rj.ehints)}
	if panicked {
		e.failed = true
		e.r.Violation("panic", rj.sym+".write:panic-on-"+rj.class, fmt.Sprintf("%s writer panicked on %s (%s): %s\n%s", rj.sym, odQuote(rj.content), rj.class, msg, stack), data)
		return false
	}
	if err == nil {
		e.viol(rj.sym+".write:accepts-"+rj.class, fmt.Sprintf("%s writer accepted %s (%s) and returned a %dx%d matrix", rj.sym, odQuote(rj.content), rj.class, m.GetWidth(), m.GetHeight()), data)
		return false
	}
	if m != nil {
		e.viol(rj.sym+".write:matrix-with-error", fmt.Sprintf("%s writer returned an error and a matrix for %s", rj.sym, odQuote(rj.content)), data)
		return false
	}
	e.r.Tally("rejected_" + rj.sym + "_" + rj.class)
	e.r.Tally("rejected_total")
	return true
}

// observe tallies what the writer does with a content on which the statement is silent.
func (e *c03Env) observe(class string, mk func() gozxing.Writer, format gozxing.BarcodeFormat, content string) {
	_, err := mk().Encode(content, format, 0, 1, nil)
	e.r.Evals(1)
	if err != nil {
		e.r.Tally("dont_care_" + class + "_refused_by_writer")
	} else {
		e.r.Tally("dont_care_" + class + "_accepted_by_writer")
	}
}

// non-digit bytes, all of them
var c03NonDigits = func() []byte {
	var b []byte
	for c := 0; c < 256; c++ {
		if c < '0' || c > '9' {
			b = append(b, byte(c))
		}
	}
	return b
}()

func c03SubstByte(s string, pos int, c byte) string {
	b := []byte(s)
	b[pos] = c
	return string(b)
}

// c03UPCEANRejects: every wrong length 0..20, every non-digit byte (at a seeded position, both
// input forms), every wrong check digit, UPC-E number systems 2..9.
func c03UPCEANRejects(e *c03Env, s *odUPCEAN) {
	rng := e.r.Rng
	rj := func(class, content string) bool {
		return e.reject(c03Rej{sym: s.name, class: class, format: s.format, mkW: s.writer, content: content})
	}
	// decimal digits outside ASCII (Arabic-Indic, fullwidth, Devanagari) are not digits of the symbology
	for _, alt := range []string{"\u0661", "\uff11", "\u0967"} {
		d := odDigits(rng, s.payload)
		k := rng.Intn(len(d))
		if !rj("non-ascii-digit", d[:k]+alt+d[k+1:]) || !rj("non-ascii-digit", strings.Repeat(alt, s.payload)) {
			return
		}
	}
	for n := 0; n <= 20; n++ {
		if n == s.payload || n == s.payload+1 {
			continue
		}
		p := odDigits(rng, n)
		if s == odUPCE && n > 0 {
			p = c03SubstByte(p, 0, byte('0'+rng.Intn(2)))
		}
		if !rj("wrong-length", p) {
			return
		}
	}
	for _, c := range c03NonDigits {
		p := s.randPayload(rng)
		if !rj("non-digit", c03SubstByte(p, rng.Intn(len(p)), c)) {
			return
		}
		f := s.full(s.randPayload(rng))
		if !rj("non-digit", c03SubstByte(f, rng.Intn(len(f)), c)) {
			return
		}
	}
	for k := 0; k < 40; k++ {
		p := s.randPayload(rng)
		ck := s.check(p)
		for d := 0; d < 10; d++ {
			if d == ck {
				continue
			}
			if !rj("wrong-check-digit", p+string(rune('0'+d))) {
				return
			}
		}
	}
	if s == odUPCE {
		for ns := 2; ns <= 9; ns++ {
			p := string(rune('0'+ns)) + odDigits(rng, 6)
			if !rj("number-system-2-9", p) {
				return
			}
			if !rj("number-system-2-9", p+string(rune('0'+onedref.Mod10(onedref.UPCEExpand(p[1:7], p[0]))))) {
				return
			}
		}
	}
}

func c03OtherRejects(e *c03Env, which string) {
	rng := e.r.Rng
	switch which {
	case "code39":
		rj := func(class, content string) bool {
			return e.reject(c03Rej{sym: "code39", class: class, format: gozxing.BarcodeFormat_CODE_39, mkW: oned.NewCode39Writer, content: content})
		}
		if !rj("wrong-length", "") {
			return
		}
		for n := 81; n <= 100; n++ {
			if !rj("wrong-length", c03FromAlphabet(rng, c03Code39Alphabet, n)) {
				return
			}
		}
		for c := 128; c < 256; c++ {
			s := c03FromAlphabet(rng, c03Code39Alphabet, 1+rng.Intn(10))
			if !rj("non-ascii-byte", c03SubstByte(s, rng.Intn(len(s)), byte(c))) {
				return
			}
		}
		// full ASCII whose escaped form needs more than 80 symbol characters: the quantifier is silent
		for k := 0; k < 20; k++ {
			e.observe("code39_escaped_form_over_80", oned.NewCode39Writer, gozxing.BarcodeFormat_CODE_39, c03ASCII(rng, 41+rng.Intn(40), "l"))
		}
	case "code93":
		rj := func(class, content string) bool {
			return e.reject(c03Rej{sym: "code93", class: class, format: gozxing.BarcodeFormat_CODE_93, mkW: oned.NewCode93Writer, content: content})
		}
		if !rj("wrong-length", "") {
			return
		}
		// more than 80 symbol characters: the quantifier states no Code 93 length limit
		for n := 81; n <= 100; n++ {
			e.observe("code93_over_80_symbol_characters", oned.NewCode93Writer, gozxing.BarcodeFormat_CODE_93, c03FromAlphabet(rng, onedref.Code93Alphabet[:43], n))
		}
		for k := 0; k < 20; k++ {
			e.observe("code93_over_80_symbol_characters", oned.NewCode93Writer, gozxing.BarcodeFormat_CODE_93, c03ASCII(rng, 41+rng.Intn(40), "l"))
		}
		for c := 128; c < 256; c++ {
			s := c03FromAlphabet(rng, onedref.Code93Alphabet[:43], 1+rng.Intn(10))
			if !rj("non-ascii-byte", c03SubstByte(s, rng.Intn(len(s)), byte(c))) {
				return
			}
		}
	case "code128":
		rj := func(class, content, force string) bool {
			var h map[gozxing.EncodeHintType]interface{}
			if force != "" {
				h = map[gozxing.EncodeHintType]interface{}{gozxing.EncodeHintType_FORCE_CODE_SET: force}
			}
			return e.reject(c03Rej{sym: "code128", class: class, format: gozxing.BarcodeFormat_CODE_128, mkW: oned.NewCode128Writer, content: content, ehints: h})
		}
		if !rj("wrong-length", "", "") {
			return
		}
		for n := 81; n <= 100; n++ {
			if !rj("wrong-length", c03ASCII(rng, n, "dUl"), "") {
				return
			}
		}
		for c := 128; c < 256; c++ { // raw bytes (not valid UTF-8)
			s := c03ASCII(rng, 1+rng.Intn(10), "dUl")
			if !rj("non-ascii-byte", c03SubstByte(s, rng.Intn(len(s)), byte(c)), "") {
				return
			}
		}
		for c := rune(128); c < 0x100; c++ { // Latin-1 is reachable through FNC4 in ISO/IEC 15417: refusal not demanded
			if c >= 0xf1 && c <= 0xf4 { // the writer's FNC escapes
				continue
			}
			e.observe("code128_latin1", oned.NewCode128Writer, gozxing.BarcodeFormat_CODE_128, "AB"+string(c)+"12")
		}
		for _, c := range []rune{0x100, 0x101, 0x17f, 0x391, 0x20ac, 0x3042, 0xfffd, 0x1f600} { // beyond Latin-1: not encodable
			if !rj("rune-beyond-latin1", "AB"+string(c)+"12", "") {
				return
			}
		}
		for c := 96; c < 128; c++ {
			s := c03ASCII(rng, 1+rng.Intn(6), "Uc")
			if !rj("not-in-forced-set-A", c03SubstByte(s, rng.Intn(len(s)), byte(c)), "A") {
				return
			}
		}
		for c := 0; c < 32; c++ {
			s := c03ASCII(rng, 1+rng.Intn(6), "l")
			if !rj("not-in-forced-set-B", c03SubstByte(s, rng.Intn(len(s)), byte(c)), "B") {
				return
			}
		}
		for c := 0; c < 128; c++ {
			if c >= '0' && c <= '9' {
				continue
			}
			s := odDigits(rng, 2*(1+rng.Intn(4)))
			if !rj("not-in-forced-set-C", c03SubstByte(s, rng.Intn(len(s)), byte(c)), "C") {
				return
			}
		}
		for n := 1; n <= 21; n += 2 {
			if !rj("odd-digits-forced-set-C", odDigits(rng, n), "C") {
				return
			}
		}
	case "itf":
		rj := func(class, content string) bool {
			return e.reject(c03Rej{sym: "itf", class: class, format: gozxing.BarcodeFormat_ITF, mkW: oned.NewITFWriter, content: content})
		}
		for _, alt := range []string{"\u0661", "\uff11", "\u0967"} {
			// UTF-8 byte length even and <= 80 on purpose: only the character check can refuse these
			for _, c := range []string{alt + alt, "12" + alt + alt, alt + alt + "34" + alt + alt, strings.Repeat(alt, 6)} {
				if !rj("non-ascii-digit", c) {
					return
				}
			}
		}
		if !rj("wrong-length", "") {
			return
		}
		for n := 1; n <= 99; n += 2 {
			if !rj("wrong-length", odDigits(rng, n)) {
				return
			}
		}
		for n := 82; n <= 120; n += 2 {
			if !rj("wrong-length", odDigits(rng, n)) {
				return
			}
		}
		for _, c := range c03NonDigits {
			s := odDigits(rng, c03ITFLengths[rng.Intn(len(c03ITFLengths))])
			if !rj("non-digit", c03SubstByte(s, rng.Intn(len(s)), c)) {
				return
			}
		}
	case "codabar":
		rj := func(class, content string) bool {
			return e.reject(c03Rej{sym: "codabar", class: class, format: gozxing.BarcodeFormat_CODABAR, mkW: oned.NewCodaBarWriter, content: content})
		}
		if !rj("wrong-length", "") {
			return
		}
		for c := 0; c < 256; c++ {
			if strings.IndexByte(c03CodabarData, byte(c)) >= 0 {
				continue
			}
			// a byte outside the 16 data characters between data characters, bare and guarded
			d := c03FromAlphabet(rng, c03CodabarData, 2+rng.Intn(8))
			d = c03SubstByte(d, 1+rng.Intn(len(d)-1), byte(c))
			if strings.IndexByte("ABCDTN*Eabcdtne", d[len(d)-1]) >= 0 {
				d += "1" // keep the foreign byte strictly inside
			}
			if !rj("non-data-character", "1"+d) {
				return
			}
			if !rj("non-data-character", "A1"+d+"B") {
				return
			}
		}
		// a start character without a stop character and vice versa, mixed guard families
		for _, g := range "ABCDTN*Eabcdtne" {
			d := c03FromAlphabet(rng, c03CodabarData, 2+rng.Intn(8))
			if !rj("unpaired-guard", string(g)+d) {
				return
			}
			if !rj("unpaired-guard", d+string(g)) {
				return
			}
		}
		for _, a := range c03GuardsNormal {
			for _, b := range c03GuardsAlt {
				d := c03FromAlphabet(rng, c03CodabarData, 2+rng.Intn(8))
				// A..E etc.: T N * E are other names of A B C D, so refusal is not demanded
				e.observe("codabar_mixed_guard_families", oned.NewCodaBarWriter, gozxing.BarcodeFormat_CODABAR, string(a)+d+string(b))
				e.observe("codabar_mixed_guard_families", oned.NewCodaBarWriter, gozxing.BarcodeFormat_CODABAR, string(b)+d+string(a))
			}
		}
	}
}

// c03MultiHistory reads a long history of written UPC/EAN symbols of all four kinds on ONE
// multi-format reader instance (what was read before must not change what is read next):
// every UPC-A / EAN-13 / UPC-E symbol directly after an EAN-8 symbol, and the other way round.
func c03MultiHistory(r *fw.Rec, n int, allFormats bool) {
	rng := r.Rng
	var hints map[gozxing.DecodeHintType]interface{}
	if allFormats {
		hints = map[gozxing.DecodeHintType]interface{}{gozxing.DecodeHintType_POSSIBLE_FORMATS: []gozxing.BarcodeFormat{gozxing.BarcodeFormat_EAN_13, gozxing.BarcodeFormat_EAN_8, gozxing.BarcodeFormat_UPC_E}}
	}
	multi := oned.NewMultiFormatUPCEANReader(hints)
	writers := map[*odUPCEAN]gozxing.Writer{}
	for _, s := range odAllUPCEAN {
		writers[s] = s.writer()
	}
	forced := ""
	read := func(s *odUPCEAN, after string) bool {
		payload := string(byte('0'+rng.Intn(s.maxFirst))) + odDigits(rng, s.payload-1)
		if forced != "" {
			payload, forced = forced[:s.payload], ""
		}
		full := s.full(payload)
		want, wantF := full, s.format
		if s == odUPCA { // documented: without UPC_A among the requested formats a UPC-A symbol is the EAN-13 number with a leading 0
			want, wantF = "0"+full, gozxing.BarcodeFormat_EAN_13
		}
		var eh map[gozxing.EncodeHintType]interface{}
		if s == odUPCE {
			eh = map[gozxing.EncodeHintType]interface{}{gozxing.EncodeHintType_MARGIN: 14}
		}
		m, err := writers[s].Encode(payload, s.format, 0, 1, eh)
		if err != nil {
			r.Violation("model-mismatch", s.name+".write:rejects-acceptable-content", fmt.Sprintf("%s writer refused %s: %v", s.name, payload, err), nil)
			return false
		}
		bmp, _ := gozxing.NewBinaryBitmapFromImage(m)
		res, err := multi.Decode(bmp, hints)
		r.Evals(1)
		data := map[string]interface{}{"symbology": s.name, "content": payload, "read_directly_after": after, "possible_formats_hint": allFormats}
		if err != nil {
			r.Violation("model-mismatch", "multi-history:"+s.name+":error-after-"+after, fmt.Sprintf("one multi-format reader instance: %s %s, read directly after %s symbol, failed: %v", s.name, payload, after, err), data)
			return false
		}
		if res.GetText() != want || res.GetBarcodeFormat() != wantF {
			r.Violation("model-mismatch", "multi-history:"+s.name+":wrong-result-after-"+after, fmt.Sprintf("one multi-format reader instance: %s %s, read directly after %s symbol, returned %s/%v, expected %s/%v", s.name, payload, after, res.GetText(), res.GetBarcodeFormat(), want, wantF), data)
			return false
		}
		r.Tally("multi_history_" + s.name + "_after_" + after)
		return true
	}
	amb := conc.AmbiguousUPCA()
	for i := 0; i < n; i++ {
		if !read(odEAN8, "an earlier") || !read(odUPCA, "an EAN-8") || !read(odEAN8, "a UPC-A") || !read(odEAN13, "an EAN-8") || !read(odUPCE, "an EAN-13") || !read(odUPCA, "a UPC-E") {
			return
		}
		if len(amb) > 0 {
			// a UPC-A symbol that the EAN-8 decoder alone would accept too, directly after an EAN-8 symbol
			if !read(odEAN8, "a UPC-A") {
				return
			}
			forced = amb[i%len(amb)]
			if !read(odUPCA, "an EAN-8 (this symbol also holds a verifying EAN-8 reading)") {
				return
			}
			r.Tally("multi_history_ean8_lookalike_upca_after_ean8")
		}
	}
	r.Nontrivial(fmt.Sprintf("multi-history/%v/%d", allFormats, rng.Uint64()))
}

// ---------------------------------------------------------------------------
// exhaustive / sampled sweeps of UPC-E and EAN-8 at height 1
// ---------------------------------------------------------------------------

const c03Chunk = 20000

// c03Sweep writes the payloads lo..hi-1 (all, or a seeded sample of `sample`) in the
// short form, every 8th also in the long form, and reads them back.
func c03Sweep(r *fw.Rec, s *odUPCEAN, lo, hi, sample int) {
	e := newC03Env(r)
	w := e.writer(s.name, s.writer)
	rd := e.reader(s.name, s.reader)
	pf := map[gozxing.DecodeHintType]interface{}{gozxing.DecodeHintType_POSSIBLE_FORMATS: []gozxing.BarcodeFormat{s.format}}
	multi := oned.NewMultiFormatUPCEANReader(pf)
	one := func(v int, k int) bool {
		payload := odPad(v, s.payload)
		full := s.full(payload)
		contents := []string{payload} // every payload in the short form ...
		if k%8 == 5 {
			contents = append(contents, full) // ... every 8th also with its check digit
		}
		for _, content := range contents {
			form := fmt.Sprint(len(content))
			data := map[string]interface{}{"symbology": s.name, "content": content, "height": 1, "width": 0}
			// UPC-E: the sweep uses a 14-module quiet zone ("any larger margin"); with the default
			// one the reader refuses every image (open known finding, exercised by the upce/rt cases)
			var eh map[gozxing.EncodeHintType]interface{}
			if s == odUPCE {
				eh = map[gozxing.EncodeHintType]interface{}{gozxing.EncodeHintType_MARGIN: 14}
			}
			m, err := w.Encode(content, s.format, 0, 1, eh)
			if err != nil || m == nil {
				r.Violation("model-mismatch", s.name+form+".write:rejects-acceptable-content", fmt.Sprintf("%s writer refused %s: %v", s.name, content, err), data)
				return false
			}
			bmp, err := gozxing.NewBinaryBitmapFromImage(m)
			if err != nil {
				r.Violation("model-mismatch", s.name+form+".bitmap:error", fmt.Sprint(err), data)
				return false
			}
			readers := []gozxing.Reader{rd}
			labels := []string{"reader"}
			if k%4 == 1 {
				readers = append(readers, multi)
				labels = append(labels, "multi+formats")
			}
			for i, x := range readers {
				var h map[gozxing.DecodeHintType]interface{}
				if i == 1 {
					h = pf
				}
				res, err := x.Decode(bmp, h)
				if err != nil {
					r.Violation("model-mismatch", s.name+form+"."+labels[i]+":error"+c03Diag(m, s.pattern(full)), fmt.Sprintf("%s: %s of the written image of %s failed: %s %v (canonical content %s)", s.name, labels[i], content, odErrKind(err), err, full), data)
					return false
				}
				if res.GetText() != full {
					r.Violation("model-mismatch", s.name+form+"."+labels[i]+":wrong-text"+c03Diag(m, s.pattern(full)), fmt.Sprintf("%s: %s of the written image of %s returned %s, canonical content is %s", s.name, labels[i], content, res.GetText(), full), data)
					return false
				}
				if res.GetBarcodeFormat() != s.format {
					r.Violation("model-mismatch", s.name+form+"."+labels[i]+":wrong-format", fmt.Sprintf("%s: %s of %s returned format %v", s.name, labels[i], content, res.GetBarcodeFormat()), data)
					return false
				}
			}
		}
		return true
	}
	n := 0
	if sample <= 0 {
		for v := lo; v < hi; v++ {
			if !one(v, v) {
				return
			}
			n++
		}
	} else {
		for k := 0; k < sample; k++ {
			if !one(lo+r.Rng.Intn(hi-lo), k) {
				return
			}
			n++
		}
	}
	r.Evals(int64(2 * n))
	r.TallyN("sweep_"+s.name+"_payloads_read_back", int64(n))
	r.NontrivialH(odHash(fmt.Sprintf("sweep/%s/%d/%d", s.name, lo, sample)))
	if lo == 0 {
		r.Sample(map[string]interface{}{"kind": "sweep", "symbology": s.name, "payloads": fmt.Sprintf("%s..%s", odPad(lo, s.payload), odPad(hi-1, s.payload)), "sampled": sample, "height": 1, "forms": "every payload in the short form, every 8th also with its check digit; every 4th also through the multi-format reader"})
	}
}

// ---------------------------------------------------------------------------
// driver
// ---------------------------------------------------------------------------

func c03(c *fw.Ctx) {
	c.Rule("per symbology seeded contents from the accepted set of the quantifier (EAN-13 12/13, EAN-8 7/8, UPC-A 11/12, UPC-E 7/8 digits with number system 0/1, incl. all-0, all-9 and zero-rich numbers; Code 39 1..80 alphabet characters and full ASCII whose escaped form fits 80; Code 93 ASCII 0..127 fitting 80 symbol characters; Code 128 ASCII 0..127 up to 80 with digit runs of every parity at start/middle/end, controls, lower case and DEL, and every content of forced code sets A (0..95), B (32..127), C (even digit strings); ITF every length 6..14 and 16..80; Codabar 2..40 data characters bare and with all 16 normal, 16 alternate and lower-case guard pairs) x requested width in {0, natural, natural+k, 2..6 x natural + k, 33..52 x natural + k}, height 0..80, MARGIN hint absent / default / default+1..40 (int and string form); systematic cases: every single character of each alphabet, every Code 128 digit-run length 1..12 in every context; rejection list: every wrong length, every byte outside the alphabet, every wrong check digit, unpaired/mixed Codabar guards; sweeps: all (thorough) or 100 000 sampled (quick) UPC-E numbers and EAN-8 payloads at height 1. Expected text comes from onedref (independent mod-10, UPC-E expansion, escape tables). distinct = distinct (symbology, content, size) Histories of 4 800 reads of written EAN-8 / UPC-A / EAN-13 / UPC-E symbols on ONE multi-format reader instance (with and without POSSIBLE_FORMATS), every kind directly after every other.")
	c.Assume("natural width is taken from the writer's own answer to width 0 (workload only, not oracle); images above 160 000 pixels get their height reduced")
	c.Assume("don't care (DESIGN C03): multi-format reader without POSSIBLE_FORMATS may report a UPC-A symbol as EAN-13 '0'+content; Code 39 is read with the plain reader when the content lies inside the 43-character alphabet and with the extended reader otherwise (the inherent ambiguity of full-ASCII Code 39 is not charged); ITF lengths 2 and 4 (outside the reader's accepted lengths) and Codabar with fewer than 2 data characters are outside the quantifier and only tallied; Code 39 full-ASCII contents whose escaped form exceeds 80 symbol characters, Code 93 contents over 80 symbol characters, Code 128 Latin-1 characters 128..255 (reachable through FNC4 in ISO/IEC 15417), Codabar contents mixing the guard families (A..E) and the size of the returned matrix are not fixed by the statement: observed and tallied only; lower-case Codabar guards may be refused, but must round-trip if accepted; Code 128 FNC escapes U+00F1..U+00F4 are not content and not generated")
	c.Assume("Codabar canonical form: the default reader returns the data characters without start/stop; with RETURN_CODABAR_START_END the canonical letters A-D (T N * E and lower case are aliases, bare data gets A..A)")
	c.Assume("forced code set: the accepted set is the set's character repertoire of ISO/IEC 15417 (A: 0..95, B: 32..127, C: digit pairs); a refusal of such a content is charged as 'writer rejects an acceptable content'")

	q := c.Quick()
	per := 40
	// --- UPC/EAN round trips ---
	for _, s := range odAllUPCEAN {
		s := s
		ncase := c.Pick(800, 10000)
		for i := 0; i < ncase; i++ {
			c.Run(fmt.Sprintf("%s/rt/%d", s.name, i), func(r *fw.Rec) {
				e := newC03Env(r)
				for k := 0; k < per; k++ {
					payload := s.randPayload(r.Rng)
					withCheck := r.Rng.Bool()
					job := c03UPCEANJob(s, payload, withCheck, true)
					sz := c03RandSize(r.Rng)
					if !e.c03Do(job, sz) {
						return
					}
					r.NontrivialH(odHash(job.sym + "|" + job.content + "|" + fmt.Sprint(sz)))
				}
				if i == 0 && s == odUPCE {
					p := s.randPayload(r.Rng)
					r.Sample(map[string]interface{}{"kind": "round trip", "symbology": "UPC-E", "content": p, "canonical": s.full(p), "expanded": onedref.UPCEExpand(p[1:7], p[0])})
				}
			})
		}
	}
	// --- Code 39 ---
	ncase := c.Pick(700, 9000)
	for i := 0; i < ncase; i++ {
		c.Run(fmt.Sprintf("code39/rt/%d", i), func(r *fw.Rec) {
			e := newC03Env(r)
			for k := 0; k < per; k++ {
				var content string
				if k%2 == 0 {
					content = c03FromAlphabet(r.Rng, c03Code39Alphabet, c03Len(r.Rng, 80))
				} else {
					content = c03Code39ExtContent(r.Rng)
				}
				job := c03Code39Job(content)
				sz := c03RandSize(r.Rng)
				if !e.c03Do(job, sz) {
					return
				}
				r.NontrivialH(odHash(job.sym + "|" + content + "|" + fmt.Sprint(sz)))
			}
			if i == 0 {
				s := c03Code39ExtContent(r.Rng)
				x, _ := onedref.Code39Extended([]byte(s))
				r.Sample(map[string]interface{}{"kind": "round trip", "symbology": "Code 39 full ASCII", "content": odQuote(s), "symbol_characters": x})
			}
		})
	}
	// --- Code 93 ---
	for i := 0; i < ncase; i++ {
		c.Run(fmt.Sprintf("code93/rt/%d", i), func(r *fw.Rec) {
			e := newC03Env(r)
			for k := 0; k < per; k++ {
				content := c03Code93Content(r.Rng)
				job := c03Code93Job(content)
				sz := c03RandSize(r.Rng)
				if !e.c03Do(job, sz) {
					return
				}
				r.NontrivialH(odHash(job.sym + "|" + content + "|" + fmt.Sprint(sz)))
			}
		})
	}
	// --- Code 128: auto and forced sets ---
	for _, force := range []string{"", "A", "B", "C"} {
		force := force
		n128 := c.Pick(500, 6000)
		if force == "" {
			n128 = c.Pick(1500, 18000)
		}
		for i := 0; i < n128; i++ {
			c.Run(fmt.Sprintf("code128/%s/%d", map[string]string{"": "auto", "A": "A", "B": "B", "C": "C"}[force], i), func(r *fw.Rec) {
				e := newC03Env(r)
				for k := 0; k < per; k++ {
					var content string
					switch force {
					case "":
						content = c03Code128Auto(r.Rng)
					case "A":
						content = c03ASCII(r.Rng, c03Len(r.Rng, 80), "Ucd")
					case "B":
						content = c03ASCII(r.Rng, c03Len(r.Rng, 80), "UlD")
					case "C":
						content = odDigits(r.Rng, 2*(1+r.Rng.Intn(40)))
					}
					job := c03Code128Job(content, force)
					sz := c03RandSize(r.Rng)
					if force == "B" && strings.IndexByte(content, ' ') >= 0 {
						r.Tally("code128_forced_B_contents_with_space")
					}
					if !e.c03Do(job, sz) {
						return
					}
					r.NontrivialH(odHash(job.sym + "|" + content + "|" + fmt.Sprint(sz)))
				}
				if i == 0 && force == "" {
					s := c03Code128Auto(r.Rng)
					r.Sample(map[string]interface{}{"kind": "round trip", "symbology": "Code 128", "content": odQuote(s)})
				}
			})
		}
	}
	// --- ITF ---
	nitf := c.Pick(15, 200)
	for _, n := range c03ITFLengths {
		n := n
		for i := 0; i < nitf; i++ {
			c.Run(fmt.Sprintf("itf/len%d/%d", n, i), func(r *fw.Rec) {
				e := newC03Env(r)
				for k := 0; k < 24; k++ {
					content := odDigits(r.Rng, n)
					if k == 0 {
						content = strings.Repeat("0", n)
					}
					job := c03ITFJob(content)
					sz := c03RandSize(r.Rng)
					if !e.c03Do(job, sz) {
						return
					}
					r.NontrivialH(odHash("itf|" + content + "|" + fmt.Sprint(sz)))
				}
				r.Tally(fmt.Sprintf("itf_lengths_covered_%02d", n))
			})
		}
	}
	c.Exhaustive("ITF content lengths 6..14 and 16..80 (every even length, contents sampled)")
	// ITF lengths 2 and 4: outside the quantifier, observed only
	c.Run("itf/short", func(r *fw.Rec) {
		w := oned.NewITFWriter()
		rd := oned.NewITFReader()
		for _, n := range []int{2, 4} {
			for k := 0; k < 10; k++ {
				content := odDigits(r.Rng, n)
				m, err := w.Encode(content, gozxing.BarcodeFormat_ITF, 0, 3, nil)
				if err != nil {
					r.Tally("dont_care_itf_short_refused_by_writer")
					continue
				}
				res, err := odDecode(rd, m, nil)
				if err != nil {
					r.Tally("dont_care_itf_short_refused_by_reader")
				} else if res.GetText() == content {
					r.Tally("dont_care_itf_short_read")
				} else {
					r.Tally("dont_care_itf_short_read_differently")
				}
			}
		}
	})
	// --- Codabar ---
	ncb := c.Pick(700, 9000)
	for i := 0; i < ncb; i++ {
		c.Run(fmt.Sprintf("codabar/rt/%d", i), func(r *fw.Rec) {
			e := newC03Env(r)
			for k := 0; k < per; k++ {
				data := c03FromAlphabet(r.Rng, c03CodabarData, 2+r.Rng.Intn(39))
				var job *c03Job
				switch r.Rng.Intn(4) {
				case 0:
					job = c03CodabarJob(0, data, 0)
				case 1:
					job = c03CodabarJob(c03GuardsNormal[r.Rng.Intn(4)], data, c03GuardsNormal[r.Rng.Intn(4)])
				case 2:
					job = c03CodabarJob(c03GuardsAlt[r.Rng.Intn(4)], data, c03GuardsAlt[r.Rng.Intn(4)])
				default: // lower-case guards of one family
					fam := c03GuardsNormal
					if r.Rng.Bool() {
						fam = []byte("TNE")
					}
					lower := func(b byte) byte { return b | 0x20 }
					a, b := fam[r.Rng.Intn(len(fam))], fam[r.Rng.Intn(len(fam))]
					if r.Rng.Bool() {
						a = lower(a)
					} else {
						b = lower(b)
					}
					job = c03CodabarJob(a, data, b)
					job.optional = "codabar_lower_case_guards"
				}
				sz := c03RandSize(r.Rng)
				if !e.c03Do(job, sz) {
					return
				}
				r.NontrivialH(odHash("codabar|" + job.content + "|" + fmt.Sprint(sz)))
			}
		})
	}
	// every guard pair, both families, both cases
	c.Run("codabar/pairs", func(r *fw.Rec) {
		e := newC03Env(r)
		for _, fam := range []string{"ABCD", "TN*E", "abcd", "tn*e"} {
			for i := 0; i < 4; i++ {
				for j := 0; j < 4; j++ {
					data := c03FromAlphabet(r.Rng, c03CodabarData, 2+r.Rng.Intn(12))
					job := c03CodabarJob(fam[i], data, fam[j])
					if fam[0] >= 'a' {
						job.optional = "codabar_lower_case_guards"
					}
					if !e.c03Do(job, c03RandSize(r.Rng)) {
						return
					}
					r.Tally("codabar_guard_pairs_covered")
					r.NontrivialH(odHash("codabar-pair|" + job.content))
				}
			}
		}
		r.Sample(map[string]interface{}{"kind": "round trip", "symbology": "Codabar", "content": "T12-34$E", "canonical_default": "12-34$", "canonical_with_RETURN_CODABAR_START_END": "A12-34$D"})
	})
	c.Exhaustive("Codabar start/stop pairs: 16 normal (ABCD), 16 alternate (TN*E), and their lower-case forms")
	// fewer than 2 data characters: outside the quantifier
	c.Run("codabar/short", func(r *fw.Rec) {
		w := oned.NewCodaBarWriter()
		rd := oned.NewCodaBarReader()
		for _, content := range []string{"5", "A5B", "-", "C$D", "T7E"} {
			m, err := w.Encode(content, gozxing.BarcodeFormat_CODABAR, 0, 3, nil)
			if err != nil {
				r.Tally("dont_care_codabar_single_data_character_refused_by_writer")
				continue
			}
			if _, err := odDecode(rd, m, nil); err != nil {
				r.Tally("dont_care_codabar_single_data_character_refused_by_reader")
			} else {
				r.Tally("dont_care_codabar_single_data_character_read")
			}
		}
	})
	// --- systematic single characters and digit-run lengths ---
	c.Run("sys/code39-chars", func(r *fw.Rec) {
		e := newC03Env(r)
		for ch := 0; ch < 128; ch++ {
			for _, content := range []string{string(rune(ch)), "A" + string(rune(ch)) + "1", string(rune(ch)) + string(rune(ch))} {
				if !e.c03Do(c03Code39Job(content), c03Size{mode: "w0", height: 1 + ch%5, margin: -1}) {
					return
				}
				r.Tally("sys_code39_characters")
			}
		}
	})
	c.Exhaustive("Code 39: every ASCII character 0..127 alone, embedded and doubled (plain or full-ASCII mode as the content requires)")
	c.Run("sys/code93-chars", func(r *fw.Rec) {
		e := newC03Env(r)
		for ch := 0; ch < 128; ch++ {
			for _, content := range []string{string(rune(ch)), "A" + string(rune(ch)) + "1", string(rune(ch)) + string(rune(ch))} {
				if !e.c03Do(c03Code93Job(content), c03Size{mode: "w0", height: 1 + ch%5, margin: -1}) {
					return
				}
				r.Tally("sys_code93_characters")
			}
		}
	})
	c.Exhaustive("Code 93: every ASCII character 0..127 alone, embedded and doubled")
	for _, force := range []string{"", "A", "B"} {
		force := force
		c.Run("sys/code128-chars/"+map[string]string{"": "auto", "A": "A", "B": "B"}[force], func(r *fw.Rec) {
			e := newC03Env(r)
			lo, hi := 0, 128
			if force == "A" {
				hi = 96
			}
			if force == "B" {
				lo = 32
			}
			for ch := lo; ch < hi; ch++ {
				for _, content := range []string{string(rune(ch)), "A" + string(rune(ch)) + "1", string(rune(ch)) + string(rune(ch))} {
					if !e.c03Do(c03Code128Job(content, force), c03Size{mode: "w0", height: 1 + ch%5, margin: -1}) {
						return
					}
					r.Tally("sys_code128_characters_" + map[string]string{"": "auto", "A": "forced_A", "B": "forced_B"}[force])
				}
			}
		})
	}
	c.Exhaustive("Code 128: every character of each repertoire alone, embedded and doubled (auto 0..127, forced A 0..95, forced B 32..127)")
	c.Run("sys/code128-digit-runs", func(r *fw.Rec) {
		e := newC03Env(r)
		ctx := []string{"", "A", "a", "\x01", "Ab", "~", " "}
		for n := 1; n <= 12; n++ {
			for _, pre := range ctx {
				for _, suf := range ctx {
					d := odDigits(r.Rng, n)
					if !e.c03Do(c03Code128Job(pre+d+suf, ""), c03Size{mode: "w0", height: 2, margin: -1}) {
						return
					}
					// two runs separated by one character
					if !e.c03Do(c03Code128Job(d+"-"+pre+odDigits(r.Rng, n+1)+suf, ""), c03Size{mode: "w0", height: 2, margin: -1}) {
						return
					}
					r.Tally("sys_code128_digit_runs")
				}
			}
		}
		for n := 2; n <= 80; n += 2 { // every even digit-only length in forced C
			if !e.c03Do(c03Code128Job(odDigits(r.Rng, n), "C"), c03Size{mode: "w0", height: 2, margin: -1}) {
				return
			}
		}
		for n := 1; n <= 80; n++ { // every digit-only length, automatic
			if !e.c03Do(c03Code128Job(odDigits(r.Rng, n), ""), c03Size{mode: "w0", height: 2, margin: -1}) {
				return
			}
		}
	})
	c.Exhaustive("Code 128: digit-run lengths 1..12 in every listed left/right context; digit-only lengths 1..80")
	// --- rejection list ---
	for _, s := range odAllUPCEAN {
		s := s
		c.Run("reject/"+s.name, func(r *fw.Rec) { c03UPCEANRejects(newC03Env(r), s) })
	}
	for _, which := range []string{"code39", "code93", "code128", "itf", "codabar"} {
		which := which
		c.Run("reject/"+which, func(r *fw.Rec) { c03OtherRejects(newC03Env(r), which) })
	}
	// --- sweeps ---
	for _, s := range []*odUPCEAN{odUPCE, odEAN8} {
		s := s
		total := 2000000
		if s == odEAN8 {
			total = 10000000
		}
		if q {
			// 100 000 per symbology, stratified over the whole range
			strata := 100
			for i := 0; i < strata; i++ {
				lo, hi := i*(total/strata), (i+1)*(total/strata)
				c.Run(fmt.Sprintf("%s/sample/%d", s.name, i), func(r *fw.Rec) { c03Sweep(r, s, lo, hi, 1000) })
			}
		} else {
			for lo := 0; lo < total; lo += c03Chunk {
				lo := lo
				c.Run(fmt.Sprintf("%s/all/%d", s.name, lo/c03Chunk), func(r *fw.Rec) { c03Sweep(r, s, lo, lo+c03Chunk, 0) })
			}
		}
	}
	nh := 16
	if !q {
		nh = 160
	}
	for i := 0; i < nh; i++ {
		i := i
		c.Run(fmt.Sprintf("multi-history/%d", i), func(r *fw.Rec) { c03MultiHistory(r, 800, i%2 == 1) })
	}
	c.Floor("multi_history_upca_after_an EAN-8", 10000)
	c.Floor("multi_history_ean8_lookalike_upca_after_ean8", 5000)
	c.Floor("renderings_wider_than_32_px_per_module", 300)
	c.Run("cold", func(r *fw.Rec) { c03Cold(r) })
	c.Floor("cold_start_first_operations", 35)
	if !q {
		c.Exhaustive("all 2 000 000 UPC-E numbers (number system 0/1 x 6 digits) written from the 7-digit form and read back at height 1")
		c.Exhaustive("all 10 000 000 EAN-8 payloads written from the 7-digit form and read back at height 1")
	}
	for _, s := range odAllUPCEAN {
		c.Floor("read_reader_"+s.name+fmt.Sprint(s.payload), 300)
		c.Floor("read_reader_"+s.name+fmt.Sprint(s.payload+1), 300)
		c.Floor("read_multi+formats_"+s.name+fmt.Sprint(s.payload), 300)
	}
	for _, k := range []string{"code39", "code39ext", "code93", "code128auto", "code128forceA", "code128forceB", "code128forceC", "itf", "codabar", "codabar+guards"} {
		c.Floor("read_reader_"+k, 300)
	}
	c.Floor("read_reader+startend_codabar+guards", 300)
	c.Floor("rejected_total", 3000)
	c.Floor("sweep_upce_payloads_read_back", int64(c.Pick(100000, 2000000)))
	c.Floor("sweep_ean8_payloads_read_back", int64(c.Pick(100000, 10000000)))
	c.Floor("codabar_guard_pairs_covered", 64)
}
