package dmref

import (
	"bytes"
	"fmt"
	"testing"

	"verifharness/ref/gf"
	"verifharness/ref/rs"
)

func TestTableConsistency(t *testing.T) {
	syms := Symbols()
	if len(syms) != 30 {
		t.Fatalf("want 30 symbols, got %d", len(syms))
	}
	nsq, nrect := 0, 0
	for i, s := range syms {
		if s.Rect {
			nrect++
		} else {
			nsq++
			if s.Rows != s.Cols {
				t.Errorf("%dx%d flagged square", s.Rows, s.Cols)
			}
		}
		if s.Rows != (s.RegionRows+2)*s.VRegions || s.Cols != (s.RegionCols+2)*s.HRegions {
			t.Errorf("%dx%d: region geometry inconsistent", s.Rows, s.Cols)
		}
		// every mapping-matrix module belongs to a codeword, except 4 spare ones when area%8==4
		area := s.MappingRows() * s.MappingCols()
		if area/8 != s.DataCW+s.ECCW {
			t.Errorf("%dx%d: area %d /8 != %d+%d", s.Rows, s.Cols, area, s.DataCW, s.ECCW)
		}
		if area%8 != 0 && area%8 != 4 {
			t.Errorf("%dx%d: area mod 8 = %d", s.Rows, s.Cols, area%8)
		}
		if s.ECCW%s.Blocks != 0 {
			t.Errorf("%dx%d: ec not divisible by blocks", s.Rows, s.Cols)
		}
		sum := 0
		for b := 0; b < s.Blocks; b++ {
			sum += s.BlockDataCW(b)
			if s.BlockDataCW(b)+s.BlockECCW() > 255 {
				t.Errorf("%dx%d: block %d longer than 255", s.Rows, s.Cols, b)
			}
		}
		if sum != s.DataCW {
			t.Errorf("%dx%d: block data sum %d", s.Rows, s.Cols, sum)
		}
		if i > 0 {
			p := syms[i-1]
			if p.DataCW > s.DataCW || (p.DataCW == s.DataCW && !(!p.Rect && s.Rect)) {
				t.Errorf("order violated at %d", i)
			}
		}
	}
	if nsq != 24 || nrect != 6 {
		t.Errorf("squares %d rects %d", nsq, nrect)
	}
}

func TestTableSpotValues(t *testing.T) {
	type row struct{ r, c, data, ec, blocks int }
	for _, w := range []row{
		{10, 10, 3, 5, 1}, {12, 12, 5, 7, 1}, {26, 26, 44, 28, 1}, {32, 32, 62, 36, 1},
		{52, 52, 204, 84, 2}, {64, 64, 280, 112, 2}, {72, 72, 368, 144, 4},
		{104, 104, 816, 336, 6}, {120, 120, 1050, 408, 6},
		{132, 132, 1304, 496, 8}, {144, 144, 1558, 620, 10},
		{8, 18, 5, 7, 1}, {8, 32, 10, 11, 1}, {12, 26, 16, 14, 1}, {12, 36, 22, 18, 1},
		{16, 36, 32, 24, 1}, {16, 48, 49, 28, 1},
	} {
		s, ok := BySize(w.r, w.c)
		if !ok || s.DataCW != w.data || s.ECCW != w.ec || s.Blocks != w.blocks {
			t.Errorf("%dx%d: got %+v", w.r, w.c, s)
		}
	}
	s, _ := BySize(144, 144)
	for b := 0; b < 10; b++ {
		want := 156
		if b >= 8 {
			want = 155
		}
		if s.BlockDataCW(b) != want || s.BlockECCW() != 62 {
			t.Errorf("144x144 block %d: %d/%d", b, s.BlockDataCW(b), s.BlockECCW())
		}
	}
	if b, ec := CodewordBlock(s, 1558); b != 8 || !ec {
		t.Errorf("144x144 first EC codeword in block %d", b)
	}
	if b, ec := CodewordBlock(s, 1557); b != 7 || ec {
		t.Errorf("144x144 last data codeword in block %d", b)
	}
	s, _ = BySize(132, 132)
	if b, _ := CodewordBlock(s, 1304); b != 0 {
		t.Errorf("132x132 first EC in block %d", b)
	}
}

func TestLookup(t *testing.T) {
	chk := func(s Symbol, ok bool, r, c int) {
		t.Helper()
		if !ok || s.Rows != r || s.Cols != c {
			t.Errorf("got %dx%d ok=%v want %dx%d", s.Rows, s.Cols, ok, r, c)
		}
	}
	s, ok := Lookup(3, ShapeNone, 0, 0, 0, 0)
	chk(s, ok, 10, 10)
	s, ok = Lookup(4, ShapeNone, 0, 0, 0, 0)
	chk(s, ok, 12, 12)
	s, ok = Lookup(4, ShapeRect, 0, 0, 0, 0)
	chk(s, ok, 8, 18)
	s, ok = Lookup(9, ShapeNone, 0, 0, 0, 0)
	chk(s, ok, 8, 32)
	s, ok = Lookup(9, ShapeSquare, 0, 0, 0, 0)
	chk(s, ok, 16, 16)
	s, ok = Lookup(45, ShapeNone, 0, 0, 0, 0)
	chk(s, ok, 16, 48)
	s, ok = Lookup(1, ShapeNone, 20, 20, 0, 0)
	chk(s, ok, 20, 20)
	s, ok = Lookup(1, ShapeNone, 12, 20, 0, 0)
	chk(s, ok, 12, 26)
	if _, ok = Lookup(50, ShapeRect, 0, 0, 0, 0); ok {
		t.Errorf("rect with 50 data codewords")
	}
	if _, ok = Lookup(1559, ShapeNone, 0, 0, 0, 0); ok {
		t.Errorf("1559 data codewords")
	}
	if _, ok = Lookup(10, ShapeNone, 0, 0, 14, 14); ok {
		t.Errorf("10 cw within 14x14")
	}
	s, ok = Lookup(1558, ShapeNone, 0, 0, 144, 144)
	chk(s, ok, 144, 144)
}

func TestGenerator(t *testing.T) {
	want := []int{1, 62, 111, 15, 48, 228}
	got := Generator(5)
	if fmt.Sprint(got) != fmt.Sprint(want) {
		t.Errorf("Generator(5) = %v", got)
	}
	// published factor table for 7 EC codewords (low order first): 23 68 144 134 240 92 254
	want7 := []int{1, 254, 92, 240, 134, 144, 68, 23}
	if got := Generator(7); fmt.Sprint(got) != fmt.Sprint(want7) {
		t.Errorf("Generator(7) = %v", got)
	}
	for _, r := range []int{5, 7, 10, 11, 12, 14, 18, 20, 24, 28, 36, 42, 48, 56, 62, 68} {
		g := Generator(r)
		if len(g) != r+1 || g[0] != 1 {
			t.Errorf("Generator(%d) shape", r)
		}
		// roots are 2^1..2^r
		for i := 1; i <= r; i++ {
			x := gf.DM256.Pow(i)
			acc := 0
			for _, c := range g {
				acc = gf.DM256.Mul(acc, x) ^ c
			}
			if acc != 0 {
				t.Errorf("Generator(%d): 2^%d not a root", r, i)
			}
		}
	}
}

func TestEncode123456(t *testing.T) {
	data := EncodeASCII([]byte("123456"))
	if !bytes.Equal(data, []byte{142, 164, 186}) {
		t.Fatalf("data %v", data)
	}
	s, ok := Lookup(len(data), ShapeNone, 0, 0, 0, 0)
	if !ok || s.Rows != 10 {
		t.Fatalf("symbol %+v", s)
	}
	all := ECC(s, data)
	if !bytes.Equal(all, []byte{142, 164, 186, 114, 25, 5, 88, 102}) {
		t.Fatalf("ecc %v", all)
	}
}

func TestECCBlocksAreCodewords(t *testing.T) {
	seed := uint32(12345)
	rnd := func() byte {
		seed = seed*1664525 + 1013904223
		return byte(seed >> 24)
	}
	for _, s := range Symbols() {
		data := make([]byte, s.DataCW)
		for i := range data {
			data[i] = rnd()
		}
		all := ECC(s, data)
		if len(all) != s.DataCW+s.ECCW || !bytes.Equal(all[:s.DataCW], data) {
			t.Fatalf("%dx%d: bad ECC output", s.Rows, s.Cols)
		}
		// de-interleave by total position and check every block is an RS codeword
		blocks := make([][]int, s.Blocks)
		for i, c := range all {
			b, _ := CodewordBlock(s, i)
			blocks[b] = append(blocks[b], int(c))
		}
		for b, w := range blocks {
			if len(w) != s.BlockDataCW(b)+s.BlockECCW() {
				t.Errorf("%dx%d block %d: len %d", s.Rows, s.Cols, b, len(w))
			}
			if !rs.IsCodeword(gf.DM256, w, s.BlockECCW()) {
				t.Errorf("%dx%d block %d: not a codeword", s.Rows, s.Cols, b)
			}
		}
	}
}

func TestPlacement(t *testing.T) {
	for _, s := range Symbols() {
		rows, cols := s.MappingRows(), s.MappingCols()
		p := Placement(rows, cols)
		seen := map[int]bool{}
		nfixed := 0
		for r := range p {
			for c, v := range p[r] {
				if v < 0 {
					nfixed++
					if r < rows-2 || c < cols-2 {
						t.Errorf("%dx%d: fixed module at %d,%d", s.Rows, s.Cols, r, c)
					}
					wantDark := (r == rows-1) == (c == cols-1)
					if (v == FixedDark) != wantDark {
						t.Errorf("%dx%d: fixed module colour at %d,%d", s.Rows, s.Cols, r, c)
					}
					continue
				}
				if seen[v] {
					t.Errorf("%dx%d: duplicate %d", s.Rows, s.Cols, v)
				}
				seen[v] = true
			}
		}
		if len(seen) != 8*(s.DataCW+s.ECCW) {
			t.Errorf("%dx%d: %d bits placed", s.Rows, s.Cols, len(seen))
		}
		wantFixed := 0
		if rows*cols%8 == 4 {
			wantFixed = 4
		}
		if nfixed != wantFixed {
			t.Errorf("%dx%d: %d fixed modules", s.Rows, s.Cols, nfixed)
		}
		hasFixed := s.Rows == s.Cols && (s.Rows == 12 || s.Rows == 16 || s.Rows == 20 || s.Rows == 24)
		if hasFixed != (nfixed == 4) {
			t.Errorf("%dx%d: fixed pattern presence", s.Rows, s.Cols)
		}
	}
	// Published 8x8 mapping matrix of the 10x10 symbol (ISO 16022 Figure F.1),
	// written as codeword.bit with 1-based codeword and bit numbers.
	want := [8][8]string{
		{"2.1", "2.2", "3.6", "3.7", "3.8", "4.3", "4.4", "4.5"},
		{"2.3", "2.4", "2.5", "5.1", "5.2", "4.6", "4.7", "4.8"},
		{"2.6", "2.7", "2.8", "5.3", "5.4", "5.5", "1.1", "1.2"},
		{"1.5", "6.1", "6.2", "5.6", "5.7", "5.8", "1.3", "1.4"},
		{"1.8", "6.3", "6.4", "6.5", "8.1", "8.2", "1.6", "1.7"},
		{"7.2", "6.6", "6.7", "6.8", "8.3", "8.4", "8.5", "7.1"},
		{"7.4", "7.5", "3.1", "3.2", "8.6", "8.7", "8.8", "7.3"},
		{"7.7", "7.8", "3.3", "3.4", "3.5", "4.1", "4.2", "7.6"},
	}
	p := Placement(8, 8)
	for r := 0; r < 8; r++ {
		for c := 0; c < 8; c++ {
			got := fmt.Sprintf("%d.%d", p[r][c]/8+1, p[r][c]%8+1)
			if got != want[r][c] {
				t.Errorf("8x8 placement at row %d col %d: got %s want %s", r, c, got, want[r][c])
			}
		}
	}
}

func TestMatrixFunctionPatterns(t *testing.T) {
	for _, s := range Symbols() {
		m := BuildMatrix(s, make([]byte, s.DataCW))
		if len(m) != s.Rows || len(m[0]) != s.Cols {
			t.Fatalf("%dx%d: matrix size", s.Rows, s.Cols)
		}
		for y := 0; y < s.Rows; y++ {
			if !m[y][0] {
				t.Errorf("%dx%d: left finder light at y=%d", s.Rows, s.Cols, y)
			}
			if m[y][s.Cols-1] != (y%2 == 1) {
				t.Errorf("%dx%d: right clock at y=%d", s.Rows, s.Cols, y)
			}
		}
		for x := 0; x < s.Cols; x++ {
			if !m[s.Rows-1][x] {
				t.Errorf("%dx%d: bottom finder light at x=%d", s.Rows, s.Cols, x)
			}
			if m[0][x] != (x%2 == 0) {
				t.Errorf("%dx%d: top clock at x=%d", s.Rows, s.Cols, x)
			}
		}
		// function + data modules partition the symbol
		nfn := 0
		for y := 0; y < s.Rows; y++ {
			for x := 0; x < s.Cols; x++ {
				if fn, _ := IsFunctionModule(s, x, y); fn {
					nfn++
				}
			}
		}
		if nfn+s.MappingRows()*s.MappingCols() != s.Rows*s.Cols {
			t.Errorf("%dx%d: %d function modules", s.Rows, s.Cols, nfn)
		}
		cm := CodewordModules(s)
		used := map[[2]int]bool{}
		for _, bits := range cm {
			for _, xy := range bits {
				if fn, _ := IsFunctionModule(s, xy[0], xy[1]); fn {
					t.Errorf("%dx%d: codeword bit on function module %v", s.Rows, s.Cols, xy)
				}
				if used[xy] {
					t.Errorf("%dx%d: module %v used twice", s.Rows, s.Cols, xy)
				}
				used[xy] = true
			}
		}
	}
	// BuildMatrix and CodewordModules agree
	s, _ := BySize(16, 48)
	data := make([]byte, s.DataCW)
	for i := range data {
		data[i] = byte(i*37 + 11)
	}
	all := ECC(s, data)
	m := BuildMatrix(s, data)
	for i, bits := range CodewordModules(s) {
		v := 0
		for _, xy := range bits {
			v <<= 1
			if m[xy[1]][xy[0]] {
				v |= 1
			}
		}
		if byte(v) != all[i] {
			t.Errorf("16x48 codeword %d: read %d want %d", i, v, all[i])
		}
	}
}

func TestRandomisers(t *testing.T) {
	for k := 1; k <= 1558; k++ {
		v := (149*k)%253 + 1 + 129
		if v > 254 {
			v -= 254
		}
		if int(Pad253(k)) != v {
			t.Fatalf("Pad253(%d)", k)
		}
		if Pad253(k) == 0 || Pad253(k) == 255 {
			t.Fatalf("Pad253(%d) out of 1..254", k)
		}
	}
	// hand-computed: position 3 -> 149*3 = 447 mod 253 = 194, +1 = 195, +129 = 324 -> 70
	if Pad253(3) != 70 {
		t.Errorf("Pad253(3) = %d", Pad253(3))
	}
	// position 2: 298 mod 253 = 45, +1 = 46, +129 = 175
	if Pad253(2) != 175 {
		t.Errorf("Pad253(2) = %d", Pad253(2))
	}
	for pos := 1; pos <= 1558; pos += 7 {
		for v := 0; v < 256; v++ {
			c := Rand255(byte(v), pos)
			if Unrand255(c, pos) != byte(v) {
				t.Fatalf("Rand255 roundtrip %d@%d", v, pos)
			}
		}
	}
	// hand-computed: value 0 at position 2: 298 mod 255 = 43, +1 = 44
	if Rand255(0, 2) != 44 {
		t.Errorf("Rand255(0,2) = %d", Rand255(0, 2))
	}
	// value 250 at position 2: 294 -> 38
	if Rand255(250, 2) != 38 {
		t.Errorf("Rand255(250,2) = %d", Rand255(250, 2))
	}
	if got := PadTo([]byte{66}, 3); !bytes.Equal(got, []byte{66, 129, 70}) {
		t.Errorf("PadTo = %v", got)
	}
	if got := PadTo([]byte{1, 2, 3}, 3); !bytes.Equal(got, []byte{1, 2, 3}) {
		t.Errorf("PadTo full = %v", got)
	}
}

func TestEncodeASCII(t *testing.T) {
	for _, c := range []struct {
		in   string
		want []byte
	}{
		{"A", []byte{66}},
		{"00", []byte{130}},
		{"99", []byte{229}},
		{"1", []byte{50}},
		{"123", []byte{142, 52}},
		{"a1b22", []byte{98, 50, 99, 152}},
		{"\x00\x7f", []byte{1, 128}},
		{"\x80\xff", []byte{235, 1, 235, 128}},
	} {
		if got := EncodeASCII([]byte(c.in)); !bytes.Equal(got, c.want) {
			t.Errorf("EncodeASCII(%q) = %v want %v", c.in, got, c.want)
		}
	}
}

func TestDecodeCodewords(t *testing.T) {
	ok := func(name string, cw []byte, want string) {
		t.Helper()
		got, err := DecodeCodewords(cw)
		if err != nil {
			t.Errorf("%s: error %v", name, err)
			return
		}
		// compare as Latin-1
		var b []byte
		for _, r := range got {
			if r > 255 {
				t.Errorf("%s: rune %U", name, r)
			}
			b = append(b, byte(r))
		}
		if string(b) != want {
			t.Errorf("%s: got %q want %q", name, b, want)
		}
	}
	bad := func(name string, cw []byte) {
		t.Helper()
		if got, err := DecodeCodewords(cw); err == nil {
			t.Errorf("%s: no error, got %q", name, got)
		}
	}
	ok("ascii", PadTo(EncodeASCII([]byte("123456")), 3), "123456")
	ok("ascii+pad", PadTo(EncodeASCII([]byte("Hi\xe9 07")), 12), "Hi\xe9 07")
	ok("fnc1", []byte{232, 131, 66}, "\x1d01A")
	ok("macro05", []byte{236, 66, 129}, "[)>\x1e05\x1dA\x1e\x04")
	ok("macro06", []byte{237, 66}, "[)>\x1e06\x1dA\x1e\x04")
	bad("macro late", []byte{66, 236})
	bad("zero", []byte{0})
	bad("eci", []byte{241, 1})
	bad("sa", []byte{233, 1, 1, 1})
	bad("rp", []byte{234})
	bad("242", []byte{242})
	bad("unlatch in ascii", []byte{254})
	bad("upper shift + digits", []byte{235, 140})
	bad("upper shift at end", []byte{66, 235})

	// C40 "AIMAIMAIM" is the standard's example: 91 11 per triple
	ok("c40 AIM", []byte{230, 91, 11, 91, 11, 91, 11}, "AIMAIMAIM")
	ok("c40 AIM unlatch", []byte{230, 91, 11, 254, 66}, "AIMA")
	ok("c40 trailing ascii", []byte{230, 91, 11, 66}, "AIMA")
	pack := func(a, b, c int) []byte { v := 1600*a + 40*b + c + 1; return []byte{byte(v >> 8), byte(v)} }
	cat := func(p ...[]byte) []byte {
		var o []byte
		for _, x := range p {
			o = append(o, x...)
		}
		return o
	}
	// shift1 NUL, shift2 '!', shift3 '`' ...
	ok("c40 shifts", cat([]byte{230}, pack(0, 0, 1), pack(0, 2, 0), pack(3, 4, 14)), "\x00!` 0A")
	ok("text shifts", cat([]byte{239}, pack(0, 31, 1), pack(26, 2, 1), pack(2, 27, 14)), "\x1f_A{a")
	// shift spanning a pair boundary, and a trailing pad shift
	ok("c40 shift across pairs", cat([]byte{230}, pack(14, 15, 2), pack(1, 39, 0)), "ABaZ")
	// upper shift: shift2,30 then basic 'A' -> 0xC1 ; then shift2,30, shift3, 1 -> 'a'+128
	ok("c40 upper", cat([]byte{230}, pack(1, 30, 14), pack(1, 30, 2), pack(1, 3, 3)), "\xc1\xe1  ")
	ok("c40 fnc1", cat([]byte{230}, pack(1, 27, 4), []byte{254}), "\x1d0")
	bad("c40 shift2 28", cat([]byte{230}, pack(1, 28, 4)))
	bad("c40 shift1 32", cat([]byte{230}, pack(0, 32, 4)))
	bad("c40 shift3 32", cat([]byte{230}, pack(2, 32, 4)))
	bad("c40 overflow", []byte{230, 255, 255})
	// X12
	ok("x12", cat([]byte{238}, pack(0, 1, 2), pack(3, 4, 14), []byte{254, 66}), "\r*> 0AA")
	ok("x12 trailing ascii", cat([]byte{238}, pack(39, 13, 3), []byte{50}), "Z9 1")
	// EDIFACT: "DATA" + unlatch. D=4,A=1,T=20,A=1 -> 000100 000001 010100 000001 ; 011111 00
	// (three codewords must remain for the unlatch to be read as EDIFACT, hence the pad)
	ok("edifact", []byte{240, 0x10, 0x15, 0x01, 0x7C, 66, 129}, "DATAA")
	// with only two codewords left they are ASCII: 0x7C = 124 -> '{'
	ok("edifact end-of-symbol rule", []byte{240, 0x10, 0x15, 0x01, 0x7C, 66}, "DATA{A")
	// '1' = 0x31 = 110001, '.' = 0x2E = 101110, '?' = 0x3F = 111111, ' ' = 100000
	ok("edifact 32..63", []byte{240, 0xC6, 0xEF, 0xE0}, "1.? ")
	// unlatch as 2nd value: A + unlatch -> 000001 011111 0000 -> 0x05 0xF0, then ASCII
	ok("edifact unlatch mid", []byte{240, 0x05, 0xF0, 66, 67}, "A"+"AB")
	ok("edifact two trailing ascii", []byte{240, 0x10, 0x15, 0x01, 66, 67}, "DATAAB")
	// unlatch as 4th value
	ok("edifact unlatch 4th", []byte{240, 0x10, 0x15, 0x1F, 66}, "DATA")
	// Base 256
	b256 := func(start int, raw ...byte) []byte { // raw = length bytes + data, positions from start (1-based)
		o := make([]byte, len(raw))
		for i, v := range raw {
			o[i] = Rand255(v, start+i)
		}
		return o
	}
	ok("b256 len2", cat([]byte{231}, b256(2, 2, 0xAB, 0x00), []byte{66}), "\xab\x00A")
	ok("b256 to end", cat([]byte{66, 231}, b256(3, 0, 1, 2, 3)), "A\x01\x02\x03")
	long := make([]byte, 300)
	for i := range long {
		long[i] = byte(i)
	}
	ok("b256 len300", cat([]byte{231}, b256(2, append([]byte{250, 50}, long...)...), []byte{129}), string(long))
	bad("b256 overrun", cat([]byte{231}, b256(2, 5, 1, 2)))
	bad("b256 d2", cat([]byte{231}, b256(2, 250, 250, 1, 2)))
	ok("latch last", []byte{66, 230}, "A")
}
