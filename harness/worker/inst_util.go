//go:build verif

package main

import (
	"github.com/makiuchi-d/gozxing"
	"github.com/makiuchi-d/gozxing/datamatrix"
	"github.com/makiuchi-d/gozxing/qrcode"
)

// Reader and writer instances are reusable by contract: every other call of the round-trip
// drivers goes to ONE long-lived instance per worker process (which has by then seen hundreds of
// other symbols, sizes and hint maps), the calls in between to fresh instances.  What a call
// returns must not depend on which of the two it was given.
var (
	instQRW  = qrcode.NewQRCodeWriter()
	instQRR  = qrcode.NewQRCodeReader()
	instDMW  = datamatrix.NewDataMatrixWriter()
	instDMR  = datamatrix.NewDataMatrixReader()
	instFlip uint64
)

func instQRWriter() gozxing.Writer {
	if instFlip++; instFlip%2 == 0 {
		return instQRW
	}
	return qrcode.NewQRCodeWriter()
}

func instQRReader() gozxing.Reader {
	if instFlip++; instFlip%2 == 0 {
		return instQRR
	}
	return qrcode.NewQRCodeReader()
}

func instDMWriter() gozxing.Writer {
	if instFlip++; instFlip%2 == 0 {
		return instDMW
	}
	return datamatrix.NewDataMatrixWriter()
}

func instDMReader() gozxing.Reader {
	if instFlip++; instFlip%2 == 0 {
		return instDMR
	}
	return datamatrix.NewDataMatrixReader()
}
