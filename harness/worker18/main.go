// Command worker18 is the C18 worker for the race detector: it is built with
// -race and WITHOUT the verif tag, so the code under the detector is the
// production build of the library with no monitor-induced synchronisation.
package main

import (
	"os"
	"sync"

	"verifharness/conc"
	"verifharness/fw"
)

var canaryCounter int

func init() {
	fw.Register("C18", func(c *fw.Ctx) {
		c.Rule("K in {2,4,16,64} goroutines behind a start barrier under GOMAXPROCS in {2,4,16}, each with private writer/reader instances and private input images, operations drawn from all 11 writers and their readers (pure and detector paths, multi-format UPC/EAN, QR multi reader), Aztec (reference symbols), RSS-14 (repo sample images), Reed-Solomon on the shared field objects, grid sampler, binarisers and ECI lookups; every operation is executed sequentially first and then by concurrent goroutines, results compared field by field (timestamps excluded); race build: Go race detector, reports with a gozxing frame are violations; verif build: package-level table snapshot before == after; distinct = distinct rounds + distinct operation-kind pairs that ran in the same slot")
		c.Assume("what is claimed is absence of races and divergences among the interleavings observed, not for all schedules")
		if os.Getenv("VERIF_C18_CANARY") == "1" {
			c.Run("canary", func(r *fw.Rec) {
				var wg sync.WaitGroup
				for g := 0; g < 4; g++ {
					wg.Add(1)
					go func() {
						defer wg.Done()
						for i := 0; i < 1000; i++ {
							canaryCounter++ // deliberate data race on a harness-owned variable
						}
					}()
				}
				wg.Wait()
				r.Tally("canary_ran")
			})
			return
		}
		conc.Driver(c, nil, "race")
	})
}

func main() { fw.Main() }
