package onedref

// ---------------------------------------------------------------------------
// Code 93 (AIM USS-93)
// ---------------------------------------------------------------------------

// Code93Alphabet lists the characters of symbol values 0..46; the four shift
// characters ($) (%) (/) (+) (values 43..46) are written a b c d.  Value 47
// is the start/stop character.
const Code93Alphabet = "0123456789ABCDEFGHIJKLMNOPQRSTUVWXYZ-. $/+%abcd"

const (
	c93ShiftDollar  = 43 // ($)
	c93ShiftPercent = 44 // (%)
	c93ShiftSlash   = 45 // (/)
	c93ShiftPlus    = 46 // (+)
	c93StartStop    = 47
)

// Nine modules per symbol character, three bars and three spaces, always
// starting with a bar and ending with a space.
var code93Modules = [48]string{
	"100010100", // 0
	"101001000", // 1
	"101000100", // 2
	"101000010", // 3
	"100101000", // 4
	"100100100", // 5
	"100100010", // 6
	"101010000", // 7
	"100010010", // 8
	"100001010", // 9
	"110101000", // A
	"110100100", // B
	"110100010", // C
	"110010100", // D
	"110010010", // E
	"110001010", // F
	"101101000", // G
	"101100100", // H
	"101100010", // I
	"100110100", // J
	"100011010", // K
	"101011000", // L
	"101001100", // M
	"101000110", // N
	"100101100", // O
	"100010110", // P
	"110110100", // Q
	"110110010", // R
	"110101100", // S
	"110100110", // T
	"110010110", // U
	"110011010", // V
	"101101100", // W
	"101100110", // X
	"100110110", // Y
	"100111010", // Z
	"100101110", // -
	"111010100", // .
	"111010010", // space
	"111001010", // $
	"101101110", // /
	"101110110", // +
	"110101110", // %
	"100100110", // ($)
	"111011010", // (%)
	"111010110", // (/)
	"100110010", // (+)
	"101011110", // start/stop
}

func c93Letter(i int) int { return 10 + i } // value of 'A'+i

// c93Encode maps one ASCII byte to one or two symbol values.
func c93Encode(b byte) []int {
	switch {
	case b == 0:
		return []int{c93ShiftPercent, c93Letter('U' - 'A')}
	case b <= 26:
		return []int{c93ShiftDollar, c93Letter(int(b) - 1)}
	case b <= 31:
		return []int{c93ShiftPercent, c93Letter(int(b) - 27)} // ESC..US -> (%)A..(%)E
	case b == ' ':
		return []int{38}
	case b == '$':
		return []int{39}
	case b == '%':
		return []int{42}
	case b == '+':
		return []int{41}
	case b == '-':
		return []int{36}
	case b == '.':
		return []int{37}
	case b == '/':
		return []int{40}
	case b >= '!' && b <= ',':
		return []int{c93ShiftSlash, c93Letter(int(b) - '!')} // (/)A..(/)L
	case b >= '0' && b <= '9':
		return []int{int(b - '0')}
	case b == ':':
		return []int{c93ShiftSlash, c93Letter('Z' - 'A')}
	case b >= ';' && b <= '?':
		return []int{c93ShiftPercent, c93Letter('F' - 'A' + int(b) - ';')}
	case b == '@':
		return []int{c93ShiftPercent, c93Letter('V' - 'A')}
	case b >= 'A' && b <= 'Z':
		return []int{c93Letter(int(b) - 'A')}
	case b >= '[' && b <= '_':
		return []int{c93ShiftPercent, c93Letter('K' - 'A' + int(b) - '[')}
	case b == '`':
		return []int{c93ShiftPercent, c93Letter('W' - 'A')}
	case b >= 'a' && b <= 'z':
		return []int{c93ShiftPlus, c93Letter(int(b) - 'a')}
	case b >= '{' && b <= 127:
		return []int{c93ShiftPercent, c93Letter('P' - 'A' + int(b) - '{')}
	}
	return nil
}

// Code93Values returns the data symbol values of text (full ASCII 0..127),
// without start/stop and check characters.
func Code93Values(text []byte) ([]int, bool) {
	v := []int{}
	for _, b := range text {
		e := c93Encode(b)
		if e == nil {
			return nil, false
		}
		v = append(v, e...)
	}
	return v, true
}

func c93Weighted(values []int, maxWeight int) int {
	sum := 0
	w := 1
	for i := len(values) - 1; i >= 0; i-- {
		sum += w * values[i]
		w++
		if w > maxWeight {
			w = 1
		}
	}
	return sum % 47
}

// Code93Checks returns the check characters C (weights 1..20 from the right)
// and K (weights 1..15 from the right over values followed by C).
func Code93Checks(values []int) (c, k int) {
	c = c93Weighted(values, 20)
	withC := append(append([]int{}, values...), c)
	k = c93Weighted(withC, 15)
	return c, k
}

// Code93Pattern renders start, all given values, stop and the termination
// bar: 9*(len+2)+1 modules.  nil if a value is outside 0..46.
func Code93Pattern(values []int) []bool {
	p := make([]bool, 0, 9*(len(values)+2)+1)
	p = bits(p, code93Modules[c93StartStop])
	for _, v := range values {
		if v < 0 || v > 46 {
			return nil
		}
		p = bits(p, code93Modules[v])
	}
	p = bits(p, code93Modules[c93StartStop])
	p = append(p, true)
	return p
}

// Code93DecodeValues turns data values (no check characters) back into bytes.
// A shift character that is not followed by a letter valid for it gives
// ok=false.
func Code93DecodeValues(values []int) ([]byte, bool) {
	out := []byte{}
	for i := 0; i < len(values); i++ {
		v := values[i]
		if v < 0 || v > 46 {
			return nil, false
		}
		if v < 43 {
			out = append(out, Code93Alphabet[v])
			continue
		}
		if i+1 >= len(values) {
			return nil, false
		}
		i++
		n := values[i]
		if n < 10 || n > 35 {
			return nil, false
		}
		l := n - 10 // 0 = 'A'
		switch v {
		case c93ShiftDollar:
			out = append(out, byte(1+l))
		case c93ShiftPlus:
			out = append(out, byte('a'+l))
		case c93ShiftSlash:
			switch {
			case l <= 'O'-'A':
				out = append(out, byte('!'+l))
			case l == 'Z'-'A':
				out = append(out, ':')
			default:
				return nil, false
			}
		case c93ShiftPercent:
			switch {
			case l <= 'E'-'A':
				out = append(out, byte(27+l))
			case l <= 'J'-'A':
				out = append(out, byte(';'+l-('F'-'A')))
			case l <= 'O'-'A':
				out = append(out, byte('['+l-('K'-'A')))
			case l <= 'T'-'A':
				out = append(out, byte('{'+l-('P'-'A')))
			case l == 'U'-'A':
				out = append(out, 0)
			case l == 'V'-'A':
				out = append(out, '@')
			case l == 'W'-'A':
				out = append(out, '`')
			default: // (%)X, (%)Y, (%)Z
				out = append(out, 127)
			}
		}
	}
	return out, true
}
