//go:build verif

package main

import (
	"fmt"
	"math"
	"math/big"

	"github.com/makiuchi-d/gozxing"
	"github.com/makiuchi-d/gozxing/common"
	"github.com/makiuchi-d/gozxing/verifhook"

	"verifharness/fw"
)

// C19: perspective transform against the unique projective map solved exactly
// (big.Rat / big.Int), grid sampling against "pixel under the exactly
// transformed cell centre", nudge bands and bounds of checkAndNudgePoints.

func init() {
	fw.Register("C19", c19)
	fw.RegisterSelfTest("c19-exact-homography", c19SelfTest)
}

// ---------------------------------------------------------------------------
// exact projective map through four point pairs

// c19H is a 3x3 integer matrix, row-major: (X,Y,W) = H * (x,y,1); the mapped
// point is (X/W, Y/W).  Defined up to a common factor.
type c19H [9]*big.Int

// c19Solve returns the projective map sending src[i] -> dst[i] (i=0..3, each
// {x,y} a float64 taken exactly).  ok=false if the 8x9 system does not have
// rank 8 (degenerate input).
func c19Solve(src, dst [4][2]float64) (c19H, bool) {
	var h c19H
	rat := func(f float64) *big.Rat { return new(big.Rat).SetFloat64(f) }
	// unknowns h0..h8: X = h0 x + h1 y + h2, Y = h3 x + h4 y + h5, W = h6 x + h7 y + h8
	// X - u W = 0 ; Y - v W = 0
	m := make([][]*big.Rat, 8)
	for i := 0; i < 4; i++ {
		x, y, u, v := rat(src[i][0]), rat(src[i][1]), rat(dst[i][0]), rat(dst[i][1])
		if x == nil || y == nil || u == nil || v == nil {
			return h, false
		}
		neg := func(a, b *big.Rat) *big.Rat { z := new(big.Rat).Mul(a, b); return z.Neg(z) }
		one := big.NewRat(1, 1)
		zero := func() *big.Rat { return new(big.Rat) }
		m[2*i] = []*big.Rat{x, y, one, zero(), zero(), zero(), neg(u, x), neg(u, y), new(big.Rat).Neg(u)}
		m[2*i+1] = []*big.Rat{zero(), zero(), zero(), x, y, one, neg(v, x), neg(v, y), new(big.Rat).Neg(v)}
	}
	// copy so that rows do not share *big.Rat
	for i := range m {
		for j := range m[i] {
			m[i][j] = new(big.Rat).Set(m[i][j])
		}
	}
	// reduced row echelon form
	pivCol := make([]int, 0, 8)
	row := 0
	isPiv := [9]bool{}
	for col := 0; col < 9 && row < 8; col++ {
		p := -1
		for i := row; i < 8; i++ {
			if m[i][col].Sign() != 0 {
				p = i
				break
			}
		}
		if p < 0 {
			continue
		}
		m[row], m[p] = m[p], m[row]
		inv := new(big.Rat).Inv(m[row][col])
		for j := col; j < 9; j++ {
			m[row][j].Mul(m[row][j], inv)
		}
		for i := 0; i < 8; i++ {
			if i == row || m[i][col].Sign() == 0 {
				continue
			}
			f := new(big.Rat).Set(m[i][col])
			for j := col; j < 9; j++ {
				t := new(big.Rat).Mul(f, m[row][j])
				m[i][j].Sub(m[i][j], t)
			}
		}
		pivCol = append(pivCol, col)
		isPiv[col] = true
		row++
	}
	if row != 8 {
		return h, false
	}
	free := -1
	for j := 0; j < 9; j++ {
		if !isPiv[j] {
			free = j
		}
	}
	sol := make([]*big.Rat, 9)
	for j := range sol {
		sol[j] = new(big.Rat)
	}
	sol[free].SetInt64(1)
	for i, pc := range pivCol {
		sol[pc].Neg(m[i][free])
	}
	// scale to integers
	l := big.NewInt(1)
	for _, s := range sol {
		d := s.Denom()
		g := new(big.Int).GCD(nil, nil, l, d)
		l.Mul(l, new(big.Int).Quo(d, g))
	}
	for j, s := range sol {
		v := new(big.Int).Mul(s.Num(), l)
		v.Quo(v, s.Denom())
		h[j] = v
	}
	// the 3x3 matrix must be invertible
	det := new(big.Int)
	t := new(big.Int)
	mul3 := func(a, b, c int) *big.Int { t2 := new(big.Int).Mul(h[a], h[b]); return t2.Mul(t2, h[c]) }
	det.Add(det, mul3(0, 4, 8))
	det.Add(det, mul3(1, 5, 6))
	det.Add(det, mul3(2, 3, 7))
	det.Sub(det, mul3(2, 4, 6))
	det.Sub(det, mul3(1, 3, 8))
	det.Sub(det, mul3(0, 5, 7))
	_ = t
	if det.Sign() == 0 {
		return h, false
	}
	return h, true
}

// apply evaluates the map at an exact rational point; w is the (unnormalised) denominator.
func (h c19H) apply(x, y *big.Rat) (X, Y, W *big.Rat) {
	lin := func(a, b, c *big.Int) *big.Rat {
		z := new(big.Rat).Mul(new(big.Rat).SetInt(a), x)
		z.Add(z, new(big.Rat).Mul(new(big.Rat).SetInt(b), y))
		return z.Add(z, new(big.Rat).SetInt(c))
	}
	return lin(h[0], h[1], h[2]), lin(h[3], h[4], h[5]), lin(h[6], h[7], h[8])
}

// applyF evaluates at a float64 point; ok=false if the point maps to infinity.
func (h c19H) applyF(x, y float64) (u, v *big.Rat, ok bool) {
	X, Y, W := h.apply(new(big.Rat).SetFloat64(x), new(big.Rat).SetFloat64(y))
	if W.Sign() == 0 {
		return nil, nil, false
	}
	return X.Quo(X, W), Y.Quo(Y, W), true
}

// relW returns |W(x,y)| / max_i |W(src_i)|: how far the point is from the line
// that maps to infinity, relative to the denominators at the defining corners.
func (h c19H) relW(x, y float64, src [4][2]float64) float64 {
	_, _, W := h.apply(new(big.Rat).SetFloat64(x), new(big.Rat).SetFloat64(y))
	mx := new(big.Rat)
	sgn := 0
	for _, p := range src {
		_, _, wc := h.apply(new(big.Rat).SetFloat64(p[0]), new(big.Rat).SetFloat64(p[1]))
		if sgn == 0 {
			sgn = wc.Sign()
		}
		wc.Abs(wc)
		if wc.Cmp(mx) > 0 {
			mx = wc
		}
	}
	if mx.Sign() == 0 {
		return 0
	}
	q := new(big.Rat).Quo(W, mx)
	f, _ := q.Float64()
	if sgn < 0 {
		f = -f
	}
	return f // negative: on the other side of the vanishing line than corner 0
}

// ---------------------------------------------------------------------------
// quadrilateral generation

func c19Cross(o, a, b [2]float64) float64 {
	return (a[0]-o[0])*(b[1]-o[1]) - (a[1]-o[1])*(b[0]-o[0])
}

// c19WellShaped: strictly convex in the given cyclic order (either
// orientation) and every corner triangle holds at least minFrac of the square
// of the longest side/diagonal: bounds the conditioning of the 8x8 system.
func c19WellShaped(q [4][2]float64, minFrac float64) bool {
	maxD := 0.0
	for i := 0; i < 4; i++ {
		for j := i + 1; j < 4; j++ {
			d := math.Hypot(q[i][0]-q[j][0], q[i][1]-q[j][1])
			if d > maxD {
				maxD = d
			}
		}
	}
	if maxD == 0 || math.IsInf(maxD, 0) || math.IsNaN(maxD) {
		return false
	}
	sign := 0
	for i := 0; i < 4; i++ {
		c := c19Cross(q[i], q[(i+1)%4], q[(i+2)%4])
		if math.Abs(c) < minFrac*maxD*maxD {
			return false
		}
		s := 1
		if c < 0 {
			s = -1
		}
		if sign == 0 {
			sign = s
		} else if s != sign {
			return false
		}
	}
	return true
}

var c19Families = []string{"axis", "rotated", "sheared", "perspective"}

// c19Quad builds a quadrilateral of the family around centre (cx,cy) with
// half-size about `size`; corners in cyclic order starting top-left.
func c19Quad(rng *fw.Rand, family string, cx, cy, size float64) [4][2]float64 {
	hw := size * (0.4 + 0.6*rng.Float())
	hh := size * (0.4 + 0.6*rng.Float())
	base := [4][2]float64{{-hw, -hh}, {hw, -hh}, {hw, hh}, {-hw, hh}}
	var q [4][2]float64
	switch family {
	case "axis":
		q = base
	case "rotated":
		th := rng.Float() * 2 * math.Pi
		c, s := math.Cos(th), math.Sin(th)
		for i, p := range base {
			q[i] = [2]float64{c*p[0] - s*p[1], s*p[0] + c*p[1]}
		}
	case "sheared":
		th := rng.Float() * 2 * math.Pi
		c, s := math.Cos(th), math.Sin(th)
		kx := (rng.Float()*2 - 1) * 0.8
		ky := (rng.Float()*2 - 1) * 0.3
		for i, p := range base {
			x, y := p[0]+kx*p[1], p[1]+ky*p[0]
			q[i] = [2]float64{c*x - s*y, s*x + c*y}
		}
	default: // perspective: every corner moved independently
		th := rng.Float() * 2 * math.Pi
		c, s := math.Cos(th), math.Sin(th)
		for i, p := range base {
			x := p[0] + (rng.Float()*2-1)*0.45*hw
			y := p[1] + (rng.Float()*2-1)*0.45*hh
			q[i] = [2]float64{c*x - s*y, s*x + c*y}
		}
	}
	for i := range q {
		q[i][0] += cx
		q[i][1] += cy
	}
	return q
}

func c19IsParallelogram(q [4][2]float64) bool {
	return q[0][0]-q[1][0]+q[2][0]-q[3][0] == 0 && q[0][1]-q[1][1]+q[2][1]-q[3][1] == 0
}

// c19GenQuad draws until the quadrilateral is well shaped; optional mirror
// (reverses orientation) and rotation of the starting corner.
func c19GenQuad(rng *fw.Rand, family string, cx, cy, size float64) [4][2]float64 {
	for {
		q := c19Quad(rng, family, cx, cy, size)
		if rng.Intn(4) == 0 { // mirrored orientation
			q[1], q[3] = q[3], q[1]
		}
		if k := rng.Intn(4); k > 0 && rng.Bool() {
			var t [4][2]float64
			for i := range q {
				t[i] = q[(i+k)%4]
			}
			q = t
		}
		if c19WellShaped(q, 0.08) {
			return q
		}
	}
}

func c19Flat(q [4][2]float64) []float64 {
	return []float64{q[0][0], q[0][1], q[1][0], q[1][1], q[2][0], q[2][1], q[3][0], q[3][1]}
}

func c19Q2Q(src, dst [4][2]float64) *common.PerspectiveTransform {
	return common.PerspectiveTransform_QuadrilateralToQuadrilateral(
		src[0][0], src[0][1], src[1][0], src[1][1], src[2][0], src[2][1], src[3][0], src[3][1],
		dst[0][0], dst[0][1], dst[1][0], dst[1][1], dst[2][0], dst[2][1], dst[3][0], dst[3][1])
}

func c19NotFound(err error) bool {
	_, ok := err.(gozxing.NotFoundException)
	return ok
}

// ---------------------------------------------------------------------------
// transform oracle

var c19Unit = [4][2]float64{{0, 0}, {1, 0}, {1, 1}, {0, 1}}

func c19Scale(qs ...[4][2]float64) float64 {
	s := 1.0
	for _, q := range qs {
		for _, p := range q {
			s = math.Max(s, math.Max(math.Abs(p[0]), math.Abs(p[1])))
		}
	}
	return s
}

// c19RelErr returns max(|gx-wx|,|gy-wy|)/max(scale,|wx|,|wy|), computed from exact differences.
func c19RelErr(gx, gy float64, wx, wy *big.Rat, scale float64) float64 {
	a, b := new(big.Rat).SetFloat64(gx), new(big.Rat).SetFloat64(gy)
	if a == nil || b == nil {
		return math.Inf(1)
	}
	dx, _ := a.Sub(a, wx).Float64()
	dy, _ := b.Sub(b, wy).Float64()
	fx, _ := wx.Float64()
	fy, _ := wy.Float64()
	den := math.Max(scale, math.Max(math.Abs(fx), math.Abs(fy)))
	return math.Max(math.Abs(dx), math.Abs(dy)) / den
}

// c19CheckTransform compares t with the exact map src->dst on the corners and on
// random interior/exterior points. what names the constructor for the signature.
func c19CheckTransform(r *fw.Rec, t *common.PerspectiveTransform, what, family string, src, dst [4][2]float64) bool {
	rng := r.Rng
	data := map[string]interface{}{"constructor": what, "family": family, "src": c19Flat(src), "dst": c19Flat(dst)}
	h, ok := c19Solve(src, dst)
	if !ok {
		r.Tally("transform_skipped_exact_system_singular")
		return true
	}
	scale := c19Scale(src, dst)
	// corners, through TransformPoints
	pts := c19Flat(src)
	t.TransformPoints(pts)
	for i := 0; i < 4; i++ {
		e := c19RelErr(pts[2*i], pts[2*i+1], new(big.Rat).SetFloat64(dst[i][0]), new(big.Rat).SetFloat64(dst[i][1]), scale)
		r.Max("max_corner_rel_err_e15", int64(math.Min(e*1e15, 9e18)))
		if !(e < 1e-6) {
			data["corner"] = i
			data["got"] = []float64{pts[2*i], pts[2*i+1]}
			r.Violation("model-mismatch", what+":corner-not-mapped-to-destination:"+family,
				fmt.Sprintf("%s: source corner %d (%v,%v) -> (%v,%v), destination (%v,%v), relative error %.3g", what, i, src[i][0], src[i][1], pts[2*i], pts[2*i+1], dst[i][0], dst[i][1], e), data)
			return false
		}
	}
	r.TallyN("corners_checked", 4)
	r.TallyN("corners_checked_"+family, 4)
	// the exact solver itself must reproduce the destinations exactly
	for i := 0; i < 4; i++ {
		u, v, ok := h.applyF(src[i][0], src[i][1])
		if !ok || u.Cmp(new(big.Rat).SetFloat64(dst[i][0])) != 0 || v.Cmp(new(big.Rat).SetFloat64(dst[i][1])) != 0 {
			r.Inconclusive("exact solver does not reproduce a destination point")
			return false
		}
	}
	// other points
	size := 0.0
	var cx, cy float64
	for _, p := range src {
		cx += p[0] / 4
		cy += p[1] / 4
	}
	for _, p := range src {
		size = math.Max(size, math.Hypot(p[0]-cx, p[1]-cy))
	}
	const np = 24
	xs, ys := make([]float64, 0, np), make([]float64, 0, np)
	kinds := make([]string, 0, np)
	for k := 0; k < np; k++ {
		var x, y float64
		kind := "interior"
		if k%2 == 0 {
			a, b := rng.Float(), rng.Float()
			// bilinear blend of the corners: inside a convex quadrilateral
			x = (1-a)*(1-b)*src[0][0] + a*(1-b)*src[1][0] + a*b*src[2][0] + (1-a)*b*src[3][0]
			y = (1-a)*(1-b)*src[0][1] + a*(1-b)*src[1][1] + a*b*src[2][1] + (1-a)*b*src[3][1]
		} else {
			kind = "exterior"
			rad := size * (1.1 + 2*rng.Float())
			th := rng.Float() * 2 * math.Pi
			x, y = cx+rad*math.Cos(th), cy+rad*math.Sin(th)
		}
		rw := h.relW(x, y, src)
		if math.Abs(rw) < 0.2 {
			r.Tally("points_skipped_near_vanishing_line")
			continue
		}
		if rw < 0 {
			r.Tally("points_beyond_vanishing_line")
		}
		xs, ys, kinds = append(xs, x), append(ys, y), append(kinds, kind)
	}
	flat := make([]float64, 0, 2*len(xs))
	for i := range xs {
		flat = append(flat, xs[i], ys[i])
	}
	t.TransformPoints(flat)
	gx, gy := append([]float64{}, xs...), append([]float64{}, ys...)
	t.TransformPointsXY(gx, gy)
	for i := range xs {
		u, v, ok := h.applyF(xs[i], ys[i])
		if !ok {
			continue
		}
		for pass, g := range [][2]float64{{flat[2*i], flat[2*i+1]}, {gx[i], gy[i]}} {
			fn := []string{"TransformPoints", "TransformPointsXY"}[pass]
			e := c19RelErr(g[0], g[1], u, v, scale)
			r.Max("max_point_rel_err_e15", int64(math.Min(e*1e15, 9e18)))
			if !(e < 1e-6) {
				fu, _ := u.Float64()
				fv, _ := v.Float64()
				data["point"] = []float64{xs[i], ys[i]}
				data["got"] = []float64{g[0], g[1]}
				data["exact"] = []float64{fu, fv}
				r.Violation("model-mismatch", what+"."+fn+":differs-from-projective-map:"+family,
					fmt.Sprintf("%s then %s: %s point (%v,%v) -> (%v,%v), exact projective map gives (%v,%v), relative error %.3g", what, fn, kinds[i], xs[i], ys[i], g[0], g[1], fu, fv, e), data)
				return false
			}
		}
		r.Tally("points_checked_" + kinds[i])
	}
	r.Evals(int64(len(xs)))
	return true
}

// one transform case: a batch of quadrilateral pairs of every family
func c19TransformCase(r *fw.Rec, idx int) {
	rng := r.Rng
	for rep := 0; rep < 12; rep++ {
		srcFam := c19Families[rng.Intn(4)]
		dstFam := c19Families[(idx+rep)%4]
		magS := []float64{1, 10, 100, 1000}[rng.Intn(4)] * (1 + rng.Float())
		magD := []float64{1, 10, 100, 1000}[rng.Intn(4)] * (1 + rng.Float())
		src := c19GenQuad(rng, srcFam, (rng.Float()*6-3)*magS, (rng.Float()*6-3)*magS, magS)
		dst := c19GenQuad(rng, dstFam, (rng.Float()*6-3)*magD, (rng.Float()*6-3)*magD, magD)
		if rng.Intn(3) == 0 { // grid-like source: rectangle inset from the origin
			d := float64(1 + rng.Intn(177))
			o := []float64{0, 0.5, 3.5}[rng.Intn(3)]
			if d-2*o < 1 {
				o = 0
			}
			src = [4][2]float64{{o, o}, {d - o, o}, {d - o, d - o}, {o, d - o}}
			srcFam = "axis"
		}
		fam := dstFam
		if srcFam == "perspective" || dstFam == "perspective" {
			fam = "perspective"
		} else if srcFam == "sheared" || dstFam == "sheared" {
			fam = "sheared"
		} else if srcFam == "rotated" || dstFam == "rotated" {
			fam = "rotated"
		}
		r.Tally("quad_pairs_" + fam)
		if fam == "perspective" && !c19IsParallelogram(dst) && !c19IsParallelogram(src) {
			r.Tally("quad_pairs_perspective_both_sides")
		}
		t := c19Q2Q(src, dst)
		if !c19CheckTransform(r, t, "QuadrilateralToQuadrilateral", fam, src, dst) {
			return
		}
		s2q := common.PerspectiveTransform_SquareToQuadrilateral(dst[0][0], dst[0][1], dst[1][0], dst[1][1], dst[2][0], dst[2][1], dst[3][0], dst[3][1])
		if !c19CheckTransform(r, s2q, "SquareToQuadrilateral", dstFam, c19Unit, dst) {
			return
		}
		q2s := common.PerspectiveTransform_QuadrilateralToSquare(src[0][0], src[0][1], src[1][0], src[1][1], src[2][0], src[2][1], src[3][0], src[3][1])
		if !c19CheckTransform(r, q2s, "QuadrilateralToSquare", srcFam, src, c19Unit) {
			return
		}
		r.Tally("transforms_checked")
		r.NontrivialH(hashFloats(c19Flat(src), c19Flat(dst)))
		if idx == 0 && rep < 2 {
			r.Sample(map[string]interface{}{"kind": "transform", "family": fam, "src": c19Flat(src), "dst": c19Flat(dst)})
		}
	}
}

func hashFloats(a, b []float64) uint64 {
	h := uint64(1469598103934665603)
	for _, v := range a {
		h = (h ^ math.Float64bits(v)) * 1099511628211
	}
	h = (h ^ 0xFF) * 1099511628211
	for _, v := range b {
		h = (h ^ math.Float64bits(v)) * 1099511628211
	}
	return h
}

// ---------------------------------------------------------------------------
// sampling oracle

type c19Img struct {
	w, h int
	px   []bool
	bm   *gozxing.BitMatrix
	kind string
}

func (m *c19Img) at(x, y int) bool { return m.px[y*m.w+x] }

func c19NewImg(rng *fw.Rand, w, h int, kind string) *c19Img {
	m := &c19Img{w: w, h: h, px: make([]bool, w*h), kind: kind}
	bs := 2 + rng.Intn(5)
	var blocks []bool
	bw := w/bs + 1
	if kind == "blocks" {
		blocks = make([]bool, bw*(h/bs+1))
		for i := range blocks {
			blocks[i] = rng.Bool()
		}
	}
	for y := 0; y < h; y++ {
		for x := 0; x < w; x++ {
			var v bool
			switch kind {
			case "black":
				v = true
			case "noise":
				v = rng.Bool()
			case "blocks":
				v = blocks[(y/bs)*bw+x/bs]
			case "frame": // outermost ring black, second ring white, interior noise
				d := x
				for _, e := range []int{y, w - 1 - x, h - 1 - y} {
					if e < d {
						d = e
					}
				}
				switch d {
				case 0:
					v = true
				case 1:
					v = false
				default:
					v = rng.Bool()
				}
			}
			m.px[y*w+x] = v
		}
	}
	bm, err := gozxing.NewBitMatrix(w, h)
	if err != nil {
		panic("c19: NewBitMatrix failed: " + err.Error())
	}
	for y := 0; y < h; y++ {
		for x := 0; x < w; x++ {
			if m.px[y*w+x] {
				bm.Set(x, y)
			}
		}
	}
	m.bm = bm
	return m
}

const (
	c19Inside = iota // pixel index determined
	c19DontCare      // in (-2,-1): nudge to 0 or NotFound
	c19Far           // <= -2 or >= n+1: NotFound demanded
	c19Any           // too close to the -2 / n+1 limit to demand either
)

var c19Million = big.NewInt(1000000)

// c19Axis classifies the exact coordinate N/W (W>0) against an image extent n.
// skip: the pixel index is not determined within the 1e-6 (relative) margin.
// band: -1 low band [-1,0), +1 high band [n,n+1), 0 otherwise.
func c19Axis(N, W *big.Int, n int) (idx int, cls int, skip bool, band int) {
	rem := new(big.Int)
	q := new(big.Int).DivMod(N, W, rem) // W>0: floor division, 0 <= rem < W
	if !q.IsInt64() || q.Int64() > 1<<40 || q.Int64() < -(1<<40) {
		return 0, c19Far, true, 0
	}
	qi := int(q.Int64())
	m := int64(1)
	if qi > 1 {
		m = int64(qi)
	} else if qi < -1 {
		m = int64(-qi)
	}
	lim := new(big.Int).Mul(W, big.NewInt(m))
	lo := new(big.Int).Mul(rem, c19Million)
	hi := new(big.Int).Sub(W, rem)
	hi.Mul(hi, c19Million)
	if lo.Cmp(lim) < 0 || hi.Cmp(lim) < 0 {
		b := qi // the integer boundary the point is close to
		if lo.Cmp(lim) >= 0 {
			b = qi + 1
		}
		switch {
		case b >= 1 && b <= n-1:
			return qi, c19Inside, true, 0
		case b == 0:
			return 0, c19Inside, false, 0
		case b == n:
			return n - 1, c19Inside, false, 0
		case b == -1:
			return 0, c19DontCare, false, 0
		case b == -2 || b == n+1:
			return 0, c19Any, true, 0
		default:
			return 0, c19Far, true, 0
		}
	}
	switch {
	case qi <= -3 || qi >= n+1:
		return 0, c19Far, true, 0
	case qi == -2:
		return 0, c19DontCare, false, 0
	case qi == -1:
		return 0, c19Inside, false, -1
	case qi == n:
		return n - 1, c19Inside, false, 1
	}
	return qi, c19Inside, false, 0
}

type c19Expect struct {
	cells   []int8 // 0 white, 1 black, -1 not asserted
	cls     int    // worst class over all cells (Any > Far > DontCare > Inside)
	twisted bool   // denominator changes sign / vanishes inside the grid
	// per row: band of first/last cell per axis (for the pass tallies)
	asserted, skipped, inBand int
	rowTally                  map[string]int
	farCell                   [2]int
}

// c19Expected computes, for every cell centre (x+0.5, y+0.5), the exact image
// of the projective map h and the pixel the statement demands.
func c19Expected(h c19H, dimX, dimY int, img *c19Img) *c19Expect {
	e := &c19Expect{cells: make([]int8, dimX*dimY), rowTally: map[string]int{}}
	// homogeneous cell centre (2x+1, 2y+1, 2)
	lin := func(a, b, c *big.Int, x, y int) *big.Int {
		z := new(big.Int).Mul(a, big.NewInt(int64(2*x+1)))
		z.Add(z, new(big.Int).Mul(b, big.NewInt(int64(2*y+1))))
		return z.Add(z, new(big.Int).Lsh(c, 1))
	}
	neg := lin(h[6], h[7], h[8], 0, 0).Sign() < 0
	hh := h
	if neg {
		for i := range hh {
			hh[i] = new(big.Int).Neg(h[i])
		}
	}
	stepX, stepY, stepW := new(big.Int).Lsh(hh[0], 1), new(big.Int).Lsh(hh[3], 1), new(big.Int).Lsh(hh[6], 1)
	anyCls, farCls, dcCls := false, false, false
	type cellInfo struct{ bx, by int }
	row := make([]cellInfo, dimX)
	rowOK := make([]bool, dimX)
	for y := 0; y < dimY; y++ {
		X, Y, W := lin(hh[0], hh[1], hh[2], 0, y), lin(hh[3], hh[4], hh[5], 0, y), lin(hh[6], hh[7], hh[8], 0, y)
		for x := 0; x < dimX; x++ {
			if x > 0 {
				X.Add(X, stepX)
				Y.Add(Y, stepY)
				W.Add(W, stepW)
			}
			e.cells[y*dimX+x] = -1
			rowOK[x] = false
			if W.Sign() <= 0 {
				e.twisted = true
				anyCls = true
				continue
			}
			ix, cx, sx, bx := c19Axis(X, W, img.w)
			iy, cy, sy, by := c19Axis(Y, W, img.h)
			for _, c := range []int{cx, cy} {
				switch c {
				case c19Any:
					anyCls = true
				case c19Far:
					if !farCls {
						e.farCell = [2]int{x, y}
					}
					farCls = true
				case c19DontCare:
					dcCls = true
				}
			}
			row[x] = cellInfo{bx, by}
			if cx > c19DontCare || cy > c19DontCare {
				continue
			}
			rowOK[x] = cx == c19Inside && cy == c19Inside
			if sx || sy {
				e.skipped++
				continue
			}
			if img.at(ix, iy) {
				e.cells[y*dimX+x] = 1
			} else {
				e.cells[y*dimX+x] = 0
			}
			e.asserted++
			if bx != 0 || by != 0 {
				e.inBand++
			}
		}
		// which nudge pass does this row exercise? first pass: leading cells in a
		// band while the last cell is plainly inside (so the pass from the end
		// stops at once); last pass: the mirror image.
		if dimX >= 2 && rowOK[0] && rowOK[dimX-1] {
			f, l := row[0], row[dimX-1]
			name := func(b cellInfo) []string {
				var s []string
				if b.bx < 0 {
					s = append(s, "left")
				} else if b.bx > 0 {
					s = append(s, "right")
				}
				if b.by < 0 {
					s = append(s, "top")
				} else if b.by > 0 {
					s = append(s, "bottom")
				}
				return s
			}
			if (f.bx != 0 || f.by != 0) && l.bx == 0 && l.by == 0 {
				for _, s := range name(f) {
					e.rowTally["firstpass_"+s]++
				}
			}
			if (l.bx != 0 || l.by != 0) && f.bx == 0 && f.by == 0 {
				for _, s := range name(l) {
					e.rowTally["lastpass_"+s]++
				}
			}
			if (l.bx != 0 || l.by != 0) && (f.bx != 0 || f.by != 0) {
				e.rowTally["bothpasses"]++
			}
		}
	}
	switch {
	case anyCls:
		e.cls = c19Any
	case farCls:
		e.cls = c19Far
	case dcCls:
		e.cls = c19DontCare
	default:
		e.cls = c19Inside
	}
	return e
}
